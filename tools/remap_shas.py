#!/usr/bin/env python3
"""Rewrite commit ids in known_findings.json that are not on /repo main to the cherry-picked commit with the same subject."""
import json,subprocess,re
def git(*a): return subprocess.run(['git','-C','/repo',*a],capture_output=True,text=True).stdout.strip()
main={}
for l in git('log','--format=%h\t%s','main').split('\n'):
    h,s=l.split('\t',1); main.setdefault(s,h)
k=json.load(open('/verif/known_findings.json'))
for e in k['findings']:
    c=e.get('commit')
    if not c: continue
    if subprocess.run(['git','-C','/repo','merge-base','--is-ancestor',c,'main'],capture_output=True).returncode==0: continue
    subj=git('log','-1','--format=%s',c)
    if subj in main:
        new=main[subj]; e['commit']=new; e['description']=e['description'].replace(c,new); print('remapped',c,'->',new)
    else: print('NOT FOUND on main:',c,subj)
json.dump(k,open('/verif/known_findings.json','w'),indent=1)
