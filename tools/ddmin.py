#!/usr/bin/env python3
"""tools/ddmin.py <file.elk> <substring>: line-level delta debugging keeping `substring` in the output of elk.debug run."""
import subprocess,sys,os,tempfile
src=open(sys.argv[1]).read().split('\n'); pat=sys.argv[2]
env=dict(os.environ,ELKPATH=os.environ.get('ELKPATH','/repo'),NO_COLOR='1')
def fails(lines):
    f=tempfile.NamedTemporaryFile('w',suffix='.elk',delete=False); f.write('\n'.join(lines)); f.close()
    try:
        r=subprocess.run(['/verif/.build/elk.debug','run',f.name],capture_output=True,text=True,timeout=20,env=env,cwd='/tmp')
        out=r.stdout+r.stderr
    except subprocess.TimeoutExpired: out='TIMEOUT'
    os.unlink(f.name)
    return pat in out
assert fails(src)
n=2
while len(src)>=2:
    chunk=max(1,len(src)//n); reduced=False
    for i in range(0,len(src),chunk):
        cand=src[:i]+src[i+chunk:]
        if cand and fails(cand):
            src=cand; n=max(n-1,2); reduced=True; break
    if not reduced:
        if chunk==1: break
        n=min(n*2,len(src))
print('\n'.join(src))
