#!/bin/bash
# tools/eval_seeded.sh cNN [CHECKS...] : evaluate the seeded change in /tmp/mut/cNN/out against the checks
# (default: the check of the same id). Uses a scratch worktree /tmp/ev/cNN (removed afterwards unless KEEP=1).
# MUTROOT=/tmp/mut2 SUFFIX=b evaluates a second-wave change: read from /tmp/mut2/cNN/out, kept as seeded/CNNb.
n=$1; shift; N=${n^^}; checks=${@:-$N}
M=${MUTROOT:-/tmp/mut}/$n; E=/tmp/ev/$n$SUFFIX; S=/verif/seeded/$N$SUFFIX
mkdir -p $S /tmp/ev
[ -d $M/out ] && cp -r $M/out/. $S/
git -C /repo worktree remove --force $E 2>/dev/null; rm -rf $E
git -C /repo worktree add -q -f --detach $E HEAD || exit 2
if ! git -C $E apply $S/patch.diff; then echo "PATCH DOES NOT APPLY to current main"; git -C /repo worktree remove --force $E; exit 3; fi
export GOFLAGS= GOPROXY=off
( cd $E && go build -o $E/elk.bin ./cmd/elk ) || { echo "BUILD FAILED"; exit 4; }
res="$S/eval.log"; : > $res
if [ -f $S/demo.elk ]; then
  exp=$(ls $S/demo.expected* 2>/dev/null | head -1)
  ( cd /tmp && ELKPATH=$E NO_COLOR=1 timeout 120 $E/elk.bin run $S/demo.elk > $S/demo.out.patched 2>&1 )
  ( cd /tmp && ELKPATH=/repo NO_COLOR=1 timeout 120 /verif/.build/elk run $S/demo.elk > $S/demo.out.unpatched 2>&1 )
  if [ -n "$exp" ]; then
    cmp -s $exp $S/demo.out.unpatched && echo "demo: unpatched matches expected" >> $res || echo "demo: UNPATCHED DIFFERS FROM EXPECTED" >> $res
    cmp -s $exp $S/demo.out.patched && echo "demo: PATCHED MATCHES EXPECTED (no breakage shown)" >> $res || echo "demo: patched differs from expected (breakage shown)" >> $res
  fi
fi
for c in $checks; do
  ( cd /verif && VERIF_SHRINKTIME=5s VERIF_NO_MINIMIZE=1 VERIF_REPO=$E ./check $c quick > $S/check_$c.log 2>&1 ); rc=$?
  echo "check $c quick on patched tree: exit=$rc $(grep "^\[$c" $S/check_$c.log | tail -1)" >> $res
  grep "^VIOLATION" $S/check_$c.log | head -3 >> $res
done
cat $res
tag=$(python3 -c "import hashlib,sys;print(hashlib.sha1(sys.argv[1].encode()).hexdigest()[:10])" $E)
if [ -z "$KEEP" ]; then git -C /repo worktree remove --force $E; rm -rf $E /verif/.build-$tag; fi
