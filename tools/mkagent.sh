#!/bin/bash
# tools/mkagent.sh <name>: private sandbox for a builder/mutation agent: /tmp/ag/<name>/{repo,verif}
set -e
n=$1; A=/tmp/ag/$n
mkdir -p /tmp/ag
git -C /repo worktree add -q -f -B ag-$n $A/repo HEAD
if [ "$2" != "repo-only" ]; then
  mkdir -p $A/verif
  rsync -a --exclude .git --exclude .build --exclude out --exclude evidence /verif/ $A/verif/
  sed -i "s#=> /repo#=> $A/repo#" $A/verif/harness/go.mod
  mkdir -p $A/verif/evidence
fi
echo $A
