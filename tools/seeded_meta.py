#!/usr/bin/env python3
"""Writes /verif/seeded/<ID>/meta.json from the table below plus the evaluation logs, and SEEDED.md (summary table)."""
import json,os,re,glob
V=os.path.dirname(os.path.dirname(os.path.abspath(__file__)))
T=json.load(open(V+'/seeded/table.json'))
rows=[]
for sid,e in sorted(T.items()):
    d=V+'/seeded/'+sid
    if not os.path.isdir(d): continue
    ev=open(d+'/eval.log').read() if os.path.exists(d+'/eval.log') else ''
    checks=re.findall(r'check (C\d+) quick(?: \([^)]*\))? on patched tree: exit=(\d+) (.*)',ev)
    caught=sorted({c for c,rc,_ in checks if rc=='1'})
    meta={"id":sid,"property":e['property'],"change":e['change'],"needs_to_manifest":e['needs'],
          "origin":"written by a fresh sub-agent that was given only the property text and a scratch worktree (tools/MUTATION_PROMPT.md)",
          "files":sorted(os.path.basename(f) for f in glob.glob(d+'/*') if not f.endswith('meta.json')),
          "demonstration":("demo: "+"; ".join(l[6:] for l in ev.split('\n') if l.startswith('demo:'))) or e.get('demo',''),
          "existing_tests":e.get('tests','see README.md (packages run by the sub-agent with the change applied)'),
          "what_i_ran":[("VERIF_REPO=<scratch worktree with patch.diff applied on /repo main> ./check %s quick -> exit %s; %s"%(c,rc,rest)) for c,rc,rest in checks]+e.get('extra_runs',[]),
          "caught_by":caught,"missed_by":sorted({c for c,rc,_ in checks if rc=='0'}-set(caught)),"notes":e.get('notes','')}
    json.dump(meta,open(d+'/meta.json','w'),indent=1)
    rows.append('| %s | %s | %s | %s | %s |'%(sid,e['property'],e['change'][:110],e['needs'][:110],', '.join(caught) or ('MISSED' if checks else 'not yet run')))
open(V+'/SEEDED.md','w').write('# Seeded changes (realistic breakage written by independent sub-agents)\n\n| id | property | change | needs | caught by |\n|---|---|---|---|---|\n'+'\n'.join(rows)+'\n')
print(len(rows),'seeded changes')
