#!/bin/bash
# tools/mkmut.sh cNN : scratch worktree for a mutation agent: /tmp/mut/cNN/repo (detached at main HEAD)
set -e
n=$1; M=/tmp/mut/$n
git -C /repo worktree add -q -f --detach $M/repo HEAD
echo $M
