#!/bin/bash
# tools/integrate.sh cNN : bring an agent's hand-over into /verif and /repo
set -e
n=$1; N=${n^^}; A=/tmp/ag/$n
cd /verif
rsync -a $A/verif/harness/props/$n/ harness/props/$n/
mkdir -p replay/$N; rsync -a $A/verif/replay/$N/ replay/$N/ 2>/dev/null || true
# new internal packages
for d in $A/verif/harness/internal/*/; do b=$(basename $d); [ -d harness/internal/$b ] || { echo "new internal package $b"; rsync -a $d harness/internal/$b/; }; done
cp $A/verif/notes.$N.md notes/ 2>/dev/null || { mkdir -p notes; cp $A/verif/notes.$N.md notes/; }
python3 - "$N" "$A" <<'PY'
import json,sys,os
N,A=sys.argv[1],sys.argv[2]
p=json.load(open('props.json')); q=json.load(open(A+'/verif/props.%s.json'%N)); p.update(q); json.dump(p,open('props.json','w'),indent=1)
kf=A+'/verif/known.%s.json'%N
if os.path.exists(kf):
    k=json.load(open('known_findings.json')); add=json.load(open(kf))
    if isinstance(add,dict): add=add.get('findings',[])
    have={(e['property'],e['key']) for e in k['findings']}
    for e in add:
        if (e['property'],e['key']) not in have: k['findings'].append(e)
    json.dump(k,open('known_findings.json','w'),indent=1)
PY
echo "--- fix commits on ag-$n:"
git -C /repo log --oneline main..ag-$n
git -C $A/repo status --short | head
