#!/usr/bin/env python3
"""Regenerates MANIFEST.json from props.json (claimed checks) and properties.jsonl (ids).
Every property without a props.json entry that has "claimed": true is listed under not_applicable."""
import json, os
V = os.path.dirname(os.path.abspath(__file__))
props = json.load(open(os.path.join(V, "props.json")))
ids = [json.loads(l)["id"] for l in open(os.path.join(V, "properties.jsonl")) if l.strip()]
checks, na = [], []
for i in ids:
    c = props.get(i)
    if c and c.get("claimed", True) and os.path.isdir(os.path.join(V, "harness", "props", i.lower())):
        checks.append({
            "property_id": i,
            "quick_cmd": "./check %s quick" % i,
            "thorough_cmd": "./check %s thorough" % i,
            "evidence_file": "/verif/evidence/%s.json" % i,
            "replay_cmd_template": "./check %s --replay {path}" % i,
            "engine": "rapid-pbt",
            "level_claimed": {"category": "exploration", "text": c.get("level_text", ""), "design_ref": "DESIGN.md §3 " + i},
            "level_note": c.get("level_note", ""),
            "technique": c.get("technique", "property-based testing (rapid): generated inputs against an explicit oracle, shrunk to a replay file"),
        })
    else:
        na.append({"property_id": i, "reason": (c or {}).get("na_reason", "no generated-input check has been built for this property yet in this session; not claimed")})
m = {
    "version": 1,
    "setup_cmd": "./check setup",
    "hooks": {
        "guard": "verif",
        "enable": "go build/test -tags verif (the harness module /verif/harness replaces github.com/elk-language/elk with /repo and always builds with -tags verif)",
        "baseline_off_cmd": "cd /repo && env -u ELKPATH GOFLAGS= GOPROXY=off go test -vet=off -count=1 -timeout 60m ./...",
        "source_commits": json.load(open(os.path.join(V, "hooks.json")))["source_commits"] if os.path.exists(os.path.join(V, "hooks.json")) else [],
        "add_only": True,
    },
    "engines": [{"name": "rapid-pbt", "path": "/verif/harness", "serves_properties": [c["property_id"] for c in checks],
                 "kind_free_text": "Go module with one rapid (pgregory.net/rapid v1.3.0) property package per property, sharded over processes by /verif/driver.py; program-level checks execute generated Elk programs in disposable worker subprocesses"}],
    "checks": checks,
    "not_applicable": na,
    "notes": "All checks: exit 0 = held, exit 1 + VIOLATION line = violated, exit 2 = inconclusive (harness does not build against the modified tree, time cap). known_findings.json lists genuine defects (fixed / known).",
}
json.dump(m, open(os.path.join(V, "MANIFEST.json"), "w"), indent=1)
print("checks:", len(checks), "not claimed:", len(na))
