#!/usr/bin/env python3
"""Driver for the elk verification harness.

  ./check <Cnn> quick|thorough          run replay tier + generated search, write evidence/<Cnn>.json
  ./check <Cnn> --replay <file>         re-execute one saved case through the oracle (no generator)
  ./check setup                         build everything once (warms the Go build cache)

Exit status: 0 property held on everything explored (KNOWN-FINDING lines allowed)
             1 violation (a line `VIOLATION property=<id> replay=<path>` is printed)
             2 infrastructure problem / inconclusive (never a violation)
"""
import json, os, shutil, subprocess, sys, time, glob, hashlib, tempfile, signal, resource

VERIF = os.path.dirname(os.path.abspath(__file__))
HARNESS = os.path.join(VERIF, "harness")
REPO = os.path.abspath(os.environ.get("VERIF_REPO") or "/repo")
# a tree other than /repo (a scratch worktree with a seeded change applied) gets its own build and
# output directories, so that such runs never touch the binaries, evidence or violations of /repo runs
ALT = REPO != "/repo"
TAG = hashlib.sha1(REPO.encode()).hexdigest()[:10] if ALT else ""
BUILD = os.path.join(VERIF, ".build" + ("-" + TAG if ALT else ""))
EVIDENCE_DIR = os.path.join(VERIF, "evidence") if not ALT else os.path.join(BUILD, "evidence")
OUT_DIR = os.path.join(VERIF, "out") if not ALT else os.path.join(BUILD, "out")
NCPU = os.cpu_count() or 4

PROPS = json.load(open(os.path.join(VERIF, "props.json")))


def find_go():
    cands = glob.glob("/root/go/pkg/mod/golang.org/toolchain@v0.0.1-go1.25.0.linux-amd64/bin/go")
    for c in cands:
        if os.access(c, os.X_OK):
            return c, "local"
    return shutil.which("go") or "go", "auto"


GO, TOOLCHAIN = find_go()


def go_env():
    e = dict(os.environ)
    e.update({"GOFLAGS": "-mod=mod", "GOPROXY": "off", "GOTOOLCHAIN": TOOLCHAIN, "ELKPATH": REPO})
    if TOOLCHAIN == "auto":
        e.pop("GOSUMDB", None)  # toolchain switching needs the checksum db setting untouched
    else:
        e["GOSUMDB"] = "off"
    return e


def log(*a):
    print("[driver]", *a, file=sys.stderr, flush=True)


def run(cmd, **kw):
    return subprocess.run(cmd, **kw)


def modfile_args():
    """go.mod of the harness says `replace elk => /repo`; for another tree use an alternate modfile."""
    if not ALT:
        return []
    os.makedirs(BUILD, exist_ok=True)
    mf = os.path.join(BUILD, "go.mod")
    txt = open(os.path.join(HARNESS, "go.mod")).read().replace("=> /repo", "=> " + REPO)
    open(mf, "w").write(txt)
    shutil.copyfile(os.path.join(HARNESS, "go.sum"), os.path.join(BUILD, "go.sum"))
    return ["-modfile=" + mf]


def build(prop_id, cfg):
    """Rebuild what the property needs from /repo's current working tree."""
    os.makedirs(BUILD, exist_ok=True)
    env = go_env()
    mf = modfile_args()
    tags = "verif"
    pkg = "./props/" + prop_id.lower()
    targets = [([GO, "test"] + mf + ["-c", "-vet=off", "-tags", tags, "-o", os.path.join(BUILD, prop_id.lower() + ".test"), pkg], "test binary")]
    if cfg.get("race"):
        targets.append(([GO, "test"] + mf + ["-c", "-vet=off", "-race", "-tags", tags, "-o", os.path.join(BUILD, prop_id.lower() + ".race.test"), pkg], "race test binary"))
    if cfg.get("worker"):
        targets.append(([GO, "build"] + mf + ["-tags", tags + " debug", "-o", os.path.join(BUILD, "elkworker.debug"), "./cmd/elkworker"], "worker (debug)"))
        targets.append(([GO, "build"] + mf + ["-tags", tags, "-o", os.path.join(BUILD, "elkworker"), "./cmd/elkworker"], "worker"))
    if cfg.get("worker_race"):
        targets.append(([GO, "build"] + mf + ["-race", "-tags", tags, "-o", os.path.join(BUILD, "elkworker.race"), "./cmd/elkworker"], "worker (race)"))
    if cfg.get("elkbin"):
        targets.append(([GO, "build"] + mf + ["-o", os.path.join(BUILD, "elk"), "github.com/elk-language/elk/cmd/elk"], "elk binary"))
    if cfg.get("corpus"):
        targets.append(([GO, "build"] + mf + ["-o", os.path.join(BUILD, "corpusgen"), "./cmd/corpusgen"], "corpusgen"))
    procs = []
    for cmd, what in targets:
        procs.append((subprocess.Popen(cmd, cwd=HARNESS, env=env, stdout=subprocess.PIPE, stderr=subprocess.STDOUT, text=True), what))
    ok = True
    for p, what in procs:
        out, _ = p.communicate()
        if p.returncode != 0:
            ok = False
            log("build of %s failed:\n%s" % (what, out[-4000:]))
    if ok and cfg.get("corpus"):
        r = run([os.path.join(BUILD, "corpusgen"), os.path.join(BUILD, "corpus.json")], env=env, capture_output=True, text=True)
        if r.returncode != 0:
            log("corpus extraction failed: " + r.stderr[-2000:])
            ok = False
    return ok


def shard_env(prop_id, cfg, tier, seed, idx, n, tmp, mode):
    e = go_env()
    e.update({
        "VERIF_TIER": tier, "VERIF_SEED": str(seed), "VERIF_SHARD": str(idx), "VERIF_SHARDS": str(n),
        "VERIF_MODE": mode, "VERIF_EVIDENCE_OUT": os.path.join(tmp, "%s-%d.json" % (mode, idx)),
        "VERIF_FAIL_DIR": os.path.join(tmp, "fails"), "VERIF_KNOWN": os.path.join(VERIF, "known_findings.json"),
        "VERIF_REPLAY_DIR": os.path.join(VERIF, "replay", prop_id), "VERIF_BUILD": BUILD,
        "VERIF_TMP": os.path.join(tmp, "w%d" % idx),
    })
    if cfg.get("corpus"):
        e["VERIF_CORPUS"] = os.path.join(BUILD, "corpus.json")
    if cfg.get("mem_limit_mb"):
        e["VERIF_MEM_LIMIT_MB"] = str(cfg["mem_limit_mb"])
    if cfg.get("crash_is_violation"):
        e["VERIF_JOURNAL"] = os.path.join(tmp, "fails", "journal-%d.json" % idx)
    e.pop("VERIF_REPLAY_FILE", None)
    return e


def run_procs(specs, timeout):
    """specs: list of (cmd, env, logpath). Returns list of (rc, timed_out)."""
    procs = []
    for cmd, env, logpath in specs:
        f = open(logpath, "wb")
        os.makedirs(env["VERIF_TMP"], exist_ok=True)
        lim = int(env.get("VERIF_MEM_LIMIT_MB", "0") or 0)

        def pre(lim=lim):
            # an unbounded allocation loop in code under test must kill the shard, not the machine
            if lim > 0:
                resource.setrlimit(resource.RLIMIT_AS, (lim << 20, lim << 20))
        procs.append((subprocess.Popen(cmd, env=env, cwd=env["VERIF_TMP"], stdout=f, stderr=subprocess.STDOUT, start_new_session=True, preexec_fn=pre), f))
    deadline = time.time() + timeout
    res = []
    for p, f in procs:
        left = max(0.1, deadline - time.time())
        to = False
        try:
            p.wait(timeout=left)
        except subprocess.TimeoutExpired:
            to = True
            try:
                os.killpg(p.pid, signal.SIGKILL)
            except Exception:
                pass
            p.wait()
        f.close()
        res.append((p.returncode, to))
    return res


GEN_FAULT_SAMPLES = []


def merge(files):
    tests, distinct, violations, known, inconc, capped = {}, set(), [], [], 0, False
    for f in files:
        try:
            d = json.load(open(f))
        except Exception:
            continue
        distinct.update(d.get("distinct") or [])
        capped = capped or d.get("distinct_capped", False)
        violations += d.get("violations") or []
        for l in d.get("known_lines") or []:
            if l not in known:
                known.append(l)
        inconc += d.get("inconclusive", 0)
        for m in (d.get("generator_fault_samples") or []):
            if len(GEN_FAULT_SAMPLES) < 3:
                GEN_FAULT_SAMPLES.append(m)
        for name, t in (d.get("tests") or {}).items():
            m = tests.setdefault(name, {"evaluations": 0, "nontrivial_evaluations": 0, "labels": {}, "excluded": {}, "samples": [], "rule": "", "wall_s": 0.0, "requested": 0})
            m["evaluations"] += t.get("evaluations", 0)
            m["nontrivial_evaluations"] += t.get("nontrivial_evaluations", 0)
            m["requested"] += t.get("requested", 0)
            m["wall_s"] = max(m["wall_s"], t.get("wall_s", 0.0))
            m["rule"] = m["rule"] or t.get("rule", "")
            for k, v in (t.get("labels") or {}).items():
                m["labels"][k] = m["labels"].get(k, 0) + v
            for k, v in (t.get("excluded") or {}).items():
                m["excluded"][k] = m["excluded"].get(k, 0) + v
            if len(m["samples"]) < 6:
                m["samples"] += (t.get("samples") or [])[: 6 - len(m["samples"])]
    return tests, distinct, violations, known, inconc, capped


def clip(v, n=500):
    """Truncate long strings inside a sample so evidence files stay readable."""
    if isinstance(v, str):
        return v if len(v) <= n else v[:n] + "…(+%d chars)" % (len(v) - n)
    if isinstance(v, list):
        return [clip(x, n) for x in v[:40]]
    if isinstance(v, dict):
        return {k: clip(x, n) for k, x in v.items()}
    return v


def tail(path, n=3000):
    try:
        b = open(path, "rb").read()
        return b[-n:].decode("utf-8", "replace")
    except Exception:
        return ""


def check(prop_id, tier, replay_file=None):
    cfg = PROPS.get(prop_id)
    if cfg is None:
        log("unknown property", prop_id)
        return 2
    start = time.time()
    seed = int(os.environ.get("VERIF_SEED", "1") or "1")
    if not build(prop_id, cfg):
        log("harness for %s does not build against the current tree: inconclusive" % prop_id)
        return 2
    tmp = tempfile.mkdtemp(prefix="verif-%s-" % prop_id, dir=os.environ.get("VERIF_SCRATCH", "/var/tmp"))
    try:
        return _check(prop_id, cfg, tier, seed, tmp, start, replay_file)
    finally:
        shutil.rmtree(tmp, ignore_errors=True)


def _check(prop_id, cfg, tier, seed, tmp, start, replay_file):
    binp = os.path.join(BUILD, prop_id.lower() + ".test")
    os.makedirs(os.path.join(tmp, "fails"), exist_ok=True)
    tcfg = cfg.get(tier, {})
    timeout = tcfg.get("timeout_s", 900 if tier == "quick" else 3600)
    go_timeout = "-test.timeout=%ds" % (timeout + 60)

    # --- replay tier -------------------------------------------------------
    env = shard_env(prop_id, cfg, tier, seed, 0, 1, tmp, "replay")
    if replay_file:
        env["VERIF_REPLAY_FILE"] = os.path.abspath(replay_file)
    rlog = os.path.join(tmp, "replay.log")
    (rc, to), = run_procs([([binp, go_timeout], env, rlog)], min(timeout, 900))
    files = [env["VERIF_EVIDENCE_OUT"]]
    infra = []
    if to:
        infra.append("replay tier timed out")
    elif rc not in (0, 1):
        infra.append("replay tier died rc=%s: %s" % (rc, tail(rlog, 1500)))
    elif rc == 1 and not os.path.exists(env["VERIF_EVIDENCE_OUT"]):
        infra.append("replay tier failed without evidence: %s" % tail(rlog, 1500))

    # --- search tier -------------------------------------------------------
    crashes = []
    if not replay_file:
        runs = [("search", binp, tcfg.get("shards", cfg.get("shards", NCPU)))]
        if cfg.get("race"):
            runs.append(("race", os.path.join(BUILD, prop_id.lower() + ".race.test"), tcfg.get("race_shards", 4)))
        specs, meta = [], []
        for mode, b, n in runs:
            for i in range(n):
                e = shard_env(prop_id, cfg, tier, seed, i, n, tmp, "search")
                e["VERIF_EVIDENCE_OUT"] = os.path.join(tmp, "%s-%d.json" % (mode, i))
                e["VERIF_TMP"] = os.path.join(tmp, "%s%d" % (mode, i))
                if mode == "race":
                    e["VERIF_RACE"] = "1"
                lp = os.path.join(tmp, "%s-%d.log" % (mode, i))
                specs.append(([b, go_timeout], e, lp))
                meta.append((mode, i, lp, e["VERIF_EVIDENCE_OUT"]))
        results = run_procs(specs, timeout)
        for (rc, to), (mode, i, lp, evf) in zip(results, meta):
            files.append(evf)
            if to:
                infra.append("%s shard %d hit the wall-clock cap (%ds): inconclusive" % (mode, i, timeout))
            elif rc not in (0, 1):
                crashes.append((mode, i, rc, lp))
            elif rc == 1 and not os.path.exists(evf):
                infra.append("%s shard %d failed without evidence: %s" % (mode, i, tail(lp, 1500)))

    tests, distinct, violations, known, inconc, capped = merge(files)

    # a shard that died (Go fatal error, os.Exit from code under test, OOM) --------
    outdir = os.path.join(OUT_DIR, "violations", prop_id)
    for mode, i, rc, lp in crashes:
        j = os.path.join(tmp, "fails", "journal-%d.json" % i)
        t = tail(lp, 6000)
        if rc == 3 and "HANG " in t:
            hp = t[t.rindex("HANG ") + 5:].split("\n")[0].strip()
            if os.path.exists(hp):
                violations.append({"test": "hang", "replay": hp, "msg": "oracle call did not return (hang)"})
                continue
        if cfg.get("crash_is_violation") and os.path.exists(j) and ("fatal error:" in t or "panic:" in t or "SIGSEGV" in t or "goroutine " in t or "out of memory" in t or "cannot allocate memory" in t):
            try:
                jd = json.load(open(j))
                jd["observed"] = "test process died (rc=%s): %s" % (rc, t[-3000:])
                p = os.path.join(tmp, "fails", "crash-%s-%d.json" % (mode, i))
                json.dump(jd, open(p, "w"), indent=1)
                violations.append({"test": jd.get("test", "?"), "replay": p, "msg": "process died: " + t[-600:]})
                continue
            except Exception:
                pass
        infra.append("%s shard %d died rc=%s: %s" % (mode, i, rc, t[-1500:]))

    # --- report -------------------------------------------------------------
    for l in known:
        print(l)
    vio_lines = []
    seen = set()
    for v in violations:
        src = v.get("replay", "")
        dst = src
        if src.startswith(tmp) and os.path.exists(src):
            os.makedirs(outdir, exist_ok=True)
            dst = os.path.join(outdir, os.path.basename(src))
            shutil.copyfile(src, dst)
        if dst in seen:
            continue
        seen.add(dst)
        vio_lines.append("VIOLATION property=%s replay=%s" % (prop_id, dst))
        log("violation in %s: %s" % (v.get("test"), (v.get("msg") or "")[:1500]))

    evaluations = sum(t["evaluations"] for t in tests.values())
    requested = sum(t["requested"] for t in tests.values())
    samples = []
    for name, t in sorted(tests.items()):
        for s in t["samples"][:3]:
            samples.append({"test": name, "case": clip(s)})
    rule = " || ".join("%s: %s" % (n, t["rule"]) for n, t in sorted(tests.items()) if t["rule"])
    ev = {
        "property_id": prop_id, "tier": tier, "seed": seed, "level": "exploration",
        "coverage": {
            "evaluations": evaluations, "distinct_nontrivial": len(distinct), "rule": rule or cfg.get("rule", ""),
            "samples": samples[:12], "requested": requested, "distinct_count_capped": capped,
            "inconclusive": inconc, "known_findings_reproduced": known,
            "per_test": {n: {k: t[k] for k in ("evaluations", "nontrivial_evaluations", "labels", "excluded", "wall_s", "requested")} for n, t in sorted(tests.items())},
            "infrastructure_notes": infra,
        },
        "assumptions": cfg.get("assumptions", []),
        "wall_s": round(time.time() - start, 2), "violations": len(vio_lines),
    }
    if not replay_file:
        os.makedirs(EVIDENCE_DIR, exist_ok=True)
        json.dump(ev, open(os.path.join(EVIDENCE_DIR, prop_id + ".json"), "w"), indent=1, ensure_ascii=False)
    starved = resource_starved(tmp)
    if starved and vio_lines:
        # a full disk makes compilers, linkers and workers fail in ways an oracle cannot tell from a wrong
        # result: nothing found under that condition is reported (exit 2 = inconclusive, never a violation)
        log("%s: %d violation candidate(s) discarded, run is inconclusive" % (starved, len(vio_lines)))
        for l in vio_lines:
            log("discarded:", l)
        print("[%s %s seed=%d] evaluations=%d inconclusive: %s" % (prop_id, tier, seed, evaluations, starved))
        return 2
    for l in vio_lines:
        print(l)
    print("[%s %s seed=%d] evaluations=%d distinct_nontrivial=%d violations=%d known=%d inconclusive=%d wall=%.1fs" % (
        prop_id, tier, seed, evaluations, len(distinct), len(vio_lines), len(known), inconc, time.time() - start))
    for n in infra:
        log("note:", n)
    if vio_lines:
        return 1
    gen_faults = sum(t["labels"].get("generator_fault", 0) for t in tests.values())
    if gen_faults:
        # cases whose oracle blamed the harness's own generator (program outside its intended domain): discarded
        log("%d case(s) discarded as generator faults; first: %s" % (gen_faults, " || ".join(GEN_FAULT_SAMPLES)[:1500]))
        if gen_faults > max(3, evaluations // 100):
            log("generator health: more than 1% of the cases were generator faults: inconclusive")
            return 2
    if replay_file:
        return 0 if not infra else 2
    if infra and (evaluations == 0 or evaluations * 2 < requested):
        return 2
    if evaluations == 0:
        return 2
    return 0


def resource_starved(*dirs):
    """non-empty when a filesystem the run writes to has (almost) no room left"""
    for d in list(dirs) + [BUILD, os.path.expanduser("~/.cache"), "/tmp"]:
        try:
            if d and os.path.exists(d) and shutil.disk_usage(d).free < 1 << 30:
                return "less than 1 GiB free on the filesystem of %s" % d
        except OSError:
            pass
    return ""


def setup():
    ok = True
    env = go_env()
    # property packages keep shared helpers in _test.go files: they are compiled by `go test -c` below
    r = run([GO, "build", "./cmd/...", "./internal/..."], cwd=HARNESS, env=env)
    ok = ok and r.returncode == 0
    for pid, cfg in sorted(PROPS.items()):
        if not os.path.isdir(os.path.join(HARNESS, "props", pid.lower())):
            continue
        ok = build(pid, cfg) and ok
    return 0 if ok else 2


def main():
    a = sys.argv[1:]
    if not a:
        print(__doc__)
        return 2
    if a[0] == "setup":
        return setup()
    prop_id = a[0].upper()
    if len(a) >= 3 and a[1] == "--replay":
        return check(prop_id, os.environ.get("VERIF_TIER", "quick"), a[2])
    tier = a[1] if len(a) > 1 else os.environ.get("VERIF_TIER", "quick")
    if tier not in ("quick", "thorough"):
        log("tier must be quick or thorough")
        return 2
    return check(prop_id, tier)


if __name__ == "__main__":
    sys.exit(main())
