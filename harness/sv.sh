#!/bin/bash
# developer helper: list survey failures; with an argument N, print source N and run it
python3 - "$@" <<'PY'
import json,glob,sys,subprocess,os
fs=sorted(glob.glob('/tmp/survey/*.json'))
if len(sys.argv)<2:
    for i,f in enumerate(fs):
        d=json.load(open(f)); print(i, d['sig'][:150]); print('     ', d['err'].split('\n')[0][:300])
else:
    d=json.load(open(fs[int(sys.argv[1])]))
    src=d['case'].get('src') if isinstance(d['case'],dict) else None
    print(d['err'][:3000])
    if src:
        open('/tmp/sv.elk','w').write(src)
        print('---- source (/tmp/sv.elk)'); print(src)
PY
