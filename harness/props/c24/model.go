package c24

import (
	"fmt"
	"math/big"
	"strings"

	"github.com/elk-language/elk/value"
)

// Elem is a JSON-able description of one element value.
//
//	int  SmallInt(I)          str  String(S)        nil / bool (I = 0|1)
//	flt  Float(I / 2)         sym  Symbol(S)        u8  UInt8(I)
//	big  BigInt 2^64 + I
type Elem struct {
	K string `json:"k"`
	I int    `json:"i,omitempty"`
	S string `json:"s,omitempty"`
}

func (e Elem) String() string {
	switch e.K {
	case "int":
		return fmt.Sprint(e.I)
	case "str":
		return fmt.Sprintf("%q", e.S)
	case "nil":
		return "nil"
	case "bool":
		return fmt.Sprint(e.I != 0)
	case "flt":
		return fmt.Sprintf("%vf", float64(e.I)/2)
	case "sym":
		return ":" + e.S
	case "u8":
		return fmt.Sprintf("%du8", e.I)
	case "big":
		return fmt.Sprintf("2^64+%d", e.I)
	}
	return "?" + e.K
}

// canon zeroes the fields a kind does not use so that struct equality is
// element equality (Elk `==` is strict: same class and same value).
func canon(e Elem) Elem {
	switch e.K {
	case "int", "flt", "big":
		return Elem{K: e.K, I: e.I}
	case "u8":
		return Elem{K: e.K, I: e.I & 0xff}
	case "bool":
		if e.I != 0 {
			return Elem{K: "bool", I: 1}
		}
		return Elem{K: "bool"}
	case "str", "sym":
		return Elem{K: e.K, S: e.S}
	}
	return Elem{K: "nil"}
}

var two64 = new(big.Int).Lsh(big.NewInt(1), 64)

func toValue(e Elem) value.Value {
	e = canon(e)
	switch e.K {
	case "int":
		return value.SmallInt(e.I).ToValue()
	case "str":
		return value.Ref(value.String(e.S))
	case "bool":
		return value.BoolVal(e.I != 0)
	case "flt":
		return value.Float(float64(e.I) / 2).ToValue()
	case "sym":
		return value.ToSymbol(e.S).ToValue()
	case "u8":
		return value.UInt8(e.I).ToValue()
	case "big":
		return value.Ref(value.ToElkBigInt(new(big.Int).Add(two64, big.NewInt(int64(e.I)))))
	}
	return value.Nil
}

// fromValue decodes an implementation value back into the element domain.
func fromValue(v value.Value) (Elem, bool) {
	if v.IsUndefined() {
		return Elem{}, false
	}
	if v.IsReference() {
		switch r := v.AsReference().(type) {
		case value.String:
			return Elem{K: "str", S: string(r)}, true
		case *value.BigInt:
			d := new(big.Int).Sub(r.ToGoBigInt(), two64)
			if d.IsInt64() {
				return Elem{K: "big", I: int(d.Int64())}, true
			}
		}
		return Elem{}, false
	}
	switch {
	case v.IsSmallInt():
		return Elem{K: "int", I: int(v.AsSmallInt())}, true
	case v.IsNil():
		return Elem{K: "nil"}, true
	case v.IsTrue():
		return Elem{K: "bool", I: 1}, true
	case v.IsFalse():
		return Elem{K: "bool"}, true
	case v.IsFloat():
		f := float64(v.AsFloat()) * 2
		if f == float64(int(f)) {
			return Elem{K: "flt", I: int(f)}, true
		}
	case v.IsInlineSymbol():
		return Elem{K: "sym", S: v.AsInlineSymbol().String()}, true
	case v.IsUInt8():
		return Elem{K: "u8", I: int(v.AsUInt8())}, true
	}
	return Elem{}, false
}

func elemsEq(a, b []Elem) bool {
	if len(a) != len(b) {
		return false
	}
	for i := range a {
		if canon(a[i]) != canon(b[i]) {
			return false
		}
	}
	return true
}

func show(es []Elem) string {
	var p []string
	for _, e := range es {
		p = append(p, e.String())
	}
	return "[" + strings.Join(p, ", ") + "]"
}

func clone(es []Elem) []Elem { return append([]Elem(nil), es...) }

// Seq identifies a container flavour.
type Seq struct {
	List bool   `json:"list"`         // ArrayList (mutable) or ArrayTuple
	ET   string `json:"et,omitempty"` // "" = ...OfValue; str|u8|flt|sym = Native...[T]
}

func (s Seq) String() string {
	n := "tuple"
	if s.List {
		n = "list"
	}
	if s.ET != "" {
		n += "<" + s.ET + ">"
	}
	return n
}

func fits(et string, es []Elem) bool {
	if et == "" {
		return true
	}
	for _, e := range es {
		if e.K != et {
			return false
		}
	}
	return true
}

func nativeList[T value.ValueInterface](es []Elem, extra int) value.Value {
	l := value.NewNativeArrayList[T](len(es) + extra)
	for _, e := range es {
		t, ok := value.Downcast[T](toValue(e))
		if !ok {
			panic("harness: element does not fit the native list type: " + e.String())
		}
		l.Append(t)
	}
	return value.Ref(l)
}

func nativeTuple[T value.ValueInterface](es []Elem) value.Value {
	l := value.NewNativeArrayTuple[T](len(es))
	for _, e := range es {
		t, ok := value.Downcast[T](toValue(e))
		if !ok {
			panic("harness: element does not fit the native tuple type: " + e.String())
		}
		l.Append(t)
	}
	return value.Ref(l)
}

// build constructs a container; extra is the spare capacity of a list.
func build(s Seq, es []Elem, extra int) value.Value {
	if !fits(s.ET, es) {
		s.ET = ""
	}
	if s.List {
		switch s.ET {
		case "str":
			return nativeList[value.String](es, extra)
		case "u8":
			return nativeList[value.UInt8](es, extra)
		case "flt":
			return nativeList[value.Float](es, extra)
		case "sym":
			return nativeList[value.Symbol](es, extra)
		}
		l := value.NewArrayListOfValue(len(es) + extra)
		for _, e := range es {
			l.Append(toValue(e))
		}
		return value.Ref(l)
	}
	switch s.ET {
	case "str":
		return nativeTuple[value.String](es)
	case "u8":
		return nativeTuple[value.UInt8](es)
	case "flt":
		return nativeTuple[value.Float](es)
	case "sym":
		return nativeTuple[value.Symbol](es)
	}
	t := value.NewArrayTupleOfValue(len(es))
	for _, e := range es {
		t.Append(toValue(e))
	}
	return value.Ref(t)
}

// contents reads a list or tuple through the Go-level element access.
func contents(v value.Value) ([]Elem, error) {
	if !v.IsReference() {
		return nil, fmt.Errorf("not a collection: %s", v.Inspect())
	}
	t, ok := v.AsReference().(value.ArrayTuple)
	if !ok {
		return nil, fmt.Errorf("not a list/tuple: %s", v.Inspect())
	}
	out := make([]Elem, 0, t.Length())
	for i := 0; i < t.Length(); i++ {
		e, ok := fromValue(t.AtVal(i))
		if !ok {
			return nil, fmt.Errorf("element %d is outside the generated domain: %s", i, t.AtVal(i).Inspect())
		}
		out = append(out, e)
	}
	return out, nil
}

func isList(v value.Value) bool {
	if !v.IsReference() {
		return false
	}
	_, ok := v.AsReference().(value.ArrayList)
	return ok
}

// ---- index and range models -------------------------------------------------

// Index is resolved against the current length when the step runs, so the
// generator needs no knowledge of the state: anchor + delta.
type Index struct {
	Anchor string `json:"a"` // zero | len | neglen | mid | negmid
	D      int    `json:"d"` // -2..2
	Kind   string `json:"k,omitempty"`
}

func (ix Index) resolve(n int) int {
	switch ix.Anchor {
	case "len":
		return n + ix.D
	case "neglen":
		return -n + ix.D
	case "mid":
		return n/2 + ix.D
	case "negmid":
		return -(n / 2) + ix.D
	}
	return ix.D
}

// norm implements "negative indices count from the end".
func norm(i, n int) (int, bool) {
	if i >= n || i < -n {
		return 0, false
	}
	if i < 0 {
		i += n
	}
	return i, true
}

// Range kinds, in the order of the eight runtime classes.
var rangeKinds = []string{"closed", "leftopen", "rightopen", "open", "beginless_closed", "beginless_open", "endless_closed", "endless_open"}

type Range struct {
	Kind string `json:"kind"`
	A    Index  `json:"a"`
	B    Index  `json:"b"`
	Via  string `json:"via"` // slice | []@1
}

func (r Range) hasStart() bool { return !strings.HasPrefix(r.Kind, "beginless") }
func (r Range) hasEnd() bool   { return !strings.HasPrefix(r.Kind, "endless") }
func (r Range) leftOpen() bool {
	return r.Kind == "leftopen" || r.Kind == "open" || r.Kind == "endless_open"
}
func (r Range) rightOpen() bool {
	return r.Kind == "rightopen" || r.Kind == "open" || r.Kind == "beginless_open"
}

func (r Range) value(a, b int) value.Value {
	av, bv := value.SmallInt(a).ToValue(), value.SmallInt(b).ToValue()
	switch r.Kind {
	case "closed":
		return value.Ref(value.NewClosedRange(av, bv))
	case "leftopen":
		return value.Ref(value.NewLeftOpenRange(av, bv))
	case "rightopen":
		return value.Ref(value.NewRightOpenRange(av, bv))
	case "open":
		return value.Ref(value.NewOpenRange(av, bv))
	case "beginless_closed":
		return value.Ref(value.NewBeginlessClosedRange(bv))
	case "beginless_open":
		return value.Ref(value.NewBeginlessOpenRange(bv))
	case "endless_closed":
		return value.Ref(value.NewEndlessClosedRange(av))
	}
	return value.Ref(value.NewEndlessOpenRange(av))
}

func (r Range) source(a, b int) string {
	lit := func(i int) string {
		if i < 0 {
			return fmt.Sprintf("(%d)", i) // `...-1` does not parse
		}
		return fmt.Sprint(i)
	}
	as, bs := lit(a), lit(b)
	switch r.Kind {
	case "closed":
		return as + "..." + bs
	case "leftopen":
		return as + "<.." + bs
	case "rightopen":
		return as + "..<" + bs
	case "open":
		return as + "<.<" + bs
	case "beginless_closed":
		return "..." + bs
	case "beginless_open":
		return "..<" + bs
	case "endless_closed":
		return as + "..."
	}
	return as + "<.."
}

const (
	sliceOK   = "ok"   // pinned: the elements s..e (possibly none)
	sliceErr  = "err"  // pinned: out-of-range error
	sliceWeak = "weak" // not pinned down: out-of-range error or empty result are both accepted
)

// sliceModel classifies a slice of a sequence of length n by the stated bounds
// a (start) and b (end).  Semantics: a bound is an index (negative counts from
// the end, outside [-n, n) is out of range); an open side excludes its bound; a
// missing side runs to the first / last element.
func sliceModel(r Range, a, b, n int) (class string, s, e int) {
	low := false
	s, e = 0, n-1
	if r.hasStart() {
		if a < -n {
			low = true
		}
		s = a
		if s < 0 {
			s += n
		}
		if r.leftOpen() {
			s++
		}
	}
	if r.hasEnd() {
		if b < -n {
			low = true
		}
		e = b
		if e < 0 {
			e += n
		}
		if r.rightOpen() {
			e--
		}
	}
	emptyish := false
	if r.hasStart() && r.hasEnd() && (a < 0) == (b < 0) {
		sr, er := a, b
		if r.leftOpen() {
			sr++
		}
		if r.rightOpen() {
			er--
		}
		emptyish = sr > er
	}
	switch {
	case emptyish:
		if !low && s >= 0 && s < n && e >= -1 && e < n {
			return sliceOK, s, e
		}
		return sliceWeak, s, e
	case low:
		return sliceErr, s, e
	case s >= n:
		if e >= s {
			return sliceErr, s, e
		}
		return sliceWeak, s, e
	case e >= n:
		return sliceErr, s, e
	}
	return sliceOK, s, e
}
