// Package c24 checks property C24: ArrayList / ArrayTuple (…OfValue and the
// element-type-specialised Native… variants) behave like a plain sequence for
// any history of operations; out-of-range access raises Std::IndexError and
// never a Go panic.
package c24

import (
	"fmt"
	"math/big"
	"runtime/debug"
	"strings"
	"testing"

	"github.com/elk-language/elk"
	"github.com/elk-language/elk/env"
	"github.com/elk-language/elk/value"
	"github.com/elk-language/elk/vm"
	"pgregory.net/rapid"

	"verif/internal/pbt"
	"verif/internal/vgen"
)

var th *vm.Thread

func TestMain(m *testing.M) {
	if env.ELKPATH == "" {
		env.ELKPATH = "/repo"
	}
	elk.InitGlobalEnvironment()
	th = vm.New()
	pbt.Main(m, "C24")
}

// Op is one step of a history.
type Op struct {
	Op    string `json:"op"`
	Idx   *Index `json:"idx,omitempty"`
	V     *Elem  `json:"v,omitempty"`
	Vs    []Elem `json:"vs,omitempty"`
	N     int    `json:"n,omitempty"`
	NK    string `json:"nk,omitempty"` // repeat count kind: int | big | i8 | str
	R     *Range `json:"r,omitempty"`
	Other *Other `json:"other,omitempty"`
}

// Other describes the second operand of + == =~, derived from the state.
type Other struct {
	Seq   Seq    `json:"seq"`
	How   string `json:"how"` // same | mut | shorter | longer | fresh
	Pos   Index  `json:"pos"`
	V     Elem   `json:"v"`
	Elems []Elem `json:"elems,omitempty"`
}

type Case struct {
	Seq   Seq    `json:"seq"`
	Extra int    `json:"extra"` // spare capacity of the initial list
	Init  []Elem `json:"init"`
	Ops   []Op   `json:"ops"`
}

// ---- generators ---------------------------------------------------------------

var elemTypes = []string{"", "", "", "str", "u8", "flt", "sym"}

func genElem(t *rapid.T, et, label string) Elem {
	k := et
	if k == "" {
		k = []string{"int", "int", "int", "str", "nil", "bool", "flt", "sym", "big", "str"}[vgen.Pick(t, 10, label+"_k")]
	}
	switch k {
	case "int":
		return Elem{K: "int", I: rapid.IntRange(-2, 4).Draw(t, label+"_i")}
	case "str":
		return Elem{K: "str", S: rapid.SampledFrom([]string{"a", "b", "", "ab"}).Draw(t, label+"_s")}
	case "bool":
		return Elem{K: "bool", I: rapid.IntRange(0, 1).Draw(t, label+"_b")}
	case "flt":
		return Elem{K: "flt", I: rapid.IntRange(-2, 5).Draw(t, label+"_f")}
	case "sym":
		return Elem{K: "sym", S: rapid.SampledFrom([]string{"a", "b", "foo"}).Draw(t, label+"_y")}
	case "u8":
		return Elem{K: "u8", I: rapid.SampledFrom([]int{0, 1, 2, 3, 255}).Draw(t, label+"_u")}
	case "big":
		return Elem{K: "big", I: rapid.IntRange(0, 2).Draw(t, label+"_g")}
	}
	return Elem{K: "nil"}
}

func genElems(t *rapid.T, et, label string, max int) []Elem {
	n := rapid.IntRange(0, max).Draw(t, label+"_n")
	out := make([]Elem, 0, n)
	for i := 0; i < n; i++ {
		out = append(out, genElem(t, et, label))
	}
	return out
}

var anchors = []string{"zero", "len", "neglen", "mid", "negmid", "zero", "len", "neglen"}

func genIndexBare(t *rapid.T, label string) Index {
	return Index{Anchor: anchors[vgen.Pick(t, len(anchors), label+"_a")], D: rapid.IntRange(-2, 2).Draw(t, label+"_d")}
}

// index value kinds: all AnyInt classes plus values far outside any length and non-integers
var indexKinds = []string{"int", "int", "int", "int", "int", "int", "i8", "i16", "i32", "i64", "u8", "u16", "u32", "u64", "uint",
	"huge", "neghuge", "u64max", "uintmax", "i64min", "str", "flt"}

func genIndex(t *rapid.T, label string) *Index {
	ix := genIndexBare(t, label)
	ix.Kind = indexKinds[vgen.Pick(t, len(indexKinds), label+"_k")]
	return &ix
}

func genRange(t *rapid.T) *Range {
	return &Range{
		Kind: rangeKinds[vgen.Pick(t, len(rangeKinds), "rk")],
		A:    genIndexBare(t, "ra"),
		B:    genIndexBare(t, "rb"),
		Via:  rapid.SampledFrom([]string{"slice", "[]@1"}).Draw(t, "via"),
	}
}

func genOther(t *rapid.T, et string, fresh bool) *Other {
	o := &Other{}
	o.Seq.List = rapid.Bool().Draw(t, "o_list")
	oet := et
	if rapid.IntRange(0, 2).Draw(t, "o_et") == 0 {
		oet = elemTypes[vgen.Pick(t, len(elemTypes), "o_etk")]
	}
	o.Seq.ET = oet
	if fresh {
		o.How = "fresh"
	} else {
		o.How = []string{"same", "same", "mut", "shorter", "longer", "fresh", "same", "mut"}[vgen.Pick(t, 8, "o_how")]
	}
	o.Pos = genIndexBare(t, "o_pos")
	// the extra element has the receiver's element type so that "same"/"mut" keep a typed operand typed
	o.V = genElem(t, et, "o_v")
	if o.How == "fresh" {
		o.Elems = genElems(t, oet, "o_e", 4)
	}
	return o
}

var listOps = []string{"get", "get", "get", "at", "set", "set", "set", "push", "push", "shl", "shl", "append", "append", "pop", "pop",
	"remove", "remove", "remove_at", "remove_at", "remove_at", "grow", "clear", "concat", "concat", "repeat", "eq", "eqv", "contains",
	"slice", "slice", "slice", "slice", "box", "ibox"}
var tupleOps = []string{"get", "get", "get", "at", "concat", "concat", "repeat", "eq", "eqv", "contains", "slice", "slice", "slice", "slice", "ibox"}

func genOp(t *rapid.T, s Seq) Op {
	var name string
	if s.List {
		name = listOps[vgen.Pick(t, len(listOps), "op")]
	} else {
		name = tupleOps[vgen.Pick(t, len(tupleOps), "op")]
	}
	if name == "clear" && rapid.IntRange(0, 3).Draw(t, "keep_clear") != 0 {
		name = "append" // clear is rare: it makes every later index out of range
	}
	op := Op{Op: name}
	switch name {
	case "get", "at":
		op.Idx = genIndex(t, "ix")
	case "set":
		op.Idx = genIndex(t, "ix")
		v := genElem(t, s.ET, "v")
		op.V = &v
	case "push", "shl", "remove", "contains":
		v := genElem(t, s.ET, "v")
		op.V = &v
	case "append":
		op.Vs = genElems(t, s.ET, "vs", 5)
	case "remove_at", "box", "ibox":
		ix := genIndexBare(t, "ix")
		ix.Kind = []string{"int", "int", "int", "int", "int", "huge", "neghuge"}[vgen.Pick(t, 7, "ixk")]
		op.Idx = &ix
	case "grow":
		op.N = rapid.IntRange(0, 9).Draw(t, "n")
	case "repeat":
		op.NK = []string{"int", "int", "int", "int", "int", "big", "i8", "str"}[vgen.Pick(t, 8, "nk")]
		op.N = rapid.IntRange(-2, 4).Draw(t, "n")
	case "concat":
		op.Other = genOther(t, s.ET, true)
	case "eq", "eqv":
		op.Other = genOther(t, s.ET, false)
	case "slice":
		op.R = genRange(t)
	}
	return op
}

func genCase(t *rapid.T) Case {
	var c Case
	c.Seq.List = rapid.IntRange(0, 3).Draw(t, "is_list") != 0
	c.Seq.ET = elemTypes[vgen.Pick(t, len(elemTypes), "et")]
	c.Extra = rapid.SampledFrom([]int{0, 0, 1, 2, 3, 6}).Draw(t, "extra")
	c.Init = genElems(t, c.Seq.ET, "init", 8)
	n := rapid.IntRange(1, 30).Draw(t, "nops")
	for i := 0; i < n; i++ {
		c.Ops = append(c.Ops, genOp(t, c.Seq))
	}
	return c
}

// ---- calling the implementation -------------------------------------------------

type outcome struct {
	val   value.Value
	err   value.Value
	panic string
}

// call invokes an Elk-visible method in-process; a Go panic is captured.
func call(name string, args ...value.Value) (o outcome) {
	defer func() {
		if r := recover(); r != nil {
			o.panic = fmt.Sprintf("%v\n%s", r, clipStack(string(debug.Stack())))
		}
	}()
	o.val, o.err = th.CallMethodByName(value.ToSymbol(name), args...)
	return o
}

func clipStack(s string) string {
	// keep the frames of the code under test, drop the recover plumbing at the top
	if i := strings.Index(s, "panic("); i >= 0 {
		s = s[i:]
	}
	if len(s) > 1800 {
		s = s[:1800] + "…"
	}
	return s
}

func (o outcome) raised() bool { return !o.err.IsUndefined() }

func errClass(err value.Value) *value.Class {
	if err.IsUndefined() {
		return nil
	}
	return err.Class()
}

func errText(err value.Value) string {
	if err.IsUndefined() {
		return "<no error>"
	}
	if err.IsReference() {
		if o, ok := err.AsReference().(*value.Object); ok {
			return o.Class().Inspect() + ": " + o.Message().Inspect()
		}
	}
	return err.Inspect()
}

var pow70 = new(big.Int).Lsh(big.NewInt(1), 70)

// indexValue builds the index argument; outOfRange reports whether the value
// is beyond any possible length (the resolved i is then irrelevant); typeErr
// reports a non-integer key.
func indexValue(kind string, i int) (v value.Value, eff int, far bool, typeErr bool, exactMsg bool) {
	small := func(lo, hi int) bool { return i >= lo && i <= hi }
	switch kind {
	case "i8":
		if small(-128, 127) {
			return value.Int8(i).ToValue(), i, false, false, false
		}
	case "i16":
		return value.Int16(i).ToValue(), i, false, false, false
	case "i32":
		return value.Int32(i).ToValue(), i, false, false, false
	case "i64":
		return value.Int64(i).ToValue(), i, false, false, false
	case "u8":
		if small(0, 255) {
			return value.UInt8(i).ToValue(), i, false, false, false
		}
	case "u16":
		if i >= 0 {
			return value.UInt16(i).ToValue(), i, false, false, false
		}
	case "u32":
		if i >= 0 {
			return value.UInt32(i).ToValue(), i, false, false, false
		}
	case "u64":
		if i >= 0 {
			return value.UInt64(i).ToValue(), i, false, false, false
		}
	case "uint":
		if i >= 0 {
			return value.UInt(i).ToValue(), i, false, false, false
		}
	case "huge":
		return value.Ref(value.ToElkBigInt(new(big.Int).Add(pow70, big.NewInt(int64(i))))), 0, true, false, false
	case "neghuge":
		return value.Ref(value.ToElkBigInt(new(big.Int).Neg(new(big.Int).Add(pow70, big.NewInt(int64(abs(i))))))), 0, true, false, false
	case "u64max":
		return value.UInt64(^uint64(0) - uint64(abs(i))).ToValue(), 0, true, false, false
	case "uintmax":
		return value.UInt(^uint(0) - uint(abs(i))).ToValue(), 0, true, false, false
	case "i64min":
		return value.Int64(-1 << 63).ToValue(), 0, true, false, false
	case "str":
		return value.Ref(value.String("1")), 0, false, true, false
	case "flt":
		return value.Float(1).ToValue(), 0, false, true, false
	}
	return value.SmallInt(i).ToValue(), i, false, false, true
}

func abs(i int) int {
	if i < 0 {
		return -i
	}
	return i
}

// ---- the oracle -------------------------------------------------------------------

type run struct {
	c       Case
	recv    value.Value
	model   []Elem
	ctx     *pbt.Ctx
	growth  bool
	negIdx  bool
	openEnd bool
	step    int
}

func (r *run) fail(format string, a ...any) error {
	return fmt.Errorf("step %d (%s) on %s %s: %s", r.step, r.c.Ops[r.step].Op, r.c.Seq, show(r.model), fmt.Sprintf(format, a...))
}

func (r *run) wantIndexError(what string, o outcome, n int, exact string) error {
	if o.panic != "" {
		return r.fail("%s: Go panic instead of an out-of-range error: %s", what, o.panic)
	}
	if !o.raised() {
		return r.fail("%s: expected Std::IndexError (length %d), got result %s", what, n, o.val.Inspect())
	}
	if errClass(o.err) != value.IndexErrorClass {
		return r.fail("%s: expected Std::IndexError (length %d), got %s", what, n, errText(o.err))
	}
	if exact != "" {
		if obj, ok := o.err.AsReference().(*value.Object); ok {
			if m := obj.Message(); m.IsReference() {
				if s, ok := m.AsReference().(value.String); ok && string(s) != exact {
					return r.fail("%s: IndexError message %q, expected %q", what, string(s), exact)
				}
			}
		}
	}
	return nil
}

func (r *run) wantClassError(what string, o outcome, class *value.Class) error {
	if o.panic != "" {
		return r.fail("%s: Go panic instead of %s: %s", what, class.Inspect(), o.panic)
	}
	if !o.raised() {
		return r.fail("%s: expected %s, got result %s", what, class.Inspect(), o.val.Inspect())
	}
	if errClass(o.err) != class {
		return r.fail("%s: expected %s, got %s", what, class.Inspect(), errText(o.err))
	}
	return nil
}

func (r *run) wantOK(what string, o outcome) error {
	if o.panic != "" {
		return r.fail("%s: Go panic: %s", what, o.panic)
	}
	if o.raised() {
		return r.fail("%s: unexpected error %s", what, errText(o.err))
	}
	return nil
}

func (r *run) wantElem(what string, o outcome, want Elem) error {
	if err := r.wantOK(what, o); err != nil {
		return err
	}
	got, ok := fromValue(o.val)
	if !ok || canon(got) != canon(want) {
		return r.fail("%s: got %s, expected %s", what, o.val.Inspect(), want)
	}
	return nil
}

func (r *run) wantSelf(what string, o outcome) error {
	if err := r.wantOK(what, o); err != nil {
		return err
	}
	if !o.val.IsReference() || o.val.AsReference() != r.recv.AsReference() {
		return r.fail("%s: expected the receiver itself as the result, got %s", what, o.val.Inspect())
	}
	return nil
}

func (r *run) wantSeq(what string, o outcome, want []Elem, wantList int) error {
	if err := r.wantOK(what, o); err != nil {
		return err
	}
	got, err := contents(o.val)
	if err != nil {
		return r.fail("%s: %v", what, err)
	}
	if !elemsEq(got, want) {
		return r.fail("%s: got %s, expected %s", what, o.val.Inspect(), show(want))
	}
	if wantList >= 0 && isList(o.val) != (wantList == 1) {
		return r.fail("%s: result %s has the wrong class (list=%v expected list=%v)", what, o.val.Inspect(), isList(o.val), wantList == 1)
	}
	if o.val.AsReference() == r.recv.AsReference() && what != "self" {
		return r.fail("%s: the result is the receiver itself, expected a new collection", what)
	}
	return nil
}

func (r *run) wantBool(what string, o outcome, want bool) error {
	if err := r.wantOK(what, o); err != nil {
		return err
	}
	if !(o.val.IsTrue() || o.val.IsFalse()) || o.val.IsTrue() != want {
		return r.fail("%s: got %s, expected %v", what, o.val.Inspect(), want)
	}
	return nil
}

// invariant compares the implementation state with the model after a step.
func (r *run) invariant() error {
	got, err := contents(r.recv)
	if err != nil {
		return r.fail("state after the step: %v", err)
	}
	if !elemsEq(got, r.model) {
		return r.fail("state after the step is %s, model says %s", r.recv.Inspect(), show(r.model))
	}
	o := call("length", r.recv)
	if o.panic != "" || o.raised() || !o.val.IsSmallInt() || int(o.val.AsSmallInt()) != len(r.model) {
		return r.fail("length returned %s / %s, model length %d", o.val.Inspect(), errText(o.err), len(r.model))
	}
	if r.c.Seq.List {
		l := r.recv.AsReference().(value.ArrayList)
		cp, lc := call("capacity", r.recv), call("left_capacity", r.recv)
		if cp.panic != "" || lc.panic != "" || !cp.val.IsSmallInt() || !lc.val.IsSmallInt() {
			return r.fail("capacity/left_capacity failed: %s %s", cp.panic, lc.panic)
		}
		c, f := int(cp.val.AsSmallInt()), int(lc.val.AsSmallInt())
		if c < len(r.model) || f != c-len(r.model) || c != l.Capacity() {
			return r.fail("capacity %d, left_capacity %d, length %d are inconsistent", c, f, len(r.model))
		}
	}
	return nil
}

func (r *run) capacity() int {
	if l, ok := r.recv.AsReference().(value.ArrayList); ok {
		return l.Capacity()
	}
	return 0
}

func (r *run) other(o *Other) (Seq, []Elem) {
	var es []Elem
	n := len(r.model)
	switch o.How {
	case "same":
		es = clone(r.model)
	case "mut":
		es = clone(r.model)
		if n > 0 {
			p := ((o.Pos.resolve(n) % n) + n) % n
			es[p] = o.V
		}
	case "shorter":
		es = clone(r.model)
		if n > 0 {
			es = es[:n-1]
		}
	case "longer":
		es = append(clone(r.model), o.V)
	default:
		es = clone(o.Elems)
	}
	s := o.Seq
	if !fits(s.ET, es) {
		s.ET = ""
	}
	return s, es
}

func oracle(c Case, ctx *pbt.Ctx) error {
	seq := c.Seq
	if !fits(seq.ET, c.Init) {
		return fmt.Errorf("GENERATOR: initial elements do not fit the element type")
	}
	r := &run{c: c, ctx: ctx, model: clone(c.Init)}
	r.recv = build(seq, c.Init, c.Extra)
	ctx.Label("seq:" + seq.String())
	for i := range c.Ops {
		r.step = i
		if err := r.apply(c.Ops[i]); err != nil {
			return err
		}
		if err := r.invariant(); err != nil {
			return err
		}
	}
	if r.growth {
		ctx.Label("nt:growth")
	}
	if r.negIdx {
		ctx.Label("nt:negative_index")
	}
	if r.openEnd {
		ctx.Label("nt:open_ended_slice")
	}
	if r.growth || r.negIdx || r.openEnd {
		ctx.NonTrivial(fmt.Sprintf("%v", c))
	}
	return nil
}

func (r *run) apply(op Op) error {
	n := len(r.model)
	recv := r.recv
	lbl := func(s string) { r.ctx.Label("op:" + op.Op + ":" + s) }
	switch op.Op {
	case "get", "at":
		name := "[]"
		if op.Op == "at" {
			name = "at"
		}
		i := op.Idx.resolve(n)
		key, eff, far, typeErr, exact := indexValue(op.Idx.Kind, i)
		o := call(name, recv, key)
		what := fmt.Sprintf("%s(%s)", name, key.Inspect())
		switch {
		case typeErr:
			lbl("type_error")
			return r.wantClassError(what, o, value.TypeErrorClass)
		case far:
			lbl("far_out_of_range")
			return r.wantIndexError(what, o, n, "")
		}
		p, ok := norm(eff, n)
		if !ok {
			lbl("out_of_range")
			msg := ""
			if exact {
				msg = fmt.Sprintf("index %d out of range: %d...%d", eff, -n, n)
			}
			return r.wantIndexError(what, o, n, msg)
		}
		if eff < 0 {
			r.negIdx = true
			lbl("negative")
		} else {
			lbl("in_range")
		}
		return r.wantElem(what, o, r.model[p])

	case "set":
		i := op.Idx.resolve(n)
		key, eff, far, typeErr, exact := indexValue(op.Idx.Kind, i)
		v := toValue(*op.V)
		o := call("[]=", recv, key, v)
		what := fmt.Sprintf("[]=(%s, %s)", key.Inspect(), v.Inspect())
		switch {
		case typeErr:
			lbl("type_error")
			return r.wantClassError(what, o, value.TypeErrorClass)
		case far:
			lbl("far_out_of_range")
			return r.wantIndexError(what, o, n, "")
		}
		p, ok := norm(eff, n)
		if !ok {
			lbl("out_of_range")
			msg := ""
			if exact {
				msg = fmt.Sprintf("index %d out of range: %d...%d", eff, -n, n)
			}
			return r.wantIndexError(what, o, n, msg)
		}
		if eff < 0 {
			r.negIdx = true
			lbl("negative")
		} else {
			lbl("in_range")
		}
		r.model[p] = *op.V
		return r.wantElem(what, o, *op.V)

	case "push", "shl":
		name := map[string]string{"push": "push", "shl": "<<"}[op.Op]
		before := r.capacity()
		o := call(name, recv, toValue(*op.V))
		r.model = append(r.model, *op.V)
		if before == n {
			r.growth = true
			lbl("growth")
		} else {
			lbl("spare")
		}
		if op.Op == "shl" {
			return r.wantSelf(name, o)
		}
		return r.wantOK(name, o)

	case "append":
		vals := value.NewArrayTupleOfValue(len(op.Vs))
		for _, e := range op.Vs {
			vals.Append(toValue(e))
		}
		before := r.capacity()
		o := call("append", recv, value.Ref(vals))
		r.model = append(r.model, op.Vs...)
		if before < len(r.model) {
			r.growth = true
			lbl("growth")
		} else {
			lbl("spare")
		}
		return r.wantSelf("append"+show(op.Vs), o)

	case "pop":
		o := call("pop", recv)
		if n == 0 {
			// not pinned down by the docs: any Elk error, but no crash and no result
			lbl("empty")
			if o.panic != "" {
				return r.fail("pop on an empty list: Go panic: %s", o.panic)
			}
			if !o.raised() {
				return r.fail("pop on an empty list returned %s instead of raising", o.val.Inspect())
			}
			return nil
		}
		lbl("nonempty")
		last := r.model[n-1]
		r.model = r.model[:n-1]
		return r.wantElem("pop", o, last)

	case "remove":
		v := canon(*op.V)
		o := call("remove", recv, toValue(v))
		var first, all []Elem
		cnt := 0
		for _, e := range r.model {
			if canon(e) == v {
				cnt++
				if cnt > 1 {
					first = append(first, e)
				}
				continue
			}
			first = append(first, e)
			all = append(all, e)
		}
		lbl(fmt.Sprintf("occurrences_%d", min(cnt, 3)))
		if err := r.wantBool("remove("+v.String()+")", o, cnt > 0); err != nil {
			return err
		}
		got, err := contents(recv)
		if err != nil {
			return r.fail("remove: %v", err)
		}
		// the docs do not say whether one or all equal elements go; both readings are accepted, nothing else
		switch {
		case elemsEq(got, all):
			r.model = all
		case elemsEq(got, first):
			r.model = first
		default:
			return r.fail("remove(%s) left %s: neither the first nor all equal elements were removed", v, recv.Inspect())
		}
		return nil

	case "remove_at":
		i := op.Idx.resolve(n)
		key, eff, far, _, exact := indexValue(op.Idx.Kind, i)
		o := call("remove_at", recv, key)
		what := fmt.Sprintf("remove_at(%s)", key.Inspect())
		if far {
			lbl("far_out_of_range")
			return r.wantIndexError(what, o, n, "")
		}
		p, ok := norm(eff, n)
		if !ok {
			lbl("out_of_range")
			msg := ""
			if exact {
				msg = fmt.Sprintf("index %d out of range: %d...%d", eff, -n, n)
			}
			return r.wantIndexError(what, o, n, msg)
		}
		if eff < 0 {
			r.negIdx = true
			lbl("negative")
		} else {
			lbl("in_range")
		}
		r.model = append(r.model[:p:p], r.model[p+1:]...)
		return r.wantOK(what, o)

	case "box", "ibox":
		name := map[string]string{"box": "box_of", "ibox": "immutable_box_of"}[op.Op]
		i := op.Idx.resolve(n)
		key, eff, far, _, exact := indexValue(op.Idx.Kind, i)
		o := call(name, recv, key)
		what := fmt.Sprintf("%s(%s)", name, key.Inspect())
		if far {
			lbl("far_out_of_range")
			return r.wantIndexError(what, o, n, "")
		}
		p, ok := norm(eff, n)
		if !ok {
			lbl("out_of_range")
			msg := ""
			if exact {
				msg = fmt.Sprintf("index %d out of range: %d...%d", eff, -n, n)
			}
			return r.wantIndexError(what, o, n, msg)
		}
		if eff < 0 {
			r.negIdx = true
		}
		lbl("in_range")
		if err := r.wantOK(what, o); err != nil {
			return err
		}
		// the box must point at the slot: reading it gives the element
		return r.wantElem(what+".get", call("get", o.val), r.model[p])

	case "grow":
		before := r.capacity()
		o := call("grow", recv, value.SmallInt(op.N).ToValue())
		if err := r.wantSelf(fmt.Sprintf("grow(%d)", op.N), o); err != nil {
			return err
		}
		if after := r.capacity(); after != before+op.N {
			return r.fail("grow(%d): capacity went from %d to %d, expected %d", op.N, before, after, before+op.N)
		}
		lbl("ok")
		return nil

	case "clear":
		o := call("clear", recv)
		r.model = r.model[:0]
		lbl("ok")
		return r.wantOK("clear", o)

	case "concat":
		os, oes := r.other(op.Other)
		ov := build(os, oes, 0)
		o := call("+", recv, ov)
		want := append(clone(r.model), oes...)
		// list + any -> list; tuple + tuple -> tuple; tuple + list -> list (value/array_tuple_of_value_test.go)
		wantList := 0
		if r.c.Seq.List || os.List {
			wantList = 1
		}
		lbl(os.String())
		if err := r.wantSeq("+ "+os.String()+show(oes), o, want, wantList); err != nil {
			return err
		}
		// the operand must be left alone
		if got, err := contents(ov); err != nil || !elemsEq(got, oes) {
			return r.fail("+ modified its argument: %s, expected %s", ov.Inspect(), show(oes))
		}
		return nil

	case "repeat":
		var nv value.Value
		switch op.NK {
		case "big":
			nv = value.Ref(value.ToElkBigInt(new(big.Int).Add(pow70, big.NewInt(int64(abs(op.N))))))
		case "i8":
			nv = value.Int8(op.N).ToValue()
		case "str":
			nv = value.Ref(value.String("2"))
		default:
			nv = value.SmallInt(op.N).ToValue()
		}
		o := call("*", recv, nv)
		what := "* " + nv.Inspect()
		switch {
		case op.NK == "i8" || op.NK == "str":
			lbl("type_error")
			return r.wantClassError(what, o, value.TypeErrorClass)
		case op.NK == "big":
			lbl("too_large")
			return r.wantClassError(what, o, value.OutOfRangeErrorClass)
		case op.N < 0:
			lbl("negative")
			return r.wantClassError(what, o, value.OutOfRangeErrorClass)
		}
		lbl("ok")
		var want []Elem
		for k := 0; k < op.N; k++ {
			want = append(want, r.model...)
		}
		wantList := 0
		if r.c.Seq.List {
			wantList = 1
		}
		return r.wantSeq(what, o, want, wantList)

	case "eq", "eqv":
		os, oes := r.other(op.Other)
		ov := build(os, oes, 0)
		same := elemsEq(oes, r.model)
		name, want := "==", same && os.List == r.c.Seq.List
		if op.Op == "eqv" {
			name, want = "=~", same
		}
		lbl(fmt.Sprintf("%s:%v", op.Other.How, want))
		return r.wantBool(fmt.Sprintf("%s %s%s", name, os, show(oes)), call(name, recv, ov), want)

	case "contains":
		v := canon(*op.V)
		want := false
		for _, e := range r.model {
			if canon(e) == v {
				want = true
			}
		}
		lbl(fmt.Sprint(want))
		return r.wantBool("contains("+v.String()+")", call("contains", recv, toValue(v)), want)

	case "slice":
		a, b := op.R.A.resolve(n), op.R.B.resolve(n)
		class, s, e := sliceModel(*op.R, a, b, n)
		rv := op.R.value(a, b)
		o := call(op.R.Via, recv, rv)
		what := fmt.Sprintf("%s(%s)", op.R.Via, op.R.source(a, b))
		if !op.R.hasStart() || !op.R.hasEnd() {
			r.openEnd = true
		}
		if (op.R.hasStart() && a < 0) || (op.R.hasEnd() && b < 0) {
			lbl("negative_bound:" + class)
		}
		lbl(op.R.Kind + ":" + class)
		switch class {
		case sliceErr:
			return r.wantIndexError(what, o, n, "")
		case sliceWeak:
			if o.panic != "" {
				return r.fail("%s: Go panic: %s", what, o.panic)
			}
			if o.raised() {
				if errClass(o.err) != value.IndexErrorClass {
					return r.fail("%s: expected Std::IndexError or an empty result, got %s", what, errText(o.err))
				}
				return nil
			}
			return r.wantSeq(what, o, nil, -1)
		}
		var want []Elem
		if e >= s {
			want = clone(r.model[s : e+1])
		}
		// the class of the result is not checked: the headers promise a list for ArrayList#[] and a
		// tuple for Tuple#slice, the tests only pin the elements
		return r.wantSeq(what, o, want, -1)
	}
	return fmt.Errorf("GENERATOR: unknown op %q", op.Op)
}

func TestHistories(t *testing.T) {
	pbt.Rule("histories", "a container flavour (ArrayList/ArrayTuple x OfValue/Native[String|UInt8|Float|Symbol]), initial elements (0-8) with 0-6 spare slots, then 1-30 operations drawn as data: [] at []= push << append pop remove remove_at grow clear + * == =~ contains box_of immutable_box_of slice/[]@1 with all eight range kinds; every index/bound = anchor(0, len, -len, ±len/2) + delta(-2..2), index values of every AnyInt class plus far-out-of-range and non-integer keys; applied through CallMethodByName under recover against a Go slice model, state compared after every step; non-trivial = the history contains a reallocation (push/append beyond capacity), an in-range negative index, or a slice with a missing bound; distinct by the whole history")
	pbt.Run(t, pbt.Prop[Case]{Name: "histories", Quick: 40000, Thorough: 1200000, Gen: genCase, Oracle: oracle})
}
