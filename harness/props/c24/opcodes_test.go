package c24

import (
	"fmt"
	"regexp"
	"strings"
	"testing"
	"time"

	"pgregory.net/rapid"

	"verif/internal/pbt"
	sb "verif/internal/sandbox"
	"verif/internal/vgen"
)

// Program-level part: `l[i]`, `l[i] = v`, `l << v`, `l[a...b]` in compiled Elk
// code (SUBSCRIPT / SUBSCRIPT_SET opcodes, the `<<` call, list literals with
// capacity, typed literals that compile to the native element arrays).

type POp struct {
	Op  string `json:"op"` // get | set | shl | slice
	Idx *Index `json:"idx,omitempty"`
	V   *Elem  `json:"v,omitempty"`
	R   *Range `json:"r,omitempty"`
}

type PCase struct {
	ET    string `json:"et"` // mixed | int | str | u8 | flt | sym
	Tuple bool   `json:"tuple"`
	Extra int    `json:"extra"`
	Init  []Elem `json:"init"`
	// Modes[i] says how Init[i] is written in the literal: "" literal, "var" through a local
	// (dynamic element), "if_t"/"if_f" with a true/false modifier (APPEND opcode; if_f is left out)
	Modes []string `json:"modes,omitempty"`
	Ops   []POp    `json:"ops"`
}

var worker *sb.Worker

func elemTypeSource(et string) string {
	switch et {
	case "int":
		return "Int"
	case "str":
		return "String"
	case "u8":
		return "UInt8"
	case "flt":
		return "Float"
	case "sym":
		return "Symbol"
	}
	return "Int | String | nil"
}

func genProgElem(t *rapid.T, et, label string) Elem {
	switch et {
	case "mixed":
		switch vgen.Pick(t, 4, label+"_mk") {
		case 0:
			return genElem(t, "str", label)
		case 1:
			return Elem{K: "nil"}
		}
		return genElem(t, "int", label)
	}
	return genElem(t, et, label)
}

var progIndexKinds = []string{"int", "int", "int", "var", "var", "i8", "u8", "i64", "u64", "u64max"}

func genProg(t *rapid.T) PCase {
	var c PCase
	c.ET = []string{"mixed", "mixed", "int", "str", "u8", "flt", "sym", "mixed"}[vgen.Pick(t, 8, "et")]
	c.Tuple = rapid.IntRange(0, 3).Draw(t, "tuple") == 0
	if !c.Tuple {
		c.Extra = rapid.SampledFrom([]int{0, 0, 1, 3}).Draw(t, "extra")
	}
	n := rapid.IntRange(0, 5).Draw(t, "ninit")
	for i := 0; i < n; i++ {
		c.Init = append(c.Init, genProgElem(t, c.ET, "init"))
		c.Modes = append(c.Modes, []string{"", "", "", "var", "if_t", "if_f", "if_t", ""}[vgen.Pick(t, 8, "mode")])
	}
	nops := rapid.IntRange(4, 14).Draw(t, "nops")
	pushes := 0
	for i := 0; i < nops; i++ {
		var name string
		if c.Tuple {
			name = []string{"get", "get", "slice", "get"}[vgen.Pick(t, 4, "op")]
		} else {
			name = []string{"get", "get", "get", "set", "set", "shl", "shl", "slice"}[vgen.Pick(t, 8, "op")]
		}
		if name == "shl" {
			if pushes >= 9 { // keep inspect output on one line (<= 15 elements)
				name = "get"
			} else {
				pushes++
			}
		}
		op := POp{Op: name}
		switch name {
		case "get", "set":
			ix := genIndexBare(t, "ix")
			ix.Kind = progIndexKinds[vgen.Pick(t, len(progIndexKinds), "ixk")]
			op.Idx = &ix
		case "slice":
			op.R = genRange(t)
		}
		if name == "set" || name == "shl" {
			v := genProgElem(t, c.ET, "v")
			op.V = &v
		}
		c.Ops = append(c.Ops, op)
	}
	return c
}

func elemSource(e Elem) string {
	e = canon(e)
	switch e.K {
	case "int":
		return fmt.Sprint(e.I)
	case "str":
		return fmt.Sprintf("%q", e.S)
	case "flt":
		return fmt.Sprintf("%.1f", float64(e.I)/2)
	case "sym":
		return ":" + e.S
	case "u8":
		return fmt.Sprintf("%du8", e.I)
	}
	return "nil"
}

// elemInspect is what `inspect` prints for the element.
func elemInspect(e Elem) string { return elemSource(e) }

func seqInspect(es []Elem) string {
	var p []string
	for _, e := range es {
		p = append(p, elemInspect(e))
	}
	return "[" + strings.Join(p, ", ") + "]"
}

// indexSource renders the index expression; far = beyond every length.
func indexSource(kind string, i int, varName string) (src string, pre string, far bool) {
	switch kind {
	case "var":
		return varName, fmt.Sprintf("%s := %d\n", varName, i), false
	case "i8":
		if i >= -128 && i <= 127 {
			return fmt.Sprintf("%di8", i), "", false
		}
	case "i64":
		return fmt.Sprintf("%di64", i), "", false
	case "u8":
		if i >= 0 && i <= 255 {
			return fmt.Sprintf("%du8", i), "", false
		}
	case "u64":
		if i >= 0 {
			return fmt.Sprintf("%du64", i), "", false
		}
	case "u64max":
		return fmt.Sprintf("%du64", ^uint64(0)-uint64(abs(i))), "", true
	}
	return fmt.Sprint(i), "", false
}

type expect struct {
	alts []string // acceptable output lines
	re   string   // or a pattern
}

// program renders the Elk source and the expected output, one line per step.
func program(c PCase) (string, []expect) {
	var b strings.Builder
	var exp []expect
	var model []Elem
	var lits []string
	modifiers := false
	for i, e := range c.Init {
		mode := ""
		if i < len(c.Modes) {
			mode = c.Modes[i]
		}
		switch mode {
		case "var":
			fmt.Fprintf(&b, "x%d := %s\n", i, elemSource(e))
			lits = append(lits, fmt.Sprintf("x%d", i))
		case "if_t":
			lits = append(lits, elemSource(e)+" if yes")
			modifiers = true
		case "if_f":
			lits = append(lits, elemSource(e)+" if no")
			modifiers = true
			continue
		default:
			lits = append(lits, elemSource(e))
		}
		model = append(model, e)
	}
	if modifiers {
		b.WriteString("yes := true\nno := false\n")
	}
	lit := "[" + strings.Join(lits, ", ") + "]"
	if c.Tuple {
		fmt.Fprintf(&b, "var l: ArrayTuple[%s] = %%%s\n", elemTypeSource(c.ET), lit)
	} else {
		if c.Extra > 0 && !modifiers { // a capacity cannot be combined with element modifiers
			lit += fmt.Sprintf(":%d", c.Extra)
		}
		fmt.Fprintf(&b, "var l: ArrayList[%s] = %s\n", elemTypeSource(c.ET), lit)
	}
	oor := func(n int) expect {
		return expect{re: fmt.Sprintf(`^E index \S+ out of range: %d\.\.\.%d$`, -n, n)}
	}
	for k, op := range c.Ops {
		n := len(model)
		var body string
		switch op.Op {
		case "get", "set":
			i := op.Idx.resolve(n)
			src, pre, far := indexSource(op.Idx.Kind, i, fmt.Sprintf("i%d", k))
			b.WriteString(pre)
			p, ok := norm(i, n)
			if far {
				ok = false
			}
			if op.Op == "get" {
				body = fmt.Sprintf("println(\"g \" + l[%s].inspect)", src)
				if ok {
					exp = append(exp, expect{alts: []string{"g " + elemInspect(model[p])}})
				} else {
					exp = append(exp, oor(n))
				}
			} else {
				body = fmt.Sprintf("l[%s] = %s\n  println(\"s \" + l.length.inspect)", src, elemSource(*op.V))
				if ok {
					model[p] = *op.V
					exp = append(exp, expect{alts: []string{fmt.Sprintf("s %d", n)}})
				} else {
					exp = append(exp, oor(n))
				}
			}
		case "shl":
			body = fmt.Sprintf("l << %s\n  println(\"p \" + l.length.inspect)", elemSource(*op.V))
			model = append(model, *op.V)
			exp = append(exp, expect{alts: []string{fmt.Sprintf("p %d", n+1)}})
		case "slice":
			a, bb := op.R.A.resolve(n), op.R.B.resolve(n)
			class, s, e := sliceModel(*op.R, a, bb, n)
			body = fmt.Sprintf("println(\"r \" + l[%s].inspect)", op.R.source(a, bb))
			switch class {
			case sliceErr:
				exp = append(exp, oor(n))
			case sliceWeak:
				exp = append(exp, expect{re: fmt.Sprintf(`^(r \[\]|E index \S+ out of range: %d\.\.\.%d)$`, -n, n)})
			default:
				var want []Elem
				if e >= s {
					want = model[s : e+1]
				}
				exp = append(exp, expect{alts: []string{"r " + seqInspect(want)}})
			}
		}
		fmt.Fprintf(&b, "do\n  %s\ncatch Std::IndexError() as e\n  println(\"E \" + e.message)\nend\n", body)
	}
	b.WriteString("println(\"f \" + l.inspect)\n")
	exp = append(exp, expect{alts: []string{"f " + seqInspect(model)}})
	return b.String(), exp
}

var capSuffix = regexp.MustCompile(`:\d+$`)

// normLine removes what the model does not predict: the spare-capacity suffix
// of a list inspect and the `%` of a tuple inspect.
func normLine(s string) string {
	if strings.HasPrefix(s, "f ") || strings.HasPrefix(s, "r ") {
		s = capSuffix.ReplaceAllString(s, "")
		s = s[:2] + strings.TrimPrefix(s[2:], "%")
	}
	return s
}

func progOracle(c PCase, ctx *pbt.Ctx) error {
	src, exp := program(c)
	res := worker.Do(sb.Req{Mode: "run", Source: src}, 30*time.Second)
	class, detail := sb.Classify(res)
	if class == sb.Fatal {
		// A process death caused by the program is deterministic.  The worker can also be killed from
		// outside (shared machine, OOM killer): ask again once and only believe a death that repeats.
		res = worker.Do(sb.Req{Mode: "run", Source: src}, 30*time.Second)
		if c2, d2 := sb.Classify(res); c2 != sb.Fatal {
			ctx.Label("worker_death_not_reproduced")
			class, detail = c2, d2
		}
	}
	ctx.Label("outcome:" + class)
	ctx.Label("et:" + c.ET + map[bool]string{true: ":tuple", false: ":list"}[c.Tuple])
	switch class {
	case sb.Timeout:
		pbt.Inconclusive()
		return nil
	case sb.Fatal, sb.GoPanic:
		return fmt.Errorf("interpreter crashed (%s):\n%s\n--- program\n%s", class, clip(detail, 1500), src)
	case sb.Rejected:
		var ds []string
		for _, d := range res.Resp.Runs[0].Diags {
			if d.Severity == "FAIL" {
				ds = append(ds, fmt.Sprintf("%d:%d %s", d.Line, d.Col, d.Msg))
			}
		}
		return fmt.Errorf("GENERATOR: program rejected by the checker: %s\n--- program\n%s", strings.Join(ds, " | "), src)
	case sb.ElkError:
		return fmt.Errorf("uncaught error %s (class %s), expected every out-of-range access to raise a catchable Std::IndexError\n--- program\n%s", detail, res.Resp.Runs[0].ErrClass, src)
	}
	lines := strings.Split(strings.TrimSuffix(res.Resp.Runs[0].Stdout, "\n"), "\n")
	if len(lines) != len(exp) {
		return fmt.Errorf("%d output lines, expected %d\n--- stdout\n%s--- program\n%s", len(lines), len(exp), clip(res.Resp.Runs[0].Stdout, 1500), src)
	}
	nt := false
	for i, e := range exp {
		got := normLine(lines[i])
		ok := false
		for _, a := range e.alts {
			if a == got {
				ok = true
			}
		}
		if e.re != "" {
			ok, _ = regexp.MatchString(e.re, got)
		}
		if strings.HasPrefix(got, "E ") {
			nt = true // an out-of-range access was executed and caught
		}
		if !ok {
			want := strings.Join(e.alts, " | ") + e.re
			return fmt.Errorf("output line %d is %q, expected %s\n--- stdout\n%s--- program\n%s", i+1, lines[i], want, clip(res.Resp.Runs[0].Stdout, 1500), src)
		}
	}
	for _, op := range c.Ops {
		if op.Idx != nil {
			ctx.Label("op:" + op.Op + ":" + op.Idx.Kind)
		} else {
			ctx.Label("op:" + op.Op)
		}
	}
	if nt {
		ctx.NonTrivial(src)
	}
	return nil
}

func clip(s string, n int) string {
	if len(s) > n {
		return s[:n] + "…"
	}
	return s
}

func TestOpcodes(t *testing.T) {
	pbt.Rule("opcodes", "Elk programs run in the worker: a list or tuple literal (mixed Int|String|nil, Int, or the String/UInt8/Float/Symbol element types that compile to native element arrays; 0-5 elements, optional `:capacity`) followed by 4-14 steps `l[i]`, `l[i] = v`, `l << v`, `l[range]` (all eight range kinds), each wrapped in do/catch Std::IndexError and printing one line; indices are anchor+delta around 0, len, -len, written as Int literals, local variables, i8/u8/i64/u64 literals and 2^64-1-k; stdout must equal the slice model line by line; non-trivial = at least one out-of-range access raised and was caught; distinct by source")
	worker = sb.New("debug")
	defer worker.Close()
	pbt.Run(t, pbt.Prop[PCase]{Name: "opcodes", Quick: 1600, Thorough: 30000, Gen: genProg, Oracle: progOracle,
		Sample: func(c PCase) any { s, _ := program(c); return map[string]any{"src": s} }})
}
