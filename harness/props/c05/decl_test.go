package c05

import (
	"fmt"
	"strings"
	"testing"

	"pgregory.net/rapid"

	"verif/internal/pbt"
	"verif/internal/vgen"
)

// (e) declaration headers from a grammar: type parameter lists (variance, lower / upper bound, default, the
// `:=` shorthand), superclasses, parameter lists with defaults / rest / named rest, return and throw types.
// The corpus has few of these shapes and the splice test rarely builds two equal sub-trees inside one node.

var declTypes = []string{"Int", "String", "Object", "Foo", "Int?", "Foo::Bar", "List[Int]", "Int | String", "nil"}

func declType(t *rapid.T, l string) string { return declTypes[vgen.Pick(t, len(declTypes), l)] }

func genTypeParam(t *rapid.T, l string) string {
	name := []string{"V", "T", "K", "Elem"}[vgen.Pick(t, 4, l+"n")]
	if vgen.Pick(t, 6, l+"sh") == 0 {
		return name + " := " + declType(t, l+"st")
	}
	s := []string{"", "", "+", "-"}[vgen.Pick(t, 4, l+"var")] + name
	// a small pool makes equal bounds / equal bound and default frequent
	pool := []string{declType(t, l+"p0"), declType(t, l+"p1")}
	if vgen.Pick(t, 2, l+"lo") == 0 {
		s += " > " + pool[vgen.Pick(t, 2, l+"lov")]
	}
	if vgen.Pick(t, 2, l+"up") == 0 {
		s += " < " + pool[vgen.Pick(t, 2, l+"upv")]
	}
	if vgen.Pick(t, 3, l+"def") == 0 {
		s += " = " + pool[vgen.Pick(t, 2, l+"defv")]
	}
	return s
}

func genTypeParams(t *rapid.T, l string) string {
	n := 1 + vgen.Pick(t, 3, l+"n")
	var ps []string
	seen := map[string]bool{}
	for i := 0; i < n; i++ {
		p := genTypeParam(t, fmt.Sprintf("%s%d", l, i))
		name := strings.TrimLeft(strings.Fields(p)[0], "+-")
		if seen[name] {
			continue
		}
		seen[name] = true
		ps = append(ps, p)
	}
	return "[" + strings.Join(ps, ", ") + "]"
}

func genParams(t *rapid.T, l string) string {
	n := vgen.Pick(t, 4, l+"n")
	var ps []string
	for i := 0; i < n; i++ {
		p := fmt.Sprintf("a%d", i)
		if vgen.Pick(t, 3, fmt.Sprintf("%st%d", l, i)) > 0 {
			p += ": " + declType(t, fmt.Sprintf("%sty%d", l, i))
		}
		if vgen.Pick(t, 4, fmt.Sprintf("%sd%d", l, i)) == 0 {
			p += " = " + []string{"1", "nil", "\"s\"", "1 + 2", "[1]"}[vgen.Pick(t, 5, fmt.Sprintf("%sdv%d", l, i))]
		}
		ps = append(ps, p)
	}
	switch vgen.Pick(t, 5, l+"rest") {
	case 0:
		ps = append(ps, "*rest: Int")
	case 1:
		ps = append(ps, "**opts: String")
	}
	if len(ps) == 0 && vgen.Pick(t, 2, l+"np") == 0 {
		return ""
	}
	return "(" + strings.Join(ps, ", ") + ")"
}

func genDeclSource(t *rapid.T) string {
	tp := ""
	if vgen.Pick(t, 4, "hastp") > 0 {
		tp = genTypeParams(t, "tp")
	}
	switch vgen.Pick(t, 7, "dk") {
	case 0:
		sup := ""
		if vgen.Pick(t, 2, "sup") == 0 {
			sup = " < " + []string{"Object", "Foo", "Foo::Bar", "Foo[Int]"}[vgen.Pick(t, 4, "supv")]
		}
		mod := []string{"", "abstract ", "sealed ", "noinit ", "primitive "}[vgen.Pick(t, 5, "cmod")]
		return mod + "class Klass" + tp + sup + "; end"
	case 1:
		return "mixin Mix" + tp + "; end"
	case 2:
		return "interface Iface" + tp + "; end"
	case 3:
		if tp == "" {
			return "typedef Alias = " + declType(t, "tdt")
		}
		return "typedef Alias" + tp + " = " + declType(t, "tdt")
	case 4, 5:
		s := "def meth" + tp + genParams(t, "mp")
		if vgen.Pick(t, 2, "ret") == 0 {
			s += ": " + declType(t, "rt")
		}
		if vgen.Pick(t, 4, "thr") == 0 {
			s += " ! " + declType(t, "tt")
		}
		return s + "; end"
	default:
		s := "sig meth" + tp + genParams(t, "sp")
		if vgen.Pick(t, 2, "sret") == 0 {
			s += ": " + declType(t, "srt")
		}
		return "interface Holder; " + s + "; end"
	}
}

func TestDeclHeaders(t *testing.T) {
	pbt.Rule("decl_headers", "declaration headers from a grammar: class / mixin / interface / typedef / def / sig with type parameter lists (variance, lower bound, upper bound, default, `:=` shorthand; bounds and default drawn from a pool of two types so that equal bounds and bound = default are frequent), superclass, modifiers, parameter lists (types, defaults, rest, named rest), return and throw types; subject = sources the parser accepts without diagnostics; same print -> reparse -> compare oracle; non-trivial = clean parse with node depth >= 4; distinct by source")
	pbt.Run(t, pbt.Prop[Case]{
		Name: "decl_headers", Quick: 20000, Thorough: 400000,
		Gen:    func(t *rapid.T) Case { return Case{"src", []byte(genDeclSource(t))} },
		Oracle: oracle, Sample: sample,
	})
}
