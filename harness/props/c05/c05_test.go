// Package c05: printing a syntax tree and reparsing it gives the same tree.
//
//	T = Parse(s) without diagnostics  =>  s' = T.String() does not panic,
//	Parse(s') has no diagnostics, and astcmp.Diff(T, Parse(s')) == "".
//
// Everything runs in process: lexer, parser and the node printers start no
// goroutines; every call into them is wrapped in recover.
package c05

import (
	"fmt"
	"reflect"
	"runtime/debug"
	"sort"
	"strings"
	"sync"
	"testing"

	"github.com/elk-language/elk/parser"
	"github.com/elk-language/elk/parser/ast"
	"github.com/elk-language/elk/token"
	"pgregory.net/rapid"

	"verif/internal/astcmp"
	"verif/internal/corpus"
	"verif/internal/pbt"
	"verif/internal/vgen"
)

func TestMain(m *testing.M) { pbt.Main(m, "C05") }

// Case: Kind "src" = one source text; Kind "sweep" = Src names an operator
// template, the oracle checks it as the outer operator against every inner one.
type Case struct {
	Kind string `json:"kind"`
	Src  []byte `json:"src"`
}

// ---------------------------------------------------------------------------
// guarded calls into the code under test

func parse(src string) (prog *ast.ProgramNode, clean bool, diag string, panicked string) {
	defer func() {
		if r := recover(); r != nil {
			panicked = fmt.Sprintf("%v\n%s", r, astFrames(string(debug.Stack())))
		}
	}()
	p, dl := parser.Parse("<c05>", src)
	if len(dl) > 0 {
		return p, false, dl[0].Message, ""
	}
	return p, p != nil, "", ""
}

func printTree(n ast.Node) (s string, panicked string) {
	defer func() {
		if r := recover(); r != nil {
			panicked = fmt.Sprintf("%v\n%s", r, astFrames(string(debug.Stack())))
		}
	}()
	return n.String(), ""
}

// astFrames keeps the frames of the stack that are inside the elk repository.
func astFrames(stack string) string {
	var out []string
	for _, l := range strings.Split(stack, "\n") {
		if strings.Contains(l, "elk-language/elk/") && !strings.HasPrefix(l, "\t") {
			if i := strings.LastIndex(l, "/"); i >= 0 {
				l = l[i+1:]
			}
			if i := strings.LastIndex(l, "("); i > 0 {
				l = l[:i]
			}
			out = append(out, l)
			if len(out) == 4 {
				break
			}
		}
	}
	return strings.Join(out, " < ")
}

// ---------------------------------------------------------------------------
// tree facts: node types, depth, known-finding features

type facts struct {
	names map[string]bool
	depth int
	feats map[string]bool
}

func treeFacts(root any) facts {
	f := facts{names: map[string]bool{}, feats: map[string]bool{}}
	astcmp.Walk(root, astcmp.Visitor{
		Node: func(n reflect.Value, depth int) {
			f.names[n.Elem().Type().Name()] = true
			if depth > f.depth {
				f.depth = depth
			}
		},
		Slot: func(sl astcmp.Slot) {
			if sl.Value.IsNil() || !sl.Value.CanInterface() {
				return
			}
			child, ok := sl.Value.Interface().(ast.Node)
			if !ok {
				return
			}
			e := edge{owner: sl.Owner.Name(), field: sl.Field, index: sl.Index, child: child}
			for _, ft := range features {
				if !f.feats[ft.key] && ft.has(e) {
					f.feats[ft.key] = true
				}
			}
		},
	})
	return f
}

// activeFeature returns the first recorded known finding whose (node type,
// feature) occurs in the tree, "" if none.
func (f facts) activeFeature() string {
	for _, ft := range features {
		if f.feats[ft.key] && pbt.KnownActive(ft.key) {
			return ft.key
		}
	}
	return ""
}

// ---------------------------------------------------------------------------
// the oracle

func lastSeg(path string) string {
	// "/A.x/B.y[2]/C.z" -> "C.z"
	if i := strings.LastIndex(path, "/"); i >= 0 {
		return path[i+1:]
	}
	return path
}

// result of one evaluation (so that the sweep can aggregate many of them)
type result struct {
	status   string // "rejected" | "parser_panic" | "excluded" | "clean"
	excluded string
	f        facts
}

func roundTrip(src string) (res result, err error) {
	t1, clean, _, pp := parse(src)
	if pp != "" {
		res.status = "parser_panic" // C03's subject, not this property's
		return
	}
	if !clean {
		res.status = "rejected"
		return
	}
	f := treeFacts(t1)
	res.f = f
	if k := f.activeFeature(); k != "" {
		res.status, res.excluded = "excluded", k
		return
	}
	res.status = "clean"
	s1, pp := printTree(t1)
	if pp != "" {
		return res, fmt.Errorf("String() panicked in %s\nsource: %q", pp, src)
	}
	t2, clean2, diag, pp := parse(s1)
	if pp != "" {
		return res, fmt.Errorf("parser panicked on printed text: %s\nsource:  %q\nprinted: %q", pp, src, s1)
	}
	if !clean2 {
		return res, fmt.Errorf("printed text does not parse [%s] nodes=%s\nsource:  %q\nprinted: %q", diag, rareNames(f.names), src, s1)
	}
	if d := astcmp.Diff(t1, t2); d != "" {
		i := strings.Index(d, ": ")
		return res, fmt.Errorf("reparsed tree differs at %s: %s\npath: %s\nsource:  %q\nprinted: %q", lastSeg(d[:i]), d[i+2:], d[:i], src, s1)
	}
	return res, nil
}

func checkSrc(src string, ctx *pbt.Ctx) error {
	res, err := roundTrip(src)
	switch res.status {
	case "excluded":
		ctx.Excluded(res.excluded)
		return nil
	case "clean":
		ctx.Label("input:clean")
		for n := range res.f.names {
			ctx.Label("n:" + n)
		}
		if res.f.depth >= 4 {
			ctx.NonTrivial(src)
		}
	default:
		ctx.Label("input:" + res.status)
	}
	return err
}

// rareNames lists the node types of a tree without the ubiquitous ones (helps
// to attribute an unparsable print to a node printer).
func rareNames(m map[string]bool) string {
	var out []string
	for n := range m {
		switch n {
		case "ProgramNode", "ExpressionStatementNode", "PublicIdentifierNode", "IntLiteralNode", "PublicConstantNode":
		default:
			out = append(out, strings.TrimSuffix(n, "Node"))
		}
	}
	sort.Strings(out)
	if len(out) > 6 {
		out = out[:6]
	}
	return strings.Join(out, ",")
}

func oracle(c Case, ctx *pbt.Ctx) error {
	if c.Kind == "sweep" {
		return sweep(string(c.Src), ctx)
	}
	return checkSrc(string(c.Src), ctx)
}

func sample(c Case) any { return map[string]string{"kind": c.Kind, "src": string(c.Src)} }

// ---------------------------------------------------------------------------
// (a) corpus

func TestCorpus(t *testing.T) {
	pbt.Rule("corpus", "uniform draw from the ~8k Elk sources of the repository's own tests (12x oversampled so that practically every source is visited; distinct count is measured); subject = sources the parser accepts without diagnostics; non-trivial = tree with node depth >= 4 (program > statement > node > child: at least two nested non-leaf nodes); distinct by source text; labels n:<NodeType> = node types present")
	srcs := corpus.Elk()
	pbt.Run(t, pbt.Prop[Case]{
		Name: "corpus", Quick: 12 * len(srcs), Thorough: 30 * len(srcs),
		Gen: func(t *rapid.T) Case {
			return Case{"src", []byte(srcs[vgen.Pick(t, len(srcs), "ci")])}
		},
		Oracle: oracle, Sample: sample,
	})
}

// ---------------------------------------------------------------------------
// (b) operator matrix

// tmpl is an operator application with holes; src = parts[0] + arg0 + parts[1] + ...
type tmpl struct {
	name  string
	parts []string
	fill  []string // default operand per hole (outer position)
}

func bin(op string) tmpl { return tmpl{op, []string{"", " " + op + " ", ""}, []string{"a", "b"}} }
func pre(op string) tmpl { return tmpl{op + "_", []string{op, ""}, []string{"a"}} }
func kw(op string) tmpl  { return tmpl{op + " _", []string{op + " ", ""}, []string{"a"}} }
func post(name, suffix string) tmpl {
	return tmpl{name, []string{"", suffix}, []string{"a"}}
}

var templates = func() []tmpl {
	var ts []tmpl
	for _, op := range []string{
		"|", "^", "&", "&~", "==", "!=", "===", "!==", "=~", "!~",
		"<", "<=", ">", ">=", "<:", ":>", "<<:", ":>>", "<=>",
		"<<", "<<<", ">>", ">>>", "+", "-", "*", "/", "%", "**",
		"||", "??", "|!", "&&", "&!",
		"...", "<..", "..<", "<.<",
		"=", "-=", "+=", "*=", "/=", "**=", "~=", "&&=", "&=", "||=", "|=", "^=", "??=", "<<=", "<<<=", ">>=", ">>>=", "%=", ":=", "::=",
	} {
		ts = append(ts, bin(op))
	}
	ts = append(ts,
		tmpl{"|>", []string{"", " |> ", ""}, []string{"a", "b.c()"}},
		tmpl{"|>call", []string{"", " |> foo(", ")"}, []string{"a", "b"}},
		tmpl{"endless...", []string{"", "..."}, []string{"a"}},
		tmpl{"endless<..", []string{"", "<.."}, []string{"a"}},
		tmpl{"beginless...", []string{"...", ""}, []string{"a"}},
		tmpl{"beginless..<", []string{"..<", ""}, []string{"a"}},
		tmpl{"as", []string{"", " as Foo"}, []string{"a"}},
		tmpl{"as::", []string{"", " as ::Foo::Bar"}, []string{"a"}},
		tmpl{"match", []string{"", " match 1"}, []string{"a"}},
		tmpl{"if-mod", []string{"", " if ", ""}, []string{"a", "b"}},
		tmpl{"unless-mod", []string{"", " unless ", ""}, []string{"a", "b"}},
		tmpl{"while-mod", []string{"", " while ", ""}, []string{"a", "b"}},
		tmpl{"until-mod", []string{"", " until ", ""}, []string{"a", "b"}},
		tmpl{"if-else-mod", []string{"", " if ", " else ", ""}, []string{"a", "b", "c"}},
		tmpl{"for-mod", []string{"", " for i in ", ""}, []string{"a", "b"}},
		pre("-"), pre("+"), pre("!"), pre("~"), pre("&"), pre("<<"),
		kw("await"), kw("must"), kw("try"), kw("typeof"), kw("throw"), kw("throw unchecked"), kw("return"), kw("break"),
		kw("continue"), kw("yield"), kw("yield *"), kw("go"), kw("defer"), kw("await_sync"),
		post("++", "++"), post("--", "--"),
		post(".attr", ".foo"), post("?.attr", "?.foo"), post("..attr", "..foo"), post("?..attr", "?..foo"),
		post(".call()", ".foo()"), post(".()", ".()"), post("?.()", "?.()"),
		post("::Const", "::Foo"), post("::method", "::foo"), post(".await", ".await"), post(".try", ".try"), post(".must", ".must"),
		tmpl{".call(x)", []string{"", ".foo(", ")"}, []string{"a", "b"}},
		tmpl{"[]", []string{"", "[", "]"}, []string{"a", "b"}},
		tmpl{"?[]", []string{"", "?[", "]"}, []string{"a", "b"}},
		tmpl{".call x", []string{"", ".foo ", ""}, []string{"a", "b"}},
		tmpl{"call(x)", []string{"foo(", ")"}, []string{"a"}},
		tmpl{"call(k: x)", []string{"foo(bar: ", ")"}, []string{"a"}},
		tmpl{"call x", []string{"foo ", ""}, []string{"a"}},
		tmpl{"New(x)", []string{"Foo(", ")"}, []string{"a"}},
		tmpl{"call(*x)", []string{"foo(*", ")"}, []string{"a"}},
		tmpl{"call(**x)", []string{"foo(**", ")"}, []string{"a"}},
		tmpl{".attr=", []string{"", ".foo = ", ""}, []string{"a", "b"}},
		tmpl{"[]=", []string{"", "[", "] = ", ""}, []string{"a", "b", "c"}},
		tmpl{"->", []string{"-> ", ""}, []string{"a"}},
		tmpl{"|x|->", []string{"|x| -> ", ""}, []string{"a"}},
		tmpl{"list", []string{"[", ", ", "]"}, []string{"a", "b"}},
		tmpl{"tuple", []string{"%[", "]"}, []string{"a"}},
		tmpl{"set", []string{"^[", "]"}, []string{"a"}},
		tmpl{"map", []string{"{ ", " => ", " }"}, []string{"a", "b"}},
		tmpl{"record", []string{"%{ foo: ", " }"}, []string{"a"}},
		tmpl{"list-if", []string{"[", " if ", "]"}, []string{"a", "b"}},
		tmpl{"list-for", []string{"[", " for i in ", "]"}, []string{"a", "b"}},
		tmpl{"interp", []string{"\"x${", "}y\""}, []string{"a"}},
		tmpl{"inspect-interp", []string{"\"x#{", "}y\""}, []string{"a"}},
		tmpl{"if-then", []string{"if ", " then ", " else ", ""}, []string{"a", "b", "c"}},
		tmpl{"unless-then", []string{"unless ", " then ", ""}, []string{"a", "b"}},
		tmpl{"while-then", []string{"while ", " then ", ""}, []string{"a", "b"}},
		tmpl{"do", []string{"do ", " end"}, []string{"a"}},
		tmpl{"label", []string{"$foo: ", ""}, []string{"a"}},
		tmpl{"var", []string{"var v = ", ""}, []string{"a"}},
		tmpl{"val", []string{"val v: Foo = ", ""}, []string{"a"}},
		tmpl{"const", []string{"const Foo = ", ""}, []string{"a"}},
		tmpl{"new", []string{"new(", ")"}, []string{"a"}},
		tmpl{"switch", []string{"switch ", " case 1 then ", " end"}, []string{"a", "b"}},
		tmpl{"quote", []string{"quote ", " end"}, []string{"a"}},
		tmpl{"unquote", []string{"quote !{", "} end"}, []string{"a"}},
		tmpl{"paren", []string{"(", ")"}, []string{"a"}},
	)
	return ts
}()

var tmplByName = func() map[string]int {
	m := map[string]int{}
	for i, t := range templates {
		if _, dup := m[t.name]; dup {
			panic("duplicate template " + t.name)
		}
		m[t.name] = i
	}
	return m
}()

// apply renders the template with args; missing args take the default operand
// with the given prefix so that inner and outer operands are distinguishable.
func (t tmpl) apply(args map[int]string, inner bool) string {
	var b strings.Builder
	for i, p := range t.parts {
		b.WriteString(p)
		if i < len(t.fill) {
			if a, ok := args[i]; ok {
				b.WriteString(a)
			} else if inner {
				b.WriteString(strings.Replace(strings.Replace(strings.Replace(t.fill[i], "a", "x", 1), "b", "y", 1), "c", "z", 1))
			} else {
				b.WriteString(t.fill[i])
			}
		}
	}
	return b.String()
}

// sweep checks outer template `name` against every inner template, every hole,
// with and without redundant parentheses.
func sweep(name string, ctx *pbt.Ctx) error {
	oi, ok := tmplByName[name]
	if !ok {
		return fmt.Errorf("harness: unknown operator template %q", name)
	}
	outer := templates[oi]
	var firstErr error
	nfail := 0
	names := map[string]bool{}
	for _, inner := range templates {
		in := inner.apply(nil, true)
		for h := range outer.fill {
			for _, par := range []bool{false, true} {
				arg := in
				if par {
					arg = "(" + in + ")"
				}
				src := outer.apply(map[int]string{h: arg}, false)
				res, err := roundTrip(src)
				ctx.Label("matrix:sources")
				ctx.Label("matrix:" + res.status)
				if res.status == "excluded" {
					ctx.Excluded(res.excluded)
				}
				if res.status == "clean" {
					for n := range res.f.names {
						names[n] = true
					}
				}
				if err != nil {
					nfail++
					if firstErr == nil {
						firstErr = fmt.Errorf("%w\n(operator matrix: outer %q hole %d inner %q parens=%v)", err, outer.name, h, inner.name, par)
					}
				}
			}
		}
	}
	for n := range names {
		ctx.Label("n:" + n)
	}
	ctx.NonTrivial("sweep:" + name)
	if firstErr != nil && nfail > 1 {
		return fmt.Errorf("%w\n(+%d more failing sources for this outer operator)", firstErr, nfail-1)
	}
	return firstErr
}

func TestMatrix(t *testing.T) {
	n := len(templates)
	pbt.Rule("matrix", fmt.Sprintf("exhaustive operator matrix: one case = one outer operator template out of %d (binary, logical, range, as, match, assignment, modifier, unary, keyword-prefix, postfix/call/subscript, collection and block forms); the oracle substitutes every inner template into every operand hole, bare and in redundant parentheses (label matrix:sources counts them; sources the parser rejects are skipped and counted as matrix:rejected); every template is drawn many times over, so the pair matrix is complete", n))
	pbt.Run(t, pbt.Prop[Case]{
		Name: "matrix", Quick: 16 * n, Thorough: 32 * n,
		Gen: func(t *rapid.T) Case {
			return Case{"sweep", []byte(templates[vgen.Pick(t, n, "outer")].name)}
		},
		Oracle: oracle, Sample: sample,
	})
}

// depth-3 samples: op3 inside op2 inside op1, parentheses drawn per level
func TestMatrixDeep(t *testing.T) {
	n := len(templates)
	pbt.Rule("matrix3", "three nested operator templates (uniform), hole and redundant parentheses drawn per level; non-trivial = accepted by the parser with node depth >= 4; distinct by source")
	pbt.Run(t, pbt.Prop[Case]{
		Name: "matrix3", Quick: 60000, Thorough: 1500000,
		Gen: func(t *rapid.T) Case {
			t3 := templates[vgen.Pick(t, n, "t3")]
			s := t3.apply(nil, true)
			for lvl := 0; lvl < 2; lvl++ {
				if rapid.Bool().Draw(t, "paren") {
					s = "(" + s + ")"
				}
				o := templates[vgen.Pick(t, n, "t")]
				h := vgen.Pick(t, len(o.fill), "hole")
				s = o.apply(map[int]string{h: s}, lvl == 0)
			}
			return Case{"src", []byte(s)}
		},
		Oracle: oracle, Sample: sample,
	})
}

// ---------------------------------------------------------------------------
// (c) AST-splice mutants

type pool struct {
	trees   []*ast.ProgramNode
	treeSrc []string
	donors  map[reflect.Type][]donor // concrete node type -> nodes
	dtypes  []reflect.Type           // sorted by name (determinism)
	tokens  map[string][]donor       // "Owner.Field" -> tokens seen there
	assign  map[reflect.Type][]reflect.Type
}

type donor struct {
	v    reflect.Value
	tree int
}

var (
	poolOnce sync.Once
	thePool  *pool
)

func getPool() *pool {
	poolOnce.Do(func() {
		p := &pool{donors: map[reflect.Type][]donor{}, tokens: map[string][]donor{}, assign: map[reflect.Type][]reflect.Type{}}
		seen := map[string]bool{}
		for _, s := range corpus.Elk() {
			if seen[s] || len(s) > 4000 {
				continue
			}
			seen[s] = true
			t, clean, _, pp := parse(s)
			if pp != "" || !clean {
				continue
			}
			if treeFacts(t).activeFeature() != "" {
				continue // recorded known finding: not a base, not a donor
			}
			idx := len(p.trees)
			p.trees = append(p.trees, t)
			p.treeSrc = append(p.treeSrc, s)
			astcmp.Walk(t, astcmp.Visitor{
				Node: func(n reflect.Value, depth int) {
					if depth == 0 {
						return
					}
					p.donors[n.Type()] = append(p.donors[n.Type()], donor{n, idx})
				},
				Slot: func(sl astcmp.Slot) {
					if sl.Value.Kind() == reflect.Pointer && !sl.Value.IsNil() && sl.Value.Type().String() == "*token.Token" {
						k := sl.Owner.Name() + "." + sl.Field
						p.tokens[k] = append(p.tokens[k], donor{sl.Value, idx})
					}
				},
			})
		}
		for t := range p.donors {
			p.dtypes = append(p.dtypes, t)
		}
		sort.Slice(p.dtypes, func(i, j int) bool { return p.dtypes[i].String() < p.dtypes[j].String() })
		thePool = p
	})
	return thePool
}

func (p *pool) assignable(t reflect.Type) []reflect.Type {
	if l, ok := p.assign[t]; ok {
		return l
	}
	var l []reflect.Type
	for _, d := range p.dtypes {
		if d.AssignableTo(t) {
			l = append(l, d)
		}
	}
	p.assign[t] = l
	return l
}

// spliceSource builds one mutant: 1-3 subtrees of a corpus tree are replaced by
// donor subtrees of an assignable type (or an operator token by another token
// seen in the same field), the tree is printed, the slots are restored.
func spliceSource(t *rapid.T) string {
	p := getPool()
	if len(p.trees) < 2 {
		return "1"
	}
	bi := vgen.Pick(t, len(p.trees), "base")
	base := p.trees[bi]
	var slots []astcmp.Slot
	astcmp.Walk(base, astcmp.Visitor{Slot: func(s astcmp.Slot) {
		if s.Value.CanSet() {
			slots = append(slots, s)
		}
	}})
	if len(slots) == 0 {
		return p.treeSrc[bi]
	}
	k := 1 + vgen.Pick(t, 3, "nsplice")
	type undo struct {
		at  reflect.Value
		old reflect.Value
	}
	var undos []undo
	// rapid aborts a generator by panicking out of Draw: always restore the base tree
	defer func() {
		for i := len(undos) - 1; i >= 0; i-- {
			undos[i].at.Set(undos[i].old)
		}
	}()
	for i := 0; i < k; i++ {
		sl := slots[vgen.Pick(t, len(slots), "slot")]
		var repl reflect.Value
		if sl.Value.Type().String() == "*token.Token" {
			cands := p.tokens[sl.Owner.Name()+"."+sl.Field]
			if len(cands) == 0 {
				continue
			}
			repl = cands[vgen.Pick(t, len(cands), "tok")].v
		} else {
			types := p.assignable(sl.Value.Type())
			if len(types) == 0 {
				continue
			}
			var cands []donor
			if rapid.Bool().Draw(t, "by_type") {
				cands = p.donors[types[vgen.Pick(t, len(types), "dtype")]]
			} else {
				// weight types by frequency: pick a node index over all candidates
				total := 0
				for _, ty := range types {
					total += len(p.donors[ty])
				}
				x := vgen.Pick(t, total, "dnode")
				for _, ty := range types {
					if x < len(p.donors[ty]) {
						cands = p.donors[ty][x : x+1]
						break
					}
					x -= len(p.donors[ty])
				}
			}
			if len(cands) == 0 {
				continue
			}
			d := cands[vgen.Pick(t, len(cands), "donor")]
			if d.tree == bi {
				continue // a donor from the same tree could create a cycle
			}
			repl = d.v
		}
		old := reflect.New(sl.Value.Type()).Elem()
		old.Set(sl.Value)
		undos = append(undos, undo{sl.Value, old})
		sl.Value.Set(repl)
	}
	s, pp := printTree(base)
	if pp != "" {
		// a spliced tree need not be one the parser can produce: no verdict here
		return p.treeSrc[bi]
	}
	return s
}

func TestSplice(t *testing.T) {
	pbt.Rule("splice", "AST-splice mutants: in a cleanly parsed corpus tree 1-3 random child slots (interface/pointer fields, slice elements) are overwritten by donor subtrees of an assignable concrete type taken from other corpus trees (half: donor type uniform over the assignable node types, half: weighted by frequency), operator tokens by tokens seen in the same field; the mutant is printed and re-parsed; only mutants the parser accepts without diagnostics are subjects (the re-parsed tree is the test subject); non-trivial = node depth >= 4; distinct by printed mutant")
	pbt.Run(t, pbt.Prop[Case]{
		Name: "splice", Quick: 60000, Thorough: 1500000,
		Gen:    func(t *rapid.T) Case { return Case{"src", []byte(spliceSource(t))} },
		Oracle: oracle, Sample: sample,
	})
}

// ---------------------------------------------------------------------------
// known findings: (node type, feature) predicates, evaluated on every
// parent -> child edge of the parsed tree

type edge struct {
	owner string // struct type that holds the child ("MethodCallNode")
	field string // field name ("PositionalArguments")
	index int    // element index for slice fields
	child ast.Node
}

func (e edge) slot() string { return e.owner + "." + e.field }

type feature struct {
	key string
	has func(e edge) bool
}

func isModifier(n ast.Node) bool {
	switch n.(type) {
	case *ast.ModifierNode, *ast.ModifierIfElseNode, *ast.ModifierForInNode:
		return true
	}
	return false
}

// slots verified (operator matrix + corpus) to print a modifier child so that it
// re-parses: either the slot accepts modifiers or the printer parenthesises them
var modifierOK = map[string]bool{}

func init() {
	for _, s := range strings.Fields(`
		ExpressionStatementNode.Expression LabeledExpressionNode.Expression
		ArrayListLiteralNode.Elements ArrayTupleLiteralNode.Elements HashSetLiteralNode.Elements
		HashMapLiteralNode.Elements HashRecordLiteralNode.Elements
		AsExpressionNode.Value AssignmentExpressionNode.Right AttributeAccessNode.Receiver AwaitExpressionNode.Value
		BinaryExpressionNode.Left BinaryExpressionNode.Right LogicalExpressionNode.Left LogicalExpressionNode.Right
		UnaryExpressionNode.Right RangeLiteralNode.Start RangeLiteralNode.End MatchExpressionNode.Expression
		BreakExpressionNode.Value ContinueExpressionNode.Value ReturnExpressionNode.Value YieldExpressionNode.Value
		ThrowExpressionNode.Value TryExpressionNode.Value TypeofExpressionNode.Value MustExpressionNode.Value
		DeferExpressionNode.Expression DoubleSplatExpressionNode.Value SplatExpressionNode.Value
		CallNode.Receiver MethodCallNode.Receiver MethodLookupNode.Receiver ConstantLookupNode.Left
		SubscriptExpressionNode.Receiver NilSafeSubscriptExpressionNode.Receiver
		ModifierNode.Left ModifierNode.Right ModifierIfElseNode.ThenExpression ModifierIfElseNode.Condition
		ModifierIfElseNode.ElseExpression ModifierForInNode.ThenExpression ModifierForInNode.InExpression
		ConstantDeclarationNode.Initialiser VariableDeclarationNode.Initialiser ValueDeclarationNode.Initialiser
		VariablePatternDeclarationNode.Initialiser ValuePatternDeclarationNode.Initialiser
		FormalParameterNode.Initialiser MethodParameterNode.Initialiser AttributeParameterNode.Initialiser`) {
		modifierOK[s] = true
	}
}

// slots printed directly after a keyword that begins a primary expression
var keywordSlot = map[string]bool{}

func init() {
	for _, s := range strings.Fields(`
		MustExpressionNode.Value TryExpressionNode.Value AwaitExpressionNode.Value DeferExpressionNode.Expression
		TypeofExpressionNode.Value SwitchExpressionNode.Value ReturnExpressionNode.Value BreakExpressionNode.Value
		ContinueExpressionNode.Value YieldExpressionNode.Value ThrowExpressionNode.Value GoExpressionNode.Body
		IfExpressionNode.Condition UnlessExpressionNode.Condition WhileExpressionNode.Condition UntilExpressionNode.Condition`) {
		keywordSlot[s] = true
	}
}

// leftmost returns the node whose text begins the printed form of n, nil when
// the printed form begins with an opening parenthesis (operand of lower precedence).
func leftmost(n ast.Node) ast.Node {
	for i := 0; i < 1000; i++ {
		var first ast.ExpressionNode
		switch v := n.(type) {
		case *ast.BinaryExpressionNode:
			first = v.Left
		case *ast.LogicalExpressionNode:
			first = v.Left
		case *ast.AssignmentExpressionNode:
			first = v.Left
		case *ast.MethodCallNode:
			first = v.Receiver
		case *ast.GenericMethodCallNode:
			first = v.Receiver
		case *ast.AttributeAccessNode:
			first = v.Receiver
		case *ast.SubscriptExpressionNode:
			first = v.Receiver
		case *ast.NilSafeSubscriptExpressionNode:
			first = v.Receiver
		case *ast.CallNode:
			first = v.Receiver
		case *ast.MethodLookupNode:
			first = v.Receiver
		case *ast.InstanceMethodLookupNode:
			first = v.Receiver
		case *ast.ConstantLookupNode:
			first = v.Left
		case *ast.PostfixExpressionNode:
			first = v.Expression
		case *ast.AsExpressionNode:
			first = v.Value
		case *ast.MatchExpressionNode:
			first = v.Expression
		case *ast.RangeLiteralNode:
			first = v.Start
		case *ast.ModifierNode:
			first = v.Left
		case *ast.ModifierIfElseNode:
			first = v.ThenExpression
		case *ast.ModifierForInNode:
			first = v.ThenExpression
		}
		if first == nil || reflect.ValueOf(first).IsNil() {
			return n
		}
		if pn, ok := n.(ast.ExpressionNode); ok && ast.ExpressionPrecedence(first) <= ast.ExpressionPrecedence(pn) {
			if _, same := n.(*ast.BinaryExpressionNode); !same || ast.ExpressionPrecedence(first) < ast.ExpressionPrecedence(pn) {
				return nil // printed in parentheses
			}
		}
		n = first
	}
	return n
}

// rightmost returns the node whose text ends the printed form of n, nil when it
// ends with a closing parenthesis.
func rightmost(n ast.Node) ast.Node {
	for i := 0; i < 1000; i++ {
		var last ast.ExpressionNode
		switch v := n.(type) {
		case *ast.BinaryExpressionNode:
			last = v.Right
		case *ast.LogicalExpressionNode:
			last = v.Right
		case *ast.AssignmentExpressionNode:
			last = v.Right
		case *ast.UnaryExpressionNode:
			last = v.Right
		case *ast.RangeLiteralNode:
			last = v.End
		}
		if last == nil || reflect.ValueOf(last).IsNil() {
			return n
		}
		if pn, ok := n.(ast.ExpressionNode); ok && ast.ExpressionPrecedence(last) <= ast.ExpressionPrecedence(pn) {
			return nil
		}
		n = last
	}
	return n
}

// node types whose first token the parser accepts as the end of a range literal
// (token.Type.IsValidAsEndInRangeLiteral)
func validRangeEndStart(n ast.Node) bool {
	switch v := n.(type) {
	case nil:
		return true // "("
	case *ast.PublicIdentifierNode, *ast.PrivateIdentifierNode, *ast.PublicConstantNode, *ast.PrivateConstantNode,
		*ast.ConstantLookupNode, *ast.PublicInstanceVariableNode, *ast.IntLiteralNode, *ast.Int64LiteralNode,
		*ast.Int32LiteralNode, *ast.Int16LiteralNode, *ast.Int8LiteralNode, *ast.UIntLiteralNode, *ast.UInt64LiteralNode,
		*ast.UInt32LiteralNode, *ast.UInt16LiteralNode, *ast.UInt8LiteralNode, *ast.FloatLiteralNode,
		*ast.Float64LiteralNode, *ast.Float32LiteralNode, *ast.RawStringLiteralNode, *ast.DoubleQuotedStringLiteralNode,
		*ast.InterpolatedStringLiteralNode, *ast.CharLiteralNode, *ast.RawCharLiteralNode, *ast.NilLiteralNode,
		*ast.TrueLiteralNode, *ast.FalseLiteralNode, *ast.SelfLiteralNode, *ast.ArrayListLiteralNode,
		*ast.HashMapLiteralNode, *ast.ReceiverlessMethodCallNode, *ast.ConstructorCallNode:
		return true
	case *ast.UnaryExpressionNode:
		switch v.Op.Type {
		case token.MINUS, token.PLUS, token.BANG, token.TILDE:
			return true
		}
	}
	return false
}

var features = []feature{
	{"modifier-in-expression-slot", func(e edge) bool {
		if !isModifier(e.child) {
			return false
		}
		if !modifierOK[e.slot()] {
			return true
		}
		if m, ok := e.child.(*ast.ModifierNode); ok && e.field == "Elements" {
			// collection literals accept `x if y` / `x unless y` / `x for i in y` elements, not while / until
			switch m.Modifier.Type {
			case token.IF, token.UNLESS:
			default:
				return true
			}
		}
		return false
	}},
	{"empty-statement", func(e edge) bool {
		_, ok := e.child.(*ast.EmptyStatementNode)
		return ok && !(e.owner == "ProgramNode" && e.index == 0)
	}},
	{"range-end-start-token", func(e edge) bool {
		r, ok := e.child.(*ast.RangeLiteralNode)
		if !ok || r.Start == nil || r.End == nil {
			return false
		}
		if ast.ExpressionPrecedence(r.End) <= 160 {
			return false // printed in parentheses
		}
		return !validRangeEndStart(leftmost(r.End))
	}},
	{"keyword-value-ambiguity", func(e edge) bool {
		if e.field != "Value" {
			return false
		}
		switch e.owner {
		case "BreakExpressionNode", "ContinueExpressionNode":
			if _, ok := leftmost(e.child).(*ast.ArrayListLiteralNode); ok {
				return true // `break [` starts a label
			}
		case "ReturnExpressionNode", "YieldExpressionNode":
		default:
			return false
		}
		switch leftmost(e.child).(type) {
		case *ast.IfExpressionNode, *ast.UnlessExpressionNode:
			return true // `break if` is a value-less break with a modifier
		}
		return false
	}},
	{"keyword-bang-paren", func(e edge) bool {
		// `must !(x)`: a keyword followed by `!(` is parsed as a macro call `must!(x)`
		if !keywordSlot[e.slot()] {
			return false
		}
		n := e.child
		if st, ok := n.(*ast.ExpressionStatementNode); ok {
			n = st.Expression
		}
		u, ok := leftmost(n).(*ast.UnaryExpressionNode)
		if !ok || u.Op.Type != token.BANG {
			return false
		}
		return ast.ExpressionPrecedence(u.Right) < ast.ExpressionPrecedence(u) || leftmost(u.Right) == nil
	}},
	{"invalid-node-without-diagnostic", func(e edge) bool {
		// `$"-@"!(x)`: the parser builds an InvalidNode but reports nothing
		_, ok := e.child.(*ast.InvalidNode)
		return ok
	}},
	{"multiline-literal-indent", func(e edge) bool {
		// literals that contain a raw newline are re-indented with the block they are printed in
		switch v := e.child.(type) {
		case *ast.RawStringLiteralNode:
			return strings.Contains(v.Value, "\n")
		case *ast.UninterpolatedRegexLiteralNode:
			return strings.Contains(v.Content, "\n")
		case *ast.RegexLiteralContentSectionNode:
			return strings.Contains(v.Value, "\n")
		}
		return false
	}},
	{"call-bitor-closure-ambiguity", func(e edge) bool {
		// `x.foo() | y | b`: after a call, `| ident |` (or `,` / `:`) starts a trailing closure
		b, ok := e.child.(*ast.BinaryExpressionNode)
		if !ok || b.Op.Type != token.OR {
			return false
		}
		switch b.Right.(type) {
		case *ast.PublicIdentifierNode, *ast.PrivateIdentifierNode:
		default:
			return false
		}
		switch rightmost(b.Left).(type) {
		case *ast.MethodCallNode, *ast.GenericMethodCallNode, *ast.ReceiverlessMethodCallNode,
			*ast.GenericReceiverlessMethodCallNode, *ast.ConstructorCallNode, *ast.GenericConstructorCallNode,
			*ast.CallNode, *ast.AttributeAccessNode, *ast.MacroCallNode, *ast.ReceiverlessMacroCallNode,
			*ast.ScopedMacroCallNode, *ast.NewExpressionNode:
			return true
		}
		return false
	}},
	{"operator-macro-name", func(e edge) bool {
		// `<!(x)`: a macro named after an operator prints as `$"<"!(x)`, which re-parses to a silent InvalidNode
		if e.field != "MacroName" {
			return false
		}
		id, ok := e.child.(*ast.PublicIdentifierNode)
		return ok && !ast.IdentifierRegexp.MatchString(id.Value)
	}},
	{"closure-body-declaration", func(e edge) bool {
		// `|a| ->\n  alias foo bar\nend`: a one-statement body is printed on the arrow's line, where
		// declarations are not allowed
		var body []ast.StatementNode
		switch v := e.child.(type) {
		case *ast.ClosureLiteralNode:
			body = v.Body
		case *ast.GoExpressionNode:
			body = v.Body
		}
		if len(body) != 1 {
			return false
		}
		st, ok := body[0].(*ast.ExpressionStatementNode)
		if !ok {
			return false
		}
		name := reflect.TypeOf(st.Expression).Elem().Name()
		switch name {
		case "VariableDeclarationNode", "ValueDeclarationNode", "ConstantDeclarationNode",
			"VariablePatternDeclarationNode", "ValuePatternDeclarationNode":
			return false
		case "IncludeExpressionNode", "ImplementExpressionNode", "ExtendWhereBlockExpressionNode", "SingletonBlockExpressionNode":
			return true
		}
		return strings.HasSuffix(name, "DeclarationNode") || strings.HasSuffix(name, "DefinitionNode")
	}},
	{"closure-body-map", func(e edge) bool {
		if e.owner != "ClosureLiteralNode" || e.field != "Body" {
			return false
		}
		st, ok := e.child.(*ast.ExpressionStatementNode)
		if !ok {
			return false
		}
		_, isMap := leftmost(st.Expression).(*ast.HashMapLiteralNode)
		return isMap // `-> {` starts a block-less closure body that is parsed differently
	}},
}
