package c05

import (
	"reflect"
	"verif/internal/astcmp"
	"encoding/json"
	"os"
	"strings"
	"testing"

	"verif/internal/corpus"
)

// Developer helper (C05_TRIAGE=<out.jsonl>): one deterministic pass over the
// corpus and the whole operator matrix, every failure written with its source.
func TestTriage(t *testing.T) {
	out := os.Getenv("C05_TRIAGE")
	if out == "" {
		t.Skip("C05_TRIAGE not set")
	}
	f, err := os.Create(out)
	if err != nil {
		t.Fatal(err)
	}
	defer f.Close()
	enc := json.NewEncoder(f)
	seen := map[string]bool{}
	n, bad := 0, 0
	var edges *json.Encoder
	if ef := os.Getenv("C05_TRIAGE_EDGES"); ef != "" {
		g, _ := os.Create(ef)
		defer g.Close()
		edges = json.NewEncoder(g)
	}
	one := func(kind, src string) {
		if seen[src] {
			return
		}
		seen[src] = true
		res, err := roundTrip(src)
		if res.status == "clean" {
			n++
			if edges != nil {
				t1, _, _, _ := parse(src)
				var es []string
				astcmp.Walk(t1, astcmp.Visitor{Slot: func(sl astcmp.Slot) {
					if sl.Value.IsNil() {
						return
					}
					cn := astcmp.NodeName(sl.Value)
					if strings.HasPrefix(cn, "Modifier") || cn == "RangeLiteralNode" || strings.HasSuffix(cn, "DeclarationNode") {
						es = append(es, sl.Owner.Name()+"."+sl.Field+"<-"+cn)
					}
				}})
				if len(es) > 0 {
					_ = edges.Encode(map[string]any{"ok": err == nil, "edges": es, "src": src})
				}
			}
		}
		if err != nil {
			bad++
			lines := strings.SplitN(err.Error(), "\n", 2)
			_ = enc.Encode(map[string]string{"kind": kind, "sig": lines[0], "src": src, "err": err.Error()})
		}
	}
	for _, s := range corpus.Elk() {
		one("corpus", s)
	}
	if os.Getenv("C05_TRIAGE_MATRIX") != "" {
		for _, outer := range templates {
			for _, inner := range templates {
				in := inner.apply(nil, true)
				for h := range outer.fill {
					one("matrix", outer.apply(map[int]string{h: in}, false))
					one("matrix", outer.apply(map[int]string{h: "(" + in + ")"}, false))
				}
			}
		}
	}
	t.Logf("clean=%d failing=%d", n, bad)
}

// Developer helper: C05_SRC='a := 1' go test -run TestOne
func TestOne(t *testing.T) {
	src := os.Getenv("C05_SRC")
	if src == "" {
		t.Skip()
	}
	for _, s := range strings.Split(src, "@@") {
		p, clean, diag, pp := parse(s)
		if !clean {
			t.Logf("SRC %q: rejected: %s %s", s, diag, pp)
			continue
		}
		out, pp := printTree(p)
		_, err := roundTrip(s)
		t.Logf("SRC %q\n  printed %q %s\n  verdict: %v", s, out, pp, err)
	}
}

// Developer helper: C05_SHAPE='src' prints the node-type outline of the tree.
func TestShape(t *testing.T) {
	src := os.Getenv("C05_SHAPE")
	if src == "" {
		t.Skip()
	}
	for _, s := range strings.Split(src, "@@") {
		p, clean, diag, _ := parse(s)
		var b strings.Builder
		astcmp.Walk(p, astcmp.Visitor{Node: func(n reflect.Value, d int) {
			b.WriteString(strings.Repeat(" ", d) + n.Elem().Type().Name() + "\n")
		}})
		t.Logf("SRC %q clean=%v %s\n%s", s, clean, diag, b.String())
	}
}
