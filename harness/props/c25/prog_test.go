package c25

// Program-level layer: generated concurrent Elk programs run in the worker.
// A program is a list of independent sections executed one after the other by the
// main thread; each section starts its threads behind a broadcast barrier (a
// channel the main thread closes), joins them with WaitGroups and then prints its
// log lines "<sec> <key> <values...>" from the main thread.  Every Elk form used
// here was run through the real interpreter first (see notes.C25.md).

import (
	"fmt"
	"sort"
	"strconv"
	"strings"
	"testing"
	"time"

	"pgregory.net/rapid"

	"verif/internal/pbt"
	sb "verif/internal/sandbox"
	"verif/internal/vgen"
)

// ---- case description ---------------------------------------------------------

type Prog struct {
	Secs  []Sec `json:"secs"`
	Procs int   `json:"procs"` // GOMAXPROCS of the worker: 1 | 4 | 16
}

type Sec struct {
	Kind string   `json:"kind"` // chan | merge | dist | det | lock | wg | once | misuse | poll
	Chan *ChanSec `json:"chan,omitempty"`
	Mrg  *MrgSec  `json:"merge,omitempty"`
	Dist *DistSec `json:"dist,omitempty"`
	Det  *DetSec  `json:"det,omitempty"`
	Lock *LockSec `json:"lock,omitempty"`
	WG   *WGSec   `json:"wg,omitempty"`
	Once *OnceSec `json:"once,omitempty"`
	Mis  *MisSec  `json:"misuse,omitempty"`
	Poll *PollSec `json:"poll,omitempty"`
}

// PollSec: N single-threaded `select … else … end` on an empty channel in one frame
// (what a polling consumer does); every round must take the else branch.
type PollSec struct {
	N int `json:"n"`
}

// perturbation codes: 0 nothing, 1 `sleep 0.milliseconds`, 2 `sleep 1.microseconds`,
// 3 `sleep 50.microseconds`, 4 `sleep 1.milliseconds`
type ChanSec struct {
	Cap   int      `json:"cap"`
	Prods [][]int  `json:"prods"`  // per producer: perturbation code before each push (len = number of values)
	Cons  []string `json:"cons"`   // per consumer: for | res (`<<ch`) | pop (do/catch) | count (exact number, close none only)
	ConsY []int    `json:"cons_y"` // perturbation pattern of consumers (cycled)
	Close string   `json:"close"`  // none | after | mid
	MidAt int      `json:"mid_at"`
}

type MrgSec struct { // one consumer merges two channels with `select`
	CapA, CapB int
	A, B       []int // perturbation codes of the producer of A / B (values 0.. / 1000..)
	Else       bool  // polling variant with an else branch
}

type DistSec struct { // one producer distributes 0..N-1 over two channels with a send `select`
	CapX, CapY int
	N          int
	Y          []int // perturbation pattern of the producer
	ConsY      []int
}

type DetChan struct {
	Cap    int   `json:"cap"`
	Fill   []int `json:"fill"`
	Closed bool  `json:"closed"`
}

type DetCase struct {
	Ch   int  `json:"ch"`
	Send bool `json:"send"`
	Val  int  `json:"val,omitempty"`
}

type DetStep struct {
	Cases []DetCase `json:"cases"`
	Else  bool      `json:"else"`
}

type DetSec struct { // single-threaded select state machine
	Chans []DetChan `json:"chans"`
	Steps []DetStep `json:"steps"`
}

type LockSec struct {
	Kind    string       `json:"kind"` // mutex | rwmutex | romutex
	Workers []LockWorker `json:"workers"`
	Y       []int        `json:"y"` // perturbation inside the critical section, cycled per worker
}

type WGSec struct {
	N    int    `json:"n"`
	Mode string `json:"mode"` // ctor | add | start | pieces
	Done string `json:"done"` // end | remove
	Y    []int  `json:"y"`
}

type OnceSec struct {
	N     int    `json:"n"`
	Calls int    `json:"calls"`
	API   string `json:"api"` // call | fn | memo
	Y     []int  `json:"y"`
}

type MisSec struct {
	Prim string     `json:"prim"` // mutex | rwmutex | romutex | waitgroup | channel
	Cap  int        `json:"cap,omitempty"`
	Init int        `json:"init,omitempty"` // WaitGroup(n)
	Ops  []MisuseOp `json:"ops"`
}

// ---- rendering -------------------------------------------------------------------

const prelude = `using Std::Sync::{Mutex, RWMutex, ROMutex, WaitGroup, Once}

class Box
  attr log: ArrayList[Int]
  init
    @log = []
  end
end

class Cnt
  attr n: Int
  init
    @n = 0
  end
end

def show(name: String, b: Box)
  s := name
  for v in b.log
    s = s + " " + v.inspect
  end
  println s
end

def try_push(ch: Channel[Int], v: Int): Int
  do
    ch << v
    1
  catch Channel::ClosedError()
    0
  end
end

def m_push(ch: Channel[Int], v: Int): String
  do
    ch << v
    "ok"
  catch Error() as e
    e.class.name + "|" + e.message
  catch e2
    "NONERROR"
  end
end

def m_pop(ch: Channel[Int]): String
  do
    v := ch.pop
    "ok " + v.inspect
  catch Error() as e
    e.class.name + "|" + e.message
  catch e2
    "NONERROR"
  end
end

def m_res(ch: Channel[Int]): String
  do
    r := <<ch
    e := r.err
    if e
      e.class.name + "|" + e.message
    else
      "ok " + r.unwrap.inspect
    end
  catch Error() as e
    "THROWN " + e.class.name + "|" + e.message
  catch e2
    "NONERROR"
  end
end

def m_selrecv(ch: Channel[Int]): String
  do
    s := "none"
    select
    case r := <<ch
      e := r.err
      if e
        s = e.class.name + "|" + e.message
      else
        s = "ok " + r.unwrap.inspect
      end
    end
    s
  catch Error() as e
    "THROWN " + e.class.name + "|" + e.message
  catch e2
    "NONERROR"
  end
end

def m_selsend(ch: Channel[Int], v: Int): String
  do
    s := "none"
    select
    case ch << v
      s = "ok"
    end
    s
  catch Error() as e
    e.class.name + "|" + e.message
  catch e2
    "NONERROR"
  end
end

def m_close(ch: Channel[Int]): String
  do
    ch.close
    "ok"
  catch Error() as e
    e.class.name + "|" + e.message
  catch e2
    "NONERROR"
  end
end

`

type wr struct {
	b   strings.Builder
	ind int
}

func (w *wr) l(format string, a ...any) {
	w.b.WriteString(strings.Repeat("  ", w.ind))
	fmt.Fprintf(&w.b, format, a...)
	w.b.WriteByte('\n')
}

func (w *wr) pert(code int) {
	switch code {
	case 1:
		w.l("sleep 0.milliseconds")
	case 2:
		w.l("sleep 1.microseconds")
	case 3:
		w.l("sleep 50.microseconds")
	case 4:
		w.l("sleep 1.milliseconds")
	}
}

func cyc(y []int, i int) int {
	if len(y) == 0 {
		return 0
	}
	return y[i%len(y)]
}

func (p Prog) Source() string {
	w := &wr{}
	w.b.WriteString(prelude)
	for i, s := range p.Secs {
		id := fmt.Sprintf("s%d", i)
		switch s.Kind {
		case "chan":
			s.Chan.render(w, id)
		case "merge":
			s.Mrg.render(w, id)
		case "dist":
			s.Dist.render(w, id)
		case "det":
			s.Det.render(w, id)
		case "lock":
			s.Lock.render(w, id)
		case "wg":
			s.WG.render(w, id)
		case "once":
			s.Once.render(w, id)
		case "misuse":
			s.Mis.render(w, id)
		case "poll":
			s.Poll.render(w, id)
		}
		w.l("")
	}
	w.l("println \"END\"")
	return w.b.String()
}

func (c *ChanSec) render(w *wr, id string) {
	w.l("%s_ch := Channel::[Int](%d)", id, c.Cap)
	w.l("%s_go := Channel::[Int]()", id)
	w.l("%s_pw := WaitGroup(%d)", id, len(c.Prods))
	w.l("%s_cw := WaitGroup(%d)", id, len(c.Cons))
	total := 0
	for p, ys := range c.Prods {
		total += len(ys)
		w.l("%s_p%d := Box()", id, p)
	}
	for k := range c.Cons {
		w.l("%s_c%d := Box()", id, k)
	}
	for p, ys := range c.Prods {
		w.l("go")
		w.ind++
		w.l("<<%s_go", id)
		for j, y := range ys {
			if c.Close == "mid" && p == 0 && j == c.MidAt {
				w.l("%s_ch.close", id)
			}
			w.pert(y)
			w.l("%s_p%d.log << try_push(%s_ch, %d)", id, p, id, p*1000+j)
		}
		if c.Close == "mid" && p == 0 && c.MidAt >= len(ys) {
			w.l("%s_ch.close", id)
		}
		w.l("%s_pw.end", id)
		w.ind--
		w.l("end")
	}
	for k, kind := range c.Cons {
		w.l("go")
		w.ind++
		w.l("<<%s_go", id)
		switch kind {
		case "for":
			w.l("for v in %s_ch", id)
			w.ind++
			w.l("%s_c%d.log << v", id, k)
			w.pert(cyc(c.ConsY, k))
			w.ind--
			w.l("end")
		case "res":
			w.l("loop")
			w.ind++
			w.pert(cyc(c.ConsY, k))
			w.l("r := <<%s_ch", id)
			w.l("break unless r.ok")
			w.l("%s_c%d.log << r.unwrap", id, k)
			w.ind--
			w.l("end")
		case "pop":
			w.l("loop")
			w.ind++
			w.pert(cyc(c.ConsY, k))
			w.l("v := do")
			w.l("  %s_ch.pop", id)
			w.l("catch Channel::ClosedError()")
			w.l("  break")
			w.l("end")
			w.l("%s_c%d.log << v", id, k)
			w.ind--
			w.l("end")
		case "count":
			quota := total / len(c.Cons)
			if k < total%len(c.Cons) {
				quota++
			}
			w.l("i := 0")
			w.l("while i < %d", quota)
			w.ind++
			w.pert(cyc(c.ConsY, k))
			w.l("%s_c%d.log << (<<%s_ch).unwrap", id, k, id)
			w.l("i += 1")
			w.ind--
			w.l("end")
		}
		w.l("%s_cw.end", id)
		w.ind--
		w.l("end")
	}
	w.l("%s_go.close", id)
	w.l("%s_pw.wait", id)
	if c.Close == "after" {
		w.l("%s_ch.close", id)
	}
	w.l("%s_cw.wait", id)
	for p := range c.Prods {
		w.l("show(\"%s p%d\", %s_p%d)", id, p, id, p)
	}
	for k := range c.Cons {
		w.l("show(\"%s c%d\", %s_c%d)", id, k, id, k)
	}
	w.l("println \"%s len \" + %s_ch.length.inspect", id, id)
	if c.Close == "none" {
		// buffered values survive the close, in order
		for i := 0; i < c.Cap; i++ {
			w.l("%s_ch << %d", id, 7000+i)
		}
		w.l("println \"%s len2 \" + %s_ch.length.inspect + \" \" + %s_ch.left_capacity.inspect", id, id, id)
		w.l("%s_ch.close", id)
		w.l("%s_d := Box()", id)
		w.l("for v in %s_ch", id)
		w.l("  %s_d.log << v", id)
		w.l("end")
		w.l("show(\"%s drain\", %s_d)", id, id)
	}
	w.l("println \"%s post_push \" + m_push(%s_ch, 1)", id, id)
	w.l("println \"%s post_pop \" + m_pop(%s_ch)", id, id)
	w.l("println \"%s post_res \" + m_res(%s_ch)", id, id)
	w.l("println \"%s post_selrecv \" + m_selrecv(%s_ch)", id, id)
	w.l("println \"%s post_close \" + m_close(%s_ch)", id, id)
}

func (c *MrgSec) render(w *wr, id string) {
	w.l("%s_a := Channel::[Int](%d)", id, c.CapA)
	w.l("%s_b := Channel::[Int](%d)", id, c.CapB)
	w.l("%s_go := Channel::[Int]()", id)
	w.l("%s_wg := WaitGroup(3)", id)
	w.l("%s_c := Box()", id)
	w.l("%s_e := Cnt()", id)
	for pi, ys := range [][]int{c.A, c.B} {
		ch := []string{"a", "b"}[pi]
		w.l("go")
		w.ind++
		w.l("<<%s_go", id)
		for j, y := range ys {
			w.pert(y)
			w.l("%s_%s << %d", id, ch, pi*1000+j)
		}
		w.l("%s_wg.end", id)
		w.ind--
		w.l("end")
	}
	w.l("go")
	w.ind++
	w.l("<<%s_go", id)
	w.l("i := 0")
	w.l("while i < %d", len(c.A)+len(c.B))
	w.ind++
	w.l("select")
	w.l("case r := <<%s_a", id)
	w.l("  %s_c.log << r.unwrap", id)
	w.l("  i += 1")
	w.l("case r := <<%s_b", id)
	w.l("  %s_c.log << r.unwrap", id)
	w.l("  i += 1")
	if c.Else {
		w.l("else")
		w.l("  %s_e.n = %s_e.n + 1", id, id)
		w.l("  sleep 1.microseconds")
	}
	w.l("end")
	w.ind--
	w.l("end")
	w.l("%s_wg.end", id)
	w.ind--
	w.l("end")
	w.l("%s_go.close", id)
	w.l("%s_wg.wait", id)
	w.l("show(\"%s c\", %s_c)", id, id)
	w.l("println \"%s len \" + %s_a.length.inspect + \" \" + %s_b.length.inspect", id, id, id)
}

func (c *DistSec) render(w *wr, id string) {
	w.l("%s_x := Channel::[Int](%d)", id, c.CapX)
	w.l("%s_y := Channel::[Int](%d)", id, c.CapY)
	w.l("%s_go := Channel::[Int]()", id)
	w.l("%s_wg := WaitGroup(3)", id)
	w.l("%s_ps := Box()", id)
	w.l("%s_sx := Box()", id)
	w.l("%s_sy := Box()", id)
	w.l("go")
	w.ind++
	w.l("<<%s_go", id)
	for v := 0; v < c.N; v++ {
		w.pert(cyc(c.Y, v))
		w.l("select")
		w.l("case %s_x << %d", id, v)
		w.l("  %s_ps.log << 0", id)
		w.l("case %s_y << %d", id, v)
		w.l("  %s_ps.log << 1", id)
		w.l("end")
	}
	w.l("%s_x.close", id)
	w.l("%s_y.close", id)
	w.l("%s_wg.end", id)
	w.ind--
	w.l("end")
	for k, n := range []string{"x", "y"} {
		w.l("go")
		w.ind++
		w.l("<<%s_go", id)
		w.l("for v in %s_%s", id, n)
		w.ind++
		w.l("%s_s%s.log << v", id, n)
		w.pert(cyc(c.ConsY, k))
		w.ind--
		w.l("end")
		w.l("%s_wg.end", id)
		w.ind--
		w.l("end")
	}
	w.l("%s_go.close", id)
	w.l("%s_wg.wait", id)
	w.l("show(\"%s ps\", %s_ps)", id, id)
	w.l("show(\"%s sx\", %s_sx)", id, id)
	w.l("show(\"%s sy\", %s_sy)", id, id)
}

func (c *DetSec) render(w *wr, id string) {
	for i, ch := range c.Chans {
		w.l("%s_q%d := Channel::[Int](%d)", id, i, ch.Cap)
		for _, v := range ch.Fill {
			w.l("%s_q%d << %d", id, i, v)
		}
		if ch.Closed {
			w.l("%s_q%d.close", id, i)
		}
	}
	w.l("%s_k := Box()", id)
	for _, st := range c.Steps {
		w.l("select")
		for ci, cs := range st.Cases {
			if cs.Send {
				w.l("case %s_q%d << %d", id, cs.Ch, cs.Val)
				w.l("  %s_k.log << %d", id, ci)
				w.l("  %s_k.log << -1", id)
			} else {
				w.l("case r := <<%s_q%d", id, cs.Ch)
				w.l("  %s_k.log << %d", id, ci)
				w.l("  if r.ok")
				w.l("    %s_k.log << r.unwrap", id)
				w.l("  else")
				w.l("    %s_k.log << -2", id)
				w.l("  end")
			}
		}
		if st.Else {
			w.l("else")
			w.l("  %s_k.log << %d", id, len(st.Cases))
			w.l("  %s_k.log << -3", id)
		}
		w.l("end")
	}
	w.l("show(\"%s k\", %s_k)", id, id)
	var parts []string
	for i := range c.Chans {
		parts = append(parts, fmt.Sprintf("%s_q%d.length.inspect", id, i))
	}
	w.l("println \"%s len \" + %s", id, strings.Join(parts, " + \" \" + "))
}

func (c *LockSec) render(w *wr, id string) {
	switch c.Kind {
	case "mutex":
		w.l("%s_m := Mutex()", id)
	default:
		w.l("%s_m := RWMutex()", id)
		if c.Kind == "romutex" {
			w.l("%s_ro := ROMutex(%s_m)", id, id)
		}
	}
	w.l("%s_go := Channel::[Int]()", id)
	w.l("%s_wg := WaitGroup(%d)", id, len(c.Workers))
	w.l("%s_cnt := Cnt()", id)
	w.l("%s_own := Box()", id)
	for i, wk := range c.Workers {
		reader := wk.Read && c.Kind != "mutex"
		if reader {
			w.l("%s_r%d := Box()", id, i)
		}
		w.l("go")
		w.ind++
		w.l("<<%s_go", id)
		w.l("i := 0")
		w.l("while i < %d", wk.Iters)
		w.ind++
		if reader {
			lock, unlock := id+"_m.read_lock", id+"_m.read_unlock"
			if c.Kind == "romutex" {
				lock, unlock = id+"_ro.lock", id+"_ro.unlock"
			}
			w.l("%s", lock)
			w.l("a := %s_cnt.n", id)
			w.pert(cyc(c.Y, i))
			w.l("b := %s_cnt.n", id)
			w.l("%s_r%d.log << a", id, i)
			w.l("%s_r%d.log << b", id, i)
			w.l("%s", unlock)
		} else {
			w.l("%s_m.lock", id)
			w.l("x := %s_cnt.n", id)
			w.pert(cyc(c.Y, i))
			w.l("%s_cnt.n = x + 1", id)
			w.l("%s_own.log << %d", id, i)
			w.l("%s_m.unlock", id)
		}
		w.pert(cyc(c.Y, i+3))
		w.l("i += 1")
		w.ind--
		w.l("end")
		w.l("%s_wg.end", id)
		w.ind--
		w.l("end")
	}
	w.l("%s_go.close", id)
	w.l("%s_wg.wait", id)
	w.l("println \"%s cnt \" + %s_cnt.n.inspect", id, id)
	w.l("show(\"%s own\", %s_own)", id, id)
	for i, wk := range c.Workers {
		if wk.Read && c.Kind != "mutex" {
			w.l("show(\"%s r%d\", %s_r%d)", id, i, id, i)
		}
	}
}

func (c *WGSec) render(w *wr, id string) {
	switch c.Mode {
	case "ctor":
		w.l("%s_wg := WaitGroup(%d)", id, c.N)
	case "add":
		w.l("%s_wg := WaitGroup()", id)
		w.l("%s_wg.add(%d)", id, c.N)
	case "pieces":
		w.l("%s_wg := WaitGroup(1)", id)
		w.l("%s_wg.add(%d)", id, c.N+1)
		w.l("%s_wg.remove(2)", id)
	default:
		w.l("%s_wg := WaitGroup()", id)
	}
	w.l("%s_go := Channel::[Int]()", id)
	for i := 0; i < c.N; i++ {
		w.l("%s_w%d := Cnt()", id, i)
	}
	for i := 0; i < c.N; i++ {
		if c.Mode == "start" {
			w.l("%s_wg.start", id)
		}
		w.l("go")
		w.ind++
		w.l("<<%s_go", id)
		w.pert(cyc(c.Y, i))
		w.l("%s_w%d.n = %d", id, i, i+1)
		if c.Done == "remove" {
			w.l("%s_wg.remove(1)", id)
		} else {
			w.l("%s_wg.end", id)
		}
		w.ind--
		w.l("end")
	}
	w.l("%s_go.close", id)
	w.l("%s_wg.wait", id)
	var parts []string
	for i := 0; i < c.N; i++ {
		parts = append(parts, fmt.Sprintf("%s_w%d.n.inspect", id, i))
	}
	w.l("println \"%s w \" + %s", id, strings.Join(parts, " + \" \" + "))
}

func (c *OnceSec) render(w *wr, id string) {
	w.l("%s_cnt := Cnt()", id)
	w.l("%s_go := Channel::[Int]()", id)
	w.l("%s_wg := WaitGroup(%d)", id, c.N)
	switch c.API {
	case "call":
		w.l("%s_once := Once()", id)
	case "fn":
		w.l("%s_f := Once.fn ~>", id)
		w.l("  x := %s_cnt.n", id)
		w.l("  sleep 1.microseconds")
		w.l("  %s_cnt.n = x + 1", id)
		w.l("end")
	case "memo":
		w.l("%s_f := Once.memo() ~>", id)
		w.l("  x := %s_cnt.n", id)
		w.l("  sleep 1.microseconds")
		w.l("  %s_cnt.n = x + 1", id)
		w.l("  4200 + %s_cnt.n", id)
		w.l("end")
	}
	for g := 0; g < c.N; g++ {
		w.l("%s_t%d := Box()", id, g)
		w.l("go")
		w.ind++
		w.l("<<%s_go", id)
		for s := 0; s < c.Calls; s++ {
			w.pert(cyc(c.Y, g+s))
			switch c.API {
			case "call":
				w.l("%s_once.call ->", id)
				w.l("  x := %s_cnt.n", id)
				w.l("  sleep 1.microseconds")
				w.l("  %s_cnt.n = x + 1", id)
				w.l("end")
				w.l("%s_t%d.log << %s_cnt.n", id, g, id)
			case "fn":
				w.l("%s_f()", id)
				w.l("%s_t%d.log << %s_cnt.n", id, g, id)
			case "memo":
				w.l("%s_t%d.log << %s_f()", id, g, id)
				w.l("%s_t%d.log << %s_cnt.n", id, g, id)
			}
		}
		w.l("%s_wg.end", id)
		w.ind--
		w.l("end")
	}
	w.l("%s_go.close", id)
	w.l("%s_wg.wait", id)
	w.l("println \"%s ran \" + %s_cnt.n.inspect", id, id)
	for g := 0; g < c.N; g++ {
		w.l("show(\"%s t%d\", %s_t%d)", id, g, id, g)
	}
}

// misuse ops are rendered as guarded statements printing "ok" or the error class
func (c *MisSec) render(w *wr, id string) {
	guard := func(i int, stmt string) {
		w.l("%s_r%d := do", id, i)
		w.l("  %s", stmt)
		w.l("  \"ok\"")
		w.l("catch Error() as e")
		w.l("  e.class.name + \"|\" + e.message")
		w.l("catch e2")
		w.l("  \"NONERROR\"")
		w.l("end")
		w.l("println \"%s op%d \" + %s_r%d", id, i, id, i)
	}
	switch c.Prim {
	case "mutex":
		w.l("%s_m := Mutex()", id)
	case "rwmutex":
		w.l("%s_m := RWMutex()", id)
	case "romutex":
		w.l("%s_m := RWMutex()", id)
		w.l("%s_ro := ROMutex(%s_m)", id, id)
	case "waitgroup":
		w.l("%s_m := WaitGroup(%d)", id, c.Init)
	case "channel":
		w.l("%s_m := Channel::[Int](%d)", id, c.Cap)
	}
	for i, op := range c.Ops {
		switch c.Prim {
		case "channel":
			switch op.Op {
			case "push":
				w.l("println \"%s op%d \" + m_push(%s_m, %d)", id, i, id, op.N)
			case "selsend":
				w.l("println \"%s op%d \" + m_selsend(%s_m, %d)", id, i, id, op.N)
			case "pop":
				w.l("println \"%s op%d \" + m_pop(%s_m)", id, i, id)
			case "res":
				w.l("println \"%s op%d \" + m_res(%s_m)", id, i, id)
			case "selrecv":
				w.l("println \"%s op%d \" + m_selrecv(%s_m)", id, i, id)
			case "close":
				w.l("println \"%s op%d \" + m_close(%s_m)", id, i, id)
			case "length":
				w.l("println \"%s op%d len \" + %s_m.length.inspect + \" \" + %s_m.left_capacity.inspect", id, i, id, id)
			}
		case "waitgroup":
			switch op.Op {
			case "add":
				guard(i, fmt.Sprintf("%s_m.add(%d)", id, op.N))
			case "remove":
				guard(i, fmt.Sprintf("%s_m.remove(%d)", id, op.N))
			case "wait":
				guard(i, fmt.Sprintf("%s_m.wait", id))
			default:
				guard(i, fmt.Sprintf("%s_m.%s", id, op.Op))
			}
		case "romutex":
			switch op.Op {
			case "read_lock":
				guard(i, id+"_ro.lock")
			case "read_unlock":
				guard(i, id+"_ro.unlock")
			default:
				guard(i, id+"_m."+op.Op)
			}
		default:
			guard(i, id+"_m."+op.Op)
		}
	}
}

func (c *PollSec) render(w *wr, id string) {
	w.l("%s_q := Channel::[Int](1)", id)
	w.l("%s_i := 0", id)
	w.l("%s_h := 0", id)
	w.l("while %s_i < %d", id, c.N)
	w.l("  select")
	w.l("  case r := <<%s_q", id)
	w.l("    %s_h += 1000000", id)
	w.l("  else")
	w.l("    %s_h += 1", id)
	w.l("  end")
	w.l("  %s_i += 1", id)
	w.l("end")
	w.l("println \"%s poll \" + %s_h.inspect", id, id)
}

func (c *PollSec) check(o outLog, id string, v *secVerdict) error {
	h, err := o.ints(id + " poll")
	if err != nil {
		return err
	}
	if len(h) != 1 || h[0] != c.N {
		return fmt.Errorf("%s: %d selects on an empty channel took the else branch %v times", id, c.N, h)
	}
	v.labels = append(v.labels, "poll")
	return nil
}

// elseBudget is the number of else branches the main frame of the program can take.
func (p Prog) elseBudget() int {
	b := 0
	for _, s := range p.Secs {
		switch {
		case s.Kind == "poll" && s.Poll != nil:
			b += s.Poll.N
		case s.Kind == "det" && s.Det != nil:
			b += len(s.Det.Steps)
		}
	}
	return b
}

func (p Prog) hasPollingMerge() bool {
	for _, s := range p.Secs {
		if s.Kind == "merge" && s.Mrg != nil && s.Mrg.Else {
			return true
		}
	}
	return false
}

// ---- generator -------------------------------------------------------------------

func genPert(t *rapid.T, label string) int {
	k := rapid.IntRange(0, 19).Draw(t, label)
	switch {
	case k <= 6:
		return 0
	case k <= 8:
		return 1
	case k <= 14:
		return 2
	case k <= 18:
		return 3
	}
	return 4
}

func genPerts(t *rapid.T, lo, hi int, label string) []int {
	n := rapid.IntRange(lo, hi).Draw(t, label+"_n")
	y := make([]int, n)
	for i := range y {
		y[i] = genPert(t, label)
	}
	return y
}

func genChanSec(t *rapid.T) *ChanSec {
	c := &ChanSec{Cap: rapid.IntRange(0, 4).Draw(t, "cap")}
	k := rapid.IntRange(1, 3).Draw(t, "producers")
	for p := 0; p < k; p++ {
		c.Prods = append(c.Prods, genPerts(t, 1, 8, "push"))
	}
	c.Close = []string{"none", "after", "mid", "mid"}[vgen.Pick(t, 4, "close")]
	if c.Close == "mid" {
		c.MidAt = rapid.IntRange(0, len(c.Prods[0])).Draw(t, "mid_at")
	}
	m := rapid.IntRange(1, 3).Draw(t, "consumers")
	for i := 0; i < m; i++ {
		if c.Close == "none" {
			c.Cons = append(c.Cons, "count")
		} else {
			c.Cons = append(c.Cons, []string{"for", "res", "pop"}[rapid.IntRange(0, 2).Draw(t, "cons_kind")])
		}
	}
	c.ConsY = genPerts(t, 1, 3, "cons_y")
	return c
}

func genDetSec(t *rapid.T) *DetSec {
	d := &DetSec{}
	n := rapid.IntRange(1, 4).Draw(t, "chans")
	next := 10
	for i := 0; i < n; i++ {
		ch := DetChan{Cap: rapid.IntRange(0, 3).Draw(t, "cap")}
		f := rapid.IntRange(0, ch.Cap).Draw(t, "fill")
		for j := 0; j < f; j++ {
			ch.Fill = append(ch.Fill, next)
			next++
		}
		ch.Closed = rapid.IntRange(0, 3).Draw(t, "closed") == 0
		d.Chans = append(d.Chans, ch)
	}
	steps := rapid.IntRange(1, 6).Draw(t, "steps")
	for s := 0; s < steps; s++ {
		var stp DetStep
		nc := rapid.IntRange(1, 3).Draw(t, "cases")
		for i := 0; i < nc; i++ {
			cs := DetCase{Ch: rapid.IntRange(0, n-1).Draw(t, "ch")}
			cs.Send = rapid.Bool().Draw(t, "send")
			if cs.Send {
				cs.Val = next
				next++
			}
			stp.Cases = append(stp.Cases, cs)
		}
		stp.Else = rapid.Bool().Draw(t, "else")
		d.Steps = append(d.Steps, stp)
	}
	d.sanitize()
	return d
}

func genLockSec(t *rapid.T) *LockSec {
	c := &LockSec{Kind: []string{"mutex", "rwmutex", "romutex", "mutex"}[vgen.Pick(t, 4, "kind")]}
	n := rapid.IntRange(2, 4).Draw(t, "workers")
	for i := 0; i < n; i++ {
		wk := LockWorker{Iters: rapid.IntRange(1, 8).Draw(t, "iters")}
		if c.Kind != "mutex" && i > 0 {
			wk.Read = rapid.Bool().Draw(t, "read")
		}
		c.Workers = append(c.Workers, wk)
	}
	c.Y = genPerts(t, 1, 5, "y")
	return c
}

func genMisSec(t *rapid.T) *MisSec {
	c := &MisSec{Prim: []string{"mutex", "rwmutex", "romutex", "waitgroup", "channel", "channel", "channel", "waitgroup"}[vgen.Pick(t, 8, "prim")]}
	var names []string
	switch c.Prim {
	case "mutex":
		names = []string{"lock", "unlock"}
	case "rwmutex", "romutex":
		names = []string{"lock", "unlock", "read_lock", "read_unlock"}
	case "waitgroup":
		c.Init = rapid.IntRange(0, 2).Draw(t, "init")
		names = []string{"add", "remove", "start", "end", "wait"}
	case "channel":
		c.Cap = rapid.IntRange(0, 3).Draw(t, "cap")
		names = []string{"push", "selsend", "pop", "res", "selrecv", "close", "length"}
	}
	n := rapid.IntRange(1, 10).Draw(t, "ops")
	for i := 0; i < n; i++ {
		op := MisuseOp{Op: names[rapid.IntRange(0, len(names)-1).Draw(t, "op")]}
		switch op.Op {
		case "push", "selsend":
			op.N = rapid.IntRange(0, 99).Draw(t, "v")
		case "add":
			op.N = rapid.IntRange(-2, 3).Draw(t, "n")
		case "remove":
			op.N = rapid.IntRange(0, 3).Draw(t, "n")
		}
		c.Ops = append(c.Ops, op)
	}
	c.Ops = c.legalPrefix()
	return c
}

func genSec(t *rapid.T) Sec {
	switch k := []string{"chan", "chan", "merge", "dist", "det", "lock", "lock", "wg", "once", "misuse", "misuse", "det", "poll"}[rapid.IntRange(0, 12).Draw(t, "sec")]; k {
	case "poll":
		n := rapid.IntRange(1, 12).Draw(t, "n")
		if rapid.IntRange(0, 2).Draw(t, "long") == 0 {
			n = rapid.IntRange(300, 4000).Draw(t, "n_long")
		}
		return Sec{Kind: k, Poll: &PollSec{N: n}}
	case "chan":
		return Sec{Kind: k, Chan: genChanSec(t)}
	case "merge":
		return Sec{Kind: k, Mrg: &MrgSec{CapA: rapid.IntRange(0, 3).Draw(t, "cap_a"), CapB: rapid.IntRange(0, 3).Draw(t, "cap_b"),
			A: genPerts(t, 1, 6, "a"), B: genPerts(t, 1, 6, "b"), Else: rapid.IntRange(0, 3).Draw(t, "else") == 0}}
	case "dist":
		return Sec{Kind: k, Dist: &DistSec{CapX: rapid.IntRange(0, 3).Draw(t, "cap_x"), CapY: rapid.IntRange(0, 3).Draw(t, "cap_y"),
			N: rapid.IntRange(1, 8).Draw(t, "n"), Y: genPerts(t, 1, 4, "y"), ConsY: genPerts(t, 2, 2, "cons_y")}}
	case "det":
		return Sec{Kind: k, Det: genDetSec(t)}
	case "lock":
		return Sec{Kind: k, Lock: genLockSec(t)}
	case "wg":
		return Sec{Kind: k, WG: &WGSec{N: rapid.IntRange(1, 6).Draw(t, "n"), Mode: []string{"ctor", "add", "start", "pieces"}[rapid.IntRange(0, 3).Draw(t, "mode")],
			Done: []string{"end", "remove"}[rapid.IntRange(0, 1).Draw(t, "done")], Y: genPerts(t, 1, 4, "y")}}
	case "once":
		return Sec{Kind: k, Once: &OnceSec{N: rapid.IntRange(1, 6).Draw(t, "n"), Calls: rapid.IntRange(1, 3).Draw(t, "calls"),
			API: []string{"call", "fn", "memo"}[rapid.IntRange(0, 2).Draw(t, "api")], Y: genPerts(t, 1, 4, "y")}}
	default:
		return Sec{Kind: "misuse", Mis: genMisSec(t)}
	}
}

func genProg(t *rapid.T) Prog {
	p := Prog{Procs: []int{1, 4, 16}[rapid.IntRange(0, 2).Draw(t, "procs")]}
	n := rapid.IntRange(1, 5).Draw(t, "sections")
	for i := 0; i < n; i++ {
		p.Secs = append(p.Secs, genSec(t))
	}
	return p
}

// ---- models for the single-threaded sections -----------------------------------------

// misuse model: what each op must print.  want "" = skip (not rendered: would block).
type misStep struct {
	want   string // "ok", "ok <v>", "len a b", or "ERR:<class>" / "ERR" (any Elk error)
	misuse string // label of the misuse, "" for legal ops
}

// simulate returns for each op the expected outcome; ok=false means the op must not
// be part of the sequence (it would block or follows the first misuse of a primitive
// whose state after an error is not documented).
func (c *MisSec) simulate() (steps []misStep, legal []bool) {
	steps = make([]misStep, len(c.Ops))
	legal = make([]bool, len(c.Ops))
	stopped := false
	locked, writer, readers := false, false, 0
	counter := c.Init
	var buf []int
	closed := false
	for i, op := range c.Ops {
		if stopped {
			continue
		}
		switch c.Prim {
		case "mutex":
			switch op.Op {
			case "lock":
				if locked {
					continue
				}
				locked = true
				steps[i] = misStep{want: "ok"}
			case "unlock":
				if !locked {
					steps[i] = misStep{want: "ERR:Std::Sync::Mutex::UnlockedError", misuse: "unlock_unheld"}
					stopped = true
				} else {
					locked = false
					steps[i] = misStep{want: "ok"}
				}
			}
		case "rwmutex", "romutex":
			switch op.Op {
			case "lock":
				if writer || readers > 0 {
					continue
				}
				writer = true
				steps[i] = misStep{want: "ok"}
			case "read_lock":
				if writer {
					continue
				}
				readers++
				steps[i] = misStep{want: "ok"}
			case "unlock":
				if !writer {
					steps[i] = misStep{want: "ERR:Std::Sync::RWMutex::UnlockedError", misuse: "unlock_unheld_write"}
					stopped = true
				} else {
					writer = false
					steps[i] = misStep{want: "ok"}
				}
			case "read_unlock":
				if readers == 0 {
					steps[i] = misStep{want: "ERR:Std::Sync::RWMutex::UnlockedError", misuse: "unlock_unheld_read"}
					stopped = true
				} else {
					readers--
					steps[i] = misStep{want: "ok"}
				}
			}
		case "waitgroup":
			d := 0
			switch op.Op {
			case "add":
				d = op.N
			case "remove":
				d = -op.N
			case "start":
				d = 1
			case "end":
				d = -1
			case "wait":
				if counter != 0 {
					continue
				}
				steps[i] = misStep{want: "ok"}
				legal[i] = true
				continue
			}
			if counter+d < 0 {
				// documented: "If the counter goes negative an unchecked error gets thrown" (no class named)
				steps[i] = misStep{want: "ERR", misuse: "waitgroup_negative"}
				stopped = true
			} else {
				counter += d
				steps[i] = misStep{want: "ok"}
			}
		case "channel":
			const ce = "ERR:Std::Channel::ClosedError"
			switch op.Op {
			case "push", "selsend":
				if closed {
					steps[i] = misStep{want: ce + "|cannot push values to a closed channel", misuse: op.Op + "_closed"}
				} else if len(buf) == c.Cap {
					continue
				} else {
					buf = append(buf, op.N)
					steps[i] = misStep{want: "ok"}
				}
			case "pop", "res", "selrecv":
				if len(buf) > 0 {
					steps[i] = misStep{want: fmt.Sprintf("ok %d", buf[0])}
					buf = buf[1:]
				} else if closed {
					steps[i] = misStep{want: ce + "|cannot pop values from a closed channel", misuse: op.Op + "_closed"}
				} else {
					continue
				}
			case "close":
				if closed {
					steps[i] = misStep{want: ce + "|cannot close a closed channel", misuse: "double_close"}
				} else {
					closed = true
					steps[i] = misStep{want: "ok"}
				}
			case "length":
				steps[i] = misStep{want: fmt.Sprintf("len %d %d", len(buf), c.Cap-len(buf))}
			}
		}
		legal[i] = true
	}
	return
}

// legalPrefix drops the ops that would block or that follow the terminating misuse.
func (c *MisSec) legalPrefix() []MisuseOp {
	_, legal := c.simulate()
	var out []MisuseOp
	for i, op := range c.Ops {
		if legal[i] {
			out = append(out, op)
		}
	}
	return out
}

// ---- output checking -----------------------------------------------------------------

type outLog map[string]string

func parseOut(s string) (outLog, bool) {
	m := outLog{}
	end := false
	for _, ln := range strings.Split(s, "\n") {
		if ln == "END" {
			end = true
			continue
		}
		f := strings.SplitN(ln, " ", 3)
		if len(f) < 2 {
			continue
		}
		rest := ""
		if len(f) == 3 {
			rest = f[2]
		}
		m[f[0]+" "+f[1]] = rest
	}
	return m, end
}

func (o outLog) ints(key string) ([]int, error) {
	s, ok := o[key]
	if !ok {
		return nil, fmt.Errorf("log line %q missing", key)
	}
	var out []int
	for _, f := range strings.Fields(s) {
		v, err := strconv.Atoi(f)
		if err != nil {
			return nil, fmt.Errorf("log line %q: %q is not an integer", key, f)
		}
		out = append(out, v)
	}
	return out, nil
}

func (o outLog) str(key string) (string, error) {
	s, ok := o[key]
	if !ok {
		return "", fmt.Errorf("log line %q missing", key)
	}
	return s, nil
}

// contiguous reports whether every id forms one block in seq (no alternation).
func alternates(seq []int, key func(int) int) bool {
	seen, cur := map[int]bool{}, -1<<30
	for _, v := range seq {
		k := key(v)
		if k != cur {
			if seen[k] {
				return true
			}
			seen[k] = true
			cur = k
		}
	}
	return false
}

func increasingPerProducer(seq []int) (int, int, bool) {
	last := map[int]int{}
	for _, v := range seq {
		p := v / 1000
		if l, ok := last[p]; ok && l >= v {
			return l, v, false
		}
		last[p] = v
	}
	return 0, 0, true
}

func sameMultiset(a, b []int) bool {
	x, y := append([]int(nil), a...), append([]int(nil), b...)
	sort.Ints(x)
	sort.Ints(y)
	return fmt.Sprint(x) == fmt.Sprint(y)
}

type secVerdict struct {
	inter  bool
	misuse bool
	labels []string
}

func (c *ChanSec) check(o outLog, id string, v *secVerdict) error {
	var want, got []int
	rejected := 0
	for p, ys := range c.Prods {
		rs, err := o.ints(fmt.Sprintf("%s p%d", id, p))
		if err != nil {
			return err
		}
		if len(rs) != len(ys) {
			return fmt.Errorf("%s: producer %d logged %d push results, wanted %d", id, p, len(rs), len(ys))
		}
		failed := false
		for j, r := range rs {
			if r == 1 {
				if failed {
					return fmt.Errorf("%s: producer %d: push #%d succeeded after an earlier push was rejected as closed", id, p, j)
				}
				if c.Close == "mid" && p == 0 && j >= c.MidAt {
					return fmt.Errorf("%s: producer 0 closed the channel before its push #%d, but that push succeeded", id, j)
				}
				want = append(want, p*1000+j)
			} else {
				failed = true
				rejected++
				if c.Close != "mid" {
					return fmt.Errorf("%s: push #%d of producer %d was rejected as closed although nobody had closed the channel", id, j, p)
				}
			}
		}
	}
	active := 0
	for k := range c.Cons {
		ps, err := o.ints(fmt.Sprintf("%s c%d", id, k))
		if err != nil {
			return err
		}
		if a, b, ok := increasingPerProducer(ps); !ok {
			return fmt.Errorf("%s: consumer %d popped %d after %d: push order not preserved (%v)", id, k, b, a, ps)
		}
		if len(ps) > 0 {
			active++
		}
		if alternates(ps, func(x int) int { return x / 1000 }) {
			v.inter = true
		}
		got = append(got, ps...)
	}
	if !sameMultiset(want, got) {
		sort.Ints(want)
		sort.Ints(got)
		return fmt.Errorf("%s: popped multiset differs from successfully pushed multiset:\n pushed %v\n popped %v", id, want, got)
	}
	if active >= 2 || rejected > 0 {
		v.inter = true
	}
	if l, err := o.str(id + " len"); err != nil || l != "0" {
		return fmt.Errorf("%s: length after everything was popped: %q %v", id, l, err)
	}
	if c.Close == "none" {
		l2, err := o.str(id + " len2")
		if err != nil || l2 != fmt.Sprintf("%d 0", c.Cap) {
			return fmt.Errorf("%s: length/left_capacity after filling the buffer: %q, wanted \"%d 0\" %v", id, l2, c.Cap, err)
		}
		d, err := o.ints(id + " drain")
		if err != nil {
			return err
		}
		var wd []int
		for i := 0; i < c.Cap; i++ {
			wd = append(wd, 7000+i)
		}
		if fmt.Sprint(d) != fmt.Sprint(wd) {
			return fmt.Errorf("%s: draining the closed channel gave %v, the buffer held %v", id, d, wd)
		}
	}
	const ce = "Std::Channel::ClosedError|"
	for key, want := range map[string]string{
		"post_push":    ce + "cannot push values to a closed channel",
		"post_pop":     ce + "cannot pop values from a closed channel",
		"post_res":     ce + "cannot pop values from a closed channel",
		"post_selrecv": ce + "cannot pop values from a closed channel",
		"post_close":   ce + "cannot close a closed channel",
	} {
		g, err := o.str(id + " " + key)
		if err != nil {
			return err
		}
		if key == "post_selrecv" && pbt.KnownActive(kSelRecvMsg) && strings.HasPrefix(g, ce) {
			continue
		}
		if g != want {
			return fmt.Errorf("%s: %s on the closed, drained channel gave %q, documented %q", id, key, g, want)
		}
	}
	v.labels = append(v.labels, "chan_close:"+c.Close)
	return nil
}

func (c *MrgSec) check(o outLog, id string, v *secVerdict) error {
	ps, err := o.ints(id + " c")
	if err != nil {
		return err
	}
	var want []int
	for j := range c.A {
		want = append(want, j)
	}
	for j := range c.B {
		want = append(want, 1000+j)
	}
	if a, b, ok := increasingPerProducer(ps); !ok {
		return fmt.Errorf("%s: select consumer received %d after %d: push order not preserved (%v)", id, b, a, ps)
	}
	if !sameMultiset(want, ps) {
		return fmt.Errorf("%s: select consumer received %v, pushed %v", id, ps, want)
	}
	if l, _ := o.str(id + " len"); l != "0 0" {
		return fmt.Errorf("%s: channel lengths after the merge: %q", id, l)
	}
	if alternates(ps, func(x int) int { return x / 1000 }) {
		v.inter = true
	}
	return nil
}

func (c *DistSec) check(o outLog, id string, v *secVerdict) error {
	ps, err := o.ints(id + " ps")
	if err != nil {
		return err
	}
	sx, err := o.ints(id + " sx")
	if err != nil {
		return err
	}
	sy, err := o.ints(id + " sy")
	if err != nil {
		return err
	}
	if len(ps) != c.N {
		return fmt.Errorf("%s: %d select results logged for %d sends", id, len(ps), c.N)
	}
	var wx, wy []int
	for val, idx := range ps {
		switch idx {
		case 0:
			wx = append(wx, val)
		case 1:
			wy = append(wy, val)
		default:
			return fmt.Errorf("%s: select reported case %d", id, idx)
		}
	}
	if fmt.Sprint(wx) != fmt.Sprint(sx) || fmt.Sprint(wy) != fmt.Sprint(sy) {
		return fmt.Errorf("%s: send-select delivered x=%v y=%v, but the taken cases say x=%v y=%v", id, sx, sy, wx, wy)
	}
	if len(sx) > 0 && len(sy) > 0 {
		v.inter = true
	}
	return nil
}

func (c *DetSec) check(o outLog, id string, v *secVerdict) error {
	k, err := o.ints(id + " k")
	if err != nil {
		return err
	}
	if len(k) != 2*len(c.Steps) {
		return fmt.Errorf("%s: %d log entries for %d selects", id, len(k), len(c.Steps))
	}
	type st struct {
		cap    int
		buf    []int
		closed bool
	}
	var m []st
	for _, ch := range c.Chans {
		m = append(m, st{ch.Cap, append([]int(nil), ch.Fill...), ch.Closed})
	}
	ready := func(cs DetCase) bool {
		s := m[cs.Ch]
		if cs.Send {
			return !s.closed && len(s.buf) < s.cap
		}
		return s.closed || len(s.buf) > 0
	}
	for si, stp := range c.Steps {
		idx, val := k[2*si], k[2*si+1]
		anyReady := false
		for _, cs := range stp.Cases {
			if ready(cs) {
				anyReady = true
			}
		}
		if idx == len(stp.Cases) {
			if !stp.Else {
				return fmt.Errorf("%s: select #%d reported the else branch but has none", id, si)
			}
			if anyReady {
				return fmt.Errorf("%s: select #%d took the else branch although a case was ready", id, si)
			}
			continue
		}
		if idx < 0 || idx > len(stp.Cases) {
			return fmt.Errorf("%s: select #%d reported case %d", id, si, idx)
		}
		cs := stp.Cases[idx]
		if !ready(cs) {
			return fmt.Errorf("%s: select #%d took case %d (%s on channel %d) which was not ready (buffered %v, cap %d, closed %v)", id, si, idx, map[bool]string{true: "send", false: "receive"}[cs.Send], cs.Ch, m[cs.Ch].buf, m[cs.Ch].cap, m[cs.Ch].closed)
		}
		s := &m[cs.Ch]
		if cs.Send {
			s.buf = append(s.buf, cs.Val)
			if val != -1 {
				return fmt.Errorf("%s: select #%d send case logged %d", id, si, val)
			}
		} else if len(s.buf) > 0 {
			if val != s.buf[0] {
				return fmt.Errorf("%s: select #%d received %d from channel %d, head of the buffer is %d", id, si, val, cs.Ch, s.buf[0])
			}
			s.buf = s.buf[1:]
		} else if val != -2 {
			return fmt.Errorf("%s: select #%d received %d from the closed, empty channel %d instead of an error result", id, si, val, cs.Ch)
		}
		v.labels = append(v.labels, "det_case_taken")
	}
	var parts []string
	for _, s := range m {
		parts = append(parts, strconv.Itoa(len(s.buf)))
	}
	if l, _ := o.str(id + " len"); l != strings.Join(parts, " ") {
		return fmt.Errorf("%s: channel lengths after the selects are %q, the model has %q", id, l, strings.Join(parts, " "))
	}
	return nil
}

// sanitize makes the section non-blocking and keeps it inside documented behaviour:
// the taken case is not known before the run, so every step gets an else branch
// unless it has a receive on an initially closed channel (always ready; nothing
// closes or reopens a channel inside the section); a send case on a closed channel
// (not a documented shape for select; exercised by the misuse sections) becomes a
// receive on that channel.
func (c *DetSec) sanitize() {
	for si := range c.Steps {
		stp := &c.Steps[si]
		hasClosedRecv := false
		for ci := range stp.Cases {
			cs := &stp.Cases[ci]
			if cs.Ch < 0 || cs.Ch >= len(c.Chans) {
				cs.Ch = 0
			}
			if cs.Send && c.Chans[cs.Ch].Closed {
				cs.Send, cs.Val = false, 0
			}
			if !cs.Send && c.Chans[cs.Ch].Closed {
				hasClosedRecv = true
			}
		}
		if !hasClosedRecv {
			stp.Else = true
		}
	}
}

func (c *LockSec) check(o outLog, id string, v *secVerdict) error {
	want := 0
	for _, wk := range c.Workers {
		if !(wk.Read && c.Kind != "mutex") {
			want += wk.Iters
		}
	}
	cnt, err := o.ints(id + " cnt")
	if err != nil {
		return err
	}
	if len(cnt) != 1 || cnt[0] != want {
		return fmt.Errorf("%s: counter is %v after %d increments under the %s (lost update = broken mutual exclusion)", id, cnt, want, c.Kind)
	}
	own, err := o.ints(id + " own")
	if err != nil {
		return err
	}
	per := map[int]int{}
	for _, x := range own {
		per[x]++
	}
	for i, wk := range c.Workers {
		reader := wk.Read && c.Kind != "mutex"
		if !reader && per[i] != wk.Iters {
			return fmt.Errorf("%s: owner log has %d entries of worker %d, wanted %d (%v)", id, per[i], i, wk.Iters, own)
		}
		if reader {
			rs, err := o.ints(fmt.Sprintf("%s r%d", id, i))
			if err != nil {
				return err
			}
			if len(rs) != 2*wk.Iters {
				return fmt.Errorf("%s: reader %d logged %d reads, wanted %d", id, i, len(rs), 2*wk.Iters)
			}
			prev := 0
			for j := 0; j < len(rs); j += 2 {
				if rs[j] != rs[j+1] {
					return fmt.Errorf("%s: reader %d saw the counter change from %d to %d while holding the read lock", id, i, rs[j], rs[j+1])
				}
				if rs[j] < prev || rs[j] > want {
					return fmt.Errorf("%s: reader %d saw counter %d after %d (total %d)", id, i, rs[j], prev, want)
				}
				prev = rs[j]
				if rs[j] > 0 && rs[j] < want {
					v.inter = true
				}
			}
		}
	}
	if alternates(own, func(x int) int { return x }) {
		v.inter = true
	}
	v.labels = append(v.labels, "lock:"+c.Kind)
	return nil
}

func (c *WGSec) check(o outLog, id string, v *secVerdict) error {
	w, err := o.ints(id + " w")
	if err != nil {
		return err
	}
	for i := 0; i < c.N; i++ {
		if i >= len(w) || w[i] != i+1 {
			return fmt.Errorf("%s: wait returned before worker %d had finished (slots %v)", id, i, w)
		}
	}
	if c.N >= 2 {
		v.inter = true
	}
	return nil
}

func (c *OnceSec) check(o outLog, id string, v *secVerdict) error {
	ran, err := o.ints(id + " ran")
	if err != nil {
		return err
	}
	if len(ran) != 1 || ran[0] != 1 {
		return fmt.Errorf("%s: the once body ran %v times (api %s, %d threads x %d calls)", id, ran, c.API, c.N, c.Calls)
	}
	for g := 0; g < c.N; g++ {
		obs, err := o.ints(fmt.Sprintf("%s t%d", id, g))
		if err != nil {
			return err
		}
		for _, x := range obs {
			if x != 1 && !(c.API == "memo" && x == 4201) {
				return fmt.Errorf("%s: thread %d observed %d after its once call returned (want counter 1 / memo 4201): %v", id, g, x, obs)
			}
		}
		want := c.Calls
		if c.API == "memo" {
			want *= 2
		}
		if len(obs) != want {
			return fmt.Errorf("%s: thread %d logged %d observations, wanted %d", id, g, len(obs), want)
		}
	}
	if c.N >= 2 {
		v.inter = true
	}
	return nil
}

func (c *MisSec) check(o outLog, id string, v *secVerdict) error {
	steps, legal := c.simulate()
	for i, st := range steps {
		if !legal[i] {
			return fmt.Errorf("GENERATOR: %s op %d (%s) is not legal in the model", id, i, c.Ops[i].Op)
		}
		g, err := o.str(fmt.Sprintf("%s op%d", id, i))
		if err != nil {
			return err
		}
		what := fmt.Sprintf("%s: %s op #%d %s", id, c.Prim, i, c.Ops[i].Op)
		if st.misuse != "" {
			v.misuse = true
			v.labels = append(v.labels, "misuse:"+st.misuse)
		}
		switch {
		case st.want == "ERR":
			if g == "ok" || g == "NONERROR" || strings.HasPrefix(g, "ok ") {
				return fmt.Errorf("%s: got %q, documented: an unchecked error is thrown", what, g)
			}
		case strings.HasPrefix(st.want, "ERR:"):
			w := strings.TrimPrefix(st.want, "ERR:")
			if c.Ops[i].Op == "selrecv" && pbt.KnownActive(kSelRecvMsg) && strings.HasPrefix(g, "Std::Channel::ClosedError|") {
				continue
			}
			if !strings.Contains(w, "|") {
				if i := strings.Index(g, "|"); i >= 0 {
					g = g[:i]
				}
			}
			if g != w {
				return fmt.Errorf("%s: got %q, documented error %q", what, g, w)
			}
		default:
			if g != st.want {
				return fmt.Errorf("%s: got %q, the model says %q", what, g, st.want)
			}
		}
	}
	v.labels = append(v.labels, "misuse_prim:"+c.Prim)
	return nil
}

// ---- oracle ------------------------------------------------------------------------------

// keys of the findings of this check (all repaired by fix: commits; the input-side
// predicates stay so that a revert can be recorded as a known finding again)
const (
	kSelRecvMsg  = "select-recv-closed-wrong-message"
	kSelSendClos = "select-send-closed-go-panic"
	kUnlockFatal = "unlock-unheld-go-fatal"
	kWGNegative  = "waitgroup-negative-go-panic"
	// known finding (the compiler test a_few_cases_and_else pins the faulty bytecode):
	// every taken else branch of a select leaves two slots on the value stack
	kSelElseLeak = "select-else-stack-leak"
)

// with the finding recorded, a frame may take at most this many else branches (2 slots each
// of the 1500-slot initial stack) and polling consumers (unbounded) are not generated
const elseBudgetUnderFinding = 40

var workers = map[int]*sb.Worker{}

func workerFor(procs int) *sb.Worker {
	w := workers[procs]
	if w == nil {
		w = sb.New("debug", fmt.Sprintf("GOMAXPROCS=%d", procs))
		workers[procs] = w
	}
	return w
}

func progOracle(p Prog, ctx *pbt.Ctx) error {
	for i := range p.Secs {
		if p.Secs[i].Kind == "det" {
			p.Secs[i].Det.sanitize()
		}
	}
	src := p.Source()
	w := workerFor(p.Procs)
	res := w.Do(sb.Req{Mode: "run", Source: src}, 60*time.Second)
	class, detail := sb.Classify(res)
	if class == sb.Timeout {
		// confirmation protocol: programs terminate by construction in milliseconds
		res = w.Do(sb.Req{Mode: "run", Source: src}, 90*time.Second)
		class, detail = sb.Classify(res)
		if class == sb.Timeout {
			return fmt.Errorf("program did not terminate within 60 s and 90 s (deadlock / lost value); goroutine dump:\n%s\n--- program\n%s", clipS(detail, 2500), src)
		}
		pbt.Inconclusive()
	}
	ctx.Label("outcome:" + class)
	ctx.Label(fmt.Sprintf("procs:%d", p.Procs))
	switch class {
	case sb.Fatal, sb.GoPanic, sb.StackLimit:
		return fmt.Errorf("interpreter crashed (%s) instead of raising an Elk error:\n%s\n--- program\n%s", class, clipS(detail, 1800), src)
	case sb.Rejected:
		var ds []string
		for _, d := range res.Resp.Runs[0].Diags {
			if d.Severity == "FAIL" {
				ds = append(ds, fmt.Sprintf("%d:%d %s", d.Line, d.Col, d.Msg))
			}
		}
		return fmt.Errorf("GENERATOR: program rejected by the checker: %s\n%s", strings.Join(ds, " | "), src)
	case sb.ElkError:
		return fmt.Errorf("uncaught Elk error on the main thread: %s\n--- stdout\n%s--- program\n%s", detail, clipS(res.Resp.Runs[0].Stdout, 1500), src)
	}
	run := res.Resp.Runs[0]
	if strings.TrimSpace(run.Stderr) != "" {
		return fmt.Errorf("a thread wrote to stderr (uncaught error in a `go` thread?):\n%s\n--- program\n%s", clipS(run.Stderr, 1500), src)
	}
	o, end := parseOut(run.Stdout)
	if !end {
		return fmt.Errorf("program output has no END line:\n%s", clipS(run.Stdout, 1500))
	}
	nontrivial := false
	for i, s := range p.Secs {
		id := fmt.Sprintf("s%d", i)
		v := &secVerdict{}
		var err error
		switch s.Kind {
		case "chan":
			err = s.Chan.check(o, id, v)
		case "merge":
			err = s.Mrg.check(o, id, v)
		case "dist":
			err = s.Dist.check(o, id, v)
		case "det":
			err = s.Det.check(o, id, v)
		case "lock":
			err = s.Lock.check(o, id, v)
		case "wg":
			err = s.WG.check(o, id, v)
		case "once":
			err = s.Once.check(o, id, v)
		case "misuse":
			err = s.Mis.check(o, id, v)
		case "poll":
			err = s.Poll.check(o, id, v)
		}
		if err != nil {
			return fmt.Errorf("%v\n--- stdout\n%s--- program\n%s", err, clipS(run.Stdout, 2500), src)
		}
		ctx.Label("sec:" + s.Kind)
		for _, l := range v.labels {
			ctx.Label(l)
		}
		if v.inter {
			ctx.Label("interleaved:" + s.Kind)
			nontrivial = true
		}
		if v.misuse {
			nontrivial = true
		}
	}
	if nontrivial {
		ctx.NonTrivial(src)
	}
	return nil
}

func TestPrograms(t *testing.T) {
	pbt.Rule("programs", "generated Elk programs of 1..5 sections run in a worker with GOMAXPROCS 1/4/16: channel pipelines (cap 0..4, 1..3 producers with guarded pushes, 1..3 consumers as for-in / `<<ch` / pop+catch / exact counts, close none/after/mid-stream), select merge of two channels (optionally polling with else), send-select distribution over two channels, single-threaded select state machines over filled/empty/full/closed channels (ready-set model), polling loops of 1..4000 select-else rounds on an empty channel, Mutex/RWMutex/ROMutex counters with a sleep inside the critical section, WaitGroup joins (ctor/add/start/add+remove, end/remove), Once#call/Once.fn/Once.memo from n threads, and single-threaded misuse sequences (unlock unheld, WaitGroup below zero, push/pop/close/select on closed channels) decided by a state model; threads start behind a closed-channel barrier with seeded sleeps (0 ms, 1 µs, 50 µs, 1 ms); the main thread prints the log after joining; invariants as in the value-level layer plus exact error classes/messages. Non-trivial = some section's log shows two threads alternating on the primitive (or both consumers served / intermediate counter seen) or a misuse step executed; distinct by source")
	if raceMode() {
		t.Skip("the -race shards only run the value-level layer (the worker is not a race build)")
	}
	defer func() {
		for _, w := range workers {
			w.Close()
		}
	}()
	pbt.Run(t, pbt.Prop[Prog]{Name: "programs", Quick: 1200, Thorough: 16000, Gen: genProg, Oracle: progOracle,
		Known: []pbt.Known[Prog]{
			{Key: kSelSendClos, Match: func(p Prog) bool { return p.hasMisuse("selsend_closed") }},
			{Key: kUnlockFatal, Match: func(p Prog) bool {
				return p.hasMisuse("unlock_unheld") || p.hasMisuse("unlock_unheld_write") || p.hasMisuse("unlock_unheld_read")
			}},
			{Key: kWGNegative, Match: func(p Prog) bool { return p.hasMisuse("waitgroup_negative") }},
			{Key: kSelElseLeak, Match: func(p Prog) bool { return p.hasPollingMerge() || p.elseBudget() > elseBudgetUnderFinding }},
		},
		Sample: func(p Prog) any { return map[string]any{"case": p, "src": p.Source()} }})
}

// hasMisuse reports whether a misuse section of the program executes the named misuse step.
func (p Prog) hasMisuse(name string) bool {
	for _, s := range p.Secs {
		if s.Kind != "misuse" || s.Mis == nil {
			continue
		}
		steps, _ := s.Mis.simulate()
		for _, st := range steps {
			if st.misuse == name {
				return true
			}
		}
	}
	return false
}
