package c25

// Value-level scenarios (executed in the child process, see child_test.go).
// Every scenario terminates by construction: producers are finite, consumers read
// exact counts or until the close signal, lock holders never wait for each other.

import (
	"context"
	"fmt"
	"runtime"
	"sort"
	"sync"
	"sync/atomic"
	"time"

	"github.com/elk-language/elk"
	"github.com/elk-language/elk/env"
	"github.com/elk-language/elk/position"
	"github.com/elk-language/elk/value"
	"github.com/elk-language/elk/vm"
)

func initRuntime() {
	if env.ELKPATH == "" {
		env.ELKPATH = "/repo"
	}
	elk.InitGlobalEnvironment()
}

// ---- schedule perturbation -------------------------------------------------

// perturb is a seeded perturbation program shared by all goroutines of a case:
// goroutine g at its step s executes code Yield[(g*31+s*7) mod len].
type perturb []int

func (p perturb) at(g, s int) {
	if len(p) == 0 {
		return
	}
	switch p[(g*31+s*7)%len(p)] {
	case 1:
		runtime.Gosched()
	case 2:
		runtime.Gosched()
		runtime.Gosched()
		runtime.Gosched()
	case 3:
		time.Sleep(time.Microsecond)
	}
}

var curProcs = 0

func setProcs(n int) {
	if n <= 0 {
		n = 4
	}
	if n != curProcs {
		runtime.GOMAXPROCS(n)
		curProcs = n
	}
}

// ---- channels --------------------------------------------------------------

type ChanCase struct {
	Cap   int    `json:"cap"`    // 0..4
	Prods []int  `json:"prods"`  // number of values of each producer; value = p*1000+j
	Cons  int    `json:"cons"`   // consumers
	Close string `json:"close"`  // none: consumers read exact counts | after: closed when all producers are done | mid: producer 0 closes after MidAt of its pushes, all producers keep pushing
	MidAt int    `json:"mid_at"` // only for mid
	API   string `json:"api"`    // ctx: PushCtx/PopCtx (natives <<, pop, <<@) | plain: Push/Pop | next: PushCtx/NextValueCtx (native next, for-in)
	Procs int    `json:"procs"`
	Yield []int  `json:"yield"`
}

type pushRec struct {
	v  int
	ok bool
}

func runChan(c ChanCase, vd *verdict) error {
	setProcs(c.Procs)
	if c.Close == "mid" && raceMode() && len(c.Prods) > 1 {
		// Go's race detector reports close(ch) against a concurrent send by design
		// (the runtime resolves it with the panic that Push recovers); not an Elk defect.
		c.Close = "after"
	}
	ch := value.NewChannelOfValue(c.Cap)
	ctx, cancel := context.WithCancel(context.Background())
	defer cancel()
	yl := perturb(c.Yield)

	push := func(v int) value.Value {
		if c.API == "plain" {
			return ch.Push(value.SmallInt(v).ToValue())
		}
		return ch.PushCtx(ctx, value.SmallInt(v).ToValue())
	}
	pop := func() (value.Value, value.Value) {
		switch c.API {
		case "plain":
			return ch.Pop()
		case "next":
			return ch.NextValueCtx(ctx)
		}
		return ch.PopCtx(ctx)
	}
	closedSignal := func(err value.Value) bool {
		if c.API == "next" {
			return err == value.ToSymbol("stop_iteration").ToValue()
		}
		return err == value.ChannelClosedPopError.ToValue()
	}

	total := 0
	for _, n := range c.Prods {
		total += n
	}
	pushed := make([][]pushRec, len(c.Prods))
	closeErr := make([]value.Value, 1)
	popped := make([][]int, c.Cons)
	endErr := make([]value.Value, c.Cons)
	bad := make([]string, len(c.Prods)+c.Cons)

	var pwg, cwg sync.WaitGroup
	for p := range c.Prods {
		pwg.Add(1)
		go func(p int) {
			defer pwg.Done()
			for j := 0; j < c.Prods[p]; j++ {
				if c.Close == "mid" && p == 0 && j == c.MidAt {
					closeErr[0] = ch.Close()
				}
				yl.at(p, j)
				v := p*1000 + j
				e := push(v)
				switch {
				case e.IsUndefined():
					pushed[p] = append(pushed[p], pushRec{v, true})
				case e == value.ChannelClosedPushError.ToValue():
					pushed[p] = append(pushed[p], pushRec{v, false})
				default:
					bad[p] = fmt.Sprintf("push of %d returned unexpected error %s", v, e.Inspect())
					return
				}
			}
			if c.Close == "mid" && p == 0 && c.MidAt >= c.Prods[0] {
				closeErr[0] = ch.Close()
			}
		}(p)
	}
	for k := 0; k < c.Cons; k++ {
		quota := -1
		if c.Close == "none" {
			quota = total / c.Cons
			if k < total%c.Cons {
				quota++
			}
		}
		cwg.Add(1)
		go func(k, quota int) {
			defer cwg.Done()
			for s := 0; quota < 0 || s < quota; s++ {
				yl.at(100+k, s)
				v, e := pop()
				if e.IsNotUndefined() {
					endErr[k] = e
					return
				}
				if !v.IsSmallInt() {
					bad[len(c.Prods)+k] = fmt.Sprintf("pop returned a non-Int value %s", v.Inspect())
					return
				}
				popped[k] = append(popped[k], int(v.AsSmallInt()))
			}
		}(k, quota)
	}
	pwg.Wait()
	if c.Close == "after" {
		closeErr[0] = ch.Close()
	}
	cwg.Wait()

	for _, b := range bad {
		if b != "" {
			return fmt.Errorf("%s", b)
		}
	}
	// --- invariants on the history
	if c.Close != "none" && closeErr[0].IsNotUndefined() {
		return fmt.Errorf("first close of an open channel returned %s", closeErr[0].Inspect())
	}
	var want, got []int
	for p, recs := range pushed {
		if len(recs) != c.Prods[p] {
			return fmt.Errorf("producer %d recorded %d pushes, wanted %d", p, len(recs), c.Prods[p])
		}
		failed := false
		for j, r := range recs {
			if r.ok {
				if failed {
					return fmt.Errorf("producer %d: push %d succeeded after an earlier push had reported the channel closed", p, r.v)
				}
				if c.Close == "mid" && p == 0 && j >= c.MidAt {
					return fmt.Errorf("producer 0 closed the channel before its push #%d, but that push succeeded", j)
				}
				want = append(want, r.v)
			} else {
				failed = true
				if c.Close != "mid" {
					return fmt.Errorf("push %d reported a closed channel although it was not closed before the producers finished", r.v)
				}
			}
		}
	}
	for k, ps := range popped {
		last := map[int]int{}
		for _, v := range ps {
			p := v / 1000
			if l, ok := last[p]; ok && l >= v {
				return fmt.Errorf("consumer %d popped %d after %d: push order of producer %d not preserved (popped %v)", k, v, l, p, ps)
			}
			last[p] = v
			got = append(got, v)
		}
		if c.Close != "none" {
			if !closedSignal(endErr[k]) {
				return fmt.Errorf("consumer %d: draining a closed channel ended with %s instead of the documented closed signal", k, inspectOrUndef(endErr[k]))
			}
		} else if endErr[k].IsNotUndefined() {
			return fmt.Errorf("consumer %d: pop on an open channel returned error %s", k, endErr[k].Inspect())
		}
	}
	sort.Ints(want)
	sort.Ints(got)
	if fmt.Sprint(want) != fmt.Sprint(got) {
		return fmt.Errorf("popped multiset differs from successfully pushed multiset:\n pushed %v\n popped %v", want, got)
	}
	if ch.Length() != 0 {
		return fmt.Errorf("length is %d after everything was popped", ch.Length())
	}

	// --- post-conditions, single-threaded
	if c.Close == "none" {
		if ch.LeftCapacity() != c.Cap || ch.Capacity() != c.Cap {
			return fmt.Errorf("capacity %d / left capacity %d of an empty channel of capacity %d", ch.Capacity(), ch.LeftCapacity(), c.Cap)
		}
		// fill the buffer, close, drain: buffered values survive the close, in order
		for i := 0; i < c.Cap; i++ {
			if e := push(7000 + i); e.IsNotUndefined() {
				return fmt.Errorf("push into free buffer slot returned %s", e.Inspect())
			}
		}
		if ch.Length() != c.Cap {
			return fmt.Errorf("length %d after %d buffered pushes", ch.Length(), c.Cap)
		}
		if e := ch.Close(); e.IsNotUndefined() {
			return fmt.Errorf("first close of an open channel returned %s", e.Inspect())
		}
		for i := 0; i < c.Cap; i++ {
			v, e := pop()
			if e.IsNotUndefined() || !v.IsSmallInt() || int(v.AsSmallInt()) != 7000+i {
				return fmt.Errorf("draining after close: pop #%d gave (%s, %s), wanted %d", i, inspectOrUndef(v), inspectOrUndef(e), 7000+i)
			}
		}
	}
	// now closed and empty
	if e := ch.Push(value.SmallInt(1).ToValue()); e != value.ChannelClosedPushError.ToValue() {
		return fmt.Errorf("Push on a closed channel returned %s, wanted Std::Channel::ClosedError (push)", inspectOrUndef(e))
	}
	if e := ch.PushCtx(ctx, value.SmallInt(1).ToValue()); e != value.ChannelClosedPushError.ToValue() {
		return fmt.Errorf("PushCtx on a closed channel returned %s, wanted Std::Channel::ClosedError (push)", inspectOrUndef(e))
	}
	if v, e := ch.Pop(); e != value.ChannelClosedPopError.ToValue() || v.IsNotUndefined() {
		return fmt.Errorf("Pop on a closed, drained channel returned (%s, %s)", inspectOrUndef(v), inspectOrUndef(e))
	}
	if v, e := ch.PopCtx(ctx); e != value.ChannelClosedPopError.ToValue() || v.IsNotUndefined() {
		return fmt.Errorf("PopCtx on a closed, drained channel returned (%s, %s)", inspectOrUndef(v), inspectOrUndef(e))
	}
	if v, e := ch.NextValueCtx(ctx); e != value.ToSymbol("stop_iteration").ToValue() || v.IsNotUndefined() {
		return fmt.Errorf("NextValueCtx on a closed, drained channel returned (%s, %s)", inspectOrUndef(v), inspectOrUndef(e))
	}
	if e := ch.Close(); e != value.ChannelClosedCloseError.ToValue() {
		return fmt.Errorf("second Close returned %s, wanted Std::Channel::ClosedError (close)", inspectOrUndef(e))
	}

	// --- classification
	vd.label("close:" + c.Close)
	vd.label("api:" + c.API)
	vd.label(fmt.Sprintf("cap:%d", c.Cap))
	inter := false
	active := 0
	for _, ps := range popped {
		if len(ps) > 0 {
			active++
		}
		// a producer's values are not contiguous in this consumer's sequence
		seen, cur := map[int]bool{}, -1
		for _, v := range ps {
			p := v / 1000
			if p != cur {
				if seen[p] {
					inter = true
				}
				seen[p] = true
				cur = p
			}
		}
	}
	if active >= 2 {
		inter = true
		vd.label("consumers_shared")
	}
	if c.Close == "mid" {
		rej := 0
		for _, recs := range pushed {
			for _, r := range recs {
				if !r.ok {
					rej++
				}
			}
		}
		if rej > 0 {
			vd.label("push_rejected_after_close")
			inter = true
		}
	}
	if inter {
		vd.label("interleaved")
		vd.nontrivial = true
	}
	return nil
}

func inspectOrUndef(v value.Value) string {
	if v.IsUndefined() {
		return "<no error/undefined>"
	}
	return v.Inspect()
}

// ---- Mutex / RWMutex / ROMutex ----------------------------------------------

type LockWorker struct {
	Iters int  `json:"iters"`
	Read  bool `json:"read"` // read side (rwmutex kinds only)
}

type LockCase struct {
	Kind    string       `json:"kind"` // mutex | rwmutex | romutex (readers go through the ROMutex wrapper)
	Workers []LockWorker `json:"workers"`
	Procs   int          `json:"procs"`
	Yield   []int        `json:"yield"`
}

func runLock(c LockCase, vd *verdict) error {
	setProcs(c.Procs)
	yl := perturb(c.Yield)
	race := raceMode()
	var mu *value.Mutex
	var rw *value.RWMutex
	var ro *value.ROMutex
	if c.Kind == "mutex" {
		mu = value.NewMutex()
	} else {
		rw = value.NewRWMutex()
		ro = value.NewROMutex(rw)
	}
	// the shared state is deliberately plain memory: in the -race binary the
	// detector itself observes a broken exclusion; in the normal binary the
	// atomic "inside" counters do.
	counter := 0
	var owners []int
	var wIn, rIn, viol int32
	errs := make([]string, len(c.Workers))
	sawMid := make([]bool, len(c.Workers))
	wantTotal := 0
	for _, w := range c.Workers {
		if !(w.Read && c.Kind != "mutex") {
			wantTotal += w.Iters
		}
	}
	var wg sync.WaitGroup
	for id, w := range c.Workers {
		wg.Add(1)
		go func(id int, w LockWorker) {
			defer wg.Done()
			reader := w.Read && c.Kind != "mutex"
			for s := 0; s < w.Iters; s++ {
				yl.at(id, 2*s)
				if reader {
					if c.Kind == "romutex" {
						ro.Lock()
					} else {
						rw.ReadLock()
					}
					if !race {
						atomic.AddInt32(&rIn, 1)
						if atomic.LoadInt32(&wIn) != 0 {
							atomic.AddInt32(&viol, 1)
						}
					}
					a := counter
					yl.at(id, 2*s+1)
					b := counter
					if a != b {
						errs[id] = fmt.Sprintf("reader %d saw the counter change from %d to %d while holding the read lock", id, a, b)
					}
					if a > 0 && a < wantTotal {
						sawMid[id] = true
					}
					if !race {
						atomic.AddInt32(&rIn, -1)
					}
					var e value.Value
					if c.Kind == "romutex" {
						e = ro.Unlock()
					} else {
						e = rw.ReadUnlock()
					}
					if e.IsNotUndefined() {
						errs[id] = "read_unlock of a held read lock returned " + e.Inspect()
						return
					}
					continue
				}
				if mu != nil {
					mu.Lock()
				} else {
					rw.Lock()
				}
				if !race {
					if atomic.AddInt32(&wIn, 1) != 1 || atomic.LoadInt32(&rIn) != 0 {
						atomic.AddInt32(&viol, 1)
					}
				}
				x := counter
				yl.at(id, 2*s+1)
				counter = x + 1
				owners = append(owners, id)
				if !race {
					atomic.AddInt32(&wIn, -1)
				}
				var e value.Value
				if mu != nil {
					e = mu.Unlock()
				} else {
					e = rw.Unlock()
				}
				if e.IsNotUndefined() {
					errs[id] = "unlock of a held lock returned " + e.Inspect()
					return
				}
			}
		}(id, w)
	}
	wg.Wait()
	for _, e := range errs {
		if e != "" {
			return fmt.Errorf("%s", e)
		}
	}
	if viol != 0 {
		return fmt.Errorf("mutual exclusion broken: %d entries into the critical section while another holder was inside", viol)
	}
	if counter != wantTotal {
		return fmt.Errorf("counter is %d after %d locked read-modify-write increments (lost updates)", counter, wantTotal)
	}
	if len(owners) != wantTotal {
		return fmt.Errorf("owner log has %d entries, wanted %d", len(owners), wantTotal)
	}
	vd.label("kind:" + c.Kind)
	seen, cur, inter := map[int]bool{}, -1, false
	for _, o := range owners {
		if o != cur {
			if seen[o] {
				inter = true
			}
			seen[o] = true
			cur = o
		}
	}
	for _, m := range sawMid {
		if m {
			inter = true
			vd.label("reader_overlapped_writers")
			break
		}
	}
	if inter {
		vd.label("interleaved")
		vd.nontrivial = true
	}
	return nil
}

// ---- WaitGroup ---------------------------------------------------------------

type WGCase struct {
	N       int    `json:"n"`       // workers per round
	Mode    string `json:"mode"`    // add: Add(N) up front | start: Start() before each spawn | ctor-like: Add called in pieces
	Done    string `json:"done"`    // end | remove (Remove(1))
	Waiters int    `json:"waiters"` // goroutines blocked in Wait
	Rounds  int    `json:"rounds"`  // the group is reused after all waiters returned
	Procs   int    `json:"procs"`
	Yield   []int  `json:"yield"`
}

func runWG(c WGCase, vd *verdict) error {
	setProcs(c.Procs)
	yl := perturb(c.Yield)
	w := &value.WaitGroup{}
	early := false
	for r := 0; r < c.Rounds; r++ {
		slots := make([]int, c.N) // plain memory: End -> Wait must order these writes before the reads
		switch c.Mode {
		case "add":
			w.Add(c.N)
		case "pieces":
			w.Add(c.N + 2)
			w.Remove(2)
		}
		var outer sync.WaitGroup
		sums := make([]int, c.Waiters)
		for k := 0; k < c.Waiters; k++ {
			outer.Add(1)
		}
		if c.Mode == "start" {
			for i := 0; i < c.N; i++ {
				w.Start()
			}
		}
		for k := 0; k < c.Waiters; k++ {
			go func(k int) {
				defer outer.Done()
				yl.at(200+k, r)
				w.Wait()
				s := 0
				for i := range slots {
					s += slots[i]
				}
				sums[k] = s
			}(k)
		}
		for i := 0; i < c.N; i++ {
			go func(i int) {
				yl.at(i, r)
				slots[i] = 1
				yl.at(i, r+50)
				if c.Done == "remove" {
					w.Remove(1)
				} else {
					w.End()
				}
			}(i)
		}
		outer.Wait()
		for k, s := range sums {
			if s != c.N {
				early = true
				return fmt.Errorf("round %d: waiter %d returned from wait when only %d of %d workers had finished", r, k, s, c.N)
			}
		}
	}
	_ = early
	vd.label("mode:" + c.Mode)
	if c.N >= 2 {
		vd.nontrivial = true
	}
	return nil
}

// ---- Once --------------------------------------------------------------------

type OnceCase struct {
	N     int    `json:"n"`     // goroutines
	Calls int    `json:"calls"` // calls per goroutine
	API   string `json:"api"`   // call: Once#call (vm.OnceDo) | fn: Once.fn | memo: Once.memo
	Procs int    `json:"procs"`
	Yield []int  `json:"yield"`
}

func runOnce(c OnceCase, vd *verdict) error {
	setProcs(c.Procs)
	yl := perturb(c.Yield)
	ran := 0 // plain memory: Once must order the body before every return
	mk := func(id int) value.Value {
		return vm.NewNativeClosure(func(_ *vm.Thread, _ []value.Value) (value.Value, value.Value) {
			x := ran
			yl.at(300, id)
			ran = x + 1
			return value.SmallInt(4200 + ran).ToValue(), value.Undefined
		}, 0, position.ZeroLocation).ToValue()
	}
	once := value.NewOnce()
	var wrapped value.Value
	switch c.API {
	case "fn":
		wrapped = vm.OnceFn(mk(0)).ToValue()
	case "memo":
		wrapped = vm.OnceMemo(mk(0)).ToValue()
	}
	errs := make([]string, c.N)
	var wg sync.WaitGroup
	for g := 0; g < c.N; g++ {
		wg.Add(1)
		go func(g int) {
			defer wg.Done()
			th := vm.New()
			for s := 0; s < c.Calls; s++ {
				yl.at(g, s)
				var res, e value.Value
				switch c.API {
				case "call":
					e = vm.OnceDo(th, once, mk(g))
				default:
					res, e = th.CallCallable(wrapped)
				}
				if e.IsNotUndefined() {
					errs[g] = "call returned error " + e.Inspect()
					return
				}
				if ran != 1 {
					errs[g] = fmt.Sprintf("goroutine %d: after its call returned the body had run %d times", g, ran)
					return
				}
				if c.API == "memo" && (!res.IsSmallInt() || res.AsSmallInt() != 4201) {
					errs[g] = fmt.Sprintf("memo returned %s, wanted the memoised 4201", inspectOrUndef(res))
					return
				}
			}
		}(g)
	}
	wg.Wait()
	for _, e := range errs {
		if e != "" {
			return fmt.Errorf("%s", e)
		}
	}
	if ran != 1 {
		return fmt.Errorf("once body ran %d times from %d goroutines", ran, c.N)
	}
	vd.label("api:" + c.API)
	if c.N >= 2 {
		vd.nontrivial = true
	}
	return nil
}

// ---- misuse sequences (single goroutine) ----------------------------------------

type MisuseOp struct {
	Op string `json:"op"`
	N  int    `json:"n,omitempty"`
}

// MisuseCase: ops are applied to one fresh primitive; a model decides for every op
// whether it is legal, would block (skipped) or is a misuse with a documented error.
// The sequence ends at the first misuse (the state after a thrown error is not documented).
type MisuseCase struct {
	Prim string     `json:"prim"` // mutex | rwmutex | romutex | channel | nilchannel
	Cap  int        `json:"cap,omitempty"`
	Ops  []MisuseOp `json:"ops"`
}

// acquirable: after every lock the model holds has been released, taking the lock again must succeed at
// once; a lock that cannot be taken within 30 s (normal: microseconds) has leaked a holder.
func acquirable(take func(), what string) error {
	done := make(chan struct{})
	go func() { take(); close(done) }()
	select {
	case <-done:
		return nil
	case <-time.After(30 * time.Second):
		return fmt.Errorf("%s cannot be locked after every lock of the history was released (a holder leaked: a failed unlock changed the lock state?)", what)
	}
}

func runMisuse(c MisuseCase, vd *verdict) error {
	vd.label("prim:" + c.Prim)
	ctx := context.Background()
	expectClass := func(e value.Value, cls *value.Class, what string) error {
		if e.IsUndefined() {
			return fmt.Errorf("%s returned no error, documented: %s", what, cls.Name)
		}
		if e.Class() != cls {
			return fmt.Errorf("%s returned %s, documented: %s", what, e.Inspect(), cls.Name)
		}
		return nil
	}
	noErr := func(e value.Value, what string) error {
		if e.IsNotUndefined() {
			return fmt.Errorf("legal %s returned error %s", what, e.Inspect())
		}
		return nil
	}
	switch c.Prim {
	case "mutex":
		m := value.NewMutex()
		locked := false
		for i, op := range c.Ops {
			switch op.Op {
			case "lock":
				if locked {
					continue
				}
				m.Lock()
				locked = true
			case "unlock":
				e := m.Unlock()
				if !locked {
					vd.nontrivial = true
					vd.label("misuse:unlock_unheld")
					if err := expectClass(e, value.MutexUnlockedErrorClass, fmt.Sprintf("op %d: unlock of an unheld Mutex", i)); err != nil {
						return err
					}
					// "already unlocked": the failed unlock leaves the mutex unlocked and usable
					continue
				}
				if err := noErr(e, "unlock"); err != nil {
					return err
				}
				locked = false
			}
		}
		if locked {
			if err := noErr(m.Unlock(), "final unlock"); err != nil {
				return err
			}
		}
		if err := acquirable(func() { m.Lock(); m.Unlock() }, "Mutex"); err != nil {
			return err
		}
	case "rwmutex", "romutex":
		rw := value.NewRWMutex()
		ro := value.NewROMutex(rw)
		writer, readers := false, 0
		for i, op := range c.Ops {
			switch op.Op {
			case "lock":
				if writer || readers > 0 {
					continue
				}
				rw.Lock()
				writer = true
			case "read_lock":
				if writer {
					continue
				}
				if c.Prim == "romutex" {
					ro.Lock()
				} else {
					rw.ReadLock()
				}
				readers++
			case "unlock":
				e := rw.Unlock()
				if !writer {
					vd.nontrivial = true
					vd.label("misuse:unlock_unheld_write")
					if err := expectClass(e, value.RWMutexUnlockedErrorClass, fmt.Sprintf("op %d: unlock of a RWMutex not locked for writing (readers=%d)", i, readers)); err != nil {
						return err
					}
					continue // the failed unlock changes nothing
				}
				if err := noErr(e, "unlock"); err != nil {
					return err
				}
				writer = false
			case "read_unlock":
				var e value.Value
				if c.Prim == "romutex" {
					e = ro.Unlock()
				} else {
					e = rw.ReadUnlock()
				}
				if readers == 0 {
					vd.nontrivial = true
					vd.label("misuse:unlock_unheld_read")
					if err := expectClass(e, value.RWMutexUnlockedErrorClass, fmt.Sprintf("op %d: read_unlock of a RWMutex not locked for reading (writer=%v)", i, writer)); err != nil {
						return err
					}
					continue // the failed read_unlock changes nothing
				}
				if err := noErr(e, "read_unlock"); err != nil {
					return err
				}
				readers--
			}
		}
		// release what the model says is held; afterwards the lock must be free in both modes
		if writer {
			if err := noErr(rw.Unlock(), "final unlock"); err != nil {
				return err
			}
		}
		for ; readers > 0; readers-- {
			if err := noErr(rw.ReadUnlock(), "final read_unlock"); err != nil {
				return err
			}
		}
		if err := acquirable(func() { rw.Lock(); rw.Unlock(); rw.ReadLock(); rw.ReadUnlock() }, "RWMutex"); err != nil {
			return err
		}
	case "channel":
		ch := value.NewChannelOfValue(c.Cap)
		var buf []int
		closed := false
		for i, op := range c.Ops {
			switch op.Op {
			case "push":
				if !closed && len(buf) == c.Cap {
					continue // would block
				}
				e := ch.PushCtx(ctx, value.SmallInt(op.N).ToValue())
				if closed {
					vd.nontrivial = true
					vd.label("misuse:push_closed")
					if err := expectClass(e, value.ChannelClosedErrorClass, fmt.Sprintf("op %d: push on a closed channel", i)); err != nil {
						return err
					}
					continue
				}
				if err := noErr(e, "push"); err != nil {
					return err
				}
				buf = append(buf, op.N)
			case "pop":
				if !closed && len(buf) == 0 {
					continue // would block
				}
				v, e := ch.PopCtx(ctx)
				if len(buf) > 0 {
					if e.IsNotUndefined() || !v.IsSmallInt() || int(v.AsSmallInt()) != buf[0] {
						return fmt.Errorf("op %d: pop gave (%s, %s), model has %d at the head (closed=%v)", i, inspectOrUndef(v), inspectOrUndef(e), buf[0], closed)
					}
					if closed {
						vd.label("drain_after_close")
					}
					buf = buf[1:]
					continue
				}
				vd.nontrivial = true
				vd.label("misuse:pop_closed")
				if err := expectClass(e, value.ChannelClosedErrorClass, fmt.Sprintf("op %d: pop on a closed, empty channel", i)); err != nil {
					return err
				}
			case "close":
				e := ch.Close()
				if closed {
					vd.nontrivial = true
					vd.label("misuse:double_close")
					if err := expectClass(e, value.ChannelClosedErrorClass, fmt.Sprintf("op %d: close of a closed channel", i)); err != nil {
						return err
					}
					continue
				}
				if err := noErr(e, "close"); err != nil {
					return err
				}
				closed = true
			case "length":
				if ch.Length() != len(buf) || ch.LeftCapacity() != c.Cap-len(buf) {
					return fmt.Errorf("op %d: length %d / left capacity %d, model has %d buffered of %d", i, ch.Length(), ch.LeftCapacity(), len(buf), c.Cap)
				}
			}
		}
	case "nilchannel":
		// a Channel value whose native channel is nil: close must still answer with an error value
		ch := &value.ChannelOfValue{}
		e := ch.Close()
		vd.nontrivial = true
		vd.label("misuse:close_nil")
		if e.IsUndefined() {
			return fmt.Errorf("close of a nil channel returned no error")
		}
		if e.Class() != value.ChannelClosedErrorClass {
			return fmt.Errorf("close of a nil channel returned %s", e.Inspect())
		}
	}
	return nil
}
