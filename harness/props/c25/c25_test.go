// Package c25: channels and sync primitives keep their contracts under any schedule.
//
// Layer 1 (value level, child process, also built with -race): goroutines on
// value.ChannelOfValue / Mutex / RWMutex / ROMutex / WaitGroup / Once through the
// entry points the VM natives use; history invariants.
// Layer 2 (program level, worker process): generated concurrent Elk programs whose
// main thread prints a log that is checked with the same invariants.
package c25

import (
	"encoding/json"
	"fmt"
	"os"
	"testing"
	"time"

	"pgregory.net/rapid"

	"verif/internal/pbt"
	"verif/internal/vgen"
)

func TestMain(m *testing.M) {
	if os.Getenv("C25_CHILD") == "1" {
		childMain()
		return
	}
	pbt.Main(m, "C25")
}

// one child serves all value-level tests of the process (its start costs seconds under load);
// it ends with the parent (stdin EOF / Pdeathsig)
var kid = &child{}

// scaled reduces the case counts of the -race shards: the race binary is several times
// slower and runs on 4 shards instead of 8/16.
func scaled(cases int) int {
	if raceMode() {
		return cases / 4
	}
	return cases
}

func genYield(t *rapid.T) []int {
	n := rapid.IntRange(1, 12).Draw(t, "yield_n")
	y := make([]int, n)
	for i := range y {
		// 0 none, 1 Gosched, 2 Gosched x3, 3 sleep 1µs (rare: expensive)
		k := rapid.IntRange(0, 9).Draw(t, "yield")
		switch {
		case k <= 2:
			y[i] = 0
		case k <= 6:
			y[i] = 1
		case k <= 8:
			y[i] = 2
		default:
			y[i] = 3
		}
	}
	return y
}

func genProcs(t *rapid.T) int {
	return []int{1, 2, 4, 16}[vgen.Pick(t, 4, "procs")]
}

// runChild sends one scenario to the child and turns the answer into the oracle verdict.
func runChild(kind string, c any, ctx *pbt.Ctx) error {
	res := kid.Do(kind, c, 60*time.Second)
	if res.TimedOut {
		// confirmation: scenarios are non-blocking by construction and take microseconds
		res2 := kid.Do(kind, c, 60*time.Second)
		if res2.TimedOut {
			return fmt.Errorf("scenario did not terminate within 60 s twice (lost value / lost wakeup / deadlock); goroutines:\n%s", clipS(res2.Detail, 3000))
		}
		pbt.Inconclusive()
		res = res2
	}
	if res.Died {
		return fmt.Errorf("child process died while running the scenario (Go fatal error, panic on a goroutine, or data race):\n%s", clipS(res.Detail, 3500))
	}
	for _, l := range res.Resp.Labels {
		ctx.Label(l)
	}
	if res.Resp.NonTr {
		b, _ := json.Marshal(c)
		ctx.NonTrivial(kind + string(b))
	}
	if res.Resp.Err != "" {
		return fmt.Errorf("%s", res.Resp.Err)
	}
	return nil
}

// ---- generators ----------------------------------------------------------------

func genChan(t *rapid.T) ChanCase {
	c := ChanCase{Cap: rapid.IntRange(0, 4).Draw(t, "cap")}
	k := rapid.IntRange(1, 4).Draw(t, "producers")
	for p := 0; p < k; p++ {
		c.Prods = append(c.Prods, rapid.IntRange(1, 8).Draw(t, "count"))
	}
	c.Cons = rapid.IntRange(1, 4).Draw(t, "consumers")
	c.Close = []string{"none", "after", "mid", "mid"}[vgen.Pick(t, 4, "close")]
	if c.Close == "mid" {
		c.MidAt = rapid.IntRange(0, c.Prods[0]).Draw(t, "mid_at")
	}
	c.API = []string{"ctx", "ctx", "plain", "next"}[vgen.Pick(t, 4, "api")]
	c.Procs = genProcs(t)
	c.Yield = genYield(t)
	return c
}

func genLock(t *rapid.T) LockCase {
	c := LockCase{Kind: []string{"mutex", "rwmutex", "romutex", "mutex"}[vgen.Pick(t, 4, "kind")]}
	n := rapid.IntRange(2, 5).Draw(t, "workers")
	for i := 0; i < n; i++ {
		w := LockWorker{Iters: rapid.IntRange(1, 12).Draw(t, "iters")}
		if c.Kind != "mutex" && i > 0 {
			w.Read = rapid.Bool().Draw(t, "read")
		}
		c.Workers = append(c.Workers, w)
	}
	c.Procs = genProcs(t)
	c.Yield = genYield(t)
	return c
}

func genWG(t *rapid.T) WGCase {
	return WGCase{
		N:       rapid.IntRange(1, 8).Draw(t, "n"),
		Mode:    []string{"add", "start", "pieces"}[rapid.IntRange(0, 2).Draw(t, "mode")],
		Done:    []string{"end", "remove"}[rapid.IntRange(0, 1).Draw(t, "done")],
		Waiters: rapid.IntRange(1, 3).Draw(t, "waiters"),
		Rounds:  rapid.IntRange(1, 3).Draw(t, "rounds"),
		Procs:   genProcs(t),
		Yield:   genYield(t),
	}
}

func genOnce(t *rapid.T) OnceCase {
	return OnceCase{
		N:     rapid.IntRange(1, 8).Draw(t, "n"),
		Calls: rapid.IntRange(1, 3).Draw(t, "calls"),
		API:   []string{"call", "fn", "memo"}[rapid.IntRange(0, 2).Draw(t, "api")],
		Procs: genProcs(t),
		Yield: genYield(t),
	}
}

func genMisuse(t *rapid.T) MisuseCase {
	c := MisuseCase{Prim: []string{"mutex", "rwmutex", "romutex", "channel", "channel", "channel", "channel", "nilchannel"}[vgen.Pick(t, 8, "prim")]}
	var names []string
	switch c.Prim {
	case "mutex":
		names = []string{"lock", "unlock"}
	case "rwmutex", "romutex":
		names = []string{"lock", "unlock", "read_lock", "read_unlock"}
	case "channel":
		c.Cap = rapid.IntRange(0, 4).Draw(t, "cap")
		names = []string{"push", "push", "pop", "close", "length"}
	default:
		return c
	}
	n := rapid.IntRange(1, 12).Draw(t, "ops")
	for i := 0; i < n; i++ {
		op := MisuseOp{Op: names[rapid.IntRange(0, len(names)-1).Draw(t, "op")]}
		if op.Op == "push" {
			op.N = rapid.IntRange(0, 99).Draw(t, "v")
		}
		c.Ops = append(c.Ops, op)
	}
	return c
}

// ---- tests ---------------------------------------------------------------------

func TestChannelValue(t *testing.T) {
	pbt.Rule("channel_value", "value.ChannelOfValue of capacity 0..4, 1..4 producer goroutines each pushing a tagged increasing sequence (1..8 values), 1..4 consumers, close none/after producers/mid-stream by producer 0, through Push/Pop, PushCtx/PopCtx (natives <<, pop, <<@) or NextValueCtx (for-in), GOMAXPROCS 1/2/4/16 and a seeded Gosched/sleep perturbation; invariants: popped multiset == successfully pushed multiset, per-producer order preserved in every consumer, push results monotone (ok* then ClosedError*), closed signal after the drain, post-close push/pop/close answer with the three ClosedError values, buffered values survive close in order, no panic/fatal/race (child process; race binary: GORACE halt_on_error). Non-trivial = a consumer saw two producers interleaved, two consumers both received values, or a push was rejected by a concurrent close; distinct by case")
	pbt.Run(t, pbt.Prop[ChanCase]{Name: "channel_value", Quick: scaled(16000), Thorough: scaled(300000), Gen: genChan,
		Oracle: func(c ChanCase, ctx *pbt.Ctx) error { return runChild("chan", c, ctx) }})
}

func TestLockValue(t *testing.T) {
	pbt.Rule("lock_value", "value.Mutex / RWMutex / ROMutex, 2..5 goroutines x 1..12 iterations; writers do counter read, perturbation, write back under the lock and log the owner, readers read the counter twice under the read lock; invariants: counter == number of increments, atomic inside-counters never see two writers or writer+reader (plain binary) / no data race on the plain counter (race binary), readers never see the counter change, unlock of a held lock returns no error. Non-trivial = owner log alternates between goroutines or a reader observed an intermediate counter value; distinct by case")
	pbt.Run(t, pbt.Prop[LockCase]{Name: "lock_value", Quick: scaled(8000), Thorough: scaled(120000), Gen: genLock,
		Oracle: func(c LockCase, ctx *pbt.Ctx) error { return runChild("lock", c, ctx) }})
}

func TestWaitGroupValue(t *testing.T) {
	pbt.Rule("waitgroup_value", "value.WaitGroup with 1..8 workers (Add up front / Start per worker / Add+Remove), End or Remove(1), 1..3 waiters, reused for 1..3 rounds; every waiter sums the plain result slots after Wait: must be N (race binary: End happens-before Wait return). Non-trivial = N >= 2; distinct by case")
	pbt.Run(t, pbt.Prop[WGCase]{Name: "waitgroup_value", Quick: scaled(6000), Thorough: scaled(80000), Gen: genWG,
		Oracle: func(c WGCase, ctx *pbt.Ctx) error { return runChild("wg", c, ctx) }})
}

func TestOnceValue(t *testing.T) {
	pbt.Rule("once_value", "Once#call (vm.OnceDo), Once.fn, Once.memo called 1..3 times from each of 1..8 goroutines with their own VM threads; the body does a plain read-perturb-write increment; every caller must see the body completed exactly once when its call returns, memo returns the memoised value. Non-trivial = N >= 2; distinct by case")
	pbt.Run(t, pbt.Prop[OnceCase]{Name: "once_value", Quick: scaled(4000), Thorough: scaled(60000), Gen: genOnce,
		Oracle: func(c OnceCase, ctx *pbt.Ctx) error { return runChild("once", c, ctx) }})
}

func TestMisuseValue(t *testing.T) {
	pbt.Rule("misuse_value", "single-goroutine op sequences on a fresh Mutex / RWMutex / ROMutex / Channel(cap 0..4) / nil channel, decided by a state model: legal ops must succeed (channel contents FIFO, length), blocking ops are skipped, every misuse (unlock unheld, read_unlock without readers, unlock without writer, push/pop/close on a closed channel, close of a nil channel) must return the documented error class, never kill the process, and leave the primitive in its previous state: the history continues after it, and at the end every lock must be acquirable again once the locks the model holds are released. Non-trivial = a misuse step executed; distinct by case")
	pbt.Run(t, pbt.Prop[MisuseCase]{Name: "misuse_value", Quick: scaled(8000), Thorough: scaled(150000), Gen: genMisuse,
		Oracle: func(c MisuseCase, ctx *pbt.Ctx) error { return runChild("misuse", c, ctx) },
		Known: []pbt.Known[MisuseCase]{{Key: kUnlockFatal, Match: func(c MisuseCase) bool {
			return c.Prim == "mutex" || c.Prim == "rwmutex" || c.Prim == "romutex"
		}}}})
}
