package c25

// Child-process transport for the value-level layer.
//
// The value-level scenarios start goroutines on the runtime's primitives.  A Go
// `fatal error` (sync: unlock of unlocked mutex), a panic on a spawned goroutine
// or - in the -race binary - a data-race report would kill the test process.
// The test binary therefore re-executes itself as a child (C25_CHILD=1) that
// serves scenarios over stdin/stdout; its death is attributed to the scenario in
// flight and returned to the oracle as an ordinary failure, so rapid can shrink it.
// In the race binary the child runs with GORACE=halt_on_error=1: the first race
// report ends the child with exit status 66.

import (
	"bufio"
	"encoding/json"
	"fmt"
	"io"
	"os"
	"os/exec"
	"runtime/debug"
	"strings"
	"sync"
	"syscall"
	"time"
)

type childReq struct {
	Kind string          `json:"kind"`
	Case json.RawMessage `json:"case"`
}

// childResp is the verdict of one scenario, computed next to the history.
type childResp struct {
	Err    string   `json:"err,omitempty"`    // invariant violated (or a recovered Go panic)
	Labels []string `json:"labels,omitempty"` // histogram labels
	NonTr  bool     `json:"nontrivial,omitempty"`
}

type child struct {
	mu   sync.Mutex
	cmd  *exec.Cmd
	in   io.WriteCloser
	out  *bufio.Reader
	errf *os.File
	n    int
}

func raceMode() bool { return os.Getenv("VERIF_RACE") == "1" }

func (c *child) start() error {
	c.cmd = exec.Command(os.Args[0], "-test.run=^$")
	c.cmd.Env = append(os.Environ(), "C25_CHILD=1", "GOTRACEBACK=all", "GORACE=halt_on_error=1 exitcode=66")
	c.cmd.SysProcAttr = &syscall.SysProcAttr{Setpgid: true, Pdeathsig: syscall.SIGKILL}
	in, err := c.cmd.StdinPipe()
	if err != nil {
		return err
	}
	out, err := c.cmd.StdoutPipe()
	if err != nil {
		return err
	}
	dir := os.Getenv("VERIF_TMP")
	if dir == "" {
		dir = os.TempDir()
	}
	_ = os.MkdirAll(dir, 0o755)
	ef, err := os.CreateTemp(dir, "c25-child-stderr-*")
	if err != nil {
		return err
	}
	_ = os.Remove(ef.Name())
	c.cmd.Stderr = ef
	if err := c.cmd.Start(); err != nil {
		return err
	}
	c.in, c.out, c.errf = in, bufio.NewReaderSize(out, 1<<20), ef
	return nil
}

func (c *child) tail() string {
	if c.errf == nil {
		return ""
	}
	st, err := c.errf.Stat()
	if err != nil {
		return ""
	}
	n := st.Size()
	const max = 16000
	off := int64(0)
	if n > max {
		off = n - max
	}
	b := make([]byte, n-off)
	_, _ = c.errf.ReadAt(b, off)
	return string(b)
}

func (c *child) kill() string {
	if c.cmd == nil {
		return ""
	}
	_ = c.in.Close()
	if c.cmd.Process != nil {
		_ = syscall.Kill(-c.cmd.Process.Pid, syscall.SIGKILL)
	}
	_ = c.cmd.Wait()
	t := c.tail()
	c.errf.Close()
	c.cmd = nil
	return t
}

func (c *child) Close() {
	c.mu.Lock()
	defer c.mu.Unlock()
	c.kill()
}

type childResult struct {
	Resp     childResp
	Died     bool
	TimedOut bool
	Detail   string
}

func (c *child) Do(kind string, cs any, timeout time.Duration) childResult {
	c.mu.Lock()
	defer c.mu.Unlock()
	if c.cmd == nil {
		if err := c.start(); err != nil {
			return childResult{Died: true, Detail: "cannot start child: " + err.Error()}
		}
	}
	c.n++
	cb, _ := json.Marshal(cs)
	b, _ := json.Marshal(&childReq{Kind: kind, Case: cb})
	b = append(b, '\n')
	type rd struct {
		line []byte
		err  error
	}
	ch := make(chan rd, 1)
	out := c.out
	go func() {
		line, err := out.ReadBytes('\n')
		ch <- rd{line, err}
	}()
	if _, err := c.in.Write(b); err != nil {
		t := c.kill()
		return childResult{Died: true, Detail: "write failed: " + err.Error() + "\n" + crashHead(t)}
	}
	select {
	case r := <-ch:
		if r.err != nil || len(r.line) == 0 {
			st := ""
			_ = c.in.Close()
			if err := c.cmd.Wait(); err != nil {
				st = err.Error()
			}
			t := c.tail()
			c.errf.Close()
			c.cmd = nil
			return childResult{Died: true, Detail: st + "\n" + crashHead(t)}
		}
		var resp childResp
		if err := json.Unmarshal(r.line, &resp); err != nil {
			t := c.kill()
			return childResult{Died: true, Detail: "bad response: " + err.Error() + "\n" + crashHead(t)}
		}
		if c.n%5000 == 0 {
			c.kill()
		}
		return childResult{Resp: resp}
	case <-time.After(timeout):
		if c.cmd != nil && c.cmd.Process != nil {
			_ = c.cmd.Process.Signal(syscall.SIGQUIT)
			time.Sleep(300 * time.Millisecond)
		}
		t := c.kill()
		if len(t) > 5000 {
			t = t[:5000]
		}
		return childResult{TimedOut: true, Detail: t}
	}
}

func crashHead(s string) string {
	for _, k := range []string{"WARNING: DATA RACE", "fatal error:", "panic:", "SIGSEGV", "unexpected signal"} {
		if i := strings.Index(s, k); i >= 0 {
			e := i + 3000
			if e > len(s) {
				e = len(s)
			}
			return s[i:e]
		}
	}
	if len(s) > 2500 {
		return s[len(s)-2500:]
	}
	return s
}

// childMain is the server loop of the re-executed test binary.
func childMain() {
	initRuntime()
	in := bufio.NewReaderSize(os.Stdin, 1<<20)
	out := bufio.NewWriter(os.Stdout)
	for {
		line, err := in.ReadBytes('\n')
		if len(line) == 0 || err != nil {
			return
		}
		var req childReq
		var resp childResp
		if err := json.Unmarshal(line, &req); err != nil {
			resp.Err = "bad request: " + err.Error()
		} else {
			resp = serve(&req)
		}
		b, _ := json.Marshal(&resp)
		out.Write(b)
		out.WriteByte('\n')
		out.Flush()
	}
}

func serve(req *childReq) (resp childResp) {
	defer func() {
		if p := recover(); p != nil {
			resp.Err = fmt.Sprintf("Go panic escaped from the primitive: %v\n%s", p, clipS(string(debug.Stack()), 2500))
		}
	}()
	v := &verdict{}
	var err error
	switch req.Kind {
	case "chan":
		var c ChanCase
		must(json.Unmarshal(req.Case, &c))
		err = runChan(c, v)
	case "lock":
		var c LockCase
		must(json.Unmarshal(req.Case, &c))
		err = runLock(c, v)
	case "wg":
		var c WGCase
		must(json.Unmarshal(req.Case, &c))
		err = runWG(c, v)
	case "once":
		var c OnceCase
		must(json.Unmarshal(req.Case, &c))
		err = runOnce(c, v)
	case "misuse":
		var c MisuseCase
		must(json.Unmarshal(req.Case, &c))
		err = runMisuse(c, v)
	default:
		err = fmt.Errorf("unknown kind %q", req.Kind)
	}
	resp.Labels, resp.NonTr = v.labels, v.nontrivial
	if err != nil {
		resp.Err = err.Error()
	}
	return
}

func must(err error) {
	if err != nil {
		panic(err)
	}
}

type verdict struct {
	labels     []string
	nontrivial bool
}

func (v *verdict) label(l string) { v.labels = append(v.labels, l) }

func clipS(s string, n int) string {
	if len(s) > n {
		return s[:n] + "…"
	}
	return s
}
