package c32

import (
	"encoding/json"
	"fmt"
	"os"
	"testing"

	"pgregory.net/rapid"
)

// TestDump prints generated programs (developer aid): C32_DUMP=1|tail, or C32_SPEC=<json spec> to render one spec to C32_OUT
func TestDump(t *testing.T) {
	if s := os.Getenv("C32_SPEC"); s != "" {
		var sp Spec
		if err := json.Unmarshal([]byte(s), &sp); err != nil {
			t.Fatal(err)
		}
		c := build(sp)
		if rp := os.Getenv("C32_REPLAY"); rp != "" {
			// write a replay file for this spec: C32_REPLAY=<path> C32_TEST=<chain|tail_elision> C32_KNOWN=<slug> C32_OBSERVED=<text>
			rf := map[string]any{"property": "C32", "test": os.Getenv("C32_TEST"), "case": c, "observed": os.Getenv("C32_OBSERVED")}
			if k := os.Getenv("C32_KNOWN"); k != "" {
				rf["known"] = k
			}
			b, _ := json.MarshalIndent(rf, "", " ")
			_ = os.WriteFile(rp, b, 0o644)
			return
		}
		_ = os.WriteFile(os.Getenv("C32_OUT"), []byte(c.Src), 0o644)
		fmt.Println(fmtFrames(c.Want))
		return
	}
	if os.Getenv("C32_DUMP") == "" {
		t.Skip()
	}
	tail := os.Getenv("C32_DUMP") == "tail"
	g := rapid.Custom(func(t *rapid.T) Case { return build(genSpec(t, tail)) })
	for i := 0; i < 3; i++ {
		c := g.Example(i)
		fmt.Println(numbered(c.Src))
		fmt.Println(fmtFrames(c.Want))
	}
}
