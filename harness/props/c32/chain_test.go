package c32

// Generator of "chain" programs: the generator decides a call chain
// fn0 (top level) -> fn1 -> ... -> fnN, renders it to Elk source with a varied
// layout and knows, for every frame, the name the VM prints and the source
// line of its call site (the throw site for the innermost frame).

import (
	"fmt"
	"strings"
)

// function kinds
const (
	kTop      = iota // the file frame
	kMeth            // def m(x)                       Std::Kernel::m
	kInst            // class C; def im(x)             C.:im
	kSing            // class C; singleton; def sm(x)  C::sm
	kMod             // module M; def mm(x)            M::mm
	kNested          // module N; class I; def nm(x)   N::I.:nm
	kRec             // def rm(x, d) calling itself d times first
	kMixin           // mixin X; def xm(x); class XC include X   X.:xm
	kCallObj         // class C; def call(x)   called as c.(x)   C.:call
	kSubscr          // class C; def [](x)     called as c[x]    C.:[]
	kSetter          // class C; def v=(x)     called as c.v = x C.:v=
	kClosure         // c := |p: Int|: Int -> ... end ; c.(x) / c(x) / c.call(x)   <closure>
	kTimes           // 2.times |i| -> ... end   (native callback)                  <closure>
	kMap             // [5, 6].map |e| -> ... end (native callback)                 <closure>
	kGen             // def *g(x) ; gv.next                                         Std::Kernel::g
	kGenFor          // def *g(x) ; for v in g(x)                                   Std::Kernel::g
	kAsync           // async def a(x) ; await a(x) / a(x).await_sync / p := a(x) ... await p
	nKinds
)

var kindName = [...]string{"top", "meth", "inst", "sing", "mod", "nested", "rec", "mixin", "callobj", "subscr", "setter", "closure", "times", "map", "gen", "genfor", "async"}

// kind class used by the non-triviality rule ("same function kind")
func kindClass(k int) string {
	switch k {
	case kTop:
		return "top"
	case kClosure, kTimes, kMap:
		return "closure"
	case kGen, kGenFor:
		return "generator"
	case kAsync:
		return "async"
	}
	return "method"
}

// a call through native Go code (the callee's error is returned to the native and rethrown by the VM)
func nativeBoundary(k int) bool { return k == kTimes || k == kMap || k == kGen || k == kGenFor }

// wrappers around the statement that calls the next function / throws
const (
	wCatchNoMatch = iota // do ... catch :nomatch ... end
	wFinally             // do ... finally ... end
	wFor                 // for i in 1...2
	wWhile               // while k < 2
	wIf                  // if x >= 0
	wCatchTrace          // do ... catch :nomatch, tr ... end
	nWraps
)

// fillers: lines that only shift line numbers / add run-length entries / leave history
const (
	fBlank = iota
	fComment
	fStmt
	fMultiStmt
	fBlockComment
	fCaughtLocal  // a throw caught in the same function
	fHelperCall   // a completed call
	fCaughtDeep   // a two-frame chain that throws, caught here
	fSettled      // a promise awaited successfully
	fCallbackDone // a native callback that completes
	fTailDone     // a completed chain of tail calls
	nFillers
)

// layouts of `r = T`
const (
	formPlain     = iota // r = T
	formTrailOp          // r = T +\n 0
	formLeadOp           // r = 0 +\n T
	formNextLine         // r =\n T
	formArgsSplit        // r = f(\n x\n)
	formRecvSplit        // r = recv\n .f(x)
	formModifier         // r = T if x >= 0
	formAsArg            // r = ident(T)
	nForms
)

// what the innermost function does
const (
	tSymbol = iota // throw unchecked :boom
	tString        // throw unchecked "boom"
	tError         // throw unchecked Error("boom")
	tDivZero       // r = 10 / (x - x)
	tIndex         // r = [1, 2][x + 7]
	tMultiThrow    // throw unchecked(\n :boom\n)
	tAt            // try [1, 2].at(x + 7)      (error raised by a native method)
	nThrows
)

type Fn struct {
	Kind   int   `json:"kind"`
	Wraps  []int `json:"wraps,omitempty"`
	Form   int   `json:"form"`
	Pre    []int `json:"pre,omitempty"`
	Post   []int `json:"post,omitempty"`
	Defer  bool  `json:"defer,omitempty"`
	Rec    int   `json:"rec,omitempty"`    // kRec: recursion depth (extra frames)
	Yields int   `json:"yields,omitempty"` // kGen/kGenFor: yields before the call
	Var    int   `json:"var,omitempty"`    // variant of the call syntax (closure: .() / () / .call ; async: await / await_sync / split)
	Tail   bool  `json:"tail,omitempty"`   // tail family: this function calls the next one in tail position
	RecTail bool `json:"rec_tail,omitempty"` // tail family, kRec: the self-recursion is a tail call
}

type Spec struct {
	Fns       []Fn  `json:"fns"` // Fns[0] is the top level
	Throw     int   `json:"throw"`
	Probe     bool  `json:"probe,omitempty"` // the thrower first throws, catches and prints the trace (stdout)
	MainFirst bool  `json:"main_first,omitempty"`
	Rot       int   `json:"rot,omitempty"`  // rotation of the definition units
	Lead      []int `json:"lead,omitempty"` // fillers at the start of the file
}

type Frame struct {
	Name string `json:"name"`
	Line int    `json:"line"`
	Tail int    `json:"tail,omitempty"` // "... N optimised tail call(s)" printed before this frame
}

type Case struct {
	Spec      Spec    `json:"spec"`
	Src       string  `json:"src"`
	Want      []Frame `json:"want"`
	WantProbe []Frame `json:"want_probe,omitempty"`
	ErrLine   string  `json:"err_line"`
	Boundary  int     `json:"boundary"` // index of the first frame whose callee is reached through native code, -1 if none
}

// ---------------------------------------------------------------- rendering

type unit struct {
	lines []string
	marks map[string]int // key -> 0-based index into lines
}

type renderer struct {
	spec  Spec
	units []*unit // definition units in creation order
	main  *unit
	names []string // printed function name per fn
	fnUnit map[int]*unit
	nfill int
}

type emitter struct {
	u      *unit
	indent int
}

func (e *emitter) ln(s string) {
	if s == "" {
		e.u.lines = append(e.u.lines, "")
		return
	}
	e.u.lines = append(e.u.lines, strings.Repeat("  ", e.indent)+s)
}

// mark records that the NEXT emitted line carries key
func (e *emitter) mark(key string) { e.u.marks[key] = len(e.u.lines) }

func newUnit() *unit { return &unit{marks: map[string]int{}} }

func (r *renderer) filler(e *emitter, kind int, arg string) {
	r.nfill++
	v := fmt.Sprintf("t%d", r.nfill)
	switch kind {
	case fBlank:
		e.ln("")
	case fComment:
		e.ln("# filler " + v)
	case fStmt:
		e.ln(fmt.Sprintf("%s := %s + %d", v, arg, r.nfill))
	case fMultiStmt:
		e.ln(v + " := [")
		e.ln("  1,")
		e.ln("  " + arg)
		e.ln("].length")
	case fBlockComment:
		e.ln("#[")
		e.ln("  block " + v)
		e.ln("]#")
	case fCaughtLocal:
		e.ln("do")
		e.ln("  throw unchecked :inner")
		e.ln("catch :inner")
		e.ln("  nil")
		e.ln("end")
	case fHelperCall:
		e.ln(fmt.Sprintf("%s := helper(%s)", v, arg))
	case fCaughtDeep:
		e.ln("do")
		e.ln(fmt.Sprintf("  side1(%s)", arg))
		e.ln("catch :side")
		e.ln("  nil")
		e.ln("end")
	case fSettled:
		e.ln(fmt.Sprintf("%s := okasync(%s).await_sync", v, arg))
	case fCallbackDone:
		e.ln(fmt.Sprintf("%s := [1, 2].map |e%s| ->", v, v))
		e.ln(fmt.Sprintf("  e%s + 1", v))
		e.ln("end")
	case fTailDone:
		e.ln(fmt.Sprintf("%s := tailok1(%s)", v, arg))
	}
}

const helpers = `def helper(v: Int): Int
  v + 1
end
def side1(v: Int): Int
  r := side2(v)
  r + 0
end
def side2(v: Int): Int
  throw unchecked :side
end
async def okasync(v: Int): Int
  v + 1
end
def ident(v: Int): Int
  v
end
def tailok1(v: Int): Int
  tailok2(v)
end
def tailok2(v: Int): Int
  tailok3(v + 1)
end
def tailok3(v: Int): Int
  v + 1
end`

// assign emits `res = T` in the chosen layout and marks the line the VM is expected to report:
// the first line of the call expression T (every call instruction is emitted with the
// start line of its node).
func (r *renderer) assign(e *emitter, key, res string, form int, c callText, arg string) {
	T := c.text()
	switch form {
	case formTrailOp:
		e.mark(key)
		e.ln(fmt.Sprintf("%s = %s +", res, T))
		e.ln("  0")
	case formLeadOp:
		e.ln(fmt.Sprintf("%s = 0 +", res))
		e.mark(key)
		e.ln("  " + T)
	case formNextLine:
		e.ln(res + " =")
		e.mark(key)
		e.ln("  " + T)
	case formArgsSplit:
		if c.args == "" || c.suffix != "" || c.prefix != "" {
			e.mark(key)
			e.ln(fmt.Sprintf("%s = %s", res, T))
			return
		}
		e.mark(key)
		e.ln(fmt.Sprintf("%s = %s%s", res, c.head, c.open))
		for i, a := range strings.Split(c.args, ", ") {
			sep := ","
			if i == strings.Count(c.args, ", ") {
				sep = ""
			}
			e.ln("  " + a + sep)
		}
		e.ln(c.close)
	case formRecvSplit:
		if c.recv == "" || c.prefix != "" {
			e.mark(key)
			e.ln(fmt.Sprintf("%s = %s", res, T))
			return
		}
		e.mark(key)
		e.ln(fmt.Sprintf("%s = %s", res, c.recv))
		e.ln("  " + strings.TrimPrefix(T, c.recv))
	case formModifier:
		e.mark(key)
		e.ln(fmt.Sprintf("%s = %s if %s >= 0", res, T, arg))
	case formAsArg:
		e.mark(key)
		e.ln(fmt.Sprintf("%s = ident(%s)", res, T))
	default:
		e.mark(key)
		e.ln(fmt.Sprintf("%s = %s", res, T))
	}
}

// callText is `prefix recv.name open args close suffix`
type callText struct {
	prefix string // "await " / "try "
	recv   string // "C3()" (head = recv + "." + name) or ""
	head   string // everything before the opening bracket
	open   string
	args   string
	close  string
	suffix string // ".await_sync"
}

func (c callText) text() string {
	return c.prefix + c.head + c.open + c.args + c.close + c.suffix
}

func call(recv, name, args string) callText {
	h := name
	if recv != "" {
		h = recv + "." + name
	}
	return callText{recv: recv, head: h, open: "(", args: args, close: ")"}
}

// body emits the statements of fn i: local result variable, fillers, the (wrapped) statement
// that calls fn i+1 or throws, more fillers. It returns the name of the result variable.
func (r *renderer) body(e *emitter, i int, arg string) string {
	fn := r.spec.Fns[i]
	res := fmt.Sprintf("r%d", i)
	last := i == len(r.spec.Fns)-1
	if fn.Defer {
		e.ln(fmt.Sprintf("defer helper(%d)", i))
	}
	e.ln(fmt.Sprintf("var %s = 0", res))
	for _, f := range fn.Pre {
		r.filler(e, f, arg)
	}
	if fn.Tail && !last {
		// tail family: the call is the last expression of the function
		return r.tailLink(e, i, arg)
	}
	closers := []func(){}
	for wi, w := range fn.Wraps {
		switch w {
		case wCatchNoMatch:
			e.ln("do")
			e.indent++
			closers = append(closers, func() {
				e.indent--
				e.ln("catch :nomatch")
				e.ln(fmt.Sprintf("  %s = -1", res))
				e.ln("end")
			})
		case wCatchTrace:
			tr := fmt.Sprintf("tr%d_%d", i, wi)
			e.ln("do")
			e.indent++
			closers = append(closers, func() {
				e.indent--
				e.ln("catch :nomatch, " + tr)
				e.ln(fmt.Sprintf("  %s = %s.length", res, tr))
				e.ln("end")
			})
		case wFinally:
			e.ln("do")
			e.indent++
			closers = append(closers, func() {
				e.indent--
				e.ln("finally")
				e.ln(fmt.Sprintf("  helper(%d)", i))
				e.ln("end")
			})
		case wFor:
			e.ln(fmt.Sprintf("for i%d_%d in 1...2", i, wi))
			e.indent++
			closers = append(closers, func() { e.indent--; e.ln("end") })
		case wWhile:
			k := fmt.Sprintf("k%d_%d", i, wi)
			e.ln(k + " := 0")
			e.ln(fmt.Sprintf("while %s < 2", k))
			e.indent++
			e.ln(k + " += 1")
			closers = append(closers, func() { e.indent--; e.ln("end") })
		case wIf:
			e.ln(fmt.Sprintf("if %s >= 0", arg))
			e.indent++
			closers = append(closers, func() { e.indent--; e.ln("end") })
		}
	}
	if last {
		r.thrower(e, i, res, arg)
	} else {
		r.link(e, i, res, arg)
	}
	e.ln(res + " += 0")
	for k := len(closers) - 1; k >= 0; k-- {
		closers[k]()
	}
	for _, f := range fn.Post {
		r.filler(e, f, arg)
	}
	return res
}

func key(i int) string { return fmt.Sprint(i) }

func (r *renderer) thrower(e *emitter, i int, res, arg string) {
	emit := func(k string, final bool) {
		switch r.spec.Throw {
		case tSymbol:
			e.mark(k)
			if final {
				e.ln(fmt.Sprintf("throw unchecked :boom if %s >= 0", arg))
			} else {
				e.ln("throw unchecked :boom")
			}
		case tString:
			e.ln(fmt.Sprintf("if %s >= 0", arg))
			e.mark(k)
			e.ln("  throw unchecked \"boom\"")
			e.ln("end")
		case tError:
			e.ln(fmt.Sprintf("if %s >= 0", arg))
			e.mark(k)
			e.ln("  throw unchecked Error(\"boom\")")
			e.ln("end")
		case tDivZero:
			e.mark(k)
			e.ln(fmt.Sprintf("%s = 10 / (%s - %s)", res, arg, arg))
		case tIndex:
			e.mark(k)
			e.ln(fmt.Sprintf("%s = [1, 2][%s + 7]", res, arg))
		case tMultiThrow:
			e.ln(fmt.Sprintf("if %s >= 0", arg))
			e.mark(k)
			e.ln("  throw unchecked(")
			e.ln("    :boom")
			e.ln("  )")
			e.ln("end")
		case tAt:
			e.mark(k)
			e.ln(fmt.Sprintf("%s = try [1, 2].at(%s + 7)", res, arg))
		}
	}
	if r.spec.Probe {
		e.ln("do")
		e.indent++
		emit("probe", false)
		e.indent--
		e.ln(fmt.Sprintf("catch pe%d, ptr%d", i, i))
		e.ln(fmt.Sprintf("  println ptr%d.to_string", i))
		e.ln("end")
	}
	emit(key(i), true)
}

func errLine(throw int) string {
	switch throw {
	case tSymbol, tMultiThrow:
		return "Error! Uncaught thrown value: :boom"
	case tString:
		return "Error! Uncaught thrown value: \"boom\""
	case tError:
		return "Error! Uncaught error Std::Error: boom"
	case tDivZero:
		return "Error! Uncaught error Std::ZeroDivisionError: cannot divide by zero"
	}
	return "Error! Uncaught error Std::IndexError: index 8 out of range: -2...2"
}

// newDef starts a definition unit for a named function and returns an emitter positioned in its body
// together with the function that closes the unit.
func (r *renderer) newDef(open []string, closeN int) (*emitter, func()) {
	u := newUnit()
	r.units = append(r.units, u)
	e := &emitter{u: u}
	for _, l := range open {
		e.ln(l)
		e.indent++
	}
	return e, func() {
		for k := 0; k < closeN; k++ {
			e.indent--
			e.ln("end")
		}
	}
}

// defBody renders the body of the named function j into its own unit.
func (r *renderer) defBody(j int, open []string, param string, pre func(e *emitter)) {
	e, done := r.newDef(open, len(open))
	r.fnUnit[j] = e.u
	if pre != nil {
		pre(e)
	}
	res := r.body(e, j, param)
	if res != "" {
		e.ln(res + " + 0")
	}
	done()
}

// link emits, into the body of fn i, the statements that call fn j = i+1 and store the result in res.
func (r *renderer) link(e *emitter, i int, res, arg string) {
	j := i + 1
	fn := r.spec.Fns[j]
	p := fmt.Sprintf("p%d", j)
	form := r.spec.Fns[i].Form
	switch fn.Kind {
	case kMeth:
		n := fmt.Sprintf("m%d", j)
		r.names[j] = "Std::Kernel::" + n
		r.defBody(j, []string{fmt.Sprintf("def %s(%s: Int): Int", n, p)}, p, nil)
		r.assign(e, key(i), res, form, call("", n, arg), arg)
	case kInst:
		c, n := fmt.Sprintf("C%d", j), fmt.Sprintf("im%d", j)
		r.names[j] = c + ".:" + n
		r.defBody(j, []string{"class " + c, fmt.Sprintf("def %s(%s: Int): Int", n, p)}, p, nil)
		r.assign(e, key(i), res, form, call(c+"()", n, arg), arg)
	case kSing:
		c, n := fmt.Sprintf("C%d", j), fmt.Sprintf("sm%d", j)
		r.names[j] = c + "::" + n
		r.defBody(j, []string{"class " + c, "singleton", fmt.Sprintf("def %s(%s: Int): Int", n, p)}, p, nil)
		r.assign(e, key(i), res, form, call(c, n, arg), arg)
	case kMod:
		c, n := fmt.Sprintf("M%d", j), fmt.Sprintf("mm%d", j)
		r.names[j] = c + "::" + n
		r.defBody(j, []string{"module " + c, fmt.Sprintf("def %s(%s: Int): Int", n, p)}, p, nil)
		r.assign(e, key(i), res, form, call(c, n, arg), arg)
	case kNested:
		o, c, n := fmt.Sprintf("N%d", j), fmt.Sprintf("I%d", j), fmt.Sprintf("nm%d", j)
		r.names[j] = o + "::" + c + ".:" + n
		r.defBody(j, []string{"module " + o, "class " + c, fmt.Sprintf("def %s(%s: Int): Int", n, p)}, p, nil)
		r.assign(e, key(i), res, form, call(o+"::"+c+"()", n, arg), arg)
	case kRec:
		n := fmt.Sprintf("rm%d", j)
		r.names[j] = "Std::Kernel::" + n
		d := fmt.Sprintf("d%d", j)
		r.defBody(j, []string{fmt.Sprintf("def %s(%s: Int, %s: Int): Int", n, p, d)}, p, func(e2 *emitter) {
			e2.ln(fmt.Sprintf("if %s > 0", d))
			e2.indent++
			if fn.RecTail {
				e2.mark(key(j) + ".rec")
				e2.ln(fmt.Sprintf("return %s(%s, %s - 1)", n, p, d))
			} else {
				e2.mark(key(j) + ".rec")
				e2.ln(fmt.Sprintf("q%d := %s(%s, %s - 1)", j, n, p, d))
				e2.ln(fmt.Sprintf("return q%d + 0", j))
			}
			e2.indent--
			e2.ln("end")
		})
		r.assign(e, key(i), res, form, call("", n, fmt.Sprintf("%s, %d", arg, fn.Rec)), arg)
	case kMixin:
		x, c, n := fmt.Sprintf("X%d", j), fmt.Sprintf("XC%d", j), fmt.Sprintf("xm%d", j)
		r.names[j] = x + ".:" + n
		r.defBody(j, []string{"mixin " + x, fmt.Sprintf("def %s(%s: Int): Int", n, p)}, p, nil)
		// the including class lives in the mixin's unit (appended after the mixin)
		mu := r.unitOf(j)
		mu.lines = append(mu.lines, "class "+c, "  include "+x, "end")
		r.assign(e, key(i), res, form, call(c+"()", n, arg), arg)
	case kCallObj:
		c := fmt.Sprintf("K%d", j)
		r.names[j] = c + ".:call"
		r.defBody(j, []string{"class " + c, fmt.Sprintf("def call(%s: Int): Int", p)}, p, nil)
		ct := callText{recv: c + "()", head: c + "().", open: "(", args: arg, close: ")"}
		r.assign(e, key(i), res, form, ct, arg)
	case kSubscr:
		c := fmt.Sprintf("S%d", j)
		r.names[j] = c + ".:[]"
		r.defBody(j, []string{"class " + c, fmt.Sprintf("def [](%s: Int): Int", p)}, p, nil)
		// multi-line subscripts are not generated: the builtin SUBSCRIPT instruction carries the END line
		// of its node while calls carry the start line; no test or doc pins either down
		ct := callText{head: c + "()[" + arg + "]"}
		if form == formArgsSplit || form == formRecvSplit {
			form = formPlain
		}
		r.assign(e, key(i), res, form, ct, arg)
	case kSetter:
		c := fmt.Sprintf("A%d", j)
		r.names[j] = c + ".:v="
		r.defBody(j, []string{"class " + c, fmt.Sprintf("def v=(%s: Int)", p)}, p, nil)
		e.ln(fmt.Sprintf("sv%d := %s()", j, c))
		e.mark(key(i))
		e.ln(fmt.Sprintf("sv%d.v = %s", j, arg))
	case kClosure:
		r.names[j] = "<closure>"
		c := fmt.Sprintf("c%d", j)
		e.ln(fmt.Sprintf("%s := |%s: Int|: Int ->", c, p))
		e.indent++
		res2 := r.body(e, j, p)
		if res2 != "" {
			e.ln(res2 + " + 0")
		}
		e.indent--
		e.ln("end")
		var ct callText
		switch fn.Var % 3 {
		case 0:
			ct = callText{head: c + ".", open: "(", args: arg, close: ")"}
		case 1:
			ct = callText{head: c, open: "(", args: arg, close: ")"}
		default:
			ct = call(c, "call", arg)
		}
		r.assign(e, key(i), res, form, ct, arg)
	case kTimes:
		r.names[j] = "<closure>"
		e.mark(key(i))
		e.ln(fmt.Sprintf("2.times |n%d| ->", j))
		e.indent++
		res2 := r.body(e, j, arg)
		e.ln(fmt.Sprintf("%s = %s + n%d", res, res2, j))
		e.indent--
		e.ln("end")
	case kMap:
		r.names[j] = "<closure>"
		e.mark(key(i))
		e.ln(fmt.Sprintf("l%d := [5, 6].map |e%d| ->", j, j))
		e.indent++
		res2 := r.body(e, j, arg)
		e.ln(fmt.Sprintf("%s + e%d", res2, j))
		e.indent--
		e.ln("end")
		e.ln(fmt.Sprintf("%s = l%d.length", res, j))
	case kGen, kGenFor:
		n := fmt.Sprintf("g%d", j)
		r.names[j] = "Std::Kernel::" + n
		r.defBody(j, []string{fmt.Sprintf("def *%s(%s: Int): Int", n, p)}, p, func(e2 *emitter) {
			for y := 0; y < fn.Yields; y++ {
				e2.ln(fmt.Sprintf("yield %d", y+1))
			}
		})
		if fn.Kind == kGenFor {
			e.mark(key(i))
			e.ln(fmt.Sprintf("for v%d in %s(%s)", j, n, arg))
			e.ln(fmt.Sprintf("  %s += v%d", res, j))
			e.ln("end")
			return
		}
		gv := fmt.Sprintf("gv%d", j)
		e.ln(fmt.Sprintf("%s := %s(%s)", gv, n, arg))
		for y := 0; y < fn.Yields; y++ {
			e.ln(fmt.Sprintf("try %s.next", gv))
		}
		if form != formPlain && form != formNextLine {
			form = formPlain
		}
		r.assign(e, key(i), res, form, callText{prefix: "try ", head: gv + ".next"}, arg)
	case kAsync:
		n := fmt.Sprintf("a%d", j)
		r.names[j] = "Std::Kernel::" + n
		r.defBody(j, []string{fmt.Sprintf("async def %s(%s: Int): Int", n, p)}, p, nil)
		switch fn.Var % 4 {
		case 3:
			// the promise has already been rejected when it is awaited: it is settled first by a
			// synchronous await whose error is caught (the already-resolved path of await)
			pv := fmt.Sprintf("pv%d", j)
			e.ln(fmt.Sprintf("%s := %s(%s)", pv, n, arg))
			e.ln("do")
			e.ln(fmt.Sprintf("  %s.await_sync", pv))
			e.ln(fmt.Sprintf("catch settled%d", j))
			e.ln("end")
			if form != formNextLine && form != formModifier {
				form = formPlain
			}
			r.assign(e, key(i), res, form, callText{prefix: "await ", head: pv}, arg)
		case 0:
			ct := call("", n, arg)
			ct.prefix = "await "
			if form == formTrailOp || form == formLeadOp || form == formAsArg {
				form = formPlain // precedence of `await` inside a binary expression / argument is not what is tested here
			}
			r.assign(e, key(i), res, form, ct, arg)
		case 1:
			ct := call("", n, arg)
			ct.suffix = ".await_sync"
			r.assign(e, key(i), res, form, ct, arg)
		default:
			pv := fmt.Sprintf("pv%d", j)
			e.ln(fmt.Sprintf("%s := %s(%s)", pv, n, arg))
			e.ln(fmt.Sprintf("w%d := %s + 1", j, arg))
			if form != formNextLine && form != formModifier {
				form = formPlain
			}
			r.assign(e, key(i), res, form, callText{prefix: "await ", head: pv}, arg)
		}
	}
}

func (r *renderer) unitOf(j int) *unit {
	return r.fnUnit[j]
}

// tailLink emits a call to fn i+1 in tail position (last expression, `return`, or last expression of an if branch).
func (r *renderer) tailLink(e *emitter, i int, arg string) string {
	j := i + 1
	fn := r.spec.Fns[j]
	p := fmt.Sprintf("p%d", j)
	var T string
	switch fn.Kind {
	case kInst:
		c, n := fmt.Sprintf("C%d", j), fmt.Sprintf("im%d", j)
		r.names[j] = c + ".:" + n
		r.defBody(j, []string{"class " + c, fmt.Sprintf("def %s(%s: Int): Int", n, p)}, p, nil)
		T = call(c+"()", n, arg).text()
	case kSing:
		c, n := fmt.Sprintf("C%d", j), fmt.Sprintf("sm%d", j)
		r.names[j] = c + "::" + n
		r.defBody(j, []string{"class " + c, "singleton", fmt.Sprintf("def %s(%s: Int): Int", n, p)}, p, nil)
		T = call(c, n, arg).text()
	case kMod:
		c, n := fmt.Sprintf("M%d", j), fmt.Sprintf("mm%d", j)
		r.names[j] = c + "::" + n
		r.defBody(j, []string{"module " + c, fmt.Sprintf("def %s(%s: Int): Int", n, p)}, p, nil)
		T = call(c, n, arg).text()
	case kRec:
		n := fmt.Sprintf("rm%d", j)
		r.names[j] = "Std::Kernel::" + n
		d := fmt.Sprintf("d%d", j)
		r.defBody(j, []string{fmt.Sprintf("def %s(%s: Int, %s: Int): Int", n, p, d)}, p, func(e2 *emitter) {
			e2.ln(fmt.Sprintf("if %s > 0", d))
			e2.indent++
			e2.mark(key(j) + ".rec")
			if fn.RecTail {
				e2.ln(fmt.Sprintf("return %s(%s, %s - 1)", n, p, d))
			} else {
				e2.ln(fmt.Sprintf("q%d := %s(%s, %s - 1)", j, n, p, d))
				e2.ln(fmt.Sprintf("return q%d + 0", j))
			}
			e2.indent--
			e2.ln("end")
		})
		T = call("", n, fmt.Sprintf("%s, %d", arg, fn.Rec)).text()
	default:
		n := fmt.Sprintf("m%d", j)
		r.names[j] = "Std::Kernel::" + n
		r.defBody(j, []string{fmt.Sprintf("def %s(%s: Int): Int", n, p)}, p, nil)
		T = call("", n, arg).text()
	}
	switch r.spec.Fns[i].Form % 3 {
	case 0:
		e.mark(key(i))
		e.ln(T)
	case 1:
		e.mark(key(i))
		e.ln("return " + T)
	default:
		e.ln(fmt.Sprintf("if %s >= 0", arg))
		e.mark(key(i))
		e.ln("  " + T)
		e.ln("else")
		e.ln("  0")
		e.ln("end")
	}
	return ""
}
