package c32

import (
	"fmt"
	"os"
	"regexp"
	"strconv"
	"strings"
	"testing"
	"time"

	"pgregory.net/rapid"

	"verif/internal/pbt"
	sb "verif/internal/sandbox"
	"verif/internal/vgen"
)

func TestMain(m *testing.M) { pbt.Main(m, "C32") }

var worker *sb.Worker

// known finding: an error that leaves a native Go function (callback of times/map, Generator#next,
// for-in over a generator) is rethrown with a trace rebuilt at the native call site: the frames
// below the native call are missing from the report
const kNative = "native-boundary-drops-inner-frames"

// ------------------------------------------------------------------ generation

func genFillers(t *rapid.T, max int, label string, all bool) []int {
	n := rapid.IntRange(0, max).Draw(t, label+"_n")
	out := make([]int, 0, n)
	for k := 0; k < n; k++ {
		if all {
			out = append(out, vgen.Pick(t, nFillers, label))
		} else {
			out = append(out, []int{fBlank, fComment, fBlockComment}[vgen.Pick(t, 3, label)])
		}
	}
	return out
}

// kinds reached through native code are drawn less often: a chain is cut at the first of them by the
// known finding, and deep chains should mostly be checked in full
var kindTable = func() []int {
	var tb []int
	for k := 1; k < nKinds; k++ {
		w := 3
		if nativeBoundary(k) {
			w = 1
		}
		for ; w > 0; w-- {
			tb = append(tb, k)
		}
	}
	return tb
}()

func genSpec(t *rapid.T, tail bool) Spec {
	depth := 1 + vgen.Pick(t, 12, "depth")
	if rapid.IntRange(0, 3).Draw(t, "shallow") == 0 {
		depth = 1 + vgen.Pick(t, 3, "depth_small")
	}
	sp := Spec{Throw: vgen.Pick(t, nThrows, "throw"), MainFirst: rapid.Bool().Draw(t, "main_first"), Rot: rapid.IntRange(0, 12).Draw(t, "rot")}
	sp.Lead = genFillers(t, 3, "lead", false)
	asyncs := 0
	tailKinds := []int{kMeth, kInst, kSing, kMod, kRec, kClosure, kCallObj, kNested}
	for i := 0; i <= depth; i++ {
		fn := Fn{}
		if i == 0 {
			fn.Kind = kTop
		} else if tail {
			fn.Kind = tailKinds[vgen.Pick(t, len(tailKinds), "kind")]
		} else {
			fn.Kind = kindTable[vgen.Pick(t, len(kindTable), "kind")]
			if fn.Kind == kAsync {
				asyncs++
				if asyncs > 3 {
					// the default pool has 4 threads and a synchronous await blocks one: deeper nestings deadlock by design
					fn.Kind = kMeth
				}
			}
		}
		fn.Form = vgen.Pick(t, nForms, "form")
		fn.Var = rapid.IntRange(0, 11).Draw(t, "var") // 12 = lcm of the per-kind variant counts (3 and 4)
		fn.Pre = genFillers(t, 3, "pre", true)
		fn.Post = genFillers(t, 2, "post", true)
		if i > 0 {
			fn.Defer = rapid.IntRange(0, 4).Draw(t, "defer") == 0
		}
		nw := rapid.IntRange(0, 2).Draw(t, "wraps_n")
		for k := 0; k < nw; k++ {
			fn.Wraps = append(fn.Wraps, vgen.Pick(t, nWraps, "wrap"))
		}
		switch fn.Kind {
		case kRec:
			fn.Rec = rapid.IntRange(1, 3).Draw(t, "rec")
			if tail {
				fn.RecTail = rapid.Bool().Draw(t, "rec_tail")
			}
		case kGen, kGenFor:
			fn.Yields = rapid.IntRange(0, 2).Draw(t, "yields")
		}
		sp.Fns = append(sp.Fns, fn)
	}
	if tail {
		for i := 1; i < depth; i++ {
			switch sp.Fns[i+1].Kind {
			case kMeth, kInst, kSing, kMod, kRec:
				if rapid.IntRange(0, 2).Draw(t, "tail") > 0 {
					sp.Fns[i].Tail = true
					sp.Fns[i].Wraps = nil // a call inside do/loops is not in tail position
					sp.Fns[i].Post = nil
				}
			}
		}
	}
	hasAsync := false
	for _, fn := range sp.Fns {
		if fn.Kind == kAsync {
			hasAsync = true
		}
	}
	if !hasAsync {
		sp.Probe = rapid.IntRange(0, 2).Draw(t, "probe") == 0
	}
	return sp
}

// frameLayout lists, outermost first, the function index of every frame the report must contain and
// the number of optimised tail calls printed before it.
func frameLayout(sp Spec) (fnOf []int, tails []int, rec []bool) {
	n := len(sp.Fns) - 1
	pending := 0
	for i := 0; i <= n; i++ {
		fn := sp.Fns[i]
		if fn.Kind == kRec {
			// a function that contains a `defer` is compiled without tail calls
			if fn.RecTail && !fn.Defer {
				pending += fn.Rec
			} else {
				for k := 0; k < fn.Rec; k++ {
					fnOf, tails, rec = append(fnOf, i), append(tails, pending), append(rec, true)
					pending = 0
				}
			}
		}
		// a function with a `defer` cannot have its frame reused (the deferred code runs after the call returns)
		if i < n && fn.Tail && !fn.Defer {
			pending++
			continue
		}
		fnOf, tails, rec = append(fnOf, i), append(tails, pending), append(rec, false)
		pending = 0
	}
	return
}

// build renders the program and derives the expected report.
func build(sp Spec) Case {
	n := len(sp.Fns) - 1
	r := &renderer{spec: sp, names: make([]string, n+1), fnUnit: map[int]*unit{}}
	r.names[0] = "<main>"
	r.main = newUnit()
	e := &emitter{u: r.main}
	res := r.body(e, 0, "1")
	e.ln("println " + res)

	hu := newUnit()
	hu.lines = strings.Split(helpers, "\n")
	defs := append([]*unit{hu}, r.units...)
	rot := sp.Rot % len(defs)
	defs = append(defs[rot:], defs[:rot]...)
	var order []*unit
	if sp.MainFirst {
		order = append([]*unit{r.main}, defs...)
	} else {
		order = append(defs, r.main)
	}
	lead := newUnit()
	le := &emitter{u: lead}
	for _, f := range sp.Lead {
		r.filler(le, f, "1")
	}
	order = append([]*unit{lead}, order...)

	abs := map[string]int{}
	var lines []string
	for _, u := range order {
		for k, idx := range u.marks {
			abs[k] = len(lines) + idx + 1
		}
		lines = append(lines, u.lines...)
	}
	c := Case{Spec: sp, Src: strings.Join(lines, "\n") + "\n", ErrLine: errLine(sp.Throw), Boundary: -1}

	fnOf, tails, rec := frameLayout(sp)
	for w, i := range fnOf {
		k := key(i)
		if rec[w] {
			k = key(i) + ".rec"
		}
		c.Want = append(c.Want, Frame{r.names[i], abs[k], tails[w]})
	}
	if sp.Probe {
		c.WantProbe = append([]Frame{}, c.Want...)
		c.WantProbe[len(c.WantProbe)-1].Line = abs["probe"]
	}
	for w, i := range fnOf {
		if i < n && nativeBoundary(sp.Fns[i+1].Kind) && !rec[w] {
			c.Boundary = w
			break
		}
	}
	return c
}

// ------------------------------------------------------------------ parsing

var (
	frameRe = regexp.MustCompile("^ (\\d+): (.*):(\\d+), in `(.*)`$")
	tailRe  = regexp.MustCompile(`^ \.\.\. (\d+) optimised tail call\(s\)$`)
)

const header = "Stack trace (the most recent call is last)"

// parseTrace parses one printed stack trace starting at lines[0]; it returns the frames and the number of lines consumed.
func parseTrace(lines []string) ([]Frame, int, error) {
	if len(lines) == 0 || lines[0] != header {
		first := "<nothing>"
		if len(lines) > 0 {
			first = lines[0]
		}
		return nil, 0, fmt.Errorf("report does not start with the stack trace header: %q", first)
	}
	var frames []Frame
	tail := 0
	k := 1
	for ; k < len(lines); k++ {
		if m := tailRe.FindStringSubmatch(lines[k]); m != nil {
			if tail != 0 {
				return nil, 0, fmt.Errorf("two consecutive tail call lines at report line %d", k+1)
			}
			tail, _ = strconv.Atoi(m[1])
			continue
		}
		m := frameRe.FindStringSubmatch(lines[k])
		if m == nil {
			break
		}
		idx, _ := strconv.Atoi(m[1])
		if idx != len(frames) {
			return nil, 0, fmt.Errorf("frame numbered %d at position %d", idx, len(frames))
		}
		if m[2] != "<main>" {
			return nil, 0, fmt.Errorf("frame %d names file %q, the program is <main>", idx, m[2])
		}
		ln, _ := strconv.Atoi(m[3])
		frames = append(frames, Frame{m[4], ln, tail})
		tail = 0
	}
	if tail != 0 {
		return nil, 0, fmt.Errorf("tail call line not followed by a frame")
	}
	return frames, k, nil
}

func fmtFrames(fs []Frame) string {
	var b strings.Builder
	for i, f := range fs {
		if f.Tail > 0 {
			fmt.Fprintf(&b, "   ... %d tail call(s)\n", f.Tail)
		}
		fmt.Fprintf(&b, "   %d: line %d in %s\n", i, f.Line, f.Name)
	}
	return b.String()
}

func sameFrames(a, b []Frame) bool {
	if len(a) != len(b) {
		return false
	}
	for i := range a {
		if a[i] != b[i] {
			return false
		}
	}
	return true
}

func diffFrames(want, got []Frame) string {
	for i := 0; i < len(want) || i < len(got); i++ {
		switch {
		case i >= len(got):
			return fmt.Sprintf("frame %d (%s, line %d) is missing", i, want[i].Name, want[i].Line)
		case i >= len(want):
			return fmt.Sprintf("unexpected extra frame %d (%s, line %d)", i, got[i].Name, got[i].Line)
		case want[i] != got[i]:
			return fmt.Sprintf("frame %d: want %+v, got %+v", i, want[i], got[i])
		}
	}
	return "none"
}

func numbered(src string) string {
	var b strings.Builder
	for i, l := range strings.Split(strings.TrimSuffix(src, "\n"), "\n") {
		fmt.Fprintf(&b, "%3d| %s\n", i+1, l)
	}
	return b.String()
}

// ------------------------------------------------------------------ oracle

func oracle(c Case, ctx *pbt.Ctx) error {
	t0 := time.Now()
	res := worker.Do(sb.Req{Mode: "run", Source: c.Src, Cfg: sb.Cfg{Pool: 4, Queue: 256}}, 40*time.Second)
	class, detail := sb.Classify(res)
	if os.Getenv("C32_TRACE") != "" {
		fmt.Fprintf(os.Stderr, "C32_TRACE %s %v depth=%d spawn=%d\n", class, time.Since(t0).Round(time.Millisecond), len(c.Spec.Fns)-1, worker.Spawn)
		if class == sb.Timeout {
			fmt.Fprintf(os.Stderr, "%s\n%s\n", numbered(c.Src), clip(detail, 3000))
		}
	}
	ctx.Label("outcome:" + class)
	switch class {
	case sb.Timeout:
		pbt.Inconclusive()
		return nil
	case sb.Fatal, sb.GoPanic, sb.StackLimit:
		return fmt.Errorf("interpreter crashed (%s) instead of reporting the uncaught error:\n%s\n%s", class, clip(detail, 1500), numbered(c.Src))
	case sb.Rejected:
		var ds []string
		for _, d := range res.Resp.Runs[0].Diags {
			if d.Severity == "FAIL" {
				ds = append(ds, fmt.Sprintf("%d:%d %s", d.Line, d.Col, d.Msg))
			}
		}
		return fmt.Errorf("GENERATOR: program rejected by the checker: %s\n%s", strings.Join(ds, " | "), numbered(c.Src))
	case sb.OK:
		return fmt.Errorf("program finished without an uncaught error, expected %s\n%s", c.ErrLine, numbered(c.Src))
	}
	run := res.Resp.Runs[0]
	fail := func(format string, a ...any) error {
		return fmt.Errorf(format+"\n--- report\n%s--- program\n%s", append(a, clip(run.Stderr, 3000), numbered(c.Src))...)
	}

	lines := strings.Split(run.Stderr, "\n")
	got, used, err := parseTrace(lines)
	if err != nil {
		return fail("malformed report: %v", err)
	}
	rest := lines[used:]
	if len(rest) != 3 || rest[0] != c.ErrLine || rest[1] != "" || rest[2] != "" {
		return fail("after the %d frames the report must end with %q and one empty line, got %q", len(got), c.ErrLine, strings.Join(rest, "\\n"))
	}

	n := len(c.Spec.Fns) - 1
	ctx.Label(fmt.Sprintf("depth:%02d", n))
	ctx.Label("throw:" + strconv.Itoa(c.Spec.Throw))
	for i, fn := range c.Spec.Fns {
		if i > 0 {
			ctx.Label("kind:" + kindName[fn.Kind])
		}
		if i < n {
			ctx.Label("form:" + strconv.Itoa(fn.Form))
		}
		for _, w := range fn.Wraps {
			ctx.Label("wrap:" + strconv.Itoa(w))
		}
		if fn.Tail {
			ctx.Label("tail_link")
		}
	}

	// the trace delivered to a catch clause in the throwing function (printed on stdout)
	if c.Spec.Probe {
		ctx.Label("probe")
		pl := strings.Split(run.Stdout, "\n")
		pgot, pused, perr := parseTrace(pl)
		if perr != nil {
			return fail("stdout does not start with the trace printed by the catch clause of the thrower: %v\n--- stdout\n%s", perr, clip(run.Stdout, 1500))
		}
		if !sameFrames(c.WantProbe, pgot) {
			return fail("trace given to the catch clause in the throwing function differs: %s\n--- want\n%s--- got\n%s", diffFrames(c.WantProbe, pgot), fmtFrames(c.WantProbe), fmtFrames(pgot))
		}
		if pused >= len(pl) || pl[pused] != "" {
			return fail("trace printed by the catch clause is not terminated by an empty line")
		}
	}

	if !sameFrames(c.Want, got) {
		truncated := c.Boundary >= 0 && sameFrames(c.Want[:c.Boundary+1], got)
		if truncated && pbt.KnownActive(kNative) {
			ctx.Excluded(kNative)
			ctx.Label("native_boundary_truncated")
		} else {
			return fail("uncaught error report differs from the call chain: %s\n--- want\n%s--- got\n%s", diffFrames(c.Want, got), fmtFrames(c.Want), fmtFrames(got))
		}
	} else if c.Boundary >= 0 {
		ctx.Label("native_boundary_complete")
	}

	// non-trivial: depth >= 3 and two frames of the same function kind on different lines
	if n >= 3 {
		fnOf, _, _ := frameLayout(c.Spec)
		lineOf := map[string]map[int]bool{}
		for w, i := range fnOf {
			kc := kindClass(c.Spec.Fns[i].Kind)
			if lineOf[kc] == nil {
				lineOf[kc] = map[int]bool{}
			}
			lineOf[kc][c.Want[w].Line] = true
		}
		for _, kc := range []string{"method", "closure", "generator", "async"} {
			if len(lineOf[kc]) >= 2 {
				ctx.NonTrivial(c.Src)
				break
			}
		}
	}
	return nil
}

func clip(s string, n int) string {
	if len(s) > n {
		return s[:n] + "…"
	}
	return s
}

func sample(c Case) any {
	return map[string]any{"src": c.Src, "want": c.Want, "want_probe": c.WantProbe, "err_line": c.ErrLine}
}

func TestChain(t *testing.T) {
	pbt.Rule("chain", "call chains of depth 1-12 over 16 function kinds (top-level/instance/singleton/module/nested/mixin methods, recursion, call/[]/setter methods, closures, times/map callbacks, generators via next and for-in, async bodies via await/await_sync/split await), every call in non-tail position, call statement in 8 layouts (multi-line operands, split arguments, split receiver, modifier, nested as argument), wrapped in non-matching do/catch, finally, loops, if, defer; 7 throw kinds at a generator-chosen line; blank lines, comments, block comments, multi-line statements and completed history (caught throws, returned calls, settled promises, completed tail chains) shift the lines; unit order rotated, main first or last. Oracle: parsed uncaught-error report (and, in 1/3 of the async-free cases, the trace delivered to a catch clause in the thrower) equals the generator's frames (name as printed by the VM, first line of the call expression). non-trivial = depth >= 3 and two frames of the same function kind on different lines; distinct by source")
	worker = sb.New("debug")
	defer worker.Close()
	pbt.Run(t, pbt.Prop[Case]{Name: "chain", Quick: 1800, Thorough: 24000,
		Gen:    func(t *rapid.T) Case { return build(genSpec(t, false)) },
		Oracle: oracle, Sample: sample})
}

func TestTailElision(t *testing.T) {
	pbt.Rule("tail_elision", "call chains of depth 1-12 over bytecode methods and closures where a link is, with probability 2/3 when the callee is a method, a call in tail position (last expression, `return f(x)`, last expression of an if branch; tail self-recursion); expected report: a frame reached through k consecutive optimised tail calls is preceded by ` ... k optimised tail call(s)` and the replaced frames are absent; a function with a defer keeps its frame. non-trivial = depth >= 3, two frames of the same kind on different lines; distinct by source")
	worker = sb.New("debug")
	defer worker.Close()
	pbt.Run(t, pbt.Prop[Case]{Name: "tail_elision", Quick: 600, Thorough: 8000,
		Gen:    func(t *rapid.T) Case { return build(genSpec(t, true)) },
		Oracle: oracle, Sample: sample})
}
