package c04

import (
	"fmt"
	"regexp"
	"strings"
	"testing"
	"unicode/utf8"

	"github.com/elk-language/elk/lexer"
	"github.com/elk-language/elk/token"
	"github.com/fatih/color"
	"pgregory.net/rapid"

	"verif/internal/corpus"
	"verif/internal/pbt"
	"verif/internal/srcgen"
)

func TestMain(m *testing.M) { pbt.Main(m, "C04") }

type Case struct {
	Src []byte `json:"src"` // bytes: inputs may be invalid UTF-8
}

func genCase(t *rapid.T) Case {
	switch rapid.IntRange(0, 3).Draw(t, "src") {
	case 0:
		c := corpus.Elk()
		if len(c) > 0 {
			s := c[rapid.IntRange(0, len(c)-1).Draw(t, "ci")]
			if len(s) > 600 {
				o := rapid.IntRange(0, len(s)-600).Draw(t, "off")
				s = s[o : o+600]
			}
			return Case{[]byte(srcgen.Mutate(t, s))}
		}
		fallthrough
	default:
		return Case{[]byte(srcgen.Source(t))}
	}
}

// model position of the rune containing byte offset off
type pos struct{ line, col int }

func positions(s string) []pos {
	out := make([]pos, len(s)+1)
	line, col := 1, 1
	for i := 0; i < len(s); {
		_, sz := utf8.DecodeRuneInString(s[i:])
		for k := 0; k < sz; k++ {
			out[i+k] = pos{line, col}
		}
		if s[i] == '\n' {
			line++
			col = 1
		} else {
			col++
		}
		i += sz
	}
	out[len(s)] = pos{line, col}
	return out
}

func lexAll(s string) (toks []*token.Token, err error) {
	l := lexer.New(s)
	for i := 0; ; i++ {
		tok := l.Next()
		if tok == nil {
			return toks, fmt.Errorf("nil token at index %d", i)
		}
		if tok.Type == token.END_OF_FILE {
			return toks, nil
		}
		toks = append(toks, tok)
		if i > 4*len(s)+16 {
			return toks, fmt.Errorf("lexer produced more than %d tokens for %d bytes (no progress)", i, len(s))
		}
	}
}

func checkTokens(c Case, ctx *pbt.Ctx) error {
	s := string(c.Src)
	toks, err := lexAll(s)
	if err != nil {
		return err
	}
	p := positions(s)
	prevEnd := -1
	multi, nlInTok, modes := false, false, map[string]bool{}
	for i, tok := range toks {
		sp := tok.Span()
		if sp == nil || sp.StartPos == nil || sp.EndPos == nil {
			return fmt.Errorf("token %d (%s) has no span", i, tok.Type.String())
		}
		st, en := sp.StartPos.ByteOffset, sp.EndPos.ByteOffset
		// a zero-width token (end == start-1) may sit at the very end of the input
		if st < 0 || st > len(s) || (st == len(s) && en != st-1) || en >= len(s) {
			return fmt.Errorf("token %d (%s %q) span [%d,%d] outside input of %d bytes", i, tok.Type.String(), tok.Value, st, en, len(s))
		}
		if en < st-1 {
			return fmt.Errorf("token %d (%s) has end %d < start %d", i, tok.Type.String(), en, st)
		}
		if en == st-1 {
			ctx.Label("zero_width_token")
		}
		if st <= prevEnd {
			return fmt.Errorf("token %d (%s) starts at %d, not after previous end %d (overlap / order)", i, tok.Type.String(), st, prevEnd)
		}
		if en >= st {
			prevEnd = en
		} else {
			prevEnd = st - 1
		}
		// start position
		if got, want := (pos{sp.StartPos.Line, sp.StartPos.Column}), p[st]; got != want {
			return fmt.Errorf("token %d (%s %q) start byte %d is at line:col %d:%d, token says %d:%d", i, tok.Type.String(), tok.Value, st, want.line, want.col, got.line, got.col)
		}
		if en >= st {
			got, want := (pos{sp.EndPos.Line, sp.EndPos.Column}), p[en]
			alt := pos{want.line + 1, 0} // existing convention for a token ending in '\n'
			if !(got == want || (s[en] == '\n' && got == alt)) {
				return fmt.Errorf("token %d (%s %q) end byte %d is at line:col %d:%d, token says %d:%d", i, tok.Type.String(), tok.Value, en, want.line, want.col, got.line, got.col)
			}
			lex := s[st : en+1]
			if len(lex) != utf8.RuneCountInString(lex) {
				multi = true
			}
			if strings.Contains(lex[:len(lex)-1], "\n") {
				nlInTok = true
			}
		}
		switch tok.Type {
		case token.STRING_BEG, token.STRING_INTERP_BEG, token.REGEX_BEG, token.WORD_ARRAY_LIST_BEG, token.SYMBOL_ARRAY_LIST_BEG,
			token.HEX_ARRAY_LIST_BEG, token.BIN_ARRAY_LIST_BEG, token.DOC_COMMENT, token.RAW_STRING, token.CHAR_LITERAL, token.ERROR:
			modes[tok.Type.String()] = true
		}
	}
	for m := range modes {
		ctx.Label("mode:" + m)
	}
	if len(toks) >= 3 && (multi || nlInTok || len(modes) > 0) {
		ctx.NonTrivial(s)
	}
	return nil
}

func TestTokens(t *testing.T) {
	pbt.Rule("tokens", "hostile fragment soup / mutated test-corpus inputs -> lexer.New(s).Next() until EOF; non-trivial = >=3 tokens and (multi-byte rune in a token | newline inside a token | string/regex/collection/comment/char/error mode reached); distinct by input bytes")
	pbt.Run(t, pbt.Prop[Case]{
		Name: "tokens", Quick: 120000, Thorough: 4000000,
		Gen: genCase, Oracle: checkTokens,
		Sample: func(c Case) any { return string(c.Src) },
	})
}

var ansi = regexp.MustCompile("\x1b\\[[0-9;]*m")

type ColorCase struct {
	Src   []byte `json:"src"`
	Embel bool   `json:"embellished"`
	Color bool   `json:"color"`
}

func checkColor(c ColorCase, ctx *pbt.Ctx) error {
	s := string(c.Src)
	old := color.NoColor
	defer func() { color.NoColor = old }()
	color.NoColor = !c.Color
	var out string
	if c.Embel {
		out = lexer.ColorizeEmbellishedText(s)
		ctx.Label("embellished")
	} else {
		out = lexer.Colorize(s)
	}
	if c.Color {
		ctx.Label("colour_on")
		if out != s {
			ctx.Label("escapes_added")
		}
		out = ansi.ReplaceAllString(out, "")
	}
	if out != s {
		return fmt.Errorf("colorize(embellished=%v,color=%v) altered the text:\n in: %q\nout: %q", c.Embel, c.Color, s, out)
	}
	if len(s) > 2 && (c.Color || c.Embel) {
		ctx.NonTrivial(fmt.Sprintf("%v%v%s", c.Embel, c.Color, s))
	}
	return nil
}

func TestColorize(t *testing.T) {
	pbt.Rule("colorize", "same inputs without ESC bytes (plus backtick-embellished prose) -> Colorize / ColorizeEmbellishedText with colours forced on and off; strip \\x1b[...m; must equal the input byte for byte; non-trivial = colour on or embellished mode, len>2")
	pbt.Run(t, pbt.Prop[ColorCase]{
		Name: "colorize", Quick: 60000, Thorough: 2000000,
		Gen: func(t *rapid.T) ColorCase {
			c := genCase(t)
			s := strings.ReplaceAll(string(c.Src), "\x1b", "")
			emb := rapid.Bool().Draw(t, "emb")
			if emb && rapid.Bool().Draw(t, "prose") {
				parts := rapid.SliceOfN(rapid.SampledFrom([]string{"foo ", "`", "``", "```", "1 + 2", "bar\n", "\"x\"", "def a; end", " ", "é", s}), 0, 8).Draw(t, "prose")
				s = strings.ReplaceAll(strings.Join(parts, ""), "\x1b", "")
			}
			return ColorCase{[]byte(s), emb, rapid.Bool().Draw(t, "col")}
		},
		Oracle: checkColor,
		Sample: func(c ColorCase) any { return map[string]any{"src": string(c.Src), "embellished": c.Embel, "color": c.Color} },
	})
}
