package c16

import (
	"fmt"
	"sort"
	"strings"
)

// A generated promise-DAG program.
//
// Every task is an `async def tN(a0: Promise[Int], ...): Int`.  The promises a
// task can see ("visible list") are its parameters followed by the promises of
// the tasks it has spawned so far; an await names an index of that list, a spawn
// passes indices of it as arguments.  A task therefore only ever awaits its own
// children or promises that existed before it was spawned, which makes the
// await graph acyclic by construction; all awaits are unconditional and every
// task is awaited by somebody, so the program terminates and main, which
// `await_sync`s its own promises, ends only after every task has finished.
type Op struct {
	K    string `json:"k"`           // work | print | spawn | await
	N    int    `json:"n,omitempty"` // work: loop iterations
	T    int    `json:"t,omitempty"` // spawn: index of the spawned task
	Args []int  `json:"a,omitempty"` // spawn: visible-list indices passed as arguments
	V    int    `json:"v,omitempty"` // await: visible-list index
	Form int    `json:"f,omitempty"` // await: source form (0 statement, 1 pending operands, 2 inside a loop body)
}

type Task struct {
	K    int  `json:"c"`              // initial accumulator
	Fail bool `json:"fail,omitempty"` // the task ends by throwing :boom (its promise is rejected)
	NP   int  `json:"np"`             // number of promise parameters
	Ops  []Op `json:"ops"`
}

type Prog struct {
	Tasks []Task `json:"tasks"`
	Main  []Op   `json:"main"` // spawn / await (await_sync) / print / work at top level
}

const modulus = 1000003

// value an awaiter uses when the awaited promise was rejected
const caughtValue = 7

// ---- static resolution -------------------------------------------------------

// resolved program: which global task each visible-list entry denotes
type rprog struct {
	p       *Prog
	params  [][]int // task -> global task ids of its parameters
	spawner []int   // task -> spawning task (-1 main)
	ok      bool
	err     string
}

func resolve(p *Prog) *rprog {
	r := &rprog{p: p, params: make([][]int, len(p.Tasks)), spawner: make([]int, len(p.Tasks))}
	for i := range r.spawner {
		r.spawner[i] = -2
	}
	var walk func(self int, ops []Op, params []int) bool
	walk = func(self int, ops []Op, params []int) bool {
		vis := append([]int{}, params...)
		for _, o := range ops {
			switch o.K {
			case "spawn":
				if o.T <= self || o.T >= len(p.Tasks) || r.spawner[o.T] != -2 {
					r.err = fmt.Sprintf("bad spawn target %d in %d", o.T, self)
					return false
				}
				if len(o.Args) != p.Tasks[o.T].NP {
					r.err = "arity"
					return false
				}
				var ps []int
				for _, a := range o.Args {
					if a < 0 || a >= len(vis) {
						r.err = "bad arg"
						return false
					}
					ps = append(ps, vis[a])
				}
				r.spawner[o.T] = self
				r.params[o.T] = ps
				vis = append(vis, o.T)
			case "await":
				if o.V < 0 || o.V >= len(vis) {
					r.err = "bad await"
					return false
				}
			}
		}
		return true
	}
	if !walk(-1, p.Main, nil) {
		return r
	}
	// tasks are numbered so that a spawner has a smaller index than the spawned task
	for i := range p.Tasks {
		if r.spawner[i] == -2 {
			r.err = fmt.Sprintf("task %d never spawned", i)
			return r
		}
		if !walk(i, p.Tasks[i].Ops, r.params[i]) {
			return r
		}
	}
	r.ok = true
	return r
}

// visible list (global task ids) of a body at each op
func (r *rprog) visibleAt(self int, ops []Op, upto int) []int {
	var vis []int
	if self >= 0 {
		vis = append(vis, r.params[self]...)
	}
	for i := 0; i < upto; i++ {
		if ops[i].K == "spawn" {
			vis = append(vis, ops[i].T)
		}
	}
	return vis
}

// ---- reference results -----------------------------------------------------------

type expect struct {
	values []int          // result of every task
	lines  []string       // all expected stdout lines (order irrelevant)
	pos    map[string]int // filled by the oracle
	// ordering constraints: line a must precede line b
	before [][2]string
	stdout map[string]bool
}

func lineOf(task, op int, acc int) string {
	if task < 0 {
		return fmt.Sprintf("m:%d:%d", op, acc)
	}
	return fmt.Sprintf("t%d:%d:%d", task, op, acc)
}

// model: evaluates the DAG sequentially.
func (r *rprog) model() *expect {
	p := r.p
	e := &expect{values: make([]int, len(p.Tasks))}
	done := make([]bool, len(p.Tasks))
	taskLines := make([][]string, len(p.Tasks)) // printed lines per task, with op index
	taskLineOp := make([][]int, len(p.Tasks))
	failed := func(t int) bool { return p.Tasks[t].Fail }
	var eval func(t int) int
	run := func(self int, ops []Op, k int) (int, []string, []int) {
		acc := k
		var lines []string
		var lops []int
		vis := []int{}
		if self >= 0 {
			vis = append(vis, r.params[self]...)
		}
		for i, o := range ops {
			switch o.K {
			case "work":
				acc = (acc + o.N*(o.N+1)/2) % modulus
			case "print":
				lines = append(lines, lineOf(self, i, acc))
				lops = append(lops, i)
			case "spawn":
				vis = append(vis, o.T)
			case "await":
				v := eval(vis[o.V])
				form := o.Form
				if failed(vis[o.V]) {
					v, form = caughtValue, 0 // the awaiter catches the rethrown :boom (statement form)
				}
				switch form {
				case 1:
					acc = (acc*3 + 7*v + 1) % modulus
				case 2:
					acc = (acc + 2*v) % modulus
				default:
					acc = (acc*31 + v) % modulus
				}
			}
		}
		return acc, lines, lops
	}
	eval = func(t int) int {
		if done[t] {
			return e.values[t]
		}
		v, ls, lo := run(t, p.Tasks[t].Ops, p.Tasks[t].K)
		e.values[t], done[t] = v, true
		taskLines[t], taskLineOp[t] = ls, lo
		return v
	}
	for t := range p.Tasks {
		eval(t)
	}
	_, mainLines, mainLineOp := run(-1, p.Main, 1)
	for _, ls := range taskLines {
		e.lines = append(e.lines, ls...)
	}
	e.lines = append(e.lines, mainLines...)

	// ordering constraints
	linesOf := func(self int) ([]string, []int) {
		if self < 0 {
			return mainLines, mainLineOp
		}
		return taskLines[self], taskLineOp[self]
	}
	addBody := func(self int, ops []Op) {
		ls, lo := linesOf(self)
		for i := 1; i < len(ls); i++ {
			e.before = append(e.before, [2]string{ls[i-1], ls[i]})
		}
		vis := []int{}
		if self >= 0 {
			vis = append(vis, r.params[self]...)
		}
		for i, o := range ops {
			switch o.K {
			case "spawn":
				vis = append(vis, o.T)
				// everything the spawner printed before the spawn precedes the child's lines
				cl, _ := linesOf(o.T)
				for j, l := range ls {
					if lo[j] < i {
						for _, c := range cl {
							e.before = append(e.before, [2]string{l, c})
						}
					}
				}
			case "await":
				// everything the awaited task printed precedes what the awaiter prints afterwards
				al, _ := linesOf(vis[o.V])
				for j, l := range ls {
					if lo[j] > i {
						for _, a := range al {
							e.before = append(e.before, [2]string{a, l})
						}
					}
				}
			}
		}
	}
	addBody(-1, p.Main)
	for t := range p.Tasks {
		addBody(t, p.Tasks[t].Ops)
	}
	return e
}

// checkStdout compares the program's output with the model: same multiset of
// lines (they carry the computed values) and every ordering constraint.
func (e *expect) checkStdout(stdout string) error {
	got := strings.Split(strings.TrimSuffix(stdout, "\n"), "\n")
	if stdout == "" {
		got = nil
	}
	pos := map[string]int{}
	for i, l := range got {
		if _, dup := pos[l]; dup {
			return fmt.Errorf("line %q printed more than once", l)
		}
		pos[l] = i
	}
	want := append([]string{}, e.lines...)
	sort.Strings(want)
	for _, l := range want {
		if _, ok := pos[l]; !ok {
			return fmt.Errorf("expected line %q is missing from the output", l)
		}
	}
	if len(got) != len(want) {
		wantSet := map[string]bool{}
		for _, l := range want {
			wantSet[l] = true
		}
		for _, l := range got {
			if !wantSet[l] {
				return fmt.Errorf("unexpected output line %q", l)
			}
		}
	}
	for _, c := range e.before {
		if pos[c[0]] > pos[c[1]] {
			return fmt.Errorf("line %q was printed after %q, which it must precede", c[0], c[1])
		}
	}
	return nil
}

// ---- Elk source ------------------------------------------------------------------

func (r *rprog) source() string {
	p := r.p
	var b strings.Builder
	body := func(self int, ops []Op, np int, k int, ind string) {
		var visIDs []int
		if self >= 0 {
			visIDs = append(visIDs, r.params[self]...)
		}
		name := func(v int) string {
			if v < np {
				return fmt.Sprintf("a%d", v)
			}
			return fmt.Sprintf("c%d", v-np)
		}
		fmt.Fprintf(&b, "%svar acc = %d\n", ind, k)
		nvis := np
		for i, o := range ops {
			switch o.K {
			case "work":
				fmt.Fprintf(&b, "%svar w%d = 0\n", ind, i)
				fmt.Fprintf(&b, "%sfor i%d in 1...%d then w%d += i%d\n", ind, i, o.N, i, i)
				fmt.Fprintf(&b, "%sacc = (acc + w%d) %% %d\n", ind, i, modulus)
			case "print":
				tag := fmt.Sprintf("t%d", self)
				if self < 0 {
					tag = "m"
				}
				fmt.Fprintf(&b, "%sprintln \"%s:%d:${acc}\"\n", ind, tag, i)
			case "spawn":
				var args []string
				for _, a := range o.Args {
					args = append(args, name(a))
				}
				fmt.Fprintf(&b, "%s%s := t%d(%s)\n", ind, name(nvis), o.T, strings.Join(args, ", "))
				nvis++
				visIDs = append(visIDs, o.T)
			case "await":
				aw := "await " + name(o.V)
				if self < 0 {
					aw = name(o.V) + ".await_sync"
				}
				if p.Tasks[visIDs[o.V]].Fail {
					// the awaited promise is rejected: the error is rethrown by the await and caught here
					fmt.Fprintf(&b, "%sv%d := do\n%s  %s\n%scatch :boom\n%s  %d\n%send\n", ind, i, ind, aw, ind, ind, caughtValue, ind)
					fmt.Fprintf(&b, "%sacc = (acc * 31 + v%d) %% %d\n", ind, i, modulus)
					continue
				}
				switch o.Form {
				case 1:
					// the await is evaluated with operands pending on the value stack
					fmt.Fprintf(&b, "%sacc = (acc * 3 + 7 * (%s) + 1) %% %d\n", ind, aw, modulus)
				case 2:
					// awaited twice inside a loop body (the second await finds the promise settled)
					fmt.Fprintf(&b, "%sfor j%d in 1...2\n%s  acc = (acc + (%s)) %% %d\n%send\n", ind, i, ind, aw, modulus, ind)
				default:
					fmt.Fprintf(&b, "%sv%d := %s\n", ind, i, aw)
					fmt.Fprintf(&b, "%sacc = (acc * 31 + v%d) %% %d\n", ind, i, modulus)
				}
			}
		}
	}
	for t := len(p.Tasks) - 1; t >= 0; t-- {
		tk := p.Tasks[t]
		var ps []string
		for i := 0; i < tk.NP; i++ {
			ps = append(ps, fmt.Sprintf("a%d: Promise[Int]", i))
		}
		sig := ""
		if len(ps) > 0 {
			sig = "(" + strings.Join(ps, ", ") + ")"
		}
		fmt.Fprintf(&b, "async def t%d%s: Int\n", t, sig)
		body(t, tk.Ops, tk.NP, tk.K, "  ")
		if tk.Fail {
			b.WriteString("  throw unchecked :boom if acc >= 0\n")
		}
		b.WriteString("  acc\nend\n")
	}
	body(-1, p.Main, 0, 1, "")
	b.WriteString("nil\n")
	return b.String()
}

// ---- pending bound (input-side exclusion of the bounded-queue finding) -------------

// syncOps: the queue-relevant skeleton of a body
type sop struct {
	spawn bool
	t     int // spawned task / awaited task (global id)
}

func (r *rprog) skeleton(self int, ops []Op) []sop {
	var out []sop
	vis := []int{}
	if self >= 0 {
		vis = append(vis, r.params[self]...)
	}
	for _, o := range ops {
		switch o.K {
		case "spawn":
			vis = append(vis, o.T)
			out = append(out, sop{true, o.T})
		case "await":
			out = append(out, sop{false, vis[o.V]})
			if o.Form == 2 && !r.p.Tasks[vis[o.V]].Fail {
				out = append(out, sop{false, vis[o.V]})
			}
		}
	}
	return out
}

const (
	stNew = iota
	stQueued
	stRunning
	stSuspended
	stDone
	stSettling // result published (await_sync waiters released), continuations still being enqueued one by one
)

// workerSendCanBlock explores an abstraction of the pool (P identical workers,
// queue as a multiset of capacity Q, main blocks harmlessly when the queue is
// full; a settlement first publishes the result - which releases main's
// await_sync - and then sends its continuations one at a time, so main and other
// workers can fill the queue in between) and reports whether
// some schedule exists in which a *pool worker* sends to a full queue — i.e.
// whether the number of simultaneously pending tasks + continuations can exceed
// Q at a worker's send.  That is the precondition of the recorded bounded-queue
// deadlock; programs for which it is false never block a worker on the queue.
// unknown = the state budget was exhausted (treated like "can block").
func (r *rprog) workerSendCanBlock(P, Q int, budget int) (can bool, unknown bool, states int) {
	n := len(r.p.Tasks)
	if n > 14 {
		return true, true, 0
	}
	sk := make([][]sop, n)
	for t := range sk {
		sk[t] = r.skeleton(t, r.p.Tasks[t].Ops)
		if len(sk[t]) > 14 {
			return true, true, 0
		}
	}
	msk := r.skeleton(-1, r.p.Main)
	type state [16]byte // [0..n-1] = status<<4|pc, [15] = main pc
	seen := map[state]struct{}{}
	var stack []state
	var init state
	stack = append(stack, init)
	seen[init] = struct{}{}
	push := func(s state) {
		if _, ok := seen[s]; !ok {
			seen[s] = struct{}{}
			stack = append(stack, s)
		}
	}
	for len(stack) > 0 {
		if len(seen) > budget {
			return true, true, len(seen)
		}
		s := stack[len(stack)-1]
		stack = stack[:len(stack)-1]
		qlen, running := 0, 0
		for t := 0; t < n; t++ {
			switch s[t] >> 4 {
			case stQueued:
				qlen++
			case stRunning, stSettling:
				running++
			}
		}
		settled := func(t int) bool { st := s[t] >> 4; return st == stDone || st == stSettling }
		// main
		if mpc := int(s[15]); mpc < len(msk) {
			o := msk[mpc]
			if o.spawn {
				if qlen < Q {
					ns := s
					ns[o.t] = stQueued << 4
					ns[15]++
					push(ns)
				}
			} else if settled(o.t) {
				ns := s
				ns[15]++
				push(ns)
			}
		}
		for t := 0; t < n; t++ {
			st, pc := s[t]>>4, int(s[t]&15)
			switch st {
			case stQueued:
				if running < P {
					ns := s
					ns[t] = stRunning<<4 | byte(pc)
					push(ns)
				}
			case stRunning:
				if pc < len(sk[t]) {
					o := sk[t][pc]
					if o.spawn {
						if qlen >= Q {
							return true, false, len(seen)
						}
						ns := s
						ns[o.t] = stQueued << 4
						ns[t] = stRunning<<4 | byte(pc+1)
						push(ns)
					} else if settled(o.t) {
						// (a real await would first wait for the settling thread to release the
						// promise lock; letting it pass early only adds schedules)
						ns := s
						ns[t] = stRunning<<4 | byte(pc+1)
						push(ns)
					} else {
						ns := s
						ns[t] = stSuspended<<4 | byte(pc) // resumes after the await at pc
						push(ns)
					}
				} else {
					// finish: publish the result; the continuations are sent afterwards
					ns := s
					ns[t] = stSettling << 4
					push(ns)
				}
			case stSettling:
				// send one continuation (any order), or finish when none is left
				k := 0
				for u := 0; u < n; u++ {
					if s[u]>>4 == stSuspended && sk[u][s[u]&15].t == t {
						k++
						if qlen >= Q {
							return true, false, len(seen)
						}
						ns := s
						ns[u] = stQueued<<4 | (s[u]&15 + 1)
						push(ns)
					}
				}
				if k == 0 {
					ns := s
					ns[t] = stDone << 4
					push(ns)
				}
			}
		}
	}
	return false, false, len(seen)
}
