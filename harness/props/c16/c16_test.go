package c16

import (
	"encoding/json"
	"fmt"
	"os"
	"strings"
	"sync"
	"testing"
	"time"

	"pgregory.net/rapid"

	"verif/internal/pbt"
	sb "verif/internal/sandbox"
	"verif/internal/vgen"
)

func TestMain(m *testing.M) { pbt.Main(m, "C16") }

// known finding (D18): a pool worker that sends to its own full task queue
// (continuations enqueued under the promise lock, tasks spawned from a task)
const kQueue = "bounded-queue-worker-send-deadlock"

type RunCfg struct {
	P    int   `json:"p"`
	Q    int   `json:"q"`
	Seed int64 `json:"seed"`
}

type Case struct {
	Prog Prog     `json:"prog"`
	Runs []RunCfg `json:"runs"`
}

var worker *sb.Worker

var (
	pools    = []int{1, 2, 3}
	poolPick = []int{1, 2, 3, 2} // uniform pick: P=2 twice as likely
	queues   = []int{1, 2, 4, 256}
	works    = []int{1, 3, 20, 200, 2000}
)

// ---- generator ----------------------------------------------------------------------

type pgen struct {
	t     *rapid.T
	left  int // tasks still to create
	style int // 0 mixed, 1 chains (low pending), 2 fan-out bursts, 3 flat (main spawns most), 4 fan-in gadgets
	tasks []Task
}

func (g *pgen) work() Op  { return Op{K: "work", N: works[vgen.Pick(g.t, len(works), "work")]} }
func (g *pgen) form() int { return []int{0, 0, 1, 2}[vgen.Pick(g.t, 4, "form")] }

// pickVisible prefers recently created promises (fan-in on the newest) but can name any
func (g *pgen) pickVisible(n int) int {
	if n <= 1 {
		return 0
	}
	if rapid.Bool().Draw(g.t, "recent") {
		return n - 1 - vgen.Pick(g.t, min(n, 2), "rec")
	}
	return rapid.IntRange(0, n-1).Draw(g.t, "vis")
}

func (g *pgen) body(self int, np int, depth int) []Op {
	var ops []Op
	vis := np
	nops := rapid.IntRange(0, 6).Draw(g.t, "nops")
	if self < 0 {
		nops = rapid.IntRange(1, 6).Draw(g.t, "nmain")
	}
	for i := 0; i < nops || (self < 0 && len(g.tasks) < 2); i++ {
		kind := vgen.Pick(g.t, 8, "kind")
		canSpawn := g.left > 0 && depth < 5
		switch g.style {
		case 1:
			// chain: at most one child, awaited right away
			if canSpawn && kind < 5 {
				ops = append(ops, g.spawn(self, &vis, depth))
				ops = append(ops, Op{K: "await", V: vis - 1, Form: g.form()})
				if self >= 0 {
					nops = 0
				}
				continue
			}
		case 3:
			if self >= 0 {
				canSpawn = canSpawn && kind == 0
			}
		}
		switch {
		case g.style == 4 && kind <= 2 && canSpawn && g.left >= 3:
			ops = append(ops, g.fanIn(&vis)...)
		case kind <= 2 && canSpawn, self < 0 && len(g.tasks) < 2 && canSpawn:
			ops = append(ops, g.spawn(self, &vis, depth))
			if g.style == 2 && g.left > 0 && depth < 5 && rapid.Bool().Draw(g.t, "burst") {
				ops = append(ops, g.spawn(self, &vis, depth))
			}
		case kind <= 5 && vis > 0:
			ops = append(ops, Op{K: "await", V: g.pickVisible(vis), Form: g.form()})
			if self < 0 || rapid.Bool().Draw(g.t, "pr") {
				ops = append(ops, Op{K: "print"})
			}
		case kind == 6:
			ops = append(ops, g.work())
		default:
			ops = append(ops, Op{K: "print"})
		}
	}
	return ops
}

// fanIn: a producer that is still busy (long work, or suspended on a slow child
// of its own) when 2-3 consumers, which received its promise, await it.
func (g *pgen) fanIn(vis *int) []Op {
	var out []Op
	mk := func(np int, args []int, ops []Op) int {
		idx := len(g.tasks)
		g.tasks = append(g.tasks, Task{K: rapid.IntRange(0, 99).Draw(g.t, "k"), NP: np, Ops: ops})
		g.left--
		out = append(out, Op{K: "spawn", T: idx, Args: args})
		*vis++
		return idx
	}
	big := []int{200, 2000, 6000}[vgen.Pick(g.t, 3, "big")]
	if g.left >= 4 && rapid.Bool().Draw(g.t, "producer-suspends") {
		// producer spawns a slow child and awaits it (suspends even with one pool thread)
		pidx := len(g.tasks)
		g.tasks = append(g.tasks, Task{})
		g.left--
		cidx := len(g.tasks)
		g.tasks = append(g.tasks, Task{K: 5, Ops: []Op{{K: "work", N: big}, {K: "print"}}})
		g.left--
		g.tasks[pidx] = Task{K: rapid.IntRange(0, 99).Draw(g.t, "k"), Ops: []Op{{K: "print"}, {K: "spawn", T: cidx}, {K: "await", V: 0, Form: g.form()}, {K: "print"}}}
		out = append(out, Op{K: "spawn", T: pidx})
		*vis++
	} else {
		mk(0, nil, []Op{{K: "work", N: big}, {K: "print"}})
	}
	prod := *vis - 1
	nc := 2 + vgen.Pick(g.t, 2, "consumers")
	for i := 0; i < nc && g.left > 0; i++ {
		ops := []Op{{K: "await", V: 0, Form: g.form()}, {K: "print"}}
		if rapid.Bool().Draw(g.t, "pre") {
			ops = append([]Op{g.work()}, ops...)
		}
		mk(1, []int{prod}, ops)
	}
	return out
}

func (g *pgen) spawn(self int, vis *int, depth int) Op {
	idx := len(g.tasks)
	g.tasks = append(g.tasks, Task{})
	g.left--
	np := 0
	if *vis > 0 {
		np = rapid.IntRange(0, min(*vis, 3)).Draw(g.t, "np")
	}
	args := make([]int, np)
	for i := range args {
		args[i] = g.pickVisible(*vis)
	}
	k := rapid.IntRange(0, 99).Draw(g.t, "k")
	ops := g.body(idx, np, depth+1)
	g.tasks[idx] = Task{K: k, NP: np, Ops: ops, Fail: vgen.Pick(g.t, 8, "fail") == 7}
	*vis++
	return Op{K: "spawn", T: idx, Args: args}
}

func genProg(t *rapid.T) Prog {
	g := &pgen{t: t}
	g.left = 2 + vgen.Pick(t, 11, "ntasks")
	if g.left < 6 && rapid.Bool().Draw(t, "more") {
		g.left += 5
	}
	g.style = []int{0, 1, 2, 3, 4, 4, 0, 2}[vgen.Pick(t, 8, "style")]
	main := g.body(-1, 0, 0)
	p := Prog{Tasks: g.tasks, Main: main}
	complete(&p)
	return p
}

// complete appends, to the spawner of every task that nobody awaits, an await of
// it (so that main cannot end before every task has finished) and a final print
// to main.
func complete(p *Prog) {
	r := resolve(p)
	if !r.ok {
		return
	}
	awaited := make([]bool, len(p.Tasks))
	mark := func(self int, ops []Op) {
		for i, o := range ops {
			if o.K == "await" {
				t := r.visibleAt(self, ops, i)[o.V]
				awaited[t] = true
				if p.Tasks[t].Fail {
					ops[i].Form = 0 // a rejected promise is awaited in statement form inside do/catch
				}
			}
		}
	}
	mark(-1, p.Main)
	for t := range p.Tasks {
		mark(t, p.Tasks[t].Ops)
	}
	for t := len(p.Tasks) - 1; t >= 0; t-- {
		if awaited[t] {
			continue
		}
		s := r.spawner[t]
		ops := &p.Main
		if s >= 0 {
			ops = &p.Tasks[s].Ops
		}
		vis := r.visibleAt(s, *ops, len(*ops))
		for v, id := range vis {
			if id == t {
				*ops = append(*ops, Op{K: "await", V: v})
				break
			}
		}
	}
	p.Main = append(p.Main, Op{K: "print"})
}

func gen(t *rapid.T) Case {
	c := Case{Prog: genProg(t)}
	n := rapid.IntRange(4, 10).Draw(t, "nruns")
	for i := 0; i < n; i++ {
		c.Runs = append(c.Runs, RunCfg{
			P:    poolPick[vgen.Pick(t, len(poolPick), "P")],
			Q:    queues[vgen.Pick(t, len(queues), "Q")],
			Seed: int64(rapid.Uint32Range(1, 1<<31-1).Draw(t, "seed")),
		})
	}
	return c
}

// ---- oracle -------------------------------------------------------------------------

func deadlineMs(scale int) int {
	ms := 4000
	if v := os.Getenv("C16_DEADLINE_MS"); v != "" {
		fmt.Sscan(v, &ms)
	}
	return ms * scale
}

func num(m map[string]any, k string) float64 {
	f, _ := m[k].(float64)
	return f
}

func str(m map[string]any, k string) string {
	s, _ := m[k].(string)
	return s
}

func clip(s string, n int) string {
	if len(s) > n {
		return s[:n] + "…"
	}
	return s
}

func request(src string, runs []RunCfg, scale int) sb.Result {
	var in []string
	for _, r := range runs {
		in = append(in, fmt.Sprintf("%d %d %d %d", r.P, r.Q, r.Seed, deadlineMs(scale)))
	}
	total := time.Duration(len(runs)*(deadlineMs(scale)+1500)+60000) * time.Millisecond
	return worker.Do(sb.Req{Mode: "c16", Source: src, Inputs: in}, total)
}

// hung handles a run that did not finish: candidate deadlock -> one confirmation
// run of the same (program, P, Q, seed) with a three times longer deadline.
func hung(src string, rc RunCfg, run sb.Run, ctx *pbt.Ctx) error {
	worker.Close() // the process still holds the stuck goroutines
	dl, why := classifyHang(run.Goroutines, num(run.Extra, "events1"), num(run.Extra, "events2"), run.Extra["finished_late"] == true)
	if !dl {
		ctx.Label("hang:inconclusive")
		ctx.Note("not finished before the deadline, not a deadlock: " + why)
		pbt.Inconclusive()
		return nil
	}
	ctx.Label("hang:deadlock-candidate")
	res := request(src, []RunCfg{rc}, 3)
	if res.TimedOut || res.Died || len(res.Resp.Runs) != 1 {
		worker.Close()
		ctx.Label("hang:confirmation-failed")
		pbt.Inconclusive()
		return nil
	}
	r2 := res.Resp.Runs[0]
	if r2.Extra["hung"] != true {
		ctx.Label("hang:not-reproduced")
		pbt.Inconclusive()
		return nil
	}
	worker.Close()
	dl2, why2 := classifyHang(r2.Goroutines, num(r2.Extra, "events1"), num(r2.Extra, "events2"), r2.Extra["finished_late"] == true)
	if !dl2 {
		ctx.Label("hang:confirmation-inconclusive")
		ctx.Note("confirmation run: " + why2)
		pbt.Inconclusive()
		return nil
	}
	i := strings.Index(r2.Goroutines, dumpMarker)
	return fmt.Errorf("DEADLOCK with pool=%d queue=%d seed=%d: the program did not terminate although every task terminates; in two goroutine dumps taken 1 s apart (and again in a confirmation run with a 3x deadline) every VM goroutine is parked with unchanged stacks and no hook event happened in between\n%s--- stdout so far\n%s--- hook trace (goroutine point promise task)\n%s",
		rc.P, rc.Q, rc.Seed, clip(vmStacks(r2.Goroutines[:i]), 3500), clip(r2.Stdout, 600), clip(str(r2.Extra, "trace"), 1500))
}

// failures observed for a case are remembered for the lifetime of the process:
// the verdict of a case is then stable although real goroutine scheduling is
// not (rapid re-executes the minimal failing case once more at the end).
var (
	failMu sync.Mutex
	failed = map[string]error{}
)

func oracle(c Case, ctx *pbt.Ctx) error {
	kb, _ := json.Marshal(c)
	key := string(kb)
	failMu.Lock()
	prev := failed[key]
	failMu.Unlock()
	if prev != nil {
		return prev
	}
	reps := 1
	if ctx.Replay {
		reps = 8 // a saved case fixes program, configuration and seed, not the OS schedule
	}
	var err error
	for i := 0; i < reps && err == nil; i++ {
		err = oracle1(c, ctx)
	}
	if err != nil {
		failMu.Lock()
		failed[key] = err
		failMu.Unlock()
	}
	return err
}

func oracle1(c Case, ctx *pbt.Ctx) error {
	r := resolve(&c.Prog)
	if !r.ok {
		return fmt.Errorf("GENERATOR: malformed program: %s", r.err)
	}
	if len(c.Prog.Tasks) > 14 {
		return fmt.Errorf("GENERATOR: too many tasks")
	}
	src := r.source()
	exp := r.model()
	ctx.Label(fmt.Sprintf("tasks:%d", len(c.Prog.Tasks)))

	// exclusion of the recorded bounded-queue finding, per (P, Q)
	var runs, zone []RunCfg
	type pq struct{ p, q int }
	memo := map[pq]int{}
	for _, rc := range c.Runs {
		if rc.Q < 256 && pbt.KnownActive(kQueue) {
			k := pq{rc.P, rc.Q}
			v, ok := memo[k]
			if !ok {
				can, unknown, _ := r.workerSendCanBlock(rc.P, rc.Q, 60000)
				switch {
				case unknown:
					v = 2
				case can:
					v = 1
				}
				memo[k] = v
			}
			if v != 0 {
				ctx.Excluded(kQueue)
				if v == 1 && rc.P >= 2 {
					zone = append(zone, rc)
				}
				if v == 2 {
					ctx.Label("excluded:bound-unknown")
				} else {
					ctx.Label(fmt.Sprintf("excluded:P%d/Q%d", rc.P, rc.Q))
				}
				continue
			}
		}
		runs = append(runs, rc)
	}
	if len(runs) == 0 {
		ctx.Label("all-runs-excluded")
		if len(zone) > 0 && len(src)%3 == 0 {
			return zoneRun(src, zone[0], exp, ctx)
		}
		return nil
	}

	res := request(src, runs, 1)
	if res.TimedOut {
		ctx.Label("outcome:client-timeout")
		pbt.Inconclusive()
		return nil
	}
	if res.Died {
		_, detail := sb.Classify(res)
		return fmt.Errorf("interpreter process died while running the program under %v:\n%s", runs, clip(detail, 2500))
	}
	if res.Resp.Err != "" || len(res.Resp.Runs) == 0 {
		return fmt.Errorf("GENERATOR: worker error %q", res.Resp.Err)
	}
	if r0 := res.Resp.Runs[0]; !r0.Accepted {
		var ds []string
		for _, d := range r0.Diags {
			if d.Severity == "FAIL" {
				ds = append(ds, fmt.Sprintf("%d:%d %s", d.Line, d.Col, d.Msg))
			}
		}
		return fmt.Errorf("GENERATOR: program rejected by the checker: %s\n%s", strings.Join(ds, " | "), src)
	}
	nontrivial := false
	for i, run := range res.Resp.Runs {
		rc := runs[i]
		tag := fmt.Sprintf("pool=%d queue=%d seed=%d", rc.P, rc.Q, rc.Seed)
		ctx.Label(fmt.Sprintf("run:P%d/Q%d", rc.P, rc.Q))
		if run.Extra["hung"] == true {
			// the recorded prefix of the history is judged first: a protocol violation
			// in it is a verdict that does not depend on how the hang is classified
			if ev, err := parseTrace(str(run.Extra, "trace")); err == nil {
				if _, err := checkTracePrefix(ev); err != nil {
					worker.Close()
					return fmt.Errorf("hook trace violates the await protocol and the program did not terminate (%s): %v\n--- trace (goroutine point promise task)\n%s", tag, err, clip(str(run.Extra, "trace"), 3000))
				}
			}
			return hung(src, rc, run, ctx)
		}
		if run.Panic != "" {
			return fmt.Errorf("Go panic on the main VM thread (%s): %s", tag, clip(run.Panic, 2000))
		}
		if run.ErrClass != "" {
			return fmt.Errorf("uncaught Elk error (%s): %s %s", tag, run.ErrClass, clip(run.ErrInspect, 500))
		}
		if err := exp.checkStdout(run.Stdout); err != nil {
			return fmt.Errorf("results differ from the model (%s): %v\n--- stdout\n%s--- trace\n%s", tag, err, clip(run.Stdout, 1500), clip(str(run.Extra, "trace"), 1500))
		}
		if run.Extra["quiescent"] != true {
			// the pool threads did not leave the settle path within 2 s: load, not a verdict
			ctx.Label("trace:not-quiescent")
			continue
		}
		ev, err := parseTrace(str(run.Extra, "trace"))
		if err != nil {
			return fmt.Errorf("GENERATOR: %v", err)
		}
		facts, err := checkTrace(ev, len(c.Prog.Tasks))
		if err != nil {
			return fmt.Errorf("hook trace violates the await protocol (%s): %v\n--- trace (goroutine point promise task)\n%s", tag, err, clip(str(run.Extra, "trace"), 3000))
		}
		if facts.resumed > 0 && num(run.Extra, "delays") > 0 {
			nontrivial = true
			ctx.Label("suspended-and-resumed")
		}
		switch {
		case facts.fanIn >= 2:
			ctx.Label("fan-in>=2")
		}
		if facts.fastAwaits > 0 {
			ctx.Label("await-of-settled-promise")
		}
		if rc.Q < 256 && facts.resumed > 0 {
			ctx.Label(fmt.Sprintf("resumed-at-Q%d", rc.Q))
		}
	}
	if len(res.Resp.Runs) != len(runs) {
		return fmt.Errorf("GENERATOR: %d of %d runs answered", len(res.Resp.Runs), len(runs))
	}
	if nontrivial {
		ctx.NonTrivial(src)
	}
	if len(zone) > 0 && len(src)%3 == 0 {
		return zoneRun(src, zone[0], exp, ctx)
	}
	return nil
}

// zoneRun executes one run inside the region that is excluded for the recorded bounded-queue finding
// (a pool worker may have to send to a full queue) with a narrower verdict: the recorded deadlock is
// recognised by its signature (a VM goroutine parked in a channel send while the others wait) and
// counted as excluded; wrong results, or a confirmed standstill in which NO goroutine is sending (a
// continuation or task was lost, not stuck), are violations also here.
func zoneRun(src string, rc RunCfg, exp *expect, ctx *pbt.Ctx) error {
	ctx.Label(fmt.Sprintf("zone-run:P%d/Q%d", rc.P, rc.Q))
	tag := fmt.Sprintf("pool=%d queue=%d seed=%d (inside the bounded-queue region)", rc.P, rc.Q, rc.Seed)
	res := request(src, []RunCfg{rc}, 1)
	if res.TimedOut || res.Resp.Err != "" || len(res.Resp.Runs) != 1 {
		pbt.Inconclusive()
		return nil
	}
	if res.Died {
		_, detail := sb.Classify(res)
		return fmt.Errorf("interpreter process died while running the program under %s:\n%s", tag, clip(detail, 2500))
	}
	run := res.Resp.Runs[0]
	if run.Extra["hung"] != true {
		if run.Panic != "" {
			return fmt.Errorf("Go panic on the main VM thread (%s): %s", tag, clip(run.Panic, 2000))
		}
		if run.ErrClass == "" {
			if err := exp.checkStdout(run.Stdout); err != nil {
				return fmt.Errorf("results differ from the model (%s): %v\n--- stdout\n%s", tag, err, clip(run.Stdout, 1500))
			}
		}
		ctx.Label("zone-run:finished")
		return nil
	}
	worker.Close()
	dl, _ := classifyHang(run.Goroutines, num(run.Extra, "events1"), num(run.Extra, "events2"), run.Extra["finished_late"] == true)
	if !dl {
		pbt.Inconclusive()
		return nil
	}
	i := strings.Index(run.Goroutines, dumpMarker)
	stacks := vmStacks(run.Goroutines[:i])
	if strings.Contains(run.Goroutines[:i], "chan send") {
		ctx.Label("zone-run:recorded-deadlock")
		return nil
	}
	// nobody is sending: confirm once with a longer deadline
	res2 := request(src, []RunCfg{rc}, 3)
	if res2.TimedOut || res2.Died || len(res2.Resp.Runs) != 1 || res2.Resp.Runs[0].Extra["hung"] != true {
		worker.Close()
		pbt.Inconclusive()
		return nil
	}
	r2 := res2.Resp.Runs[0]
	worker.Close()
	dl2, _ := classifyHang(r2.Goroutines, num(r2.Extra, "events1"), num(r2.Extra, "events2"), r2.Extra["finished_late"] == true)
	j := strings.Index(r2.Goroutines, dumpMarker)
	if !dl2 || j < 0 || strings.Contains(r2.Goroutines[:j], "chan send") {
		pbt.Inconclusive()
		return nil
	}
	return fmt.Errorf("LOST WAKE-UP with %s: the program stands still although every task terminates, and no VM goroutine is blocked in a channel send (so this is not the recorded bounded-queue deadlock): a task or continuation was dropped; confirmed by a second run with a 3x deadline\n%s--- stdout so far\n%s", tag, clip(stacks, 3500), clip(run.Stdout, 600))
}

func TestAwait(t *testing.T) {
	pbt.Rule("await_dag", "generated promise DAG programs (2-12 async tasks in four styles: mixed, chains, fan-out/fan-in bursts, flat; tasks spawn tasks, pass promises on, await 0-n promises as statement / with pending operands / in a loop, busy work of 1-2000 iterations; main await_syncs its promises) x 4-10 runs each with pool size in {1,2,3}, queue size in {1,2,4,256} and an H2 schedule seed (seeded yields/sleeps at the await lock/check/suspend, register/unlock and settle lock/publish/enqueue points); stdout (values and happens-before order) must equal the sequential model, the program must terminate (deadlock = all VM goroutines parked, unchanged, confirmed by a second run), and the hook trace must show every promise settling once and every suspended continuation enqueued exactly once after the publish and run once after the enqueue; runs whose (program, P, Q) lets a pool worker send to a full queue are excluded as the recorded finding; non-trivial = a run in which a task really suspended and was resumed under a non-empty delay schedule; distinct by source")
	worker = sb.New("")
	defer worker.Close()
	pbt.Run(t, pbt.Prop[Case]{Name: "await_dag", Quick: 2400, Thorough: 30000, Gen: gen, Oracle: oracle,
		Sample: func(c Case) any {
			r := resolve(&c.Prog)
			if !r.ok {
				return c
			}
			return map[string]any{"src": r.source(), "runs": c.Runs}
		}})
}
