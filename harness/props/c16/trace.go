package c16

import (
	"fmt"
	"regexp"
	"sort"
	"strconv"
	"strings"
)

// hook points (vm/verif_hooks.go)
const (
	ptAwaitEnter = iota
	ptAwaitLocked
	ptAwaitSuspend
	ptAwaitFast
	ptTaskRun
	ptRegister
	ptRegistered
	ptUnlocked
	ptSettleEnter
	ptSettleLocked
	ptSettlePublished
	ptEnqueue
	ptSettleEnqueued
	ptSettleDone
)

type event struct{ g, pt, p, t int }

func parseTrace(s string) ([]event, error) {
	if s == "" {
		return nil, nil
	}
	parts := strings.Split(s, "|")
	out := make([]event, 0, len(parts))
	for _, x := range parts {
		f := strings.Fields(x)
		if len(f) != 4 {
			return nil, fmt.Errorf("bad trace entry %q", x)
		}
		var v [4]int
		for i := range f {
			n, err := strconv.Atoi(f[i])
			if err != nil {
				return nil, err
			}
			v[i] = n
		}
		out = append(out, event{v[0], v[1], v[2], v[3]})
	}
	return out, nil
}

type traceFacts struct {
	suspensions int // continuations registered
	resumed     int // suspend -> settle -> enqueue -> run chains completed
	fastAwaits  int
	fanIn       int // largest number of continuations enqueued by one settlement
	tasks       int
}

type pt2 struct{ p, t int }

// checkTrace validates the history recorded by the hooks of one completed run:
// every promise settles exactly once; a continuation is registered only on an
// unsettled promise, is enqueued exactly once, after that promise's result was
// published, and the task is run once per start/enqueue, after the enqueue.
func checkTrace(ev []event, ntasks int) (traceFacts, error) {
	return checkTraceN(ev, ntasks, true)
}

// checkTracePrefix applies only the checks that hold for every prefix of a
// history (used for runs that did not finish).
func checkTracePrefix(ev []event) (traceFacts, error) {
	return checkTraceN(ev, 0, false)
}

func checkTraceN(ev []event, ntasks int, complete bool) (traceFacts, error) {
	var f traceFacts
	published := map[int]int{}   // promise -> index of the publish event
	nPublished := map[int]int{}  // promise -> count
	registered := map[pt2]int{}  // (p,t) -> count
	regIndex := map[pt2]int{}    // (p,t) -> index
	enqueued := map[pt2]int{}    // (p,t) -> count
	pendingRuns := map[int]int{} // task -> enqueues not yet consumed by a run
	runs := map[int]int{}        // task -> number of TaskRun events
	susp := map[int]int{}        // task -> number of suspensions
	lastOfG := map[int]event{}   // goroutine -> previous event
	perSettle := map[int]int{}
	for i, e := range ev {
		prev, hasPrev := lastOfG[e.g]
		switch e.pt {
		case ptAwaitFast:
			f.fastAwaits++
			if _, ok := published[e.p]; !ok {
				return f, fmt.Errorf("trace[%d]: await took the already-resolved path on promise #%d before its result was published", i, e.p)
			}
		case ptRegister:
			if !hasPrev || prev.pt != ptAwaitSuspend || prev.p != e.p {
				return f, fmt.Errorf("trace[%d]: continuation registration on promise #%d not preceded by the suspension of an await on it on the same thread", i, e.p)
			}
		case ptRegistered:
			k := pt2{e.p, e.t}
			if _, ok := published[e.p]; ok {
				return f, fmt.Errorf("trace[%d]: task #%d registered as continuation of promise #%d after that promise had settled (lost wake-up)", i, e.t, e.p)
			}
			registered[k]++
			regIndex[k] = i
			susp[e.t]++
			f.suspensions++
		case ptSettlePublished:
			nPublished[e.p]++
			if nPublished[e.p] > 1 {
				return f, fmt.Errorf("trace[%d]: promise #%d settled %d times", i, e.p, nPublished[e.p])
			}
			published[e.p] = i
		case ptEnqueue:
			k := pt2{e.p, e.t}
			if _, ok := published[e.p]; !ok {
				return f, fmt.Errorf("trace[%d]: continuation #%d of promise #%d enqueued before the promise's result was published", i, e.t, e.p)
			}
			enqueued[k]++
			if enqueued[k] > registered[k] {
				return f, fmt.Errorf("trace[%d]: continuation #%d of promise #%d enqueued %d times for %d suspension(s)", i, e.t, e.p, enqueued[k], registered[k])
			}
			pendingRuns[e.t]++
			perSettle[e.p]++
			if perSettle[e.p] > f.fanIn {
				f.fanIn = perSettle[e.p]
			}
		case ptTaskRun:
			runs[e.t]++
			if runs[e.t] > 1 {
				if pendingRuns[e.t] == 0 {
					return f, fmt.Errorf("trace[%d]: task #%d resumed without a preceding enqueue of its continuation (resumed twice?)", i, e.t)
				}
				pendingRuns[e.t]--
				f.resumed++
			}
		}
		lastOfG[e.g] = e
	}
	if !complete {
		return f, nil
	}
	for k, n := range registered {
		if enqueued[k] != n {
			return f, fmt.Errorf("task #%d suspended on promise #%d (trace[%d]) but its continuation was enqueued %d time(s)", k.t, k.p, regIndex[k], enqueued[k])
		}
	}
	for t, n := range runs {
		if n != 1+susp[t] {
			return f, fmt.Errorf("task #%d was run %d times for %d suspension(s)", t, n, susp[t])
		}
		if nPublished[t] != 1 {
			return f, fmt.Errorf("task promise #%d settled %d times", t, nPublished[t])
		}
	}
	f.tasks = len(runs)
	if len(runs) != ntasks {
		return f, fmt.Errorf("%d tasks were started on pool threads, the program has %d", len(runs), ntasks)
	}
	return f, nil
}

// ---- goroutine dumps ---------------------------------------------------------------

type gor struct {
	id    int
	state string
	vm    bool
	sig   string
}

var (
	reHeader = regexp.MustCompile(`^goroutine (\d+) (?:gp=\S+ m=\S+ (?:mp=\S+ )?)?\[([^\]]*)\]:`)
	reArgs   = regexp.MustCompile(`\([^()]*\)$`)
)

func parseDump(s string) []gor {
	var out []gor
	for _, blk := range strings.Split(s, "\n\n") {
		lines := strings.Split(strings.TrimSpace(blk), "\n")
		if len(lines) == 0 {
			continue
		}
		m := reHeader.FindStringSubmatch(lines[0])
		if m == nil {
			continue
		}
		id, _ := strconv.Atoi(m[1])
		state := m[2]
		if i := strings.IndexByte(state, ','); i >= 0 {
			state = state[:i]
		}
		g := gor{id: id, state: strings.TrimSpace(state)}
		var fns []string
		for _, l := range lines[1:] {
			if strings.HasPrefix(l, "\t") || strings.HasPrefix(l, "created by") {
				continue
			}
			fn := reArgs.ReplaceAllString(strings.TrimSpace(l), "")
			fns = append(fns, fn)
			if strings.HasPrefix(fn, "github.com/elk-language/elk/vm.") {
				g.vm = true
			}
		}
		g.sig = fmt.Sprintf("%d|%s|%s", g.id, g.state, strings.Join(fns, ";"))
		out = append(out, g)
	}
	return out
}

var parkedStates = map[string]bool{
	"chan send": true, "chan receive": true, "select": true,
	"sync.Mutex.Lock": true, "sync.RWMutex.Lock": true, "sync.RWMutex.RLock": true,
	"sync.WaitGroup.Wait": true, "sync.Cond.Wait": true, "semacquire": true,
	"chan send (nil chan)": true, "chan receive (nil chan)": true, "select (no cases)": true,
}

// vmParked: every goroutine with an elk/vm frame is parked on a channel, mutex,
// condition or wait group.  Returns the signatures of those goroutines.
func vmParked(dump string) (sigs []string, ok bool, why string) {
	gs := parseDump(dump)
	n := 0
	for _, g := range gs {
		if !g.vm {
			continue
		}
		n++
		if !parkedStates[g.state] {
			return nil, false, fmt.Sprintf("goroutine %d is %q", g.id, g.state)
		}
		sigs = append(sigs, g.sig)
	}
	if n == 0 {
		return nil, false, "no VM goroutine in the dump"
	}
	sort.Strings(sigs)
	return sigs, true, ""
}

const dumpMarker = "\n=====C16 SECOND DUMP=====\n"

// classifyHang decides a run that did not finish before its deadline from the
// two goroutine dumps (1 s apart) and the hook event counters: a deadlock only
// if all VM goroutines are parked with identical stacks in both dumps and no
// hook event happened in between.  Everything else is inconclusive.
func classifyHang(goroutines string, events1, events2 float64, finishedLate bool) (deadlock bool, why string) {
	if finishedLate {
		return false, "finished after the deadline"
	}
	i := strings.Index(goroutines, dumpMarker)
	if i < 0 {
		return false, "no second dump"
	}
	d1, d2 := goroutines[:i], goroutines[i+len(dumpMarker):]
	s1, ok1, why1 := vmParked(d1)
	if !ok1 {
		return false, "first dump: " + why1
	}
	s2, ok2, why2 := vmParked(d2)
	if !ok2 {
		return false, "second dump: " + why2
	}
	if events1 != events2 {
		return false, "hook events between the dumps"
	}
	if strings.Join(s1, "\n") != strings.Join(s2, "\n") {
		return false, "stacks changed between the dumps"
	}
	return true, ""
}

// vmStacks renders the parked VM goroutines of a dump compactly (for reports).
func vmStacks(dump string) string {
	var b strings.Builder
	for _, blk := range strings.Split(dump, "\n\n") {
		if strings.Contains(blk, "github.com/elk-language/elk/vm.") && reHeader.MatchString(strings.TrimSpace(blk)) {
			lines := strings.Split(strings.TrimSpace(blk), "\n")
			b.WriteString(lines[0] + "\n")
			k := 0
			for _, l := range lines[1:] {
				if !strings.HasPrefix(l, "\t") {
					b.WriteString("   " + reArgs.ReplaceAllString(l, "") + "\n")
					k++
					if k >= 7 {
						break
					}
				}
			}
		}
	}
	return b.String()
}

func sortStrings(s []string) { sort.Strings(s) }
