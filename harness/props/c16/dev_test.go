package c16

import (
	"encoding/json"
	"fmt"
	"os"
	"testing"
	"time"

	"pgregory.net/rapid"
)

// developer aid: C16_DEV=1 go test -run TestGenStats -v
func TestGenStats(t *testing.T) {
	if os.Getenv("C16_DEV") == "" {
		t.Skip()
	}
	hist := map[string]int{}
	n := 0
	var worst time.Duration
	maxStates := 0
	rapid.Check(t, func(rt *rapid.T) {
		p := genProg(rt)
		r := resolve(&p)
		if !r.ok {
			rt.Fatalf("bad: %s", r.err)
		}
		r.model()
		n++
		if n <= 3 {
			fmt.Println(r.source())
		}
		hist[fmt.Sprintf("tasks:%02d", len(p.Tasks))]++
		for _, P := range pools {
			for _, Q := range queues[:3] {
				t0 := time.Now()
				can, unk, st := r.workerSendCanBlock(P, Q, 60000)
				if d := time.Since(t0); d > worst {
					worst = d
				}
				if st > maxStates {
					maxStates = st
				}
				k := "ok"
				if unk {
					k = "unknown"
				} else if can {
					k = "excluded"
				}
				hist[fmt.Sprintf("P%d/Q%d:%s", P, Q, k)]++
			}
		}
	})
	fmt.Println("programs", n, "worst explore", worst, "max states", maxStates)
	var keys []string
	for k := range hist {
		keys = append(keys, k)
	}
	sortStrings(keys)
	for _, k := range keys {
		fmt.Printf("%-22s %d\n", k, hist[k])
	}
}

// developer aid: C16_CASE=<replay file> go test -run TestBoundOfCase -v
func TestBoundOfCase(t *testing.T) {
	f := os.Getenv("C16_CASE")
	if f == "" {
		t.Skip()
	}
	b, err := os.ReadFile(f)
	if err != nil {
		t.Fatal(err)
	}
	var rf struct {
		Case Case `json:"case"`
	}
	if err := json.Unmarshal(b, &rf); err != nil {
		t.Fatal(err)
	}
	r := resolve(&rf.Case.Prog)
	for _, rc := range rf.Case.Runs {
		can, unk, st := r.workerSendCanBlock(rc.P, rc.Q, 60000)
		fmt.Printf("P=%d Q=%d can=%v unknown=%v states=%d\n", rc.P, rc.Q, can, unk, st)
	}
}
