package c12

import (
	"encoding/json"
	"fmt"
	"regexp"
	"sort"
	"strings"
	"testing"
	"time"

	"pgregory.net/rapid"

	"verif/internal/mini"
	"verif/internal/mrun"
	"verif/internal/pbt"
	sb "verif/internal/sandbox"
	"verif/internal/vgen"
)

func TestMain(m *testing.M) { pbt.Main(m, "C12") }

var worker *sb.Worker

// Edit describes one meaning-preserving edit; all positions are indices into a
// deterministic preorder enumeration of the program, so a case replays from JSON.
type Edit struct {
	Kind string `json:"kind"` // unused_local | unused_closure0 | unused_closure1 | rename | parens | swap_defs
	A    int    `json:"a"`    // block / expression / name / method index (modulo the number available)
	B    int    `json:"b"`    // statement position inside the block / second method
}

type Case struct {
	Prog *mini.Program `json:"prog"`
	// Break > 0: a type error is injected first (the program is then rejected before and after the edit)
	Break int    `json:"break"`
	BPos  int    `json:"bpos"`
	Edits []Edit `json:"edits"`
	// hand-written regression seeds: a raw (before, after) pair instead of a program and edits
	RawBefore string `json:"raw_before,omitempty"`
	RawAfter  string `json:"raw_after,omitempty"`
}

func clone(p *mini.Program) *mini.Program {
	b, _ := json.Marshal(p)
	var q mini.Program
	_ = json.Unmarshal(b, &q)
	return &q
}

// blocks enumerates every statement block into which a statement may be inserted.
func blocks(p *mini.Program) []*[]*mini.N {
	var out []*[]*mini.N
	var walk func(b *[]*mini.N)
	walk = func(b *[]*mini.N) {
		out = append(out, b)
		for _, s := range *b {
			if s.K == "defer" {
				continue // a defer body is a single statement
			}
			for i := range s.B {
				walk(&s.B[i])
			}
		}
	}
	for _, m := range p.Methods {
		walk(&m.B[0])
	}
	walk(&p.Main)
	return out
}

// exprSlots enumerates pointers to expression operands (children of expressions and of statements).
func exprSlots(p *mini.Program) []**mini.N {
	var out []**mini.N
	var ex func(n *mini.N)
	ex = func(n *mini.N) {
		for i := range n.C {
			if n.C[i] == nil || n.K == "csym" {
				continue
			}
			if n.K == "range" || n.K == "forin" || n.K == "fornum" {
				// loop headers are printed without parentheses support: `for i in (1...3)` is fine, fornum bounds are literals
				if n.K == "fornum" {
					continue
				}
			}
			out = append(out, &n.C[i])
			ex(n.C[i])
		}
	}
	var walk func(b []*mini.N)
	walk = func(b []*mini.N) {
		for _, s := range b {
			ex(s)
			for _, bb := range s.B {
				walk(bb)
			}
		}
	}
	for _, m := range p.Methods {
		walk(m.B[0])
	}
	walk(p.Main)
	return out
}

var nameRe = regexp.MustCompile(`\b([vkcpfhiqse][0-9]+)\b`)

// names returns the local / parameter / closure names occurring in the source.
func names(src string) []string {
	seen := map[string]bool{}
	var out []string
	for _, m := range nameRe.FindAllString(src, -1) {
		if !seen[m] {
			seen[m] = true
			out = append(out, m)
		}
	}
	sort.Strings(out)
	return out
}

func apply(c Case) (before, after string, renames [][2]string, kinds []string) {
	if c.Prog == nil {
		return c.RawBefore, c.RawAfter, nil, []string{"raw"}
	}
	base := clone(c.Prog)
	if c.Break > 0 {
		// a type error: an Int variable initialised with a String (or an undefined name), at a generated position
		bl := blocks(base)
		b := bl[c.BPos%len(bl)]
		// (printed as `var zbad1: Int? = "oops"`)
		bad := &mini.N{K: "decl", S: "zbad1", T: mini.TNInt, C: []*mini.N{{K: "str", S: "oops", T: mini.TStr}}}
		if c.Break == 2 {
			bad = &mini.N{K: "print", C: []*mini.N{{K: "var", S: "zundefined9", T: mini.TInt}}}
		}
		*b = append([]*mini.N{bad}, *b...)
	}
	before = base.Source()
	p := clone(base)
	fresh := 0
	for _, e := range c.Edits {
		switch e.Kind {
		case "unused_local", "unused_closure0", "unused_closure1":
			bl := blocks(p)
			b := bl[e.A%len(bl)]
			if len(*b) == 0 {
				continue
			}
			pos := e.B % len(*b) // before an existing statement: never the final position of a block
			fresh++
			var st *mini.N
			switch e.Kind {
			case "unused_local":
				st = &mini.N{K: "decl", S: fmt.Sprintf("zu%d", fresh), T: mini.TInt, C: []*mini.N{{K: "int", I: 5, T: mini.TInt}}}
			case "unused_closure0":
				st = &mini.N{K: "closure", S: fmt.Sprintf("zu%d", fresh), T: mini.TFn0, B: [][]*mini.N{{{K: "expr", C: []*mini.N{{K: "int", I: 1, T: mini.TInt}}}}}}
			default:
				pn := fmt.Sprintf("zx%d", fresh)
				st = &mini.N{K: "closure", S: fmt.Sprintf("zu%d", fresh), T: mini.TFn1, X: []*mini.N{{K: "param", S: pn, T: mini.TInt}},
					B: [][]*mini.N{{{K: "expr", C: []*mini.N{{K: "var", S: pn, T: mini.TInt}}}}}}
			}
			nb := append([]*mini.N{}, (*b)[:pos]...)
			nb = append(nb, st)
			nb = append(nb, (*b)[pos:]...)
			*b = nb
			kinds = append(kinds, e.Kind)
		case "parens":
			sl := exprSlots(p)
			if len(sl) == 0 {
				continue
			}
			s := sl[e.A%len(sl)]
			*s = &mini.N{K: "paren", T: (*s).T, C: []*mini.N{*s}}
			kinds = append(kinds, e.Kind)
		case "swap_defs":
			if len(p.Methods) < 2 {
				continue
			}
			i, j := e.A%len(p.Methods), e.B%len(p.Methods)
			if i == j {
				j = (i + 1) % len(p.Methods)
			}
			p.Methods[i], p.Methods[j] = p.Methods[j], p.Methods[i]
			kinds = append(kinds, e.Kind)
		}
	}
	after = p.Source()
	// consistent renaming on the text: generated names are unique tokens (no shadowing), so replacing
	// every occurrence of one name by a fresh one is a faithful alpha-renaming
	for _, e := range c.Edits {
		if e.Kind != "rename" {
			continue
		}
		ns := names(after)
		if len(ns) == 0 {
			continue
		}
		old := ns[e.A%len(ns)]
		fresh++
		nw := fmt.Sprintf("zr%d_%s", fresh, old)
		after = regexp.MustCompile(`\b`+old+`\b`).ReplaceAllString(after, nw)
		renames = append(renames, [2]string{old, nw})
		kinds = append(kinds, "rename")
	}
	return
}

func diagMsgs(r sb.Run, renames [][2]string) []string {
	var out []string
	for _, d := range r.Diags {
		if d.Severity != "FAIL" {
			continue
		}
		m := d.Msg
		for _, rn := range renames {
			m = regexp.MustCompile(`\b`+rn[0]+`\b`).ReplaceAllString(m, rn[1])
		}
		out = append(out, m)
	}
	sort.Strings(out)
	return out
}

func oracle(c Case, ctx *pbt.Ctx) error {
	before, after, renames, kinds := apply(c)
	if len(kinds) == 0 || before == after {
		ctx.Label("no_edit_applicable")
		return nil
	}
	r1 := worker.Do(sb.Req{Mode: "run", Source: before}, 30*time.Second)
	r2 := worker.Do(sb.Req{Mode: "run", Source: after}, 30*time.Second)
	c1, d1 := sb.Classify(r1)
	c2, d2 := sb.Classify(r2)
	if c1 == sb.Timeout || c2 == sb.Timeout {
		pbt.Inconclusive()
		return nil
	}
	for _, k := range kinds {
		ctx.Label("edit:" + k)
	}
	ctx.Label("verdict:" + c1)
	show := func() string {
		return fmt.Sprintf("edits %v\n--- before\n%s--- after\n%s", kinds, mrun.Clip(before, 2500), mrun.Clip(after, 2500))
	}
	if c1 == sb.Fatal || c1 == sb.GoPanic || c2 == sb.Fatal || c2 == sb.GoPanic {
		if c1 != c2 {
			return fmt.Errorf("the edit changes the outcome: before %s, after %s\n%s\n%s\n%s", c1, c2, show(), mrun.Clip(d1, 600), mrun.Clip(d2, 600))
		}
		ctx.Label("both_crash")
		return nil // crashes are C01's business
	}
	if c.Break == 0 && c1 == sb.Rejected {
		return fmt.Errorf("GENERATOR: well-typed-by-construction program rejected by the checker: %v\n%s", diagMsgs(r1.Resp.Runs[0], nil), mrun.Clip(before, 2500))
	}
	if (c1 == sb.Rejected) != (c2 == sb.Rejected) {
		msgs := diagMsgs(r2.Resp.Runs[0], nil)
		if c1 == sb.Rejected {
			msgs = diagMsgs(r1.Resp.Runs[0], nil)
		}
		return fmt.Errorf("the edit changes the type-checking verdict: before %s, after %s; diagnostics: %v\n%s", c1, c2, msgs, show())
	}
	if c1 == sb.Rejected {
		m1, m2 := diagMsgs(r1.Resp.Runs[0], renames), diagMsgs(r2.Resp.Runs[0], nil)
		if strings.Join(m1, "\n") != strings.Join(m2, "\n") {
			return fmt.Errorf("the edit changes the diagnostics: before %v, after %v\n%s", m1, m2, show())
		}
	} else {
		a, b := r1.Resp.Runs[0], r2.Resp.Runs[0]
		if a.Stdout != b.Stdout || a.ErrInspect != b.ErrInspect || c1 != c2 {
			return fmt.Errorf("the edit changes the behaviour: stdout/err before (%q, %q) after (%q, %q): first difference %s\n%s", mrun.Clip(a.Stdout, 300), a.ErrInspect, mrun.Clip(b.Stdout, 300), b.ErrInspect, mrun.FirstDiff(a.Stdout, b.Stdout), show())
		}
	}
	// non-trivial: an edit landed inside a method or closure body (not only at top level)
	inside := strings.Count(after, "\n  ") > 0
	for _, k := range kinds {
		if k != "swap_defs" && inside {
			ctx.NonTrivial(after)
			break
		}
	}
	return nil
}

func gen(t *rapid.T) Case {
	prof := mini.Control
	prof.Makers, prof.ClosureBias, prof.Generators = true, 2, true
	prof.NoExitFromCatchWithFinally, prof.NoCatchInsideHandler = true, true // C14's recorded findings are not this check's business
	if rapid.Bool().Draw(t, "closurey") {
		prof = mini.ClosureP
		prof.Generators = true
	}
	c := Case{Prog: mini.Gen(t, prof)}
	if vgen.Pick(t, 4, "break") == 0 {
		c.Break = 1 + vgen.Pick(t, 2, "breakkind")
		c.BPos = rapid.IntRange(0, 1000).Draw(t, "bpos")
	}
	n := 1 + vgen.Pick(t, 3, "nedits")
	for i := 0; i < n; i++ {
		k := []string{"unused_local", "unused_closure0", "unused_closure1", "rename", "parens", "swap_defs", "unused_closure0", "parens"}[vgen.Pick(t, 8, "ekind")]
		c.Edits = append(c.Edits, Edit{k, rapid.IntRange(0, 100000).Draw(t, "a"), rapid.IntRange(0, 100000).Draw(t, "b")})
	}
	return c
}

func TestEdits(t *testing.T) {
	pbt.Rule("edits", "MiniElk programs (control and closure profiles; one in four made ill-typed by an injected type error or undefined name) x 1..3 meaning-preserving edits at generated positions: an unused local bound to a literal / to a closure literal (||: Int -> 1, |x: Int|: Int -> x) inserted before an existing statement of any block (top level, method, closure, loop, if, do/catch/finally body), consistent renaming of one local / parameter / closure name, redundant parentheses around an operand / argument / right-hand side / condition, swapping two top-level method definitions; both versions are type-checked and run in the worker: same verdict, same diagnostic messages (positions ignored, renaming applied) or same stdout / uncaught error. Non-trivial = at least one edit other than a swap applied and the program has nested bodies; distinct by edited source")
	worker = sb.New("debug")
	defer worker.Close()
	pbt.Run(t, pbt.Prop[Case]{Name: "edits", Quick: 900, Thorough: 30000, Gen: gen, Oracle: oracle,
		Sample: func(c Case) any {
			b, a, _, k := apply(c)
			return map[string]any{"edits": k, "before": b, "after": a}
		}})
}
