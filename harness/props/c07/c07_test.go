package c07

import (
	"fmt"
	"math"
	"math/big"
	"strconv"
	"testing"

	"github.com/elk-language/elk/value"
	"pgregory.net/rapid"

	"verif/internal/pbt"
	"verif/internal/vgen"
)

func TestMain(m *testing.M) {
	value.InitGlobalEnvironment()
	pbt.Main(m, "C07")
}

// ---------------------------------------------------------------- integers

type IntCase struct {
	Kind string     `json:"kind"` // left operand kind
	Op   string     `json:"op"`
	A    string     `json:"a"`
	B    vgen.VSpec `json:"b"` // right operand (same kind, or any integer kind for shifts)
}

var (
	arith   = []string{"+", "-", "*", "/", "%", "**", "&", "|", "^", "&~", "<", "<=", ">", ">=", "<=>", "=="}
	shifts  = []string{"<<", ">>", "<<<", ">>>"}
	unaries = []string{"neg", "~", "++", "--", "+@"}
)

type binF func(l, r value.Value) (value.Value, value.Value)

var binFuncs = map[string]binF{
	"+": value.AddVal, "-": value.SubtractVal, "*": value.MultiplyVal, "/": value.DivideVal, "%": value.ModuloVal, "**": value.ExponentiateVal,
	"&": value.BitwiseAndVal, "|": value.BitwiseOrVal, "^": value.BitwiseXorVal, "&~": value.BitwiseAndNotVal,
	"<": value.LessThanVal, "<=": value.LessThanEqualVal, ">": value.GreaterThanVal, ">=": value.GreaterThanEqualVal, "<=>": value.CompareVal,
	"==": func(l, r value.Value) (value.Value, value.Value) { return value.EqualVal(l, r), value.Undefined },
	"<<": value.LeftBitshiftVal, ">>": value.RightBitshiftVal, "<<<": value.LogicalLeftBitshiftVal, ">>>": value.LogicalRightBitshiftVal,
}

var unFuncs = map[string]func(value.Value) value.Value{
	"neg": value.NegateVal, "~": value.BitwiseNotVal, "++": value.IncrementVal, "--": value.DecrementVal, "+@": value.UnaryPlusVal,
}

func bits(k string) uint {
	lo, hi := vgen.KindRange(k)
	return uint(new(big.Int).Sub(hi, lo).BitLen())
}

func signed(k string) bool { return k[0] == 'i' }

func genInt(t *rapid.T) IntCase {
	k := rapid.SampledFrom(vgen.IntKinds).Draw(t, "kind")
	a := vgen.FixedInt(t, k, "a")
	switch rapid.IntRange(0, 9).Draw(t, "cls") {
	case 0, 1, 2:
		op := rapid.SampledFrom(shifts).Draw(t, "shift")
		var b vgen.VSpec
		bk := rapid.SampledFrom(append([]string{"int", "int"}, vgen.IntKinds...)).Draw(t, "bk")
		w := int(bits(k))
		cnt := rapid.SampledFrom([]int{0, 1, 2, w - 1, w, w + 1, 2 * w, 63, 64, 65, 127, 200, -1, -2, -(w - 1), -w, -(w + 1), -64, -65}).Draw(t, "cnt")
		if rapid.IntRange(0, 2).Draw(t, "rnd") == 0 {
			cnt = rapid.IntRange(-70, 70).Draw(t, "cnt2")
		}
		if bk == "int" {
			n := big.NewInt(int64(cnt))
			if rapid.IntRange(0, 9).Draw(t, "bigcnt") == 0 {
				n = vgen.BigInt(t, "bc")
			}
			b = vgen.VSpec{K: "int", S: n.String()}
		} else {
			b = vgen.VSpec{K: bk, S: vgen.Wrap(bk, big.NewInt(int64(cnt))).String()}
			if rapid.IntRange(0, 9).Draw(t, "anycnt") == 0 {
				b.S = vgen.FixedInt(t, bk, "bc2").String()
			}
		}
		return IntCase{k, op, a.String(), b}
	case 3:
		return IntCase{k, rapid.SampledFrom(unaries).Draw(t, "un"), a.String(), vgen.VSpec{K: "nil"}}
	default:
		op := rapid.SampledFrom(arith).Draw(t, "op")
		b := vgen.FixedInt(t, k, "b")
		if op == "**" {
			b = vgen.Wrap(k, big.NewInt(int64(rapid.IntRange(0, 12).Draw(t, "exp"))))
		}
		if op != "**" && rapid.IntRange(0, 6).Draw(t, "same") == 0 {
			b = a
		}
		return IntCase{k, op, a.String(), vgen.VSpec{K: k, S: b.String()}}
	}
}

// shiftModel: direction dir=+1 left, -1 right; logical: on the unsigned image.
func shiftModel(k string, a *big.Int, n *big.Int, left, logical bool) *big.Int {
	w := bits(k)
	if n.Sign() < 0 {
		left = !left
		n = new(big.Int).Neg(n)
	}
	cnt := uint(1 << 20)
	if n.IsUint64() && n.Uint64() < 1<<20 {
		cnt = uint(n.Uint64())
	}
	img := new(big.Int).Set(a)
	if logical || !signed(k) {
		// unsigned image
		img.Mod(img, new(big.Int).Lsh(big.NewInt(1), w))
	}
	var r *big.Int
	if left {
		if cnt >= w {
			return big.NewInt(0)
		}
		r = new(big.Int).Lsh(img, cnt)
	} else {
		if cnt > 4*w {
			cnt = 4 * w
		}
		r = new(big.Int).Rsh(img, cnt) // floor: arithmetic for negative signed values
	}
	return vgen.Wrap(k, r)
}

func intOracle(c IntCase, ctx *pbt.Ctx) error {
	a, _ := new(big.Int).SetString(c.A, 10)
	l := vgen.Build(vgen.VSpec{K: c.Kind, S: c.A})
	where := fmt.Sprintf("%s(%s) %s %s", c.Kind, c.A, c.Op, c.B.String())
	var want *big.Int
	var wantBool *bool
	zeroDiv := false
	wantKind := c.Kind
	var res, err value.Value
	if f, ok := unFuncs[c.Op]; ok {
		res = f(l)
		switch c.Op {
		case "neg":
			want = vgen.Wrap(c.Kind, new(big.Int).Neg(a))
		case "~":
			want = vgen.Wrap(c.Kind, new(big.Int).Not(a))
		case "++":
			want = vgen.Wrap(c.Kind, new(big.Int).Add(a, big.NewInt(1)))
		case "--":
			want = vgen.Wrap(c.Kind, new(big.Int).Sub(a, big.NewInt(1)))
		case "+@":
			want = a
		}
	} else {
		f := binFuncs[c.Op]
		if f == nil {
			return fmt.Errorf("unknown op %q", c.Op)
		}
		if (c.Op == "<<<" || c.Op == ">>>") && c.Kind == "uint" {
			return nil // UInt declares no logical shifts
		}
		b, _ := new(big.Int).SetString(c.B.S, 10)
		r := vgen.Build(c.B)
		res, err = f(l, r)
		tr := func(v bool) *bool { return &v }
		switch c.Op {
		case "+":
			want = vgen.Wrap(c.Kind, new(big.Int).Add(a, b))
		case "-":
			want = vgen.Wrap(c.Kind, new(big.Int).Sub(a, b))
		case "*":
			want = vgen.Wrap(c.Kind, new(big.Int).Mul(a, b))
		case "/":
			if b.Sign() == 0 {
				zeroDiv = true
			} else {
				want = vgen.Wrap(c.Kind, new(big.Int).Quo(a, b))
			}
		case "%":
			if b.Sign() == 0 {
				zeroDiv = true
			} else {
				want = vgen.Wrap(c.Kind, new(big.Int).Rem(a, b))
			}
		case "**":
			if b.Sign() < 0 || b.BitLen() > 6 {
				return nil // exponent outside the generated range (replay of a foreign case)
			}
			want = vgen.Wrap(c.Kind, new(big.Int).Exp(a, b, nil))
		case "&":
			want = vgen.Wrap(c.Kind, new(big.Int).And(a, b))
		case "|":
			want = vgen.Wrap(c.Kind, new(big.Int).Or(a, b))
		case "^":
			want = vgen.Wrap(c.Kind, new(big.Int).Xor(a, b))
		case "&~":
			want = vgen.Wrap(c.Kind, new(big.Int).AndNot(a, b))
		case "<":
			wantBool = tr(a.Cmp(b) < 0)
		case "<=":
			wantBool = tr(a.Cmp(b) <= 0)
		case ">":
			wantBool = tr(a.Cmp(b) > 0)
		case ">=":
			wantBool = tr(a.Cmp(b) >= 0)
		case "==":
			wantBool = tr(a.Cmp(b) == 0)
		case "<=>":
			want = big.NewInt(int64(a.Cmp(b)))
			wantKind = "int"
		case "<<":
			want = shiftModel(c.Kind, a, b, true, false)
		case ">>":
			want = shiftModel(c.Kind, a, b, false, false)
		case "<<<":
			want = shiftModel(c.Kind, a, b, true, true)
		case ">>>":
			want = shiftModel(c.Kind, a, b, false, true)
		}
		ctx.Label("rhs:" + c.B.K)
	}
	ctx.Label(c.Kind + " " + c.Op)
	if zeroDiv {
		if err.IsUndefined() || err.Class() != value.ZeroDivisionErrorClass {
			return fmt.Errorf("%s: want ZeroDivisionError, got result %s error %s", where, insp(res), insp(err))
		}
		ctx.NonTrivial(where)
		return nil
	}
	if !err.IsUndefined() {
		return fmt.Errorf("%s raised %s (%s) although the header admits the operand", where, err.Inspect(), err.Class().Name)
	}
	if res.IsUndefined() {
		return fmt.Errorf("%s: no builtin implementation (undefined result)", where)
	}
	if wantBool != nil {
		if value.Truthy(res) != *wantBool || !(res.IsTrue() || res.IsFalse()) {
			return fmt.Errorf("%s = %s, want %v", where, res.Inspect(), *wantBool)
		}
	} else {
		exp := vgen.Build(vgen.VSpec{K: wantKind, S: want.String()})
		if res.Class() != exp.Class() || res.Inspect() != exp.Inspect() {
			return fmt.Errorf("%s = %s (%s), want %s", where, res.Inspect(), res.Class().Name, exp.Inspect())
		}
	}
	// non-trivial: wrapped, mixed operand kinds, or extreme/negative shift count
	nt := c.B.K != c.Kind && c.B.K != "nil"
	if want != nil && wantBool == nil {
		exact := exactResult(c, a)
		if exact != nil && exact.Cmp(want) != 0 {
			nt = true
			ctx.Label("wrapped")
		}
	}
	if nt {
		ctx.NonTrivial(where)
	}
	return nil
}

// exactResult: the unwrapped mathematical result (nil when not applicable).
func exactResult(c IntCase, a *big.Int) *big.Int {
	b, ok := new(big.Int).SetString(c.B.S, 10)
	if !ok {
		switch c.Op {
		case "neg":
			return new(big.Int).Neg(a)
		case "++":
			return new(big.Int).Add(a, big.NewInt(1))
		case "--":
			return new(big.Int).Sub(a, big.NewInt(1))
		}
		return nil
	}
	switch c.Op {
	case "+":
		return new(big.Int).Add(a, b)
	case "-":
		return new(big.Int).Sub(a, b)
	case "*":
		return new(big.Int).Mul(a, b)
	case "**":
		if b.Sign() >= 0 && b.BitLen() < 8 {
			return new(big.Int).Exp(a, b, nil)
		}
	case "<<", "<<<":
		if b.Sign() >= 0 && b.BitLen() < 10 {
			return new(big.Int).Lsh(a, uint(b.Uint64()))
		}
	}
	return nil
}

func insp(v value.Value) string {
	if v.IsUndefined() {
		return "undefined"
	}
	return v.Inspect()
}

func TestFixedInts(t *testing.T) {
	pbt.Rule("fixed_ints", "left operand of each of Int8..Int64, UInt8..UInt64, UInt (range ends, powers of two, random); arithmetic/bitwise/comparison operators with a same-kind right operand, shifts (<< >> <<< >>>) with a right operand of every kind the headers admit (AnyInt: Int small/big, all fixed-width kinds; counts 0, +-1, width-1, width, width+1, 63..65, 200, negative), unary - ~ ++ -- +; oracle = exact math/big result reduced to the two's-complement range (shifts: arithmetic >> floors, logical shifts act on the unsigned image, negative counts reverse direction, counts >= width give 0 / sign fill; / % truncate; zero divisor => ZeroDivisionError); an accepted operand must never raise a type error; non-trivial = result wrapped, or operand kinds differ")
	pbt.Run(t, pbt.Prop[IntCase]{Name: "fixed_ints", Quick: 300000, Thorough: 10000000, Gen: genInt, Oracle: intOracle,
		Sample: func(c IntCase) any { return fmt.Sprintf("%s(%s) %s %s", c.Kind, c.A, c.Op, c.B.String()) }})
}

// ------------------------------------------------------------------ floats

type FloatCase struct {
	Kind string `json:"kind"` // float f64 f32
	Op   string `json:"op"`
	A    string `json:"a"` // bits (hex) of the float64 image
	B    string `json:"b"`
}

var floatOps = []string{"+", "-", "*", "/", "%", "**", "<", "<=", ">", ">=", "==", "neg"}

func fbits(s string) float64 {
	u, _ := strconv.ParseUint(s, 16, 64)
	return math.Float64frombits(u)
}

func mk(kind string, f float64) value.Value {
	switch kind {
	case "f64":
		return value.Float64(f).ToValue()
	case "f32":
		return value.Float32(float32(f)).ToValue()
	}
	return value.Float(f).ToValue()
}

func floatOracle(c FloatCase, ctx *pbt.Ctx) error {
	a, b := fbits(c.A), fbits(c.B)
	if c.Kind == "f32" {
		a, b = float64(float32(a)), float64(float32(b))
	}
	round := func(f float64) float64 {
		if c.Kind == "f32" {
			return float64(float32(f))
		}
		return f
	}
	l, r := mk(c.Kind, a), mk(c.Kind, b)
	where := fmt.Sprintf("%s %v %s %v", c.Kind, a, c.Op, b)
	var want float64
	var wantBool *bool
	tr := func(v bool) *bool { return &v }
	var res, err value.Value
	switch c.Op {
	case "neg":
		res = value.NegateVal(l)
		want = -a
	case "+":
		res, err = value.AddVal(l, r)
		want = round(a + b)
	case "-":
		res, err = value.SubtractVal(l, r)
		want = round(a - b)
	case "*":
		res, err = value.MultiplyVal(l, r)
		want = round(a * b)
	case "/":
		res, err = value.DivideVal(l, r)
		want = round(a / b)
	case "%":
		res, err = value.ModuloVal(l, r)
		want = round(math.Mod(a, b))
	case "**":
		res, err = value.ExponentiateVal(l, r)
		want = round(math.Pow(a, b))
	case "<":
		res, err = value.LessThanVal(l, r)
		wantBool = tr(a < b)
	case "<=":
		res, err = value.LessThanEqualVal(l, r)
		wantBool = tr(a <= b)
	case ">":
		res, err = value.GreaterThanVal(l, r)
		wantBool = tr(a > b)
	case ">=":
		res, err = value.GreaterThanEqualVal(l, r)
		wantBool = tr(a >= b)
	case "==":
		res, err = value.EqualVal(l, r), value.Undefined
		wantBool = tr(a == b)
	default:
		return fmt.Errorf("unknown op %s", c.Op)
	}
	ctx.Label(c.Kind + " " + c.Op)
	if !err.IsUndefined() {
		return fmt.Errorf("%s raised %s", where, err.Inspect())
	}
	if res.IsUndefined() {
		return fmt.Errorf("%s: undefined result", where)
	}
	if wantBool != nil {
		if !(res.IsTrue() || res.IsFalse()) || value.Truthy(res) != *wantBool {
			return fmt.Errorf("%s = %s, want %v", where, res.Inspect(), *wantBool)
		}
	} else {
		exp := mk(c.Kind, want)
		if res.Class() != exp.Class() {
			return fmt.Errorf("%s = %s (%s), want class %s", where, res.Inspect(), res.Class().Name, exp.Class().Name)
		}
		var got float64
		switch c.Kind {
		case "f64":
			got = float64(value.MustDowncast[value.Float64](res))
		case "f32":
			got = float64(res.AsFloat32())
		default:
			got = float64(res.AsFloat())
		}
		same := math.Float64bits(got) == math.Float64bits(want) || (math.IsNaN(got) && math.IsNaN(want))
		if !same {
			return fmt.Errorf("%s = %v (bits %x), want %v (bits %x)", where, got, math.Float64bits(got), want, math.Float64bits(want))
		}
	}
	if math.IsNaN(a) || math.IsNaN(b) || math.IsInf(a, 0) || math.IsInf(b, 0) || a == 0 || b == 0 || math.Abs(a) < 1e-300 || math.Abs(a) > 1e300 || want != math.Trunc(want) {
		ctx.NonTrivial(where)
	}
	return nil
}

func TestFloats(t *testing.T) {
	pbt.Rule("floats", "Float, Float64 and Float32 operands from special values (+-0, subnormals, +-Inf, NaN, 2^53 and 2^24 neighbourhoods, extremes) and random bit patterns; + - * / % ** unary- and comparisons with a same-kind operand must equal Go's IEEE-754 arithmetic of that width bit for bit (NaN compared as NaN, float32 results rounded to single); non-trivial = NaN/Inf/zero/subnormal/extreme operand or inexact result")
	pbt.Run(t, pbt.Prop[FloatCase]{Name: "floats", Quick: 200000, Thorough: 6000000,
		Gen: func(t *rapid.T) FloatCase {
			k := rapid.SampledFrom([]string{"float", "f64", "f32"}).Draw(t, "k")
			a, b := vgen.Float64(t, "a"), vgen.Float64(t, "b")
			if rapid.IntRange(0, 6).Draw(t, "same") == 0 {
				b = a
			}
			return FloatCase{k, rapid.SampledFrom(floatOps).Draw(t, "op"), strconv.FormatUint(math.Float64bits(a), 16), strconv.FormatUint(math.Float64bits(b), 16)}
		},
		Oracle: floatOracle,
		Sample: func(c FloatCase) any { return fmt.Sprintf("%s %v %s %v", c.Kind, fbits(c.A), c.Op, fbits(c.B)) }})
}
