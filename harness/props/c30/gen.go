package c30

import (
	"fmt"

	"pgregory.net/rapid"
)

// Ty is the little static type model the generator needs to keep the checker
// from rejecting an arm as impossible ("type X cannot ever match type Y").
// Any: the matched value is typed `any`.  Otherwise Kinds lists the value kinds
// the static type admits (collections and the prelude classes are always used
// with `any` members).
type Ty struct {
	Any   bool     `json:"any,omitempty"`
	Kinds []string `json:"kinds,omitempty"` // value kinds; objects as "obj:Pt"
	Src   string   `json:"src,omitempty"`   // Elk spelling (subjects only)
}

var tyAny = &Ty{Any: true, Src: "any"}
var tyInt = &Ty{Kinds: []string{"int"}}

func (t *Ty) has(k string) bool {
	if t.Any {
		return true
	}
	for _, x := range t.Kinds {
		if x == k {
			return true
		}
	}
	return false
}

func (t *Ty) without(k string) *Ty {
	if t.Any {
		return t
	}
	n := &Ty{}
	for _, x := range t.Kinds {
		if x != k {
			n.Kinds = append(n.Kinds, x)
		}
	}
	return n
}

func only(k string) *Ty { return &Ty{Kinds: []string{k}} }

func kindOfV(v *V) string {
	if v.K == "obj" {
		return "obj:" + v.S
	}
	return v.K
}

// g is the state of generating one arm.
type g struct {
	t    *rapid.T
	n    int             // variable counter
	used map[string]bool // variable names taken in this arm
	miss int             // percent chance that a leaf is generated as a near miss
	excl map[string]bool // active known-finding exclusions
}

func (g *g) fresh() string {
	for {
		g.n++
		n := fmt.Sprintf("v%d", g.n)
		if g.n%3 == 0 {
			n = "_" + n // private identifier
		}
		if !g.used[n] {
			g.used[n] = true
			return n
		}
	}
}

func (g *g) pct(p int, label string) bool { return pick(g.t, 100, label) < p }

func (g *g) wantMiss() bool { return g.miss > 0 && g.pct(g.miss, "miss") }

// other draws a scalar of the same kind different from v (falls back to another kind for nil).
func (g *g) other(v *V) *V {
	switch v.K {
	case "bool":
		return vBool(!v.B)
	case "nil":
		return vInt(0)
	}
	for i := 0; i < 8; i++ {
		o := genScalar(g.t, v.K)
		if !eq(o, v) {
			return o
		}
	}
	switch v.K {
	case "int":
		return vInt(v.I + 1)
	case "float":
		return vFloat(v.F + 1)
	}
	return &V{K: v.K, S: v.S + "q"}
}

func succ(v *V, by int64) *V {
	switch v.K {
	case "int":
		return vInt(v.I + by)
	case "float":
		return vFloat(v.F + float64(by)*0.5)
	case "char":
		return vChar(string(rune(int64(v.S[0]) + by)))
	}
	panic("succ " + v.K)
}

func ordered(k string) bool { return k == "int" || k == "float" || k == "str" || k == "char" }

func rangeable(v *V) bool {
	switch v.K {
	case "int":
		return v.I > -1000 && v.I < 1000
	case "float":
		return true
	case "char":
		return v.S[0] >= 'b' && v.S[0] <= 'y'
	}
	return false
}

// wrap decorates a pattern that matches (or misses) with forms that do not change the verdict.
func (g *g) wrap(p *P, ty *Ty, v *V) *P {
	switch pickW(g.t, "wrap", 70, 10, 6, 5, 5, 4) {
	case 1:
		return &P{K: "as", Sub: []*P{p}, Name: g.fresh()}
	case 2:
		// alternative whose left side cannot match
		var l *P
		if v != nil && isScalar(v.K) && ty.has(v.K) && v.K != "nil" {
			l = pLit(g.other(v))
		} else if ty.has("sym") {
			l = pLit(vSym("none"))
		} else {
			return p
		}
		return &P{K: "or", Sub: []*P{l, p}}
	case 3:
		if ty.has("sym") {
			return &P{K: "or", Sub: []*P{p, pLit(vSym("none"))}}
		}
	case 4:
		if ty.has("nil") {
			return &P{K: "nilable", Sub: []*P{p}}
		}
	case 5:
		return &P{K: "and", Sub: []*P{pBind(g.fresh()), p}}
	}
	return p
}

// classKind maps the class names used in object patterns to the value kinds they admit.
var classKind = map[string][]string{
	"Int": {"int"}, "Float": {"float"}, "String": {"str"}, "Char": {"char"}, "Symbol": {"sym"}, "Bool": {"bool"}, "Nil": {"nil"},
	"ArrayList": {"list"}, "List": {"list"}, "ArrayTuple": {"tuple"}, "Tuple": {"list", "tuple", "pair"}, "HashSet": {"set"}, "Set": {"set"},
	"HashMap": {"map"}, "Map": {"map"}, "HashRecord": {"rec"}, "Record": {"map", "rec"}, "Pair": {"pair"},
	"ClosedRange": {"range"}, "OpenRange": {"range"}, "LeftOpenRange": {"range"}, "RightOpenRange": {"range"},
	"Pt": {"obj:Pt", "obj:Pt3", "obj:PtO"}, "Pt3": {"obj:Pt3"}, "Bx": {"obj:Bx"}, "PtO": {"obj:PtO"},
}

// narrow is the static type of a value that matched p, as far as the generator needs it (the right
// side of `&&` is checked against it).
func narrow(p *P, ty *Ty) *Ty {
	keep := func(ks ...string) *Ty {
		n := &Ty{}
		for _, k := range ks {
			if ty.has(k) {
				n.Kinds = append(n.Kinds, k)
			}
		}
		return n
	}
	switch p.K {
	case "lit", "const":
		return keep(p.V.K)
	case "rel":
		switch p.Op {
		case "<", "<=", ">", ">=", "==", "===":
			return keep(p.V.K)
		}
		return ty
	case "range":
		if p.Lo != nil {
			return keep(p.Lo.K)
		}
		return keep(p.Hi.K)
	case "regex":
		return keep("str")
	case "obj":
		return keep(classKind[p.Name]...)
	case "list":
		return keep("list")
	case "tuple":
		return keep("list", "tuple", "pair")
	case "set":
		return keep("set")
	case "map":
		return keep("map")
	case "rec":
		return keep("map", "rec")
	case "as":
		return narrow(p.Sub[0], ty)
	case "must":
		return ty.without("nil")
	case "and":
		return narrow(p.Sub[1], narrow(p.Sub[0], ty))
	}
	return ty
}

// compat mirrors the checker's "type X cannot ever match type Y" test for the top of a pattern
// (members of collections and `any` attributes are typed any and need no test).
func compat(p *P, ty *Ty) bool {
	if ty.Any {
		return true
	}
	switch p.K {
	case "bind", "wild", "must", "iobj":
		return true
	case "rel":
		if p.Op == "=~" || p.Op == "!~" {
			return true
		}
		return ty.has(p.V.K)
	case "nilable":
		return ty.has("nil") && compat(p.Sub[0], ty)
	case "or":
		return compat(p.Sub[0], ty) && compat(p.Sub[1], ty)
	case "as":
		return compat(p.Sub[0], ty)
	case "and":
		return compat(p.Sub[0], ty) && compat(p.Sub[1], narrow(p.Sub[0], ty))
	}
	n := narrow(p, ty)
	return n.Any || len(n.Kinds) > 0
}

// leaf makes a pattern for the scalar v (static type ty) that matches it, or — when a miss is
// wanted — a near miss.
func (g *g) leaf(v *V, ty *Ty) *P {
	p := g.leaf0(v, ty)
	if compat(p, ty) {
		return p
	}
	if g.wantMiss() && v.K != "nil" && v.K != "bool" {
		return pLit(g.other(v))
	}
	return pLit(v)
}

func (g *g) leaf0(v *V, ty *Ty) *P {
	miss := g.wantMiss()
	k := v.K
	if !miss {
		switch c := pickW(g.t, "hit", 26, 16, 12, 10, 5, 4, 5, 5, 8, 4, 5, 4); c {
		case 0:
			return pLit(v)
		case 1: // relational, satisfied
			if ordered(k) {
				switch pick(g.t, 6, "relhit") {
				case 0:
					return pRel(">=", v)
				case 1:
					return pRel("<=", v)
				case 2:
					if rangeable(v) {
						return pRel(">", succ(v, -1))
					}
				case 3:
					if rangeable(v) {
						return pRel("<", succ(v, 1))
					}
				case 4:
					if rangeable(v) {
						return &P{K: "and", Sub: []*P{pRel(">", succ(v, -2)), pRel("<=", v)}}
					}
				}
			}
			return pRel("==", v)
		case 2: // range containing v, v on a closed boundary as often as not
			if rangeable(v) {
				switch pick(g.t, 8, "rnghit") {
				case 0:
					return &P{K: "range", Op: "...", Lo: v, Hi: succ(v, 3)}
				case 1:
					return &P{K: "range", Op: "...", Lo: succ(v, -2), Hi: v}
				case 2:
					return &P{K: "range", Op: "..<", Lo: v, Hi: succ(v, 1)}
				case 3:
					return &P{K: "range", Op: "<..", Lo: succ(v, -1), Hi: v}
				case 4:
					return &P{K: "range", Op: "<.<", Lo: succ(v, -1), Hi: succ(v, 1)}
				case 5:
					return &P{K: "range", Op: "...", Lo: v}
				case 6:
					return &P{K: "range", Op: "...", Hi: v}
				case 7:
					return &P{K: "range", Op: "..<", Hi: succ(v, 2)}
				}
			}
			return pLit(v)
		case 3:
			return pBind(g.fresh())
		case 4:
			return pBind(g.fresh())
		case 5:
			if k != "nil" {
				return &P{K: "must"}
			}
			return pLit(v)
		case 6: // other (in)equalities
			switch pick(g.t, 4, "eqhit") {
			case 0:
				return pRel("!=", g.other(v))
			case 1:
				return pRel("===", v)
			case 2:
				if k == "int" && v.I > -1000 && v.I < 1000 {
					return pRel("=~", vFloat(float64(v.I)))
				}
				return pRel("=~", v)
			default:
				if k != "nil" && ty.has("nil") {
					return pRel("!=", vNil())
				}
				return pRel("!==", g.other(v))
			}
		case 7: // class pattern
			if c, ok := kindClass[k]; ok && k != "nil" && k != "bool" {
				p := &P{K: "obj", Name: c, Qual: g.pct(60, "qual")}
				if k == "str" && g.pct(60, "len") {
					p.Attrs = []string{"length"}
					p.Sub = []*P{g.leaf(vInt(int64(len(v.S))), tyInt)}
				}
				return p
			}
			return pLit(v)
		case 8:
			if k == "str" && !g.excl["regex"] {
				return &P{K: "regex", Re: g.regexFor(v.S, true)}
			}
			return pLit(v)
		case 9:
			for _, c := range consts {
				if eq(c.Val, v) {
					return &P{K: "const", Name: c.Name, V: c.Val}
				}
			}
			return pLit(v)
		case 10:
			if ordered(k) && rangeable(v) {
				return &P{K: "and", Sub: []*P{pRel(">=", v), pRel("<", succ(v, 1))}}
			}
			return pBind(g.fresh())
		default:
			if k != "nil" && ty.has("nil") {
				return &P{K: "nilable", Sub: []*P{pLit(v)}}
			}
			return pLit(v)
		}
	}
	// near misses
	switch pickW(g.t, "miss", 22, 14, 16, 14, 6, 8, 6, 6, 4, 4) {
	case 0:
		if k != "nil" {
			return pLit(g.other(v))
		}
	case 1: // same text, other class
		var o *V
		switch k {
		case "int":
			if v.I > -1000 && v.I < 1000 {
				o = vFloat(float64(v.I))
			}
		case "float":
			if v.F == float64(int64(v.F)) {
				o = vInt(int64(v.F))
			}
		case "str":
			if len(v.S) == 1 {
				o = vChar(v.S)
			} else {
				o = vSym("foo")
			}
		case "char":
			o = vStr(v.S)
		case "sym":
			o = vStr(v.S)
		case "nil":
			o = vBool(false)
		case "bool":
			o = vNil()
		}
		if o != nil && ty.has(o.K) {
			return pLit(o)
		}
	case 2: // relational, just not satisfied
		if ordered(k) {
			switch pick(g.t, 4, "relmiss") {
			case 0:
				return pRel(">", v)
			case 1:
				return pRel("<", v)
			case 2:
				if rangeable(v) {
					return pRel(">=", succ(v, 1))
				}
			default:
				if rangeable(v) {
					return &P{K: "and", Sub: []*P{pRel(">", succ(v, -2)), pRel("<", v)}}
				}
			}
		}
		return pRel("!=", v)
	case 3: // range with v just outside
		if rangeable(v) {
			switch pick(g.t, 7, "rngmiss") {
			case 0:
				return &P{K: "range", Op: "<..", Lo: v, Hi: succ(v, 3)}
			case 1:
				return &P{K: "range", Op: "..<", Lo: succ(v, -2), Hi: v}
			case 2:
				return &P{K: "range", Op: "<.<", Lo: v, Hi: succ(v, 2)}
			case 3:
				return &P{K: "range", Op: "<.<", Lo: succ(v, -2), Hi: v}
			case 4:
				return &P{K: "range", Op: "<..", Lo: v}
			case 5:
				return &P{K: "range", Op: "..<", Hi: v}
			default:
				return &P{K: "range", Op: "...", Lo: succ(v, 1), Hi: succ(v, 4)}
			}
		}
	case 4:
		if k == "nil" {
			return &P{K: "must"}
		}
		return pRel("==", g.other(v))
	case 5: // relational against another class: the class guard says no
		for _, o := range []*V{vInt(0), vFloat(0.5), vStr("a")} {
			if o.K != k && ty.has(o.K) {
				return pRel([]string{"<", "<=", ">", ">="}[pick(g.t, 4, "op")], o)
			}
		}
	case 6:
		if k == "str" && !g.excl["regex"] {
			return &P{K: "regex", Re: g.regexFor(v.S, false)}
		}
	case 7: // wrong class
		for _, c := range []string{"sym", "int", "str", "float", "list"} {
			if c != k && ty.has(c) {
				return &P{K: "obj", Name: kindClass[c], Qual: g.pct(60, "qual")}
			}
		}
	case 8:
		if k == "str" && len(v.S) < 9 {
			return &P{K: "obj", Name: "String", Qual: true, Attrs: []string{"length"}, Sub: []*P{pRel(">", vInt(int64(len(v.S))))}}
		}
	case 9:
		for _, c := range consts {
			if c.Val.K == k && !eq(c.Val, v) {
				return &P{K: "const", Name: c.Name, V: c.Val}
			}
		}
	}
	if k == "nil" {
		return &P{K: "must"}
	}
	return pLit(g.other(v))
}

// regexFor: a tiny regex (RE2 subset shared by Go and Elk) that matches / does not match s.
func (g *g) regexFor(s string, hit bool) string {
	esc := func(x string) string {
		out := ""
		for _, r := range x {
			if r == ' ' {
				out += `\s`
			} else {
				out += string(r)
			}
		}
		return out
	}
	if hit {
		switch pick(g.t, 5, "rehit") {
		case 0:
			return "^" + esc(s) + "$"
		case 1:
			if len(s) > 1 {
				return "^" + esc(s[:1])
			}
		case 2:
			if len(s) > 1 {
				return esc(s[len(s)-1:]) + "$"
			}
		case 3:
			if len(s) > 0 {
				return `^\w`
			}
		}
		return "^" + esc(s)
	}
	switch pick(g.t, 3, "remiss") {
	case 0:
		return "^" + esc(s) + "q$"
	case 1:
		return `^\d\d\d$`
	}
	return "^Q" + esc(s)
}

func validIdent(s string) bool {
	if s == "" || !(s[0] >= 'a' && s[0] <= 'z') {
		return false
	}
	for _, r := range s {
		if !((r >= 'a' && r <= 'z') || (r >= '0' && r <= '9') || r == '_') {
			return false
		}
	}
	return true
}

// derive makes a pattern guided by the value v whose static type is ty: it follows
// v's structure, so that it matches v unless a leaf was turned into a near miss.
func (g *g) derive(v *V, ty *Ty, depth int) *P {
	if depth <= 2 && g.pct(4, "twice") {
		// two alternatives made for the same value, each with its own variables: only the
		// first one that matches may bind
		return &P{K: "or", Sub: []*P{g.derive1(v, ty, depth), g.derive1(v, ty, depth)}}
	}
	return g.derive1(v, ty, depth)
}

func (g *g) derive1(v *V, ty *Ty, depth int) *P {
	var p *P
	switch v.K {
	case "list", "tuple":
		p = g.deriveSeq(v, ty, depth)
	case "set":
		p = g.deriveSet(v, ty)
	case "map", "rec":
		p = g.deriveMap(v, ty, depth)
	case "pair":
		if g.pct(15, "pbind") {
			p = pBind(g.fresh())
			break
		}
		if ty.Any && g.pct(25, "pairtuple") {
			// a Pair is a 2-element tuple
			p = &P{K: "tuple", Sub: []*P{g.leaf(v.E[0], tyAny), g.derive(v.E[1], tyAny, depth+1)}}
			if g.pct(30, "prest") {
				p.Sub[1] = &P{K: "rest", Name: g.fresh()}
			}
			break
		}
		p = &P{K: "obj", Name: "Pair", Qual: g.pct(60, "qual")}
		if g.pct(80, "pk") {
			p.Attrs = append(p.Attrs, "key")
			p.Sub = append(p.Sub, g.leaf(v.E[0], tyAny))
		}
		if g.pct(80, "pv") {
			p.Attrs = append(p.Attrs, "value")
			p.Sub = append(p.Sub, g.derive(v.E[1], tyAny, depth+1))
		}
	case "range":
		switch pick(g.t, 4, "rg") {
		case 0:
			p = pBind(g.fresh())
		case 1:
			p = &P{K: "obj", Name: rangeClass[v.S], Qual: true}
			if g.wantMiss() {
				p.Name = rangeClass[map[string]string{"...": "..<", "..<": "...", "<.<": "<..", "<..": "<.<"}[v.S]]
			}
		default:
			// the checker types the bounds of a range matched out of `any` as Comparable[Val] and
			// refuses literals there; variables and `_` are fine
			p = &P{K: "obj", Name: rangeClass[v.S], Qual: true, Attrs: []string{"start", "end"},
				Sub: []*P{pBind(g.fresh()), pBind(g.fresh())}}
		}
	case "obj":
		p = g.deriveObj(v, ty, depth)
	default:
		p = g.leaf(v, ty)
	}
	return g.wrap(p, ty, v)
}

func (g *g) deriveSeq(v *V, ty *Ty, depth int) *P {
	c := pickW(g.t, "seq", 62, 12, 8, 8, 10)
	switch c {
	case 1:
		return pBind(g.fresh())
	case 2:
		if ty.Any {
			n := map[string]string{"list": "ArrayList", "tuple": "ArrayTuple"}[v.K]
			if g.pct(30, "mixin") {
				n = map[string]string{"list": "List", "tuple": "Tuple"}[v.K]
			}
			return &P{K: "obj", Name: n, Qual: true, Attrs: []string{"length"}, Sub: []*P{g.leaf(vInt(int64(len(v.E))), tyInt)}}
		}
	case 3:
		if !ty.Any && len(ty.Kinds) == 1 {
			return &P{K: "iobj", Attrs: []string{"length"}, Sub: []*P{g.leaf(vInt(int64(len(v.E))), tyInt)}}
		}
	}
	p := &P{K: v.K}
	// a tuple pattern also takes lists; a list pattern refuses tuples (a miss by class)
	if ty.Any || ty.has("list") {
		switch {
		case v.K == "list" && g.pct(25, "astuple"):
			p.K = "tuple"
		case v.K == "tuple" && ty.has("list") && g.wantMiss():
			p.K = "list"
		}
	}
	n := len(v.E)
	if c == 4 || g.pct(35, "rest") {
		// with a rest element: `before` leading and `after` trailing elements
		before := rapid.IntRange(0, n).Draw(g.t, "before")
		after := rapid.IntRange(0, n-before).Draw(g.t, "after")
		for i := 0; i < before; i++ {
			p.Sub = append(p.Sub, g.derive(v.E[i], tyAny, depth+1))
		}
		r := &P{K: "rest"}
		if g.pct(60, "restname") {
			r.Name = g.fresh()
		}
		p.Sub = append(p.Sub, r)
		for i := n - after; i < n; i++ {
			p.Sub = append(p.Sub, g.derive(v.E[i], tyAny, depth+1))
		}
		if g.wantMiss() {
			// one static element more than the value has
			extra := g.leaf(genScalar(g.t, ""), tyAny)
			if g.pct(50, "front") {
				p.Sub = append([]*P{extra}, p.Sub...)
			} else {
				p.Sub = append(p.Sub, extra)
			}
			if before+after < n {
				// keep the count exactly one above: drop nothing, the rest then has to be "-1 long"
				for len(p.Sub)-1 <= n {
					p.Sub = append(p.Sub, pBind(g.fresh()))
				}
			}
		}
		return p
	}
	for i := 0; i < n; i++ {
		p.Sub = append(p.Sub, g.derive(v.E[i], tyAny, depth+1))
	}
	if g.wantMiss() {
		if n > 0 && g.pct(50, "drop") {
			p.Sub = p.Sub[:n-1]
		} else {
			p.Sub = append(p.Sub, pBind(g.fresh()))
		}
	}
	return p
}

func (g *g) deriveSet(v *V, ty *Ty) *P {
	switch pickW(g.t, "set", 75, 12, 13) {
	case 1:
		return pBind(g.fresh())
	case 2:
		if ty.Any {
			return &P{K: "obj", Name: "HashSet", Qual: true, Attrs: []string{"length"}, Sub: []*P{g.leaf(vInt(int64(len(v.E))), tyInt)}}
		}
	}
	p := &P{K: "set"}
	n := len(v.E)
	perm := rapid.Permutation(append([]*V{}, v.E...)).Draw(g.t, "perm")
	keep := rapid.IntRange(0, n).Draw(g.t, "keep")
	for i := 0; i < keep; i++ {
		e := perm[i]
		if g.wantMiss() {
			e = &V{K: "int", I: 77}
			if v.contains(e) {
				e = vSym("none")
			}
		}
		p.Sub = append(p.Sub, pLit(e))
	}
	if keep < n {
		if g.pct(50, "fill") {
			for i := keep; i < n; i++ {
				p.Sub = append(p.Sub, &P{K: "wild"})
			}
			if g.wantMiss() {
				p.Sub = append(p.Sub, &P{K: "wild"})
			}
		} else {
			p.Sub = append(p.Sub, &P{K: "rest"})
		}
	} else if g.pct(25, "rest0") {
		p.Sub = append(p.Sub, &P{K: "rest"})
		if g.wantMiss() {
			p.Sub = append(p.Sub, &P{K: "wild"})
		}
	}
	// the rest element may stand anywhere
	if len(p.Sub) > 1 && p.Sub[len(p.Sub)-1].K == "rest" && g.pct(40, "restpos") {
		i := rapid.IntRange(0, len(p.Sub)-1).Draw(g.t, "rpos")
		last := len(p.Sub) - 1
		p.Sub[i], p.Sub[last] = p.Sub[last], p.Sub[i]
	}
	return p
}

func (g *g) deriveMap(v *V, ty *Ty, depth int) *P {
	switch pickW(g.t, "map", 75, 12, 13) {
	case 1:
		return pBind(g.fresh())
	case 2:
		if ty.Any {
			n := map[string]string{"map": "HashMap", "rec": "HashRecord"}[v.K]
			return &P{K: "obj", Name: n, Qual: true, Attrs: []string{"length"}, Sub: []*P{g.leaf(vInt(int64(len(v.E))), tyInt)}}
		}
	}
	p := &P{K: v.K}
	if ty.Any || ty.has("map") {
		switch {
		case v.K == "map" && g.pct(25, "asrec"):
			p.K = "rec"
		case v.K == "rec" && ty.has("map") && g.wantMiss():
			p.K = "map"
		}
	}
	for i, k := range v.Ks {
		if g.pct(25, "skipkey") {
			continue
		}
		p.Keys = append(p.Keys, k)
		if k.K == "sym" && validIdent(k.S) && !g.used[k.S] && g.pct(25, "short") {
			g.used[k.S] = true
			p.Sub = append(p.Sub, nil)
			continue
		}
		p.Sub = append(p.Sub, g.derive(v.E[i], tyAny, depth+1))
	}
	if g.pct(20, "absent") {
		// a key the value does not have reads as nil
		k := vSym("zz")
		p.Keys = append(p.Keys, k)
		if g.wantMiss() {
			p.Sub = append(p.Sub, &P{K: "must"})
		} else {
			p.Sub = append(p.Sub, pLit(vNil()))
		}
	}
	return p
}

func (g *g) deriveObj(v *V, ty *Ty, depth int) *P {
	d := classByName(v.S)
	c := pickW(g.t, "obj", 70, 10, 20)
	if c == 1 {
		return pBind(g.fresh())
	}
	p := &P{K: "obj", Name: v.S}
	if c == 2 && !ty.Any && len(ty.Kinds) == 1 {
		p.K = "iobj"
	} else {
		if d.Parent != "" && g.pct(35, "parent") {
			p.Name = d.Parent
		}
		if g.wantMiss() && ty.Any {
			p.Name = []string{"Pt3", "Bx", "Pt", "PtO"}[pick(g.t, 4, "cls")]
		}
	}
	pd := d
	if p.K == "obj" {
		pd = classByName(p.Name)
	}
	for i, a := range d.Attrs {
		// only attributes the pattern's class declares
		j := -1
		for x, pa := range pd.Attrs {
			if pa == a {
				j = x
			}
		}
		if j < 0 || g.pct(25, "skipattr") {
			continue
		}
		p.Attrs = append(p.Attrs, a)
		if !g.used[a] && g.pct(20, "short") {
			g.used[a] = true
			p.Sub = append(p.Sub, nil)
			continue
		}
		if pd.Types[j] == "Int" {
			if v.E[i].K == "int" {
				p.Sub = append(p.Sub, g.leaf(v.E[i], tyInt))
			} else {
				p.Sub = append(p.Sub, g.leaf(vInt(1), tyInt))
			}
		} else {
			p.Sub = append(p.Sub, g.derive(v.E[i], tyAny, depth+1))
		}
	}
	if classIsA(pd.Name, "Pt") && p.K == "obj" && g.pct(45, "tagattr") {
		// the method-defined getter `tag`: what the pattern reads is decided by the value's run-time class
		p.Attrs = append(p.Attrs, "tag")
		want := "pt"
		if v.S == "PtO" {
			want = "pto"
		}
		if g.pct(40, "tagother") {
			want = map[string]string{"pt": "pto", "pto": "pt"}[want] // what the other class in the hierarchy answers
		}
		p.Sub = append(p.Sub, &P{K: "lit", V: vSym(want)})
	}
	// attributes of the pattern's class that the value's class lacks are never read when the
	// class test fails first; do not add them (the getter would not exist otherwise).
	return p
}

// subjectType draws the declared static type of a subject.
func subjectType(t *rapid.T, v *V) *Ty {
	if pick(t, 100, "typed") < 55 {
		return tyAny
	}
	k := kindOfV(v)
	spell := map[string]string{
		"int": "Int", "float": "Float", "str": "String", "char": "Char", "sym": "Symbol", "bool": "Bool", "nil": "nil",
		"obj:Pt": "Pt", "obj:Pt3": "Pt3", "obj:Bx": "Bx", "obj:PtO": "PtO",
	}
	if (k == "obj:Pt3" || k == "obj:PtO" || k == "obj:Pt") && pick(t, 100, "parenttyped") < 45 {
		// statically the parent class, at run time possibly a subclass
		return &Ty{Kinds: []string{"obj:Pt", "obj:Pt3", "obj:PtO"}, Src: "Pt"}
	}
	if s, ok := spell[k]; ok {
		if k != "nil" && pick(t, 100, "exact") < 40 {
			return &Ty{Kinds: []string{k}, Src: s}
		}
		// union with up to two other scalar classes and/or nil
		ty := &Ty{Kinds: []string{k}, Src: s}
		pool := []string{"int", "float", "str", "char", "sym", "bool", "nil"}
		for i, n := 0, 1+pick(t, 3, "nunion"); i < n; i++ {
			o := pool[pick(t, len(pool), "ukind")]
			if !ty.has(o) {
				ty.Kinds = append(ty.Kinds, o)
				ty.Src += " | " + spell[o]
			}
		}
		if len(ty.Kinds) == 1 && k == "nil" {
			ty.Kinds = append(ty.Kinds, "int")
			ty.Src += " | Int"
		}
		return ty
	}
	coll := map[string][]string{
		"list":  {"ArrayList[any]", "List[any]"},
		"tuple": {"ArrayTuple[any]", "Tuple[any]"},
		"set":   {"HashSet[any]", "Set[any]"},
		"map":   {"HashMap[any, any]", "Map[any, any]"},
		"rec":   {"HashRecord[any, any]", "Record[any, any]"},
	}
	if s, ok := coll[k]; ok {
		return &Ty{Kinds: []string{k}, Src: s[pick(t, 2, "mixin")]}
	}
	return tyAny
}
