package c30

import (
	"regexp"
	"strings"
)

// P is a JSON-able description of an Elk pattern (parser.go pattern … primaryPattern).
type P struct {
	K string `json:"k"`
	// lit: V (scalar literal, negative numbers print as `-5`)
	// const: Name (constant of the prelude), V its value
	// rel: Op in < <= > >= == != === !== =~ !~ , V operand
	// range: Op in ... <.< ..< <.. , Lo/Hi (nil = open side)
	// regex: Re
	// bind: Name;  wild: `_`;  must
	// rest: Name ("" = anonymous `*`) – only as element of list/tuple/set
	// as: Sub[0] as Name;  nilable: Sub[0]?;  or/and: Sub[0] op Sub[1]
	// list/tuple/set: Sub elements
	// map/rec: Keys[i] => Sub[i]; Sub[i]==nil means the shorthand identifier entry (key is a symbol, binds a variable of that name)
	// obj: Name class (Qual: printed as ::Std::Name), Attrs[i]: Sub[i]; Sub[i]==nil = shorthand identifier
	// iobj: @{ Attrs[i]: Sub[i] }
	V     *V       `json:"v,omitempty"`
	Op    string   `json:"op,omitempty"`
	Lo    *V       `json:"lo,omitempty"`
	Hi    *V       `json:"hi,omitempty"`
	Re    string   `json:"re,omitempty"`
	Name  string   `json:"name,omitempty"`
	Qual  bool     `json:"qual,omitempty"`
	Sub   []*P     `json:"sub,omitempty"`
	Keys  []*V     `json:"keys,omitempty"`
	Attrs []string `json:"attrs,omitempty"`
}

func pLit(v *V) *P            { return &P{K: "lit", V: v} }
func pBind(n string) *P       { return &P{K: "bind", Name: n} }
func pRel(op string, v *V) *P { return &P{K: "rel", Op: op, V: v} }

// precedence levels of the pattern grammar
func (p *P) level() int {
	switch p.K {
	case "as":
		return 0
	case "or":
		return 1
	case "and":
		return 2
	case "nilable":
		return 3
	}
	return 4
}

func (p *P) srcAt(min int) string {
	s := p.Src()
	if p.level() < min {
		return "(" + s + ")"
	}
	return s
}

func litSrc(v *V) string { return v.Src() }

// Src prints the pattern in Elk syntax.
func (p *P) Src() string {
	switch p.K {
	case "lit":
		return litSrc(p.V)
	case "const":
		return p.Name
	case "rel":
		return p.Op + " " + p.V.Src()
	case "range":
		s := ""
		if p.Lo != nil {
			s += p.Lo.Src()
		}
		s += p.Op
		if p.Hi != nil {
			s += p.Hi.Src()
		}
		return s
	case "regex":
		return "%/" + p.Re + "/"
	case "bind":
		return p.Name
	case "wild":
		return "_"
	case "must":
		return "must"
	case "rest":
		return "*" + p.Name
	case "as":
		return p.Sub[0].srcAt(1) + " as " + p.Name
	case "nilable":
		in := p.Sub[0]
		// `> 5?` would hand the `?` to the expression parser; a range with an open end needs delimiting as well
		if in.level() < 4 || in.K == "rel" || in.K == "range" {
			return "(" + in.Src() + ")?"
		}
		return in.Src() + "?"
	case "or":
		return p.Sub[0].srcAt(1) + " || " + p.Sub[1].srcAt(2)
	case "and":
		return p.Sub[0].srcAt(2) + " && " + p.Sub[1].srcAt(3)
	case "list", "tuple", "set":
		open := map[string]string{"list": "[", "tuple": "%[", "set": "^["}[p.K]
		parts := make([]string, len(p.Sub))
		for i, e := range p.Sub {
			parts[i] = e.Src()
		}
		return open + strings.Join(parts, ", ") + "]"
	case "map", "rec":
		open := map[string]string{"map": "{", "rec": "%{"}[p.K]
		parts := make([]string, len(p.Sub))
		for i, e := range p.Sub {
			k := p.Keys[i]
			switch {
			case e == nil:
				parts[i] = k.S
			case k.K == "sym":
				parts[i] = k.S + ": " + e.Src()
			default:
				parts[i] = k.Src() + " => " + e.Src()
			}
		}
		if len(parts) == 0 {
			return open + "}"
		}
		return open + " " + strings.Join(parts, ", ") + " }"
	case "obj", "iobj":
		parts := make([]string, len(p.Sub))
		for i, e := range p.Sub {
			if e == nil {
				parts[i] = p.Attrs[i]
			} else {
				parts[i] = p.Attrs[i] + ": " + e.Src()
			}
		}
		if p.K == "iobj" {
			return "@{" + strings.Join(parts, ", ") + "}"
		}
		n := p.Name
		if p.Qual {
			n = "::Std::" + n
		}
		return n + "(" + strings.Join(parts, ", ") + ")"
	}
	panic("P.Src: kind " + p.K)
}

// vars lists the variables the pattern declares, in source order.
func (p *P) vars(out *[]string) {
	if p == nil {
		return
	}
	switch p.K {
	case "bind":
		*out = append(*out, p.Name)
	case "rest":
		if p.Name != "" {
			*out = append(*out, p.Name)
		}
	case "as":
		p.Sub[0].vars(out)
		*out = append(*out, p.Name)
		return
	case "map", "rec":
		for i, e := range p.Sub {
			if e == nil {
				*out = append(*out, p.Keys[i].S)
			} else {
				e.vars(out)
			}
		}
		return
	case "obj", "iobj":
		for i, e := range p.Sub {
			if e == nil {
				*out = append(*out, p.Attrs[i])
			} else {
				e.vars(out)
			}
		}
		return
	}
	for _, e := range p.Sub {
		e.vars(out)
	}
}

// depth of the pattern tree (a leaf is 1)
func (p *P) depth() int {
	d := 0
	for _, e := range p.Sub {
		if e != nil {
			if x := e.depth(); x > d {
				d = x
			}
		}
	}
	return d + 1
}

func (p *P) walk(f func(*P)) {
	if p == nil {
		return
	}
	f(p)
	for _, e := range p.Sub {
		e.walk(f)
	}
}

// ---------------------------------------------------------------- reference matcher

type res int

const (
	no res = iota
	yes
	undet // the documented semantics do not say (the generator redraws such arms)
)

// menv is the state of one arm evaluation.
type menv struct {
	bound   map[string]*V // variables bound on the path taken so far
	touched map[string]bool
	// deepest nesting level at which a sub-pattern said no (1 = the arm's own pattern)
	failDepth int
	why       string // reason of an undet verdict
	// keys of known findings whose trigger this evaluation went through
	known map[string]bool
}

func (e *menv) hitKnown(k string) {
	if e.known == nil {
		e.known = map[string]bool{}
	}
	e.known[k] = true
}

func newEnv() *menv { return &menv{bound: map[string]*V{}, touched: map[string]bool{}} }

func (e *menv) bind(n string, v *V) { e.bound[n] = v; e.touched[n] = true }

func (e *menv) fail(d int) res {
	if d > e.failDepth {
		e.failDepth = d
	}
	return no
}

func (e *menv) undet(why string) res { e.why = why; return undet }

// builtin class membership: is value v an instance of the class / mixin `name`
// (names of Std as used in object patterns).
var kindClass = map[string]string{
	"int": "Int", "float": "Float", "str": "String", "char": "Char", "sym": "Symbol", "bool": "Bool", "nil": "Nil",
	"list": "ArrayList", "tuple": "ArrayTuple", "set": "HashSet", "map": "HashMap", "rec": "HashRecord", "pair": "Pair",
}

var rangeClass = map[string]string{"...": "ClosedRange", "<.<": "OpenRange", "..<": "RightOpenRange", "<..": "LeftOpenRange"}

// superclasses / included mixins (transitively) of the builtin classes the check uses in object patterns
var builtinAncestors = map[string][]string{
	"ArrayList":  {"List", "Tuple"},
	"ArrayTuple": {"Tuple"},
	"HashSet":    {"Set"},
	"HashMap":    {"Map", "Record"},
	"HashRecord": {"Record"},
	"Pair":       {"Tuple"}, // headers/pair.elh: a Pair is a 2-element tuple
}

func isInstance(v *V, class string) bool {
	if class == "Value" {
		return true
	}
	switch v.K {
	case "obj":
		return classIsA(v.S, class)
	case "range":
		return rangeClass[v.S] == class
	}
	c := kindClass[v.K]
	if c == class {
		return true
	}
	for _, a := range builtinAncestors[c] {
		if a == class {
			return true
		}
	}
	return false
}

// getter answers attribute `a` of value v as the object patterns read it.
func getter(v *V, a string) (*V, bool) {
	switch v.K {
	case "obj":
		if v.S == "PtO" && a == "y" {
			return vSym("ovr"), true // PtO overrides the getter
		}
		if a == "tag" && classIsA(v.S, "Pt") {
			// a method-defined getter, overridden in PtO
			if v.S == "PtO" {
				return vSym("pto"), true
			}
			return vSym("pt"), true
		}
		d := classByName(v.S)
		for i, n := range d.Attrs {
			if n == a {
				return v.E[i], true
			}
		}
		return nil, false
	case "pair":
		switch a {
		case "key":
			return v.E[0], true
		case "value":
			return v.E[1], true
		}
		return nil, false
	case "range":
		switch a {
		case "start":
			return v.E[0], true
		case "end":
			return v.E[1], true
		}
		return nil, false
	}
	if a == "length" {
		if n, ok := v.length(); ok {
			return vInt(n), true
		}
	}
	return nil, false
}

func numeric(k string) bool { return k == "int" || k == "float" }

func toF(v *V) float64 {
	if v.K == "int" {
		return float64(v.I)
	}
	return v.F
}

// laxEq is `=~` restricted to the operand kinds whose behaviour the value tests
// pin down: numbers compare by value across Int/Float, a one-character string
// equals the char, everything else like ==.
func laxEq(a, b *V) (bool, bool) {
	if numeric(a.K) && numeric(b.K) {
		if a.K == b.K {
			return eq(a, b), true
		}
		// large ints lose precision in float64; the pools only pair such ints with small floats
		return toF(a) == toF(b), true
	}
	if (a.K == "str" && b.K == "char") || (a.K == "char" && b.K == "str") {
		return a.S == b.S, true
	}
	if isScalar(a.K) && isScalar(b.K) {
		return eq(a, b), true
	}
	if isScalar(a.K) != isScalar(b.K) {
		// a collection or object is not laxly equal to a scalar
		return false, true
	}
	return false, false
}

var reCache = map[string]*regexp.Regexp{}

func goRegex(src string) *regexp.Regexp {
	if r, ok := reCache[src]; ok {
		return r
	}
	r := regexp.MustCompile(src)
	reCache[src] = r
	return r
}

// match decides whether p matches v at nesting level d, recording bindings.
func (e *menv) match(p *P, v *V, d int) res {
	switch p.K {
	case "lit", "const":
		if !isScalar(v.K) {
			// scalar == collection/object: different class
			return e.fail(d)
		}
		if eq(v, p.V) {
			return yes
		}
		return e.fail(d)
	case "bind":
		e.bind(p.Name, v)
		return yes
	case "wild":
		return yes
	case "must":
		if v.K == "nil" {
			return e.fail(d)
		}
		return yes
	case "as":
		e.touched[p.Name] = true
		r := e.match(p.Sub[0], v, d)
		if r == yes {
			e.bind(p.Name, v)
		}
		return r
	case "nilable":
		save := e.snapshot()
		r := e.match(p.Sub[0], v, d)
		if r != no {
			return r
		}
		e.restore(save)
		if v.K == "nil" {
			return yes
		}
		return e.fail(d)
	case "or":
		save := e.snapshot()
		r := e.match(p.Sub[0], v, d)
		if r != no {
			return r
		}
		e.restore(save)
		return e.match(p.Sub[1], v, d)
	case "and":
		r := e.match(p.Sub[0], v, d)
		if r != yes {
			return r
		}
		return e.match(p.Sub[1], v, d)
	case "rel":
		return e.matchRel(p, v, d)
	case "range":
		b := p.Lo
		if b == nil {
			b = p.Hi
		}
		if v.K != b.K {
			if numeric(v.K) && numeric(b.K) {
				return e.undet("range of one numeric class against a number of another")
			}
			if (v.K == "str" && b.K == "char") || (v.K == "char" && b.K == "str") {
				return e.undet("string/char range against char/string")
			}
			return e.fail(d)
		}
		if p.Lo != nil {
			c := cmp(v, p.Lo)
			if c < 0 || (c == 0 && (p.Op == "<.<" || p.Op == "<..")) {
				return e.fail(d)
			}
		}
		if p.Hi != nil {
			c := cmp(v, p.Hi)
			if c > 0 || (c == 0 && (p.Op == "<.<" || p.Op == "..<")) {
				return e.fail(d)
			}
		}
		return yes
	case "regex":
		if v.K != "str" {
			e.hitKnown(kRegexNonString)
			return e.fail(d)
		}
		if goRegex(p.Re).MatchString(v.S) {
			return yes
		}
		return e.fail(d)
	case "list", "tuple":
		return e.matchSeq(p, v, d)
	case "set":
		if v.K != "set" {
			return e.fail(d)
		}
		n, rest := 0, false
		for _, s := range p.Sub {
			if s.K == "rest" {
				rest = true
			} else {
				n++
			}
		}
		if (!rest && len(v.E) != n) || (rest && len(v.E) < n) {
			return e.fail(d)
		}
		for _, s := range p.Sub {
			if s.K == "lit" && !v.contains(s.V) {
				return e.fail(d + 1)
			}
		}
		return yes
	case "map", "rec":
		if !(v.K == "map" || (p.K == "rec" && v.K == "rec")) {
			return e.fail(d)
		}
		for i, s := range p.Sub {
			x := v.lookup(p.Keys[i])
			if s == nil {
				e.bind(p.Keys[i].S, x)
				continue
			}
			if r := e.match(s, x, d+1); r != yes {
				return r
			}
		}
		return yes
	case "obj", "iobj":
		if p.K == "obj" && !isInstance(v, p.Name) {
			return e.fail(d)
		}
		for i, s := range p.Sub {
			x, ok := getter(v, p.Attrs[i])
			if !ok {
				return e.undet("getter " + p.Attrs[i] + " on " + v.K)
			}
			if x == nil {
				return e.undet("open range bound")
			}
			if s == nil {
				e.bind(p.Attrs[i], x)
				continue
			}
			if r := e.match(s, x, d+1); r != yes {
				return r
			}
		}
		return yes
	}
	panic("match: kind " + p.K)
}

func (e *menv) matchRel(p *P, v *V, d int) res {
	o := p.V
	switch p.Op {
	case "==", "===":
		if isScalar(v.K) && eq(v, o) {
			return yes
		}
		return e.fail(d)
	case "!=", "!==":
		if isScalar(v.K) && eq(v, o) {
			return e.fail(d)
		}
		return yes
	case "=~", "!~":
		r, ok := laxEq(v, o)
		if !ok {
			return e.undet("lax equality of " + v.K + " and " + o.K)
		}
		if r == (p.Op == "=~") {
			return yes
		}
		return e.fail(d)
	}
	// < <= > >=: guarded by "the value is an instance of the operand's class"
	if v.K != o.K {
		return e.fail(d)
	}
	c := cmp(v, o)
	var r bool
	switch p.Op {
	case "<":
		r = c < 0
	case "<=":
		r = c <= 0
	case ">":
		r = c > 0
	case ">=":
		r = c >= 0
	}
	if r {
		return yes
	}
	return e.fail(d)
}

func (e *menv) matchSeq(p *P, v *V, d int) res {
	restAt := -1
	for i, s := range p.Sub {
		if s.K == "rest" {
			restAt = i
			if s.Name != "" {
				// the rest variable is created (as an empty list) before anything is checked
				e.touched[s.Name] = true
			}
		}
	}
	if !(v.K == "list" || (p.K == "tuple" && (v.K == "tuple" || v.K == "pair"))) {
		return e.fail(d)
	}
	if restAt < 0 {
		if len(v.E) != len(p.Sub) {
			return e.fail(d)
		}
		for i, s := range p.Sub {
			if r := e.match(s, v.E[i], d+1); r != yes {
				return r
			}
		}
		return yes
	}
	before, after := restAt, len(p.Sub)-1-restAt
	if len(v.E) < before+after {
		return e.fail(d)
	}
	for i := 0; i < before; i++ {
		if r := e.match(p.Sub[i], v.E[i], d+1); r != yes {
			return r
		}
	}
	if n := p.Sub[restAt].Name; n != "" {
		e.bind(n, &V{K: "list", E: append([]*V{}, v.E[before:len(v.E)-after]...)})
	}
	for i := 0; i < after; i++ {
		if r := e.match(p.Sub[restAt+1+i], v.E[len(v.E)-after+i], d+1); r != yes {
			return r
		}
	}
	return yes
}

type snap map[string]*V

func (e *menv) snapshot() snap {
	s := snap{}
	for k, v := range e.bound {
		s[k] = v
	}
	return s
}

// restore forgets bindings made by an alternative that failed (they stay "touched").
func (e *menv) restore(s snap) {
	e.bound = map[string]*V{}
	for k, v := range s {
		e.bound[k] = v
	}
}
