package c30

import (
	"fmt"
	"sort"
	"strconv"
	"strings"

	"pgregory.net/rapid"
)

// V is a JSON-able description of an Elk value of one of the kinds the check
// generates.  It is the harness's own model of the value: it can be printed as
// an Elk expression, as the text `inspect` gives, compared and looked into.
type V struct {
	K string  `json:"k"` // int float str char sym bool nil list tuple set map rec pair range obj
	I int64   `json:"i,omitempty"`
	F float64 `json:"f,omitempty"`
	S string  `json:"s,omitempty"` // str/char/sym text; range operator; class name of obj
	B bool    `json:"b,omitempty"`
	// list/tuple/set elements; map/rec values; pair {key, value}; range {start, end} (nil pointer = open);
	// obj attribute values in class order
	E []*V `json:"e,omitempty"`
	// map/rec keys (parallel to E)
	Ks []*V `json:"ks,omitempty"`
}

func vInt(i int64) *V     { return &V{K: "int", I: i} }
func vFloat(f float64) *V { return &V{K: "float", F: f} }
func vStr(s string) *V    { return &V{K: "str", S: s} }
func vChar(s string) *V   { return &V{K: "char", S: s} }
func vSym(s string) *V    { return &V{K: "sym", S: s} }
func vBool(b bool) *V     { return &V{K: "bool", B: b} }
func vNil() *V            { return &V{K: "nil"} }
func vList(es ...*V) *V   { return &V{K: "list", E: es} }

// classes the generated programs define
type classDef struct {
	Name   string
	Parent string
	Attrs  []string // all attributes including inherited, constructor order
	Types  []string // declared attribute types (Elk), parallel to Attrs
}

var classes = []classDef{
	{"Pt", "", []string{"x", "y"}, []string{"any", "any"}},
	{"Pt3", "Pt", []string{"x", "y", "z"}, []string{"any", "any", "any"}},
	{"Bx", "", []string{"v"}, []string{"Int"}},
	// a subclass that overrides an attribute getter with a method: an object pattern reads attributes
	// through the getter of the value's run-time class
	{"PtO", "Pt", []string{"x", "y"}, []string{"any", "any"}},
}

func classByName(n string) *classDef {
	for i := range classes {
		if classes[i].Name == n {
			return &classes[i]
		}
	}
	return nil
}

// isA reports whether class c is cls or inherits from it.
func classIsA(c, cls string) bool {
	for c != "" {
		if c == cls {
			return true
		}
		d := classByName(c)
		if d == nil {
			return false
		}
		c = d.Parent
	}
	return false
}

const prelude = `class Pt
  attr x: any, y: any
  init(@x, @y); end
  pure def tag: any then :pt
end
class Pt3 < Pt
  attr z: any
  init(@x, @y, @z); end
end
class Bx
  attr v: Int
  init(@v); end
end
class PtO < Pt
  pure def y: any then :ovr
  pure def tag: any then :pto
end
const C_INT = 7
const C_STR = "foo"
const C_SYM = :bar
const C_FLT = 2.5
def sh(v: any): String then (v as ::Std::Value).inspect
def eqv(a: any, b: any): String then sh((a as ::Std::Value) == b)
`

// constants of the prelude usable as constant patterns
var consts = []struct {
	Name string
	Val  *V
}{
	{"C_INT", vInt(7)}, {"C_STR", vStr("foo")}, {"C_SYM", vSym("bar")}, {"C_FLT", vFloat(2.5)},
}

func fmtFloat(f float64) string {
	s := strconv.FormatFloat(f, 'f', -1, 64)
	if !strings.ContainsAny(s, ".") {
		s += ".0"
	}
	return s
}

// Src renders the value as an Elk expression.
func (v *V) Src() string {
	switch v.K {
	case "int":
		return strconv.FormatInt(v.I, 10)
	case "float":
		return fmtFloat(v.F)
	case "str":
		return strconv.Quote(v.S)
	case "char":
		return "`" + v.S + "`"
	case "sym":
		return ":" + v.S
	case "bool":
		if v.B {
			return "true"
		}
		return "false"
	case "nil":
		return "nil"
	case "list", "tuple", "set":
		open := map[string]string{"list": "[", "tuple": "%[", "set": "^["}[v.K]
		parts := make([]string, len(v.E))
		for i, e := range v.E {
			parts[i] = e.Src()
		}
		return open + strings.Join(parts, ", ") + "]"
	case "map", "rec":
		open := map[string]string{"map": "{", "rec": "%{"}[v.K]
		parts := make([]string, len(v.E))
		for i, e := range v.E {
			k := v.Ks[i]
			if k.K == "sym" {
				parts[i] = k.S + ": " + e.Src()
			} else {
				parts[i] = k.Src() + " => " + e.Src()
			}
		}
		if len(parts) == 0 {
			return open + "}"
		}
		return open + " " + strings.Join(parts, ", ") + " }"
	case "pair":
		return "::Std::Pair(" + v.E[0].Src() + ", " + v.E[1].Src() + ")"
	case "range":
		s := "("
		if v.E[0] != nil {
			s += wrapNeg(v.E[0].Src())
		}
		s += v.S
		if v.E[1] != nil {
			s += wrapNeg(v.E[1].Src())
		}
		return s + ")"
	case "obj":
		parts := make([]string, len(v.E))
		for i, e := range v.E {
			parts[i] = e.Src()
		}
		return v.S + "(" + strings.Join(parts, ", ") + ")"
	}
	panic("Src: kind " + v.K)
}

func wrapNeg(s string) string {
	if strings.HasPrefix(s, "-") {
		return "(" + s + ")"
	}
	return s
}

// Inspect renders what Elk's `inspect` prints for the value (objects without
// their address; see normInspect).  ok is false when the text depends on hash
// iteration order (sets, maps and records with more than one element).
func (v *V) Inspect() (s string, ok bool) {
	ok = true
	switch v.K {
	case "int", "float", "str", "bool", "nil", "char", "sym":
		return v.Src(), true
	case "list", "tuple", "set":
		open := map[string]string{"list": "[", "tuple": "%[", "set": "^["}[v.K]
		if v.K == "set" && len(v.E) > 1 {
			ok = false
		}
		parts := make([]string, len(v.E))
		for i, e := range v.E {
			p, o := e.Inspect()
			parts[i] = p
			ok = ok && o
		}
		return open + strings.Join(parts, ", ") + "]", ok
	case "map", "rec":
		open := map[string]string{"map": "{", "rec": "%{"}[v.K]
		if len(v.E) > 1 {
			ok = false
		}
		parts := make([]string, len(v.E))
		for i, e := range v.E {
			p, o := e.Inspect()
			ok = ok && o
			ks, _ := v.Ks[i].Inspect()
			parts[i] = ks + " => " + p
		}
		return open + strings.Join(parts, ", ") + "}", ok
	case "pair":
		a, o1 := v.E[0].Inspect()
		b, o2 := v.E[1].Inspect()
		return "Std::Pair(" + a + ", " + b + ")", o1 && o2
	case "range":
		s := ""
		if v.E[0] != nil {
			s += v.E[0].Src()
		}
		s += v.S
		if v.E[1] != nil {
			s += v.E[1].Src()
		}
		return s, true
	case "obj":
		d := classByName(v.S)
		parts := make([]string, len(v.E))
		for i, e := range v.E {
			p, o := e.Inspect()
			ok = ok && o
			parts[i] = d.Attrs[i] + ": " + p
		}
		return v.S + "{" + strings.Join(parts, ", ") + "}", ok
	}
	panic("Inspect: kind " + v.K)
}

// hasObj reports whether an object occurs inside v (objects compare by identity).
func (v *V) hasObj() bool {
	if v == nil {
		return false
	}
	if v.K == "obj" {
		return true
	}
	for _, e := range v.E {
		if e.hasObj() {
			return true
		}
	}
	return false
}

func isScalar(k string) bool {
	switch k {
	case "int", "float", "str", "char", "sym", "bool", "nil":
		return true
	}
	return false
}

// eq is `==` on scalars: same class and same value.  Collections are never
// compared by the matcher (literal patterns are scalars), so eq on them is
// structural and only used for hash-collection keys/elements, which are scalars.
func eq(a, b *V) bool {
	if a.K != b.K {
		return false
	}
	switch a.K {
	case "int":
		return a.I == b.I
	case "float":
		return a.F == b.F
	case "str", "char", "sym":
		return a.S == b.S
	case "bool":
		return a.B == b.B
	case "nil":
		return true
	}
	return false
}

// cmp compares two scalars of the same comparable kind.
func cmp(a, b *V) int {
	switch a.K {
	case "int":
		switch {
		case a.I < b.I:
			return -1
		case a.I > b.I:
			return 1
		}
		return 0
	case "float":
		switch {
		case a.F < b.F:
			return -1
		case a.F > b.F:
			return 1
		}
		return 0
	case "str", "char":
		return strings.Compare(a.S, b.S)
	}
	panic("cmp: kind " + a.K)
}

// length is what the `length` getter answers.
func (v *V) length() (int64, bool) {
	switch v.K {
	case "str":
		return int64(len(v.S)), true // ASCII only
	case "list", "tuple", "set", "map", "rec", "pair":
		return int64(len(v.E)), true
	}
	return 0, false
}

// lookup is `coll[key]` on a map or record: nil when the key is absent.
func (v *V) lookup(k *V) *V {
	for i, kk := range v.Ks {
		if eq(kk, k) {
			return v.E[i]
		}
	}
	return vNil()
}

func (v *V) contains(x *V) bool {
	for _, e := range v.E {
		if eq(e, x) {
			return true
		}
	}
	return false
}

// ---------------------------------------------------------------- generation

func pick(t *rapid.T, n int, label string) int {
	if n <= 1 {
		return 0
	}
	v := 0
	for i := 0; (1 << i) < n; i++ {
		if rapid.Bool().Draw(t, label) {
			v |= 1 << i
		}
	}
	return v % n
}

// weighted choice, uniform coin flips underneath
func pickW(t *rapid.T, label string, w ...int) int {
	tot := 0
	for _, x := range w {
		tot += x
	}
	r := pick(t, tot, label)
	for i, x := range w {
		if r < x {
			return i
		}
		r -= x
	}
	return len(w) - 1
}

var intPool = []int64{0, 1, 2, 3, 4, 5, 6, 7, 9, 10, 15, 20, -1, -3, -7, 100, 4611686018427387903, -4611686018427387904}
var floatPool = []float64{0.0, 0.5, 1.0, 1.5, 2.5, -1.5, 3.25, 7.0, 10.0, 12.5}
var strPool = []string{"", "a", "b", "ab", "foo", "bar", "baz", "foo bar", "hello", "x1"}
var charPool = []string{"a", "b", "c", "z", "0"}
var symPool = []string{"foo", "bar", "baz", "a", "b"}

func genScalar(t *rapid.T, kind string) *V {
	if kind == "" {
		kind = []string{"int", "int", "int", "float", "str", "str", "char", "sym", "sym", "bool", "nil"}[pick(t, 11, "skind")]
	}
	switch kind {
	case "int":
		return vInt(intPool[pick(t, len(intPool), "int")])
	case "float":
		return vFloat(floatPool[pick(t, len(floatPool), "float")])
	case "str":
		return vStr(strPool[pick(t, len(strPool), "str")])
	case "char":
		return vChar(charPool[pick(t, len(charPool), "char")])
	case "sym":
		return vSym(symPool[pick(t, len(symPool), "sym")])
	case "bool":
		return vBool(rapid.Bool().Draw(t, "bool"))
	case "nil":
		return vNil()
	}
	panic("genScalar " + kind)
}

// genKey: scalar usable as hash key / set element (no floats, no collections)
func genKey(t *rapid.T) *V {
	k := genScalar(t, []string{"int", "str", "sym", "sym", "char"}[pick(t, 5, "kkind")])
	if k.K == "int" && k.I < 0 {
		// a map pattern key is a simplePattern: no sign
		k.I = -k.I
	}
	return k
}

func distinctKeys(t *rapid.T, n int) []*V {
	var ks []*V
	for len(ks) < n {
		k := genKey(t)
		dup := false
		for _, o := range ks {
			if eq(o, k) {
				dup = true
			}
		}
		if !dup {
			ks = append(ks, k)
		} else if k.K == "int" {
			k.I = int64(30 + len(ks))
			ks = append(ks, k)
		} else {
			ks = append(ks, vInt(int64(40+len(ks))))
		}
	}
	return ks
}

// genValue draws a value; depth is the remaining nesting allowance.
// inHash: inside a set/map/record (no objects there: they compare by identity).
func genValue(t *rapid.T, depth int, inHash bool) *V {
	c := 0
	if depth > 0 {
		c = pickW(t, "vshape", 20, 18, 10, 6, 9, 7, 4, 3, 9)
	}
	if inHash && c == 8 {
		c = 0
	}
	n := func(max int) int { return rapid.IntRange(0, max).Draw(t, "n") }
	switch c {
	case 0:
		return genScalar(t, "")
	case 1, 2:
		v := &V{K: "list"}
		if c == 2 {
			v.K = "tuple"
		}
		for i, k := 0, n(4); i < k; i++ {
			v.E = append(v.E, genValue(t, depth-1, inHash))
		}
		return v
	case 3:
		v := &V{K: "set"}
		v.E = distinctKeys(t, n(4))
		return v
	case 4, 5:
		v := &V{K: "map"}
		if c == 5 {
			v.K = "rec"
		}
		v.Ks = distinctKeys(t, n(3))
		for range v.Ks {
			v.E = append(v.E, genValue(t, depth-1, true))
		}
		return v
	case 6:
		return &V{K: "pair", E: []*V{genKey(t), genValue(t, depth-1, inHash)}}
	case 7:
		lo := intPool[pick(t, 12, "rlo")]
		hi := lo + int64(rapid.IntRange(0, 9).Draw(t, "rlen"))
		op := []string{"...", "<.<", "..<", "<.."}[pick(t, 4, "rop")]
		return &V{K: "range", S: op, E: []*V{vInt(lo), vInt(hi)}}
	default:
		d := &classes[pick(t, len(classes), "class")]
		v := &V{K: "obj", S: d.Name}
		for _, ty := range d.Types {
			if ty == "Int" {
				v.E = append(v.E, genScalar(t, "int"))
			} else {
				v.E = append(v.E, genValue(t, depth-1, inHash))
			}
		}
		return v
	}
}

func (v *V) String() string { return v.Src() }

func sortedKeys(m map[string]bool) []string {
	var ks []string
	for k := range m {
		ks = append(ks, k)
	}
	sort.Strings(ks)
	return ks
}

var _ = fmt.Sprint
