package c30

import (
	"fmt"
	"os"
	"testing"
	"time"

	sb "verif/internal/sandbox"
)

// TestProbe is a developer helper: C30_PROBE=<file.elk> runs the file in the worker and prints
// what came back.  It is skipped in every normal run.
func TestProbe(t *testing.T) {
	f := os.Getenv("C30_PROBE")
	if f == "" {
		t.Skip("developer helper")
	}
	src, err := os.ReadFile(f)
	if err != nil {
		t.Fatal(err)
	}
	w := sb.New("debug")
	defer w.Close()
	res := w.Do(sb.Req{Mode: "run", Source: string(src)}, 30*time.Second)
	class, detail := sb.Classify(res)
	fmt.Printf("class=%s detail=%s\n", class, clip(detail, 3000))
	if len(res.Resp.Runs) > 0 {
		r := res.Resp.Runs[0]
		for _, d := range r.Diags {
			fmt.Printf("diag %s %d:%d %s\n", d.Severity, d.Line, d.Col, d.Msg)
		}
		fmt.Printf("stdout:\n%s", r.Stdout)
		if r.ErrInspect != "" {
			fmt.Printf("error: %s %s\n", r.ErrClass, r.ErrInspect)
		}
	}
}
