package c30

import (
	"fmt"
	"strings"
	"testing"

	"pgregory.net/rapid"

	"verif/internal/pbt"
	sb "verif/internal/sandbox"
)

// The checker never treats a `switch` as exhaustive (an else-less switch always gets `nil` added to
// its type), and the pattern checker's "fully captured type" result is consumed in exactly one
// place: do/catch.  A method that throws a value of type T inside a do/catch and does not declare
// `! T` is accepted iff the catch patterns fully capture T.  That is the accepted-as-exhaustive
// form this test exercises: whenever the checker accepts, no inhabitant of T may escape.

type ExhCase struct {
	TySrc string `json:"ty"`   // declared type of the thrown parameter
	Lits  bool   `json:"lits"` // T is a union of literal types
	Inh   []*V   `json:"inh"`  // inhabitants of T the program throws
	Arms  []*P   `json:"arms"` // catch patterns
	Src   string `json:"src"`
}

type exhTy struct {
	src  string
	lits bool
	inh  []*V
}

var exhTypes = []exhTy{
	{"Bool", false, []*V{vBool(true), vBool(false)}},
	{"bool", false, []*V{vBool(true), vBool(false)}},
	{"Bool?", false, []*V{vBool(true), vBool(false), vNil()}},
	{"Int?", false, []*V{vInt(0), vInt(7), vInt(-3), vNil()}},
	{"Int | String", false, []*V{vInt(1), vInt(20), vStr(""), vStr("foo")}},
	{"String | Symbol | nil", false, []*V{vStr("a"), vStr("hello"), vSym("foo"), vSym("b"), vNil()}},
	{"Int | Float", false, []*V{vInt(2), vFloat(2.5), vFloat(7.0), vInt(7)}},
	{"1 | 2 | 3", true, []*V{vInt(1), vInt(2), vInt(3)}},
	{":a | :b", true, []*V{vSym("a"), vSym("b")}},
	{"\"x\" | \"y\" | nil", true, []*V{vStr("x"), vStr("y"), vNil()}},
	{"true | 1 | :a", true, []*V{vBool(true), vInt(1), vSym("a")}},
	{"Pt | nil", false, []*V{{K: "obj", S: "Pt", E: []*V{vInt(1), vStr("a")}}, {K: "obj", S: "Pt3", E: []*V{vInt(1), vInt(2), vInt(3)}}, vNil()}},
	{"Pt3 | Bx", false, []*V{{K: "obj", S: "Pt3", E: []*V{vInt(1), vInt(2), vInt(3)}}, {K: "obj", S: "Bx", E: []*V{vInt(4)}}}},
	{"Char | Int", false, []*V{vChar("a"), vChar("z"), vInt(5)}},
}

func genExhArm(t *rapid.T, ty exhTy, gg *g, last bool) *P {
	v := ty.inh[pick(t, len(ty.inh), "inh")]
	hasNil := false
	for _, x := range ty.inh {
		if x.K == "nil" {
			hasNil = true
		}
	}
	w := []int{30, 10, 14, 8, 8, 8, 8, 6, 8}
	if last {
		w[1] = 40 // end with a catch-all more often, so that acceptance is not rare
	}
	var p *P
	switch pickW(t, "exharm", w...) {
	case 0: // literal (for class members also another literal of the class)
		if isScalar(v.K) {
			if !ty.lits && v.K != "nil" && v.K != "bool" && gg.pct(30, "otherlit") {
				p = pLit(gg.other(v))
			} else {
				p = pLit(v)
			}
		}
	case 1:
		p = pBind(gg.fresh())
	case 2: // class pattern
		switch {
		case v.K == "obj":
			p = &P{K: "obj", Name: v.S}
			if v.S == "Pt3" && gg.pct(50, "parent") {
				p.Name = "Pt"
			}
			if gg.pct(40, "attr") {
				p.Attrs = []string{classByName(p.Name).Attrs[0]}
				if gg.pct(60, "bindattr") {
					p.Sub = []*P{pBind(gg.fresh())}
				} else {
					p.Sub = []*P{gg.leaf(v.E[0], tyAny)}
					if classByName(p.Name).Types[0] == "Int" {
						p.Sub = []*P{gg.leaf(v.E[0], tyInt)}
					}
				}
			}
		case v.K != "nil" && !ty.lits:
			p = &P{K: "obj", Name: kindClass[v.K], Qual: gg.pct(50, "qual")}
			if v.K == "str" && gg.pct(50, "len") {
				p.Attrs = []string{"length"}
				if gg.pct(50, "bindlen") {
					p.Sub = []*P{pBind(gg.fresh())}
				} else {
					p.Sub = []*P{pRel(">", vInt(1))}
				}
			}
		}
	case 3:
		if isScalar(v.K) {
			p = pRel([]string{"==", "!=", "===", "!=="}[pick(t, 4, "eqop")], v)
		}
	case 4:
		if hasNil {
			p = pRel("!=", vNil())
			if gg.pct(40, "must") {
				p = &P{K: "must"}
			}
		}
	case 5:
		if hasNil {
			in := genExhArm(t, ty, gg, false)
			if in.K != "as" && in.K != "or" && in.K != "and" {
				p = &P{K: "nilable", Sub: []*P{in}}
			}
		}
	case 6:
		p = &P{K: "or", Sub: []*P{genExhArm(t, ty, gg, false), genExhArm(t, ty, gg, false)}}
		// the same variable may not be declared with two types
		var vs []string
		p.vars(&vs)
		if len(vs) > 0 {
			p = nil
		}
	case 7:
		if (v.K == "int" || v.K == "float" || v.K == "char") && !ty.lits && rangeable(v) {
			p = gg.leaf(v, only(v.K))
			if p.K != "range" && p.K != "rel" {
				p = pRel(">=", v)
			}
		}
	case 8:
		in := genExhArm(t, ty, gg, false)
		if in.K != "as" {
			p = &P{K: "as", Sub: []*P{in}, Name: gg.fresh()}
		}
	}
	if p == nil {
		if isScalar(v.K) {
			return pLit(v)
		}
		return pBind(gg.fresh())
	}
	return p
}

func (c ExhCase) source() string {
	var b strings.Builder
	b.WriteString(prelude)
	fmt.Fprintf(&b, "def f(v: %s): Int\n  do\n    throw v\n", c.TySrc)
	for i, a := range c.Arms {
		fmt.Fprintf(&b, "  catch %s\n    %d\n", a.Src(), i)
	}
	b.WriteString("  end\nend\n")
	for i, v := range c.Inh {
		fmt.Fprintf(&b, "r%d := do\n  f(%s)\ncatch zz\n  -9\nend\nprintln(\"%d \" + sh(r%d))\n", i, v.Src(), i, i)
	}
	return b.String()
}

func genExh(t *rapid.T) ExhCase {
	ty := exhTypes[pick(t, len(exhTypes), "ty")]
	c := ExhCase{TySrc: ty.src, Lits: ty.lits, Inh: ty.inh}
	n := 1 + pickW(t, "narms", 20, 30, 30, 20)
	for i := 0; i < n; i++ {
		var a *P
		for try := 0; ; try++ {
			gg := &g{t: t, used: map[string]bool{}, excl: map[string]bool{}}
			a = genExhArm(t, ty, gg, i == n-1)
			// an arm whose verdict for some inhabitant is not pinned down (an Int range against a
			// Float) is drawn again
			ok := true
			for _, v := range ty.inh {
				if newEnv().match(a, v, 1) == undet {
					ok = false
				}
			}
			if ok {
				break
			}
			if try > 6 {
				a = pBind("v1")
				break
			}
		}
		c.Arms = append(c.Arms, a)
	}
	c.Src = c.source()
	return c
}

func exhOracle(c ExhCase, ctx *pbt.Ctx) error {
	src := c.source()
	res, class, detail := runProgram(src)
	ctx.Label("outcome:" + class)
	switch class {
	case sb.Timeout:
		pbt.Inconclusive()
		return nil
	case sb.Fatal, sb.GoPanic, sb.StackLimit:
		return fmt.Errorf("interpreter crashed (%s):\n%s\n--- program\n%s", class, clip(detail, 1500), clip(src, 3000))
	case sb.Rejected:
		var other []string
		for _, d := range res.Resp.Runs[0].Diags {
			if d.Severity == "FAIL" && !strings.Contains(d.Msg, "must be caught") {
				other = append(other, fmt.Sprintf("%d:%d %s", d.Line, d.Col, d.Msg))
			}
		}
		if len(other) > 0 {
			return fmt.Errorf("REJECTED by the checker for another reason than an uncaught throw: %s\n--- program\n%s", clip(strings.Join(other, " | "), 800), clip(src, 3000))
		}
		ctx.Label("checker:not_exhaustive")
		return nil
	}
	ctx.Label("checker:accepted_as_exhaustive")
	catchAll := false
	for _, a := range c.Arms {
		if a.K == "bind" || (a.K == "as" && a.Sub[0].K == "bind") {
			catchAll = true
		}
	}
	if !catchAll {
		ctx.Label("accepted_without_catch_all")
	}
	run := res.Resp.Runs[0]
	got := strings.Split(strings.TrimRight(run.Stdout, "\n"), "\n")
	later := false
	for i, v := range c.Inh {
		vd := judge(&Sw{Subj: v, Arms: c.Arms})
		if vd.undet != "" {
			return fmt.Errorf("GENERATOR: outside the modelled semantics: %s", vd.undet)
		}
		want := fmt.Sprintf("%d %d", i, vd.sel)
		g := "<end of output>"
		if i < len(got) {
			g = got[i]
		}
		if vd.sel < 0 {
			return fmt.Errorf("the checker accepted the catch clauses as exhaustive for `%s`, but no pattern matches the inhabitant %s (program printed %q; -9 = the value escaped)\n--- program\n%s", c.TySrc, v.Src(), g, clip(src, 3000))
		}
		if g != want {
			return fmt.Errorf("thrown %s: want %q got %q (-9 = the value escaped although the checker accepted the catch clauses as exhaustive)\n--- program\n%s", v.Src(), want, g, clip(src, 3000))
		}
		if vd.sel > 0 {
			later = true
		}
	}
	if run.ErrInspect != "" {
		return fmt.Errorf("uncaught error: %s %s", run.ErrClass, clip(run.ErrInspect, 300))
	}
	for _, a := range c.Arms {
		a.walk(func(p *P) { ctx.Label("pat:" + p.K) })
	}
	if later && len(c.Arms) > 1 {
		ctx.NonTrivial(src)
	}
	return nil
}

func TestExhaustive(t *testing.T) {
	pbt.Rule("exhaustive", "a method throws its parameter (declared as Bool, a nilable, a union of classes, a union of literal types, prelude classes) inside do/catch with 1-4 generated catch patterns and declares no `!` type: the checker accepts that only if the patterns fully capture the type (the one place where the pattern checker's exhaustiveness result is used; a `switch` is never treated as exhaustive); when it accepts, every inhabitant thrown must be caught by the arm the reference matcher selects and none may escape; rejections for an uncaught throw are counted, not failures; non-trivial = accepted as exhaustive, >= 2 arms and some inhabitant is caught by an arm other than the first")
	worker = sb.New("debug")
	defer worker.Close()
	pbt.Run(t, pbt.Prop[ExhCase]{Name: "exhaustive", Quick: 1500, Thorough: 12000, Gen: genExh, Oracle: exhOracle,
		Sample: func(c ExhCase) any { return map[string]any{"src": c.Src} }})
}
