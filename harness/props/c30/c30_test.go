package c30

import (
	"fmt"
	"regexp"
	"strings"
	"testing"
	"time"

	"pgregory.net/rapid"

	"verif/internal/pbt"
	sb "verif/internal/sandbox"
)

func TestMain(m *testing.M) { pbt.Main(m, "C30") }

var worker *sb.Worker

// Sw is one pattern-matching construct of a generated program.
type Sw struct {
	Ctx    string `json:"ctx"`    // switch | match (if/elsif chain of `match`) | catch (do/catch) | var | val (pattern declaration) | for (for-in over a one-element list)
	Method bool   `json:"method"` // subject is a method parameter instead of a top-level variable
	Ty     *Ty    `json:"ty"`
	Subj   *V     `json:"subj"`
	Arms   []*P   `json:"arms"`
	Else   bool   `json:"else"`
}

// Case is one generated program: a batch of constructs.
type Case struct {
	Sws []*Sw  `json:"sws"`
	Src string `json:"src"` // for the reader; the oracle prints the program again from Sws
}

// ---------------------------------------------------------------- model

// verdict of the reference matcher for one construct
type verdict struct {
	sel       int // selected arm, -1 = none
	env       *menv
	undet     string // non-empty: an arm up to the selected one is outside the pinned-down semantics
	deepFail  bool   // an earlier arm failed at nesting depth >= 2
	failDepth int
	known     map[string]bool // known-finding triggers met while evaluating the arms
}

func judge(s *Sw) verdict {
	vd := verdict{sel: -1}
	for i, a := range s.Arms {
		e := newEnv()
		r := e.match(a, s.Subj, 1)
		for k := range e.known {
			if vd.known == nil {
				vd.known = map[string]bool{}
			}
			vd.known[k] = true
		}
		switch r {
		case undet:
			vd.undet = fmt.Sprintf("arm %d: %s", i, e.why)
			return vd
		case yes:
			vd.sel, vd.env = i, e
			return vd
		}
		if e.failDepth >= 2 {
			vd.deepFail = true
		}
		if e.failDepth > vd.failDepth {
			vd.failDepth = e.failDepth
		}
	}
	return vd
}

// ---------------------------------------------------------------- printing

func armVars(p *P) []string {
	var vs []string
	p.vars(&vs)
	return vs
}

// printLine is the Elk statement an arm runs: construct id, arm index and every variable of the arm.
// Values whose inspect text depends on hash order are compared with the expected literal instead
// (pred: what the model says the variable holds when this arm is the selected one).
func printLine(id, arm int, p *P, pred map[string]*V) string {
	parts := []string{fmt.Sprintf("\"%d %d \"", id, arm)}
	for i, n := range armVars(p) {
		sep := ""
		if i > 0 {
			sep = "|"
		}
		parts = append(parts, fmt.Sprintf("\"%s%s=\"", sep, n))
		if v, ok := pred[n]; ok {
			if _, det := v.Inspect(); !det {
				if v.hasObj() {
					// hash-ordered text and identity-compared objects in one value: not compared
					parts = append(parts, "\"?\"")
				} else {
					parts = append(parts, fmt.Sprintf("eqv(%s, %s)", n, v.Src()))
				}
				continue
			}
		}
		parts = append(parts, "sh("+n+")")
	}
	return "println(" + strings.Join(parts, " + ") + ")"
}

func indent(s, by string) string {
	ls := strings.Split(strings.TrimRight(s, "\n"), "\n")
	for i := range ls {
		ls[i] = by + ls[i]
	}
	return strings.Join(ls, "\n") + "\n"
}

// render prints construct number id; vd is the model's verdict (it only chooses the printing form
// of hash-ordered values).
func (s *Sw) render(id int, vd verdict) string {
	var b strings.Builder
	pred := func(i int) map[string]*V {
		if vd.sel == i && vd.env != nil {
			return vd.env.bound
		}
		return nil
	}
	subj := fmt.Sprintf("s%d", id)
	body := func() string {
		var c strings.Builder
		switch s.Ctx {
		case "switch":
			fmt.Fprintf(&c, "switch %s\n", subj)
			for i, a := range s.Arms {
				fmt.Fprintf(&c, "case %s\n  %s\n  %d\n", a.Src(), printLine(id, i, a, pred(i)), i)
			}
			if s.Else {
				fmt.Fprintf(&c, "else\n  println(\"%d -\")\n  -1\n", id)
			}
			c.WriteString("end\n")
		case "match":
			for i, a := range s.Arms {
				kw := "elsif"
				if i == 0 {
					kw = "if"
				}
				// every arm looks at its own alias of the subject: the checker narrows a variable
				// negatively along an if/elsif chain and would reject a repeated literal
				fmt.Fprintf(&c, "%s %s_%d match %s\n  %s\n  %d\n", kw, subj, i, a.srcAt(1), printLine(id, i, a, pred(i)), i)
			}
			if s.Else {
				fmt.Fprintf(&c, "else\n  println(\"%d -\")\n  -1\n", id)
			}
			c.WriteString("end\n")
		case "catch":
			fmt.Fprintf(&c, "do\n  throw unchecked %s\n  -2\n", subj)
			for i, a := range s.Arms {
				fmt.Fprintf(&c, "catch %s\n  %s\n  %d\n", a.Src(), printLine(id, i, a, pred(i)), i)
			}
			// an uncaught value would end the program: the catch-all plays the else branch
			fmt.Fprintf(&c, "catch zz\n  println(\"%d -\")\n  -1\n", id)
			c.WriteString("end\n")
		case "var", "val":
			a := s.Arms[0]
			// `var x ...` is an ordinary declaration: a pattern that begins with an identifier is parenthesised
			ps := a.srcAt(1)
			if ps[0] == '_' || (ps[0] >= 'a' && ps[0] <= 'z') {
				ps = "(" + ps + ")"
			}
			fmt.Fprintf(&c, "do\n  %s %s = %s\n  %s\n  0\n", s.Ctx, ps, subj, printLine(id, 0, a, pred(0)))
			// Std::PatternNotMatchedError is not declared in the headers, so it cannot be named in a catch
			fmt.Fprintf(&c, "catch zz\n  println(\"%d - \" + (zz as ::Std::Value).class.name)\n  -1\n", id)
			c.WriteString("end\n")
		case "for":
			a := s.Arms[0]
			fmt.Fprintf(&c, "do\n  for %s in [%s]\n    %s\n  end\n  0\n", a.Src(), subj, printLine(id, 0, a, pred(0)))
			fmt.Fprintf(&c, "catch zz\n  println(\"%d - \" + (zz as ::Std::Value).class.name)\n  -1\n", id)
			c.WriteString("end\n")
		}
		return c.String()
	}()
	pre := ""
	if s.Ctx == "match" {
		for i := range s.Arms {
			pre += fmt.Sprintf("var %s_%d: %s = %s\n", subj, i, s.Ty.Src, subj)
		}
	}
	if s.Method {
		fmt.Fprintf(&b, "def f%d(%s: %s): Int?\n", id, subj, s.Ty.Src)
		b.WriteString(indent(pre+body, "  "))
		b.WriteString("end\n")
		fmt.Fprintf(&b, "println(\"%d r=\" + sh(f%d(%s)))\n", id, id, s.Subj.Src())
	} else {
		fmt.Fprintf(&b, "var %s: %s = %s\n%s", subj, s.Ty.Src, s.Subj.Src(), pre)
		fmt.Fprintf(&b, "r%d := %s", id, body)
		fmt.Fprintf(&b, "println(\"%d r=\" + sh(r%d))\n", id, id)
	}
	return b.String()
}

// skipped reports the active known finding (if any) that keeps construct vd out of the program.
func skipped(vd verdict) string {
	for _, k := range sortedKeys(vd.known) {
		if pbt.KnownActive(k) {
			return k
		}
	}
	return ""
}

func (c Case) source() (string, []verdict) {
	var b strings.Builder
	b.WriteString(prelude)
	vds := make([]verdict, len(c.Sws))
	for i, s := range c.Sws {
		vds[i] = judge(s)
		if skipped(vds[i]) != "" {
			continue
		}
		b.WriteString(s.render(i, vds[i]))
	}
	return b.String(), vds
}

// ---------------------------------------------------------------- generation

func genSw(t *rapid.T, excl map[string]bool) *Sw {
	s := &Sw{}
	s.Subj = genValue(t, 3, false)
	s.Ctx = []string{"switch", "switch", "switch", "switch", "switch", "switch", "match", "match", "catch", "catch", "var", "val", "for"}[pick(t, 13, "ctx")]
	s.Method = pick(t, 100, "method") < 35
	s.Ty = subjectType(t, s.Subj)
	s.Else = pick(t, 100, "else") < 50
	if s.Ctx == "catch" {
		s.Ty = tyAny // catch patterns are checked against `any`
		s.Else = true
		if s.Subj.K == "nil" {
			s.Subj = vInt(3)
		}
	}
	narms := 1 + pickW(t, "narms", 5, 20, 30, 25, 12, 8)
	single := s.Ctx == "var" || s.Ctx == "val" || s.Ctx == "for"
	if single {
		narms = 1
		s.Else = true
	}
	// a prefix of arms that (mostly) miss, then one that (mostly) hits, then whatever
	hitAt := pick(t, narms+1, "hitat")
	for i := 0; i < narms; i++ {
		var a *P
		for try := 0; ; try++ {
			gg := &g{t: t, used: map[string]bool{}, excl: excl}
			src := s.Subj
			ty := s.Ty
			switch {
			case i == hitAt:
				gg.miss = 0
			case i < hitAt:
				gg.miss = 30
			default:
				gg.miss = 15
			}
			if i != hitAt && pick(t, 100, "unrelated") < 25 {
				// a pattern made for some other value
				gg.miss = 5
				src = genValue(t, 2, false)
				if !ty.Any {
					if k := ty.Kinds[pick(t, len(ty.Kinds), "tk")]; isScalar(k) {
						src = genScalar(t, k)
					} else {
						src = s.Subj
						gg.miss = 40
					}
				}
			}
			if i < hitAt {
				// an arm before the intended hit should fail: raise the miss rate on every retry
				gg.miss += 25 * try
			}
			a = gg.derive(src, ty, 1)
			e := newEnv()
			r := e.match(a, s.Subj, 1)
			if r == yes && i < hitAt && try < 4 {
				continue
			}
			if r != undet || try > 6 {
				if r == undet {
					a = pLit(vSym("none"))
					if !ty.has("sym") {
						a = pBind("v1")
					}
				}
				break
			}
		}
		if s.Ctx == "val" || s.Ctx == "for" {
			// `^[_, _]` is refused in a value declaration and a for pattern ("local value `_` cannot be reassigned")
			wilds := 0
			a.walk(func(p *P) {
				if p.K == "wild" {
					wilds++
				}
			})
			if wilds > 1 {
				s.Ctx = "var"
			}
		}
		if !compat(a, s.Ty) {
			a = pBind("v1")
		}
		if single && len(armVars(a)) == 0 {
			// a pattern declaration has to declare something
			a = &P{K: "as", Sub: []*P{a}, Name: "v9"}
		}
		s.Arms = append(s.Arms, a)
	}
	return s
}

func gen(t *rapid.T) Case {
	excl := map[string]bool{}
	for _, k := range knownKeys {
		if pbt.KnownActive(k) {
			excl[k] = true
		}
	}
	n := rapid.IntRange(1, 10).Draw(t, "nsw")
	c := Case{}
	for i := 0; i < n; i++ {
		c.Sws = append(c.Sws, genSw(t, excl))
	}
	c.Src, _ = c.source()
	return c
}

// known findings, see known.C30.json
//
// kUnassigned: a variable declared in an alternative (`||`, `?`) that the taken path never assigns is
// typed nilable by the checker but its slot is never initialised: it reads `undefined` or whatever an
// earlier expression left there.  While the finding is active such variables are not compared.
const kUnassigned = "alt-unassigned-variable"

// kRegexNonString: a regex pattern reached by a value that is not a String throws a TypeError
// instead of not matching.  Constructs in which that happens are left out of the program.
const kRegexNonString = "regex-pattern-non-string"

var knownKeys = []string{kUnassigned, kRegexNonString}

// ---------------------------------------------------------------- oracle

// an object's inspect text carries its address, a list's its spare capacity (`[1, 2]:3`)
var addrRe = regexp.MustCompile("&: 0x[0-9a-f]+(, )?|(\\]):[0-9]+")

func normInspect(s string) string { return addrRe.ReplaceAllString(s, "$2") }

// expectLines: what construct id must print. A variable the arm leaves unbound on the path taken
// reads nil when nothing ever assigned it and is unspecified ("*") when a failed alternative did.
func expectLines(id int, s *Sw, vd verdict, lenient bool, ctx *pbt.Ctx) []string {
	var out []string
	res := "nil"
	switch {
	case vd.sel >= 0:
		var parts []string
		for _, n := range armVars(s.Arms[vd.sel]) {
			if v, ok := vd.env.bound[n]; ok {
				txt, det := v.Inspect()
				if !det {
					txt = "true"
					if v.hasObj() {
						txt = "?"
					}
				}
				parts = append(parts, n+"="+txt)
			} else if vd.env.touched[n] {
				parts = append(parts, n+"=*")
			} else if lenient {
				ctx.Excluded(kUnassigned)
				parts = append(parts, n+"=*")
			} else {
				parts = append(parts, n+"=nil")
			}
		}
		out = append(out, fmt.Sprintf("%d %d %s", id, vd.sel, strings.Join(parts, "|")))
		res = fmt.Sprint(vd.sel)
	case s.Ctx == "var" || s.Ctx == "val" || s.Ctx == "for":
		out = append(out, fmt.Sprintf("%d - Std::PatternNotMatchedError", id))
		res = "-1"
	case s.Else:
		out = append(out, fmt.Sprintf("%d -", id))
		res = "-1"
	}
	out = append(out, fmt.Sprintf("%d r=%s", id, res))
	return out
}

func lineMatches(want, got string) bool {
	if !strings.Contains(want, "=*") {
		return want == got
	}
	// an unspecified variable may hold anything (even text with `|` in it)
	parts := strings.Split(want, "=*")
	for i := range parts {
		parts[i] = regexp.QuoteMeta(parts[i])
	}
	re, err := regexp.Compile("^(?s)" + strings.Join(parts, "=.*") + "$")
	return err == nil && re.MatchString(got)
}

func clip(s string, n int) string {
	if len(s) > n {
		return s[:n] + "…"
	}
	return s
}

// runProgram runs src in the worker.  A worker death is only believed when it happens twice in a
// row: on a badly overloaded machine the child can be killed for reasons that have nothing to do
// with the program (the search runs next to a dozen other builds).
func runProgram(src string) (sb.Result, string, string) {
	res := worker.Do(sb.Req{Mode: "run", Source: src}, 60*time.Second)
	class, detail := sb.Classify(res)
	if class == sb.Fatal || class == sb.Timeout {
		res = worker.Do(sb.Req{Mode: "run", Source: src}, 120*time.Second)
		class, detail = sb.Classify(res)
	}
	return res, class, detail
}

func oracle(c Case, ctx *pbt.Ctx) error {
	if len(c.Sws) == 0 {
		return nil
	}
	src, vds := c.source()
	var want []string
	for i, s := range c.Sws {
		if k := skipped(vds[i]); k != "" {
			ctx.Excluded(k)
			continue
		}
		if vds[i].undet != "" {
			return fmt.Errorf("GENERATOR: construct %d is outside the modelled semantics: %s", i, vds[i].undet)
		}
		want = append(want, expectLines(i, s, vds[i], pbt.KnownActive(kUnassigned), ctx)...)
	}
	res, class, detail := runProgram(src)
	ctx.Label("outcome:" + class)
	switch class {
	case sb.Timeout:
		pbt.Inconclusive()
		return nil
	case sb.Fatal, sb.GoPanic, sb.StackLimit:
		return fmt.Errorf("interpreter crashed (%s):\n%s\n--- program\n%s", class, clip(detail, 1500), clip(src, 3000))
	case sb.Rejected:
		var ds []string
		for _, d := range res.Resp.Runs[0].Diags {
			if d.Severity == "FAIL" {
				ds = append(ds, fmt.Sprintf("%d:%d %s", d.Line, d.Col, d.Msg))
			}
		}
		return fmt.Errorf("REJECTED by the checker: %s\n--- program\n%s", clip(strings.Join(ds, " | "), 800), clip(src, 3000))
	}
	run := res.Resp.Runs[0]
	got := strings.Split(strings.TrimRight(normInspect(run.Stdout), "\n"), "\n")
	if run.Stdout == "" {
		got = nil
	}
	for i := 0; i < len(want) || i < len(got); i++ {
		w, g := "<end of output>", "<end of output>"
		if i < len(want) {
			w = want[i]
		}
		if i < len(got) {
			g = got[i]
		}
		if i >= len(want) || i >= len(got) || !lineMatches(w, g) {
			id := -1
			fmt.Sscanf(w, "%d", &id)
			if id < 0 {
				fmt.Sscanf(g, "%d", &id)
			}
			what := ""
			if id >= 0 && id < len(c.Sws) {
				s := c.Sws[id]
				what = fmt.Sprintf("\n--- construct %d (%s, subject %s : %s)\n%s", id, s.Ctx, s.Subj.Src(), s.Ty.Src, s.render(id, vds[id]))
			}
			errtxt := ""
			if run.ErrInspect != "" {
				errtxt = fmt.Sprintf("\n--- uncaught error: %s %s", run.ErrClass, clip(run.ErrInspect, 300))
			}
			return fmt.Errorf("selected arm / bindings differ from the reference matcher at output line %d: want %q got %q%s%s", i+1, w, g, errtxt, clip(what, 2500))
		}
	}
	if run.ErrInspect != "" {
		return fmt.Errorf("uncaught error after complete output: %s %s", run.ErrClass, clip(run.ErrInspect, 300))
	}
	// evidence
	nt := 0
	var key strings.Builder
	for i, s := range c.Sws {
		vd := vds[i]
		if skipped(vd) != "" {
			continue
		}
		ctx.Label("ctx:" + s.Ctx)
		if s.Ty.Any {
			ctx.Label("subject:any")
		} else {
			ctx.Label("subject:typed")
		}
		ctx.Label("subjkind:" + s.Subj.K)
		switch {
		case vd.sel == 0:
			ctx.Label("sel:first")
		case vd.sel > 0:
			ctx.Label("sel:later")
		case s.Else:
			ctx.Label("sel:else")
		default:
			ctx.Label("sel:none")
		}
		ctx.Label(fmt.Sprintf("faildepth:%d", vd.failDepth))
		for _, a := range s.Arms {
			a.walk(func(p *P) { ctx.Label("pat:" + p.K) })
		}
		if vd.sel != 0 && vd.deepFail && len(s.Arms) > 1 {
			nt++
			key.WriteString(s.render(0, vd))
		}
		if vd.sel >= 0 && len(vd.env.bound) > 0 {
			ctx.Label("bindings")
		}
	}
	ctx.Label(fmt.Sprintf("nontrivial_constructs:%d", nt))
	if nt > 0 {
		ctx.NonTrivial(key.String())
	}
	return nil
}

func TestPatterns(t *testing.T) {
	pbt.Rule("patterns", "programs of 1-10 pattern-matching constructs (switch, if/elsif chains of `match`, do/catch, var/val pattern declarations; subject a top-level variable or a method parameter typed any / its class / a union / a collection of any) over subjects of every built-in kind (Int Float String Char Symbol Bool nil, lists tuples sets maps records pairs ranges, instances of three small classes, nesting <= 3); arms derived from the subject with near-miss leaves (other literal, same text in another class, boundary-exact ranges and relational operands, rest patterns one element too long, wrong collection class, absent keys) in every form of the pattern grammar; each arm prints its index and the inspect of all its variables, the construct's value is printed too; compared with a Go reference matcher; non-trivial = a construct whose selected arm is not the first (or none) and in which an earlier arm failed at nesting depth >= 2; distinct by the text of those constructs")
	worker = sb.New("debug")
	defer worker.Close()
	pbt.Run(t, pbt.Prop[Case]{Name: "patterns", Quick: 4000, Thorough: 40000, Gen: gen, Oracle: oracle,
		Sample: func(c Case) any { return map[string]any{"src": c.Src} }})
}
