package c21

// C21 — regex translation preserves Elk regex semantics.
//
// Five properties:
//   reference       generated pattern x flags x subjects: Regex#matches == reference matcher over Elk's own parse tree
//   decorate        p == p with whitespace / # comments (under x) and (?#...) groups inserted between atoms
//   flag-scope      p under flags F == (?F:p) == (?F)p under no flags (and the same for unsetting)
//   compose         (r1 + r2) and (r * n) against the reference and against the literal (?:r1)(?:r2) / (?:r){n}
//   class-relations \W == [^\w], [\X] == \X, [e\X] == e|\X, [^e\X] == complement, \d subset of \w, per character

import (
	"fmt"
	"sort"
	"strings"
	"testing"

	"github.com/elk-language/elk"
	"github.com/elk-language/elk/bitfield"
	"github.com/elk-language/elk/env"
	"github.com/elk-language/elk/regex/parser"
	"github.com/elk-language/elk/value"
	"github.com/elk-language/elk/vm"
	"pgregory.net/rapid"

	"verif/internal/pbt"
	"verif/internal/vgen"
)

var th *vm.Thread

var (
	symMatches = value.ToSymbol("matches")
	symPlus    = value.ToSymbol("+")
	symStar    = value.ToSymbol("*")
)

func TestMain(m *testing.M) {
	if env.ELKPATH == "" {
		env.ELKPATH = "/repo"
	}
	elk.InitGlobalEnvironment()
	th = vm.New()
	pbt.Main(m, "C21")
}

const (
	kCommentMeta = "x-comment-metachar"
	kFoldFactor  = "go-fold-prefix-factoring"
)

// foldFactorExcluded: input-side exclusion of the known finding kFoldFactor
// (computed from the parse tree of the case's pattern, see resolver.foldRisk).
func foldFactorExcluded(ctx *pbt.Ctx, rps ...refProg) bool {
	for _, rp := range rps {
		if rp.rs != nil && rp.rs.foldRisk && pbt.KnownActive(kFoldFactor) {
			ctx.Excluded(kFoldFactor)
			return true
		}
	}
	return false
}

// runtime side ---------------------------------------------------------------

// compile builds the regex exactly like the runtime does for a literal
// (value.CompileRegex = regex.Transpile + regexp.Compile). A panic is a violation.
func compile(src string, flags uint8) (re *value.Regex, err error, panicked error) {
	defer func() {
		if r := recover(); r != nil {
			panicked = fmt.Errorf("panic while compiling regex %q flags %q: %v", src, flagString(flags), r)
		}
	}()
	re, err = value.CompileRegex(src, bitfield.BitField8FromInt(flags))
	return re, err, nil
}

// matches calls Regex#matches through the VM's method table.
func matches(re *value.Regex, s string) (bool, error) {
	r, e := th.CallMethodByName(symMatches, value.Ref(re), value.Ref(value.String(s)))
	if !e.IsUndefined() {
		return false, fmt.Errorf("Regex#matches raised %s", e.Inspect())
	}
	if r.IsTrue() {
		return true, nil
	}
	if r.IsFalse() {
		return false, nil
	}
	return false, fmt.Errorf("Regex#matches returned %s", r.Inspect())
}

func errClass(err error) string {
	s := err.Error()
	for _, k := range []string{"invalid repeat count", "invalid character class range", "missing closing ]", "invalid escape sequence", "duplicate", "too large", "missing argument to repetition", "not supported", "invalid named capture", "invalid nested repetition", "unexpected", "expected"} {
		if strings.Contains(s, k) {
			return k
		}
	}
	if len(s) > 40 {
		s = s[:40]
	}
	return s
}

// reference side -------------------------------------------------------------

type refProg struct {
	prog    *inst
	rs      *resolver
	parseOK bool
}

func reference(src string, flags uint8) refProg {
	tree, errs := parser.Parse(src)
	rs := &resolver{}
	if len(errs) > 0 {
		return refProg{rs: rs}
	}
	fl := flagsFrom(bitfield.BitField8FromInt(flags))
	prog := rs.resolveAlt(tree, &fl)
	return refProg{prog: prog, rs: rs, parseOK: true}
}

func featureLabels(ctx *pbt.Ctx, rs *resolver, flags uint8) {
	keys := make([]string, 0, len(rs.features))
	for k := range rs.features {
		keys = append(keys, k)
	}
	sort.Strings(keys)
	for _, k := range keys {
		ctx.Label("feat:" + k)
	}
	if flags == 0 {
		ctx.Label("flags:none")
	}
	for i := 0; i < 6; i++ {
		if flags&(1<<i) != 0 {
			ctx.Label("flag:" + string(flagChars[i]))
		}
	}
}

func usesFlagOrUnicode(rs *resolver, flags uint8) bool {
	return flags != 0 || rs.features["scoped_flags"] || rs.features["flag_only_group"] ||
		rs.features["shorthand"] || rs.features["unicode_class"]
}

// compareWithReference checks every subject; returns (#compared, sawMatch, sawMiss).
func compareWithReference(ctx *pbt.Ctx, what string, re *value.Regex, rp refProg, src string, flags uint8, subjects []string) (int, bool, bool, error) {
	n, yes, no := 0, false, false
	for _, s := range subjects {
		want := refMatch(rp.prog, s)
		if want.over {
			ctx.Label("ref:step_budget")
			continue
		}
		if want.unclear {
			ctx.Label("ref:unclear_subject")
			continue
		}
		got, err := matches(re, s)
		if err != nil {
			return n, yes, no, err
		}
		n++
		if got {
			yes = true
		} else {
			no = true
		}
		if got != want.match {
			return n, yes, no, fmt.Errorf("%s: %%/%s/%s .matches(%q) is %v, the Elk pattern denotes %v (Go pattern: %q)",
				what, src, flagString(flags), s, got, want.match, re.Re.String())
		}
	}
	return n, yes, no, nil
}

// ---------------------------------------------------------------- reference

type RefCase struct {
	Src      string   `json:"src"`
	Flags    uint8    `json:"flags"`
	Subjects []string `json:"subjects"`
}

func genFlags(t *rapid.T) uint8 {
	if weighted(t, "noflags", 80, 20) == 1 {
		return 0
	}
	return uint8(vgen.Pick(t, 64, "flags"))
}

func TestReference(t *testing.T) {
	pbt.Rule("reference", "random regex tree (<= ~12 atoms; every node kind of regex/parser/ast) printed to Elk syntax, any of the 64 flag sets, ~10 subjects derived from the tree (matching derivations, mutations, random); compared with a backtracking reference over the tree Elk's regex parser returns. Non-trivial: the pattern uses a flag or a Unicode-sensitive class and the compared subjects contain both a match and a non-match; distinct by (source, flags).")
	pbt.Run(t, pbt.Prop[RefCase]{
		Name: "reference", Quick: 60000, Thorough: 4000000,
		Gen: func(t *rapid.T) RefCase {
			flags := genFlags(t)
			tree := genTree(t, 3+vgen.Pick(t, 10, "budget"), false)
			return RefCase{Src: printPlain(tree, flags), Flags: flags, Subjects: genSubjects(t, tree, 10)}
		},
		Oracle: refOracle,
	})
}

func refOracle(c RefCase, ctx *pbt.Ctx) error {
	re, cerr, p := compile(c.Src, c.Flags)
	if p != nil {
		return p
	}
	rp := reference(c.Src, c.Flags)
	if !rp.parseOK {
		ctx.Label("outcome:parse_error")
		if cerr == nil {
			return fmt.Errorf("the regex parser rejects %q but the runtime compiled it", c.Src)
		}
		return nil
	}
	featureLabels(ctx, rp.rs, c.Flags)
	if cerr != nil {
		// a reported regex error is an allowed outcome
		if rp.rs.invalid != "" {
			ctx.Label("outcome:error_expected")
		} else {
			ctx.Label("outcome:error:" + errClass(cerr))
		}
		return nil
	}
	if rp.rs.invalid != "" {
		ctx.Label("outcome:compiled_but_ref_invalid:" + rp.rs.invalid)
		return nil
	}
	if rp.rs.unclear != "" {
		ctx.Label("outcome:unclear_pattern")
		return nil
	}
	if foldFactorExcluded(ctx, rp) {
		return nil
	}
	n, yes, no, err := compareWithReference(ctx, "reference", re, rp, c.Src, c.Flags, c.Subjects)
	if err != nil {
		return err
	}
	ctx.Label("outcome:compared")
	if n > 0 && yes && no && usesFlagOrUnicode(rp.rs, c.Flags) {
		ctx.NonTrivial(fmt.Sprintf("%s/%d", c.Src, c.Flags))
	}
	return nil
}

// ---------------------------------------------------------------- decorate

type DecoCase struct {
	Src      string   `json:"src"`
	Deco     string   `json:"deco"`
	Flags    uint8    `json:"flags"`
	Meta     bool     `json:"meta"` // some # comment contains a regex metacharacter
	QGap     bool     `json:"qgap"` // blanks between an atom and its quantifier (the tree no longer shows what is quantified: no reference comparison)
	Subjects []string `json:"subjects"`
}

func TestDecorate(t *testing.T) {
	pbt.Rule("decorate", "regex tree printed twice: plain and with decoration between atoms, around | and at group ends: blanks/newlines and `# ...\\n` comments where x is in effect (top-level flag, (?x) or (?x:...)), `(?#...)` comment groups anywhere; both must agree on error status and on every subject, and the decorated text must agree with the reference. Non-trivial: at least one decoration inserted and subjects contain both a match and a non-match; distinct by decorated source.")
	pbt.Run(t, pbt.Prop[DecoCase]{
		Name: "decorate", Quick: 40000, Thorough: 2500000,
		Gen: func(t *rapid.T) DecoCase {
			flags := genFlags(t)
			if weighted(t, "forcex", 35, 65) == 1 {
				flags |= fX
			}
			tree := genTree(t, 3+vgen.Pick(t, 10, "budget"), false)
			meta := weighted(t, "metacmt", 75, 25) == 1
			p := &printer{fl: flags, deco: t, metaCmt: meta}
			p.regex(tree, true)
			deco := p.sb.String()
			return DecoCase{Src: printPlain(tree, flags), Deco: deco, Flags: flags, Meta: containsMetaComment(deco, meta), QGap: p.quantGap, Subjects: genSubjects(t, tree, 8)}
		},
		Known: []pbt.Known[DecoCase]{{Key: kCommentMeta, Match: func(c DecoCase) bool { return c.Meta }}},
		Oracle: decoOracle,
	})
}

// containsMetaComment: conservative input-side predicate of the known finding:
// the decoration was allowed to use metacharacters in # comments and the text
// contains a `#` followed (before the next newline) by one of them.
func containsMetaComment(deco string, allowed bool) bool {
	if !allowed {
		return false
	}
	for i := 0; i < len(deco); i++ {
		if deco[i] != '#' {
			continue
		}
		for j := i + 1; j < len(deco) && deco[j] != '\n'; j++ {
			if strings.IndexByte("|()[]{\\*+?", deco[j]) >= 0 {
				return true
			}
		}
	}
	return false
}

func decoOracle(c DecoCase, ctx *pbt.Ctx) error {
	a, aerr, p := compile(c.Src, c.Flags)
	if p != nil {
		return p
	}
	b, berr, p := compile(c.Deco, c.Flags)
	if p != nil {
		return p
	}
	if c.Meta {
		ctx.Label("meta_comment")
	}
	if c.Src == c.Deco {
		ctx.Label("undecorated")
	}
	if (aerr == nil) != (berr == nil) {
		return fmt.Errorf("decoration changes the outcome: %q flags %q -> error %v; decorated %q -> error %v", c.Src, flagString(c.Flags), aerr, c.Deco, berr)
	}
	if aerr != nil {
		ctx.Label("outcome:error")
		return nil
	}
	if foldFactorExcluded(ctx, reference(c.Src, c.Flags)) {
		return nil
	}
	yes, no := false, false
	for _, s := range c.Subjects {
		ma, err := matches(a, s)
		if err != nil {
			return err
		}
		mb, err := matches(b, s)
		if err != nil {
			return err
		}
		if ma != mb {
			return fmt.Errorf("decorated pattern differs: %%/%s/%s .matches(%q) = %v but decorated %%/%s/%s gives %v (Go patterns %q vs %q)",
				c.Src, flagString(c.Flags), s, ma, c.Deco, flagString(c.Flags), mb, a.Re.String(), b.Re.String())
		}
		if ma {
			yes = true
		} else {
			no = true
		}
	}
	ctx.Label("outcome:compared")
	// the decorated text against the reference (comments and blanks under x)
	if c.QGap {
		ctx.Label("quantifier_gap")
	}
	if !c.Meta && !c.QGap {
		rp := reference(c.Deco, c.Flags)
		if !rp.parseOK {
			return fmt.Errorf("decorated pattern %q compiled but the regex parser rejects it", c.Deco)
		}
		featureLabels(ctx, rp.rs, c.Flags)
		if rp.rs.invalid == "" && rp.rs.unclear == "" {
			if _, _, _, err := compareWithReference(ctx, "decorated vs reference", b, rp, c.Deco, c.Flags, c.Subjects); err != nil {
				return err
			}
		}
	}
	if c.Src != c.Deco && yes && no {
		ctx.NonTrivial(fmt.Sprintf("%s/%d", c.Deco, c.Flags))
	}
	return nil
}

// ---------------------------------------------------------------- flag scope

type FlagCase struct {
	Src      string   `json:"src"`
	Outer    uint8    `json:"outer"`
	Set      uint8    `json:"set"`
	Unset    uint8    `json:"unset"`
	Subjects []string `json:"subjects"`
}

func groupFlags(set, unset uint8) string {
	var sb strings.Builder
	writeFlags(&sb, set, unset)
	return sb.String()
}

func TestFlagScope(t *testing.T) {
	pbt.Rule("flag-scope", "regex tree p, outer flag set O, disjoint sets S (switched on) and U (switched off): %/p/ with flags (O+S)-U must behave like %/(?S-U:p)/O and %/(?S-U)p/O (same error status, same result on every subject). Non-trivial: S or U changes the effective flags and subjects contain both a match and a non-match; distinct by (source, O, S, U).")
	pbt.Run(t, pbt.Prop[FlagCase]{
		Name: "flag-scope", Quick: 40000, Thorough: 2500000,
		Gen: func(t *rapid.T) FlagCase {
			outer := genFlags(t)
			set, unset := genFlagPair(t)
			eff := (outer | set) &^ unset
			tree := genTree(t, 2+vgen.Pick(t, 8, "budget"), false)
			return FlagCase{Src: printPlain(tree, eff), Outer: outer, Set: set, Unset: unset, Subjects: genSubjects(t, tree, 8)}
		},
		Oracle: flagOracle,
	})
}

func flagOracle(c FlagCase, ctx *pbt.Ctx) error {
	eff := (c.Outer | c.Set) &^ c.Unset
	type variant struct {
		name, src string
		flags     uint8
		re        *value.Regex
		err       error
	}
	vs := []*variant{
		{name: "flags on the literal", src: c.Src, flags: eff},
		{name: "scoped group", src: "(?" + groupFlags(c.Set, c.Unset) + ":" + c.Src + ")", flags: c.Outer},
		{name: "leading flag group", src: "(?" + groupFlags(c.Set, c.Unset) + ")" + c.Src, flags: c.Outer},
	}
	for _, v := range vs {
		var p error
		v.re, v.err, p = compile(v.src, v.flags)
		if p != nil {
			return p
		}
	}
	for _, v := range vs[1:] {
		if (v.err == nil) != (vs[0].err == nil) {
			return fmt.Errorf("%%/%s/%s -> error %v, but %s %%/%s/%s -> error %v", vs[0].src, flagString(vs[0].flags), vs[0].err, v.name, v.src, flagString(v.flags), v.err)
		}
	}
	if vs[0].err != nil {
		ctx.Label("outcome:error")
		return nil
	}
	if foldFactorExcluded(ctx, reference(c.Src, eff)) {
		return nil
	}
	for i := 0; i < 6; i++ {
		if (eff^c.Outer)&(1<<i) != 0 {
			ctx.Label("changed:" + string(flagChars[i]))
		}
	}
	yes, no := false, false
	for _, s := range c.Subjects {
		m0, err := matches(vs[0].re, s)
		if err != nil {
			return err
		}
		for _, v := range vs[1:] {
			m, err := matches(v.re, s)
			if err != nil {
				return err
			}
			if m != m0 {
				return fmt.Errorf("%%/%s/%s .matches(%q) = %v, but %s %%/%s/%s gives %v (Go patterns %q vs %q)",
					vs[0].src, flagString(vs[0].flags), s, m0, v.name, v.src, flagString(v.flags), m, vs[0].re.Re.String(), v.re.Re.String())
			}
		}
		if m0 {
			yes = true
		} else {
			no = true
		}
	}
	ctx.Label("outcome:compared")
	if eff != c.Outer && yes && no {
		ctx.NonTrivial(fmt.Sprintf("%s/%d/%d/%d", c.Src, c.Outer, c.Set, c.Unset))
	}
	return nil
}

// ---------------------------------------------------------------- compose

type ComposeCase struct {
	A        string   `json:"a"`
	FA       uint8    `json:"fa"`
	B        string   `json:"b"`
	FB       uint8    `json:"fb"`
	N        int      `json:"n"`
	Subjects []string `json:"subjects"`
}

func TestCompose(t *testing.T) {
	pbt.Rule("compose", "two regex trees with independent flag sets and a count n in {-2..5, 1001}: (r1 + r2) must match like the reference concatenation of both trees, each under its own flags, and like the literal %/(?:r1)(?:r2)/ when the flag sets are equal; (r1 * n) like the reference {n,n} repetition and the literal %/(?:r1){n}/; a negative n must raise. Non-trivial: a flag or Unicode-sensitive class is involved and subjects contain both a match and a non-match; distinct by the two sources, flags and n.")
	pbt.Run(t, pbt.Prop[ComposeCase]{
		Name: "compose", Quick: 30000, Thorough: 2000000,
		Gen: func(t *rapid.T) ComposeCase {
			fa, fb := genFlags(t), genFlags(t)
			if weighted(t, "sameflags", 70, 30) == 1 {
				fb = fa
			}
			ga := &gctx{budget: 1 + vgen.Pick(t, 6, "budget")}
			ta := genRegex(t, ga, 0)
			gb := &gctx{budget: 1 + vgen.Pick(t, 6, "budget"), names: 300}
			tb := genRegex(t, gb, 0)
			n := []int{0, 1, 2, 3, 2, 3, 4, 5, -1, -2, 1001}[vgen.Pick(t, 11, "n")]
			both := &gn{k: "cat", subs: []*gn{{k: "group", gk: 1, subs: []*gn{ta}}, {k: "group", gk: 1, subs: []*gn{tb}}}}
			rep := &gn{k: "rep", qk: 3, min: max(n, 0), subs: []*gn{{k: "group", gk: 1, subs: []*gn{ta}}}}
			subj := append(genSubjects(t, both, 6), genSubjects(t, rep, 4)...)
			return ComposeCase{A: printPlain(ta, fa), FA: fa, B: printPlain(tb, fb), FB: fb, N: n, Subjects: subj}
		},
		Oracle: composeOracle,
	})
}

func asRegex(v value.Value) *value.Regex {
	if !v.IsReference() {
		return nil
	}
	r, _ := v.AsReference().(*value.Regex)
	return r
}

func composeOracle(c ComposeCase, ctx *pbt.Ctx) (err error) {
	defer func() {
		if r := recover(); r != nil {
			err = fmt.Errorf("panic in Regex#+ / Regex#*: %v (a=%q/%s b=%q/%s n=%d)", r, c.A, flagString(c.FA), c.B, flagString(c.FB), c.N)
		}
	}()
	ra, ea, p := compile(c.A, c.FA)
	if p != nil {
		return p
	}
	rb, eb, p := compile(c.B, c.FB)
	if p != nil {
		return p
	}
	if ea != nil || eb != nil {
		ctx.Label("outcome:operand_error")
		return nil
	}
	pa, pb := reference(c.A, c.FA), reference(c.B, c.FB)
	if !pa.parseOK || !pb.parseOK {
		return fmt.Errorf("operand compiled but the regex parser rejects it")
	}
	if foldFactorExcluded(ctx, pa, pb) {
		return nil
	}
	refOK := pa.rs.invalid == "" && pb.rs.invalid == "" && pa.rs.unclear == "" && pb.rs.unclear == ""
	nontrivial := false
	sensitive := usesFlagOrUnicode(pa.rs, c.FA) || usesFlagOrUnicode(pb.rs, c.FB)

	// r1 + r2
	sumV, sumE := th.CallMethodByName(symPlus, value.Ref(ra), value.Ref(rb))
	if !sumE.IsUndefined() {
		if !value.IsA(sumE, value.RegexCompileErrorClass) {
			return fmt.Errorf("Regex#+ raised %s, not a RegexCompileError", sumE.Inspect())
		}
		ctx.Label("plus:error:" + errClass(fmt.Errorf("%s", sumE.Inspect())))
	} else {
		sum := asRegex(sumV)
		if sum == nil {
			return fmt.Errorf("Regex#+ returned %s, not a Regex", sumV.Inspect())
		}
		ctx.Label("plus:ok")
		if refOK {
			rp := refProg{prog: &inst{op: opSeq, subs: []*inst{pa.prog, pb.prog}}, rs: pa.rs, parseOK: true}
			what := fmt.Sprintf("(%%/%s/%s + %%/%s/%s)", c.A, flagString(c.FA), c.B, flagString(c.FB))
			n, yes, no, err := compareWithReference(ctx, what, sum, rp, sum.Source, sum.Flags.Byte(), c.Subjects)
			if err != nil {
				return err
			}
			if n > 0 && yes && no {
				nontrivial = true
			}
		}
		if c.FA == c.FB {
			lit, le, p := compile("(?:"+c.A+")(?:"+c.B+")", c.FA)
			if p != nil {
				return p
			}
			if le != nil {
				return fmt.Errorf("r1 + r2 works but the literal (?:%s)(?:%s) fails: %v", c.A, c.B, le)
			}
			for _, s := range c.Subjects {
				m1, err := matches(sum, s)
				if err != nil {
					return err
				}
				m2, _ := matches(lit, s)
				if m1 != m2 {
					return fmt.Errorf("(%%/%s/%s + %%/%s/%s).matches(%q) = %v but the literal %%/(?:%s)(?:%s)/%s gives %v",
						c.A, flagString(c.FA), c.B, flagString(c.FB), s, m1, c.A, c.B, flagString(c.FA), m2)
				}
			}
		}
	}

	// r1 * n
	prodV, prodE := th.CallMethodByName(symStar, value.Ref(ra), value.SmallInt(c.N).ToValue())
	switch {
	case !prodE.IsUndefined():
		if !value.IsA(prodE, value.RegexCompileErrorClass) {
			return fmt.Errorf("Regex#* raised %s, not a RegexCompileError", prodE.Inspect())
		}
		ctx.Label(fmt.Sprintf("star:error:n=%d", min(max(c.N, -1), 6)))
	case c.N < 0:
		return fmt.Errorf("%%/%s/%s * %d returned %s instead of raising", c.A, flagString(c.FA), c.N, prodV.Inspect())
	default:
		prod := asRegex(prodV)
		if prod == nil {
			return fmt.Errorf("Regex#* returned %s, not a Regex", prodV.Inspect())
		}
		ctx.Label("star:ok")
		if refOK {
			rp := refProg{prog: &inst{op: opRep, sub: pa.prog, min: c.N, max: c.N}, rs: pa.rs, parseOK: true}
			what := fmt.Sprintf("(%%/%s/%s * %d)", c.A, flagString(c.FA), c.N)
			n, yes, no, err := compareWithReference(ctx, what, prod, rp, prod.Source, prod.Flags.Byte(), c.Subjects)
			if err != nil {
				return err
			}
			if n > 0 && yes && no {
				nontrivial = true
			}
		}
		lit, le, p := compile(fmt.Sprintf("(?:%s){%d}", c.A, c.N), c.FA)
		if p != nil {
			return p
		}
		if le != nil {
			return fmt.Errorf("r * n works but the literal (?:%s){%d} fails: %v", c.A, c.N, le)
		}
		for _, s := range c.Subjects {
			m1, err := matches(prod, s)
			if err != nil {
				return err
			}
			m2, _ := matches(lit, s)
			if m1 != m2 {
				return fmt.Errorf("(%%/%s/%s * %d).matches(%q) = %v but the literal %%/(?:%s){%d}/%s gives %v", c.A, flagString(c.FA), c.N, s, m1, c.A, c.N, flagString(c.FA), m2)
			}
		}
	}
	if !refOK {
		ctx.Label("outcome:ref_unclear_or_invalid")
	}
	if nontrivial && sensitive {
		ctx.NonTrivial(fmt.Sprintf("%s/%d/%s/%d/%d", c.A, c.FA, c.B, c.FB, c.N))
	}
	return nil
}

// ---------------------------------------------------------------- class relations

type ClassCase struct {
	X     int   `json:"x"`     // index into shorthand pairs w d s h v
	Shape int   `json:"shape"` // see classOracle
	Flags uint8 `json:"flags"`
	E     rune  `json:"e"`
	F     rune  `json:"f"`
}

func TestClassRelations(t *testing.T) {
	pbt.Rule("class-relations", "shorthand pair X in {w d s h v}, a flag set and two extra class members e, f; relations checked on every character of the 75-character alphabet as an anchored one-character subject: \\X(neg) == [^\\x], [\\X] == \\X (both polarities), [e\\Xf] == [ef]|\\X, [^e\\X] == complement of [e\\X], \\d subset of \\w. A side that reports a regex error is skipped (counted). Every evaluated case is non-trivial (a Unicode-sensitive class is always involved and the alphabet contains members and non-members); distinct by the case.")
	pbt.Run(t, pbt.Prop[ClassCase]{
		Name: "class-relations", Quick: 6000, Thorough: 150000,
		Gen: func(t *rapid.T) ClassCase {
			return ClassCase{X: vgen.Pick(t, 5, "x"), Shape: vgen.Pick(t, 8, "shape"), Flags: uint8(vgen.Pick(t, 64, "flags")), E: pickRune(t, "e"), F: pickRune(t, "f")}
		},
		Oracle: classOracle,
	})
}

func classOracle(c ClassCase, ctx *pbt.Ctx) error {
	lower := string("wdshv"[c.X%5])
	upper := strings.ToUpper(lower)
	pr := &printer{fl: c.Flags}
	e := pr.charText(c.E, 0, true, false, false)
	f := pr.charText(c.F, 0, true, false, false)
	e1 := pr.charText(c.E, 0, true, true, false)
	var a, b string
	complement := false
	subset := false
	switch c.Shape % 8 {
	case 0:
		a, b = `\`+upper, `[^\`+lower+`]`
	case 1:
		a, b = `[\`+upper+`]`, `\`+upper
	case 2:
		a, b = `[\`+lower+`]`, `\`+lower
	case 3:
		a, b = `[`+e1+`\`+upper+f+`]`, `(?:[`+e1+f+`]|\`+upper+`)`
	case 4:
		a, b = `[`+e1+`\`+lower+f+`]`, `(?:[`+e1+f+`]|\`+lower+`)`
	case 5:
		a, b = `[^`+e+`\`+upper+`]`, `[`+e1+`\`+upper+`]`
		complement = true
	case 6:
		a, b = `[^`+e+`\`+lower+`]`, `[`+e1+`\`+lower+`]`
		complement = true
	default:
		a, b = `\d`, `\w`
		subset = true
	}
	ctx.Label(fmt.Sprintf("shape:%d", c.Shape%8))
	wrap := func(s string) string { return `\A(?:` + s + `)\z` }
	ra, ea, p := compile(wrap(a), c.Flags)
	if p != nil {
		return p
	}
	rb, eb, p := compile(wrap(b), c.Flags)
	if p != nil {
		return p
	}
	if ea != nil || eb != nil {
		ctx.Label("outcome:error")
		return nil
	}
	for _, r := range alphabet {
		s := string(r)
		ma, err := matches(ra, s)
		if err != nil {
			return err
		}
		mb, _ := matches(rb, s)
		bad := ma != mb
		if complement {
			bad = ma == mb
		}
		if subset {
			bad = ma && !mb
		}
		if bad {
			rel := "must agree with"
			if complement {
				rel = "must be the complement of"
			}
			if subset {
				rel = "must imply"
			}
			return fmt.Errorf("%%/%s/%s on %q = %v %s %%/%s/%s = %v (Go patterns %q, %q)", a, flagString(c.Flags), s, ma, rel, b, flagString(c.Flags), mb, ra.Re.String(), rb.Re.String())
		}
	}
	ctx.Label("outcome:compared")
	ctx.NonTrivial(fmt.Sprintf("%d/%d/%d/%d/%d", c.X, c.Shape%8, c.Flags, c.E, c.F))
	return nil
}
