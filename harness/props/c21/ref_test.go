package c21

// Reference semantics of Elk regexes: a small backtracking matcher over the
// syntax tree produced by Elk's own regex parser (regex/parser).  It never looks
// at the Go pattern the transpiler produces.
//
// Sources of the semantics implemented here:
//   - regex/flag/flag.go: i = case insensitive, m = ^ and $ also match at line
//     begin/end, s = . matches \n, U = swap greedy/lazy (irrelevant for a boolean
//     match), x = ignore whitespace and allow # comments, a = \w \d \s ... only
//     match ASCII
//   - regex/transpile_test.go: \w = L+Mn+Nd+Pc, \d = Nd, \s = [\t\n\f\r \v]+Z+U+0085,
//     \h = TAB+Zs, \v = LF VT FF CR U+0085 U+2028 U+2029, and their ASCII variants;
//     a flag-only group (?a) applies up to the end of the enclosing group; group
//     flags are scoped; whitespace in char classes and \Q..\E stays literal under x
//   - regex/parser/ast: node meanings (`{,m}` = {0,m}, \cA = U+0001, ...)
//
// Where none of these pins a case down the matcher raises `unclear` and the
// caller drops the comparison (counted): \b/\B when the ASCII and the Unicode
// notion of a word character disagree at that position, VT in ASCII \s,
// `^` under m at the very end of a subject ending in LF, case-sensitive
// Unicode/POSIX classes under i, bare whitespace other than SP TAB LF CR FF VT under x.

import (
	"fmt"
	"strconv"
	"unicode"

	"github.com/elk-language/elk/bitfield"
	"github.com/elk-language/elk/regex/flag"
	"github.com/elk-language/elk/regex/parser/ast"
)

type rflags struct{ i, m, s, x, a bool }

func flagsFrom(b bitfield.BitField8) rflags {
	return rflags{
		i: b.HasFlag(flag.CaseInsensitiveFlag),
		m: b.HasFlag(flag.MultilineFlag),
		s: b.HasFlag(flag.DotAllFlag),
		x: b.HasFlag(flag.ExtendedFlag),
		a: b.HasFlag(flag.ASCIIFlag),
	}
}

func (f *rflags) apply(set, unset bitfield.BitField8) {
	type pair struct {
		fl bitfield.BitFlag8
		p  *bool
	}
	for _, q := range []pair{
		{flag.CaseInsensitiveFlag, &f.i}, {flag.MultilineFlag, &f.m}, {flag.DotAllFlag, &f.s},
		{flag.ExtendedFlag, &f.x}, {flag.ASCIIFlag, &f.a},
	} {
		if set.HasFlag(q.fl) {
			*q.p = true
		}
		if unset.HasFlag(q.fl) {
			*q.p = false
		}
	}
}

const (
	opEmpty = iota
	opSet
	opSeq
	opAlt
	opRep
	opBOL // ^
	opEOL // $
	opBOT // \A
	opEOT // \z
	opWB  // \b
	opNWB // \B
	opFail
)

// pred decides membership of one rune; it may raise *unclear.
type pred func(r rune, unclear *bool) bool

type inst struct {
	op       int
	set      pred
	subs     []*inst
	sub      *inst
	min, max int // max < 0: unbounded
	multi    bool
	ascii    bool
}

// resolver turns the Elk tree into inst, resolving flags in source order.
type resolver struct {
	unclear  string // static reason why the semantics are not pinned down
	invalid  string // the tree contains something the runtime must reject (unknown class name, bad range ...)
	features map[string]bool
	// known finding go-fold-prefix-factoring: two alternatives of one union use
	// the same letter, one case sensitively and one case insensitively
	foldRisk bool
	cur      *litSet
}

// litSet records which letters (up to case folding) occur as literals case
// sensitively / case insensitively in one alternative of a union.
type litSet struct{ plain, fold map[rune]bool }

func newLitSet() *litSet { return &litSet{plain: map[rune]bool{}, fold: map[rune]bool{}} }

func (a *litSet) merge(b *litSet) {
	for r := range b.plain {
		a.plain[r] = true
	}
	for r := range b.fold {
		a.fold[r] = true
	}
}

func (a *litSet) clashes(b *litSet) bool {
	for r := range a.plain {
		if b.fold[r] {
			return true
		}
	}
	for r := range a.fold {
		if b.plain[r] {
			return true
		}
	}
	return false
}

func minFold(r rune) rune {
	m := r
	for f := unicode.SimpleFold(r); f != r; f = unicode.SimpleFold(f) {
		if f < m {
			m = f
		}
	}
	return m
}

// lit records a literal character (only letters that have case variants matter).
func (rs *resolver) lit(r rune, i bool) {
	if unicode.SimpleFold(r) == r {
		return
	}
	if rs.cur == nil {
		rs.cur = newLitSet()
	}
	if i {
		rs.cur.fold[minFold(r)] = true
	} else {
		rs.cur.plain[minFold(r)] = true
	}
}

func (rs *resolver) feat(s string) {
	if rs.features == nil {
		rs.features = map[string]bool{}
	}
	rs.features[s] = true
}

func orbitAny(r rune, p func(rune) bool) bool {
	if p(r) {
		return true
	}
	for f := unicode.SimpleFold(r); f != r; f = unicode.SimpleFold(f) {
		if p(f) {
			return true
		}
	}
	return false
}

// folded applies case insensitivity to a positive set.
func folded(p pred, i bool) pred {
	if !i {
		return p
	}
	return func(r rune, u *bool) bool {
		return orbitAny(r, func(x rune) bool { return p(x, u) })
	}
}

func negate(p pred) pred { return func(r rune, u *bool) bool { return !p(r, u) } }

func single(c rune) pred { return func(r rune, _ *bool) bool { return r == c } }

func inTable(tabs ...*unicode.RangeTable) pred {
	return func(r rune, _ *bool) bool {
		for _, t := range tabs {
			if unicode.Is(t, r) {
				return true
			}
		}
		return false
	}
}

func wordPred(a bool) pred {
	if a {
		return func(r rune, _ *bool) bool {
			return r == '_' || r >= '0' && r <= '9' || r >= 'a' && r <= 'z' || r >= 'A' && r <= 'Z'
		}
	}
	return inTable(unicode.L, unicode.Mn, unicode.Nd, unicode.Pc)
}

func digitPred(a bool) pred {
	if a {
		return func(r rune, _ *bool) bool { return r >= '0' && r <= '9' }
	}
	return inTable(unicode.Nd)
}

func spacePred(a bool) pred {
	if a {
		return func(r rune, u *bool) bool {
			if r == '\v' {
				*u = true // Perl >= 5.18 includes VT, POSIX/RE2 \s does not: not pinned down
			}
			return r == '\t' || r == '\n' || r == '\f' || r == '\r' || r == ' '
		}
	}
	z := inTable(unicode.Z)
	return func(r rune, u *bool) bool {
		return r == '\t' || r == '\n' || r == '\f' || r == '\r' || r == ' ' || r == '\v' || r == 0x85 || z(r, u)
	}
}

func hspacePred(a bool) pred {
	if a {
		return func(r rune, _ *bool) bool { return r == '\t' || r == ' ' }
	}
	zs := inTable(unicode.Zs)
	return func(r rune, u *bool) bool { return r == '\t' || zs(r, u) }
}

func vspacePred(a bool) pred {
	if a {
		return func(r rune, _ *bool) bool { return r == '\n' || r == '\v' || r == '\f' || r == '\r' }
	}
	return func(r rune, _ *bool) bool {
		return r == '\n' || r == '\v' || r == '\f' || r == '\r' || r == 0x85 || r == 0x2028 || r == 0x2029
	}
}

// POSIX bracket classes, ASCII definitions (POSIX.1 "C" locale).
var posixClasses = map[string]func(r rune) bool{
	"alnum":  func(r rune) bool { return r >= '0' && r <= '9' || r >= 'a' && r <= 'z' || r >= 'A' && r <= 'Z' },
	"alpha":  func(r rune) bool { return r >= 'a' && r <= 'z' || r >= 'A' && r <= 'Z' },
	"ascii":  func(r rune) bool { return r >= 0 && r <= 0x7f },
	"blank":  func(r rune) bool { return r == ' ' || r == '\t' },
	"cntrl":  func(r rune) bool { return r >= 0 && r < 0x20 || r == 0x7f },
	"digit":  func(r rune) bool { return r >= '0' && r <= '9' },
	"graph":  func(r rune) bool { return r > 0x20 && r < 0x7f },
	"lower":  func(r rune) bool { return r >= 'a' && r <= 'z' },
	"print":  func(r rune) bool { return r >= 0x20 && r < 0x7f },
	"punct":  func(r rune) bool { return r > 0x20 && r < 0x7f && !(r >= '0' && r <= '9' || r >= 'a' && r <= 'z' || r >= 'A' && r <= 'Z') },
	"space":  func(r rune) bool { return r == ' ' || r >= '\t' && r <= '\r' },
	"upper":  func(r rune) bool { return r >= 'A' && r <= 'Z' },
	"word":   func(r rune) bool { return r == '_' || r >= '0' && r <= '9' || r >= 'a' && r <= 'z' || r >= 'A' && r <= 'Z' },
	"xdigit": func(r rune) bool { return r >= '0' && r <= '9' || r >= 'a' && r <= 'f' || r >= 'A' && r <= 'F' },
}

var caseSensitiveNames = map[string]bool{"Lu": true, "Ll": true, "Lt": true, "upper": true, "lower": true}

func unicodeTable(name string) *unicode.RangeTable {
	if t, ok := unicode.Categories[name]; ok {
		return t
	}
	if t, ok := unicode.Scripts[name]; ok {
		return t
	}
	return nil
}

// codePoint returns the rune denoted by an escape-like node.
func (rs *resolver) codePoint(n ast.Node) (rune, bool) {
	hex := func(s string) (rune, bool) {
		v, err := strconv.ParseUint(s, 16, 64)
		if err != nil || v > unicode.MaxRune {
			rs.invalid = "code point out of range"
			return 0, false
		}
		return rune(v), true
	}
	switch n := n.(type) {
	case *ast.CharNode:
		return n.Value, true
	case *ast.MetaCharEscapeNode:
		return n.Value, true
	case *ast.CaretEscapeNode:
		c := n.Value
		if c >= 'a' && c <= 'z' {
			c -= 'a' - 'A'
		}
		if c < 'A' || c > 'Z' {
			rs.invalid = "bad caret escape"
			return 0, false
		}
		return c - 'A' + 1, true
	case *ast.UnicodeEscapeNode:
		return hex(n.Value)
	case *ast.HexEscapeNode:
		return hex(n.Value)
	case *ast.OctalEscapeNode:
		v, err := strconv.ParseUint(n.Value, 8, 32)
		if err != nil {
			rs.invalid = "bad octal escape"
			return 0, false
		}
		return rune(v), true
	case *ast.BellEscapeNode:
		return 7, true
	case *ast.FormFeedEscapeNode:
		return '\f', true
	case *ast.TabEscapeNode:
		return '\t', true
	case *ast.NewlineEscapeNode:
		return '\n', true
	case *ast.CarriageReturnEscapeNode:
		return '\r', true
	}
	return 0, false
}

// classItem returns the set of one class-like item (usable at top level and in
// bracket classes) with case folding already applied.
func (rs *resolver) classItem(n ast.Node, fl rflags) (pred, bool) {
	shorthand := func(name string, p pred, neg bool) (pred, bool) {
		rs.feat("shorthand")
		rs.feat(name)
		p = folded(p, fl.i)
		if neg {
			p = negate(p)
		}
		return p, true
	}
	switch n := n.(type) {
	case *ast.WordCharClassNode:
		return shorthand(`\w`, wordPred(fl.a), false)
	case *ast.NotWordCharClassNode:
		return shorthand(`\W`, wordPred(fl.a), true)
	case *ast.DigitCharClassNode:
		return shorthand(`\d`, digitPred(fl.a), false)
	case *ast.NotDigitCharClassNode:
		return shorthand(`\D`, digitPred(fl.a), true)
	case *ast.WhitespaceCharClassNode:
		return shorthand(`\s`, spacePred(fl.a), false)
	case *ast.NotWhitespaceCharClassNode:
		return shorthand(`\S`, spacePred(fl.a), true)
	case *ast.HorizontalWhitespaceCharClassNode:
		return shorthand(`\h`, hspacePred(fl.a), false)
	case *ast.NotHorizontalWhitespaceCharClassNode:
		return shorthand(`\H`, hspacePred(fl.a), true)
	case *ast.VerticalWhitespaceCharClassNode:
		return shorthand(`\v`, vspacePred(fl.a), false)
	case *ast.NotVerticalWhitespaceCharClassNode:
		return shorthand(`\V`, vspacePred(fl.a), true)
	case *ast.UnicodeCharClassNode:
		rs.feat("unicode_class")
		t := unicodeTable(n.Value)
		if t == nil {
			rs.invalid = "unknown unicode class " + n.Value
			return nil, false
		}
		if fl.i && caseSensitiveNames[n.Value] {
			rs.unclear = "case-sensitive unicode class under i"
		}
		p := folded(inTable(t), fl.i)
		if n.Negated {
			p = negate(p)
		}
		return p, true
	case *ast.NamedCharClassNode:
		rs.feat("posix_class")
		f, ok := posixClasses[n.Name]
		if !ok {
			rs.invalid = "unknown named class " + n.Name
			return nil, false
		}
		if fl.i && caseSensitiveNames[n.Name] {
			rs.unclear = "case-sensitive posix class under i"
		}
		p := folded(func(r rune, _ *bool) bool { return f(r) }, fl.i)
		if n.Negated {
			p = negate(p)
		}
		return p, true
	}
	if c, ok := rs.codePoint(n); ok {
		rs.lit(c, fl.i)
		return folded(single(c), fl.i), true
	}
	return nil, false
}

func (rs *resolver) charClass(n *ast.CharClassNode, fl rflags) *inst {
	rs.feat("class")
	if n.Negated {
		rs.feat("negated_class")
	}
	if len(n.Elements) == 0 {
		// the parser accepts `[]` and `[^]`: a class without members matches no
		// character, its negation every character (a reported error is fine too)
		rs.feat("empty_class")
		neg := n.Negated
		return &inst{op: opSet, set: func(rune, *bool) bool { return neg }}
	}
	var items []pred
	for _, e := range n.Elements {
		switch e := e.(type) {
		case *ast.CharRangeNode:
			rs.feat("range")
			lo, ok1 := rs.codePoint(e.Left)
			hi, ok2 := rs.codePoint(e.Right)
			if !ok1 || !ok2 || lo > hi {
				rs.invalid = "bad range"
				return &inst{op: opFail}
			}
			items = append(items, folded(func(r rune, _ *bool) bool { return r >= lo && r <= hi }, fl.i))
		default:
			p, ok := rs.classItem(e, fl)
			if !ok {
				if rs.invalid == "" {
					rs.invalid = fmt.Sprintf("unsupported class element %T", e)
				}
				return &inst{op: opFail}
			}
			items = append(items, p)
		}
	}
	neg := n.Negated
	return &inst{op: opSet, set: func(r rune, u *bool) bool {
		in := false
		for _, p := range items {
			if p(r, u) {
				in = true
				break
			}
		}
		return in != neg
	}}
}

func isIgnorableSpace(r rune) bool {
	return r == ' ' || r == '\t' || r == '\n' || r == '\r' || r == '\f' || r == '\v'
}

func atoi(s string, def int) int {
	if s == "" {
		return def
	}
	v, err := strconv.Atoi(s)
	if err != nil {
		return 1 << 30
	}
	return v
}

// resolveAlt resolves a node standing where a concatenation may stand (whole
// regex, group content, one side of a union): the parser returns a single
// element unwrapped, so a lone `#` under x is an empty comment.
func (rs *resolver) resolveAlt(n ast.Node, fl *rflags) *inst {
	if ch, ok := n.(*ast.CharNode); ok && fl.x && ch.Value == '#' {
		rs.feat("x_comment")
		return &inst{op: opEmpty}
	}
	return rs.resolve(n, fl)
}

func (rs *resolver) resolve(n ast.Node, fl *rflags) *inst {
	switch n := n.(type) {
	case nil:
		return &inst{op: opEmpty}
	case *ast.ConcatenationNode:
		seq := &inst{op: opSeq}
		inComment := false
		for _, e := range n.Elements {
			if fl.x {
				ch, isChar := e.(*ast.CharNode)
				if inComment {
					if isChar && ch.Value == '\n' {
						inComment = false
					}
					continue
				}
				if isChar && ch.Value == '#' {
					rs.feat("x_comment")
					inComment = true
					continue
				}
			}
			seq.subs = append(seq.subs, rs.resolve(e, fl))
		}
		return seq
	case *ast.UnionNode:
		rs.feat("union")
		// alternatives of one union in source order (the parser builds a left-leaning chain)
		var alts []ast.Node
		var flatten func(u *ast.UnionNode)
		flatten = func(u *ast.UnionNode) {
			if l, ok := u.Left.(*ast.UnionNode); ok {
				flatten(l)
			} else {
				alts = append(alts, u.Left)
			}
			alts = append(alts, u.Right)
		}
		flatten(n)
		saved := rs.cur
		alt := &inst{op: opAlt}
		var sets []*litSet
		for _, a := range alts {
			rs.cur = newLitSet()
			alt.subs = append(alt.subs, rs.resolveAlt(a, fl))
			sets = append(sets, rs.cur)
		}
		if saved == nil {
			saved = newLitSet()
		}
		for i, a := range sets {
			for _, b := range sets[i+1:] {
				if a.clashes(b) {
					rs.foldRisk = true
				}
			}
			saved.merge(a)
		}
		rs.cur = saved
		return alt
	case *ast.GroupNode:
		if n.Regex == nil {
			// flag-only group: applies up to the end of the enclosing group
			if n.SetFlags.IsAnyFlagSet() || n.UnsetFlags.IsAnyFlagSet() {
				rs.feat("flag_only_group")
			}
			fl.apply(n.SetFlags, n.UnsetFlags)
			return &inst{op: opEmpty}
		}
		rs.feat("group")
		inner := *fl
		if n.SetFlags.IsAnyFlagSet() || n.UnsetFlags.IsAnyFlagSet() {
			rs.feat("scoped_flags")
		}
		inner.apply(n.SetFlags, n.UnsetFlags)
		return rs.resolveAlt(n.Regex, &inner)
	case *ast.ZeroOrOneQuantifierNode:
		rs.feat("quantifier")
		return &inst{op: opRep, sub: rs.resolve(n.Regex, fl), min: 0, max: 1}
	case *ast.ZeroOrMoreQuantifierNode:
		rs.feat("quantifier")
		return &inst{op: opRep, sub: rs.resolve(n.Regex, fl), min: 0, max: -1}
	case *ast.OneOrMoreQuantifierNode:
		rs.feat("quantifier")
		return &inst{op: opRep, sub: rs.resolve(n.Regex, fl), min: 1, max: -1}
	case *ast.NQuantifierNode:
		rs.feat("quantifier")
		c := atoi(n.N, 0)
		return &inst{op: opRep, sub: rs.resolve(n.Regex, fl), min: c, max: c}
	case *ast.NMQuantifierNode:
		rs.feat("quantifier")
		lo, hi := atoi(n.N, 0), atoi(n.M, -1)
		if hi >= 0 && lo > hi {
			rs.invalid = "quantifier min > max"
		}
		return &inst{op: opRep, sub: rs.resolve(n.Regex, fl), min: lo, max: hi}
	case *ast.QuotedTextNode:
		rs.feat("quoted")
		seq := &inst{op: opSeq}
		for _, c := range n.Value {
			rs.lit(c, fl.i)
			seq.subs = append(seq.subs, &inst{op: opSet, set: folded(single(c), fl.i)})
		}
		return seq
	case *ast.CharNode:
		if fl.x && unicode.IsSpace(n.Value) {
			if !isIgnorableSpace(n.Value) {
				rs.unclear = "exotic bare whitespace under x"
			}
			rs.feat("x_space")
			return &inst{op: opEmpty}
		}
		rs.lit(n.Value, fl.i)
		return &inst{op: opSet, set: folded(single(n.Value), fl.i)}
	case *ast.CharClassNode:
		return rs.charClass(n, *fl)
	case *ast.AnyCharClassNode:
		rs.feat("dot")
		if fl.s {
			return &inst{op: opSet, set: func(rune, *bool) bool { return true }}
		}
		return &inst{op: opSet, set: func(r rune, _ *bool) bool { return r != '\n' }}
	case *ast.StartOfStringAnchorNode:
		rs.feat("anchor")
		return &inst{op: opBOL, multi: fl.m}
	case *ast.EndOfStringAnchorNode:
		rs.feat("anchor")
		return &inst{op: opEOL, multi: fl.m}
	case *ast.AbsoluteStartOfStringAnchorNode:
		rs.feat("anchor")
		return &inst{op: opBOT}
	case *ast.AbsoluteEndOfStringAnchorNode:
		rs.feat("anchor")
		return &inst{op: opEOT}
	case *ast.WordBoundaryAnchorNode:
		rs.feat("word_boundary")
		return &inst{op: opWB, ascii: fl.a}
	case *ast.NotWordBoundaryAnchorNode:
		rs.feat("word_boundary")
		return &inst{op: opNWB, ascii: fl.a}
	case *ast.InvalidNode:
		rs.invalid = "invalid node"
		return &inst{op: opFail}
	}
	if p, ok := rs.classItem(n, *fl); ok {
		return &inst{op: opSet, set: p}
	}
	if rs.invalid == "" {
		rs.invalid = fmt.Sprintf("unsupported node %T", n)
	}
	return &inst{op: opFail}
}

// matcher ----------------------------------------------------------------

type matcher struct {
	s       []rune
	steps   int
	over    bool
	unclear bool
}

const stepLimit = 400000

func (m *matcher) isWord(pos int, ascii bool) bool {
	if pos < 0 || pos >= len(m.s) {
		return false
	}
	var u bool
	return wordPred(ascii)(m.s[pos], &u)
}

func (m *matcher) boundary(pos int, ascii bool) bool {
	a := m.isWord(pos-1, true) != m.isWord(pos, true)
	if !ascii {
		// the docs do not say whether \b follows the Unicode-aware \w
		if u := m.isWord(pos-1, false) != m.isWord(pos, false); u != a {
			m.unclear = true
		}
	}
	return a
}

func (m *matcher) match(n *inst, pos int, k func(int) bool) bool {
	m.steps++
	if m.steps > stepLimit {
		m.over = true
		return false
	}
	switch n.op {
	case opEmpty:
		return k(pos)
	case opFail:
		return false
	case opSet:
		if pos < len(m.s) && n.set(m.s[pos], &m.unclear) {
			return k(pos + 1)
		}
		return false
	case opSeq:
		return m.seq(n.subs, 0, pos, k)
	case opAlt:
		for _, s := range n.subs {
			if m.match(s, pos, k) {
				return true
			}
		}
		return false
	case opRep:
		return m.rep(n, 0, pos, k)
	case opBOT:
		return pos == 0 && k(pos)
	case opEOT:
		return pos == len(m.s) && k(pos)
	case opBOL:
		if pos == 0 {
			return k(pos)
		}
		if n.multi && m.s[pos-1] == '\n' {
			if pos == len(m.s) {
				m.unclear = true // Perl: no match after a trailing newline; RE2: match
			}
			return k(pos)
		}
		return false
	case opEOL:
		if pos == len(m.s) || n.multi && m.s[pos] == '\n' {
			return k(pos)
		}
		return false
	case opWB:
		return m.boundary(pos, n.ascii) && k(pos)
	case opNWB:
		return !m.boundary(pos, n.ascii) && k(pos)
	}
	return false
}

func (m *matcher) seq(subs []*inst, i, pos int, k func(int) bool) bool {
	if i == len(subs) {
		return k(pos)
	}
	return m.match(subs[i], pos, func(p int) bool { return m.seq(subs, i+1, p, k) })
}

func (m *matcher) rep(n *inst, count, pos int, k func(int) bool) bool {
	if count < n.min {
		return m.match(n.sub, pos, func(p int) bool { return m.rep(n, count+1, p, k) })
	}
	if n.max < 0 || count < n.max {
		if m.match(n.sub, pos, func(p int) bool {
			if p == pos {
				return false
			}
			return m.rep(n, count+1, p, k)
		}) {
			return true
		}
	}
	return k(pos)
}

type refResult struct {
	match   bool
	unclear bool // semantics not pinned down for this (pattern, subject)
	over    bool // step budget exhausted
}

// refMatch: does prog match anywhere in s (unanchored, like Regex#matches)?
func refMatch(prog *inst, s string) refResult {
	m := &matcher{s: []rune(s)}
	for start := 0; start <= len(m.s); start++ {
		if m.match(prog, start, func(int) bool { return true }) {
			return refResult{match: true, unclear: m.unclear}
		}
		if m.over {
			return refResult{over: true}
		}
	}
	return refResult{unclear: m.unclear}
}
