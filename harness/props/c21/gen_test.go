package c21

// Generator of Elk regex syntax trees, their printer (plain and decorated) and
// the derivation of subject strings from a tree.

import (
	"fmt"
	"strings"
	"unicode"

	"pgregory.net/rapid"

	"verif/internal/vgen"
)

const (
	fI uint8 = 1 << iota
	fM
	fS
	fU
	fX
	fA
)

const flagChars = "imsUxa"

func flagString(f uint8) string {
	var sb strings.Builder
	for i := 0; i < 6; i++ {
		if f&(1<<i) != 0 {
			sb.WriteByte(flagChars[i])
		}
	}
	return sb.String()
}

// characters used in patterns and subjects: ASCII letters with interesting fold
// orbits (k/K/KELVIN, s/S/LONG S), digits of several scripts, every kind of
// white space the shorthand classes distinguish, Latin-1, Greek (three-element
// orbit), Cyrillic, CJK, a combining mark, a connector, other numbers, symbols,
// regex metacharacters, control characters, an astral character.
var alphabet = []rune{
	'a', 'b', 'c', 'k', 's', 'z', 'A', 'B', 'K', 'S', 'Z', '0', '1', '7', '9', '_', '-',
	' ', '\t', '\n', '\r', '\v', '\f', 0x85, 0xA0, 0x2028, 0x2029, 0x3000, 0x1680,
	'é', 'É', 'ß', 'σ', 'ς', 'Σ', 0x212A, 0x17F, 'д', 'Д', '中', '٣', '५', 0x301, 0x203F, '²', 'Ⅷ',
	'.', '*', '#', '!', '|', '(', ')', ']', '[', '{', '}', '^', '$', '\\', '+', '?', ',', ':', '<', '>', '\'', '/', '=',
	'😀', 0x1, 0x7, 0x1b,
}

func pickRune(t *rapid.T, label string) rune { return alphabet[vgen.Pick(t, len(alphabet), label)] }

// weighted choice with uniform coin flips
func weighted(t *rapid.T, label string, w ...int) int {
	total := 0
	for _, x := range w {
		total += x
	}
	v := vgen.Pick(t, total, label)
	for i, x := range w {
		if v < x {
			return i
		}
		v -= x
	}
	return len(w) - 1
}

type gn struct {
	k          string
	subs       []*gn
	r, r2      rune
	form       int
	form2      int
	s          string
	neg        bool
	gk         int
	set, unset uint8
	qk         int
	min, max   int
	alt        bool
}

var shorthands = []string{"w", "W", "d", "D", "s", "S", "h", "H", "v", "V"}
var uclasses = []string{"L", "Lu", "Ll", "N", "Nd", "No", "P", "Z", "Zs", "M", "Mn", "S", "Latin", "Greek", "Cyrillic", "Han", "Arabic", "Common", "Pc", "Cc"}
var posixNames = []string{"alnum", "alpha", "ascii", "blank", "cntrl", "digit", "graph", "lower", "print", "punct", "space", "upper", "word", "xdigit"}

type gctx struct {
	budget int
	names  int
	noWB   bool // do not generate \b \B (semantics not pinned down under Unicode)
}

func genRegex(t *rapid.T, g *gctx, depth int) *gn {
	n := 1
	if depth < 3 {
		n = 1 + weighted(t, "nalt", 70, 22, 8)
	}
	if n == 1 {
		return genCat(t, g, depth)
	}
	u := &gn{k: "alt"}
	for i := 0; i < n; i++ {
		u.subs = append(u.subs, genCat(t, g, depth))
	}
	return u
}

func genCat(t *rapid.T, g *gctx, depth int) *gn {
	n := weighted(t, "ncat", 4, 30, 30, 20, 10, 6)
	c := &gn{k: "cat"}
	for i := 0; i < n && g.budget > 0; i++ {
		c.subs = append(c.subs, genElem(t, g, depth))
	}
	return c
}

func genChar(t *rapid.T) *gn {
	return &gn{k: "char", r: pickRune(t, "ch"), form: weighted(t, "form", 50, 4, 5, 4, 4, 2, 3, 3, 3, 4, 4, 4, 6, 4)}
}

func genElem(t *rapid.T, g *gctx, depth int) *gn {
	g.budget--
	var a *gn
	quantifiable := true
	wbw := 3
	if g.noWB {
		wbw = 0
	}
	grpw := 14
	if depth >= 3 {
		grpw = 0
	}
	switch weighted(t, "atom", 30, 5, 12, 5, 14, grpw, 5, 6, wbw, 3) {
	case 0:
		a = genChar(t)
	case 1:
		a = &gn{k: "dot"}
	case 2:
		a = &gn{k: "short", s: shorthands[vgen.Pick(t, len(shorthands), "sh")]}
	case 3:
		a = genUClass(t)
	case 4:
		a = genClass(t)
	case 5:
		a = genGroup(t, g, depth+1)
	case 6:
		quantifiable = false
		a = &gn{k: "flagonly"}
		a.set, a.unset = genFlagPair(t)
	case 7:
		a = &gn{k: []string{"bol", "eol", "bot", "eot"}[vgen.Pick(t, 4, "anchor")]}
	case 8:
		a = &gn{k: []string{"wb", "nwb"}[vgen.Pick(t, 2, "wb")]}
	default:
		n := weighted(t, "qlen", 10, 40, 30, 20)
		var sb strings.Builder
		for i := 0; i < n; i++ {
			r := pickRune(t, "qch")
			if r == '\\' {
				r = '/'
			}
			sb.WriteRune(r)
		}
		a = &gn{k: "quoted", s: sb.String()}
		quantifiable = n == 1 // `\Qab\E*`: Perl quantifies the last char, Elk's tree the whole text: not pinned down
	}
	if !quantifiable || weighted(t, "quant", 68, 32) == 0 {
		return a
	}
	q := &gn{k: "rep", subs: []*gn{a}, alt: weighted(t, "lazy", 80, 20) == 1}
	q.qk = weighted(t, "qk", 20, 20, 20, 14, 8, 12, 6)
	small := func(l string) int { return weighted(t, l, 20, 30, 25, 15, 10) }
	switch q.qk {
	case 3: // {n}
		q.min = small("qn")
		if weighted(t, "qbig", 97, 3) == 1 {
			q.min = []int{1000, 1001}[vgen.Pick(t, 2, "qbigv")]
		}
	case 4: // {n,}
		q.min = small("qn")
	case 5: // {n,m}
		q.min = small("qn")
		q.max = q.min + small("qm")
		if weighted(t, "qrev", 96, 4) == 1 {
			q.min, q.max = q.max+1, q.min
		}
	case 6: // {,m}
		q.max = small("qm")
	}
	return q
}

func genFlagPair(t *rapid.T) (set, unset uint8) {
	set = uint8(vgen.Pick(t, 64, "gset"))
	unset = uint8(vgen.Pick(t, 64, "gunset")) &^ set
	switch weighted(t, "gfshape", 40, 30, 30) {
	case 1:
		unset = 0
	case 2:
		// a single flag either way: the most common spelling
		b := uint8(1) << vgen.Pick(t, 6, "gone")
		if set&b != 0 || unset == 0 {
			set, unset = b, 0
		} else {
			set, unset = 0, b
		}
	}
	if set == 0 && unset == 0 {
		set = fI
	}
	return
}

func genUClass(t *rapid.T) *gn {
	return &gn{k: "uclass", s: uclasses[vgen.Pick(t, len(uclasses), "ucl")], neg: weighted(t, "uneg", 70, 30) == 1, form: vgen.Pick(t, 3, "uform")}
}

func genClass(t *rapid.T) *gn {
	c := &gn{k: "class", neg: weighted(t, "cneg", 70, 30) == 1}
	n := weighted(t, "nitems", 1, 35, 30, 20, 14)
	for i := 0; i < n; i++ {
		switch weighted(t, "item", 35, 18, 25, 8, 10, 4) {
		case 0:
			c.subs = append(c.subs, genChar(t))
		case 1:
			lo, hi := genChar(t), genChar(t)
			if lo.r > hi.r && weighted(t, "revrange", 95, 5) == 0 {
				lo, hi = hi, lo
			}
			c.subs = append(c.subs, &gn{k: "range", r: lo.r, form: lo.form, r2: hi.r, form2: hi.form})
		case 2:
			c.subs = append(c.subs, &gn{k: "short", s: shorthands[vgen.Pick(t, len(shorthands), "sh")]})
		case 3:
			c.subs = append(c.subs, genUClass(t))
		case 4:
			c.subs = append(c.subs, &gn{k: "posix", s: posixNames[vgen.Pick(t, len(posixNames), "px")], neg: weighted(t, "pneg", 75, 25) == 1})
		default:
			// neighbours of a range end: A-Z / a-z / 0-9
			r := [][2]rune{{'a', 'z'}, {'A', 'Z'}, {'0', '9'}, {'a', 'c'}, {0x3b1, 0x3c9}}[vgen.Pick(t, 5, "stdrange")]
			c.subs = append(c.subs, &gn{k: "range", r: r[0], r2: r[1]})
		}
	}
	return c
}

func genGroup(t *rapid.T, g *gctx, depth int) *gn {
	grp := &gn{k: "group", gk: weighted(t, "gk", 25, 25, 6, 4, 5, 35)}
	switch grp.gk {
	case 2, 3, 4:
		g.names++
		grp.s = "n" + string(rune('a'+g.names%26)) + string(rune('a'+(g.names/26)%26))
	case 5:
		grp.set, grp.unset = genFlagPair(t)
	}
	grp.subs = []*gn{genRegex(t, g, depth)}
	return grp
}

// printer ------------------------------------------------------------------

type printer struct {
	sb       strings.Builder
	fl       uint8
	deco     *rapid.T // nil: plain
	metaCmt  bool     // comments may contain regex metacharacters (known-finding domain)
	decoCnt  int
	cmtCnt   int
	openTail bool // last thing written is a # comment without its newline
	quantGap bool // blanks were put between an atom and its quantifier
}

func (p *printer) x() bool { return p.fl&fX != 0 }

const metaEscapable = `.?-+*^\|$()[]{} `

func hexForm(r rune, form int) (string, bool) {
	switch form {
	case 1:
		if r <= 0xff {
			return fmt.Sprintf(`\x%02x`, r), true
		}
	case 2:
		return fmt.Sprintf(`\x{%x}`, r), true
	case 3:
		if r <= 0xffff {
			return fmt.Sprintf(`\u%04X`, r), true
		}
	case 4:
		return fmt.Sprintf(`\u{%x}`, r), true
	case 5:
		return fmt.Sprintf(`\U%08x`, r), true
	case 6:
		return fmt.Sprintf(`\U{%X}`, r), true
	case 7:
		if r <= 0o777 {
			return fmt.Sprintf(`\o%03o`, r), true
		}
	case 8:
		if r <= 0o777 {
			return fmt.Sprintf(`\o{%o}`, r), true
		}
	case 9:
		if r <= 0o777 {
			return fmt.Sprintf(`\%03o`, r), true
		}
	case 11:
		if r >= 1 && r <= 26 {
			if r%2 == 0 {
				return `\c` + string('A'+r-1), true
			}
			return `\c` + string('a'+r-1), true
		}
	case 12:
		switch r {
		case 7:
			return `\a`, true
		case '\f':
			return `\f`, true
		case '\t':
			return `\t`, true
		case '\n':
			return `\n`, true
		case '\r':
			return `\r`, true
		}
	}
	return "", false
}

// charText prints one literal character. nextDigit: the next thing printed
// starts with a digit (a short octal escape would swallow it).
func (p *printer) charText(r rune, form int, inClass, first, nextDigit bool) string {
	if (form == 9 || form == 10) && nextDigit && r <= 0o777 {
		// `\163` followed by a digit is lexed as one (invalid) four-digit escape
		return fmt.Sprintf(`\o{%o}`, r)
	}
	if form == 11 && inClass {
		form = 2 // the parser has no \cX in bracket expressions (reported as a parse error; see notes)
	}
	if s, ok := hexForm(r, form); ok {
		return s
	}
	if form == 10 && r <= 0o77 && !nextDigit {
		return fmt.Sprintf(`\%o`, r)
	}
	if form == 10 && r <= 0o777 {
		return fmt.Sprintf(`\%03o`, r)
	}
	// raw or meta-escaped
	if inClass {
		switch r {
		case '\\', ']', '[', '-':
			return `\` + string(r)
		case '^':
			if first || form == 13 {
				return `\^`
			}
		}
		if form == 13 && strings.ContainsRune(metaEscapable, r) {
			return `\` + string(r)
		}
		return string(r)
	}
	switch r {
	case '.', '?', '+', '*', '^', '\\', '|', '$', '(', ')', '[', '{':
		return `\` + string(r)
	}
	if p.x() {
		// bare whitespace and # are syntax under x
		if r == '#' {
			if form%2 == 0 {
				return `[#]`
			}
			return `\x23`
		}
		if unicode.IsSpace(r) {
			if r == ' ' && form%2 == 0 {
				return `\ `
			}
			return fmt.Sprintf(`\x{%x}`, r)
		}
	}
	if form == 13 && strings.ContainsRune(metaEscapable, r) {
		return `\` + string(r)
	}
	return string(r)
}

func startsWithDigit(n *gn) bool {
	for n != nil {
		switch n.k {
		case "char":
			return n.r >= '0' && n.r <= '9' && (n.form == 0 || n.form >= 11)
		case "rep":
			n = n.subs[0]
			continue
		}
		return false
	}
	return false
}

var safeCmtChars = []rune("abc xyz 0123 ,:<>'-=!/@~_%&;\"}].^$#\tżσ")
var metaCmtChars = []rune("|()[]{\\*+?")

func (p *printer) gap(last bool) {
	t := p.deco
	if t == nil {
		return
	}
	var k int
	if p.x() {
		k = weighted(t, "gap", 50, 22, 18, 10)
	} else {
		k = []int{0, 3}[weighted(t, "gapnx", 82, 18)]
	}
	switch k {
	case 1:
		n := 1 + weighted(t, "wsn", 50, 30, 20)
		for i := 0; i < n; i++ {
			p.sb.WriteRune([]rune{' ', ' ', '\t', '\n', '\r'}[vgen.Pick(t, 5, "ws")])
		}
		p.decoCnt++
	case 2:
		p.sb.WriteByte('#')
		n := weighted(t, "cmtn", 10, 20, 25, 25, 20)
		for i := 0; i < n; i++ {
			if p.metaCmt && weighted(t, "cmtmeta", 60, 40) == 1 {
				p.sb.WriteRune(metaCmtChars[vgen.Pick(t, len(metaCmtChars), "cmc")])
			} else {
				p.sb.WriteRune(safeCmtChars[vgen.Pick(t, len(safeCmtChars), "cc")])
			}
		}
		if last && weighted(t, "cmtopen", 50, 50) == 1 {
			p.openTail = true
		} else {
			p.sb.WriteByte('\n')
		}
		p.decoCnt++
		p.cmtCnt++
	case 3:
		p.sb.WriteString("(?#")
		n := weighted(t, "cgn", 20, 30, 30, 20)
		for i := 0; i < n; i++ {
			r := pickRune(t, "cgc")
			if r == ')' {
				r = '('
			}
			p.sb.WriteRune(r)
		}
		p.sb.WriteByte(')')
		p.decoCnt++
	}
}

func (p *printer) regex(n *gn, top bool) {
	switch n.k {
	case "alt":
		for i, s := range n.subs {
			if i > 0 {
				p.sb.WriteByte('|')
			}
			p.cat(s, top && i == len(n.subs)-1)
		}
	default:
		p.cat(n, top)
	}
}

func (p *printer) cat(n *gn, last bool) {
	for i, e := range n.subs {
		p.gap(false)
		var next *gn
		if i+1 < len(n.subs) {
			next = n.subs[i+1]
		}
		p.elem(e, startsWithDigit(next))
	}
	p.gap(last)
}

func writeFlags(sb *strings.Builder, set, unset uint8) {
	sb.WriteString(flagString(set))
	if unset != 0 {
		sb.WriteByte('-')
		sb.WriteString(flagString(unset))
	}
}

func (p *printer) elem(n *gn, nextDigit bool) {
	switch n.k {
	case "rep":
		p.elem(n.subs[0], false)
		if p.deco != nil && p.x() && n.subs[0].k != "flagonly" && weighted(p.deco, "qgap", 88, 12) == 1 {
			// "x - ignore all whitespace": also between an atom and its quantifier
			p.sb.WriteString([]string{" ", "  ", "\t", "\n", " \n "}[vgen.Pick(p.deco, 5, "qgapws")])
			p.quantGap = true
			p.decoCnt++
		}
		switch n.qk {
		case 0:
			p.sb.WriteByte('?')
		case 1:
			p.sb.WriteByte('*')
		case 2:
			p.sb.WriteByte('+')
		case 3:
			fmt.Fprintf(&p.sb, "{%d}", n.min)
		case 4:
			fmt.Fprintf(&p.sb, "{%d,}", n.min)
		case 5:
			fmt.Fprintf(&p.sb, "{%d,%d}", n.min, n.max)
		case 6:
			fmt.Fprintf(&p.sb, "{,%d}", n.max)
		}
		if n.alt {
			p.sb.WriteByte('?')
		}
	case "char":
		p.sb.WriteString(p.charText(n.r, n.form, false, false, nextDigit))
	case "dot":
		p.sb.WriteByte('.')
	case "short":
		p.sb.WriteString(`\` + n.s)
	case "uclass":
		p.uclass(n)
	case "class":
		p.class(n)
	case "quoted":
		p.sb.WriteString(`\Q` + n.s + `\E`)
	case "bol":
		p.sb.WriteByte('^')
	case "eol":
		p.sb.WriteByte('$')
	case "bot":
		p.sb.WriteString(`\A`)
	case "eot":
		p.sb.WriteString(`\z`)
	case "wb":
		p.sb.WriteString(`\b`)
	case "nwb":
		p.sb.WriteString(`\B`)
	case "flagonly":
		p.sb.WriteString("(?")
		writeFlags(&p.sb, n.set, n.unset)
		p.sb.WriteByte(')')
		p.fl = (p.fl | n.set) &^ n.unset
	case "group":
		saved := p.fl
		switch n.gk {
		case 0:
			p.sb.WriteByte('(')
		case 1:
			p.sb.WriteString("(?:")
		case 2:
			p.sb.WriteString("(?<" + n.s + ">")
		case 3:
			p.sb.WriteString("(?'" + n.s + "'")
		case 4:
			p.sb.WriteString("(?P<" + n.s + ">")
		case 5:
			p.sb.WriteString("(?")
			writeFlags(&p.sb, n.set, n.unset)
			p.sb.WriteByte(':')
			p.fl = (p.fl | n.set) &^ n.unset
		}
		p.regex(n.subs[0], false)
		p.sb.WriteByte(')')
		p.fl = saved
	}
}

func (p *printer) uclass(n *gn) {
	single := len(n.s) == 1
	switch {
	case single && n.form == 0:
		if n.neg {
			p.sb.WriteString(`\P` + n.s)
		} else {
			p.sb.WriteString(`\p` + n.s)
		}
	case n.form == 1:
		// negation spelled with ^
		if n.neg {
			p.sb.WriteString(`\p{^` + n.s + `}`)
		} else {
			p.sb.WriteString(`\P{^` + n.s + `}`)
		}
	default:
		if n.neg {
			p.sb.WriteString(`\P{` + n.s + `}`)
		} else {
			p.sb.WriteString(`\p{` + n.s + `}`)
		}
	}
}

func (p *printer) class(n *gn) {
	p.sb.WriteByte('[')
	if n.neg {
		p.sb.WriteByte('^')
	}
	for i, it := range n.subs {
		first := i == 0 && !n.neg
		var next *gn
		if i+1 < len(n.subs) {
			next = n.subs[i+1]
		}
		nd := next != nil && (next.k == "char" || next.k == "range") && next.r >= '0' && next.r <= '9'
		switch it.k {
		case "char":
			p.sb.WriteString(p.charText(it.r, it.form, true, first, nd))
		case "range":
			lf, rf := it.form, it.form2
			if lf == 9 || lf == 10 || lf == 7 || lf == 8 {
				lf = 2 // octal escapes are not valid range ends in Elk (ast.IsValidCharRangeElement)
			}
			p.sb.WriteString(p.charText(it.r, lf, true, first, false))
			p.sb.WriteByte('-')
			p.sb.WriteString(p.charText(it.r2, rf, true, false, nd))
		case "short":
			p.sb.WriteString(`\` + it.s)
		case "uclass":
			p.uclass(it)
		case "posix":
			if it.neg {
				p.sb.WriteString("[:^" + it.s + ":]")
			} else {
				p.sb.WriteString("[:" + it.s + ":]")
			}
		}
	}
	p.sb.WriteByte(']')
}

func printPlain(n *gn, flags uint8) string {
	p := &printer{fl: flags}
	p.regex(n, true)
	return p.sb.String()
}

func printDecorated(t *rapid.T, n *gn, flags uint8, meta bool) (string, int, int) {
	p := &printer{fl: flags, deco: t, metaCmt: meta}
	p.regex(n, true)
	return p.sb.String(), p.decoCnt, p.cmtCnt
}

// subjects -----------------------------------------------------------------

var classSamples = map[string][]rune{
	"w": {'a', 'Z', '7', '_', 'é', 'σ', '中', '٣', 0x301, 0x203F, '-', ' ', '²'},
	"d": {'0', '9', '٣', '५', 'a', '²', 'Ⅷ'},
	"s": {' ', '\t', '\n', '\v', '\f', '\r', 0x85, 0xA0, 0x2028, 0x3000, 'a', '_'},
	"h": {' ', '\t', 0xA0, 0x3000, 0x1680, '\n', 0x2028, 'a'},
	"v": {'\n', '\v', '\f', '\r', 0x85, 0x2028, 0x2029, ' ', 'a'},
}

func swapCase(r rune) rune {
	f := unicode.SimpleFold(r)
	return f
}

func derive(t *rapid.T, n *gn, sb *strings.Builder, depth int) {
	anyRune := func() { sb.WriteRune(pickRune(t, "dr")) }
	switch n.k {
	case "alt":
		derive(t, n.subs[vgen.Pick(t, len(n.subs), "dalt")], sb, depth)
	case "cat":
		for _, e := range n.subs {
			derive(t, e, sb, depth)
		}
	case "group":
		derive(t, n.subs[0], sb, depth)
	case "rep":
		lo, hi := 0, 2
		switch n.qk {
		case 0:
			hi = 1
		case 2:
			lo, hi = 1, 3
		case 3:
			lo, hi = n.min, n.min
		case 4:
			lo, hi = n.min, n.min+2
		case 5:
			lo, hi = n.min, n.max
		case 6:
			lo, hi = 0, n.max
		}
		if hi < lo {
			hi = lo
		}
		if lo > 6 {
			lo, hi = 2, 2
		}
		c := lo + vgen.Pick(t, hi-lo+1, "dcount")
		if weighted(t, "doff", 85, 15) == 1 {
			c = []int{lo - 1, hi + 1}[vgen.Pick(t, 2, "doffv")]
		}
		for i := 0; i < c && i < 6; i++ {
			derive(t, n.subs[0], sb, depth)
		}
	case "char":
		switch weighted(t, "dchar", 70, 18, 12) {
		case 0:
			sb.WriteRune(n.r)
		case 1:
			sb.WriteRune(swapCase(n.r))
		default:
			anyRune()
		}
	case "quoted":
		for _, r := range n.s {
			if weighted(t, "dq", 85, 15) == 1 {
				r = swapCase(r)
			}
			sb.WriteRune(r)
		}
	case "dot":
		if weighted(t, "ddot", 70, 30) == 1 {
			sb.WriteRune('\n')
		} else {
			anyRune()
		}
	case "short":
		s := classSamples[strings.ToLower(n.s)]
		sb.WriteRune(s[vgen.Pick(t, len(s), "dshort")])
	case "uclass", "posix":
		anyRune()
	case "range":
		switch vgen.Pick(t, 4, "drange") {
		case 0:
			sb.WriteRune(n.r)
		case 1:
			sb.WriteRune(n.r2)
		case 2:
			if n.r < n.r2 {
				sb.WriteRune(n.r + (n.r2-n.r)/2)
			} else {
				sb.WriteRune(n.r)
			}
		default:
			sb.WriteRune(swapCase(n.r2))
		}
	case "class":
		if len(n.subs) == 0 || n.neg && weighted(t, "dneg", 50, 50) == 0 {
			anyRune()
		} else {
			derive(t, n.subs[vgen.Pick(t, len(n.subs), "ditem")], sb, depth)
		}
	case "wb", "nwb":
		if weighted(t, "dwb", 70, 30) == 1 {
			sb.WriteRune([]rune{' ', 'a', 'é', '-'}[vgen.Pick(t, 4, "dwbc")])
		}
	case "bol", "eol":
		if weighted(t, "dnl", 60, 40) == 1 {
			sb.WriteRune('\n')
		}
	}
}

func mutate(t *rapid.T, s string) string {
	rs := []rune(s)
	switch weighted(t, "mut", 30, 20, 20, 15, 15) {
	case 0:
		if len(rs) > 0 {
			i := vgen.Pick(t, len(rs), "mi")
			rs[i] = pickRune(t, "mr")
		}
	case 1:
		if len(rs) > 0 {
			i := vgen.Pick(t, len(rs), "mi")
			rs = append(rs[:i], rs[i+1:]...)
		}
	case 2:
		i := vgen.Pick(t, len(rs)+1, "mi")
		rs = append(rs[:i], append([]rune{pickRune(t, "mr")}, rs[i:]...)...)
	case 3:
		if len(rs) > 0 {
			i := vgen.Pick(t, len(rs), "mi")
			rs[i] = swapCase(rs[i])
		}
	default:
		if len(rs) > 1 {
			rs = rs[:len(rs)-1]
		}
	}
	return string(rs)
}

func genSubjects(t *rapid.T, n *gn, count int) []string {
	out := make([]string, 0, count)
	seen := map[string]bool{}
	add := func(s string) {
		if len([]rune(s)) > 24 {
			s = string([]rune(s)[:24])
		}
		if !seen[s] {
			seen[s] = true
			out = append(out, s)
		}
	}
	for i := 0; i < count; i++ {
		var sb strings.Builder
		derive(t, n, &sb, 0)
		s := sb.String()
		switch weighted(t, "subj", 35, 30, 15, 10, 10) {
		case 1:
			s = mutate(t, s)
		case 2:
			s = string(pickRune(t, "pre")) + s + string(pickRune(t, "post"))
		case 3:
			s = mutate(t, mutate(t, s))
		case 4:
			k := weighted(t, "rlen", 10, 30, 30, 30)
			var r strings.Builder
			for j := 0; j < k; j++ {
				r.WriteRune(pickRune(t, "rnd"))
			}
			s = r.String()
		}
		add(s)
	}
	return out
}

func genTree(t *rapid.T, budget int, noWB bool) *gn {
	g := &gctx{budget: budget, noWB: noWB}
	return genRegex(t, g, 0)
}
