package c09

// A small type-directed generator of Elk programs inside the subset the native Go
// backend's own tests (compiler/go_compiler_*_test.go) exercise: top-level code,
// methods, a class with an instance variable, locals, if/unless/while/until/loop/
// do-while/for-in/fornum, (labelled) break/continue, Int/BigInt/Float/fixed-size
// integer/String operators and comparisons, both interpolation forms, list/tuple/
// map/set literals with basic methods, switch with literal/range/relational
// patterns, closures, ?? / && / ||, and programs that end in an uncaught error.
// Programs terminate by construction (literal loop bounds, counters that the
// generated code never assigns, increment before any `continue`).

import (
	"fmt"
	"strings"

	"pgregory.net/rapid"

	"verif/internal/vgen"
)

type xv struct {
	name, t string
	ro      bool
}

type xm struct {
	name string
	args []string
	ret  string
}

type xloop struct {
	label   string
	numeric bool // fornum / for-in compiled as a numeric for (range, Int)
}

type xg struct {
	t              *rapid.T
	lines          []string
	ind            int
	scopes         [][]xv
	n              int
	loops          []xloop
	methods        []xm
	budget         int
	hasObj         bool
	inDef          bool
	retInt         bool
	noClosureCalls bool // known finding native-closure-call-arity
	noNumContinue  bool // known finding native-continue-skips-increment
	noIfaceCalls   bool // known finding native-interface-method-call
	feats          map[string]bool
}

func (g *xg) pick(n int, l string) int    { return vgen.Pick(g.t, n, l) }
func (g *xg) chance(n int, l string) bool { return g.pick(n, l) == 0 }
func (g *xg) emit(f string, a ...any) {
	g.lines = append(g.lines, strings.Repeat("  ", g.ind)+fmt.Sprintf(f, a...))
}
func (g *xg) fresh(p string) string { g.n++; return fmt.Sprintf("%s%d", p, g.n) }
func (g *xg) push()                 { g.scopes = append(g.scopes, nil) }
func (g *xg) pop()                  { g.scopes = g.scopes[:len(g.scopes)-1] }
func (g *xg) declare(v xv)          { g.scopes[len(g.scopes)-1] = append(g.scopes[len(g.scopes)-1], v) }
func (g *xg) feat(f string)         { g.feats[f] = true }

func (g *xg) vars(t string, writable bool) []xv {
	var out []xv
	for _, s := range g.scopes {
		for _, v := range s {
			if v.t == t && (!writable || !v.ro) {
				out = append(out, v)
			}
		}
	}
	return out
}

func (g *xg) someVar(t string, writable bool) (string, bool) {
	vs := g.vars(t, writable)
	if len(vs) == 0 {
		return "", false
	}
	return vs[g.pick(len(vs), "var")].name, true
}

var fixedTypes = []string{"Int8", "UInt8", "Int64", "UInt64"}
var fixedSuffix = map[string]string{"Int8": "i8", "UInt8": "u8", "Int64": "i64", "UInt64": "u64"}

var scalarTypes = []string{"Int", "Int", "Int", "Float", "String", "Bool", "Int8", "UInt8", "Int64", "UInt64"}

func (g *xg) expr(t string, d int) string {
	switch t {
	case "Int":
		return g.intExpr(d)
	case "Float":
		return g.floatExpr(d)
	case "String":
		return g.strExpr(d)
	case "Bool":
		return g.boolExpr(d)
	}
	return g.fixedExpr(t, d)
}

func (g *xg) intLit() string {
	if g.chance(8, "bigl") {
		g.feat("bigint")
		return []string{"4611686018427387903", "9223372036854775807", "(-9223372036854775807)", "18446744073709551616", "4611686018427387904"}[g.pick(5, "big")]
	}
	n := rapid.IntRange(-3, 12).Draw(g.t, "n")
	if n < 0 {
		return fmt.Sprintf("(%d)", n)
	}
	return fmt.Sprint(n)
}

func (g *xg) intExpr(d int) string {
	if d <= 0 || g.chance(3, "leaf") {
		if v, ok := g.someVar("Int", false); ok && !g.chance(3, "lit") {
			return v
		}
		return g.intLit()
	}
	switch g.pick(17, "ik") {
	case 0, 1:
		return fmt.Sprintf("(%s %s %s)", g.intExpr(d-1), []string{"+", "-", "*", "-"}[g.pick(4, "op")], g.intExpr(d-1))
	case 2:
		g.feat("intdiv")
		if g.chance(6, "anydiv") {
			return fmt.Sprintf("(%s %s %s)", g.intExpr(d-1), []string{"/", "%"}[g.pick(2, "op")], g.intExpr(d-1))
		}
		k := []string{"2", "3", "(-2)", "7", "(-5)", "1"}[g.pick(6, "k")]
		return fmt.Sprintf("(%s %s %s)", g.intExpr(d-1), []string{"/", "%"}[g.pick(2, "op")], k)
	case 3:
		return fmt.Sprintf("(%s ** %d)", g.intExpr(d-1), g.pick(4, "pow"))
	case 4:
		return fmt.Sprintf("(%s%s)", []string{"-", "~", "+"}[g.pick(3, "un")], g.intExpr(d-1))
	case 5:
		g.feat("bitop")
		return fmt.Sprintf("(%s %s %s)", g.intExpr(d-1), []string{"&", "|", "^", "&~"}[g.pick(4, "op")], g.intExpr(d-1))
	case 6:
		g.feat("shift")
		k := []int{0, 1, 3, 62, 64, 70, -1, -3}[g.pick(8, "sh")]
		ks := fmt.Sprint(k)
		if k < 0 {
			ks = "(" + ks + ")"
		}
		return fmt.Sprintf("(%s %s %s)", g.intExpr(d-1), []string{"<<", ">>"}[g.pick(2, "op")], ks)
	case 7:
		for _, i := range rapidPerm(g, len(g.methods)) {
			m := g.methods[i]
			if m.ret == "Int" && !g.inDef {
				g.feat("call")
				return g.call(m, d)
			}
		}
	case 8:
		if v, ok := g.someVar("List", false); ok {
			g.feat("list_get")
			if g.chance(2, "len") {
				return v + ".length"
			}
			return fmt.Sprintf("%s[%d]", v, g.pick(2, "ix"))
		}
	case 9:
		if v, ok := g.someVar("Map", false); ok {
			g.feat("map_get")
			if g.chance(3, "len") {
				return v + ".length"
			}
			return fmt.Sprintf("(%s[%q] ?? %s)", v, []string{"a", "b", "zz"}[g.pick(3, "key")], g.intExpr(0))
		}
	case 10:
		if v, ok := g.someVar("NInt", false); ok {
			g.feat("nilcoalesce")
			return fmt.Sprintf("(%s ?? %s)", v, g.intExpr(d-1))
		}
	case 11:
		g.feat("ifexpr")
		return fmt.Sprintf("(if %s then %s else %s)", g.boolExpr(d-1), g.intExpr(d-1), g.intExpr(d-1))
	case 12:
		if g.hasObj && !g.inDef {
			if v, ok := g.someVar("Obj", false); ok {
				g.feat("objcall")
				if g.chance(2, "get") {
					return v + ".get"
				}
				return fmt.Sprintf("%s.add(%s)", v, g.intExpr(d-1))
			}
		}
	case 13:
		if v, ok := g.someVar("Fn", false); ok && !g.noClosureCalls {
			g.feat("closure_call")
			return fmt.Sprintf("%s.call(%s)", v, g.intExpr(d-1))
		}
	case 14:
		g.feat("strlen")
		return g.strExpr(d-1) + ".length"
	case 15:
		if v, ok := g.someVar("Tuple", false); ok {
			g.feat("tuple_get")
			return fmt.Sprintf("%s[%d]", v, g.pick(2, "ix"))
		}
	case 16:
		if v, ok := g.someVar("Set", false); ok {
			return v + ".length"
		}
	}
	return g.intExpr(d - 1)
}

func rapidPerm(g *xg, n int) []int {
	if n == 0 {
		return nil
	}
	s := g.pick(n, "rot")
	out := make([]int, n)
	for i := range out {
		out[i] = (s + i) % n
	}
	return out
}

func (g *xg) call(m xm, d int) string {
	var as []string
	for _, a := range m.args {
		as = append(as, g.expr(a, d-1))
	}
	return fmt.Sprintf("%s(%s)", m.name, strings.Join(as, ", "))
}

func (g *xg) floatExpr(d int) string {
	if d <= 0 || g.chance(3, "leaf") {
		if v, ok := g.someVar("Float", false); ok && !g.chance(3, "lit") {
			return v
		}
		return []string{"0.0", "1.5", "(-2.25)", "3.0", "1e10", "0.1", "100.75"}[g.pick(7, "fl")]
	}
	g.feat("float")
	switch g.pick(6, "fk") {
	case 0, 1:
		return fmt.Sprintf("(%s %s %s)", g.floatExpr(d-1), []string{"+", "-", "*", "/"}[g.pick(4, "op")], g.floatExpr(d-1))
	case 2:
		g.feat("mixed_arith")
		return fmt.Sprintf("(%s %s %s)", g.floatExpr(d-1), []string{"+", "-", "*", "/"}[g.pick(4, "op")], g.intExpr(d-1))
	case 3:
		return fmt.Sprintf("(-%s)", g.floatExpr(d-1))
	case 4:
		return g.intExpr(d-1) + ".to_float"
	default:
		return fmt.Sprintf("(%s %s %s)", g.floatExpr(d-1), []string{"%", "**"}[g.pick(2, "op")], []string{"2.0", "0.5", "3.0"}[g.pick(3, "k")])
	}
}

func (g *xg) fixedLit(t string) string {
	var vals []string
	switch t {
	case "Int8":
		vals = []string{"0", "1", "5", "127", "-127", "-1", "100"}
	case "UInt8":
		vals = []string{"0", "1", "5", "255", "200", "16"}
	case "Int64":
		vals = []string{"0", "1", "7", "9223372036854775807", "-9223372036854775807", "-3"}
	default:
		vals = []string{"0", "1", "7", "18446744073709551615", "4294967296"}
	}
	v := vals[g.pick(len(vals), "fx")]
	if strings.HasPrefix(v, "-") {
		return "(" + v + fixedSuffix[t] + ")"
	}
	return v + fixedSuffix[t]
}

func (g *xg) fixedExpr(t string, d int) string {
	if d <= 0 || g.chance(3, "leaf") {
		if v, ok := g.someVar(t, false); ok && !g.chance(3, "lit") {
			return v
		}
		return g.fixedLit(t)
	}
	g.feat("fixedint")
	switch g.pick(5, "xk") {
	case 0, 1:
		return fmt.Sprintf("(%s %s %s)", g.fixedExpr(t, d-1), []string{"+", "-", "*"}[g.pick(3, "op")], g.fixedExpr(t, d-1))
	case 2:
		return fmt.Sprintf("(%s %s %s)", g.fixedExpr(t, d-1), []string{"/", "%"}[g.pick(2, "op")], g.fixedExpr(t, d-1))
	case 3:
		return fmt.Sprintf("(%s %s %s)", g.fixedExpr(t, d-1), []string{"&", "|", "^"}[g.pick(3, "op")], g.fixedExpr(t, d-1))
	default:
		return fmt.Sprintf("(%s %s %d)", g.fixedExpr(t, d-1), []string{"<<", ">>", "<<<", ">>>"}[g.pick(4, "op")], []int{0, 1, 3, 7, 9}[g.pick(5, "k")])
	}
}

var strLits = []string{`""`, `"a"`, `"xy"`, `"é"`, `"q r"`, `"Zz"`, `'b'`}

func (g *xg) strExpr(d int) string {
	if d <= 0 || g.chance(3, "leaf") {
		if v, ok := g.someVar("String", false); ok && !g.chance(3, "lit") {
			return v
		}
		return strLits[g.pick(len(strLits), "sl")]
	}
	switch g.pick(8, "sk") {
	case 0:
		return fmt.Sprintf("(%s + %s)", g.strExpr(d-1), g.strExpr(d-1))
	case 1, 2:
		g.feat("interp")
		t := scalarTypes[g.pick(len(scalarTypes), "it")]
		if t == "Bool" {
			t = "Int"
		}
		form := []string{"${%s}", "#{%s}"}[g.pick(2, "form")]
		e := g.expr(t, d-1)
		if strings.Contains(e, `"`) || strings.Contains(e, `'`) {
			e = g.expr("Int", 0)
		}
		return `"` + []string{"", "n=", "é "}[g.pick(3, "pre")] + fmt.Sprintf(form, e) + []string{"", "!", " z"}[g.pick(3, "post")] + `"`
	case 3:
		return fmt.Sprintf("(%s * %d)", g.strExpr(d-1), g.pick(4, "rep"))
	case 4:
		return g.intExpr(d-1) + ".to_string"
	case 5:
		return g.floatExpr(d-1) + ".to_string"
	case 6:
		g.feat("strmeth")
		return g.strExpr(d-1) + []string{".uppercase", ".lowercase"}[g.pick(2, "m")]
	default:
		for _, i := range rapidPerm(g, len(g.methods)) {
			m := g.methods[i]
			if m.ret == "String" && !g.inDef {
				g.feat("call")
				return g.call(m, d)
			}
		}
	}
	return g.strExpr(d - 1)
}

var cmpOps = []string{"<", "<=", ">", ">=", "==", "!="}

func (g *xg) boolExpr(d int) string {
	if d <= 0 || g.chance(4, "leaf") {
		if v, ok := g.someVar("Bool", false); ok && !g.chance(3, "lit") {
			return v
		}
		if g.chance(2, "cmpleaf") {
			return fmt.Sprintf("(%s %s %s)", g.intExpr(0), cmpOps[g.pick(6, "cmp")], g.intExpr(0))
		}
		return []string{"true", "false"}[g.pick(2, "b")]
	}
	switch g.pick(12, "bk") {
	case 0, 1:
		if v, ok := g.someVar("Int", false); ok && g.chance(3, "eqops") {
			// equal run-time operands (the variable may hold a big integer): the boundary of < <= > >=
			g.feat("cmp_equal_operands")
			return fmt.Sprintf("(%s %s %s)", v, cmpOps[g.pick(6, "cmp")], []string{v, "(" + v + " + 0)", "(" + v + " * 1)"}[g.pick(3, "eqform")])
		}
		return fmt.Sprintf("(%s %s %s)", g.intExpr(d-1), cmpOps[g.pick(6, "cmp")], g.intExpr(d-1))
	case 2:
		g.feat("floatcmp")
		return fmt.Sprintf("(%s %s %s)", g.floatExpr(d-1), cmpOps[g.pick(6, "cmp")], g.floatExpr(d-1))
	case 3:
		g.feat("strcmp")
		return fmt.Sprintf("(%s %s %s)", g.strExpr(d-1), cmpOps[g.pick(6, "cmp")], g.strExpr(d-1))
	case 4:
		g.feat("mixedcmp")
		return fmt.Sprintf("(%s %s %s)", g.intExpr(d-1), cmpOps[g.pick(6, "cmp")], g.floatExpr(d-1))
	case 5:
		t := fixedTypes[g.pick(4, "ft")]
		g.feat("fixedcmp")
		return fmt.Sprintf("(%s %s %s)", g.fixedExpr(t, d-1), cmpOps[g.pick(6, "cmp")], g.fixedExpr(t, d-1))
	case 6, 7:
		g.feat("logic")
		return fmt.Sprintf("(%s %s %s)", g.boolExpr(d-1), []string{"&&", "||"}[g.pick(2, "lop")], g.boolExpr(d-1))
	case 8:
		return "(!" + g.boolExpr(d-1) + ")"
	case 9:
		if v, ok := g.someVar("List", false); ok {
			g.feat("contains")
			return fmt.Sprintf("%s.contains(%s)", v, g.intExpr(0))
		}
		if v, ok := g.someVar("Set", false); ok {
			g.feat("contains")
			return fmt.Sprintf("%s.contains(%s)", v, g.intExpr(0))
		}
	case 10:
		if v, ok := g.someVar("Map", false); ok {
			g.feat("contains")
			return fmt.Sprintf("%s.contains_key(%q)", v, []string{"a", "b", "zz"}[g.pick(3, "key")])
		}
		return g.intExpr(d-1) + []string{".is_even", ".is_odd"}[g.pick(2, "eo")]
	default:
		return g.strExpr(d-1) + ".is_empty"
	}
	return g.boolExpr(d - 1)
}

// --- statements ---------------------------------------------------------------

// interp renders println("<id> ${e}") (or #{e}); expressions that contain string
// literals are bound to a local first (only raw strings may occur inside an interpolation)
func (g *xg) interp(id, form, e string) {
	if strings.ContainsAny(e, "\"'") {
		tmp := g.fresh("x")
		g.emit("%s := %s", tmp, e)
		e = tmp
	}
	g.emit(`println("%s %s")`, id, fmt.Sprintf(form, e))
}

func (g *xg) printStmt() {
	id := g.fresh("t")
	switch g.pick(8, "pk") {
	case 0, 1:
		t := scalarTypes[g.pick(len(scalarTypes), "pt")]
		if t == "Bool" {
			g.interp(id, "#{%s}", g.boolExpr(2))
			return
		}
		g.interp(id, []string{"${%s}", "#{%s}"}[g.pick(2, "form")], g.expr(t, 3))
	case 2:
		g.emit("println(%s)", g.strExpr(3))
	case 3:
		g.emit("println(%q, %s, %s)", id, g.intExpr(2), g.floatExpr(2))
	case 4:
		for _, t := range []string{"List", "Tuple", "Obj"} {
			if v, ok := g.someVar(t, false); ok && t != "Obj" && !g.noIfaceCalls {
				g.feat("inspect_coll")
				g.emit(`println("%s #{%s}")`, id, v)
				return
			}
		}
		g.interp(id, "${%s}", g.intExpr(2))
	case 5:
		g.feat("print")
		g.emit("print(%s, %q)", g.strExpr(2), "\n")
	default:
		g.interp(id, "${%s}", g.intExpr(3))
	}
}

func (g *xg) declStmt() {
	switch g.pick(14, "dk") {
	case 0, 1, 2, 3, 4, 5:
		t := scalarTypes[g.pick(len(scalarTypes), "dt")]
		e := g.expr(t, 3)
		n := g.fresh("v")
		switch g.pick(3, "form") {
		case 0:
			g.emit("%s := %s", n, e)
		case 1:
			g.emit("var %s: %s = %s", n, t, e)
		default:
			g.emit("val %s = %s", n, e)
			g.declare(xv{n, t, true})
			return
		}
		g.declare(xv{n, t, false})
	case 6, 7:
		n := g.fresh("l")
		var es []string
		for i := 2 + g.pick(3, "ll"); i > 0; i-- {
			es = append(es, g.intExpr(1))
		}
		g.feat("list")
		g.emit("%s := [%s]", n, strings.Join(es, ", "))
		g.declare(xv{n, "List", true})
	case 8:
		n := g.fresh("tp")
		g.feat("tuple")
		g.emit("%s := %%[%s, %s, %s]", n, g.intExpr(1), g.intExpr(1), g.intExpr(0))
		g.declare(xv{n, "Tuple", true})
	case 9:
		n := g.fresh("m")
		g.feat("map")
		g.emit(`%s := { "a" => %s, "b" => %s }`, n, g.intExpr(1), g.intExpr(1))
		g.declare(xv{n, "Map", true})
	case 10:
		n := g.fresh("st")
		g.feat("set")
		g.emit("%s := ^[%s, %s]", n, g.intExpr(1), g.intExpr(1))
		g.declare(xv{n, "Set", true})
	case 11:
		n := g.fresh("ni")
		g.feat("nilable")
		if g.chance(2, "nil") {
			g.emit("var %s: Int? = nil", n)
		} else {
			g.emit("var %s: Int? = %s", n, g.intExpr(1))
		}
		g.declare(xv{n, "NInt", true})
	case 12:
		if g.hasObj {
			n := g.fresh("o")
			g.feat("object")
			g.emit("%s := Acc(%s)", n, g.intExpr(1))
			g.declare(xv{n, "Obj", true})
			return
		}
		fallthrough
	default:
		n := g.fresh("fn")
		g.feat("closure")
		g.emit("%s := |p: Int|: Int -> (p %s %s)", n, []string{"+", "-", "*"}[g.pick(3, "op")], g.intExpr(1))
		g.declare(xv{n, "Fn", true})
	}
}

func (g *xg) assignStmt() {
	t := scalarTypes[g.pick(len(scalarTypes), "at")]
	v, ok := g.someVar(t, true)
	if !ok {
		g.declStmt()
		return
	}
	g.feat("assign")
	switch t {
	case "Int":
		switch g.pick(5, "ak") {
		case 0:
			g.emit("%s = %s", v, g.intExpr(3))
		case 1:
			g.emit("%s %s %s", v, []string{"+=", "-=", "*=", "|=", "&=", "^="}[g.pick(6, "op")], g.intExpr(2))
		case 2:
			g.emit("%s%s", v, []string{"++", "--"}[g.pick(2, "op")])
		case 3:
			g.emit("%s %s %s", v, []string{"/=", "%="}[g.pick(2, "op")], []string{"3", "(-2)", "1", "7"}[g.pick(4, "k")])
		default:
			g.emit("%s %s %d", v, []string{"<<=", ">>=", "**="}[g.pick(3, "op")], g.pick(4, "k"))
		}
	case "Float":
		if g.chance(2, "plain") {
			g.emit("%s = %s", v, g.floatExpr(3))
		} else {
			g.emit("%s %s %s", v, []string{"+=", "-=", "*=", "/="}[g.pick(4, "op")], g.floatExpr(2))
		}
	case "String":
		if g.chance(2, "plain") {
			g.emit("%s = %s", v, g.strExpr(3))
		} else {
			g.emit("%s += %s", v, g.strExpr(2))
		}
	case "Bool":
		g.emit("%s = %s", v, g.boolExpr(3))
	default:
		switch g.pick(3, "ak") {
		case 0:
			g.emit("%s = %s", v, g.fixedExpr(t, 3))
		case 1:
			g.emit("%s %s %s", v, []string{"+=", "-=", "*="}[g.pick(3, "op")], g.fixedExpr(t, 2))
		default:
			g.emit("%s%s", v, []string{"++", "--"}[g.pick(2, "op")])
		}
	}
}

func (g *xg) collStmt() {
	switch g.pick(5, "ck") {
	case 0:
		if v, ok := g.someVar("List", false); ok {
			g.feat("list_push")
			g.emit("%s << %s", v, g.intExpr(2))
			return
		}
	case 1:
		if v, ok := g.someVar("List", false); ok {
			g.feat("list_set")
			ix := fmt.Sprint(g.pick(2, "ix"))
			if g.chance(12, "oob") {
				ix = "50"
			}
			if g.chance(3, "cmp") {
				g.emit("%s[%s] %s %s", v, ix, []string{"+=", "-=", "*="}[g.pick(3, "op")], g.intExpr(2))
			} else {
				g.emit("%s[%s] = %s", v, ix, g.intExpr(2))
			}
			return
		}
	case 2:
		if v, ok := g.someVar("Map", false); ok {
			g.feat("map_set")
			g.emit("%s[%q] = %s", v, []string{"a", "b", "c"}[g.pick(3, "key")], g.intExpr(2))
			return
		}
	case 3:
		if v, ok := g.someVar("Set", false); ok {
			g.feat("set_push")
			g.emit("%s << %s", v, g.intExpr(1))
			return
		}
	default:
		if v, ok := g.someVar("NInt", false); ok {
			if g.chance(3, "nil") {
				g.emit("%s = nil", v)
			} else {
				g.emit("%s = %s", v, g.intExpr(2))
			}
			return
		}
	}
	g.declStmt()
}

func (g *xg) block(n, depth int) {
	g.push()
	g.ind++
	for i := 0; i < n && g.budget > 0; i++ {
		g.stmt(depth)
	}
	g.ind--
	g.pop()
}

func (g *xg) jumpStmt() {
	if len(g.loops) == 0 {
		g.printStmt()
		return
	}
	kw := []string{"break", "continue"}[g.pick(2, "jk")]
	target := g.loops[g.pick(len(g.loops), "target")]
	if kw == "continue" && target.numeric && g.noNumContinue {
		kw = "break"
	}
	g.feat(kw)
	s := kw
	if target.label != "" && (len(g.loops) > 1 || g.chance(2, "lbl")) {
		s = fmt.Sprintf("%s[%s]", kw, target.label)
		g.feat("labelled_" + kw)
	}
	g.emit("%s %s %s", s, []string{"if", "unless"}[g.pick(2, "mod")], g.boolExpr(2))
}

func (g *xg) loopStmt(depth int) {
	label := ""
	prefix := ""
	if g.chance(2, "label") {
		label = g.fresh("lb")
		prefix = "$" + label + ": "
	}
	bound := 1 + g.pick(3, "bound")
	numeric := false
	body := func() {
		g.loops = append(g.loops, xloop{label, numeric})
		g.block(1+g.pick(4, "nbody"), depth+1)
		g.loops = g.loops[:len(g.loops)-1]
	}
	c := g.fresh("c")
	switch k := g.pick(8, "lk"); k {
	case 0, 1:
		g.feat([]string{"while", "until"}[k])
		g.emit("var %s = 0", c)
		g.declare(xv{c, "Int", true})
		if k == 0 {
			g.emit("%swhile %s < %d", prefix, c, bound)
		} else {
			g.emit("%suntil %s >= %d", prefix, c, bound)
		}
		g.ind++
		g.emit("%s += 1", c)
		g.ind--
		body()
		g.emit("end")
	case 2:
		g.feat("loop")
		g.emit("var %s = 0", c)
		g.declare(xv{c, "Int", true})
		g.emit("%sloop", prefix)
		g.ind++
		g.emit("%s += 1", c)
		g.emit("break if %s > %d", c, bound)
		g.ind--
		body()
		g.emit("end")
	case 3:
		g.feat("fornum")
		numeric = true
		g.emit("%sfornum %s := 0; %s < %d; %s += 1", prefix, c, c, bound, c)
		g.push()
		g.declare(xv{c, "Int", true})
		body()
		g.pop()
		g.emit("end")
	case 4, 5:
		g.feat("forin")
		src := ""
		switch g.pick(5, "src") {
		case 0:
			if v, ok := g.someVar("List", false); ok {
				src = v
				break
			}
			fallthrough
		case 1:
			src = fmt.Sprintf("[%s, %s, %s]", g.intExpr(1), g.intExpr(0), g.intExpr(0))
		case 2:
			src = fmt.Sprintf("%d...%d", g.pick(3, "lo"), 2+g.pick(3, "hi"))
			g.feat("forin_range")
			numeric = true
		case 3:
			src = fmt.Sprintf("%%[%s, %s]", g.intExpr(0), g.intExpr(0))
		default:
			src = fmt.Sprint(bound)
			g.feat("forin_int")
			numeric = true
		}
		g.emit("%sfor %s in %s", prefix, c, src)
		g.push()
		g.declare(xv{c, "Int", true})
		body()
		g.pop()
		g.emit("end")
	case 6:
		g.feat("dowhile")
		g.emit("var %s = 0", c)
		g.declare(xv{c, "Int", true})
		g.emit("%sdo", prefix)
		g.ind++
		g.emit("%s += 1", c)
		g.ind--
		body()
		g.emit("end while %s < %d", c, bound)
	default:
		g.feat("modifier_loop")
		g.emit("var %s = 0", c)
		g.declare(xv{c, "Int", true})
		g.emit("%s += 1 %s", c, []string{fmt.Sprintf("while %s < %d", c, bound), fmt.Sprintf("until %s >= %d", c, bound)}[g.pick(2, "wu")])
	}
}

func (g *xg) switchStmt(depth int) {
	g.feat("switch")
	if g.chance(3, "strsw") {
		sw := g.fresh("sw")
		g.emit("var %s: String = %s", sw, g.strExpr(2))
		g.emit("switch %s", sw)
		for i, n := 0, 1+g.pick(2, "ncase"); i < n; i++ {
			g.emit("case %s", strLits[g.pick(len(strLits), "sl")])
			g.block(1+g.pick(2, "nb"), depth+1)
		}
	} else {
		sw := g.fresh("sw")
		g.emit("var %s: Int = %s", sw, g.intExpr(2))
		g.emit("switch %s", sw)
		for i, n := 0, 1+g.pick(3, "ncase"); i < n; i++ {
			switch g.pick(5, "pat") {
			case 0, 1:
				g.emit("case %d", g.pick(6, "lit"))
			case 2:
				g.emit("case %s %d", []string{"<", ">", "<=", ">=", "=="}[g.pick(5, "rel")], g.pick(8, "lit"))
				g.feat("switch_rel")
			case 3:
				g.emit("case %d...%d", g.pick(3, "lo"), 3+g.pick(6, "hi"))
				g.feat("switch_range")
			default:
				g.emit("case %d || %d", g.pick(4, "a"), 4+g.pick(4, "b"))
				g.feat("switch_or")
			}
			g.block(1+g.pick(2, "nb"), depth+1)
		}
	}
	if g.chance(2, "else") {
		g.emit("else")
		g.block(1+g.pick(2, "nb"), depth+1)
	}
	g.emit("end")
}

func (g *xg) errorStmt() {
	g.feat("error_stmt")
	switch g.pick(8, "ek") {
	case 0:
		z := g.fresh("z")
		g.emit("%s := 0", z)
		g.emit("println(%s / %s)", g.intExpr(1), z)
	case 1:
		t := fixedTypes[g.pick(4, "ft")]
		g.emit("println(%s / 0%s)", g.fixedExpr(t, 1), fixedSuffix[t])
	case 2:
		z := g.fresh("z")
		g.emit("%s := 0", z)
		g.emit("println(%s %% %s)", g.intExpr(1), z)
	case 3:
		l := g.fresh("l")
		g.emit("%s := [1, 2]", l)
		g.emit("%s[%d] = 3", l, 7+g.pick(3, "ix"))
	case 4:
		l := g.fresh("l")
		g.emit("%s := [1, 2]", l)
		g.emit("println(%s[%d])", l, 5+g.pick(3, "ix"))
	case 5:
		n := g.fresh("ni")
		g.emit("var %s: Int? = nil", n)
		g.emit("println(must %s)", n)
	case 6:
		u := g.fresh("u")
		g.emit("var %s: Int | Float = %s", u, g.intExpr(1))
		g.emit("println(%s as ::Std::Float)", u)
	default:
		for _, m := range g.methods {
			if m.name == "fail" {
				g.emit("println(fail(%s))", g.intExpr(1))
				return
			}
		}
		z := g.fresh("z")
		g.emit("%s := 0", z)
		g.emit("println(1 / %s)", z)
	}
}

func (g *xg) stmt(depth int) {
	g.budget--
	kinds := []string{"print", "print", "decl", "decl", "assign", "assign", "coll", "boundary"}
	if depth < 3 {
		kinds = append(kinds, "if", "if", "loop", "loop", "switch")
	}
	if len(g.loops) > 0 {
		kinds = append(kinds, "jump", "jump")
	}
	if g.inDef && g.retInt {
		kinds = append(kinds, "return")
	}
	if g.chance(40, "err") {
		g.errorStmt()
		return
	}
	switch kinds[g.pick(len(kinds), "stmt")] {
	case "print":
		g.printStmt()
	case "decl":
		g.declStmt()
	case "assign":
		g.assignStmt()
	case "coll":
		g.collStmt()
	case "boundary":
		g.boundaryStmt()
	case "if":
		kw := []string{"if", "if", "unless"}[g.pick(3, "ifk")]
		g.feat(kw)
		if g.chance(5, "modif") {
			id := g.fresh("t")
			g.emit(`println("%s") %s %s`, id, kw, g.boolExpr(2))
			return
		}
		g.emit("%s %s", kw, g.boolExpr(3))
		g.block(1+g.pick(3, "nthen"), depth+1)
		if kw == "if" && g.chance(3, "elsif") {
			g.emit("elsif %s", g.boolExpr(2))
			g.block(1+g.pick(2, "nelif"), depth+1)
		}
		if g.chance(2, "else") {
			g.emit("else")
			g.block(1+g.pick(3, "nelse"), depth+1)
		}
		g.emit("end")
	case "loop":
		g.loopStmt(depth)
	case "switch":
		g.switchStmt(depth)
	case "jump":
		g.jumpStmt()
	case "return":
		g.feat("return")
		g.emit("return %s if %s", g.intExpr(1), g.boolExpr(2))
	}
}

// boundaryStmt compares two run-time integers that sit on a representation boundary (SmallInt / BigInt,
// the int64 range) and differ by -1, 0 or 1, with every ordering operator, and walks a short range between them:
// the typed integer fast paths of both back ends have a separate branch for each representation pair.
func (g *xg) boundaryStmt() {
	g.feat("int_boundary")
	base := []string{"4611686018427387903", "9223372036854775807", "(-4611686018427387904)", "(-9223372036854775808)", "18446744073709551615", "0"}[g.pick(6, "bbase")]
	a, b := g.fresh("bd"), g.fresh("bd")
	g.emit("var %s = %s + %d", a, base, g.pick(3, "boff"))
	g.emit("var %s = %s + %d", b, a, []int{0, 0, 1, -1}[g.pick(4, "bdelta")])
	id := g.fresh("t")
	g.emit(`println("%s #{%s < %s} #{%s <= %s} #{%s > %s} #{%s >= %s} #{%s == %s} #{%s <=> %s}")`, id, a, b, a, b, a, b, a, b, a, b, a, b)
	if g.chance(2, "brange") {
		g.feat("int_boundary_range")
		i, n := g.fresh("i"), g.fresh("c")
		g.emit("var %s = 0", n)
		g.emit("for %s in %s%s(%s + 2)", i, a, []string{"...", "<..", "..<"}[g.pick(3, "brk")], a)
		g.emit("%s += 1", n)
		g.emit("end")
		g.emit(`println("%s ${%s}")`, g.fresh("t"), n)
	}
}

func (g *xg) method() {
	name := g.fresh("m")
	ret := []string{"Int", "Int", "String"}[g.pick(3, "ret")]
	na := 1 + g.pick(2, "nargs")
	var args, decl []string
	g.scopes = [][]xv{nil}
	for i := 0; i < na; i++ {
		t := []string{"Int", "Int", "String", "Float"}[g.pick(4, "argt")]
		a := g.fresh("a")
		args = append(args, t)
		decl = append(decl, a+": "+t)
		g.declare(xv{a, t, true})
	}
	g.emit("def %s(%s): %s", name, strings.Join(decl, ", "), ret)
	saveLoops := g.loops
	g.loops = nil
	// method bodies do not call other generated methods (no recursion, termination by construction)
	g.inDef = true
	g.retInt = ret == "Int"
	g.ind++
	g.push()
	for i, n := 0, 1+g.pick(4, "nbody"); i < n; i++ {
		g.stmt(1)
	}
	g.emit("%s", g.expr(ret, 2))
	g.pop()
	g.ind--
	g.emit("end")
	g.inDef = false
	g.loops = saveLoops
	g.methods = append(g.methods, xm{name, args, ret})
}

// genProgram draws one program; the returned feature list feeds the evidence labels.
func genProgram(t *rapid.T, noClosureCalls, noNumContinue, noIfaceCalls bool) (string, []string) {
	g := &xg{t: t, feats: map[string]bool{}, budget: 10 + vgen.Pick(t, 25, "budget"), noClosureCalls: noClosureCalls, noNumContinue: noNumContinue, noIfaceCalls: noIfaceCalls}
	if g.chance(3, "class") {
		g.hasObj = true
		g.feat("class")
		g.lines = append(g.lines,
			"class Acc",
			"  var @a: Int",
			"  init(@a); end",
			"  def get: Int then @a",
			"  def add(x: Int): Int",
			"    @a += x",
			"    @a",
			"  end",
			"end")
	}
	for i, n := 0, g.pick(3, "nmethods"); i < n; i++ {
		g.method()
	}
	if g.chance(4, "failm") {
		g.feat("error_in_method")
		g.lines = append(g.lines, "def fail(x: Int): Int", "  y := x - x", "  x / y", "end")
		g.methods = append(g.methods, xm{"fail", []string{"Int"}, "Int"})
	}
	g.scopes = [][]xv{nil}
	g.ind = 0
	for i, n := 0, 3+g.pick(8, "nmain"); i < n && g.budget > 0; i++ {
		g.stmt(0)
	}
	if g.chance(4, "enderr") {
		g.errorStmt()
	}
	var fs []string
	for f := range g.feats {
		fs = append(fs, f)
	}
	sortStrings(fs)
	return strings.Join(g.lines, "\n") + "\n", fs
}
