// Package c09: the native Go backend behaves like the bytecode VM.
//
// A case is a BATCH of Elk programs.  For every program the worker subprocess
// (a) runs it on the bytecode VM (mode "run") and (b) generates Go source through
// checker.CheckSourceNative + go/format (mode "gosrc", cmd/elkworker/gosrc.go).
// All generated sources of the batch become separate main packages of ONE scratch
// module under $VERIF_TMP (replace elk => $ELKPATH) built with a single
// `go build -tags native -o bin/ ./...`; each binary is executed and its stdout,
// uncaught-error report and exit status class are compared with the VM run.
package c09

import (
	"bytes"
	"context"
	"errors"
	"fmt"
	"go/ast"
	"go/parser"
	"go/token"
	"os"
	"os/exec"
	"path/filepath"
	"regexp"
	"sort"
	"strconv"
	"strings"
	"sync"
	"syscall"
	"testing"
	"time"

	"pgregory.net/rapid"

	"verif/internal/mini"
	"verif/internal/pbt"
	sb "verif/internal/sandbox"
	"verif/internal/vgen"
)

func TestMain(m *testing.M) { pbt.Main(m, "C09") }

type Prog struct {
	Src   string   `json:"src"`
	Kind  string   `json:"kind"` // xgen | mini | corpus
	Feats []string `json:"feats,omitempty"`
	// corpus inputs: println(<local>.inspect) lines were already appended
	Observed bool `json:"observed,omitempty"`
}

type Case struct {
	Progs []Prog `json:"progs"`
}

var worker *sb.Worker

func sortStrings(s []string) { sort.Strings(s) }

// ---------------------------------------------------------------------------
// evaluation of a batch

// progResult is the verdict for one program of a batch.
type progResult struct {
	Fail    string // "" = agrees; otherwise failure class
	Msg     string
	Skip    string // not comparable (vm rejected / vm crash / timeout / explicit unsupported diagnostic)
	Outcome string // ok | elk_error
	Frames  int    // stack-trace frames of the VM report
	Note    string // known finding under which a sub-check was skipped
}

func repoRoot() string {
	if r := os.Getenv("ELKPATH"); r != "" {
		return r
	}
	return "/repo"
}

func goBin() (string, []string) {
	env := os.Environ()
	set := func(k, v string) {
		for i, e := range env {
			if strings.HasPrefix(e, k+"=") {
				env[i] = k + "=" + v
				return
			}
		}
		env = append(env, k+"="+v)
	}
	set("GOFLAGS", "-mod=mod")
	set("GOPROXY", "off")
	cands, _ := filepath.Glob("/root/go/pkg/mod/golang.org/toolchain@v0.0.1-go1.25.0.linux-amd64/bin/go")
	if len(cands) > 0 {
		set("GOTOOLCHAIN", "local")
		set("GOSUMDB", "off")
		return cands[0], env
	}
	return "go", env
}

var scratchSeq int

func scratchDir() (string, error) {
	base := os.Getenv("VERIF_TMP")
	if base == "" {
		base = os.TempDir()
	}
	if strings.HasPrefix(base, "/verif") || strings.HasPrefix(base, "/repo") {
		return "", fmt.Errorf("refusing to build under %s", base)
	}
	if err := os.MkdirAll(base, 0o755); err != nil {
		return "", err
	}
	scratchSeq++
	return os.MkdirTemp(base, fmt.Sprintf("c09-scratch-%d-", scratchSeq))
}

var pkgHdr = regexp.MustCompile(`(?m)^# scratch/(p\d+)\b`)

// buildAll builds every package; returns per-package compile errors.
func buildAll(dir string, names []string) (map[string]string, error) {
	failed := map[string]string{}
	gobin, env := goBin()
	for round := 0; round < 6; round++ {
		ctx, cancel := context.WithTimeout(context.Background(), 40*time.Minute)
		cmd := exec.CommandContext(ctx, gobin, "build", "-tags", "native", "-ldflags=-s -w", "-o", "bin/", "./...")
		cmd.Dir = dir
		cmd.Env = env
		out, err := cmd.CombinedOutput()
		cancel()
		if err == nil {
			return failed, nil
		}
		text := string(out)
		locs := pkgHdr.FindAllStringSubmatchIndex(text, -1)
		if len(locs) == 0 {
			return failed, fmt.Errorf("go build failed without a package attribution: %v\n%s", err, clip(text, 3000))
		}
		progress := false
		for i, l := range locs {
			name := text[l[2]:l[3]]
			end := len(text)
			if i+1 < len(locs) {
				end = locs[i+1][0]
			}
			if _, dup := failed[name]; !dup {
				failed[name] = strings.TrimSpace(text[l[0]:end])
				_ = os.Rename(filepath.Join(dir, name, "main.go"), filepath.Join(dir, name, "main.go.rejected"))
				progress = true
			}
		}
		if !progress {
			return failed, fmt.Errorf("go build keeps failing: %s", clip(text, 3000))
		}
		left := 0
		for _, n := range names {
			if _, f := failed[n]; !f {
				left++
			}
		}
		if left == 0 {
			return failed, nil
		}
	}
	return failed, errors.New("go build: too many rounds")
}

type binRun struct {
	stdout, stderr string
	exit           int
	timedOut       bool
	signal         string
}

func runBin(path string) binRun {
	ctx, cancel := context.WithTimeout(context.Background(), 60*time.Second)
	defer cancel()
	cmd := exec.CommandContext(ctx, path)
	cmd.Env = append(os.Environ(), "NO_COLOR=1", "ELKPATH="+repoRoot())
	cmd.SysProcAttr = &syscall.SysProcAttr{Setpgid: true, Pdeathsig: syscall.SIGKILL}
	var so, se bytes.Buffer
	cmd.Stdout, cmd.Stderr = &so, &se
	cmd.Stdin = nil
	err := cmd.Run()
	r := binRun{stdout: so.String(), stderr: se.String()}
	if ctx.Err() != nil {
		r.timedOut = true
		return r
	}
	if err != nil {
		var ee *exec.ExitError
		if errors.As(err, &ee) {
			r.exit = ee.ExitCode()
			if ws, ok := ee.Sys().(syscall.WaitStatus); ok && ws.Signaled() {
				r.signal = ws.Signal().String()
			}
		} else {
			r.exit = -1
			r.stderr += "\nexec error: " + err.Error()
		}
	}
	return r
}

var frameRe = regexp.MustCompile("^ (\\d+): (.*):(\\d+), in `(.*)`$")

type report struct {
	errLine string
	frames  []string // "file:line" of each frame
	names   []string
	extra   []string // anything else
}

// parseReport splits what vm.PrintError wrote (same printer in both worlds).
func parseReport(s string) report {
	var r report
	for _, l := range strings.Split(s, "\n") {
		switch {
		case strings.TrimSpace(l) == "":
		case strings.HasPrefix(l, "Stack trace (the most recent call is last)"):
		case strings.HasPrefix(l, "Error! Uncaught"):
			r.errLine = l
		case strings.HasPrefix(l, " ... ") && strings.Contains(l, "optimised tail call"):
			// the VM elides tail-call frames; native Go code cannot: not compared
		default:
			if m := frameRe.FindStringSubmatch(l); m != nil {
				r.frames = append(r.frames, m[2]+":"+m[3])
				r.names = append(r.names, m[4])
			} else {
				r.extra = append(r.extra, l)
			}
		}
	}
	return r
}

var addrRe = regexp.MustCompile(`0x[0-9a-f]{4,}`)

func diagText(ds []sb.Diag) string {
	var out []string
	for _, d := range ds {
		if d.Severity == "FAIL" {
			out = append(out, fmt.Sprintf("%d:%d %s", d.Line, d.Col, d.Msg))
		}
	}
	return strings.Join(out, " | ")
}

// evalBatch decides every program of the batch.  infra != nil = inconclusive.
func evalBatch(progs []Prog) (res []progResult, infra error) {
	res = make([]progResult, len(progs))
	vms := make([]sb.Run, len(progs))
	dir, err := scratchDir()
	if err != nil {
		return nil, err
	}
	defer os.RemoveAll(dir)
	gomod := "module scratch\n\ngo 1.25.0\n\nrequire github.com/elk-language/elk v0.0.0\n\nreplace github.com/elk-language/elk => " + repoRoot() + "\n"
	if err := os.WriteFile(filepath.Join(dir, "go.mod"), []byte(gomod), 0o644); err != nil {
		return nil, err
	}
	sum, err := os.ReadFile(filepath.Join(repoRoot(), "go.sum"))
	if err != nil {
		return nil, err
	}
	if err := os.WriteFile(filepath.Join(dir, "go.sum"), sum, 0o644); err != nil {
		return nil, err
	}
	_ = os.MkdirAll(filepath.Join(dir, "bin"), 0o755)

	var names []string
	pkgOf := map[int]string{}
	for i, p := range progs {
		// (a) bytecode VM
		r := worker.Do(sb.Req{Mode: "run", Source: p.Src}, 60*time.Second)
		class, detail := sb.Classify(r)
		switch class {
		case sb.Timeout:
			res[i].Skip = "vm_timeout"
			continue
		case sb.Fatal, sb.GoPanic, sb.StackLimit:
			// a VM crash is C01's business; there is no reference behaviour to compare with
			res[i].Skip = "vm_crash"
			_ = detail
			continue
		case sb.Rejected:
			res[i].Skip = "vm_rejected"
			res[i].Msg = diagText(r.Resp.Runs[0].Diags)
			continue
		}
		vms[i] = r.Resp.Runs[0]
		res[i].Outcome = class
		if os.Getenv("C09_VMONLY") != "" {
			res[i].Skip = "vmonly"
			continue
		}
		// (b) native backend: Go source
		gr := worker.Do(sb.Req{Mode: "gosrc", Source: p.Src}, 60*time.Second)
		if gr.TimedOut {
			res[i].Skip = "gosrc_timeout"
			continue
		}
		if gr.Died || gr.Resp.Err != "" || len(gr.Resp.Runs) == 0 {
			_, d := sb.Classify(gr)
			res[i].Fail = "backend_crash"
			res[i].Msg = "the process died while the Go backend compiled a program the VM accepts:\n" + clip(d, 2500)
			continue
		}
		g := gr.Resp.Runs[0]
		if g.Panic != "" {
			res[i].Fail = "backend_panic"
			res[i].Msg = "Go panic inside the checker/Go backend on a program the VM accepts and runs:\n" + clip(g.Panic, 2500)
			continue
		}
		if !g.Accepted {
			// an explicit diagnostic = outside the accepted subset
			res[i].Skip = "native_rejected"
			res[i].Msg = diagText(g.Diags)
			continue
		}
		if fe, ok := g.Extra["fmt_err"]; ok {
			res[i].Fail = "gofmt"
			res[i].Msg = fmt.Sprintf("generated Go source is not syntactically valid (go/format): %v", fe)
			continue
		}
		src, _ := g.Extra["go"].(string)
		if src == "" {
			res[i].Fail = "gofmt"
			res[i].Msg = "backend returned no Go source"
			continue
		}
		src = mutateGo(src)
		name := fmt.Sprintf("p%03d", i)
		_ = os.MkdirAll(filepath.Join(dir, name), 0o755)
		if err := os.WriteFile(filepath.Join(dir, name, "main.go"), []byte(src), 0o644); err != nil {
			return nil, err
		}
		names = append(names, name)
		pkgOf[i] = name
	}
	if len(names) == 0 {
		return res, nil
	}
	failed, err := buildAll(dir, names)
	if err != nil {
		return nil, err
	}
	// run the binaries (a few at a time)
	var wg sync.WaitGroup
	sem := make(chan struct{}, 4)
	for i := range progs {
		name, ok := pkgOf[i]
		if !ok {
			continue
		}
		if msg, bad := failed[name]; bad {
			if !goDiagInMain.MatchString(msg) {
				// the toolchain failed without a diagnostic inside the generated file (linker I/O error, full disk,
				// killed compiler): the environment, not the backend
				res[i].Skip = "gobuild_env"
				res[i].Msg = clip(msg, 600)
				continue
			}
			res[i].Fail = "gobuild"
			res[i].Msg = "generated Go source does not compile:\n" + clip(msg, 2500)
			continue
		}
		wg.Add(1)
		go func(i int, name string) {
			defer wg.Done()
			sem <- struct{}{}
			defer func() { <-sem }()
			compare(&res[i], vms[i], runBin(filepath.Join(dir, "bin", name)))
		}(i, name)
	}
	wg.Wait()
	return res, nil
}

// a compiler diagnostic located in a generated file
var goDiagInMain = regexp.MustCompile(`(?m)^(\./)?p\d{3}/main\.go:\d+(:\d+)?: `)

func compare(r *progResult, vm sb.Run, nat binRun) {
	if nat.timedOut {
		r.Fail = "native_hang"
		r.Msg = "native binary did not finish within 60 s; the VM run finished\n--- native stdout so far\n" + clip(nat.stdout, 800)
		return
	}
	vrep, nrep := parseReport(vm.Stderr), parseReport(nat.stderr)
	r.Frames = len(vrep.frames)
	if nat.signal != "" || strings.Contains(nat.stderr, "\ngoroutine ") || strings.HasPrefix(nat.stderr, "panic:") || strings.Contains(nat.stderr, "fatal error:") {
		r.Fail = "native_crash"
		r.Msg = fmt.Sprintf("native binary crashed (exit %d %s); VM outcome: %s %s\n--- native stderr\n%s", nat.exit, nat.signal, r.Outcome, vrep.errLine, clip(nat.stderr, 2500))
		return
	}
	if nat.stdout != vm.Stdout {
		r.Fail = "stdout"
		r.Msg = fmt.Sprintf("standard output differs\n--- VM\n%s--- native\n%s--- first difference: %s\n--- VM report: %s\n--- native report: %s (exit %d)",
			clip(vm.Stdout, 1200), clip(nat.stdout, 1200), firstDiff(vm.Stdout, nat.stdout), vrep.errLine, nrep.errLine, nat.exit)
		return
	}
	vmFailed := vm.ErrClass != ""
	if vmFailed != (nat.exit != 0) {
		r.Fail = "status"
		r.Msg = fmt.Sprintf("exit status class differs: VM uncaught error %q, native exit status %d\n--- native stderr\n%s", vrep.errLine, nat.exit, clip(nat.stderr, 1500))
		return
	}
	if vrep.errLine != nrep.errLine {
		r.Fail = "error_line"
		r.Msg = fmt.Sprintf("uncaught-error report differs\n--- VM\n%s\n--- native\n%s", vrep.errLine, nrep.errLine)
		return
	}
	if len(nrep.extra) > 0 || len(vrep.extra) > 0 {
		if strings.Join(nrep.extra, "\n") != strings.Join(vrep.extra, "\n") {
			r.Fail = "stderr_extra"
			r.Msg = fmt.Sprintf("standard error differs beside the report\n--- VM\n%s\n--- native\n%s", clip(strings.Join(vrep.extra, "\n"), 1000), clip(strings.Join(nrep.extra, "\n"), 1000))
			return
		}
	}
	if vmFailed && pbt.KnownActive(kDirectCall) && len(vrep.frames) > 1 {
		// known finding: the error was raised inside a user-defined method; the native backend calls such
		// methods directly, without a call frame and without recording the call-site line
		r.Note = kDirectCall
	} else if vmFailed && !strings.Contains(vm.Stderr, "optimised tail call") {
		// frames: same number, same file:line (innermost last)
		if strings.Join(vrep.frames, " ") != strings.Join(nrep.frames, " ") {
			r.Fail = "trace"
			r.Msg = fmt.Sprintf("stack trace of the uncaught error differs (file:line per frame)\n--- VM\n%s--- native\n%s", vm.Stderr, nat.stderr)
			return
		}
		if !pbt.KnownActive(kFrameNames) && strings.Join(vrep.names, " ") != strings.Join(nrep.names, " ") {
			r.Fail = "trace_names"
			r.Msg = fmt.Sprintf("stack trace of the uncaught error differs (function names)\n--- VM\n%s--- native\n%s", vm.Stderr, nat.stderr)
			return
		}
	}
}

// known finding (shared with C29 attribute-postfix-drops-receiver): the VM is the wrong side
const kVMPostfix = "vm-attribute-postfix-drops-receiver"

var vmPostfixRe = regexp.MustCompile(`\.\w+(\+\+|--)`)

// known finding: native call frames carry other function names than VM frames
const kFrameNames = "native-frame-names"

// known finding: statically bound calls of user-defined methods are emitted as direct Go calls without
// a native call frame and without the call-site line, so the trace of an error raised inside such a
// method lacks the callee frame (and reports the line of the previous call)
const kDirectCall = "native-direct-call-frames"

// known finding: generated closure calls pass padding slots as arguments (pinned by the golden tests)
const kClosureCall = "native-closure-call-arity"

// known finding: `continue` in a loop compiled as a numeric for (fornum, for-in over a range / Int) skips the increment
const kNumContinue = "native-continue-skips-increment"

// known finding: calling a method the receiver's class takes from an interface (inspect on a list/map/...) panics the backend
const kIface = "native-interface-method-call"

// ---------------------------------------------------------------------------
// oracle

func oracle(c Case, ctx *pbt.Ctx) error {
	res, infra := evalBatch(c.Progs)
	if infra != nil {
		ctx.Label("infra_error")
		pbt.Inconclusive()
		fmt.Fprintf(os.Stderr, "c09: inconclusive batch: %v\n", infra)
		return nil
	}
	var fails []string
	compared := 0
	var key strings.Builder
	for i, r := range res {
		p := c.Progs[i]
		ctx.Label("prog:" + p.Kind)
		switch {
		case r.Skip != "":
			ctx.Label("skip:" + r.Skip)
			if r.Skip == "gobuild_env" {
				pbt.Inconclusive()
				fmt.Fprintf(os.Stderr, "c09: inconclusive program (toolchain failure without a diagnostic in the generated file): %s\n", r.Msg)
			}
			if r.Skip == "vm_rejected" && p.Kind != "corpus" {
				if os.Getenv("C09_DEBUG") != "" {
					fmt.Fprintf(os.Stderr, "REJ[%s]: %s\n", p.Kind, r.Msg)
					if strings.Contains(r.Msg, "overload") {
						fmt.Fprintf(os.Stderr, "SRC<<\n%s>>\n", p.Src)
					}
				}
				// rare (<1 %): a type-level corner of the generator, not the property's business
				ctx.Label("generator_rejected")
			}
			continue
		case r.Fail != "":
			ctx.Label("FAILCLASS:" + r.Fail)
			fails = append(fails, fmt.Sprintf("program #%d (%s) [%s]: %s\n--- source\n%s", i, p.Kind, r.Fail, r.Msg, p.Src))
			if os.Getenv("C09_DEBUG") != "" {
				fmt.Fprintf(os.Stderr, "=====FAIL %s\n", fails[len(fails)-1])
			}
			continue
		}
		compared++
		ctx.Label("compared:" + p.Kind)
		ctx.Label("outcome:" + r.Outcome)
		if r.Outcome == sb.ElkError {
			ctx.Label(fmt.Sprintf("trace_frames:%d", min(r.Frames, 3)))
		}
		for _, f := range p.Feats {
			ctx.Label("feat:" + f)
		}
		key.WriteString(p.Src)
		key.WriteByte(0)
	}
	if pbt.KnownActive(kFrameNames) {
		ctx.Excluded(kFrameNames)
	}
	for _, k := range []string{kClosureCall, kNumContinue, kIface} {
		if pbt.KnownActive(k) {
			ctx.Excluded(k)
		}
	}
	for _, r := range res {
		if r.Note == kDirectCall {
			ctx.Excluded(kDirectCall)
		}
	}
	if compared > 0 {
		ctx.NonTrivial(key.String())
	}
	if len(fails) > 0 {
		return fmt.Errorf("%d of %d programs violate the property; first: %s", len(fails), len(c.Progs), fails[0])
	}
	return nil
}

// minimize: keep only the first failing program, then delete lines / blocks while
// the same failure class persists (every round evaluates all candidates as one batch).
func minimize(c Case) Case {
	res, infra := evalBatch(c.Progs)
	if infra != nil {
		return c
	}
	idx := -1
	for i, r := range res {
		if r.Fail != "" {
			idx = i
			break
		}
	}
	if idx < 0 {
		return c
	}
	cur := c.Progs[idx]
	cur.Observed = true
	want := res[idx].Fail
	for round := 0; round < 5; round++ {
		lines := strings.Split(strings.TrimRight(cur.Src, "\n"), "\n")
		cands := removalCandidates(lines)
		if len(cands) == 0 {
			break
		}
		if len(cands) > 40 {
			cands = cands[:40]
		}
		var batch []Prog
		for _, cd := range cands {
			batch = append(batch, Prog{Src: strings.Join(cd, "\n") + "\n", Kind: cur.Kind, Observed: true})
		}
		rs, infra := evalBatch(batch)
		if infra != nil {
			break
		}
		// combine: apply successful removals greedily (second batch = cumulative prefixes)
		var ok []int
		for i, r := range rs {
			if r.Fail == want {
				ok = append(ok, i)
			}
		}
		if len(ok) == 0 {
			break
		}
		best := batch[ok[0]]
		for _, i := range ok {
			if len(batch[i].Src) < len(best.Src) {
				best = batch[i]
			}
		}
		cur = best
	}
	return Case{Progs: []Prog{cur}}
}

func indentOf(l string) int { return len(l) - len(strings.TrimLeft(l, " \t")) }

// removalCandidates: the program without one line, or without one block
// (a line, everything deeper below it, and the closing `end`).
func removalCandidates(lines []string) [][]string {
	var out [][]string
	for i := range lines {
		if strings.TrimSpace(lines[i]) == "" {
			continue
		}
		j := i + 1
		for j < len(lines) && (strings.TrimSpace(lines[j]) == "" || indentOf(lines[j]) > indentOf(lines[i])) {
			j++
		}
		if j > i+1 {
			// block: include the terminating line if it is an `end…`
			e := j
			if e < len(lines) && indentOf(lines[e]) == indentOf(lines[i]) && strings.HasPrefix(strings.TrimSpace(lines[e]), "end") {
				e++
			}
			cd := append(append([]string{}, lines[:i]...), lines[e:]...)
			if len(cd) > 0 {
				out = append(out, cd)
			}
			continue
		}
		t := strings.TrimSpace(lines[i])
		if t == "end" || t == "else" || strings.HasPrefix(t, "end ") {
			continue
		}
		cd := append(append([]string{}, lines[:i]...), lines[i+1:]...)
		if len(cd) > 0 {
			out = append(out, cd)
		}
	}
	// larger removals first
	sort.SliceStable(out, func(a, b int) bool { return len(out[a]) < len(out[b]) })
	return out
}

func firstDiff(a, b string) string {
	la, lb := strings.Split(a, "\n"), strings.Split(b, "\n")
	for i := 0; i < len(la) || i < len(lb); i++ {
		x, y := "<end>", "<end>"
		if i < len(la) {
			x = la[i]
		}
		if i < len(lb) {
			y = lb[i]
		}
		if x != y {
			return fmt.Sprintf("line %d: VM %q native %q", i+1, x, y)
		}
	}
	return "none"
}

func clip(s string, n int) string {
	if len(s) > n {
		return s[:n] + "…"
	}
	return s
}

func sample(c Case) any {
	var out []map[string]any
	for i, p := range c.Progs {
		if i >= 2 {
			break
		}
		out = append(out, map[string]any{"kind": p.Kind, "src": p.Src})
	}
	return map[string]any{"programs": len(c.Progs), "first": out}
}

// ---------------------------------------------------------------------------
// generated programs

func batchSize() int {
	if s, err := strconv.Atoi(os.Getenv("C09_BATCH")); err == nil && s > 0 {
		return s
	}
	return 16
}

// miniProfile: MiniElk restricted to what the backend's tests exercise (no
// do/catch/finally, no defer, no throw inside do).
var miniProfile = mini.Profile{Closures: true, Throw: false, Defer: false, Labels: true, Methods: true, Lists: true, ShortCirc: true, MaxStmts: 30, MaxDepth: 3, LoopBound: 3, ClosureBias: 1}

func genBatch(t *rapid.T) Case {
	var c Case
	n := batchSize()
	noCC, noNC, noIf := pbt.KnownActive(kClosureCall), pbt.KnownActive(kNumContinue), pbt.KnownActive(kIface)
	for i := 0; i < n; i++ {
		if vgen.Pick(t, 4, "which") == 0 {
			prof := miniProfile
			prof.Closures = !noCC // MiniElk closures are always called
			src := ""
			for try := 0; try < 6; try++ {
				// MiniElk cannot switch `continue` off per loop kind: programs with a continue are redrawn
				s := mini.Gen(t, prof).Source()
				if noNC && strings.Contains(s, "continue") {
					continue
				}
				src = s
				break
			}
			if src != "" {
				c.Progs = append(c.Progs, Prog{Src: src, Kind: "mini"})
				continue
			}
		}
		src, feats := genProgram(t, noCC, noNC, noIf)
		c.Progs = append(c.Progs, Prog{Src: src, Kind: "xgen", Feats: feats})
	}
	return c
}

func TestNativeGenerated(t *testing.T) {
	pbt.Rule("native_generated", "a case is a batch of 16 generated programs (3/4 from the c09 type-directed generator: methods, class, locals, all loop forms, labelled break/continue, Int/BigInt/Float/fixed-int/String operators, interpolation, list/tuple/map/set, switch, closures, uncaught errors; 1/4 MiniElk with the do/catch/defer/throw features off); every program runs on the VM and as a native binary built from the Go backend's output; non-trivial = at least one program of the batch was built, executed and compared (labels count programs: compared:*, outcome:*, feat:*); distinct by the sources of the compared programs")
	worker = sb.New("")
	defer worker.Close()
	pbt.Run(t, pbt.Prop[Case]{Name: "native_generated", Quick: 2, Thorough: 45, Gen: genBatch, Oracle: oracle, Minimize: minimize, Sample: sample})
}

// ---------------------------------------------------------------------------
// corpus: inputs of compiler/go_compiler_*_test.go

var (
	corpusOnce sync.Once
	corpusSrcs []string
)

func litString(e ast.Expr) (string, bool) {
	switch v := e.(type) {
	case *ast.BasicLit:
		if v.Kind == token.STRING {
			s, err := strconv.Unquote(v.Value)
			return s, err == nil
		}
	case *ast.BinaryExpr:
		if v.Op == token.ADD {
			a, ok1 := litString(v.X)
			b, ok2 := litString(v.Y)
			return a + b, ok1 && ok2
		}
	case *ast.ParenExpr:
		return litString(v.X)
	}
	return "", false
}

func dedent(s string) string {
	lines := strings.Split(strings.ReplaceAll(s, "\t", "  "), "\n")
	m := -1
	for _, l := range lines {
		if strings.TrimSpace(l) == "" {
			continue
		}
		if n := indentOf(l); m < 0 || n < m {
			m = n
		}
	}
	var out []string
	for _, l := range lines {
		if strings.TrimSpace(l) == "" {
			continue
		}
		out = append(out, l[min(m, len(l)):])
	}
	return strings.Join(out, "\n") + "\n"
}

func loadCorpus() []string {
	corpusOnce.Do(func() {
		files, _ := filepath.Glob(filepath.Join(repoRoot(), "compiler", "go_compiler_*_test.go"))
		sort.Strings(files)
		seen := map[string]bool{}
		for _, f := range files {
			fset := token.NewFileSet()
			af, err := parser.ParseFile(fset, f, nil, parser.SkipObjectResolution)
			if err != nil {
				continue
			}
			ast.Inspect(af, func(n ast.Node) bool {
				kv, ok := n.(*ast.KeyValueExpr)
				if !ok {
					return true
				}
				id, ok := kv.Key.(*ast.Ident)
				if !ok || id.Name != "input" {
					return true
				}
				if s, ok := litString(kv.Value); ok && strings.TrimSpace(s) != "" && !seen[s] {
					seen[s] = true
					corpusSrcs = append(corpusSrcs, s)
				}
				return true
			})
		}
	})
	return corpusSrcs
}

var declRe = regexp.MustCompile(`^(?:var |val )?([a-z_][a-z0-9_]*)\s*(?::=|: [A-Z][^=]*=|=)[^=~]`)

// observe appends `println(<name>.inspect)` for the top-level locals of a test
// input (most inputs print nothing); only the additions the checker accepts and
// whose VM output is address-free are kept.
func observe(src string) string {
	src = dedent(src)
	if strings.Contains(src, "go ") || strings.Contains(src, "Time.") || strings.Contains(src, "await") || strings.Contains(src, "async") {
		return src // scheduling / wall clock: not deterministic
	}
	var names []string
	seen := map[string]bool{}
	for _, l := range strings.Split(src, "\n") {
		if indentOf(l) != 0 {
			continue
		}
		for _, part := range strings.Split(l, ";") {
			if m := declRe.FindStringSubmatch(strings.TrimSpace(part) + " "); m != nil && !seen[m[1]] {
				seen[m[1]] = true
				names = append(names, m[1])
			}
		}
	}
	out := src
	for _, n := range names {
		cand := out + fmt.Sprintf("println(%q, %s.inspect)\n", n+" =", n)
		r := worker.Do(sb.Req{Mode: "run", Source: cand}, 30*time.Second)
		if class, _ := sb.Classify(r); class != sb.OK && class != sb.ElkError {
			continue
		}
		run := r.Resp.Runs[0]
		if addrRe.MatchString(run.Stdout) {
			continue
		}
		if pbt.KnownActive(kIface) {
			if gr := worker.Do(sb.Req{Mode: "gosrc", Source: cand}, 60*time.Second); !gr.TimedOut && !gr.Died && len(gr.Resp.Runs) == 1 && strings.Contains(gr.Resp.Runs[0].Panic, "invalid namespace: *types.Interface") {
				continue
			}
		}
		base := worker.Do(sb.Req{Mode: "run", Source: out}, 30*time.Second)
		if bc, _ := sb.Classify(base); bc == sb.ElkError && run.ErrClass == "" {
			continue
		}
		out = cand
	}
	return out
}

func observed(c Case) Case {
	cc := Case{}
	for _, p := range c.Progs {
		if !p.Observed {
			p = Prog{Src: observe(p.Src), Kind: p.Kind, Observed: true}
		}
		cc.Progs = append(cc.Progs, p)
	}
	return cc
}

func corpusBatchSize() int {
	if s, err := strconv.Atoi(os.Getenv("C09_CORPUS_BATCH")); err == nil && s > 0 {
		return s
	}
	return 16
}

func TestNativeCorpus(t *testing.T) {
	pbt.Rule("native_corpus", "a case is a batch of 16 distinct inputs of compiler/go_compiler_*_test.go (extracted with go/parser from the working tree, chosen uniformly), each extended with println(<local>.inspect) for its top-level locals where the checker accepts that; inputs using go/async/Time are taken verbatim; same oracle as native_generated; non-trivial = at least one input was built, run and compared")
	worker = sb.New("")
	defer worker.Close()
	gen := func(t *rapid.T) Case {
		srcs := loadCorpus()
		var c Case
		if len(srcs) == 0 {
			return c
		}
		seen := map[int]bool{}
		for len(c.Progs) < corpusBatchSize() && len(seen) < len(srcs) {
			i := rapid.IntRange(0, len(srcs)-1).Draw(t, "i")
			if seen[i] {
				continue
			}
			seen[i] = true
			c.Progs = append(c.Progs, Prog{Src: srcs[i], Kind: "corpus"})
		}
		return c
	}
	orc := func(c Case, ctx *pbt.Ctx) error {
		if len(c.Progs) == 0 {
			return errors.New("no go_compiler test inputs found under " + repoRoot())
		}
		if pbt.KnownActive(kVMPostfix) {
			// recorded C29 finding: on the VM `recv.attr++` calls the setter without a receiver; such inputs
			// compare a wrong VM with a right native binary
			var keep []Prog
			for _, p := range c.Progs {
				if vmPostfixRe.MatchString(p.Src) {
					ctx.Excluded(kVMPostfix)
					continue
				}
				keep = append(keep, p)
			}
			if len(keep) == 0 {
				return nil
			}
			c = Case{Progs: keep}
		}
		return oracle(observed(c), ctx)
	}
	min := func(c Case) Case { return minimize(observed(c)) }
	pbt.Run(t, pbt.Prop[Case]{Name: "native_corpus", Quick: 2, Thorough: 40, Gen: gen, Oracle: orc, Minimize: min, Sample: sample})
}
