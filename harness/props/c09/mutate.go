package c09

import (
	"os"
	"regexp"
	"strings"
)

// Sensitivity aid (development only, off unless C09_MUTATE is set): rewrites the
// Go text the backend produced exactly as a mutated backend would have emitted it,
// so that the oracle's sensitivity can be measured without rebuilding the worker.
//
//	subswap – operands of value.SubtractInts swapped
//	noerr   – the `thread.Panic(err)` after a failed call dropped (error ignored)
//	cont    – a labelled `continue L` targets the innermost loop instead
func mutateGo(src string) string {
	switch os.Getenv("C09_MUTATE") {
	case "subswap":
		return swapArgs(src, "value.SubtractInts(")
	case "noerr":
		return strings.ReplaceAll(src, "thread.Panic(err)", "_ = err")
	case "cont":
		return contRe.ReplaceAllString(src, "continue\n")
	}
	return src
}

var contRe = regexp.MustCompile(`continue [A-Za-z_][A-Za-z0-9_]*\n`)

func swapArgs(src, call string) string {
	var b strings.Builder
	for {
		i := strings.Index(src, call)
		if i < 0 {
			b.WriteString(src)
			return b.String()
		}
		b.WriteString(src[:i+len(call)])
		rest := src[i+len(call):]
		depth, comma, end := 0, -1, -1
		for j := 0; j < len(rest); j++ {
			switch rest[j] {
			case '(':
				depth++
			case ')':
				if depth == 0 {
					end = j
				}
				depth--
			case ',':
				if depth == 0 && comma < 0 {
					comma = j
				}
			}
			if end >= 0 {
				break
			}
		}
		if comma < 0 || end < 0 {
			b.WriteString(rest)
			return b.String()
		}
		b.WriteString(strings.TrimSpace(rest[comma+1:end]) + ", " + strings.TrimSpace(rest[:comma]))
		src = rest[end:]
	}
}
