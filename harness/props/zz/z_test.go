package zz
import ("testing";"fmt";"math/big";"github.com/elk-language/elk/value";"verif/internal/vgen")
func TestZ(t *testing.T){
 value.InitGlobalEnvironment()
 p:=func(s string) value.Value { b,_:=new(big.Int).SetString(s,10); return vgen.ElkInt(b)}
 a,b:=p("-9223372036854775808"),p("9223372036854775808")
 q,_:=value.DivideVal(a,b); r,_:=value.ModuloVal(a,b); m,_:=value.MultiplyVal(q,b)
 fmt.Println(q.Inspect(), r.Inspect(), m.Inspect())
 x,_:=value.DivideVal(p("-1"),p("2")); fmt.Println("-1/2",x.Inspect())
 x,_=value.DivideVal(p("-7"),p("1000000000000000000000000000000")); fmt.Println("-7/1e30",x.Inspect())
}
