// Package c15: generators and async functions preserve the semantics of their body.
//
// One generated function body B (MiniElk fork mini15: helper methods + a subject method with
// `yield` statements) is emitted as a plain method, a generator, an async method and a quiet
// async method in one Elk program; a hand-written driver calls every variant and prints what it
// observes.  The expected output is computed from the Go reference interpreter.
package c15

import (
	"fmt"
	"os"
	"strings"
	"testing"
	"time"

	"pgregory.net/rapid"

	mini "verif/internal/mini15"
	"verif/internal/pbt"
	sb "verif/internal/sandbox"
	"verif/internal/vgen"
)

func TestMain(m *testing.M) { pbt.Main(m, "C15") }

// Case is replayable: Src/Want are what the oracle uses; Prog/Args/Pool/Order are what they were derived from
// (and what the minimiser works on).
type Case struct {
	Prog  *mini.Program `json:"prog,omitempty"`
	Args  [][]int64     `json:"args"`  // argument tuples of the calls (only the first len(params) of each are used)
	Pool  int           `json:"pool"`  // thread pool size (0 = the VM's default pool)
	Order []int         `json:"order"` // order in which the concurrent promises are awaited (indices into Args, repeats allowed)
	Src   string        `json:"src"`
	Want  string        `json:"want"`
	// measured by the reference interpreter (sum over all calls)
	Events map[string]int `json:"events"`
	Abort  bool           `json:"abort,omitempty"` // reference interpreter exceeded its step budget: case is skipped
}

var (
	worker *sb.Worker
	nreq   int
)

// known finding: the final value of a generator (end of body or `return`) is compiled as YIELD + STOP_ITERATION
// without running enclosing finally clauses / deferred code
const kGenFin = "generator-return-skips-finally"

// known finding: a yield closes the open upvalues of the generator frame, after which the body (saved stack copy)
// and its closures (heap copy) no longer share the captured variables
const kCapture = "generator-yield-unshares-captured-variables"

// call is the reference outcome of one call of the subject.
type call struct {
	segs  [][]string // body lines printed before delivery j
	vals  []string   // yielded values
	tail  []string   // body lines after the last yield
	all   []string   // all body lines (yields as "y=<v>")
	value string
	err   string // inspect of the thrown value ("" = returned normally)
}

func refCall(p *mini.Program, name string, args []int64) (call, mini.Result) {
	r := mini.Call(p, name, args)
	var c call
	if r.Aborted {
		return c, r
	}
	var cur []string
	for _, l := range strings.Split(strings.TrimSuffix(r.Stdout, "\n"), "\n") {
		if r.Stdout == "" {
			break
		}
		c.all = append(c.all, l)
		if strings.HasPrefix(l, "y=") {
			c.segs = append(c.segs, cur)
			c.vals = append(c.vals, l[2:])
			cur = nil
		} else {
			cur = append(cur, l)
		}
	}
	c.tail = cur
	c.value, c.err = r.Value, r.Err
	return c, r
}

func argList(a []int64, n int) string {
	var s []string
	for i := 0; i < n; i++ {
		v := int64(0)
		if i < len(a) {
			v = a[i]
		}
		if v < 0 {
			s = append(s, fmt.Sprintf("(%d)", v))
		} else {
			s = append(s, fmt.Sprintf("%d", v))
		}
	}
	return strings.Join(s, ", ")
}

// catchAll is the driver's handler: thrown values are symbols or strings.
func catchAll(b *strings.Builder, ind, tag string) {
	fmt.Fprintf(b, "%scatch Symbol() as es\n%s  println(\"%s=\" + es.inspect)\n%scatch String() as et\n%s  println(\"%s=\" + et.inspect)\n%send\n", ind, ind, tag, ind, ind, tag, ind)
}

// build renders the Elk program and the expected output.
func build(p *mini.Program, argv [][]int64, pool int, order []int) Case {
	c := Case{Prog: p, Args: argv, Pool: pool, Order: order, Events: map[string]int{}}
	subj := p.Methods[len(p.Methods)-1]
	np := len(subj.X)
	name := subj.S
	var src, want strings.Builder
	w := func(lines ...string) {
		for _, l := range lines {
			want.WriteString(l + "\n")
		}
	}
	src.WriteString(mini.Helpers())
	for _, m := range p.Methods {
		src.WriteString(p.Method(m, mini.ModePlain, ""))
	}
	src.WriteString(p.Method(subj, mini.ModeGen, "g_"+name))
	src.WriteString(p.Method(subj, mini.ModeAsync, "a_"+name))
	for _, m := range p.Methods {
		src.WriteString(p.Method(m, mini.ModeQuiet, ""))
	}
	src.WriteString(p.Method(subj, mini.ModeQuietAsync, "aq_"+name))
	// an async method that awaits the async variant
	var ps, pn []string
	for _, x := range subj.X {
		ps = append(ps, x.S+": Int")
		pn = append(pn, x.S)
	}
	fmt.Fprintf(&src, "async def w_%s(%s): Int\n  r := await a_%s(%s)\n  println(\"w\")\n  r\nend\n", name, strings.Join(ps, ", "), name, strings.Join(pn, ", "))

	// every promise is awaited before the program ends (a task still running would overlap the next request of the worker)
	order = append([]int{}, order...)
	for i := range argv {
		seen := false
		for _, o := range order {
			seen = seen || o%len(argv) == i
		}
		if !seen {
			order = append(order, i)
		}
	}
	var calls []call
	for _, a := range argv {
		rc, r := refCall(p, name, a[:min(np, len(a))])
		if r.Aborted {
			c.Abort = true
			return c
		}
		for k, v := range r.Events {
			c.Events[k] += v
		}
		calls = append(calls, rc)
	}
	outcome := func(rc call, tag string) string {
		if rc.err != "" {
			return tag + "x=" + rc.err
		}
		return tag + "r=" + rc.value
	}
	genWant := func(rc call, stops int) {
		for j, seg := range rc.segs {
			w(seg...)
			w("n=" + rc.vals[j])
		}
		w(rc.tail...)
		if rc.err != "" {
			w("x=" + rc.err)
		} else {
			w("n=" + rc.value)
		}
		for i := 0; i < stops; i++ {
			w("stop")
		}
	}
	for i, a := range argv {
		al := argList(a, np)
		rc := calls[i]
		// (1) plain
		fmt.Fprintf(&src, "println(\"--plain %d\")\ndo\n  r := %s(%s)\n  println(\"r=${r}\")\n", i, name, al)
		catchAll(&src, "", "x")
		w(fmt.Sprintf("--plain %d", i))
		w(rc.all...)
		w(outcome(rc, ""))
		// (1q) the non-printing copy, called directly (attributes body-level defects of the quiet rendering)
		fmt.Fprintf(&src, "println(\"--quiet %d\")\ndo\n  r := %s%s(%s)\n  println(\"r=${r}\")\n", i, name, mini.QuietSuffix, al)
		catchAll(&src, "", "x")
		w(fmt.Sprintf("--quiet %d", i))
		w(outcome(rc, ""))
		// (2a) generator driven by next: one call per delivery, then three more
		n := len(rc.vals) + 1 + 3
		// (every other call with two operands pending below it: the frame is restored at another stack position)
		fmt.Fprintf(&src, "println(\"--next %d\")\ng%d := g_%s(%s)\nfornum i%d := 0; i%d < %d; i%d += 1\n  do\n    var v: Int = 0\n    if i%d %% 2 == 0\n      v = try g%d.next\n    else\n      v = 0 + (0 + (try g%d.next))\n    end\n    println(\"n=${v}\")\n  catch :stop_iteration\n    println(\"stop\")\n", i, i, name, al, i, i, n, i, i, i, i)
		catchAll(&src, "  ", "x")
		src.WriteString("end\n")
		w(fmt.Sprintf("--next %d", i))
		genWant(rc, 3)
		// (2b) generator consumed by for-in
		fmt.Fprintf(&src, "println(\"--forin %d\")\ndo\n  for v in g_%s(%s)\n    println(\"n=${v}\")\n  end\n", i, name, al)
		catchAll(&src, "", "x")
		w(fmt.Sprintf("--forin %d", i))
		genWant(rc, 0)
		// (3a) async, awaited synchronously from the top level
		fmt.Fprintf(&src, "println(\"--sync %d\")\ndo\n  r := a_%s(%s).await_sync\n  println(\"r=${r}\")\n", i, name, al)
		catchAll(&src, "", "x")
		w(fmt.Sprintf("--sync %d", i))
		w(rc.all...)
		w(outcome(rc, ""))
		// (3b) async, awaited with `await` from another async method
		fmt.Fprintf(&src, "println(\"--await %d\")\ndo\n  r := w_%s(%s).await_sync\n  println(\"r=${r}\")\n", i, name, al)
		catchAll(&src, "", "x")
		w(fmt.Sprintf("--await %d", i))
		w(rc.all...)
		if rc.err == "" {
			w("w")
		}
		w(outcome(rc, ""))
	}
	// (2c) two live generators advanced alternately: their saved states are independent
	if len(argv) >= 2 {
		a, b := calls[0], calls[1]
		fmt.Fprintf(&src, "println(\"--pair\")\nga := g_%s(%s)\ngb := g_%s(%s)\n", name, argList(argv[0], np), name, argList(argv[1], np))
		n := max(len(a.vals), len(b.vals)) + 2
		fmt.Fprintf(&src, "fornum ip := 0; ip < %d; ip += 1\n", n)
		for _, g := range []string{"a", "b"} {
			fmt.Fprintf(&src, "  do\n    v := try g%s.next\n    println(\"%s=${v}\")\n  catch :stop_iteration\n    println(\"%sstop\")\n", g, g, g)
			catchAll(&src, "  ", g+"x")
		}
		src.WriteString("end\n")
		w("--pair")
		step := func(rc call, tag string, j int) {
			switch {
			case j < len(rc.vals):
				w(rc.segs[j]...)
				w(tag + "=" + rc.vals[j])
			case j == len(rc.vals):
				w(rc.tail...)
				if rc.err != "" {
					w(tag + "x=" + rc.err)
				} else {
					w(tag + "=" + rc.value)
				}
			default:
				w(tag + "stop")
			}
		}
		for j := 0; j < n; j++ {
			step(a, "a", j)
			step(b, "b", j)
		}
	}
	// (3c) several promises in flight (quiet bodies: only the awaiting task prints), awaited in a chosen
	// order with `await` inside an async method, some of them twice
	fmt.Fprintf(&src, "async def conc(): Int\n")
	for i, a := range argv {
		fmt.Fprintf(&src, "  p%d := aq_%s(%s)\n", i, name, argList(a, np))
	}
	for k, i := range order {
		i %= len(argv)
		fmt.Fprintf(&src, "  do\n    r%d := await p%d\n    println(\"c%d.r=${r%d}\")\n", k, i, i, k)
		catchAll(&src, "  ", fmt.Sprintf("c%d.x", i))
	}
	src.WriteString("  0\nend\nprintln(\"--conc\")\nconc().await_sync\n")
	w("--conc")
	for _, i := range order {
		i %= len(argv)
		w(outcome(calls[i], fmt.Sprintf("c%d.", i)))
	}
	// (3d) the same from the top level with await_sync, in reverse order
	src.WriteString("println(\"--concsync\")\n")
	w("--concsync")
	for i, a := range argv {
		fmt.Fprintf(&src, "q%d := aq_%s(%s)\n", i, name, argList(a, np))
	}
	for k := len(order) - 1; k >= 0; k-- {
		i := order[k] % len(argv)
		fmt.Fprintf(&src, "do\n  s%d := q%d.await_sync\n  println(\"s%d.r=${s%d}\")\n", k, i, i, k)
		catchAll(&src, "", fmt.Sprintf("s%d.x", i))
		w(outcome(calls[i], fmt.Sprintf("s%d.", i)))
	}
	src.WriteString("println(\"--end\")\n")
	w("--end")
	c.Src, c.Want = src.String(), want.String()
	return c
}

func gen(t *rapid.T) Case {
	for tries := 0; ; tries++ {
		prof := mini.FnP
		// shapes that fall under C14's recorded findings (a jump out of a catch clause skips the finally
		// clause; a handler keeps the operands pending at the throw) are not generated here either
		prof.NoExitFromCatchWithFinally = true
		prof.NoCatchInsideHandler = true
		prof.NoSubjectReturnThroughFinally = pbt.KnownActive(kGenFin)
		prof.NoSubjectCapture = pbt.KnownActive(kCapture)
		p := mini.GenFn(t, prof)
		na := 1 + vgen.Pick(t, 3, "ncalls")
		var argv [][]int64
		for i := 0; i < na; i++ {
			argv = append(argv, []int64{int64(rapid.IntRange(-3, 9).Draw(t, "a0")), int64(rapid.IntRange(-3, 9).Draw(t, "a1"))})
		}
		pool := []int{1, 2, 4}[vgen.Pick(t, 3, "pool")]
		// a permutation of the promises, then up to two repeated awaits
		order := make([]int, na)
		for i := range order {
			order[i] = i
		}
		for i := na - 1; i > 0; i-- {
			j := vgen.Pick(t, i+1, "perm")
			order[i], order[j] = order[j], order[i]
		}
		for i := vgen.Pick(t, 3, "nrepeat"); i > 0; i-- {
			order = append(order, vgen.Pick(t, na, "again"))
		}
		c := build(p, argv, pool, order)
		if c.Abort && tries < 5 {
			continue
		}
		return c
	}
}

func oracle(c Case, ctx *pbt.Ctx) error {
	if c.Abort {
		ctx.Label("skipped:reference_step_budget")
		return nil
	}
	// the worker creates a thread pool per request and never closes it: start a fresh child now and then
	if nreq++; nreq%250 == 0 {
		worker.Close()
		worker = sb.New("debug")
	}
	// ConcLimit 1: method bodies are type-checked one at a time. The checker's concurrent phase is not part of
	// this property (C11) and has a rare data race (nil dereference in DiagnosticList.IsFailure under load).
	req := sb.Req{Mode: "run", Source: c.Src, Cfg: sb.Cfg{Pool: c.Pool, Queue: 256, ConcLimit: 1}}
	res := worker.Do(req, 60*time.Second)
	class, detail := sb.Classify(res)
	if (class == sb.Fatal || class == sb.GoPanic) && strings.Contains(detail, "types/checker.(*Checker).check") && !strings.Contains(detail, "vm.(*Thread).run") {
		// died while type checking: only a crash that repeats is reported here
		res = worker.Do(req, 60*time.Second)
		if c2, d2 := sb.Classify(res); c2 == sb.Fatal || c2 == sb.GoPanic {
			return fmt.Errorf("interpreter crashed twice (%s) while type checking:\n%s", c2, clip(d2, 2500))
		}
		ctx.Label("flaky:checker_crash_not_repeated")
		class, detail = sb.Classify(res)
	}
	ctx.Label("outcome:" + class)
	ctx.Label(fmt.Sprintf("pool:%d", c.Pool))
	switch class {
	case sb.Timeout:
		// every generated program terminates (the reference interpreter ran it to the end; typical VM time
		// is well under a second). One expiry of the 60 s deadline may be the machine; a second run in a
		// fresh worker that also exceeds 180 s is a hang: a promise that never settles or a generator
		// that never finishes.
		worker.Close()
		worker = sb.New("debug")
		res2 := worker.Do(req, 180*time.Second)
		if c2, d2 := sb.Classify(res2); c2 == sb.Timeout {
			ctx.Label("hang_confirmed")
			return fmt.Errorf("program does not terminate (no answer within 60 s and, in a fresh worker, within 180 s); the reference interpreter runs it to the end. Goroutines at the second deadline:\n%s", clip(d2, 3000))
		}
		pbt.Inconclusive()
		return nil
	case sb.Fatal, sb.GoPanic:
		return fmt.Errorf("interpreter crashed (%s) on a program the reference interpreter runs fine:\n%s", class, clip(detail, 2500))
	case sb.StackLimit:
		return fmt.Errorf("stack limit reached (%s) by a program with bounded recursion", detail)
	case sb.Rejected:
		var ds []string
		for _, d := range res.Resp.Runs[0].Diags {
			if d.Severity == "FAIL" {
				ds = append(ds, fmt.Sprintf("%d:%d %s", d.Line, d.Col, d.Msg))
			}
		}
		return fmt.Errorf("GENERATOR: well-typed-by-construction program rejected by the checker: %s", strings.Join(ds, " | "))
	}
	run := res.Resp.Runs[0]
	if run.Stdout != c.Want {
		sec, diff := firstDiff(c.Want, run.Stdout)
		return fmt.Errorf("output differs from the reference in section %s: %s\n--- want\n%s--- got\n%s", sec, diff, clip(c.Want, 3000), clip(run.Stdout, 3000))
	}
	if run.ErrInspect != "" {
		return fmt.Errorf("final outcome differs: the driver catches every error, VM reports uncaught %q (class %s)", run.ErrInspect, run.ErrClass)
	}
	if c.Prog != nil && c.Prog.RestrictedGenFin > 0 {
		ctx.Excluded(kGenFin)
	}
	if c.Prog != nil && c.Prog.RestrictedCapture > 0 {
		ctx.Excluded(kCapture)
	}
	ev := c.Events
	for k := range ev {
		ctx.Label("ev:" + k)
	}
	if ev["call_to_local"] > 0 || ev["yield_call_operand"] > 0 || ev["yield_in_loop"] > 0 || ev["yield_in_do"] > 0 || ev["yield_in_handler"] > 0 || ev["yield_in_finally"] > 0 {
		ctx.NonTrivial(c.Src)
	}
	if strings.Contains(c.Want, "\nx=") {
		ctx.Label("body_throws")
	}
	return nil
}

// firstDiff returns the section marker before the first differing line and the difference.
func firstDiff(a, b string) (string, string) {
	la, lb := strings.Split(a, "\n"), strings.Split(b, "\n")
	sec := "?"
	for i := 0; i < len(la) || i < len(lb); i++ {
		x, y := "<end>", "<end>"
		if i < len(la) {
			x = la[i]
		}
		if i < len(lb) {
			y = lb[i]
		}
		if x != y {
			return sec, fmt.Sprintf("line %d: want %q got %q", i+1, x, y)
		}
		if strings.HasPrefix(x, "--") {
			sec = strings.Fields(x)[0]
		}
	}
	return sec, "none"
}

func clip(s string, n int) string {
	if len(s) > n {
		return s[:n] + "…"
	}
	return s
}

// failClass buckets an oracle error so that reduction keeps the same kind of failure.
func failClass(err error) string {
	if err == nil {
		return ""
	}
	m := err.Error()
	for _, k := range []string{"interpreter crashed", "GENERATOR", "stack limit", "final outcome differs"} {
		if strings.Contains(m, k) {
			return k
		}
	}
	if i := strings.Index(m, "in section "); i >= 0 {
		return "section " + strings.SplitN(m[i+len("in section "):], ":", 2)[0]
	}
	return "other"
}

func minimize(c Case) Case {
	if c.Prog == nil || os.Getenv("C15_NOMIN") != "" {
		return c
	}
	first := oracle(c, &pbt.Ctx{})
	if first != nil && strings.Contains(first.Error(), "does not terminate") {
		return c // every reduction step would cost two deadlines
	}
	want := failClass(first)
	if want == "" || want == "GENERATOR" {
		return c
	}
	fails := func(x Case) (ok bool) {
		defer func() {
			if recover() != nil { // reduced programs may be ill-formed for the reference interpreter
				ok = false
			}
		}()
		return !x.Abort && failClass(oracle(x, &pbt.Ctx{})) == want
	}
	// fewer calls / awaits first
	for len(c.Args) > 1 {
		x := build(c.Prog, c.Args[:len(c.Args)-1], c.Pool, c.Order)
		if !fails(x) {
			break
		}
		c = x
	}
	for len(c.Order) > 1 {
		x := build(c.Prog, c.Args, c.Pool, c.Order[:len(c.Order)-1])
		if !fails(x) {
			break
		}
		c = x
	}
	red := mini.Reduce(c.Prog, func(p *mini.Program) (ok bool) {
		defer func() {
			if recover() != nil {
				ok = false
			}
		}()
		if len(p.Methods) == 0 || !mini.InDomain(p) {
			return false
		}
		return fails(build(p, c.Args, c.Pool, c.Order))
	}, 600)
	return build(red, c.Args, c.Pool, c.Order)
}

func TestWrappings(t *testing.T) {
	pbt.Rule("wrappings", "MiniElk (fork mini15) function bodies: 1-3 helper methods and a subject method (locals assigned from calls, while/until/loop/do-while/for-in/fornum with labelled break/continue, if, do/catch/finally, throw unchecked, return, defer, closures, && || ??) with `yield e` statements at generator-chosen points (loops, do bodies, catch clauses, finally blocks; operands include helper calls). The subject is emitted as plain def, `def *`, `async def` and a non-printing async copy; a driver calls each with 1-3 argument tuples: plain call; generator by repeated `next` (deliveries + 3 more calls) and by for-in; two live generators advanced alternately; async by await_sync and by `await` from another async method; all promises in flight at once awaited in a drawn order (some twice) inside an async method and from the top level; thread pool size drawn from 1/2/4, queue 256, checker concurrency limit 1; the non-printing plain copy is called as well. Expected stdout is assembled from the Go reference interpreter (body lines, yielded values, result or thrown value). Non-trivial = the executed subject stores a call result in a local, or executes a yield whose operand contains a call or that sits in a loop / do body / catch clause / finally block; distinct by source")
	worker = sb.New("debug")
	defer func() { worker.Close() }()
	pbt.Run(t, pbt.Prop[Case]{Name: "wrappings", Quick: 1200, Thorough: 20000, Gen: gen, Oracle: oracle, Minimize: minimize,
		Sample: func(c Case) any { return map[string]any{"src": c.Src, "want": c.Want, "pool": c.Pool} }})
}
