package c15

import (
	"encoding/json"
	"fmt"
	"os"
	"strconv"
	"testing"
	"time"
	"verif/internal/pbt"

	"pgregory.net/rapid"

	sb "verif/internal/sandbox"
)

// TestDump prints generated cases (developer aid): C15_DUMP=<n> go test -run TestDump
func TestDump(t *testing.T) {
	n, _ := strconv.Atoi(os.Getenv("C15_DUMP"))
	for i := 0; i < n; i++ {
		c := rapid.Custom(gen).Example(i + 1)
		fmt.Printf("=== case %d pool=%d args=%v order=%v abort=%v\n%s--- want\n%s", i, c.Pool, c.Args, c.Order, c.Abort, c.Src, c.Want)
	}
}

// TestSnippet runs the Elk file named by C15_SNIP in the worker and prints the outcome (developer aid).
func TestSnippet(t *testing.T) {
	f := os.Getenv("C15_SNIP")
	if f == "" {
		return
	}
	src, err := os.ReadFile(f)
	if err != nil {
		t.Fatal(err)
	}
	pool, _ := strconv.Atoi(os.Getenv("C15_POOL"))
	w := sb.New("debug")
	defer w.Close()
	res := w.Do(sb.Req{Mode: "run", Source: string(src), Cfg: sb.Cfg{Pool: pool, Queue: 256, Disasm: os.Getenv("C15_DISASM") != ""}}, 30*time.Second)
	class, detail := sb.Classify(res)
	fmt.Printf("class=%s\n%s\n", class, detail)
	for _, r := range res.Resp.Runs {
		for _, d := range r.Diags {
			fmt.Printf("diag %s %d:%d %s\n", d.Severity, d.Line, d.Col, d.Msg)
		}
		fmt.Printf("--- stdout\n%s--- err=%s result=%s\n%s\n%s\n", r.Stdout, r.ErrInspect, r.Result, r.Stderr, r.Disasm)
	}
}

// TestMin minimises the case stored in the JSON file named by C15_MIN (developer aid).
func TestMin(t *testing.T) {
	f := os.Getenv("C15_MIN")
	if f == "" {
		return
	}
	b, err := os.ReadFile(f)
	if err != nil {
		t.Fatal(err)
	}
	var c Case
	if err := json.Unmarshal(b, &c); err != nil {
		t.Fatal(err)
	}
	worker = sb.New("debug")
	defer worker.Close()
	m := minimize(c)
	out, _ := json.Marshal(m)
	_ = os.WriteFile(f+".min", out, 0o644)
	fmt.Printf("%s\n--- oracle: %v\n", m.Src, oracle(m, &pbt.Ctx{}))
}
