// Package c33: cancellation stops any running program.
//
// Generated non-terminating Elk programs are compiled with the additional abort
// checks (as the REPL does) and interpreted in a worker process; the context of
// the main thread is cancelled after a drawn delay.  The interpreter must return
// Std::ExecutionAbortedError.  Time is never a verdict by itself: a run that does
// not stop within the REPL's own 5 s limit is repeated with 30 s, and only a VM
// goroutine that is parked in an operation without a context case, or that keeps
// consuming CPU inside Thread.run, is reported; anything else is inconclusive.
package c33

import (
	"encoding/json"
	"fmt"
	"os"
	"strconv"
	"strings"
	"testing"
	"time"

	"pgregory.net/rapid"

	"verif/internal/pbt"
	sb "verif/internal/sandbox"
)

func TestMain(m *testing.M) { pbt.Main(m, "C33") }

type Case struct {
	Src       string   `json:"src"`
	Feats     []string `json:"feats,omitempty"`
	CancelMs  int      `json:"cancel_ms"`  // delay before cancel()
	WaitStart bool     `json:"wait_start"` // the delay starts when the program has printed its start marker
	// the outermost statement is a do/catch with a catch-all clause: the program itself
	// handles the abort error and may then finish normally; it still has to stop
	CatchAll bool `json:"catch_all,omitempty"`
	Pool     bool `json:"pool,omitempty"`    // program uses promises: give it a private thread pool
	Threads  bool `json:"threads,omitempty"` // program starts `go` threads: they have to stop too
}

var worker *sb.Worker

var confirmMs = envInt("VERIF_C33_CONFIRM_MS", 30000) // confirmation run

func envInt(k string, def int) int {
	if n, err := strconv.Atoi(os.Getenv(k)); err == nil && n > 0 {
		return n
	}
	return def
}

const (
	graceMs   = 5000  // the REPL's own limit (repl.evaluate: "timed out waiting for execution to finish")
	startMs   = 20000 // how long to wait for the start marker on a loaded machine
	lingerMs  = 5000  // how long `go` threads get to stop after the main thread
)

// known finding (design-level): Std::Sync::Mutex#lock (and RWMutex / ROMutex) block in sync.Mutex.Lock,
// which has no cancellable variant; a thread waiting for a lock is not woken by the abort
const kMutex = "mutex-lock-not-cancellable"

func hasFeat(c Case, f string) bool {
	for _, x := range c.Feats {
		if x == f {
			return true
		}
	}
	return false
}

func genCase(t *rapid.T) Case {
	src, feats, catchAll, pool, threads := genProgram(t)
	c := Case{Src: src, Feats: feats, CatchAll: catchAll, Pool: pool, Threads: threads}
	c.CancelMs = rapid.IntRange(0, 100).Draw(t, "cancel_ms")
	// 1 in 6 cases cancels relative to the launch (possibly before the program started at all)
	c.WaitStart = rapid.IntRange(0, 5).Draw(t, "wait_start") != 0
	return c
}

func request(c Case, grace int) sb.Req {
	in := []string{"marker=" + marker}
	if c.WaitStart {
		in = append(in, "wait_start_ms="+strconv.Itoa(startMs))
	}
	if c.Pool {
		in = append(in, "pool=4")
	}
	if c.Threads {
		in = append(in, "linger_ms="+strconv.Itoa(lingerMs))
	}
	return sb.Req{Mode: "cancel2", Source: c.Src, Inputs: in, Cfg: sb.Cfg{CancelMs: c.CancelMs, GraceMs: grace}}
}

func num(m map[string]any, k string) float64 {
	if v, ok := m[k].(float64); ok {
		return v
	}
	return 0
}

func flag(m map[string]any, k string) bool {
	v, _ := m[k].(bool)
	return v
}

func strs(v any) string {
	l, _ := v.([]any)
	var out []string
	for _, x := range l {
		out = append(out, fmt.Sprint(x))
	}
	return strings.Join(out, " <- ")
}

// parked states of a goroutine that cannot be left without somebody else acting
var parkedStates = map[string]bool{
	"chan receive": true, "chan send": true, "select": true, "sleep": true, "sync.WaitGroup.Wait": true,
	"sync.Mutex.Lock": true, "sync.RWMutex.Lock": true, "sync.RWMutex.RLock": true, "semacquire": true, "sync.Cond.Wait": true,
	"chan receive (nil chan)": true, "chan send (nil chan)": true, "select (no cases)": true,
}

func do(c Case, grace int) (sb.Run, string, string) {
	res := worker.Do(request(c, grace), time.Duration(startMs+grace+c.CancelMs+lingerMs+60000)*time.Millisecond)
	class, detail := sb.Classify(res)
	if class == sb.Timeout || class == sb.Fatal {
		return sb.Run{}, class, detail
	}
	return res.Resp.Runs[0], class, detail
}

func oracle(c Case, ctx *pbt.Ctx) error {
	for _, f := range c.Feats {
		ctx.Label(f)
	}
	if c.WaitStart {
		ctx.Label("cancel:after_start")
	} else {
		ctx.Label("cancel:after_launch")
	}
	run, class, detail := do(c, graceMs)
	switch class {
	case sb.Timeout:
		// the worker as a whole did not answer (it answers by itself after the grace period): machine problem
		ctx.Label("outcome:worker_timeout")
		pbt.Inconclusive()
		return nil
	case sb.Fatal:
		worker.Close()
		return fmt.Errorf("interpreter process died while running / cancelling the program:\n%s", clip(detail, 2500))
	case sb.GoPanic, sb.StackLimit:
		return fmt.Errorf("Go panic instead of an orderly stop (%s):\n%s", class, clip(detail, 2500))
	case sb.Rejected:
		var ds []string
		for _, d := range run.Diags {
			if d.Severity == "FAIL" {
				ds = append(ds, fmt.Sprintf("%d:%d %s", d.Line, d.Col, d.Msg))
			}
		}
		return fmt.Errorf("GENERATOR: program rejected by the checker: %s", strings.Join(ds, " | "))
	}
	ex := run.Extra
	if flag(ex, "finished_before_cancel") {
		// a generated program never terminates on its own
		ctx.Label("outcome:finished_before_cancel")
		if run.ErrClass != "" {
			return fmt.Errorf("program failed before it was cancelled: %s\n%s", run.ErrInspect, clip(run.Stderr, 1500))
		}
		return fmt.Errorf("GENERATOR: program terminated by itself (result %s, stdout %q)", run.Result, clip(run.Stdout, 200))
	}
	if c.WaitStart && !flag(ex, "started_before_cancel") {
		// 20 s were not enough to reach the first statement: no verdict
		ctx.Label("outcome:never_started")
		pbt.Inconclusive()
		return nil
	}
	if run.StopMs < 0 {
		// did not stop within the REPL's limit: confirm with a long grace period in a fresh process
		worker.Close()
		ctx.Label("slow:confirmation_run")
		run2, class2, detail2 := do(c, confirmMs)
		worker.Close() // the VM goroutine of a run that did not stop keeps running
		if class2 != sb.OK && class2 != sb.ElkError {
			ctx.Label("outcome:confirmation_" + class2)
			if class2 == sb.Fatal || class2 == sb.GoPanic {
				return fmt.Errorf("interpreter crashed in the confirmation run (%s):\n%s", class2, clip(detail2, 2000))
			}
			pbt.Inconclusive()
			return nil
		}
		ex2 := run2.Extra
		if run2.StopMs >= 0 {
			if run2.StopMs <= graceMs || !flag(ex2, "started_before_cancel") && c.WaitStart {
				// stopped in time this time: the first run was starved, not stuck
				ctx.Label("outcome:slow_first_run_only")
				pbt.Inconclusive()
				return nil
			}
			// needed more than 5 s but less than 30 s: slowness, never a violation by itself
			ctx.Label("outcome:slow_stop")
			pbt.Inconclusive()
			return nil
		}
		state, _ := ex2["vm_state"].(string)
		frames := strs(ex2["vm_frames"])
		cpu := num(ex2, "cpu_ms_in_grace")
		switch {
		case parkedStates[state]:
			return fmt.Errorf("NOT CANCELLED (parked): %d ms after cancel() the VM goroutine is still blocked in state %q (no context case can wake it): %s\nstarted=%v cpu_in_grace=%.0fms stdout=%q",
				confirmMs, state, frames, ex2["started_before_cancel"], cpu, clip(run2.Stdout, 200))
		case (state == "running" || state == "runnable") && cpu >= float64(confirmMs)/20:
			return fmt.Errorf("NOT CANCELLED (spinning): %d ms after cancel() the VM goroutine is still executing (state %q, process consumed %.0f ms CPU since the cancel, so it was scheduled): %s\nstdout=%q",
				confirmMs, state, cpu, frames, clip(run2.Stdout, 200))
		default:
			// not scheduled enough to tell, or an unexpected state: no verdict
			ctx.Label("outcome:undecided_state:" + state)
			pbt.Inconclusive()
			return nil
		}
	}
	// stopped
	switch {
	case run.StopMs <= 10:
		ctx.Label("stop_ms:<=10")
	case run.StopMs <= 100:
		ctx.Label("stop_ms:<=100")
	case run.StopMs <= 1000:
		ctx.Label("stop_ms:<=1000")
	default:
		ctx.Label("stop_ms:>1000")
	}
	started := flag(ex, "started_before_cancel")
	if !run.Aborted {
		if c.CatchAll && run.ErrClass == "" {
			ctx.Label("outcome:stopped_by_own_catch")
		} else if run.ErrClass != "" {
			return fmt.Errorf("stopped with %s instead of Std::ExecutionAbortedError: %s\n%s", run.ErrClass, clip(run.ErrInspect, 500), clip(run.Stderr, 1500))
		} else {
			return fmt.Errorf("after cancel() the program returned normally (result %s) instead of raising Std::ExecutionAbortedError; stdout %q", run.Result, clip(run.Stdout, 200))
		}
	} else {
		ctx.Label("outcome:aborted")
	}
	if c.Threads {
		if n := int(num(ex, "lingering_threads")); n > 0 {
			worker.Close()
			var ds []string
			spinning := false
			if l, ok := ex["lingering"].([]any); ok {
				for _, e := range l {
					m, _ := e.(map[string]any)
					st, _ := m["state"].(string)
					ds = append(ds, fmt.Sprintf("[%s] %s", st, strs(m["frames"])))
					if parkedStates[st] {
						return fmt.Errorf("THREAD NOT CANCELLED (parked): %d ms after cancel() %d `go` thread(s) of the program still exist; one is blocked in state %q: %s", lingerMs, n, st, strs(m["frames"]))
					}
					if st == "running" || st == "runnable" {
						spinning = true
					}
				}
			}
			if spinning && num(ex, "cpu_ms_in_linger") >= 2000 {
				return fmt.Errorf("THREAD NOT CANCELLED (spinning): %d ms after cancel() %d `go` thread(s) of the program are still executing (%.0f ms CPU consumed since cancel):\n%s", lingerMs, n, num(ex, "cpu_ms_in_linger"), strings.Join(ds, "\n"))
			}
			ctx.Label("outcome:threads_undecided")
			pbt.Inconclusive()
			return nil
		}
		ctx.Label("threads:all_stopped")
	}
	if started {
		ctx.NonTrivial(c.Src)
	} else {
		ctx.Label("cancelled_before_start")
	}
	return nil
}

func clip(s string, n int) string {
	if len(s) > n {
		return s[:n] + "…"
	}
	return s
}

func sample(c Case) any {
	return map[string]any{"src": c.Src, "cancel_ms": c.CancelMs, "wait_start": c.WaitStart}
}

func TestCancel(t *testing.T) {
	pbt.Rule("cancel", "non-terminating Elk programs: 35 spinning shapes (loop / while / until / do-while / do-until / modifier loops with static and non-static conditions, fornum variants, for-in over endless ranges, generators, fed channels, tail-recursive methods / closures / mutual recursion, huge Int#times) and 21 parked shapes (channel pop / push / for-in / select, WaitGroup, sleep, await / await_sync, mutex, aborter channel, generator that never yields), nested 0-3 levels in 18 wrappers (closures, methods, native callbacks, do/catch/finally incl. catch-all, finite and endless outer loops, labelled continue, helper `go` threads) with finite filler incl. `continue`; compiled with additional abort checks, cancelled 0-100 ms after the start marker (5 of 6) or after launch (1 of 6); must return Std::ExecutionAbortedError (a verdict needs a 30 s confirmation run with the VM goroutine parked or burning CPU); non-trivial = the start marker was printed before cancel() and the program had not finished; distinct by source")
	worker = sb.New("")
	defer worker.Close()
	pbt.Run(t, pbt.Prop[Case]{Name: "cancel", Quick: 1600, Thorough: 24000, Gen: genCase, Oracle: oracle, Sample: sample,
		Known: []pbt.Known[Case]{{Key: kMutex, Match: func(c Case) bool { return hasFeat(c, "park:mutex_relock") }}}})
}

// TestCatalogue (developer aid, VERIF_CATALOGUE=1): runs every shape once and prints the outcome.
func TestCatalogue(t *testing.T) {
	if os.Getenv("VERIF_CATALOGUE") == "" {
		t.Skip("developer aid")
	}
	worker = sb.New("")
	defer worker.Close()
	for _, k := range catalogue() {
		c := Case{Src: k.src, CancelMs: 30, WaitStart: true, Pool: k.pool, Threads: k.threads, CatchAll: k.catchAll}
		t0 := time.Now()
		err := oracle(c, &pbt.Ctx{})
		msg := "ok"
		if err != nil {
			msg = clip(strings.ReplaceAll(err.Error(), "\n", " | "), 600)
		}
		fmt.Printf("%-22s %6dms %s\n", k.name, time.Since(t0).Milliseconds(), msg)
		if dir := os.Getenv("VERIF_CATALOGUE_DUMP"); dir != "" && err != nil {
			_ = os.MkdirAll(dir, 0o755)
			cb, _ := json.Marshal(c)
			b, _ := json.MarshalIndent(map[string]any{"property": "C33", "test": "cancel", "case": json.RawMessage(cb), "observed": clip(err.Error(), 3000)}, "", " ")
			_ = os.WriteFile(dir+"/"+strings.ReplaceAll(k.name, ":", "-")+".json", b, 0o644)
		}
		if err != nil && strings.HasPrefix(err.Error(), "GENERATOR") || os.Getenv("VERIF_CATALOGUE") == "src" {
			fmt.Println(k.src)
		}
	}
}
