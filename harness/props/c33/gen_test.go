package c33

// Generator of NON-TERMINATING Elk programs.  Every form emitted here was run
// through the real interpreter first (see notes.C33.md); shapes whose semantics
// are not pinned down are not generated.

import (
	"fmt"
	"sort"
	"strings"

	"pgregory.net/rapid"

	"verif/internal/vgen"
)

const marker = "C33-START"

// scope = names of the mutable helper variables visible at a program point.
type scope struct {
	x, t, f string // Int counter (kept >= 0), a bool variable holding true, one holding false
}

type gen struct {
	t     *rapid.T
	defs  []string // method / class definitions (hoisted before the marker)
	n     int
	feats map[string]bool
	// expectation weakened to "stops" because the program itself may catch the abort error last
	catchAllOutermost bool
	pool              bool // uses async functions / promises
	threads           bool // starts `go` threads
	spinBudget        int  // number of additional spinning go-threads still allowed
	force             map[string]int // catalogue mode: forced choices per label
}

func (g *gen) name(p string) string { g.n++; return fmt.Sprintf("%s%d", p, g.n) }
func (g *gen) feat(f string)        { g.feats[f] = true }
func (g *gen) pick(n int, l string) int {
	if v, ok := g.force[l]; ok {
		delete(g.force, l)
		return v
	}
	return vgen.Pick(g.t, n, l)
}

func ind(lines []string) []string {
	out := make([]string, len(lines))
	for i, l := range lines {
		out[i] = "  " + l
	}
	return out
}

func block(head string, body []string, tail string) []string {
	out := []string{head}
	out = append(out, ind(body)...)
	return append(out, tail)
}

func cat(parts ...[]string) []string {
	var out []string
	for _, p := range parts {
		out = append(out, p...)
	}
	return out
}

// decls declares the helper variables of a fresh scope (method / thread / generator body).
func (g *gen) decls() (scope, []string) {
	s := scope{g.name("x"), g.name("t"), g.name("f")}
	return s, []string{
		"var " + s.x + " = 0",
		"var " + s.t + ": bool = true",
		"var " + s.f + ": bool = false",
	}
}

// ---------------------------------------------------------------- finite filler

// filler returns 0..3 finite statements that keep sc.x >= 0.  inLoop: a
// `continue` of the directly enclosing loop may be emitted.
func (g *gen) filler(sc scope, depth int, inLoop bool) []string {
	n := rapid.IntRange(0, 3).Draw(g.t, "nfill")
	var out []string
	for i := 0; i < n; i++ {
		out = append(out, g.fill1(sc, depth, inLoop)...)
	}
	return out
}

func (g *gen) fill1(sc scope, depth int, inLoop bool) []string {
	x := sc.x
	k := g.pick(12, "fill")
	if depth <= 0 && k >= 3 && k <= 7 {
		k = 0
	}
	switch k {
	case 0:
		return []string{x + " += 1"}
	case 1:
		return []string{x + " = (" + x + " + 3) % 1000"}
	case 2:
		return []string{"if " + x + " % 2 == 0 then " + x + " += 1 else " + x + " += 3"}
	case 3:
		g.feat("inner:fornum")
		k := g.name("k")
		return block(fmt.Sprintf("fornum %s := 0; %s < %d; %s += 1", k, k, rapid.IntRange(0, 4).Draw(g.t, "n"), k), cat([]string{x + " += " + k}, g.filler(sc, depth-1, false)), "end")
	case 4:
		g.feat("inner:forin")
		k := g.name("k")
		return block(fmt.Sprintf("for %s in 1...%d", k, rapid.IntRange(0, 4).Draw(g.t, "n")), cat([]string{x + " += " + k}, g.filler(sc, depth-1, false)), "end")
	case 5:
		g.feat("inner:while")
		k := g.name("k")
		return cat([]string{"var " + k + " = 0"}, block(fmt.Sprintf("while %s < %d", k, rapid.IntRange(0, 4).Draw(g.t, "n")), cat([]string{k + " += 1"}, g.filler(sc, depth-1, false)), "end"))
	case 6:
		g.feat("inner:docatch")
		switch g.pick(3, "dc") {
		case 0:
			return cat([]string{"do"}, ind(cat(g.filler(sc, depth-1, false), []string{"throw unchecked \"boom\""})), []string{"catch String() as s"}, ind([]string{x + " += 2"}), []string{"end"})
		case 1:
			return cat([]string{"do"}, ind(cat([]string{x + " += 1"}, g.filler(sc, depth-1, false))), []string{"finally"}, ind([]string{x + " += 2"}), []string{"end"})
		default:
			return cat([]string{"do"}, ind([]string{"throw unchecked :oops"}), []string{"catch :oops"}, ind([]string{x + " += 1"}), []string{"finally"}, ind([]string{x + " += 2"}), []string{"end"})
		}
	case 7:
		g.feat("inner:closure")
		c := g.name("c")
		return []string{c + " := |a: Int|: Int -> a + 1", x + " = " + c + ".(" + x + ")"}
	case 8, 9:
		if inLoop {
			g.feat("continue")
			if g.pick(2, "cont") == 0 {
				return []string{x + " += 1", "continue if " + x + " % 3 != 1"}
			}
			return []string{x + " += 1", "continue"}
		}
		return []string{x + " += 2"}
	case 10:
		g.feat("inner:times")
		return block("3.times |i| ->", []string{x + " += i"}, "end")
	default:
		return nil
	}
}

// ---------------------------------------------------------------- non-terminating statements

var spinKinds = []string{
	"loop", "while_true", "while_var", "while_cmp", "until_false", "until_var", "until_cmp",
	"do_while_true", "do_while_var", "do_until_false", "do_until_var",
	"mod_while_true", "mod_while_var", "mod_until_false", "mod_until_var",
	"fornum_empty", "fornum_true", "fornum_var", "fornum_cmp", "fornum_noincr", "fornum_nocond",
	"for_endless_lit", "for_endless_var", "for_endless_open", "mod_for_endless",
	"for_generator", "for_channel_fed",
	"tail_method", "tail_method_return", "tail_method_if", "tail_mutual", "tail_instance", "tail_module",
	"times_huge", "every_endless", "any_endless",
	// every iteration leaves the body through a `continue` that crosses a finally clause (the jump goes
	// through JUMP_TO_FINALLY and skips whatever stands at the end of the loop body)
	"loop_continue_finally", "while_continue_finally", "until_continue_finally", "for_continue_finally_labelled",
}

var parkKinds = []string{
	"pop_empty", "pop_method", "pop_next", "pop_readonly", "push_full", "push_unbuffered", "push_method", "push_writeonly",
	"for_channel_empty", "select_recv", "select_send", "select_mixed",
	"wg_wait", "sleep_long", "await_timeout", "await_sync_timeout", "await_async_fn", "await_async_chan",
	"mutex_relock", "aborter_closed_wait", "generator_spin",
}

var wrapKinds = []string{
	"closure_call", "method_call", "times_cb", "count_cb", "map_cb",
	"do_catch_typed", "do_finally", "do_catch_finally", "loop_catch_all", "finally_inf", "catch_all_top",
	"if_true", "finite_fornum", "finite_forin", "while_var_outer", "loop_outer", "go_helper", "labelled_outer",
}

// inf returns a statement sequence that never terminates on its own.
func (g *gen) inf(sc scope, depth int, outermost bool) []string {
	c := g.pick(10, "class")
	switch {
	case depth > 0 && c < 4:
		return g.wrap(sc, depth, outermost)
	case c < 7:
		return g.spin(sc, depth)
	default:
		return g.park(sc, depth)
	}
}

// loopBody: filler that may `continue`, with an optional nested non-terminating statement.
func (g *gen) loopBody(sc scope, depth int) []string {
	b := g.filler(sc, depth, true)
	if len(b) == 0 || g.pick(4, "bare") == 0 {
		b = append(b, sc.x+" += 1")
	}
	return b
}

func (g *gen) spin(sc scope, depth int) []string {
	kind := spinKinds[g.pick(len(spinKinds), "spin")]
	g.feat("spin:" + kind)
	x, t, f := sc.x, sc.t, sc.f
	body := func() []string { return g.loopBody(sc, depth-1) }
	simple := x + " += 1"
	contFin := func(label string) []string {
		c := "continue"
		if label != "" {
			c = "continue[" + label + "]"
		}
		return []string{"do", "  " + x + " += 1", "  " + c, "finally", "  " + x + " += 2", "end"}
	}
	switch kind {
	case "loop_continue_finally":
		return block("loop", contFin(""), "end")
	case "while_continue_finally":
		return block("while "+t, contFin(""), "end")
	case "until_continue_finally":
		return block("until "+x+" < 0", contFin(""), "end")
	case "for_continue_finally_labelled":
		i, j, l := g.name("i"), g.name("j"), g.name("outer")
		return block("$"+l+": for "+i+" in 1...", block("for "+j+" in 1...3", contFin(l), "end"), "end")
	case "loop":
		return block("loop", body(), "end")
	case "while_true":
		return block("while true", body(), "end")
	case "while_var":
		return block("while "+t, body(), "end")
	case "while_cmp":
		return block("while "+x+" >= 0", body(), "end")
	case "until_false":
		return block("until false", body(), "end")
	case "until_var":
		return block("until "+f, body(), "end")
	case "until_cmp":
		return block("until "+x+" < 0", body(), "end")
	case "do_while_true":
		return block("do", body(), "end while true")
	case "do_while_var":
		return block("do", body(), "end while "+t)
	case "do_until_false":
		return block("do", body(), "end until false")
	case "do_until_var":
		return block("do", body(), "end until "+f)
	case "mod_while_true":
		return []string{simple + " while true"}
	case "mod_while_var":
		return []string{simple + " while " + t}
	case "mod_until_false":
		return []string{simple + " until false"}
	case "mod_until_var":
		return []string{simple + " until " + f}
	case "fornum_empty":
		return block("fornum ;;", body(), "end")
	case "fornum_true":
		i := g.name("i")
		return block(fmt.Sprintf("fornum %s := 0; true; %s += 1", i, i), body(), "end")
	case "fornum_var":
		i := g.name("i")
		return block(fmt.Sprintf("fornum %s := 0; %s; %s += 1", i, t, i), body(), "end")
	case "fornum_cmp":
		i := g.name("i")
		return block(fmt.Sprintf("fornum %s := 0; %s >= 0; %s += 1", i, i, i), body(), "end")
	case "fornum_noincr":
		i := g.name("i")
		return block(fmt.Sprintf("fornum %s := 0; %s >= 0;", i, i), body(), "end")
	case "fornum_nocond":
		i := g.name("i")
		return block(fmt.Sprintf("fornum %s := 0;; %s += 1", i, i), body(), "end")
	case "for_endless_lit":
		i := g.name("i")
		return block("for "+i+" in 1...", body(), "end")
	case "for_endless_var":
		i, r := g.name("i"), g.name("r")
		return cat([]string{r + " := 2..."}, block("for "+i+" in "+r, body(), "end"))
	case "for_endless_open":
		i, r := g.name("i"), g.name("r")
		return cat([]string{r + " := 0<.."}, block("for "+i+" in "+r, body(), "end"))
	case "mod_for_endless":
		i := g.name("i")
		return []string{x + " += " + i + " % 2 for " + i + " in 1..."}
	case "for_generator":
		gn, v := g.name("gen"), g.name("v")
		g.defs = append(g.defs, cat(block("def *"+gn+": Int", []string{"var n = 0", "loop", "  yield n", "  n += 1", "end", "0"}, "end"))...)
		return block("for "+v+" in "+gn+"()", body(), "end")
	case "for_channel_fed":
		g.threads = true
		ch, v := g.name("ch"), g.name("v")
		cap := rapid.IntRange(0, 3).Draw(g.t, "cap")
		return cat(
			[]string{fmt.Sprintf("%s := Channel::[Int](%d)", ch, cap)},
			block("go", []string{"loop", "  " + ch + " << 1", "end"}, "end"),
			block("for "+v+" in "+ch, body(), "end"),
		)
	case "tail_method", "tail_method_return", "tail_method_if":
		m := g.name("spin")
		s2, d := g.decls()
		fb := g.filler(s2, depth-1, false)
		var call []string
		switch kind {
		case "tail_method":
			call = []string{m + "(n + 1)"}
		case "tail_method_return":
			call = []string{"return " + m + "(n + 1)"}
		default:
			call = []string{"if n % 2 == 0 then " + m + "(n + 1) else " + m + "(n + 3)"}
		}
		g.defs = append(g.defs, block("def "+m+"(n: Int): Int", cat(d, fb, call), "end")...)
		return []string{m + "(0)"}
	case "tail_mutual":
		a, b := g.name("ping"), g.name("pong")
		g.defs = append(g.defs, "def "+a+"(n: Int): Int then "+b+"(n + 1)", "def "+b+"(n: Int): Int then "+a+"(n + 2)")
		return []string{a + "(0)"}
	case "tail_instance":
		cl := g.name("Spinner")
		g.defs = append(g.defs, block("class "+cl, []string{"def spin(n: Int): Int then self.spin(n + 1)"}, "end")...)
		return []string{cl + "().spin(0)"}
	case "tail_module":
		m := g.name("SpinMod")
		g.defs = append(g.defs, block("module "+m, []string{"def spin(n: Int): Int then spin(n + 1)"}, "end")...)
		return []string{m + ".spin(0)"}
	case "every_endless":
		// native iteration (Iterable::Base) over an endless range iterator; only the closure can notice the abort
		return block("(1...).iter.every |i| ->", []string{x + " = i % 7", "true"}, "end")
	case "any_endless":
		return block("(3...).iter.any |i| ->", []string{x + " = i % 5", "false"}, "end")
	case "times_huge":
		return block("(10 ** 15).times |i| ->", []string{x + " = i % 7"}, "end")
	}
	panic("spin kind " + kind)
}

func (g *gen) park(sc scope, depth int) []string {
	kind := parkKinds[g.pick(len(parkKinds), "park")]
	g.feat("park:" + kind)
	x := sc.x
	ch := g.name("ch")
	capN := rapid.IntRange(0, 3).Draw(g.t, "cap")
	mk := fmt.Sprintf("%s := Channel::[Int](%d)", ch, capN)
	fill := func(c string, n int) []string {
		var out []string
		for i := 0; i < n; i++ {
			out = append(out, fmt.Sprintf("%s << %d", c, i))
		}
		return out
	}
	switch kind {
	case "pop_empty":
		return []string{mk, "<<" + ch}
	case "pop_method":
		return cat([]string{mk, "do", "  " + x + " = " + ch + ".pop", "catch Channel::ClosedError() as ce", "  " + x + " += 1", "end"})
	case "pop_next":
		return cat([]string{mk, "do", "  " + x + " = " + ch + ".next", "catch :stop_iteration", "  " + x + " += 1", "end"})
	case "pop_readonly":
		r := g.name("rc")
		return []string{mk, r + " := " + ch + ".readonly", "<<" + r}
	case "push_full":
		if capN == 0 {
			capN = 1
			mk = fmt.Sprintf("%s := Channel::[Int](%d)", ch, capN)
		}
		return cat([]string{mk}, fill(ch, capN), []string{ch + " << 99"})
	case "push_unbuffered":
		return []string{ch + " := Channel::[Int]()", ch + " << 99"}
	case "push_method":
		return cat([]string{mk}, fill(ch, capN), []string{"do", "  " + ch + ".push(99)", "catch Channel::ClosedError() as ce", "  " + x + " += 1", "end"})
	case "push_writeonly":
		w := g.name("wc")
		return cat([]string{mk}, fill(ch, capN), []string{w + " := " + ch + ".writeonly", w + " << 99"})
	case "for_channel_empty":
		v := g.name("v")
		return cat([]string{mk}, block("for "+v+" in "+ch, []string{x + " += " + v}, "end"))
	case "select_recv":
		ch2, v := g.name("ch"), g.name("v")
		return cat([]string{mk, ch2 + " := Channel::[Int]()"},
			[]string{"select", "case " + v + " := <<" + ch, "  " + x + " += 1", "case " + v + " := <<" + ch2, "  " + x + " += 2", "end"})
	case "select_send":
		return cat([]string{mk}, fill(ch, capN),
			[]string{"select", "case " + ch + " << 7", "  " + x + " += 1", "end"})
	case "select_mixed":
		ch2, v := g.name("ch"), g.name("v")
		return cat([]string{mk, ch2 + " := Channel::[Int]()"}, fill(ch, capN),
			[]string{"select", "case " + ch + " << 7", "  " + x + " += 1", "case " + v + " := <<" + ch2, "  " + x + " += 2", "end"})
	case "wg_wait":
		w := g.name("wg")
		return []string{w + " := Std::Sync::WaitGroup(1)", w + ".wait"}
	case "sleep_long":
		return []string{[]string{"sleep 1.hours", "sleep 100.seconds", "sleep 90000.milliseconds"}[g.pick(3, "sl")]}
	case "await_timeout":
		g.pool = true
		return []string{"await timeout(1.hours)"}
	case "await_sync_timeout":
		g.pool = true
		p := g.name("p")
		return []string{p + " := timeout(1.hours)", p + ".await_sync"}
	case "await_async_fn":
		g.pool = true
		a := g.name("waiter")
		g.defs = append(g.defs, block("async def "+a+": Int", []string{"await timeout(1.hours)", "1"}, "end")...)
		return []string{x + " = await " + a + "()"}
	case "await_async_chan":
		g.pool = true
		a := g.name("popper")
		g.defs = append(g.defs, block("async def "+a+"(c: Channel[Int]): Int", []string{"<<c", "1"}, "end")...)
		return []string{mk, x + " = await " + a + "(" + ch + ")"}
	case "mutex_relock":
		m := g.name("m")
		return []string{m + " := Std::Sync::Mutex()", m + ".lock", m + ".lock"}
	case "aborter_closed_wait":
		a := g.name("ab")
		return []string{a + " := Aborter()", "<<" + a + ".closed"}
	case "generator_spin":
		gn, it := g.name("gen"), g.name("it")
		g.defs = append(g.defs, block("def *"+gn+": Int", []string{"var n = 0", "loop", "  n += 1", "end", "0"}, "end")...)
		return []string{it + " := " + gn + "()", "do", "  " + x + " = " + it + ".next", "catch :stop_iteration", "  " + x + " += 1", "end"}
	}
	panic("park kind " + kind)
}

func (g *gen) wrap(sc scope, depth int, outermost bool) []string {
	kind := wrapKinds[g.pick(len(wrapKinds), "wrap")]
	x, t := sc.x, sc.t
	if kind == "catch_all_top" && !outermost {
		kind = "loop_catch_all"
	}
	if kind == "go_helper" && g.spinBudget <= 0 {
		kind = "loop_outer"
	}
	g.feat("wrap:" + kind)
	pre := g.filler(sc, depth-1, false)
	switch kind {
	case "closure_call":
		c := g.name("fn")
		return cat(pre, block(c+" := || ->", g.inf(sc, depth-1, false), "end"), []string{c + ".()"})
	case "method_call":
		m := g.name("runner")
		s2, d := g.decls()
		g.defs = append(g.defs, block("def "+m, cat(d, g.inf(s2, depth-1, false)), "end")...)
		return cat(pre, []string{m + "()"})
	case "times_cb":
		return cat(pre, block("3.times |i| ->", g.inf(sc, depth-1, false), "end"))
	case "count_cb":
		return cat(pre, block("[1, 2, 3].count |e| ->", cat(g.inf(sc, depth-1, false), []string{"true"}), "end"))
	case "map_cb":
		return cat(pre, block("[1, 2, 3].map |e| ->", cat(g.inf(sc, depth-1, false), []string{"e"}), "end"))
	case "do_catch_typed":
		return cat(pre, []string{"do"}, ind(g.inf(sc, depth-1, false)), []string{"catch String() as s"}, ind([]string{x + " += 1"}), []string{"end"})
	case "do_finally":
		return cat(pre, []string{"do"}, ind(g.inf(sc, depth-1, false)), []string{"finally"}, ind([]string{x + " += 1"}), []string{"end"})
	case "do_catch_finally":
		return cat(pre, []string{"do"}, ind(g.inf(sc, depth-1, false)), []string{"catch :nope"}, ind([]string{x + " += 1"}), []string{"finally"}, ind([]string{x + " += 2"}), []string{"end"})
	case "loop_catch_all":
		// the catch-all swallows the abort error, the enclosing loop must notice the cancellation itself
		e := g.name("e")
		return cat(pre, block("loop", cat([]string{"do"}, ind(g.inf(sc, depth-1, false)), []string{"catch " + e}, ind([]string{x + " += 1"}), []string{"end"}), "end"))
	case "finally_inf":
		// the finally clause runs while the abort error propagates and does not terminate itself
		return cat(pre, []string{"do"}, ind(g.inf(sc, depth-1, false)), []string{"finally"}, ind(g.spin(sc, 0)), []string{"end"})
	case "catch_all_top":
		g.catchAllOutermost = true
		e := g.name("e")
		return cat(pre, []string{"do"}, ind(g.inf(sc, depth-1, false)), []string{"catch " + e}, ind([]string{x + " += 1"}), []string{"end"})
	case "if_true":
		return cat(pre, block("if "+t, g.inf(sc, depth-1, false), "end"))
	case "finite_fornum":
		k := g.name("k")
		return cat(pre, block(fmt.Sprintf("fornum %s := 0; %s < 3; %s += 1", k, k, k), g.inf(sc, depth-1, false), "end"))
	case "finite_forin":
		k := g.name("k")
		return cat(pre, block("for "+k+" in 1...3", g.inf(sc, depth-1, false), "end"))
	case "while_var_outer":
		return cat(pre, block("while "+t, cat(g.filler(sc, depth-1, true), g.inf(sc, depth-1, false)), "end"))
	case "loop_outer":
		return cat(pre, block("loop", cat(g.filler(sc, depth-1, true), g.inf(sc, depth-1, false)), "end"))
	case "labelled_outer":
		l := g.name("outer")
		return cat(pre, block("$"+l+": loop", []string{"loop", "  " + x + " += 1", "  continue[" + l + "] if " + x + " % 5 == 0", "end"}, "end"))
	case "go_helper":
		// helper threads that never terminate either; they must stop with the main thread
		g.threads = true
		g.spinBudget--
		s2, d := g.decls()
		var helper []string
		if g.pick(2, "helper") == 0 {
			helper = g.spin(s2, 0)
		} else {
			helper = g.park(s2, 0)
		}
		return cat(pre, block("go", cat(d, helper), "end"), g.inf(sc, depth-1, false))
	}
	panic("wrap kind " + kind)
}

// Program draws a complete non-terminating program.
func genProgram(t *rapid.T) (src string, feats []string, catchAll, pool, threads bool) {
	g := &gen{t: t, feats: map[string]bool{}, spinBudget: 2}
	depth := rapid.IntRange(0, 3).Draw(t, "depth")
	sc, d := g.decls()
	body := g.inf(sc, depth, true)
	var b strings.Builder
	for _, l := range g.defs {
		b.WriteString(l + "\n")
	}
	for _, l := range d {
		b.WriteString(l + "\n")
	}
	b.WriteString("println \"" + marker + "\"\n")
	for _, l := range body {
		b.WriteString(l + "\n")
	}
	for f := range g.feats {
		feats = append(feats, f)
	}
	sort.Strings(feats)
	return b.String(), feats, g.catchAllOutermost, g.pool, g.threads
}

type catEntry struct {
	name, src                string
	pool, threads, catchAll bool
}

// catalogue renders every spin / park kind bare and every wrapper around a plain loop and a channel pop.
func catalogue() (out []catEntry) {
	mk := func(name string, force map[string]int, depth int) {
		c := rapid.Custom(func(t *rapid.T) catEntry {
			_ = rapid.IntRange(0, 1).Draw(t, "dummy")
			f2 := map[string]int{}
			for k, v := range force {
				f2[k] = v
			}
			g := &gen{t: t, feats: map[string]bool{}, spinBudget: 2, force: f2}
			sc, d := g.decls()
			body := g.inf(sc, depth, true)
			lines := cat(g.defs, d, []string{"println \"" + marker + "\""}, body)
			return catEntry{name, strings.Join(lines, "\n") + "\n", g.pool, g.threads, g.catchAllOutermost}
		})
		out = append(out, c.Example(1))
	}
	for i, k := range spinKinds {
		mk("spin:"+k, map[string]int{"class": 5, "spin": i}, 1)
	}
	for i, k := range parkKinds {
		mk("park:"+k, map[string]int{"class": 9, "park": i}, 1)
	}
	for i, k := range wrapKinds {
		mk("wrap:"+k, map[string]int{"class": 0, "wrap": i}, 1)
	}
	return
}
