package c06

import (
	"fmt"
	"math/big"
	"testing"

	"github.com/elk-language/elk/value"
	"pgregory.net/rapid"

	"verif/internal/pbt"
	"verif/internal/vgen"
)

func TestMain(m *testing.M) {
	value.InitGlobalEnvironment()
	pbt.Main(m, "C06")
}

type Case struct {
	Op string `json:"op"`
	A  string `json:"a"`
	B  string `json:"b"`
}

type model struct {
	n       *big.Int // numeric result
	isBool  bool
	b       bool
	zeroDiv bool
}

type path struct {
	name string
	f    func(l, r value.Value) (value.Value, value.Value)
}

func noErr(f func(l, r value.Value) value.Value) func(l, r value.Value) (value.Value, value.Value) {
	return func(l, r value.Value) (value.Value, value.Value) { return f(l, r), value.Undefined }
}
func boolRes(f func(l, r value.Value) bool) func(l, r value.Value) (value.Value, value.Value) {
	return func(l, r value.Value) (value.Value, value.Value) { return value.BoolVal(f(l, r)), value.Undefined }
}
func boolErr(f func(l, r value.Value) (bool, value.Value)) func(l, r value.Value) (value.Value, value.Value) {
	return func(l, r value.Value) (value.Value, value.Value) {
		b, e := f(l, r)
		return value.BoolVal(b), e
	}
}
func valRes(f func(l, r value.Value) value.Value) func(l, r value.Value) (value.Value, value.Value) {
	return noErr(f)
}

type op struct {
	name   string
	binary bool
	model  func(a, b *big.Int) model
	paths  []path
	bOK    func(b *big.Int) bool // restriction on the right operand (shift counts, exponents)
}

func shl(a *big.Int, n int64) *big.Int {
	if n >= 0 {
		return new(big.Int).Lsh(a, uint(n))
	}
	return new(big.Int).Rsh(a, uint(-n)) // big.Int.Rsh is an arithmetic shift (floor)
}

func cmpModel(pred func(c int) bool) func(a, b *big.Int) model {
	return func(a, b *big.Int) model { return model{isBool: true, b: pred(a.Cmp(b))} }
}

var smallCount = func(b *big.Int) bool { return b.IsInt64() && b.Int64() >= -200 && b.Int64() <= 200 }

var ops = []op{
	{"+", true, func(a, b *big.Int) model { return model{n: new(big.Int).Add(a, b)} },
		[]path{{"AddVal", value.AddVal}, {"AddInt", value.AddInt}, {"AddInts", noErr(value.AddInts)}}, nil},
	{"-", true, func(a, b *big.Int) model { return model{n: new(big.Int).Sub(a, b)} },
		[]path{{"SubtractVal", value.SubtractVal}, {"SubtractInt", value.SubtractInt}, {"SubtractInts", noErr(value.SubtractInts)}}, nil},
	{"*", true, func(a, b *big.Int) model { return model{n: new(big.Int).Mul(a, b)} },
		[]path{{"MultiplyVal", value.MultiplyVal}, {"MultiplyInt", value.MultiplyInt}, {"MultiplyInts", noErr(value.MultiplyInts)}}, nil},
	{"/", true, func(a, b *big.Int) model {
		if b.Sign() == 0 {
			return model{zeroDiv: true}
		}
		return model{n: new(big.Int).Quo(a, b)}
	}, []path{{"DivideVal", value.DivideVal}, {"DivideInt", value.DivideInt}, {"DivideInts", value.DivideInts}}, nil},
	{"%", true, func(a, b *big.Int) model {
		if b.Sign() == 0 {
			return model{zeroDiv: true}
		}
		return model{n: new(big.Int).Rem(a, b)}
	}, []path{{"ModuloVal", value.ModuloVal}, {"ModuloInt", value.ModuloInt}, {"ModuloInts", value.ModuloInts}}, nil},
	{"**", true, func(a, b *big.Int) model { return model{n: new(big.Int).Exp(a, b, nil)} },
		[]path{{"ExponentiateVal", value.ExponentiateVal}, {"ExponentiateInt", value.ExponentiateInt}, {"ExponentiateInts", noErr(value.ExponentiateInts)}},
		func(b *big.Int) bool { return b.IsInt64() && b.Int64() >= 0 && b.Int64() <= 70 }},
	{"<<", true, func(a, b *big.Int) model { return model{n: shl(a, b.Int64())} },
		[]path{{"LeftBitshiftVal", value.LeftBitshiftVal}, {"LeftBitshiftInt", value.LeftBitshiftInt}, {"LeftBitshiftInts", noErr(value.LeftBitshiftInts)}}, smallCount},
	{">>", true, func(a, b *big.Int) model { return model{n: shl(a, -b.Int64())} },
		[]path{{"RightBitshiftVal", value.RightBitshiftVal}, {"RightBitshiftInt", value.RightBitshiftInt}, {"RightBitshiftInts", noErr(value.RightBitshiftInts)}}, smallCount},
	{"&", true, func(a, b *big.Int) model { return model{n: new(big.Int).And(a, b)} },
		[]path{{"BitwiseAndVal", value.BitwiseAndVal}, {"BitwiseAndInt", value.BitwiseAndInt}, {"BitwiseAndInts", noErr(value.BitwiseAndInts)}}, nil},
	{"|", true, func(a, b *big.Int) model { return model{n: new(big.Int).Or(a, b)} },
		[]path{{"BitwiseOrVal", value.BitwiseOrVal}, {"BitwiseOrInt", value.BitwiseOrInt}, {"BitwiseOrInts", noErr(value.BitwiseOrInts)}}, nil},
	{"^", true, func(a, b *big.Int) model { return model{n: new(big.Int).Xor(a, b)} },
		[]path{{"BitwiseXorVal", value.BitwiseXorVal}, {"BitwiseXorInts", noErr(value.BitwiseXorInts)}}, nil},
	{"&~", true, func(a, b *big.Int) model { return model{n: new(big.Int).AndNot(a, b)} },
		[]path{{"BitwiseAndNotVal", value.BitwiseAndNotVal}, {"BitwiseAndNotInt", value.BitwiseAndNotInt}, {"BitwiseAndNotInts", noErr(value.BitwiseAndNotInts)}}, nil},
	{"<=>", true, func(a, b *big.Int) model { return model{n: big.NewInt(int64(a.Cmp(b)))} },
		[]path{{"CompareVal", value.CompareVal}, {"CompareInt", value.CompareInt}, {"CompareInts", func(l, r value.Value) (value.Value, value.Value) {
			return value.CompareInts(l, r).ToValue(), value.Undefined
		}}}, nil},
	{"<", true, cmpModel(func(c int) bool { return c < 0 }),
		[]path{{"LessThanVal", value.LessThanVal}, {"LessThan", boolErr(value.LessThan)}, {"LessThanInt", value.LessThanInt}, {"LessThanInts", boolRes(value.LessThanInts)}}, nil},
	{"<=", true, cmpModel(func(c int) bool { return c <= 0 }),
		[]path{{"LessThanEqualVal", value.LessThanEqualVal}, {"LessThanEqual", boolErr(value.LessThanEqual)}, {"LessThanEqualInt", value.LessThanEqualInt}, {"LessThanEqualInts", boolRes(value.LessThanEqualInts)}}, nil},
	{">", true, cmpModel(func(c int) bool { return c > 0 }),
		[]path{{"GreaterThanVal", value.GreaterThanVal}, {"GreaterThan", boolErr(value.GreaterThan)}, {"GreaterThanInt", value.GreaterThanInt}, {"GreaterThanInts", boolRes(value.GreaterThanInts)}}, nil},
	{">=", true, cmpModel(func(c int) bool { return c >= 0 }),
		[]path{{"GreaterThanEqualVal", value.GreaterThanEqualVal}, {"GreaterThanEqual", boolErr(value.GreaterThanEqual)}, {"GreaterThanEqualInt", value.GreaterThanEqualInt}, {"GreaterThanEqualInts", boolRes(value.GreaterThanEqualInts)}}, nil},
	{"==", true, cmpModel(func(c int) bool { return c == 0 }),
		[]path{{"EqualVal", valRes(value.EqualVal)}, {"Equal", boolRes(value.Equal)}, {"EqualInt", boolRes(value.EqualInt)}, {"EqualInts", boolRes(value.EqualInts)},
			{"LaxEqualVal", valRes(value.LaxEqualVal)}, {"StrictEqual", boolRes(value.StrictEqual)}}, nil},
	{"neg", false, func(a, _ *big.Int) model { return model{n: new(big.Int).Neg(a)} },
		[]path{{"NegateVal", func(l, _ value.Value) (value.Value, value.Value) { return value.NegateVal(l), value.Undefined }},
			{"NegateInt", func(l, _ value.Value) (value.Value, value.Value) { return value.NegateInt(l), value.Undefined }}}, nil},
	{"~", false, func(a, _ *big.Int) model { return model{n: new(big.Int).Not(a)} },
		[]path{{"BitwiseNotVal", func(l, _ value.Value) (value.Value, value.Value) { return value.BitwiseNotVal(l), value.Undefined }}}, nil},
	{"++", false, func(a, _ *big.Int) model { return model{n: new(big.Int).Add(a, big.NewInt(1))} },
		[]path{{"IncrementVal", func(l, _ value.Value) (value.Value, value.Value) { return value.IncrementVal(l), value.Undefined }},
			{"IncrementInt", func(l, _ value.Value) (value.Value, value.Value) { return value.IncrementInt(l), value.Undefined }}}, nil},
	{"--", false, func(a, _ *big.Int) model { return model{n: new(big.Int).Sub(a, big.NewInt(1))} },
		[]path{{"DecrementVal", func(l, _ value.Value) (value.Value, value.Value) { return value.DecrementVal(l), value.Undefined }},
			{"DecrementInt", func(l, _ value.Value) (value.Value, value.Value) { return value.DecrementInt(l), value.Undefined }}}, nil},
}

var opByName = func() map[string]*op {
	m := map[string]*op{}
	for i := range ops {
		m[ops[i].name] = &ops[i]
	}
	return m
}()

func parse(s string) *big.Int {
	b, ok := new(big.Int).SetString(s, 10)
	if !ok {
		panic("bad int " + s)
	}
	return b
}

func gen(t *rapid.T) Case {
	o := ops[rapid.IntRange(0, len(ops)-1).Draw(t, "op")]
	a := vgen.BigInt(t, "a")
	var b *big.Int
	switch {
	case o.name == "**":
		b = big.NewInt(int64(rapid.IntRange(0, 70).Draw(t, "exp")))
		if a.BitLen() > 70 && b.Int64() > 12 { // keep results below ~1000 bits
			b = big.NewInt(b.Int64() % 13)
		}
	case o.bOK != nil:
		b = big.NewInt(int64(rapid.IntRange(-200, 200).Draw(t, "count")))
		if rapid.IntRange(0, 3).Draw(t, "cb") == 0 {
			b = big.NewInt(int64(rapid.SampledFrom([]int{0, 1, -1, 62, 63, 64, 65, -63, -64, -65, 127, 128}).Draw(t, "cnt")))
		}
	case rapid.IntRange(0, 5).Draw(t, "same") == 0:
		b = new(big.Int).Set(a) // equal operands: ==, <=>, a-a, a/a
	case rapid.IntRange(0, 7).Draw(t, "neg") == 0:
		b = new(big.Int).Neg(a)
	default:
		b = vgen.BigInt(t, "b")
	}
	return Case{o.name, a.String(), b.String()}
}

func oracle(c Case, ctx *pbt.Ctx) error {
	o := opByName[c.Op]
	if o == nil {
		return fmt.Errorf("unknown op %q", c.Op)
	}
	a, b := parse(c.A), parse(c.B)
	if o.bOK != nil && !o.bOK(b) {
		return nil
	}
	m := o.model(a, b)
	l, r := vgen.ElkInt(a), vgen.ElkInt(b)
	for _, p := range o.paths {
		res, err := p.f(l, r)
		if err := compare(c, p.name, m, res, err); err != nil {
			return err
		}
	}
	// a == (a / b) * b + a % b through the implementation itself
	if c.Op == "/" && !m.zeroDiv {
		q, e1 := value.DivideVal(l, r)
		rem, e2 := value.ModuloVal(l, r)
		if e1.IsUndefined() && e2.IsUndefined() {
			pr, e3 := value.MultiplyVal(q, r)
			sum, e4 := value.AddVal(pr, rem)
			if !e3.IsUndefined() || !e4.IsUndefined() || !value.Equal(sum, l) {
				return fmt.Errorf("(%s / %s) * %s + %s %% %s = %s, want %s", c.A, c.B, c.B, c.A, c.B, sum.Inspect(), c.A)
			}
		}
	}
	ctx.Label("op:" + c.Op)
	big1, big2 := !a.IsInt64(), !b.IsInt64()
	resBig := m.n != nil && !m.n.IsInt64()
	if big1 != big2 {
		ctx.Label("mixed_representation")
	}
	if (big1 || big2) && m.n != nil && !resBig {
		ctx.Label("big_operands_small_result")
	}
	if big1 || big2 || resBig {
		ctx.NonTrivial(c.Op + " " + c.A + " " + c.B)
	}
	return nil
}

func compare(c Case, path string, m model, res, err value.Value) error {
	where := fmt.Sprintf("%s: %s %s %s", path, c.A, c.Op, c.B)
	if m.zeroDiv {
		if err.IsUndefined() {
			return fmt.Errorf("%s = %s, want ZeroDivisionError", where, res.Inspect())
		}
		if err.Class() != value.ZeroDivisionErrorClass {
			return fmt.Errorf("%s raised %s, want ZeroDivisionError", where, err.Inspect())
		}
		return nil
	}
	if !err.IsUndefined() {
		return fmt.Errorf("%s raised %s", where, err.Inspect())
	}
	if res.IsUndefined() {
		return fmt.Errorf("%s: no builtin result (undefined)", where)
	}
	if m.isBool {
		if !res.IsBool() && !res.IsTrue() && !res.IsFalse() {
			return fmt.Errorf("%s = %s, want a Bool", where, res.Inspect())
		}
		if value.Truthy(res) != m.b {
			return fmt.Errorf("%s = %s, want %v", where, res.Inspect(), m.b)
		}
		return nil
	}
	got, norm, ok := vgen.FromElkInt(res)
	if !ok {
		return fmt.Errorf("%s = %s (%s), want Int %s", where, res.Inspect(), res.Class().Name, m.n)
	}
	if got.Cmp(m.n) != 0 {
		return fmt.Errorf("%s = %s, want %s", where, got, m.n)
	}
	if !norm {
		return fmt.Errorf("%s = %s is held in a big integer although it fits a machine word (not normalised)", where, got)
	}
	canon := vgen.ElkInt(m.n)
	if res.Inspect() != m.n.String() {
		return fmt.Errorf("%s: inspect %q, want %q", where, res.Inspect(), m.n.String())
	}
	h1, e1 := value.Hash(res)
	h2, e2 := value.Hash(canon)
	if !e1.IsUndefined() || !e2.IsUndefined() || h1 != h2 {
		return fmt.Errorf("%s: hash of result %d differs from hash of literal %d", where, h1, h2)
	}
	if !value.Equal(res, canon) || !value.Equal(canon, res) {
		return fmt.Errorf("%s: result %s is not == to the literal %s", where, res.Inspect(), canon.Inspect())
	}
	return nil
}

func TestIntOps(t *testing.T) {
	pbt.Rule("int_ops", "(op, a, b) with boundary-biased integers on both sides of +-2^63 (2^k+-d, products, 1-4 random limbs, equal and negated operands); every Go-level path (XVal generic, XInt typed-opcode helper, XInts Go-backend helper) must equal math/big (Quo/Rem truncation, ZeroDivisionError on 0), results must be normalised (SmallInt iff fits) with inspect/hash/== equal to the literal; a==(a/b)*b+a%b checked through the implementation; non-trivial = an operand or the result outside int64; distinct by (op,a,b)")
	pbt.Run(t, pbt.Prop[Case]{Name: "int_ops", Quick: 400000, Thorough: 16000000, Gen: gen, Oracle: oracle})
}
