// Package c17: hash maps, hash records and hash sets behave as finite maps and
// sets (property C17).
//
// A case is a whole operation history drawn as data: an implementation under
// test (HashMapOfValue, HashRecordOfValue, HashSetOfValue and the typed native
// variants the compiler produces for static literals), a small initial
// capacity, a small universe of keys and values, initial entries and up to 40
// operations.  The oracle applies the history to the implementation (through
// the Elk-visible native methods where one exists, through the vm Go API
// otherwise) and to an association-list model, and compares after every step.
package c17

import (
	"encoding/hex"
	"fmt"
	"math"
	"math/big"
	"strconv"
	"strings"
	"testing"

	"github.com/elk-language/elk"
	"github.com/elk-language/elk/env"
	"github.com/elk-language/elk/value"
	"github.com/elk-language/elk/value/symbol"
	"github.com/elk-language/elk/vm"
	"pgregory.net/rapid"

	"verif/internal/pbt"
	"verif/internal/vgen"
)

var th *vm.Thread

func TestMain(m *testing.M) {
	if env.ELKPATH == "" {
		env.ELKPATH = "/repo"
	}
	elk.InitGlobalEnvironment()
	th = vm.New()
	pbt.Main(m, "C17")
}

// ---------------------------------------------------------------------------
// implementations under test

type implInfo struct {
	name    string
	fam     string // map | record | set
	kk, vk  string // key kind / value kind: "any" or one scalar kind
	ofValue bool   // open-addressing implementation (capacity, tombstones)
	newRec  func(capacity int) vm.HashRecord
	newSet  func(capacity int) vm.HashSet
}

var impls = []implInfo{
	{name: "map", fam: "map", kk: "any", vk: "any", ofValue: true, newRec: func(c int) vm.HashRecord { return vm.NewHashMapOfValue(c) }},
	{name: "nmap:str:str", fam: "map", kk: "str", vk: "str", newRec: func(c int) vm.HashRecord { return vm.NewNativeHashMap[value.String, value.String](c) }},
	{name: "nmap:sym:i64", fam: "map", kk: "sym", vk: "i64", newRec: func(c int) vm.HashRecord { return vm.NewNativeHashMap[value.Symbol, value.Int64](c) }},
	{name: "nmap:float:char", fam: "map", kk: "float", vk: "char", newRec: func(c int) vm.HashRecord { return vm.NewNativeHashMap[value.Float, value.Char](c) }},
	{name: "nmap:char:bool", fam: "map", kk: "char", vk: "bool", newRec: func(c int) vm.HashRecord { return vm.NewNativeHashMap[value.Char, value.Bool](c) }},
	{name: "nmap:str:float", fam: "map", kk: "str", vk: "float", newRec: func(c int) vm.HashRecord { return vm.NewNativeHashMap[value.String, value.Float](c) }},
	{name: "nkmap:str", fam: "map", kk: "str", vk: "any", newRec: func(c int) vm.HashRecord { return vm.NewNativeKeyHashMap[value.String](c) }},
	{name: "nkmap:i64", fam: "map", kk: "i64", vk: "any", newRec: func(c int) vm.HashRecord { return vm.NewNativeKeyHashMap[value.Int64](c) }},
	{name: "nkmap:u8", fam: "map", kk: "u8", vk: "any", newRec: func(c int) vm.HashRecord { return vm.NewNativeKeyHashMap[value.UInt8](c) }},
	{name: "nkmap:sym", fam: "map", kk: "sym", vk: "any", newRec: func(c int) vm.HashRecord { return vm.NewNativeKeyHashMap[value.Symbol](c) }},

	{name: "record", fam: "record", kk: "any", vk: "any", ofValue: true, newRec: func(c int) vm.HashRecord { return vm.NewHashRecordOfValue(c) }},
	{name: "nrec:str:str", fam: "record", kk: "str", vk: "str", newRec: func(c int) vm.HashRecord { return vm.MakeNativeHashRecord[value.String, value.String](c) }},
	{name: "nrec:sym:float", fam: "record", kk: "sym", vk: "float", newRec: func(c int) vm.HashRecord { return vm.MakeNativeHashRecord[value.Symbol, value.Float](c) }},
	{name: "nrec:char:i64", fam: "record", kk: "char", vk: "i64", newRec: func(c int) vm.HashRecord { return vm.MakeNativeHashRecord[value.Char, value.Int64](c) }},
	{name: "nkrec:str", fam: "record", kk: "str", vk: "any", newRec: func(c int) vm.HashRecord { return vm.MakeNativeKeyHashRecord[value.String](c) }},
	{name: "nkrec:char", fam: "record", kk: "char", vk: "any", newRec: func(c int) vm.HashRecord { return vm.MakeNativeKeyHashRecord[value.Char](c) }},
	{name: "nkrec:float", fam: "record", kk: "float", vk: "any", newRec: func(c int) vm.HashRecord { return vm.MakeNativeKeyHashRecord[value.Float](c) }},

	{name: "set", fam: "set", kk: "any", ofValue: true, newSet: func(c int) vm.HashSet { return vm.NewHashSetOfValue(c) }},
	{name: "nset:str", fam: "set", kk: "str", newSet: func(c int) vm.HashSet { return vm.NewNativeHashSet[value.String](c) }},
	{name: "nset:sym", fam: "set", kk: "sym", newSet: func(c int) vm.HashSet { return vm.NewNativeHashSet[value.Symbol](c) }},
	{name: "nset:float", fam: "set", kk: "float", newSet: func(c int) vm.HashSet { return vm.NewNativeHashSet[value.Float](c) }},
	{name: "nset:char", fam: "set", kk: "char", newSet: func(c int) vm.HashSet { return vm.NewNativeHashSet[value.Char](c) }},
	{name: "nset:i64", fam: "set", kk: "i64", newSet: func(c int) vm.HashSet { return vm.NewNativeHashSet[value.Int64](c) }},
	{name: "nset:u8", fam: "set", kk: "u8", newSet: func(c int) vm.HashSet { return vm.NewNativeHashSet[value.UInt8](c) }},
}

func implByName(n string) (implInfo, bool) {
	for _, i := range impls {
		if i.name == n {
			return i, true
		}
	}
	return implInfo{}, false
}

// compatible implementations able to hold keys of kind kk and values of kind vk
func compatible(fams []string, kk, vk string) []string {
	var out []string
	for _, i := range impls {
		okFam := false
		for _, f := range fams {
			if i.fam == f {
				okFam = true
			}
		}
		if !okFam {
			continue
		}
		if i.kk != "any" && i.kk != kk {
			continue
		}
		if i.fam != "set" && i.vk != "any" && i.vk != vk {
			continue
		}
		out = append(out, i.name)
	}
	return out
}

// ---------------------------------------------------------------------------
// case

type Entry struct {
	K int `json:"k"`
	V int `json:"v"`
}

type Op struct {
	Op    string  `json:"op"`
	K     int     `json:"k,omitempty"`
	V     int     `json:"v,omitempty"`
	Ks    []int   `json:"ks,omitempty"`    // append
	Other []Entry `json:"other,omitempty"` // operand of + | & == =~
	OImpl string  `json:"oimpl,omitempty"`
	OCap  int     `json:"ocap,omitempty"`
	Adopt bool    `json:"adopt,omitempty"` // continue the history on the result
	N     int     `json:"n,omitempty"`     // grow slots / clone capacity
}

type Case struct {
	Impl    string       `json:"impl"`
	KeyKind string       `json:"kk"`
	ValKind string       `json:"vk"`
	Cap     int          `json:"cap"`
	Keys    []vgen.VSpec `json:"keys"`
	Vals    []vgen.VSpec `json:"vals"`
	Init    []Entry      `json:"init"`
	Ops     []Op         `json:"ops"`
}

// ---------------------------------------------------------------------------
// generators

var (
	strKeys   = []string{"", "a", "b", "ab", "ba", "foo", "bar", "é", "é", "日本", "\xff", "\x00", " ", "1", "a\x00"}
	symKeys   = []string{"a", "b", "foo", "bar", "A", "", "foo bar", "é", "1", "+"}
	charKeys  = []rune{'a', 'b', 'A', 'é', '日', '\n', 0, 0x80, 0xff, 0x1F600, '1', ' '}
	floatKeys = []float64{0, math.Copysign(0, -1), 1, -1, 0.5, 1.5, 2, 3, 4, 5, 1e300, -1e300, math.Inf(1), math.Inf(-1), 9007199254740992, 0.1, math.SmallestNonzeroFloat64}
)

func fbits(k string, f float64) vgen.VSpec {
	return vgen.VSpec{K: k, S: strconv.FormatUint(math.Float64bits(f), 16)}
}

func smallNum(t *rapid.T, label string) int { return rapid.IntRange(0, 6).Draw(t, label) }

// genScalar draws one NaN-free scalar of the given kind ("any" = mixed kinds,
// with the numeric kinds biased to the same small numbers so that different
// kinds of the same number meet in one table).
func genScalar(t *rapid.T, kind, label string) vgen.VSpec {
	switch kind {
	case "str":
		if rapid.IntRange(0, 5).Draw(t, label+"_raw") == 0 {
			return vgen.VSpec{K: "str", B: vgen.Str(t, label)}
		}
		return vgen.VSpec{K: "str", B: []byte(rapid.SampledFrom(strKeys).Draw(t, label+"_s"))}
	case "sym":
		return vgen.VSpec{K: "sym", S: rapid.SampledFrom(symKeys).Draw(t, label+"_sym")}
	case "char":
		return vgen.VSpec{K: "char", S: strconv.Itoa(int(rapid.SampledFrom(charKeys).Draw(t, label+"_c")))}
	case "float", "f64":
		var f float64
		switch rapid.IntRange(0, 3).Draw(t, label+"_fk") {
		case 0:
			f = float64(smallNum(t, label+"_fn"))
		case 1:
			f = vgen.Float64(t, label)
			if math.IsNaN(f) {
				f = 7
			}
		default:
			f = rapid.SampledFrom(floatKeys).Draw(t, label+"_f")
		}
		return fbits(kind, f)
	case "int":
		if rapid.IntRange(0, 3).Draw(t, label+"_ik") == 0 {
			return vgen.VSpec{K: "int", S: vgen.BigInt(t, label).String()}
		}
		return vgen.VSpec{K: "int", S: strconv.Itoa(rapid.IntRange(-3, 12).Draw(t, label+"_i"))}
	case "i64", "i32", "i8", "u8", "u64":
		if rapid.IntRange(0, 2).Draw(t, label+"_xk") == 0 {
			return vgen.VSpec{K: kind, S: vgen.FixedInt(t, kind, label).String()}
		}
		return vgen.VSpec{K: kind, S: strconv.Itoa(smallNum(t, label+"_x"))}
	case "bool":
		return vgen.VSpec{K: "bool", S: strconv.FormatBool(rapid.Bool().Draw(t, label+"_b"))}
	case "nil":
		return vgen.VSpec{K: "nil"}
	}
	kinds := []string{"int", "int", "float", "str", "str", "sym", "char", "bool", "nil", "i64", "u8", "f64", "i32", "i8", "u64", "int"}
	return genScalar(t, kinds[vgen.Pick(t, len(kinds), label+"_kind")], label)
}

var keyKinds = []string{"str", "sym", "char", "float", "i64", "u8"}
var valKinds = []string{"str", "i64", "char", "bool", "float"}

func genEntries(t *rapid.T, label string, max int) []Entry {
	n := rapid.IntRange(0, max).Draw(t, label+"_n")
	out := make([]Entry, 0, n)
	for i := 0; i < n; i++ {
		out = append(out, Entry{K: rapid.IntRange(0, 15).Draw(t, label+"_k"), V: rapid.IntRange(0, 7).Draw(t, label+"_v")})
	}
	return out
}

var mapOps = []string{"set", "set", "set", "get", "del", "del", "haskey", "haspair", "hasval", "concat", "concat", "copy", "clone", "grow", "eq", "copyfrom"}
var setOps = []string{"push", "push", "add", "append", "remove", "remove", "has", "union", "union", "inter", "inter", "copy", "clone", "grow", "eq", "copyfrom"}

func genCase(t *rapid.T, fams []string) Case {
	var pool []implInfo
	for _, i := range impls {
		for _, f := range fams {
			if i.fam == f {
				pool = append(pool, i)
			}
		}
	}
	var im implInfo
	if rapid.IntRange(0, 2).Draw(t, "generic") != 0 {
		// the open-addressing implementation of the family (the one with state to get wrong)
		fam := fams[vgen.Pick(t, len(fams), "fam")]
		for _, i := range pool {
			if i.ofValue && i.fam == fam {
				im = i
			}
		}
	}
	if im.name == "" {
		im = pool[vgen.Pick(t, len(pool), "impl")]
	}
	c := Case{Impl: im.name, KeyKind: im.kk, ValKind: im.vk}
	if im.kk == "any" && rapid.IntRange(0, 3).Draw(t, "typedkeys") == 0 {
		// generic structure with keys of one kind: the typed variants become possible operands
		c.KeyKind = keyKinds[vgen.Pick(t, len(keyKinds), "kkind")]
	}
	if im.fam != "set" && im.vk == "any" && rapid.IntRange(0, 3).Draw(t, "typedvals") == 0 {
		c.ValKind = valKinds[vgen.Pick(t, len(valKinds), "vkind")]
	}
	c.Cap = rapid.IntRange(0, 6).Draw(t, "cap")
	nk := rapid.IntRange(1, 12).Draw(t, "nkeys")
	for i := 0; i < nk; i++ {
		c.Keys = append(c.Keys, genScalar(t, c.KeyKind, fmt.Sprintf("key%d", i)))
	}
	if im.fam != "set" {
		nv := rapid.IntRange(1, 5).Draw(t, "nvals")
		for i := 0; i < nv; i++ {
			c.Vals = append(c.Vals, genScalar(t, c.ValKind, fmt.Sprintf("val%d", i)))
		}
	}
	c.Init = genEntries(t, "init", 5)
	operands := compatible(famOperands(im.fam), c.KeyKind, c.ValKind)
	names := mapOps
	if im.fam == "set" {
		names = setOps
	}
	nops := rapid.IntRange(1, 40).Draw(t, "nops")
	for i := 0; i < nops; i++ {
		o := Op{Op: names[vgen.Pick(t, len(names), "op")]}
		switch o.Op {
		case "set", "haspair":
			o.K, o.V = rapid.IntRange(0, 15).Draw(t, "k"), rapid.IntRange(0, 7).Draw(t, "v")
		case "get", "del", "haskey", "push", "add", "remove", "has":
			o.K = rapid.IntRange(0, 15).Draw(t, "k")
		case "hasval":
			o.V = rapid.IntRange(0, 7).Draw(t, "v")
		case "append":
			o.Ks = rapid.SliceOfN(rapid.IntRange(0, 15), 0, 4).Draw(t, "ks")
		case "concat", "union", "inter", "eq", "copyfrom":
			o.Other = genEntries(t, "other", 6)
			o.OImpl = operands[vgen.Pick(t, len(operands), "oimpl")]
			o.OCap = rapid.IntRange(0, 6).Draw(t, "ocap")
			o.Adopt = rapid.Bool().Draw(t, "adopt")
			o.N = rapid.IntRange(0, 1).Draw(t, "alias") // + or |  /  == or =~
		case "copy":
			o.Adopt = rapid.Bool().Draw(t, "adopt")
			o.K, o.V = rapid.IntRange(0, 15).Draw(t, "k"), rapid.IntRange(0, 7).Draw(t, "v")
		case "clone":
			o.Adopt = rapid.Bool().Draw(t, "adopt")
			o.N = rapid.IntRange(0, 12).Draw(t, "n")
			o.K, o.V = rapid.IntRange(0, 15).Draw(t, "k"), rapid.IntRange(0, 7).Draw(t, "v")
		case "grow":
			o.N = rapid.IntRange(0, 6).Draw(t, "n")
		}
		c.Ops = append(c.Ops, o)
	}
	return c
}

// operand families accepted by + / == of a receiver family
func famOperands(fam string) []string {
	switch fam {
	case "set":
		return []string{"set"}
	case "map":
		return []string{"map", "record"} // +(other: Record[K, V]); a Map is a Record
	}
	return []string{"record", "map"}
}

// ---------------------------------------------------------------------------
// canonical forms: the model's key equality is "same class and same value",
// which is what `==` is documented to be (headers/value.elh); -0.0 and 0.0 are
// one float key (the Hash methods of the float classes say so explicitly).

func canonFloat(k string, f float64) string {
	if f == 0 {
		f = 0
	}
	return k + ":" + strconv.FormatUint(math.Float64bits(f), 16)
}

func canonSpec(s vgen.VSpec) string {
	switch s.K {
	case "int", "i8", "i16", "i32", "i64", "u8", "u16", "u32", "u64", "uint":
		b, ok := new(big.Int).SetString(s.S, 10)
		if !ok {
			b = new(big.Int)
		}
		return s.K + ":" + b.String()
	case "float", "f64":
		u, _ := strconv.ParseUint(s.S, 16, 64)
		return canonFloat(s.K, math.Float64frombits(u))
	case "f32":
		u, _ := strconv.ParseUint(s.S, 16, 32)
		return canonFloat("f32", float64(math.Float32frombits(uint32(u))))
	case "str":
		return "str:" + hex.EncodeToString(s.B)
	case "char":
		n, _ := strconv.Atoi(s.S)
		return "char:" + strconv.Itoa(n)
	case "sym":
		return "sym:" + s.S
	case "bool":
		return "bool:" + strconv.FormatBool(s.S == "true")
	case "nil":
		return "nil"
	}
	return "?" + s.String()
}

func canonVal(v value.Value) string {
	if v.IsUndefined() {
		return "<undefined>"
	}
	switch x := v.ToInterface().(type) {
	case value.SmallInt:
		return "int:" + strconv.FormatInt(int64(x), 10)
	case *value.BigInt:
		return "int:" + x.ToGoBigInt().String()
	case value.Float:
		return canonFloat("float", float64(x))
	case value.Float64:
		return canonFloat("f64", float64(x))
	case value.Float32:
		return canonFloat("f32", float64(x))
	case value.Int8:
		return "i8:" + strconv.FormatInt(int64(x), 10)
	case value.Int16:
		return "i16:" + strconv.FormatInt(int64(x), 10)
	case value.Int32:
		return "i32:" + strconv.FormatInt(int64(x), 10)
	case value.Int64:
		return "i64:" + strconv.FormatInt(int64(x), 10)
	case value.UInt8:
		return "u8:" + strconv.FormatUint(uint64(x), 10)
	case value.UInt16:
		return "u16:" + strconv.FormatUint(uint64(x), 10)
	case value.UInt32:
		return "u32:" + strconv.FormatUint(uint64(x), 10)
	case value.UInt64:
		return "u64:" + strconv.FormatUint(uint64(x), 10)
	case value.UInt:
		return "uint:" + strconv.FormatUint(uint64(x), 10)
	case value.String:
		return "str:" + hex.EncodeToString([]byte(x))
	case value.Char:
		return "char:" + strconv.Itoa(int(x))
	case value.Symbol:
		return "sym:" + x.String()
	case value.Bool:
		return "bool:" + strconv.FormatBool(bool(x))
	case value.NilType:
		return "nil"
	}
	if v.IsReference() {
		// not a value of the generated kinds (e.g. an internal marker object leaking out)
		return fmt.Sprintf("?%T:%s", v.AsReference(), v.AsReference().Inspect())
	}
	return "?" + v.Class().Name + ":" + v.Inspect()
}

func kindOf(c string) string {
	if i := strings.IndexByte(c, ':'); i >= 0 {
		return c[:i]
	}
	return c
}

// ---------------------------------------------------------------------------
// model: association list

type ment struct {
	ck, cv string
	k, v   vgen.VSpec
}

type model []ment

func (m model) find(ck string) int {
	for i := range m {
		if m[i].ck == ck {
			return i
		}
	}
	return -1
}

func (m model) put(k, v vgen.VSpec) model {
	ck := canonSpec(k)
	if i := m.find(ck); i >= 0 {
		out := append(model(nil), m...)
		out[i].v, out[i].cv = v, canonSpec(v)
		return out
	}
	return append(append(model(nil), m...), ment{ck: ck, cv: canonSpec(v), k: k, v: v})
}

func (m model) del(ck string) model {
	i := m.find(ck)
	if i < 0 {
		return m
	}
	out := append(model(nil), m[:i]...)
	return append(out, m[i+1:]...)
}

func (m model) String() string {
	var b strings.Builder
	b.WriteByte('{')
	for i, e := range m {
		if i > 0 {
			b.WriteString(", ")
		}
		b.WriteString(e.k.String())
		if e.cv != "" {
			b.WriteString(" => " + e.v.String())
		}
	}
	b.WriteByte('}')
	return b.String()
}

// ---------------------------------------------------------------------------
// driving the implementation

func sym(name string) value.Symbol { return value.ToSymbol(name) }

func call(recv value.Value, name string, args ...value.Value) (value.Value, value.Value) {
	all := append([]value.Value{recv}, args...)
	return th.CallMethodByName(sym(name), all...)
}

func mustCall(what string, recv value.Value, name string, args ...value.Value) (value.Value, error) {
	r, err := call(recv, name, args...)
	if !err.IsUndefined() {
		return r, fmt.Errorf("%s: %s raised %s", what, name, err.Inspect())
	}
	if r.IsUndefined() {
		return r, fmt.Errorf("%s: %s returned undefined", what, name)
	}
	return r, nil
}

func callBool(what string, recv value.Value, name string, args ...value.Value) (bool, error) {
	r, err := mustCall(what, recv, name, args...)
	if err != nil {
		return false, err
	}
	if !r.IsBool() {
		return false, fmt.Errorf("%s: %s returned %s, want a bool", what, name, r.Inspect())
	}
	return value.Truthy(r), nil
}

func isStop(err value.Value) bool {
	return !err.IsUndefined() && err == symbol.L_stop_iteration.ToValue()
}

type exec struct {
	c    Case
	ctx  *pbt.Ctx
	step int
}

func (x *exec) key(i int) vgen.VSpec { return x.c.Keys[imod(i, len(x.c.Keys))] }
func (x *exec) val(i int) vgen.VSpec { return x.c.Vals[imod(i, len(x.c.Vals))] }

func imod(i, n int) int {
	if n <= 0 {
		return 0
	}
	i %= n
	if i < 0 {
		i += n
	}
	return i
}

func (x *exec) entriesModel(es []Entry, set bool) model {
	var m model
	for _, e := range es {
		if set {
			m = m.put(x.key(e.K), vgen.VSpec{})
			m[len(m)-1].cv = ""
		} else {
			m = m.put(x.key(e.K), x.val(e.V))
		}
	}
	if set {
		for i := range m {
			m[i].cv = ""
		}
	}
	return m
}

// buildRec builds a structure of the given implementation holding the model's
// entries, inserted in the given order (reverse = last first).
func buildRec(im implInfo, capacity int, m model, reverse bool) (vm.HashRecord, error) {
	h := im.newRec(capacity)
	for i := range m {
		e := m[i]
		if reverse {
			e = m[len(m)-1-i]
		}
		if err := h.SetVal(th, vgen.Build(e.k), vgen.Build(e.v)); !err.IsUndefined() {
			return nil, fmt.Errorf("building %s: SetVal(%s, %s) raised %s", im.name, e.k, e.v, err.Inspect())
		}
	}
	return h, nil
}

func buildSet(im implInfo, capacity int, m model, reverse bool) (vm.HashSet, error) {
	s := im.newSet(capacity)
	for i := range m {
		e := m[i]
		if reverse {
			e = m[len(m)-1-i]
		}
		added, err := s.AppendVal(th, vgen.Build(e.k))
		if !err.IsUndefined() {
			return nil, fmt.Errorf("building %s: AppendVal(%s) raised %s", im.name, e.k, err.Inspect())
		}
		if !added {
			return nil, fmt.Errorf("building %s from distinct elements %s: AppendVal(%s) reported the element as already present", im.name, m, e.k)
		}
	}
	return s, nil
}

func genericOf(fam string) implInfo {
	im, _ := implByName(fam)
	return im
}

func implOfRec(h vm.HashRecord, declared implInfo) implInfo {
	switch h.(type) {
	case *vm.HashMapOfValue:
		return genericOf("map")
	case *vm.HashRecordOfValue:
		return genericOf("record")
	}
	return declared
}

func implOfSet(s vm.HashSet, declared implInfo) implInfo {
	if _, ok := s.(*vm.HashSetOfValue); ok {
		return genericOf("set")
	}
	return declared
}

func capacityOf(v any) int {
	switch h := v.(type) {
	case *vm.HashMapOfValue:
		return len(h.Table)
	case *vm.HashRecordOfValue:
		return len(h.Table)
	case *vm.HashSetOfValue:
		return h.Capacity()
	}
	return -1
}

// ---------------------------------------------------------------------------
// the invariant, checked after every step

func (x *exec) checkMap(what string, h vm.HashRecord, m model, im implInfo, deep bool) error {
	if err := x.checkMap0(h, m, im, deep); err != nil {
		return fmt.Errorf("%v || step %d (%s), model %s, structure %s", err, x.step, what, m, h.Inspect())
	}
	return nil
}

func (x *exec) checkMap0(h vm.HashRecord, m model, im implInfo, deep bool) error {
	self := h.ToValue()
	what := "state"
	// length
	r, err := mustCall(what, self, "length")
	if err != nil {
		return err
	}
	if !r.IsSmallInt() || int(r.AsSmallInt()) != len(m) {
		return fmt.Errorf("%s: length is %s, the model has %d distinct keys", what, r.Inspect(), len(m))
	}
	if h.Length() != len(m) {
		return fmt.Errorf("%s: Length() is %d, the model has %d distinct keys", what, h.Length(), len(m))
	}
	// every model key looks up its value
	for _, e := range m {
		k := vgen.Build(e.k)
		got, err := mustCall(what, self, "[]", k)
		if err != nil {
			return err
		}
		if canonVal(got) != e.cv {
			return fmt.Errorf("%s: [%s] is %s, the model says %s", what, e.k, got.Inspect(), e.v)
		}
		ok, err := callBool(what, self, "contains_key", k)
		if err != nil {
			return err
		}
		if !ok {
			return fmt.Errorf("%s: contains_key(%s) is false for a present key", what, e.k)
		}
		u, uerr := h.GetValUndefined(th, k)
		if !uerr.IsUndefined() || canonVal(u) != e.cv {
			return fmt.Errorf("%s: GetValUndefined(%s) is %s (err %s), the model says %s", what, e.k, u.Inspect(), uerr.Inspect(), e.v)
		}
	}
	// absent keys look up as nil
	for _, ks := range x.c.Keys {
		ck := canonSpec(ks)
		if m.find(ck) >= 0 {
			continue
		}
		k := vgen.Build(ks)
		got, err := mustCall(what, self, "[]", k)
		if err != nil {
			return err
		}
		if !got.IsNil() {
			return fmt.Errorf("%s: [%s] is %s for an absent key, want nil", what, ks, got.Inspect())
		}
		ok, err := callBool(what, self, "contains_key", k)
		if err != nil {
			return err
		}
		if ok {
			return fmt.Errorf("%s: contains_key(%s) is true for an absent key", what, ks)
		}
		u, uerr := h.GetValUndefined(th, k)
		if !uerr.IsUndefined() || !u.IsUndefined() {
			return fmt.Errorf("%s: GetValUndefined(%s) is %s (err %s) for an absent key, want undefined", what, ks, u.Inspect(), uerr.Inspect())
		}
	}
	// iteration yields each live entry exactly once (Elk iterator, then Go iterator)
	it, err := mustCall(what, self, "iter")
	if err != nil {
		return err
	}
	seen := make([]int, len(m))
	n := 0
	for {
		p, perr := call(it, "next")
		if isStop(perr) {
			break
		}
		if !perr.IsUndefined() {
			return fmt.Errorf("%s: iterator next raised %s", what, perr.Inspect())
		}
		n++
		if n > len(m)+64 {
			return fmt.Errorf("%s: iterator does not stop (more than %d elements)", what, n)
		}
		pair, ok := p.SafeAsReference().(value.Pair)
		if !ok {
			return fmt.Errorf("%s: iterator yielded %s, want a pair", what, p.Inspect())
		}
		i := m.find(canonVal(pair.Key()))
		if i < 0 {
			return fmt.Errorf("%s: iterator yielded key %s which is not in the model", what, pair.Key().Inspect())
		}
		if canonVal(pair.Value()) != m[i].cv {
			return fmt.Errorf("%s: iterator yielded %s => %s, the model says %s", what, pair.Key().Inspect(), pair.Value().Inspect(), m[i].v)
		}
		seen[i]++
	}
	for i, c := range seen {
		if c != 1 {
			return fmt.Errorf("%s: iterator yielded key %s %d times", what, m[i].k, c)
		}
	}
	seen = make([]int, len(m))
	for pair := range h.All() {
		i := m.find(canonVal(pair.Key()))
		if i < 0 || canonVal(pair.Value()) != m[i].cv {
			return fmt.Errorf("%s: All() yielded %s => %s which is not in the model", what, pair.Key().Inspect(), pair.Value().Inspect())
		}
		seen[i]++
	}
	for i, c := range seen {
		if c != 1 {
			return fmt.Errorf("%s: All() yielded key %s %d times", what, m[i].k, c)
		}
	}
	if !deep {
		return nil
	}
	// equality with rebuilt copies (same implementation and the generic one of the
	// same class), inequality with perturbed copies of the same length
	fam := "record"
	if self.Class() == value.HashMapClass {
		fam = "map"
	}
	cands := []implInfo{genericOf(fam)}
	if im.fam == fam && !im.ofValue {
		cands = append(cands, im)
	}
	for ci, cim := range cands {
		cp, berr := buildRec(cim, len(m)+(x.step+ci)%3, m, true)
		if berr != nil {
			return berr
		}
		if err := x.expectEq(what, "rebuilt copy ("+cim.name+")", self, cp.ToValue(), "==", true); err != nil {
			return err
		}
		if err := x.expectEq(what, "rebuilt copy ("+cim.name+")", self, cp.ToValue(), "=~", true); err != nil {
			return err
		}
		if len(m) == 0 {
			continue
		}
		victim := imod(x.step, len(m))
		// same length, one key replaced by an absent one
		for _, ks := range x.c.Keys {
			if m.find(canonSpec(ks)) >= 0 {
				continue
			}
			pm := append(model(nil), m...)
			pm[victim].k, pm[victim].ck = ks, canonSpec(ks)
			pc, berr := buildRec(cim, len(m), pm, false)
			if berr != nil {
				return berr
			}
			if err := x.expectEq(what, fmt.Sprintf("copy with key %s replaced by %s (%s)", m[victim].k, ks, cim.name), self, pc.ToValue(), "==", false); err != nil {
				return err
			}
			if err := x.expectEq(what, fmt.Sprintf("copy with key %s replaced by %s (%s)", m[victim].k, ks, cim.name), self, pc.ToValue(), "=~", false); err != nil {
				return err
			}
			break
		}
		// same keys, one value changed
		for _, vs := range x.c.Vals {
			if canonSpec(vs) == m[victim].cv {
				continue
			}
			pm := append(model(nil), m...)
			pm[victim].v, pm[victim].cv = vs, canonSpec(vs)
			pc, berr := buildRec(cim, len(m), pm, false)
			if berr != nil {
				return berr
			}
			if err := x.expectEq(what, fmt.Sprintf("copy with value of %s changed to %s (%s)", m[victim].k, vs, cim.name), self, pc.ToValue(), "==", false); err != nil {
				return err
			}
			break
		}
	}
	// the other class with the same entries is lax-equal
	ofam := "map"
	if fam == "map" {
		ofam = "record"
	}
	cp, berr := buildRec(genericOf(ofam), len(m), m, true)
	if berr != nil {
		return berr
	}
	return x.expectEq(what, "rebuilt copy ("+ofam+")", self, cp.ToValue(), "=~", true)
}

func (x *exec) expectEq(what, other string, a, b value.Value, op string, want bool) error {
	for dir := 0; dir < 2; dir++ {
		l, r := a, b
		if dir == 1 {
			l, r = b, a
		}
		got, err := callBool(what, l, op, r)
		if err != nil {
			return err
		}
		if got != want {
			side := "structure " + op + " " + other
			if dir == 1 {
				side = other + " " + op + " structure"
			}
			return fmt.Errorf("%s: %s is %v, want %v (other = %s)", what, side, got, want, b.Inspect())
		}
	}
	return nil
}

func (x *exec) checkSet(what string, s vm.HashSet, m model, im implInfo, deep bool) error {
	if err := x.checkSet0(s, m, im, deep); err != nil {
		return fmt.Errorf("%v || step %d (%s), model %s, structure %s", err, x.step, what, m, s.Inspect())
	}
	return nil
}

func (x *exec) checkSet0(s vm.HashSet, m model, im implInfo, deep bool) error {
	self := s.ToValue()
	what := "state"
	r, err := mustCall(what, self, "length")
	if err != nil {
		return err
	}
	if !r.IsSmallInt() || int(r.AsSmallInt()) != len(m) {
		return fmt.Errorf("%s: length is %s, the model has %d distinct elements", what, r.Inspect(), len(m))
	}
	for _, ks := range x.c.Keys {
		present := m.find(canonSpec(ks)) >= 0
		ok, err := callBool(what, self, "contains", vgen.Build(ks))
		if err != nil {
			return err
		}
		if ok != present {
			return fmt.Errorf("%s: contains(%s) is %v, the model says %v", what, ks, ok, present)
		}
	}
	it, err := mustCall(what, self, "iter")
	if err != nil {
		return err
	}
	seen := make([]int, len(m))
	n := 0
	for {
		e, perr := call(it, "next")
		if isStop(perr) {
			break
		}
		if !perr.IsUndefined() {
			return fmt.Errorf("%s: iterator next raised %s", what, perr.Inspect())
		}
		n++
		if n > len(m)+64 {
			return fmt.Errorf("%s: iterator does not stop (more than %d elements)", what, n)
		}
		i := m.find(canonVal(e))
		if i < 0 {
			return fmt.Errorf("%s: iterator yielded %s which is not in the model", what, e.Inspect())
		}
		seen[i]++
	}
	for i, c := range seen {
		if c != 1 {
			return fmt.Errorf("%s: iterator yielded element %s %d times", what, m[i].k, c)
		}
	}
	seen = make([]int, len(m))
	for e := range s.All() {
		i := m.find(canonVal(e))
		if i < 0 {
			return fmt.Errorf("%s: All() yielded %s which is not in the model", what, e.Inspect())
		}
		seen[i]++
	}
	for i, c := range seen {
		if c != 1 {
			return fmt.Errorf("%s: All() yielded element %s %d times", what, m[i].k, c)
		}
	}
	if !deep {
		return nil
	}
	cands := []implInfo{genericOf("set")}
	if !im.ofValue {
		cands = append(cands, im)
	}
	for ci, cim := range cands {
		cp, berr := buildSet(cim, len(m)+(x.step+ci)%3, m, true)
		if berr != nil {
			return berr
		}
		if err := x.expectEq(what, "rebuilt copy ("+cim.name+")", self, cp.ToValue(), "==", true); err != nil {
			return err
		}
		if len(m) == 0 {
			continue
		}
		victim := imod(x.step, len(m))
		for _, ks := range x.c.Keys {
			if m.find(canonSpec(ks)) >= 0 {
				continue
			}
			pm := append(model(nil), m...)
			pm[victim].k, pm[victim].ck = ks, canonSpec(ks)
			pc, berr := buildSet(cim, len(m), pm, false)
			if berr != nil {
				return berr
			}
			if err := x.expectEq(what, fmt.Sprintf("copy with element %s replaced by %s (%s)", m[victim].k, ks, cim.name), self, pc.ToValue(), "==", false); err != nil {
				return err
			}
			break
		}
	}
	return nil
}

// ---------------------------------------------------------------------------
// oracle

type flags struct {
	tomb, tombProbe, resize, overlap, reinsert, deleted bool
}

func oracle(c Case, ctx *pbt.Ctx) error {
	im, ok := implByName(c.Impl)
	if !ok || len(c.Keys) == 0 || (im.fam != "set" && len(c.Vals) == 0) {
		return nil // not a case of this generator (shrinking artefact)
	}
	x := &exec{c: c, ctx: ctx}
	ctx.Label("impl:" + c.Impl)
	var f flags
	var err error
	if im.fam == "set" {
		err = x.runSet(im, &f)
	} else {
		err = x.runMap(im, &f)
	}
	if err != nil {
		return err
	}
	nt := false
	if f.tombProbe {
		ctx.Label("nt:probe-with-tombstone")
		nt = true
	}
	if f.resize {
		ctx.Label("nt:resize")
		nt = true
	}
	if f.overlap {
		ctx.Label("nt:overlapping-operand")
		nt = true
	}
	if f.reinsert {
		ctx.Label("nt:reinsert-after-delete")
		nt = true
	}
	if nt {
		ctx.NonTrivial(caseKey(c))
	}
	return nil
}

func caseKey(c Case) string {
	var b strings.Builder
	fmt.Fprintf(&b, "%s/%d/", c.Impl, c.Cap)
	for _, k := range c.Keys {
		b.WriteString(canonSpec(k) + ",")
	}
	for _, e := range c.Init {
		fmt.Fprintf(&b, "i%d.%d", e.K, e.V)
	}
	for _, o := range c.Ops {
		fmt.Fprintf(&b, "|%s.%d.%d.%d.%v.%s.%d", o.Op, o.K, o.V, o.N, o.Adopt, o.OImpl, len(o.Other))
		for _, e := range o.Other {
			fmt.Fprintf(&b, "o%d.%d", e.K, e.V)
		}
	}
	return b.String()
}

func overlapKind(m, o model) (shared, fresh bool) {
	for _, e := range o {
		if m.find(e.ck) >= 0 {
			shared = true
		} else {
			fresh = true
		}
	}
	return
}

func (x *exec) runMap(im implInfo, f *flags) error {
	c := x.c
	var m model
	cur := im.newRec(c.Cap)
	// initial entries: the construction path of a literal with a capacity
	for _, e := range c.Init {
		k, v := x.key(e.K), x.val(e.V)
		if err := cur.SetVal(th, vgen.Build(k), vgen.Build(v)); !err.IsUndefined() {
			return fmt.Errorf("initial SetVal(%s, %s) raised %s", k, v, err.Inspect())
		}
		m = m.put(k, v)
	}
	x.step = 0
	if err := x.checkMap("initial", cur, m, im, true); err != nil {
		return err
	}
	everDeleted := map[string]bool{} // only membership tests, never iterated
	for i, o := range c.Ops {
		x.step = i + 1
		self := cur.ToValue()
		isMap := self.Class() == value.HashMapClass
		capBefore := capacityOf(cur)
		what := o.Op
		probing := false
		switch o.Op {
		case "set":
			k, v := x.key(o.K), x.val(o.V)
			what = fmt.Sprintf("set %s => %s", k, v)
			vv := vgen.Build(v)
			if isMap {
				r, err := mustCall(what, self, "[]=", vgen.Build(k), vv)
				if err != nil {
					return err
				}
				if canonVal(r) != canonSpec(v) {
					return fmt.Errorf("step %d (%s): []= returned %s, want the value", x.step, what, r.Inspect())
				}
			} else if err := cur.SetVal(th, vgen.Build(k), vv); !err.IsUndefined() {
				return fmt.Errorf("step %d (%s): SetVal raised %s", x.step, what, err.Inspect())
			}
			if everDeleted[canonSpec(k)] && m.find(canonSpec(k)) < 0 {
				f.reinsert = true
			}
			m = m.put(k, v)
			probing = true
		case "get":
			k := x.key(o.K)
			what = fmt.Sprintf("get %s", k)
			r, err := mustCall(what, self, "[]", vgen.Build(k))
			if err != nil {
				return err
			}
			want := "nil"
			if i := m.find(canonSpec(k)); i >= 0 {
				want = m[i].cv
			}
			if canonVal(r) != want {
				return fmt.Errorf("step %d (%s): [] returned %s, the model says %s", x.step, what, r.Inspect(), want)
			}
			probing = true
		case "del":
			k := x.key(o.K)
			what = fmt.Sprintf("delete %s", k)
			var removed bool
			var err value.Value
			switch h := cur.(type) {
			case *vm.HashMapOfValue:
				removed, err = vm.HashMapOfValueDelete(th, h, vgen.Build(k))
			case *vm.HashRecordOfValue:
				removed, err = vm.HashRecordOfValueDelete(th, h, vgen.Build(k))
			default:
				x.ctx.Label("skip:del-on-native")
				continue
			}
			if !err.IsUndefined() {
				return fmt.Errorf("step %d (%s): delete raised %s", x.step, what, err.Inspect())
			}
			present := m.find(canonSpec(k)) >= 0
			if removed != present {
				return fmt.Errorf("step %d (%s): delete returned %v, the model says the key was present: %v (model %s)", x.step, what, removed, present, m)
			}
			if present {
				f.tomb, f.deleted = true, true
				everDeleted[canonSpec(k)] = true
			}
			m = m.del(canonSpec(k))
		case "haskey":
			k := x.key(o.K)
			what = fmt.Sprintf("contains_key %s", k)
			got, err := callBool(what, self, "contains_key", vgen.Build(k))
			if err != nil {
				return err
			}
			if got != (m.find(canonSpec(k)) >= 0) {
				return fmt.Errorf("step %d (%s): returned %v, model %s", x.step, what, got, m)
			}
			probing = true
		case "haspair":
			k, v := x.key(o.K), x.val(o.V)
			what = fmt.Sprintf("contains(%s => %s)", k, v)
			pair := value.Ref(value.NewPairOfValue(vgen.Build(k), vgen.Build(v)))
			got, err := callBool(what, self, "contains", pair)
			if err != nil {
				return err
			}
			i := m.find(canonSpec(k))
			want := i >= 0 && m[i].cv == canonSpec(v)
			if got != want {
				return fmt.Errorf("step %d (%s): returned %v, want %v, model %s", x.step, what, got, want, m)
			}
			probing = true
		case "hasval":
			v := x.val(o.V)
			what = fmt.Sprintf("contains_value %s", v)
			got, err := callBool(what, self, "contains_value", vgen.Build(v))
			if err != nil {
				return err
			}
			want := false
			for _, e := range m {
				if e.cv == canonSpec(v) {
					want = true
				}
			}
			if got != want {
				return fmt.Errorf("step %d (%s): returned %v, want %v, model %s", x.step, what, got, want, m)
			}
		case "concat":
			oim, ok := implByName(o.OImpl)
			if !ok || oim.fam == "set" {
				continue
			}
			om := x.entriesModel(o.Other, false)
			other, err := buildRec(oim, o.OCap, om, false)
			if err != nil {
				return err
			}
			what = fmt.Sprintf("+ %s %s", oim.name, om)
			r, cerr := mustCall(what, self, "+", other.ToValue())
			if cerr != nil {
				return cerr
			}
			res, ok := r.SafeAsReference().(vm.HashRecord)
			if !ok {
				return fmt.Errorf("step %d (%s): + returned %s, want a map/record", x.step, what, r.Inspect())
			}
			rm := m
			for _, e := range om {
				rm = rm.put(e.k, e.v) // pairs of the right operand replace those of the left one
			}
			if sh, fr := overlapKind(m, om); sh && fr {
				f.overlap = true
			}
			if err := x.checkMap(what+": result", res, rm, implOfRec(res, im), true); err != nil {
				return err
			}
			if err := x.checkMap(what+": right operand afterwards", other, om, oim, false); err != nil {
				return err
			}
			if o.Adopt {
				// the receiver must be unchanged as well
				if err := x.checkMap(what+": receiver afterwards", cur, m, im, false); err != nil {
					return err
				}
				cur, m = res, rm
				im = implOfRec(res, im)
				x.ctx.Label("adopt:concat")
				f.tomb = false
				continue
			}
		case "copyfrom":
			// in-place bulk copy (Go API used by concatenation and cloning): cur := cur + other
			oim, ok := implByName(o.OImpl)
			if !ok || oim.fam == "set" {
				continue
			}
			om := x.entriesModel(o.Other, false)
			other, berr := buildRec(oim, o.OCap, om, false)
			if berr != nil {
				return berr
			}
			what = fmt.Sprintf("bulk copy from %s %s", oim.name, om)
			var err value.Value
			switch h := cur.(type) {
			case *vm.HashMapOfValue:
				if src, ok := other.(*vm.HashMapOfValue); ok && o.N == 0 {
					err = vm.HashMapOfValueCopy(th, h, src)
				} else {
					err = vm.HashMapOfValueCopyInterface(th, h, other)
				}
			case *vm.HashRecordOfValue:
				if src, ok := other.(*vm.HashRecordOfValue); ok && o.N == 0 {
					err = vm.HashRecordOfValueCopy(th, h, src)
				} else {
					err = vm.HashRecordOfValueCopyInterface(th, h, other)
				}
			default:
				continue
			}
			if !err.IsUndefined() {
				return fmt.Errorf("step %d (%s): raised %s", x.step, what, err.Inspect())
			}
			if sh, fr := overlapKind(m, om); sh && fr {
				f.overlap = true
			}
			if f.tomb && len(om) > 0 {
				probing = true
			}
			for _, e := range om {
				m = m.put(e.k, e.v)
			}
			if err := x.checkMap(what+": source afterwards", other, om, oim, false); err != nil {
				return err
			}
		case "copy", "clone":
			var cp vm.HashRecord
			if o.Op == "copy" {
				ref, ok := self.SafeAsReference().(interface{ Copy() value.Reference })
				if !ok {
					continue
				}
				cp, ok = ref.Copy().(vm.HashRecord)
				if !ok {
					return fmt.Errorf("step %d: Copy() did not return a map/record", x.step)
				}
				what = "copy"
			} else {
				var err value.Value
				cp, err = cur.CloneHashRecord(th, o.N)
				if !err.IsUndefined() {
					return fmt.Errorf("step %d: CloneHashRecord(%d) raised %s", x.step, o.N, err.Inspect())
				}
				what = fmt.Sprintf("clone with capacity %d", o.N)
			}
			if err := x.checkMap(what+": result", cp, m, implOfRec(cp, im), true); err != nil {
				return err
			}
			if o.Adopt {
				cur = cp
				im = implOfRec(cp, im)
				f.tomb = false
				x.ctx.Label("adopt:" + o.Op)
				break
			}
			if cp.ToValue().Class() == value.HashMapClass && any(cp) != any(cur) {
				// mutating the copy must not show through the original (checked below)
				if err := cp.SetVal(th, vgen.Build(x.key(o.K)), vgen.Build(x.val(o.V))); !err.IsUndefined() {
					return fmt.Errorf("step %d (%s): SetVal on the copy raised %s", x.step, what, err.Inspect())
				}
			}
		case "grow":
			what = fmt.Sprintf("grow %d", o.N)
			var err value.Value
			switch h := cur.(type) {
			case *vm.HashMapOfValue:
				err = vm.HashMapOfValueGrow(th, h, o.N)
			case *vm.HashRecordOfValue:
				err = vm.HashRecordOfValueGrow(th, h, o.N)
			default:
				continue
			}
			if !err.IsUndefined() {
				return fmt.Errorf("step %d (%s): raised %s", x.step, what, err.Inspect())
			}
		case "eq":
			oim, ok := implByName(o.OImpl)
			if !ok || oim.fam == "set" {
				continue
			}
			om := x.entriesModel(o.Other, false)
			if o.Adopt {
				// bias: an operand that differs from the current content in at most a few entries
				om = m
				for _, e := range o.Other {
					om = om.put(x.key(e.K), x.val(e.V))
				}
			}
			other, err := buildRec(oim, o.OCap, om, true)
			if err != nil {
				return err
			}
			sameKeys := len(om) == len(m)
			strict, lax, laxKnown := sameKeys, sameKeys, true
			for _, e := range om {
				i := m.find(e.ck)
				if i < 0 {
					strict, lax = false, false
					break
				}
				if m[i].cv != e.cv {
					strict = false
					if kindOf(m[i].cv) == kindOf(e.cv) {
						lax = false // same class, different value
					} else {
						// =~ may treat values of different but similar classes as equal
						// (1 =~ 1.0, "b" =~ `b`): not modelled here (C18)
						laxKnown = false
					}
				}
			}
			if !sameKeys {
				laxKnown = true
			}
			sameClass := other.ToValue().Class() == self.Class()
			what = fmt.Sprintf("compare with %s %s", oim.name, om)
			if sameClass {
				if err := x.expectEq(fmt.Sprintf("step %d (%s), model %s", x.step, what, m), "operand", self, other.ToValue(), "==", strict); err != nil {
					return err
				}
			}
			if laxKnown {
				if err := x.expectEq(fmt.Sprintf("step %d (%s), model %s", x.step, what, m), "operand", self, other.ToValue(), "=~", lax); err != nil {
					return err
				}
			}
			if strict {
				x.ctx.Label("eq:equal-operand")
			}
		default:
			continue
		}
		if capAfter := capacityOf(cur); capBefore >= 0 && capAfter != capBefore {
			f.resize = true
			f.tomb = false
		}
		if probing && f.tomb && len(m) > 0 {
			f.tombProbe = true
		}
		if err := x.checkMap(what, cur, m, im, true); err != nil {
			return err
		}
	}
	return nil
}

func (x *exec) runSet(im implInfo, f *flags) error {
	c := x.c
	var m model
	cur := im.newSet(c.Cap)
	for _, e := range c.Init {
		k := x.key(e.K)
		if _, err := cur.AppendVal(th, vgen.Build(k)); !err.IsUndefined() {
			return fmt.Errorf("initial AppendVal(%s) raised %s", k, err.Inspect())
		}
		m = m.put(k, vgen.VSpec{})
	}
	for i := range m {
		m[i].cv = ""
	}
	put := func(m model, k vgen.VSpec) model {
		m = m.put(k, vgen.VSpec{})
		for i := range m {
			m[i].cv = ""
		}
		return m
	}
	x.step = 0
	if err := x.checkSet("initial", cur, m, im, true); err != nil {
		return err
	}
	everDeleted := map[string]bool{} // membership tests only
	for i, o := range c.Ops {
		x.step = i + 1
		self := cur.ToValue()
		capBefore := capacityOf(cur)
		what := o.Op
		probing := false
		switch o.Op {
		case "push", "add":
			k := x.key(o.K)
			present := m.find(canonSpec(k)) >= 0
			if o.Op == "push" {
				what = fmt.Sprintf("push %s", k)
				added, err := callBool(what, self, "push", vgen.Build(k))
				if err != nil {
					return err
				}
				if added == present {
					return fmt.Errorf("step %d (%s): push returned %v but the element was present: %v (model %s)", x.step, what, added, present, m)
				}
			} else {
				what = fmt.Sprintf("<< %s", k)
				r, err := mustCall(what, self, "<<", vgen.Build(k))
				if err != nil {
					return err
				}
				if r != self {
					return fmt.Errorf("step %d (%s): << did not return self", x.step, what)
				}
			}
			if !present && everDeleted[canonSpec(k)] {
				f.reinsert = true
			}
			m = put(m, k)
			probing = true
		case "append":
			tuple := value.NewArrayTupleOfValue(len(o.Ks))
			var names []string
			for _, ki := range o.Ks {
				k := x.key(ki)
				tuple.Append(vgen.Build(k))
				names = append(names, k.String())
				if m.find(canonSpec(k)) < 0 && everDeleted[canonSpec(k)] {
					f.reinsert = true
				}
				m = put(m, k)
			}
			what = "append " + strings.Join(names, ", ")
			if _, err := mustCall(what, self, "append", value.Ref(tuple)); err != nil {
				return err
			}
			probing = len(o.Ks) > 0
		case "remove":
			k := x.key(o.K)
			what = fmt.Sprintf("remove %s", k)
			removed, err := callBool(what, self, "remove", vgen.Build(k))
			if err != nil {
				return err
			}
			present := m.find(canonSpec(k)) >= 0
			if removed != present {
				return fmt.Errorf("step %d (%s): remove returned %v, the model says present: %v (model %s)", x.step, what, removed, present, m)
			}
			if present {
				f.tomb, f.deleted = true, true
				everDeleted[canonSpec(k)] = true
			}
			m = m.del(canonSpec(k))
		case "has":
			k := x.key(o.K)
			what = fmt.Sprintf("contains %s", k)
			got, err := callBool(what, self, "contains", vgen.Build(k))
			if err != nil {
				return err
			}
			if got != (m.find(canonSpec(k)) >= 0) {
				return fmt.Errorf("step %d (%s): returned %v, model %s", x.step, what, got, m)
			}
			probing = true
		case "union", "inter":
			oim, ok := implByName(o.OImpl)
			if !ok || oim.fam != "set" {
				continue
			}
			om := x.entriesModel(o.Other, true)
			other, err := buildSet(oim, o.OCap, om, false)
			if err != nil {
				return err
			}
			opn := "&"
			var rm model
			if o.Op == "union" {
				opn = []string{"+", "|"}[imod(o.N, 2)]
				rm = m
				for _, e := range om {
					rm = put(rm, e.k)
				}
			} else {
				for _, e := range m {
					if om.find(e.ck) >= 0 {
						rm = put(rm, e.k)
					}
				}
			}
			what = fmt.Sprintf("%s %s %s", opn, oim.name, om)
			r, cerr := mustCall(what, self, opn, other.ToValue())
			if cerr != nil {
				return cerr
			}
			res, ok := r.SafeAsReference().(vm.HashSet)
			if !ok {
				return fmt.Errorf("step %d (%s): returned %s, want a set", x.step, what, r.Inspect())
			}
			if sh, fr := overlapKind(m, om); sh && fr {
				f.overlap = true
			}
			if err := x.checkSet(what+": result", res, rm, implOfSet(res, im), true); err != nil {
				return err
			}
			if err := x.checkSet(what+": right operand afterwards", other, om, oim, false); err != nil {
				return err
			}
			if o.Adopt {
				if err := x.checkSet(what+": receiver afterwards", cur, m, im, false); err != nil {
					return err
				}
				cur, m = res, rm
				im = implOfSet(res, im)
				f.tomb = false
				x.ctx.Label("adopt:" + o.Op)
				continue
			}
		case "copyfrom":
			h, ok := cur.(*vm.HashSetOfValue)
			if !ok {
				continue
			}
			om := x.entriesModel(o.Other, true)
			src, berr := buildSet(genericOf("set"), o.OCap, om, false)
			if berr != nil {
				return berr
			}
			what = fmt.Sprintf("bulk copy from set %s", om)
			if err := vm.HashSetOfValueCopy(th, h, src.(*vm.HashSetOfValue)); !err.IsUndefined() {
				return fmt.Errorf("step %d (%s): raised %s", x.step, what, err.Inspect())
			}
			if sh, fr := overlapKind(m, om); sh && fr {
				f.overlap = true
			}
			if f.tomb && len(om) > 0 {
				probing = true
			}
			for _, e := range om {
				m = put(m, e.k)
			}
			if err := x.checkSet(what+": source afterwards", src, om, genericOf("set"), false); err != nil {
				return err
			}
		case "copy", "clone":
			var cp vm.HashSet
			if o.Op == "copy" {
				ref, ok := self.SafeAsReference().(interface{ Copy() value.Reference })
				if !ok {
					continue
				}
				cp, ok = ref.Copy().(vm.HashSet)
				if !ok {
					return fmt.Errorf("step %d: Copy() did not return a set", x.step)
				}
				what = "copy"
			} else {
				var err value.Value
				cp, err = cur.CloneHashSet(th, o.N)
				if !err.IsUndefined() {
					return fmt.Errorf("step %d: CloneHashSet(%d) raised %s", x.step, o.N, err.Inspect())
				}
				what = fmt.Sprintf("clone with capacity %d", o.N)
			}
			if err := x.checkSet(what+": result", cp, m, implOfSet(cp, im), true); err != nil {
				return err
			}
			if o.Adopt {
				cur = cp
				im = implOfSet(cp, im)
				f.tomb = false
				x.ctx.Label("adopt:" + o.Op)
				break
			}
			if any(cp) != any(cur) {
				if _, err := cp.AppendVal(th, vgen.Build(x.key(o.K))); !err.IsUndefined() {
					return fmt.Errorf("step %d (%s): AppendVal on the copy raised %s", x.step, what, err.Inspect())
				}
				if _, err := cp.RemoveVal(th, vgen.Build(x.key(o.V))); !err.IsUndefined() {
					return fmt.Errorf("step %d (%s): RemoveVal on the copy raised %s", x.step, what, err.Inspect())
				}
			}
		case "grow":
			h, ok := cur.(*vm.HashSetOfValue)
			if !ok {
				continue
			}
			what = fmt.Sprintf("grow %d", o.N)
			if err := vm.HashSetOfValueGrow(th, h, o.N); !err.IsUndefined() {
				return fmt.Errorf("step %d (%s): raised %s", x.step, what, err.Inspect())
			}
		case "eq":
			oim, ok := implByName(o.OImpl)
			if !ok || oim.fam != "set" {
				continue
			}
			om := x.entriesModel(o.Other, true)
			if o.Adopt {
				om = m
				for _, e := range o.Other {
					om = put(om, x.key(e.K))
				}
			}
			other, err := buildSet(oim, o.OCap, om, true)
			if err != nil {
				return err
			}
			want := len(om) == len(m)
			for _, e := range om {
				if m.find(e.ck) < 0 {
					want = false
				}
			}
			what = fmt.Sprintf("compare with %s %s", oim.name, om)
			opn := []string{"==", "=~"}[imod(o.N, 2)]
			if err := x.expectEq(fmt.Sprintf("step %d (%s), model %s", x.step, what, m), "operand", self, other.ToValue(), opn, want); err != nil {
				return err
			}
			if want {
				x.ctx.Label("eq:equal-operand")
			}
		default:
			continue
		}
		if capAfter := capacityOf(cur); capBefore >= 0 && capAfter != capBefore {
			f.resize = true
			f.tomb = false
		}
		if probing && f.tomb && len(m) > 0 {
			f.tombProbe = true
		}
		if err := x.checkSet(what, cur, m, im, true); err != nil {
			return err
		}
	}
	return nil
}

// ---------------------------------------------------------------------------

func sample(c Case) any {
	var ops []string
	for _, o := range c.Ops {
		ops = append(ops, o.Op)
	}
	var keys []string
	for _, k := range c.Keys {
		keys = append(keys, k.String())
	}
	return map[string]any{"impl": c.Impl, "cap": c.Cap, "keys": strings.Join(keys, " "), "init": len(c.Init), "ops": strings.Join(ops, " ")}
}

const ruleText = "operation histories drawn as data: implementation (open-addressing *OfValue structure two times out of three, else one of the typed native variants the compiler emits for static literals), initial capacity 0..6, a universe of 1..12 NaN-free scalar keys (Int small/big, Float incl. -0.0/Inf, Float64, Int64/Int32/Int8/UInt8/UInt64, String incl. invalid UTF-8, Char, Symbol, Bool, nil; the same small number in several numeric kinds) and 1..5 values, up to 5 initial entries and 1..40 operations over that universe; after every step: length, lookup of every model key, absent universe keys -> nil/false, Elk iterator and Go iterator yield each live entry exactly once, == / =~ with rebuilt copies (other insertion order, other capacity, generic and typed implementation), != copies with one key or one value changed; results of + | & copy clone are checked in full and may become the structure the history continues on; non-trivial = a lookup or insert while a tombstone is in the table, or a capacity change, or a re-insert of a deleted key, or a + | & whose operand shares some keys with the receiver and adds others"

func TestMaps(t *testing.T) {
	pbt.Rule("maps", "HashMap / HashRecord: "+ruleText)
	pbt.Run(t, pbt.Prop[Case]{Name: "maps", Quick: 48000, Thorough: 1200000, HangSeconds: 120,
		Gen:    func(t *rapid.T) Case { return genCase(t, []string{"map", "record"}) },
		Oracle: oracle, Sample: sample})
}

func TestSets(t *testing.T) {
	pbt.Rule("sets", "HashSet: "+ruleText)
	pbt.Run(t, pbt.Prop[Case]{Name: "sets", Quick: 32000, Thorough: 800000, HangSeconds: 120,
		Gen:    func(t *rapid.T) Case { return genCase(t, []string{"set"}) },
		Oracle: oracle, Sample: sample})
}
