package c14

import (
	"fmt"
	"sort"
	"strings"
	"testing"
	"time"

	"pgregory.net/rapid"

	"verif/internal/mini"
	"verif/internal/pbt"
	sb "verif/internal/sandbox"
)

func TestMain(m *testing.M) { pbt.Main(m, "C14") }

type Case struct {
	Prog   *mini.Program  `json:"prog,omitempty"`
	Src    string         `json:"src"`
	Stdout string         `json:"stdout"`
	Err    string         `json:"err"`
	Events map[string]int `json:"events"`
}

var worker *sb.Worker

// known finding: break/continue/return/throw leaving a catch clause skips the finally clause
const kCatchExit = "catch-exit-skips-finally"

// known finding: a catch handler keeps the operands that were pending when the error was thrown
const kPending = "catch-keeps-pending-operands"

func gen(t *rapid.T) Case {
	for tries := 0; ; tries++ {
		prof := mini.Control
		prof.NoExitFromCatchWithFinally = pbt.KnownActive(kCatchExit)
		prof.NoCatchInsideHandler = pbt.KnownActive(kPending)
		p := mini.Gen(t, prof)
		r := mini.Run(p)
		if r.Aborted && tries < 5 {
			continue
		}
		return Case{p, p.Source(), r.Stdout, r.Err, r.Events}
	}
}

func oracle(c Case, ctx *pbt.Ctx) error {
	res := worker.Do(sb.Req{Mode: "run", Source: c.Src}, 30*time.Second)
	class, detail := sb.Classify(res)
	ctx.Label("outcome:" + class)
	switch class {
	case sb.Timeout:
		pbt.Inconclusive()
		return nil
	case sb.Fatal, sb.GoPanic:
		// a crash is C01's business, but the reference semantics is violated as well
		return fmt.Errorf("interpreter crashed (%s) on a program the reference interpreter runs fine:\n%s", class, clip(detail, 1500))
	case sb.Rejected:
		ctx.Label("rejected_by_checker")
		var ds []string
		for _, d := range res.Resp.Runs[0].Diags {
			if d.Severity == "FAIL" {
				ds = append(ds, fmt.Sprintf("%d:%d %s", d.Line, d.Col, d.Msg))
			}
		}
		return fmt.Errorf("GENERATOR: well-typed-by-construction program rejected by the checker: %s", strings.Join(ds, " | "))
	}
	run := res.Resp.Runs[0]
	if run.Stdout != c.Stdout {
		return fmt.Errorf("output differs from the reference interpreter\n--- want\n%s--- got\n%s--- first difference: %s", clip(c.Stdout, 1500), clip(run.Stdout, 1500), firstDiff(c.Stdout, run.Stdout))
	}
	if run.ErrInspect != c.Err {
		return fmt.Errorf("final outcome differs: reference uncaught error %q, VM %q (class %s)", c.Err, run.ErrInspect, run.ErrClass)
	}
	if c.Prog != nil && c.Prog.RestrictedPending > 0 {
		ctx.Excluded(kPending)
	}
	if c.Prog != nil && c.Prog.Restricted > 0 {
		ctx.Excluded(kCatchExit)
	}
	var evs []string
	for k := range c.Events {
		evs = append(evs, k)
		ctx.Label("ev:" + k)
	}
	sort.Strings(evs)
	if c.Events["finally_nonnormal"] > 0 || c.Events["defer_nonnormal"] > 0 || c.Events["label_jump2"] > 0 {
		ctx.NonTrivial(c.Src)
	}
	return nil
}

// failClass buckets an oracle error so that reduction keeps the same kind of failure.
func failClass(err error) string {
	if err == nil {
		return ""
	}
	m := err.Error()
	for _, k := range []string{"interpreter crashed", "GENERATOR", "output differs", "final outcome differs"} {
		if strings.Contains(m, k) {
			return k
		}
	}
	return "other"
}

func minimize(c Case) Case {
	if c.Prog == nil {
		return c
	}
	want := failClass(oracle(c, &pbt.Ctx{}))
	if want == "" || want == "GENERATOR" {
		return c
	}
	mk := func(p *mini.Program) Case {
		r := mini.Run(p)
		return Case{p, p.Source(), r.Stdout, r.Err, r.Events}
	}
	red := mini.Reduce(c.Prog, func(p *mini.Program) bool {
		defer func() { _ = recover() }() // reduced programs may be ill-formed for the reference interpreter
		cc := mk(p)
		return failClass(oracle(cc, &pbt.Ctx{})) == want
	}, 1500)
	return mk(red)
}

func firstDiff(a, b string) string {
	la, lb := strings.Split(a, "\n"), strings.Split(b, "\n")
	for i := 0; i < len(la) || i < len(lb); i++ {
		x, y := "<end>", "<end>"
		if i < len(la) {
			x = la[i]
		}
		if i < len(lb) {
			y = lb[i]
		}
		if x != y {
			return fmt.Sprintf("line %d: want %q got %q", i+1, x, y)
		}
	}
	return "none"
}

func clip(s string, n int) string {
	if len(s) > n {
		return s[:n] + "…"
	}
	return s
}

func TestControlFlow(t *testing.T) {
	pbt.Rule("control_flow", "MiniElk programs (control profile): nestings of while/until/loop/do-while/for-in/fornum with labelled break/continue, return, throw unchecked / do-catch-finally (symbol, alternative, String() as, catch-all patterns), defer, methods, closures, traced && || ?? right operands; every statement prints a trace id; stdout and the uncaught error must equal the Go reference interpreter (completion-record semantics); non-trivial = a finally or defer crossed by a non-normal exit, or a labelled jump leaving >= 2 loops; distinct by source")
	worker = sb.New("debug")
	defer worker.Close()
	pbt.Run(t, pbt.Prop[Case]{Name: "control_flow", Quick: 800, Thorough: 30000, Gen: gen, Oracle: oracle, Minimize: minimize,
		Sample: func(c Case) any { return map[string]any{"src": c.Src, "stdout": c.Stdout, "err": c.Err} }})
}
