package c23

import (
	"fmt"
	"strings"
	"testing"
	"time"

	"pgregory.net/rapid"

	"verif/internal/pbt"
	sb "verif/internal/sandbox"
	"verif/internal/vgen"
)

// fold / reduce over sequences whose element type is nilable: nil is an ordinary element and an ordinary
// accumulator value, so reduce must still be the left fold over the materialised elements (first element as
// the initial accumulator, the step called exactly length-1 times).

type NilSeq struct {
	Elems []int  `json:"elems"` // -1 = nil, otherwise the Int
	Src   string `json:"src"`   // list | tuple | list_iter | tuple_iter
	Step  string `json:"step"`
}

type NilBatch struct {
	Items []NilSeq `json:"items"`
}

var nilSteps = []string{"right", "left", "nil_sticks", "nil_on_3", "sum0", "nil_when_equal"}

// stepModel: nil is -1 in the model (elements are 0..9, sums never negative)
func stepModel(kind string, a, b int) int {
	switch kind {
	case "right":
		return b
	case "left":
		return a
	case "nil_sticks":
		if a == -1 {
			return -1
		}
		return b
	case "nil_on_3":
		if a == -1 || b == -1 || b == 3 {
			return -1
		}
		return b
	case "sum0":
		x, y := a, b
		if x == -1 {
			x = 0
		}
		if y == -1 {
			y = 0
		}
		return x + y
	case "nil_when_equal":
		if a == b {
			return -1
		}
		return b
	}
	panic("c23: step " + kind)
}

func stepElk(kind string) string {
	switch kind {
	case "right":
		return "b"
	case "left":
		return "a"
	case "nil_sticks":
		return "if a == nil then nil else b"
	case "nil_on_3":
		return "if a == nil || b == nil || b == 3 then nil else b"
	case "sum0":
		return "(a ?? 0) + (b ?? 0)"
	case "nil_when_equal":
		return "if a == b then nil else b"
	}
	panic("c23: step " + kind)
}

func genNilBatch(t *rapid.T) NilBatch {
	var b NilBatch
	for i, n := 0, 6+vgen.Pick(t, 10, "n"); i < n; i++ {
		l := fmt.Sprintf("s%d", i)
		var s NilSeq
		for j, m := 0, 1+vgen.Pick(t, 6, l+"len"); j < m; j++ {
			e := vgen.Pick(t, 10, fmt.Sprintf("%se%d", l, j))
			if vgen.Pick(t, 3, fmt.Sprintf("%sn%d", l, j)) == 0 {
				e = -1
			}
			s.Elems = append(s.Elems, e)
		}
		s.Src = []string{"list", "tuple", "list_iter", "tuple_iter"}[vgen.Pick(t, 4, l+"src")]
		s.Step = nilSteps[vgen.Pick(t, len(nilSteps), l+"step")]
		b.Items = append(b.Items, s)
	}
	return b
}

func showNil(v int) string {
	if v == -1 {
		return "nil"
	}
	return fmt.Sprint(v)
}

func nilOracle(c NilBatch, ctx *pbt.Ctx) error {
	var p strings.Builder
	p.WriteString("def show(v: Int?): String\n  if v == nil\n    \"nil\"\n  else\n    v.to_string\n  end\nend\nvar calls = 0\n")
	var want []string
	for i, s := range c.Items {
		var lits []string
		for _, e := range s.Elems {
			lits = append(lits, showNil(e))
		}
		decl := fmt.Sprintf("var q%d: List[Int?] = [%s]", i, strings.Join(lits, ", "))
		recv := fmt.Sprintf("q%d", i)
		switch s.Src {
		case "tuple", "tuple_iter":
			decl = fmt.Sprintf("var q%d: Tuple[Int?] = %%[%s]", i, strings.Join(lits, ", "))
		}
		if strings.HasSuffix(s.Src, "_iter") {
			recv += ".iter"
		}
		fmt.Fprintf(&p, "%s\ncalls = 0\nr%d := %s.reduce |a, b| ->\n  calls += 1\n  %s\nend\nprintln(\"@%d \" + show(r%d) + \" \" + calls.to_string)\n", decl, i, recv, stepElk(s.Step), i, i)
		acc := s.Elems[0]
		for _, e := range s.Elems[1:] {
			acc = stepModel(s.Step, acc, e)
		}
		want = append(want, fmt.Sprintf("@%d %s %d", i, showNil(acc), len(s.Elems)-1))
	}
	res := nilWorker.Do(sb.Req{Mode: "run", Source: p.String()}, 60*time.Second)
	class, detail := sb.Classify(res)
	switch class {
	case sb.Timeout:
		pbt.Inconclusive()
		return nil
	case sb.Rejected:
		var ds []string
		for _, d := range res.Resp.Runs[0].Diags {
			if d.Severity == "FAIL" {
				ds = append(ds, fmt.Sprintf("%d:%d %s", d.Line, d.Col, d.Msg))
			}
		}
		return fmt.Errorf("GENERATOR: program rejected by the checker: %s\n%s", strings.Join(ds, " | "), p.String())
	case sb.OK:
	default:
		return fmt.Errorf("program over nilable sequences did not finish normally (%s): %s\n%s", class, detail, p.String())
	}
	got := strings.Split(strings.TrimSpace(res.Resp.Runs[0].Stdout), "\n")
	if len(got) != len(want) {
		return fmt.Errorf("%d result lines, want %d\n%s", len(got), len(want), res.Resp.Runs[0].Stdout)
	}
	var key strings.Builder
	for i := range want {
		s := c.Items[i]
		if got[i] != want[i] {
			return fmt.Errorf("%s %v .reduce(%s): result and step calls %q, left fold over the elements gives %q", s.Src, showElems(s.Elems), s.Step, got[i], want[i])
		}
		hasNil := false
		for _, e := range s.Elems {
			hasNil = hasNil || e == -1
		}
		ctx.Label("src:" + s.Src)
		if s.Elems[0] == -1 {
			ctx.Label("first_is_nil")
		}
		if hasNil && len(s.Elems) > 1 {
			fmt.Fprintf(&key, "%s/%s/%v;", s.Src, s.Step, s.Elems)
		}
	}
	if key.Len() > 0 {
		ctx.NonTrivial(key.String())
	}
	return nil
}

func showElems(es []int) []string {
	var out []string
	for _, e := range es {
		out = append(out, showNil(e))
	}
	return out
}

var nilWorker *sb.Worker

func TestReduceNilable(t *testing.T) {
	pbt.Rule("reduce_nilable", "batches of 6..15 sequences of 1..6 elements of type Int? (a third of the elements nil) as ArrayList, ArrayTuple and their iterators, reduced with a step from a family that treats nil as data (keep left / right, nil is sticky, nil from the middle on, sum with nil = 0, nil when equal) and counts its calls; result and call count must equal the left fold over the elements with the first element as initial accumulator; non-trivial = a sequence of at least two elements that contains nil; distinct by (source, step, elements)")
	nilWorker = sb.New("debug")
	defer nilWorker.Close()
	pbt.Run(t, pbt.Prop[NilBatch]{Name: "reduce_nilable", Quick: 150, Thorough: 5000, Gen: genNilBatch, Oracle: nilOracle,
		Minimize: func(c NilBatch) NilBatch {
			for _, s := range c.Items {
				one := NilBatch{Items: []NilSeq{s}}
				if nilOracle(one, &pbt.Ctx{}) != nil {
					return one
				}
			}
			return c
		}})
}
