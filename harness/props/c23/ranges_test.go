package c23

// (a) value-level, in-process: the eight range kinds over Int, Float and Char.

import (
	"fmt"
	"math"
	"math/big"
	"strconv"
	"testing"

	"github.com/elk-language/elk"
	"github.com/elk-language/elk/env"
	"github.com/elk-language/elk/value"
	"github.com/elk-language/elk/vm"
	"pgregory.net/rapid"

	"verif/internal/pbt"
	"verif/internal/vgen"
)

var th *vm.Thread

func TestMain(m *testing.M) {
	if env.ELKPATH == "" {
		env.ELKPATH = "/repo"
	}
	elk.InitGlobalEnvironment()
	th = vm.New()
	pbt.Main(m, "C23")
}

// range kinds
const (
	rkClosed = iota
	rkOpen
	rkLeftOpen
	rkRightOpen
	rkBeginlessClosed
	rkBeginlessOpen
	rkEndlessClosed
	rkEndlessOpen
)

var rkName = []string{"closed", "open", "left_open", "right_open", "beginless_closed", "beginless_open", "endless_closed", "endless_open"}
var rkOp = []string{"...", "<.<", "<..", "..<", "...", "..<", "...", "<.."}

func hasStart(k int) bool   { return k != rkBeginlessClosed && k != rkBeginlessOpen }
func hasEnd(k int) bool     { return k != rkEndlessClosed && k != rkEndlessOpen }
func leftOpen(k int) bool   { return k == rkOpen || k == rkLeftOpen || k == rkEndlessOpen }
func rightOpen(k int) bool  { return k == rkOpen || k == rkRightOpen || k == rkBeginlessOpen }
func iterableKind(k int) bool { return hasStart(k) }

// Scalar is an Int (decimal), a Float (bits in hex) or a Char (code point).
type Scalar struct {
	T string `json:"t"` // int float char
	S string `json:"s"`
}

func (s Scalar) Build() value.Value {
	switch s.T {
	case "int":
		return vgen.ElkInt(bi(s.S))
	case "float":
		u, _ := strconv.ParseUint(s.S, 16, 64)
		return value.Float(math.Float64frombits(u)).ToValue()
	case "char":
		n, _ := strconv.Atoi(s.S)
		return value.Char(rune(n)).ToValue()
	}
	panic("c23: scalar " + s.T)
}

func (s Scalar) float() float64 {
	u, _ := strconv.ParseUint(s.S, 16, 64)
	return math.Float64frombits(u)
}

// cmp compares two scalars of the same type; ok=false when unordered (NaN).
func cmp(a, b Scalar) (c int, ok bool) {
	switch a.T {
	case "float":
		x, y := a.float(), b.float()
		switch {
		case x != x || y != y:
			return 0, false
		case x < y:
			return -1, true
		case x > y:
			return 1, true
		}
		return 0, true
	}
	return bi(a.S).Cmp(bi(b.S)), true // chars are stored as decimal code points
}

func (s Scalar) String() string {
	if s.T == "float" {
		return fmt.Sprintf("float(%v)", s.float())
	}
	return s.T + "(" + s.S + ")"
}

type RangeCase struct {
	Kind   int      `json:"kind"`
	Lo     Scalar   `json:"lo"`
	Hi     Scalar   `json:"hi"`
	Probes []Scalar `json:"probes"`
	Steps  int      `json:"steps"` // how many `next` calls are checked at most
}

func buildRange(k int, lo, hi value.Value) value.Value {
	switch k {
	case rkClosed:
		return value.Ref(value.NewClosedRange(lo, hi))
	case rkOpen:
		return value.Ref(value.NewOpenRange(lo, hi))
	case rkLeftOpen:
		return value.Ref(value.NewLeftOpenRange(lo, hi))
	case rkRightOpen:
		return value.Ref(value.NewRightOpenRange(lo, hi))
	case rkBeginlessClosed:
		return value.Ref(value.NewBeginlessClosedRange(hi))
	case rkBeginlessOpen:
		return value.Ref(value.NewBeginlessOpenRange(hi))
	case rkEndlessClosed:
		return value.Ref(value.NewEndlessClosedRange(lo))
	case rkEndlessOpen:
		return value.Ref(value.NewEndlessOpenRange(lo))
	}
	panic("c23: range kind")
}

// char code points the generator uses: away from the surrogate gap and the
// top of the code space, where `++` on a Char is not pinned down by any doc.
func genChar(t *rapid.T, label string) int {
	base := rapid.SampledFrom([]int{0, 0x30, 0x61, 0x7e, 0xfe, 0x7fe, 0xfffd, 0x1f600, 0x10f000}).Draw(t, label+"_base")
	return base + rapid.IntRange(0, 12).Draw(t, label+"_off")
}

func genRangeCase(t *rapid.T) RangeCase {
	c := RangeCase{Kind: vgen.Pick(t, 8, "kind"), Steps: rapid.IntRange(1, 50).Draw(t, "steps")}
	typ := []string{"int", "int", "float", "char"}[vgen.Pick(t, 4, "type")]
	// width of the range: empty, inverted, one element, small
	w := rapid.SampledFrom([]int{-3, -1, 0, 1, 2, 3, 5, 9, 40, 70}).Draw(t, "width")
	switch typ {
	case "int":
		lo := vgen.BigInt(t, "lo")
		if rapid.IntRange(0, 2).Draw(t, "near63") == 0 {
			// straddle the SmallInt/BigInt boundary
			lo = new(big.Int).Lsh(big.NewInt(1), 63)
			if rapid.Bool().Draw(t, "neg63") {
				lo.Neg(lo)
			}
			lo.Add(lo, big.NewInt(int64(rapid.IntRange(-6, 3).Draw(t, "d63"))))
		}
		hi := new(big.Int).Add(lo, big.NewInt(int64(w)))
		c.Lo, c.Hi = Scalar{"int", lo.String()}, Scalar{"int", hi.String()}
		for i := 0; i < 6; i++ {
			var p *big.Int
			switch rapid.IntRange(0, 3).Draw(t, "pk") {
			case 0:
				p = new(big.Int).Add(lo, big.NewInt(int64(rapid.IntRange(-2, 2).Draw(t, "pd"))))
			case 1:
				p = new(big.Int).Add(hi, big.NewInt(int64(rapid.IntRange(-2, 2).Draw(t, "pd"))))
			case 2:
				p = new(big.Int).Add(lo, big.NewInt(int64(rapid.IntRange(-3, w+3+6).Draw(t, "pm"))))
			default:
				p = vgen.BigInt(t, "p")
			}
			c.Probes = append(c.Probes, Scalar{"int", p.String()})
		}
	case "float":
		lo := vgen.Float64(t, "lo")
		var hi float64
		switch rapid.IntRange(0, 3).Draw(t, "hik") {
		case 0:
			hi = vgen.Float64(t, "hi")
		case 1:
			hi = lo
		default:
			hi = lo + float64(w)/2
		}
		fs := func(f float64) Scalar { return Scalar{"float", strconv.FormatUint(math.Float64bits(f), 16)} }
		c.Lo, c.Hi = fs(lo), fs(hi)
		for i := 0; i < 6; i++ {
			var p float64
			switch rapid.IntRange(0, 4).Draw(t, "pk") {
			case 0:
				p = lo
			case 1:
				p = hi
			case 2:
				p = math.Nextafter(lo, math.Inf(rapid.SampledFrom([]int{-1, 1}).Draw(t, "dir")))
			case 3:
				p = math.Nextafter(hi, math.Inf(rapid.SampledFrom([]int{-1, 1}).Draw(t, "dir")))
			default:
				p = vgen.Float64(t, "p")
			}
			c.Probes = append(c.Probes, fs(p))
		}
	case "char":
		lo := genChar(t, "lo")
		hi := lo + w
		if hi < 0 {
			hi = 0
		}
		c.Lo, c.Hi = Scalar{"char", strconv.Itoa(lo)}, Scalar{"char", strconv.Itoa(hi)}
		for i := 0; i < 6; i++ {
			p := lo + rapid.IntRange(-3, w+6).Draw(t, "pm")
			if rapid.IntRange(0, 4).Draw(t, "pk") == 0 {
				p = genChar(t, "p")
			}
			if p < 0 {
				p = 0
			}
			c.Probes = append(c.Probes, Scalar{"char", strconv.Itoa(p)})
		}
	}
	return c
}

// inRange is the bounds predicate of the property statement.
func inRange(k int, lo, hi, x Scalar) bool {
	if hasStart(k) {
		c, ok := cmp(x, lo)
		if !ok || c < 0 || (c == 0 && leftOpen(k)) {
			return false
		}
	}
	if hasEnd(k) {
		c, ok := cmp(x, hi)
		if !ok || c > 0 || (c == 0 && rightOpen(k)) {
			return false
		}
	}
	return true
}

func sym(s string) value.Symbol { return value.ToSymbol(s) }

func call(recv value.Value, name string, args ...value.Value) (value.Value, value.Value) {
	m := recv.DirectClass().LookupMethod(sym(name))
	if m == nil {
		return value.Undefined, value.Ref(value.NewError(value.NoMethodErrorClass, "no method "+name))
	}
	return th.CallMethod(m, append([]value.Value{recv}, args...)...)
}

func truth(v value.Value) (bool, bool) {
	if v == value.True.ToValue() {
		return true, true
	}
	if v == value.False.ToValue() {
		return false, true
	}
	return false, false
}

func errText(e value.Value) string {
	if e.IsUndefined() {
		return "<none>"
	}
	return e.Inspect()
}

// scalarOf reads an Elk value back as a scalar of type t.
func scalarOf(t string, v value.Value) (Scalar, bool) {
	switch t {
	case "int":
		if b, norm, ok := vgen.FromElkInt(v); ok && norm {
			return Scalar{"int", b.String()}, true
		}
	case "char":
		if v.IsChar() {
			return Scalar{"char", strconv.Itoa(int(v.AsChar()))}, true
		}
	}
	return Scalar{}, false
}

func succ(s Scalar) Scalar {
	n := bi(s.S)
	return Scalar{s.T, n.Add(n, big.NewInt(1)).String()}
}

func rangeOracle(c RangeCase, ctx *pbt.Ctx) error {
	lo, hi := c.Lo.Build(), c.Hi.Build()
	r := buildRange(c.Kind, lo, hi)
	name := rkName[c.Kind]
	desc := fmt.Sprintf("%s range %s (lo=%v hi=%v)", name, r.Inspect(), c.Lo, c.Hi)
	ctx.Label("kind:" + name)
	ctx.Label("type:" + c.Lo.T)

	// openness flags and bounds
	for _, f := range []struct {
		m    string
		want bool
	}{{"is_left_open", leftOpen(c.Kind) || !hasStart(c.Kind)}, {"is_left_closed", !leftOpen(c.Kind) && hasStart(c.Kind)},
		{"is_right_open", rightOpen(c.Kind) || !hasEnd(c.Kind)}, {"is_right_closed", !rightOpen(c.Kind) && hasEnd(c.Kind)}} {
		v, err := call(r, f.m)
		got, ok := truth(v)
		if !err.IsUndefined() || !ok || got != f.want {
			return fmt.Errorf("%s: %s returned %s (error %s), want %v", desc, f.m, v.Inspect(), errText(err), f.want)
		}
	}
	for _, b := range []struct {
		m    string
		has  bool
		want value.Value
	}{{"start", hasStart(c.Kind), lo}, {"end", hasEnd(c.Kind), hi}} {
		v, err := call(r, b.m)
		if !err.IsUndefined() {
			return fmt.Errorf("%s: %s raised %s", desc, b.m, errText(err))
		}
		if b.has {
			if v.IsUndefined() || v.Inspect() != b.want.Inspect() {
				return fmt.Errorf("%s: %s returned %s, want %s", desc, b.m, v.Inspect(), b.want.Inspect())
			}
		} else if v != value.Nil {
			return fmt.Errorf("%s: %s of a range without that bound returned %s, documented: nil", desc, b.m, v.Inspect())
		}
	}

	// contains vs. the bounds predicate (also the pattern-matching variant #contains,
	// which for a value of the bounds' class must agree)
	nontrivial := false
	for _, p := range c.Probes {
		want := inRange(c.Kind, c.Lo, c.Hi, p)
		for _, m := range []string{"contains", "#contains"} {
			v, err := call(r, m, p.Build())
			got, ok := truth(v)
			if !err.IsUndefined() || !ok {
				return fmt.Errorf("%s: %s(%v) returned %s, error %s", desc, m, p, v.Inspect(), errText(err))
			}
			if got != want {
				return fmt.Errorf("%s: %s(%v) = %v, bounds predicate says %v", desc, m, p, got, want)
			}
		}
		if hasStart(c.Kind) {
			if d, ok := cmp(p, c.Lo); ok && d == 0 {
				nontrivial = true
			}
		}
		if hasEnd(c.Kind) {
			if d, ok := cmp(p, c.Hi); ok && d == 0 {
				nontrivial = true
			}
		}
	}

	// == : reflexive on a rebuilt range, false against the neighbouring kind
	if c.Lo.T != "float" || (c.Lo.float() == c.Lo.float() && c.Hi.float() == c.Hi.float()) {
		v, err := call(r, "==", buildRange(c.Kind, c.Lo.Build(), c.Hi.Build()))
		if got, ok := truth(v); !err.IsUndefined() || !ok || !got {
			return fmt.Errorf("%s: r == (same range rebuilt) returned %s, error %s", desc, v.Inspect(), errText(err))
		}
		v, err = call(r, "==", buildRange((c.Kind+1)%8, c.Lo.Build(), c.Hi.Build()))
		if got, ok := truth(v); !err.IsUndefined() || !ok || got {
			return fmt.Errorf("%s: r == (a %s range) returned %s, error %s", desc, rkName[(c.Kind+1)%8], v.Inspect(), errText(err))
		}
	}

	// iteration
	if c.Lo.T == "float" {
		if nontrivial {
			ctx.NonTrivial(fmt.Sprint(c))
		}
		return nil // Float is not Incrementable: the checker rejects iteration (see TestNotIterable)
	}
	if !iterableKind(c.Kind) {
		if m := r.DirectClass().LookupMethod(sym("iter")); m != nil {
			return fmt.Errorf("%s: a beginless range has an `iter` method", desc)
		}
		if nontrivial {
			ctx.NonTrivial(fmt.Sprint(c))
		}
		return nil
	}
	// model sequence (prefix)
	first := c.Lo
	if leftOpen(c.Kind) {
		first = succ(first)
	}
	var model []Scalar
	for x := first; len(model) < c.Steps; x = succ(x) {
		if !inRange(c.Kind, c.Lo, c.Hi, x) {
			break
		}
		model = append(model, x)
	}
	finished := len(model) < c.Steps // the model sequence ended within the window
	it, err := call(r, "iter")
	if !err.IsUndefined() {
		return fmt.Errorf("%s: iter raised %s", desc, errText(err))
	}
	check := func(how string, i int, v, e value.Value) error {
		if i < len(model) {
			if !e.IsUndefined() {
				return fmt.Errorf("%s: %s: element %d: raised %s, want %v", desc, how, i, errText(e), model[i])
			}
			got, ok := scalarOf(c.Lo.T, v)
			if !ok || got != model[i] {
				return fmt.Errorf("%s: %s: element %d is %s, want %v", desc, how, i, v.Inspect(), model[i])
			}
			return nil
		}
		if e.IsUndefined() {
			return fmt.Errorf("%s: %s: yielded %s after the %d elements of the model sequence", desc, how, v.Inspect(), len(model))
		}
		if e != sym("stop_iteration").ToValue() {
			return fmt.Errorf("%s: %s: ended with %s instead of :stop_iteration", desc, how, errText(e))
		}
		return nil
	}
	n := len(model)
	if finished {
		n++ // one more call must signal the end
	}
	for i := 0; i < n; i++ {
		v, e := call(it, "next")
		if err := check("next", i, v, e); err != nil {
			return err
		}
	}
	if finished {
		// exhausted iterators keep signalling the end
		v, e := call(it, "next")
		if err := check("next after the end", len(model), v, e); err != nil {
			return err
		}
	}
	// reset restarts the sequence
	if _, e := call(it, "reset"); !e.IsUndefined() {
		return fmt.Errorf("%s: reset raised %s", desc, errText(e))
	}
	if len(model) > 0 {
		v, e := call(it, "next")
		if err := check("next after reset", 0, v, e); err != nil {
			return err
		}
	}
	// the generic iteration driver over the range itself
	i := 0
	for v, e := range vm.Iterate(th, r) {
		if i >= len(model) {
			if finished {
				return fmt.Errorf("%s: vm.Iterate yielded %s (error %s) after the end of the model sequence", desc, v.Inspect(), errText(e))
			}
			break
		}
		if err := check("vm.Iterate", i, v, e); err != nil {
			return err
		}
		i++
	}
	if i < len(model) {
		return fmt.Errorf("%s: vm.Iterate stopped after %d elements, model has %d", desc, i, len(model))
	}
	ctx.Label(fmt.Sprintf("len:%s", lenClass(len(model), finished)))
	if nontrivial || len(model) > 0 {
		ctx.NonTrivial(fmt.Sprint(c))
	}
	return nil
}

func lenClass(n int, finished bool) string {
	switch {
	case !finished:
		return "prefix"
	case n == 0:
		return "0"
	case n == 1:
		return "1"
	case n <= 5:
		return "2-5"
	}
	return ">5"
}

func TestRanges(t *testing.T) {
	pbt.Rule("ranges", "the eight range kinds over Int (small / big / straddling +-2^63, negative), Float (specials, NaN, infinities) and Char (ASCII to astral, away from the surrogate gap); width in {inverted, empty, 1, small, 70}; six probes at / next to the bounds or random: contains and #contains must equal the bounds predicate; is_left_open & co, start/end (nil for a missing bound), == against a rebuilt range and against the neighbouring kind; for Int and Char: next ... :stop_iteration, reset and vm.Iterate must give exactly lo(+1), ..., (finite prefix <= 50 for long / endless ranges); beginless ranges must have no iter; non-trivial = a probe exactly on a bound or a non-empty iteration")
	pbt.Run(t, pbt.Prop[RangeCase]{Name: "ranges", Quick: 60000, Thorough: 1200000, Gen: genRangeCase, Oracle: rangeOracle,
		Sample: func(c RangeCase) any { return fmt.Sprintf("%s %v %v probes=%v steps=%d", rkName[c.Kind], c.Lo, c.Hi, c.Probes, c.Steps) }})
}
