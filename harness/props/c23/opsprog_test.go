package c23

// (b2) generic iterable operations, program level: a generated Elk program
// builds each iterable (also the kinds that only exist in bytecode: generators,
// user classes including Iterable::Base, for-in loops), applies the operations
// with Elk closures and prints `inspect` of every result guarded by do/catch.
// The worker subprocess runs the program; every line is compared with the model.

import (
	"fmt"
	"regexp"
	"sort"
	"strings"
	"testing"
	"time"

	"pgregory.net/rapid"

	"verif/internal/pbt"
	sb "verif/internal/sandbox"
)

var progKinds = []string{"list", "tuple", "set", "map", "record", "list_iter", "tuple_iter", "set_iter", "map_iter", "record_iter",
	"range_iter", "range_iter", "range", "gen", "gen", "chan", "rchan", "custom", "custom"}

type Prog struct {
	Iters []Iter `json:"iters"`
}

const prelude = `def sh(v: Inspectable): String then v.inspect
def *gen(l: List[Int]): Int
  i := 0
  while i < l.length - 1
    yield l[i]
    i += 1
  end
  l[l.length - 1]
end
def mkch(l: List[Int]): Channel[Int]
  ch := Channel::[Int](l.length + 1)
  for x in l
    ch << x
  end
  ch.close
  ch
end
class Wrap
  include Iterable::Base[Int]
  attr iter: Iterator[Int]
  init(@iter: Iterator[Int]); end
  def inspect: String then "Wrap{}"
end
acc := ""
res := ""
var empty: List[Int] = []
`

func intList(es []string) string { return "[" + strings.Join(es, ", ") + "]" }

// listArg is a List[Int] argument expression (a bare `[]` would be a List[never])
func listArg(es []string) string {
	if len(es) == 0 {
		return "empty"
	}
	return intList(es)
}

func typedEmpty(kind string) string {
	switch kind {
	case "list", "list_iter":
		return "List[Int] = []"
	case "tuple", "tuple_iter":
		return "Tuple[Int] = %[]"
	case "set", "set_iter":
		return "Set[Int] = ^[]"
	case "map", "map_iter":
		return "Map[Int, Int] = {}"
	}
	return "Record[Int, Int] = %{}"
}

func literal(it Iter) string {
	switch it.Kind {
	case "list", "list_iter":
		return intList(it.Elems)
	case "tuple", "tuple_iter":
		return "%" + intList(it.Elems)
	case "set", "set_iter":
		return "^" + intList(it.Elems)
	}
	var p []string
	for i := range it.Elems {
		p = append(p, it.Elems[i]+" => "+it.Vals[i])
	}
	if it.Kind == "record" || it.Kind == "record_iter" {
		return "%{" + strings.Join(p, ", ") + "}"
	}
	return "{" + strings.Join(p, ", ") + "}"
}

func rangeLit(it Iter) string {
	if !hasEnd(it.RK) {
		return "(" + it.Lo + rkOp[it.RK] + ")"
	}
	return "(" + it.Lo + rkOp[it.RK] + it.Hi + ")"
}

// setup returns the statements that bind the iterable (if it is reusable), the
// expression iterated by the for-in baseline and the receiver expression of the operations.
func setup(i int, it Iter) (decl string, forin string, recv string) {
	v := fmt.Sprintf("v%d", i)
	switch it.Kind {
	case "list", "tuple", "set", "map", "record", "list_iter", "tuple_iter", "set_iter", "map_iter", "record_iter":
		if len(it.Elems) == 0 {
			decl = "var " + v + ": " + typedEmpty(it.Kind)
		} else {
			decl = v + " := " + literal(it)
		}
		if strings.HasSuffix(it.Kind, "_iter") {
			return decl, v + ".iter", v + ".iter"
		}
		return decl, v, v
	case "range":
		return v + " := " + rangeLit(it), v, v
	case "range_iter":
		if hasEnd(it.RK) {
			return "", strings.Trim(rangeLit(it), "()"), rangeLit(it) + ".iter" // for-in over a bare range literal
		}
		return "", rangeLit(it), rangeLit(it) + ".iter"
	case "gen":
		e := "gen(" + listArg(it.Elems) + ")"
		return "", e, e
	case "chan":
		e := "mkch(" + listArg(it.Elems) + ")"
		return "", e, e
	case "rchan":
		e := "mkch(" + listArg(it.Elems) + ").readonly"
		return "", e, e
	case "custom":
		e := "Wrap(" + listArg(it.Elems) + ".iter)"
		return "", e, e
	}
	panic("c23: kind " + it.Kind)
}

func guarded(expr string) string {
	return "res = do\n  sh(" + expr + ")\ncatch Error() as e\n  \"ERR ${e.class.name} | ${e.message}\"\ncatch Symbol() as s\n  \"SYM ${s.inspect}\"\ncatch e\n  \"THROWN\"\nend\nprintln(\"@\" + res)\n"
}

// Source renders the program; line i of its output is described by what[i].
func (p Prog) Source() (src string, what []string) {
	var b strings.Builder
	b.WriteString(prelude)
	for i, it := range p.Iters {
		decl, forin, recv := setup(i, it)
		if decl != "" {
			b.WriteString(decl + "\n")
		}
		_, _, infinite := it.Model()
		// baseline: what a for-in loop sees
		b.WriteString("acc = \"\"\n")
		if infinite {
			fmt.Fprintf(&b, "n%d := 0\nfor x in %s\n  break if n%d >= %d\n  n%d += 1\n  acc = acc + x.inspect + \";\"\nend\n", i, forin, i, infiniteWindow, i)
		} else {
			fmt.Fprintf(&b, "for x in %s then acc = acc + x.inspect + \";\"\n", forin)
		}
		b.WriteString("println(\"@\" + acc)\n")
		what = append(what, fmt.Sprintf("for x in %s", forin))
		for _, op := range it.Ops {
			b.WriteString(guarded(recv + op.ElkCall()))
			what = append(what, recv+op.ElkCall())
		}
	}
	return b.String(), what
}

var pairRe = regexp.MustCompile(`^Std::Pair\((-?\d+), (-?\d+)\)$`)
var intRe = regexp.MustCompile(`^-?\d+$`)
var capRe = regexp.MustCompile(`\]:\d+$`)
var commaNlRe = regexp.MustCompile(`,\n\s*`)
var nlRe = regexp.MustCompile(`\n\s*`)

func parseBaseline(line string) ([]E, error) {
	var r []E
	for _, f := range strings.Split(line, ";") {
		if f == "" {
			continue
		}
		if m := pairRe.FindStringSubmatch(f); m != nil {
			r = append(r, PairE(bi(m[1]), bi(m[2])))
		} else if intRe.MatchString(f) {
			r = append(r, I(bi(f)))
		} else {
			return nil, fmt.Errorf("unexpected element %q", f)
		}
	}
	return r, nil
}

// normalise brings a printed result into the model's canonical form: the
// spare-capacity suffix of ArrayList#inspect is dropped, set elements are
// sorted, an error is reduced to its class.
func normalise(line string) string {
	switch {
	case strings.HasPrefix(line, "ERR "):
		if i := strings.Index(line, " | "); i >= 0 {
			return line[:i]
		}
	case strings.HasPrefix(line, "^[") && strings.HasSuffix(line, "]"):
		inner := line[2 : len(line)-1]
		if inner == "" {
			return line
		}
		e := strings.Split(inner, ", ")
		sort.Strings(e)
		return "^[" + strings.Join(e, ", ") + "]"
	case strings.HasPrefix(line, "["):
		return capRe.ReplaceAllString(line, "]")
	}
	return line
}

var worker *sb.Worker

func progOracle(p Prog, ctx *pbt.Ctx) error {
	src, what := p.Source()
	res := worker.Do(sb.Req{Mode: "run", Source: src}, 60*time.Second)
	class, detail := sb.Classify(res)
	ctx.Label("outcome:" + class)
	switch class {
	case sb.Timeout:
		pbt.Inconclusive()
		return nil
	case sb.Fatal, sb.GoPanic, sb.StackLimit:
		return fmt.Errorf("interpreter crashed (%s):\n%s\n--- program\n%s", class, clip(detail, 1500), src)
	case sb.Rejected:
		var ds []string
		for _, d := range res.Resp.Runs[0].Diags {
			if d.Severity == "FAIL" {
				ds = append(ds, fmt.Sprintf("%d:%d %s", d.Line, d.Col, d.Msg))
			}
		}
		return fmt.Errorf("program rejected by the checker: %s\n--- program\n%s", clip(strings.Join(ds, " | "), 1500), src)
	case sb.ElkError:
		return fmt.Errorf("uncaught error %s\n--- program\n%s", clip(detail, 600), src)
	}
	// every record starts with "@" at the beginning of a line; inspect of a long collection spans several lines
	out := strings.Split(strings.TrimSuffix(strings.TrimPrefix(res.Resp.Runs[0].Stdout, "@"), "\n"), "\n@")
	for i := range out {
		out[i] = nlRe.ReplaceAllString(commaNlRe.ReplaceAllString(out[i], ", "), "")
	}
	if len(out) != len(what) {
		return fmt.Errorf("program printed %d lines, expected %d\n--- stdout\n%s\n--- program\n%s", len(out), len(what), clip(res.Resp.Runs[0].Stdout, 1500), src)
	}
	ln := 0
	nt := false
	for _, it := range p.Iters {
		ctx.Label("kind:" + it.Kind)
		seq, ordered, infinite := it.Model()
		if infinite {
			ctx.Label("infinite")
		}
		got, err := parseBaseline(out[ln])
		if err == nil {
			err = sameElements(got, seq, ordered)
		}
		if err != nil {
			return fmt.Errorf("`%s` (%s %s): %v; printed %q\n--- program\n%s", what[ln], it.Kind, describe(it), err, out[ln], src)
		}
		ln++
		seq = got
		for _, op := range it.Ops {
			if bigCount(op) && pbt.KnownActive(kBigCount) {
				ctx.Excluded(kBigCount)
				ln++
				continue
			}
			var want Res
			if it.Kind == "range" {
				want = Res{S: boolS(inRange(it.RK, Scalar{"int", it.Lo}, Scalar{"int", it.Hi}, Scalar{"int", op.N}))}
			} else {
				want = Apply(it.Kind, seq, op)
			}
			have := normalise(out[ln])
			ctx.Label("op:" + op.Op)
			if have != want.String() {
				return fmt.Errorf("`%s` printed %q, the same operation on the element list %v gives %q (%s %s)\n--- program\n%s", what[ln], out[ln], strs(seq), want.String(), it.Kind, describe(it), src)
			}
			if want.Err != "" {
				ctx.Label("error:" + want.Err)
			}
			if it.Kind == "range" || (len(seq) > 0 && boundary(seq, op)) {
				nt = true
			}
			ln++
		}
	}
	if nt {
		ctx.NonTrivial(src)
	}
	return nil
}

func clip(s string, n int) string {
	if len(s) > n {
		return s[:n] + "…"
	}
	return s
}

func TestOpsProgram(t *testing.T) {
	pbt.Rule("ops_program", "Elk programs with 2..4 iterables (list, tuple, set, map, record literals and their .iter, iterators of the six iterable range kinds incl. endless, ranges themselves (for-in and contains), generators, closed channels and read-only channels, a user class including Iterable::Base) and 3..9 operations each (same operation / argument generator as ops_native, predicates and functions as Elk closures); every result is printed through inspect inside do/catch; the for-in loop over the iterable must yield the model sequence (content for sets / maps), every printed result must equal the operation on the Go slice (value, container class, error class); a crash, a checker rejection or an uncaught error is a failure; non-trivial = as ops_native, or a range probed at its bounds; distinct by source")
	worker = sb.New("debug")
	defer worker.Close()
	pbt.Run(t, pbt.Prop[Prog]{Name: "ops_program", Quick: 2400, Thorough: 20000,
		Gen: func(t *rapid.T) Prog {
			n := rapid.IntRange(2, 4).Draw(t, "iters")
			var p Prog
			for i := 0; i < n; i++ {
				p.Iters = append(p.Iters, genIter(t, progKinds))
			}
			return p
		},
		Oracle: progOracle,
		Sample: func(p Prog) any { s, _ := p.Source(); return strings.TrimPrefix(s, prelude) }})
}

// ---------------------------------------------------------------------------
// ranges that must not be iterable: beginless ranges and ranges over Float

type NotIter struct {
	Kind int    `json:"kind"`
	Type string `json:"type"` // int float char
	Form int    `json:"form"` // 0 for-in literal, 1 for-in variable, 2 .iter
	A    int    `json:"a"`
	W    int    `json:"w"`
}

func (c NotIter) lit() string {
	v := func(n int) string {
		switch c.Type {
		case "float":
			return fmt.Sprintf("%d.5", n)
		case "char":
			return "`" + string(rune('a'+(n%20+20)%20)) + "`"
		}
		return fmt.Sprint(n)
	}
	lo, hi := v(c.A), v(c.A+c.W)
	switch {
	case !hasStart(c.Kind):
		return rkOp[c.Kind] + hi
	case !hasEnd(c.Kind):
		return lo + rkOp[c.Kind]
	}
	return lo + rkOp[c.Kind] + hi
}

func (c NotIter) Source() string {
	switch c.Form {
	case 0:
		return "for x in (" + c.lit() + ")\n  println(x.inspect)\n  break\nend\n"
	case 1:
		return "r := " + c.lit() + "\nfor x in r\n  println(x.inspect)\n  break\nend\n"
	}
	return "println((" + c.lit() + ").iter.is_empty.inspect)\n"
}

func (c NotIter) iterable() bool { return hasStart(c.Kind) && c.Type != "float" }

func notIterOracle(c NotIter, ctx *pbt.Ctx) error {
	src := c.Source()
	res := worker.Do(sb.Req{Mode: "run", Source: src}, 60*time.Second)
	class, detail := sb.Classify(res)
	ctx.Label("outcome:" + class)
	ctx.Label("kind:" + rkName[c.Kind] + "/" + c.Type)
	switch class {
	case sb.Timeout:
		pbt.Inconclusive()
		return nil
	case sb.Fatal, sb.GoPanic, sb.StackLimit:
		return fmt.Errorf("interpreter crashed (%s):\n%s\n--- program\n%s", class, clip(detail, 1500), src)
	}
	if c.iterable() {
		// positive control: the same shape over an incrementable type runs
		if class != sb.OK {
			return fmt.Errorf("iterating %s ended as %s (%s)\n--- program\n%s", c.lit(), class, clip(detail, 300), src)
		}
		return nil
	}
	if class != sb.Rejected {
		return fmt.Errorf("iterating %s (not iterable: beginless, or Float is not Incrementable) was not rejected by the checker: outcome %s, stdout %q\n--- program\n%s", c.lit(), class, clip(res.Resp.Runs[0].Stdout, 300), src)
	}
	ctx.NonTrivial(src)
	return nil
}

func TestNotIterable(t *testing.T) {
	pbt.Rule("not_iterable", "for-in over a range literal / a range variable and an explicit .iter, for the eight range kinds over Int, Float and Char: beginless ranges and Float ranges must be rejected by the type checker (never run, never crash); the same shapes over Int / Char ranges with a start must run (positive control); non-trivial = a shape that must be rejected; distinct by source")
	worker = sb.New("debug")
	defer worker.Close()
	pbt.Run(t, pbt.Prop[NotIter]{Name: "not_iterable", Quick: 160, Thorough: 1600,
		Gen: func(t *rapid.T) NotIter {
			c := NotIter{Kind: rapid.IntRange(0, 7).Draw(t, "kind"), Type: rapid.SampledFrom([]string{"int", "float", "char"}).Draw(t, "type"),
				Form: rapid.IntRange(0, 2).Draw(t, "form"), A: rapid.IntRange(-5, 9).Draw(t, "a"), W: rapid.IntRange(0, 4).Draw(t, "w")}
			return c
		},
		Oracle: notIterOracle,
		Sample: func(c NotIter) any { return c.Source() }})
}
