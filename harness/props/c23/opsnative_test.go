package c23

// (b1) generic iterable operations, in process: the native implementations of
// Iterable::FiniteBase / Base, ImmutableCollection::Base, Collection::Base and
// the overrides of the concrete collections are called by name with native
// closures and compared with the model.

import (
	"fmt"
	"sort"
	"strings"
	"testing"

	"github.com/elk-language/elk/value"
	"github.com/elk-language/elk/vm"
	"pgregory.net/rapid"

	"verif/internal/pbt"
	"verif/internal/vgen"
)

var nativeKinds = []string{"list", "tuple", "set", "map", "record", "list_iter", "tuple_iter", "set_iter", "map_iter", "record_iter", "range_iter", "chan", "rchan"}

func elemValue(e E) value.Value {
	if e.P {
		return value.Ref(value.NewPairOfValue(vgen.ElkInt(e.K), vgen.ElkInt(e.V)))
	}
	return vgen.ElkInt(e.K)
}

func toE(v value.Value) (E, bool) {
	if b, norm, ok := vgen.FromElkInt(v); ok && norm {
		return I(b), true
	}
	if v.IsReference() {
		if p, ok := v.AsReference().(value.Pair); ok {
			k, _, ok1 := vgen.FromElkInt(p.Key())
			w, _, ok2 := vgen.FromElkInt(p.Value())
			if ok1 && ok2 {
				return PairE(k, w), true
			}
		}
	}
	return E{}, false
}

// buildIter constructs a fresh receiver for one operation.
func buildIter(it Iter) (value.Value, error) {
	ints := func() []value.Value {
		var r []value.Value
		for _, s := range it.Elems {
			r = append(r, vgen.ElkInt(bi(s)))
		}
		return r
	}
	iterOf := func(v value.Value) (value.Value, error) {
		i, err := call(v, "iter")
		if !err.IsUndefined() {
			return value.Undefined, fmt.Errorf("iter raised %s", errText(err))
		}
		return i, nil
	}
	switch it.Kind {
	case "list", "list_iter":
		l := value.NewArrayListOfValue(0)
		for _, v := range ints() {
			l.Append(v)
		}
		if it.Kind == "list_iter" {
			return iterOf(value.Ref(l))
		}
		return value.Ref(l), nil
	case "tuple", "tuple_iter":
		l := value.NewArrayTupleOfValue(0)
		for _, v := range ints() {
			l.Append(v)
		}
		if it.Kind == "tuple_iter" {
			return iterOf(value.Ref(l))
		}
		return value.Ref(l), nil
	case "set", "set_iter":
		s := vm.NewHashSetOfValue(0)
		for _, v := range ints() {
			if _, err := s.AppendVal(th, v); !err.IsUndefined() {
				return value.Undefined, fmt.Errorf("set insert raised %s", errText(err))
			}
		}
		if it.Kind == "set_iter" {
			return iterOf(value.Ref(s))
		}
		return value.Ref(s), nil
	case "map", "map_iter":
		m := vm.NewHashMapOfValue(0)
		for i, k := range ints() {
			if err := vm.HashMapOfValueSet(th, m, k, vgen.ElkInt(bi(it.Vals[i]))); !err.IsUndefined() {
				return value.Undefined, fmt.Errorf("map insert raised %s", errText(err))
			}
		}
		if it.Kind == "map_iter" {
			return iterOf(value.Ref(m))
		}
		return value.Ref(m), nil
	case "record", "record_iter":
		m := vm.NewHashRecordOfValue(0)
		for i, k := range ints() {
			if err := vm.HashRecordOfValueSet(th, m, k, vgen.ElkInt(bi(it.Vals[i]))); !err.IsUndefined() {
				return value.Undefined, fmt.Errorf("record insert raised %s", errText(err))
			}
		}
		if it.Kind == "record_iter" {
			return iterOf(value.Ref(m))
		}
		return value.Ref(m), nil
	case "range_iter":
		return iterOf(buildRange(it.RK, vgen.ElkInt(bi(it.Lo)), vgen.ElkInt(bi(it.Hi))))
	case "chan", "rchan":
		ch := value.NewChannelOfValue(len(it.Elems) + 1)
		for _, v := range ints() {
			if err := ch.Push(v); !err.IsUndefined() {
				return value.Undefined, fmt.Errorf("channel push raised %s", errText(err))
			}
		}
		if err := ch.Close(); !err.IsUndefined() {
			return value.Undefined, fmt.Errorf("channel close raised %s", errText(err))
		}
		if it.Kind == "rchan" {
			return value.Ref(ch.ToReadChannelOfValue()), nil
		}
		return value.Ref(ch), nil
	}
	return value.Undefined, fmt.Errorf("c23: kind %s", it.Kind)
}

// canon renders a result value in the model's canonical form.
func canon(v value.Value) string {
	if v.IsUndefined() {
		return "<undefined>"
	}
	if e, ok := toE(v); ok {
		return e.String()
	}
	switch v {
	case value.Nil:
		return "nil"
	case value.True.ToValue():
		return "true"
	case value.False.ToValue():
		return "false"
	}
	if v.IsReference() {
		elems := func() []string {
			var r []string
			for x, err := range vm.Iterate(th, v) {
				if !err.IsUndefined() {
					r = append(r, "<error "+errText(err)+">")
					break
				}
				r = append(r, canon(x))
			}
			return r
		}
		switch v.AsReference().(type) {
		case *value.ArrayListOfValue:
			return "[" + strings.Join(elems(), ", ") + "]"
		case *value.ArrayTupleOfValue:
			return "%[" + strings.Join(elems(), ", ") + "]"
		case *vm.HashSetOfValue:
			e := elems()
			sort.Strings(e)
			return "^[" + strings.Join(e, ", ") + "]"
		}
	}
	return "<" + v.Class().Name + "> " + v.Inspect()
}

func nativePred(p *Pred) value.Value {
	return value.Ref(vm.NewNativeClosure(func(_ *vm.Thread, args []value.Value) (value.Value, value.Value) {
		e, ok := toE(args[0])
		if !ok {
			return value.Undefined, value.Ref(value.NewError(value.ArgumentErrorClass, "c23: closure got "+args[0].Inspect()))
		}
		return value.BoolVal(p.Eval(e)), value.Undefined
	}, 1, nil))
}

func nativeFn(f *Fn) value.Value {
	return value.Ref(vm.NewNativeClosure(func(_ *vm.Thread, args []value.Value) (value.Value, value.Value) {
		e, ok := toE(args[0])
		if !ok {
			return value.Undefined, value.Ref(value.NewError(value.ArgumentErrorClass, "c23: closure got "+args[0].Inspect()))
		}
		return vgen.ElkInt(f.Eval(e)), value.Undefined
	}, 1, nil))
}

func nativeStep(kind, fld string) value.Value {
	return value.Ref(vm.NewNativeClosure(func(_ *vm.Thread, args []value.Value) (value.Value, value.Value) {
		a, ok1 := toE(args[0])
		e, ok2 := toE(args[1])
		if !ok1 || !ok2 || a.P {
			return value.Undefined, value.Ref(value.NewError(value.ArgumentErrorClass, "c23: step got "+args[0].Inspect()+", "+args[1].Inspect()))
		}
		return vgen.ElkInt(combine(kind, a.K, field(e, fld))), value.Undefined
	}, 2, nil))
}

func opArgs(op Op) []value.Value {
	switch op.Op {
	case "contains", "index_of":
		return []value.Value{elemValue(needle(op))}
	case "take", "drop":
		return []value.Value{vgen.ElkInt(bi(op.N))}
	case "map":
		return []value.Value{nativeFn(op.F)}
	case "filter", "reject", "count", "any", "every", "find", "try_find", "find_index", "drop_while", "take_while":
		return []value.Value{nativePred(op.P)}
	case "reduce":
		return []value.Value{nativeStep(op.G, "")}
	case "fold":
		return []value.Value{vgen.ElkInt(bi(op.N)), nativeStep(op.G, op.GF)}
	}
	return nil
}

func resOf(v, err value.Value) Res {
	if !err.IsUndefined() {
		if err.IsReference() {
			if _, ok := err.AsReference().(*value.Object); ok {
				return Res{Err: err.Class().Name}
			}
		}
		return Res{Err: "thrown " + err.Inspect()}
	}
	return Res{S: canon(v)}
}

// baseline materialises the iterable through the generic iteration driver and
// compares it with the model (as a sequence, or as content for sets / maps).
func baseline(it Iter, seq []E, ordered bool, limit int) ([]E, error) {
	recv, err := buildIter(it)
	if err != nil {
		return nil, err
	}
	var got []E
	for v, e := range vm.Iterate(th, recv) {
		if !e.IsUndefined() {
			return nil, fmt.Errorf("iteration raised %s after %d elements", errText(e), len(got))
		}
		x, ok := toE(v)
		if !ok {
			return nil, fmt.Errorf("iteration yielded %s", v.Inspect())
		}
		got = append(got, x)
		if len(got) >= limit {
			break
		}
	}
	return got, sameElements(got, seq, ordered)
}

func sameElements(got, want []E, ordered bool) error {
	g, w := strs(got), strs(want)
	if !ordered {
		g, w = append([]string(nil), g...), append([]string(nil), w...)
		sort.Strings(g)
		sort.Strings(w)
	}
	if strings.Join(g, ";") != strings.Join(w, ";") {
		return fmt.Errorf("iteration yields %v, the elements are %v (ordered=%v)", strs(got), strs(want), ordered)
	}
	return nil
}

const kBigCount = "take-drop-count-beyond-int64"

func bigCount(op Op) bool {
	return (op.Op == "take" || op.Op == "drop") && !bi(op.N).IsInt64()
}

func nativeOracle(it Iter, ctx *pbt.Ctx) error {
	seq, ordered, infinite := it.Model()
	ctx.Label("kind:" + it.Kind)
	limit := 1 << 30
	if infinite {
		limit = infiniteWindow
		ctx.Label("infinite")
	}
	got, err := baseline(it, seq, ordered, limit)
	if err != nil {
		return fmt.Errorf("%s %v: %v", it.Kind, describe(it), err)
	}
	seq = got // for sets and maps: the order the implementation iterates in
	nt := false
	for _, op := range it.Ops {
		if bigCount(op) && pbt.KnownActive(kBigCount) {
			ctx.Excluded(kBigCount)
			continue
		}
		recv, err := buildIter(it)
		if err != nil {
			return err
		}
		want := Apply(it.Kind, seq, op)
		v, e := call(recv, op.Op, opArgs(op)...)
		have := resOf(v, e)
		ctx.Label("op:" + op.Op)
		if have != want {
			return fmt.Errorf("%s %s%s = %s, the same operation on the element list %v gives %s", it.Kind, describe(it), op.ElkCall(), have, strs(seq), want)
		}
		if want.Err != "" {
			ctx.Label("error:" + want.Err)
		}
		if len(seq) > 0 && boundary(seq, op) {
			nt = true
		}
	}
	if nt {
		ctx.NonTrivial(fmt.Sprint(it))
	}
	return nil
}

func describe(it Iter) string {
	if isRangeKind(it.Kind) {
		if !hasEnd(it.RK) {
			return fmt.Sprintf("(%s%s)", it.Lo, rkOp[it.RK])
		}
		return fmt.Sprintf("(%s%s%s)", it.Lo, rkOp[it.RK], it.Hi)
	}
	if isPairKind(it.Kind) {
		var p []string
		for i := range it.Elems {
			p = append(p, it.Elems[i]+" => "+it.Vals[i])
		}
		return "{" + strings.Join(p, ", ") + "}"
	}
	return "[" + strings.Join(it.Elems, ", ") + "]"
}

func TestOpsNative(t *testing.T) {
	pbt.Rule("ops_native", "one iterable (ArrayList, ArrayTuple, HashSet, HashMap, HashRecord, their iterators, iterators of the six iterable range kinds incl. endless, closed Channel / ReadChannel) with 0..11 Int (or Pair) elements from [-6,12] plus occasional big values and duplicates, and 3..9 operations out of contains is_empty length first try_first last try_last map filter count reject any every find try_find index_of find_index drop drop_while take take_while reduce fold to_list to_tuple to_collection to_immutable_collection, counts in {0,1,len-1,len,len+1,negative,beyond 2^63,random}, needles mostly present, predicates x%k==r / < / > / == / != near an element / constant; receivers are rebuilt per operation and the methods are called by name with native closures; the iteration itself (vm.Iterate) must give the model sequence (content for sets / maps, whose order is then taken as given); every result (value, container class, error class) must equal the operation on the Go slice; endless iterators only get operations decided within 41 elements; non-trivial = non-empty iterable and a count at / next to 0 or len or negative, or a predicate that is true for some and false for other elements")
	pbt.Run(t, pbt.Prop[Iter]{Name: "ops_native", Quick: 60000, Thorough: 800000,
		Gen:    func(t *rapid.T) Iter { return genIter(t, nativeKinds) },
		Oracle: nativeOracle,
		Sample: func(it Iter) any {
			var ops []string
			for _, o := range it.Ops {
				ops = append(ops, o.ElkCall())
			}
			return it.Kind + " " + describe(it) + " " + strings.Join(ops, " ")
		}})
}
