package c23

// Reference model shared by the in-process and the program-level checks:
// an iterable is a Go slice of elements; every generic operation is computed
// on that slice and rendered in a canonical text form.

import (
	"fmt"
	"math/big"
	"sort"
	"strings"
)

// E is one element: an Int (K) or a Pair(K, V) of Ints.
type E struct {
	K, V *big.Int
	P    bool
}

func I(n *big.Int) E       { return E{K: n} }
func PairE(k, v *big.Int) E { return E{K: k, V: v, P: true} }

func (e E) String() string {
	if e.P {
		return "Std::Pair(" + e.K.String() + ", " + e.V.String() + ")"
	}
	return e.K.String()
}

func (e E) Eq(o E) bool {
	if e.P != o.P {
		return false
	}
	if e.K.Cmp(o.K) != 0 {
		return false
	}
	return !e.P || e.V.Cmp(o.V) == 0
}

func bi(s string) *big.Int {
	n, ok := new(big.Int).SetString(s, 10)
	if !ok {
		panic("c23: bad integer " + s)
	}
	return n
}

// Pred is a predicate over an element: the field F ("" for Int elements,
// "key"/"value" for pairs) is compared as described by K.
type Pred struct {
	K string `json:"k"` // mod lt gt eq ne true false
	A string `json:"a,omitempty"`
	B string `json:"b,omitempty"`
	F string `json:"f,omitempty"`
}

func field(e E, f string) *big.Int {
	if e.P && f == "value" {
		return e.V
	}
	return e.K
}

func (p Pred) Eval(e E) bool {
	x := field(e, p.F)
	switch p.K {
	case "mod":
		return new(big.Int).Rem(x, bi(p.A)).Cmp(bi(p.B)) == 0 // Elk % truncates like Go's Rem
	case "lt":
		return x.Cmp(bi(p.A)) < 0
	case "gt":
		return x.Cmp(bi(p.A)) > 0
	case "eq":
		return x.Cmp(bi(p.A)) == 0
	case "ne":
		return x.Cmp(bi(p.A)) != 0
	case "true":
		return true
	case "false":
		return false
	}
	panic("c23: pred " + p.K)
}

func acc(f string) string {
	if f == "" {
		return "x"
	}
	return "x." + f
}

// Elk renders the predicate as an Elk closure literal.
func (p Pred) Elk() string {
	x := acc(p.F)
	switch p.K {
	case "mod":
		return fmt.Sprintf("|x| -> %s %% %s == %s", x, p.A, p.B)
	case "lt":
		return fmt.Sprintf("|x| -> %s < %s", x, p.A)
	case "gt":
		return fmt.Sprintf("|x| -> %s > %s", x, p.A)
	case "eq":
		return fmt.Sprintf("|x| -> %s == %s", x, p.A)
	case "ne":
		return fmt.Sprintf("|x| -> %s != %s", x, p.A)
	case "true":
		return fmt.Sprintf("|x| -> %s == %s", x, x)
	case "false":
		return fmt.Sprintf("|x| -> %s != %s", x, x)
	}
	panic("c23: pred " + p.K)
}

// Fn maps an element to an Int.
type Fn struct {
	K string `json:"k"` // mul add mod neg const id sum
	A string `json:"a,omitempty"`
	F string `json:"f,omitempty"`
}

func (f Fn) Eval(e E) *big.Int {
	x := field(e, f.F)
	switch f.K {
	case "mul":
		return new(big.Int).Mul(x, bi(f.A))
	case "add":
		return new(big.Int).Add(x, bi(f.A))
	case "mod":
		return new(big.Int).Rem(x, bi(f.A))
	case "neg":
		return new(big.Int).Neg(x)
	case "const":
		return bi(f.A)
	case "id":
		return x
	case "sum":
		return new(big.Int).Add(e.K, e.V)
	}
	panic("c23: fn " + f.K)
}

func (f Fn) Elk() string {
	x := acc(f.F)
	switch f.K {
	case "mul":
		return fmt.Sprintf("|x| -> %s * %s", x, f.A)
	case "add":
		return fmt.Sprintf("|x| -> %s + %s", x, f.A)
	case "mod":
		return fmt.Sprintf("|x| -> %s %% %s", x, f.A)
	case "neg":
		return fmt.Sprintf("|x| -> -%s", x)
	case "const":
		return fmt.Sprintf("|x| -> %s", f.A)
	case "id":
		return fmt.Sprintf("|x| -> %s", x)
	case "sum":
		return "|x| -> x.key + x.value"
	}
	panic("c23: fn " + f.K)
}

// combine is the accumulator step of fold/reduce.
func combine(kind string, a, x *big.Int) *big.Int {
	switch kind {
	case "add":
		return new(big.Int).Add(a, x)
	case "sub":
		return new(big.Int).Sub(a, x)
	case "mulmod":
		r := new(big.Int).Mul(a, big.NewInt(31))
		r.Add(r, x)
		return r.Rem(r, big.NewInt(1000003))
	}
	panic("c23: combine " + kind)
}

func combineElk(kind, f string) string {
	x := acc(f)
	switch kind {
	case "add":
		return "|a, x| -> a + " + x
	case "sub":
		return "|a, x| -> a - " + x
	case "mulmod":
		return "|a, x| -> (a * 31 + " + x + ") % 1000003"
	}
	panic("c23: combine " + kind)
}

// Op is one generic iterable operation with its arguments.
type Op struct {
	Op string `json:"op"`
	N  string `json:"n,omitempty"`  // count / needle (key of a pair needle) / fold initial value
	N2 string `json:"n2,omitempty"` // value of a pair needle
	P  *Pred  `json:"p,omitempty"`
	F  *Fn    `json:"f,omitempty"`
	G  string `json:"g,omitempty"` // fold / reduce step
	GF string `json:"gf,omitempty"`
}

// Res is a canonical result: text, or the class of the documented error.
type Res struct {
	S   string
	Err string
}

func (r Res) String() string {
	if r.Err != "" {
		return "ERR " + r.Err
	}
	return r.S
}

const (
	errNotFound   = "Std::Iterable::NotFoundError"
	errOutOfRange = "Std::OutOfRangeError"
)

func renderSeq(container string, s []string) string {
	switch container {
	case "tuple":
		return "%[" + strings.Join(s, ", ") + "]"
	case "set":
		u := map[string]bool{}
		var d []string
		for _, x := range s {
			if !u[x] {
				u[x] = true
				d = append(d, x)
			}
		}
		sort.Strings(d)
		return "^[" + strings.Join(d, ", ") + "]"
	}
	return "[" + strings.Join(s, ", ") + "]"
}

func strs(es []E) []string {
	r := make([]string, len(es))
	for i, e := range es {
		r[i] = e.String()
	}
	return r
}

// resultContainer says which collection class an operation returns for a
// receiver kind.  Grounded in the headers and the repo's own tests:
// Iterable::Base / Collection::Base build an ArrayList (iterable.elk.test,
// collection.elk.test: "create an ArrayList"), ImmutableCollection::Base
// (tuples) builds an ArrayTuple, HashSet#map a HashSet, HashMap#map an ArrayList.
func resultContainer(kind, op string) string {
	switch op {
	case "to_list", "to_collection":
		return "list"
	case "to_tuple", "to_immutable_collection":
		return "tuple"
	}
	switch kind {
	case "tuple":
		return "tuple"
	case "set":
		if op == "map" {
			return "set"
		}
	}
	return "list"
}

func needle(op Op) E {
	if op.N2 != "" {
		return PairE(bi(op.N), bi(op.N2))
	}
	return I(bi(op.N))
}

func boolS(b bool) string {
	if b {
		return "true"
	}
	return "false"
}

// Apply computes the operation on the materialised element list.
func Apply(kind string, seq []E, op Op) Res {
	ct := resultContainer(kind, op.Op)
	switch op.Op {
	case "contains":
		n := needle(op)
		for _, e := range seq {
			if e.Eq(n) {
				return Res{S: "true"}
			}
		}
		return Res{S: "false"}
	case "is_empty":
		return Res{S: boolS(len(seq) == 0)}
	case "length":
		return Res{S: fmt.Sprint(len(seq))}
	case "first":
		if len(seq) == 0 {
			return Res{Err: errNotFound}
		}
		return Res{S: seq[0].String()}
	case "try_first":
		if len(seq) == 0 {
			return Res{S: "nil"}
		}
		return Res{S: seq[0].String()}
	case "last":
		if len(seq) == 0 {
			return Res{Err: errNotFound}
		}
		return Res{S: seq[len(seq)-1].String()}
	case "try_last":
		if len(seq) == 0 {
			return Res{S: "nil"}
		}
		return Res{S: seq[len(seq)-1].String()}
	case "map":
		var out []string
		for _, e := range seq {
			out = append(out, op.F.Eval(e).String())
		}
		return Res{S: renderSeq(ct, out)}
	case "filter", "reject":
		var out []E
		for _, e := range seq {
			if op.P.Eval(e) == (op.Op == "filter") {
				out = append(out, e)
			}
		}
		return Res{S: renderSeq(ct, strs(out))}
	case "count":
		n := 0
		for _, e := range seq {
			if op.P.Eval(e) {
				n++
			}
		}
		return Res{S: fmt.Sprint(n)}
	case "any":
		for _, e := range seq {
			if op.P.Eval(e) {
				return Res{S: "true"}
			}
		}
		return Res{S: "false"}
	case "every":
		for _, e := range seq {
			if !op.P.Eval(e) {
				return Res{S: "false"}
			}
		}
		return Res{S: "true"}
	case "find", "try_find":
		for _, e := range seq {
			if op.P.Eval(e) {
				return Res{S: e.String()}
			}
		}
		if op.Op == "find" {
			return Res{Err: errNotFound}
		}
		return Res{S: "nil"}
	case "index_of":
		n := needle(op)
		for i, e := range seq {
			if e.Eq(n) {
				return Res{S: fmt.Sprint(i)}
			}
		}
		return Res{S: "-1"}
	case "find_index":
		for i, e := range seq {
			if op.P.Eval(e) {
				return Res{S: fmt.Sprint(i)}
			}
		}
		return Res{S: "-1"}
	case "drop", "take":
		n := bi(op.N)
		if n.Sign() < 0 {
			return Res{Err: errOutOfRange}
		}
		k := len(seq)
		if n.IsInt64() && n.Int64() < int64(k) {
			k = int(n.Int64())
		}
		if op.Op == "drop" {
			return Res{S: renderSeq(ct, strs(seq[k:]))}
		}
		return Res{S: renderSeq(ct, strs(seq[:k]))}
	case "drop_while", "take_while":
		k := 0
		for k < len(seq) && op.P.Eval(seq[k]) {
			k++
		}
		if op.Op == "drop_while" {
			return Res{S: renderSeq(ct, strs(seq[k:]))}
		}
		return Res{S: renderSeq(ct, strs(seq[:k]))}
	case "reduce":
		// only generated for non-empty Int sequences (the empty case is not documented)
		a := seq[0].K
		for _, e := range seq[1:] {
			a = combine(op.G, a, e.K)
		}
		return Res{S: a.String()}
	case "fold":
		a := bi(op.N)
		for _, e := range seq {
			a = combine(op.G, a, field(e, op.GF))
		}
		return Res{S: a.String()}
	case "to_list", "to_collection", "to_tuple", "to_immutable_collection":
		return Res{S: renderSeq(ct, strs(seq))}
	}
	panic("c23: op " + op.Op)
}

// ElkCall renders `.op(args)` as Elk source.
func (op Op) ElkCall() string {
	switch op.Op {
	case "contains", "index_of":
		if op.N2 != "" {
			return fmt.Sprintf(".%s(Pair(%s, %s))", op.Op, op.N, op.N2)
		}
		return fmt.Sprintf(".%s(%s)", op.Op, op.N)
	case "take", "drop":
		return fmt.Sprintf(".%s(%s)", op.Op, op.N)
	case "map":
		return ".map(" + op.F.Elk() + ")"
	case "filter", "reject", "count", "any", "every", "find", "try_find", "find_index", "drop_while", "take_while":
		return "." + op.Op + "(" + op.P.Elk() + ")"
	case "reduce":
		return ".reduce(" + combineElk(op.G, "") + ")"
	case "fold":
		return fmt.Sprintf(".fold(%s, %s)", op.N, combineElk(op.G, op.GF))
	}
	return "." + op.Op
}

// boundary reports whether the operation's argument sits at / near a boundary
// (0, len, len±1, negative, huge) or its predicate splits the sequence.
func boundary(seq []E, op Op) bool {
	switch op.Op {
	case "take", "drop":
		n := bi(op.N)
		if !n.IsInt64() || n.Sign() <= 0 {
			return true
		}
		d := n.Int64() - int64(len(seq))
		return d >= -1 && d <= 1
	}
	if op.P != nil {
		t, f := false, false
		for _, e := range seq {
			if op.P.Eval(e) {
				t = true
			} else {
				f = true
			}
		}
		return t && f
	}
	return false
}
