package c23

// Generators for iterables and operations, shared by the in-process and the
// program-level checks.

import (
	"fmt"
	"math/big"

	"pgregory.net/rapid"

	"verif/internal/vgen"
)

// Iter describes one iterable and the operations applied to it.
type Iter struct {
	Kind  string   `json:"kind"`
	Elems []string `json:"elems,omitempty"` // Int elements; keys for map kinds
	Vals  []string `json:"vals,omitempty"`  // values for map kinds
	RK    int      `json:"rk,omitempty"`    // range kind for range kinds
	Lo    string   `json:"lo,omitempty"`
	Hi    string   `json:"hi,omitempty"`
	Ops   []Op     `json:"ops"`
}

func isPairKind(k string) bool {
	switch k {
	case "map", "record", "map_iter", "record_iter":
		return true
	}
	return false
}

func isSetKind(k string) bool  { return k == "set" || k == "set_iter" }
func isRangeKind(k string) bool { return k == "range_iter" || k == "range" }

// infiniteWindow is the number of elements of an endless range the model materialises.
const infiniteWindow = 64

// Model returns the element sequence the iterable must yield.  For sets and
// maps the order is implementation-defined: ordered=false and the sequence is
// only the expected content (in first-insertion order).
func (it Iter) Model() (seq []E, ordered bool, infinite bool) {
	switch {
	case isRangeKind(it.Kind):
		lo, hi := Scalar{"int", it.Lo}, Scalar{"int", it.Hi}
		x := lo
		if leftOpen(it.RK) {
			x = succ(x)
		}
		for ; len(seq) < infiniteWindow; x = succ(x) {
			if !inRange(it.RK, lo, hi, x) {
				return seq, true, false
			}
			seq = append(seq, I(bi(x.S)))
		}
		return seq, true, !hasEnd(it.RK)
	case isPairKind(it.Kind):
		idx := map[string]int{}
		for i, k := range it.Elems {
			if j, ok := idx[k]; ok {
				seq[j] = PairE(bi(k), bi(it.Vals[i])) // a later value replaces the earlier one, the key keeps its place
				continue
			}
			idx[k] = len(seq)
			seq = append(seq, PairE(bi(k), bi(it.Vals[i])))
		}
		return seq, false, false
	case isSetKind(it.Kind):
		seen := map[string]bool{}
		for _, k := range it.Elems {
			if !seen[k] {
				seen[k] = true
				seq = append(seq, I(bi(k)))
			}
		}
		return seq, false, false
	}
	for _, k := range it.Elems {
		seq = append(seq, I(bi(k)))
	}
	return seq, true, false
}

func genElem(t *rapid.T, label string) *big.Int {
	if rapid.IntRange(0, 9).Draw(t, label+"_big") == 0 {
		return vgen.BigInt(t, label)
	}
	return big.NewInt(int64(rapid.IntRange(-6, 12).Draw(t, label)))
}

var finiteOps = []string{"contains", "is_empty", "length", "first", "try_first", "last", "try_last", "map", "filter", "count", "reject",
	"any", "every", "find", "try_find", "index_of", "find_index", "drop", "drop_while", "take", "take_while", "reduce", "fold",
	"to_list", "to_tuple", "to_collection", "to_immutable_collection"}

// operations that terminate on an endless iterator when their argument is chosen to hit
var infiniteOps = []string{"take", "first", "try_first", "is_empty", "find", "try_find", "any", "find_index", "every", "take_while", "contains", "index_of"}

func pickElem(t *rapid.T, seq []E, label string) (E, bool) {
	if len(seq) == 0 {
		return E{}, false
	}
	return seq[rapid.IntRange(0, len(seq)-1).Draw(t, label)], true
}

func genPred(t *rapid.T, seq []E, pair bool) *Pred {
	p := &Pred{}
	if pair {
		p.F = rapid.SampledFrom([]string{"key", "value"}).Draw(t, "pf")
	}
	near := func() *big.Int {
		if e, ok := pickElem(t, seq, "pe"); ok && rapid.IntRange(0, 3).Draw(t, "pn") > 0 {
			return new(big.Int).Add(field(e, p.F), big.NewInt(int64(rapid.IntRange(-1, 1).Draw(t, "pd"))))
		}
		return genElem(t, "pa")
	}
	switch vgen.Pick(t, 8, "pk") {
	case 0, 1:
		p.K = "mod"
		a := rapid.SampledFrom([]int64{2, 3, 4, -3, 5}).Draw(t, "pma")
		p.A = fmt.Sprint(a)
		if e, ok := pickElem(t, seq, "pme"); ok && rapid.Bool().Draw(t, "pmh") {
			p.B = new(big.Int).Rem(field(e, p.F), big.NewInt(a)).String()
		} else {
			p.B = fmt.Sprint(rapid.IntRange(-2, 3).Draw(t, "pmb"))
		}
	case 2:
		p.K, p.A = "lt", near().String()
	case 3:
		p.K, p.A = "gt", near().String()
	case 4:
		p.K, p.A = "eq", near().String()
	case 5:
		p.K, p.A = "ne", near().String()
	case 6:
		p.K = "true"
	default:
		p.K = "false"
	}
	return p
}

func genFn(t *rapid.T, pair bool) *Fn {
	f := &Fn{}
	if pair {
		f.F = rapid.SampledFrom([]string{"key", "value"}).Draw(t, "ff")
	}
	n := 6
	if pair {
		n = 7
	}
	switch vgen.Pick(t, n, "fk") {
	case 0:
		f.K, f.A = "mul", fmt.Sprint(rapid.SampledFrom([]int{-2, 0, 1, 2, 3, 1 << 40}).Draw(t, "fa"))
	case 1:
		f.K, f.A = "add", genElem(t, "fa").String()
	case 2:
		f.K, f.A = "mod", fmt.Sprint(rapid.SampledFrom([]int{2, 3, -3, 7}).Draw(t, "fa"))
	case 3:
		f.K = "neg"
	case 4:
		f.K, f.A = "const", genElem(t, "fa").String()
	case 5:
		f.K = "id"
	default:
		f.K, f.F = "sum", ""
	}
	return f
}

var bigCounts = []string{"18446744073709551616", "-18446744073709551616", "9223372036854775808", "18446744073709551617", "-9223372036854775809"}

func genCount(t *rapid.T, n int) string {
	switch rapid.IntRange(0, 11).Draw(t, "ck") {
	case 0:
		return "0"
	case 1:
		return "1"
	case 2:
		return fmt.Sprint(n - 1)
	case 3:
		return fmt.Sprint(n)
	case 4:
		return fmt.Sprint(n + 1)
	case 5:
		return "-1"
	case 6:
		return fmt.Sprint(-rapid.IntRange(1, 9).Draw(t, "cneg"))
	case 7:
		return rapid.SampledFrom(bigCounts).Draw(t, "cbig")
	}
	return fmt.Sprint(rapid.IntRange(0, n+2).Draw(t, "cn"))
}

func genNeedle(t *rapid.T, op *Op, seq []E, pair bool) {
	e, ok := pickElem(t, seq, "ne")
	if !ok || rapid.IntRange(0, 3).Draw(t, "nk") == 0 {
		op.N = genElem(t, "nn").String()
		if pair {
			op.N2 = genElem(t, "nv").String()
		}
		return
	}
	op.N = e.K.String()
	if pair {
		op.N2 = e.V.String()
		if rapid.IntRange(0, 3).Draw(t, "nw") == 0 {
			op.N2 = new(big.Int).Add(e.V, big.NewInt(1)).String() // right key, wrong value
		}
	}
}

func genOp(t *rapid.T, seq []E, pair, infinite bool) Op {
	if infinite {
		return genInfiniteOp(t, seq)
	}
	op := Op{Op: finiteOps[vgen.Pick(t, len(finiteOps), "op")]}
	if op.Op == "reduce" && (pair || len(seq) == 0) {
		op.Op = "fold" // reduce over pairs needs a pair-valued step; reduce of nothing is not documented
	}
	switch op.Op {
	case "contains", "index_of":
		genNeedle(t, &op, seq, pair)
	case "take", "drop":
		op.N = genCount(t, len(seq))
	case "map":
		op.F = genFn(t, pair)
	case "filter", "reject", "count", "any", "every", "find", "try_find", "find_index", "drop_while", "take_while":
		op.P = genPred(t, seq, pair)
	case "reduce":
		op.G = rapid.SampledFrom([]string{"add", "sub", "mulmod"}).Draw(t, "g")
	case "fold":
		op.G = rapid.SampledFrom([]string{"add", "sub", "mulmod"}).Draw(t, "g")
		op.N = genElem(t, "init").String()
		if pair {
			op.GF = rapid.SampledFrom([]string{"key", "value"}).Draw(t, "gf")
		}
	}
	return op
}

// genInfiniteOp only produces operations that are decided within the first 41
// elements of an endless iterator.
func genInfiniteOp(t *rapid.T, seq []E) Op {
	op := Op{Op: infiniteOps[vgen.Pick(t, len(infiniteOps), "op")]}
	target := seq[rapid.IntRange(0, 40).Draw(t, "target")].K
	switch op.Op {
	case "take":
		op.N = genCount(t, rapid.IntRange(0, 30).Draw(t, "tn"))
		if n := bi(op.N); !n.IsInt64() || n.Int64() > 60 {
			op.N = "7"
		}
	case "find", "try_find", "any", "find_index":
		switch rapid.IntRange(0, 2).Draw(t, "hit") {
		case 0:
			op.P = &Pred{K: "gt", A: new(big.Int).Sub(target, big.NewInt(1)).String()}
		case 1:
			op.P = &Pred{K: "eq", A: target.String()}
		default:
			a := rapid.SampledFrom([]int64{2, 3, 5, -3}).Draw(t, "ma")
			op.P = &Pred{K: "mod", A: fmt.Sprint(a), B: new(big.Int).Rem(target, big.NewInt(a)).String()}
		}
	case "every", "take_while":
		if rapid.Bool().Draw(t, "miss") {
			op.P = &Pred{K: "lt", A: target.String()}
		} else {
			op.P = &Pred{K: "ne", A: target.String()}
		}
	case "contains", "index_of":
		op.N = target.String()
	}
	return op
}

var rangeLos = []string{"0", "1", "-3", "-40", "100", "9223372036854775800", "9223372036854775806", "-9223372036854775810", "18446744073709551614", "340282366920938463463374607431768211455"}

func genIter(t *rapid.T, kinds []string) Iter {
	it := Iter{Kind: kinds[vgen.Pick(t, len(kinds), "kind")]}
	switch {
	case it.Kind == "range_iter" || it.Kind == "range":
		it.RK = []int{rkClosed, rkOpen, rkLeftOpen, rkRightOpen, rkEndlessClosed, rkEndlessOpen}[vgen.Pick(t, 6, "rk")]
		lo := bi(rapid.SampledFrom(rangeLos).Draw(t, "lo"))
		lo.Add(lo, big.NewInt(int64(rapid.IntRange(0, 9).Draw(t, "lod"))))
		w := rapid.SampledFrom([]int{-2, 0, 1, 2, 3, 4, 6, 9, 14}).Draw(t, "w")
		it.Lo, it.Hi = lo.String(), new(big.Int).Add(lo, big.NewInt(int64(w))).String()
	default:
		n := rapid.SampledFrom([]int{0, 1, 2, 3, 4, 5, 6, 8, 11}).Draw(t, "n")
		if (it.Kind == "gen") && n == 0 {
			n = 1 // a generator always delivers its return value as the last element
		}
		for i := 0; i < n; i++ {
			it.Elems = append(it.Elems, genElem(t, "e").String())
			if isPairKind(it.Kind) {
				it.Vals = append(it.Vals, genElem(t, "v").String())
			}
		}
	}
	seq, _, infinite := it.Model()
	nops := rapid.IntRange(3, 9).Draw(t, "nops")
	if it.Kind == "range" {
		// a range itself is only a Container: `contains` against the bounds (and for-in)
		for i := 0; i < nops; i++ {
			b := bi(it.Lo)
			if rapid.Bool().Draw(t, "rb") {
				b = bi(it.Hi)
			}
			b.Add(b, big.NewInt(int64(rapid.IntRange(-2, 2).Draw(t, "rd"))))
			it.Ops = append(it.Ops, Op{Op: "contains", N: b.String()})
		}
		return it
	}
	for i := 0; i < nops; i++ {
		it.Ops = append(it.Ops, genOp(t, seq, isPairKind(it.Kind), infinite))
	}
	return it
}
