// Package c34: `elk test` runs exactly the selected cases and reports failures
// (property C34).
//
// A case is a generated tree of test files (describe/context nesting, cases that
// pass, fail an assertion or throw) plus a set of --grep / --path filters.  The
// files are written to a scratch directory and the REAL `elk test` binary (built
// from the tree under test by the driver, props.json "elkbin") is run on them.
// Every case body appends its unique id to a per-file log which a root-level
// after_all hook prints, so the executed multiset is visible on stdout.
//
// Oracle = model of the property statement: a case is selected iff it satisfies
// every given filter; executed multiset == selected set (each once); exit status
// != 0 iff a selected case fails or throws; the summary line counts agree.
package c34

import (
	"bytes"
	"context"
	"encoding/json"
	"fmt"
	"os"
	"os/exec"
	"path/filepath"
	"regexp"
	"sort"
	"strconv"
	"strings"
	"sync/atomic"
	"testing"
	"time"

	"pgregory.net/rapid"

	"verif/internal/pbt"
	"verif/internal/vgen"
)

var (
	elkBin  string
	elkPath string
	tmpRoot string
	runSeq  atomic.Int64
)

func TestMain(m *testing.M) {
	build := os.Getenv("VERIF_BUILD")
	if build == "" {
		build, _ = filepath.Abs("../../../.build") // developer loop: go test from harness/
	}
	elkBin = filepath.Join(build, "elk")
	if b := os.Getenv("VERIF_ELKBIN"); b != "" {
		elkBin = b // developer override (e.g. a binary of the unfixed tree)
	}
	if _, err := os.Stat(elkBin); err != nil {
		fmt.Printf("C34: elk binary %s not found (props.json needs \"elkbin\": true): %v\n", elkBin, err)
		os.Exit(2)
	}
	elkPath = os.Getenv("ELKPATH")
	if elkPath == "" {
		elkPath = os.Getenv("VERIF_REPO")
	}
	if elkPath == "" {
		elkPath = "/repo"
	}
	tmpRoot = os.Getenv("VERIF_TMP")
	if tmpRoot == "" {
		tmpRoot = os.TempDir()
	}
	var err error
	tmpRoot, err = os.MkdirTemp(tmpRoot, "c34-")
	if err != nil {
		fmt.Printf("C34: cannot create scratch directory: %v\n", err)
		os.Exit(2)
	}
	if r, err := filepath.EvalSymlinks(tmpRoot); err == nil {
		tmpRoot = r
	}
	pbt.Main(m, "C34") // every oracle call removes its own directory; the driver removes VERIF_TMP
}

// ---------------------------------------------------------------------------
// Case data (JSON-serialisable)

// Node is a suite, a test case or a comment line ("gap") of a generated file.
type Node struct {
	Kind     string `json:"kind"` // "suite" | "case" | "gap"
	Kw       string `json:"kw,omitempty"`
	Name     string `json:"name,omitempty"`
	Outcome  string `json:"outcome,omitempty"` // case: pass | fail | throw_sym | throw_err
	Children []Node `json:"children,omitempty"`
}

type File struct {
	Path  string `json:"path"` // relative to the scratch directory
	Nodes []Node `json:"nodes"`
}

// PathF is one --path filter, kept symbolic so that it stays meaningful while
// rapid shrinks the tree: the glob is a kind relative to file File, the line a
// kind + index resolved against the rendered layout of file File.
type PathF struct {
	Glob  string `json:"glob"`  // abs | base | all | sub | rootdir | q | class | none
	File  int    `json:"file"`  // index into Files (mod len)
	Line  string `json:"line"`  // none | case_head | case_mid | case_end | suite_head | suite_end | gap | prelude | hook | beyond | zero
	Index int    `json:"index"` // which case/suite/gap of the file (mod count)
}

type Case struct {
	Files []File   `json:"files"`
	Greps []string `json:"greps,omitempty"`
	Paths []PathF  `json:"paths,omitempty"`
	Short bool     `json:"short,omitempty"` // use -p instead of --path
	// AbsMain: run with `--main <abs dir>/main.elk.test` from another working
	// directory and absolute globs; otherwise run inside the directory with the
	// default main file and globs relative to it (file paths are reported
	// relative to the main file as given, and globs are matched against those).
	AbsMain bool `json:"abs_main,omitempty"`
}

// ---------------------------------------------------------------------------
// Rendering and layout

type caseInfo struct {
	id         string
	file       int
	comps      []string // name components: enclosing suite names, then the case's own name (with it/should prefix)
	start, end int      // 1-based line span of the case (header line .. `end` line)
	headers    []int    // header lines of the enclosing suites, outermost first
	outcome    string
}

type suiteInfo struct {
	head, end int
	cases     []int // indices (into layout.cases) of all cases below this suite
	depth     int
}

type fileLayout struct {
	src     string
	nlines  int
	cases   []int // indices into layout.cases
	suites  []suiteInfo
	gaps    []int
	prelude []int // lines outside everything: using lines, blank, comments
	hook    []int // lines inside the root after_all hook
}

type layout struct {
	files []fileLayout
	cases []caseInfo
}

const preludeSrc = "using Std::Test::Assertions::*\n" +
	"using Std::Test::*\n" +
	"\n" +
	"var log: ArrayList[String] = []\n" +
	"after_all() ->\n" +
	"\tfor id in log\n" +
	"\t\tprintln \"<<RAN:\" + id + \">>\"\n" +
	"\tend\n" +
	"end\n" +
	"# top\n"

func render(c Case) layout {
	var l layout
	for fi, f := range c.Files {
		var b strings.Builder
		fl := fileLayout{prelude: []int{1, 2, 10}, hook: []int{5, 6, 7, 8, 9}}
		b.WriteString(preludeSrc)
		line := 10 // lines written so far
		var walk func(nodes []Node, depth int, comps []string, headers []int, open []int)
		walk = func(nodes []Node, depth int, comps []string, headers []int, open []int) {
			ind := strings.Repeat("\t", depth)
			for _, n := range nodes {
				switch n.Kind {
				case "gap":
					b.WriteString(ind + "# gap\n")
					line++
					fl.gaps = append(fl.gaps, line)
				case "suite":
					b.WriteString(fmt.Sprintf("%s%s %q, ->\n", ind, n.Kw, n.Name))
					line++
					si := len(fl.suites)
					fl.suites = append(fl.suites, suiteInfo{head: line, depth: depth + 1})
					walk(n.Children, depth+1,
						append(append([]string{}, comps...), n.Name),
						append(append([]int{}, headers...), line),
						append(append([]int{}, open...), si))
					b.WriteString(ind + "end\n")
					line++
					fl.suites[si].end = line
				case "case":
					id := "c" + strconv.Itoa(len(l.cases))
					name := n.Name
					if n.Kw != "test" {
						name = n.Kw + " " + n.Name // documented: `it`/`should` prefix the name
					}
					b.WriteString(fmt.Sprintf("%s%s %q, ->\n", ind, n.Kw, n.Name))
					start := line + 1
					b.WriteString(fmt.Sprintf("%s\tlog << %q\n", ind, id))
					b.WriteString(fmt.Sprintf("%s\tprintln \"ID %s\"\n", ind, id))
					switch n.Outcome {
					case "fail":
						b.WriteString(ind + "\tassert! 1 == 2\n")
					case "throw_sym":
						b.WriteString(ind + "\tthrow :boom\n")
					case "throw_err":
						b.WriteString(ind + "\tthrow Error(\"boom\")\n")
					default:
						b.WriteString(ind + "\tassert! 1 == 1\n")
					}
					b.WriteString(ind + "end\n")
					line += 5
					ci := len(l.cases)
					l.cases = append(l.cases, caseInfo{
						id: id, file: fi, comps: append(append([]string{}, comps...), name),
						start: start, end: line, headers: append([]int{}, headers...), outcome: n.Outcome,
					})
					fl.cases = append(fl.cases, ci)
					for _, si := range open {
						fl.suites[si].cases = append(fl.suites[si].cases, ci)
					}
				}
			}
		}
		walk(f.Nodes, 0, nil, nil, nil)
		b.WriteString("# bottom\n")
		line++
		fl.prelude = append(fl.prelude, line)
		fl.src = b.String()
		fl.nlines = line
		l.files = append(l.files, fl)
	}
	return l
}

// globFor gives the glob text of a path filter and the predicate (by
// construction, independent of the glob library) saying which generated files
// it matches.  root is the absolute scratch directory in the AbsMain mode and ""
// in the relative mode.
func globFor(kind string, rel string, root string) (string, func(rel string) bool) {
	base := filepath.Base(rel)
	pre := ""
	if root != "" {
		pre = root + "/"
	}
	switch kind {
	case "abs":
		return pre + rel, func(r string) bool { return r == rel }
	case "base":
		return "**/" + base, func(r string) bool { return filepath.Base(r) == base }
	case "sub":
		if root == "" {
			return "sub/*", func(r string) bool { return strings.HasPrefix(r, "sub/") }
		}
		return "**/sub/*", func(r string) bool { return strings.HasPrefix(r, "sub/") }
	case "rootdir":
		return pre + "*.elk.test", func(r string) bool { return !strings.Contains(r, "/") }
	case "q":
		return "**/f?.elk.test", func(r string) bool { return true }
	case "class":
		return "**/f[ab].elk.test", func(r string) bool { b := filepath.Base(r); return b == "fa.elk.test" || b == "fb.elk.test" }
	case "none":
		return "**/zz.elk.test", func(r string) bool { return false }
	default: // all
		return "**/*.elk.test", func(r string) bool { return true }
	}
}

// resolveLine turns the symbolic line of a path filter into a number (-1 = no line).
// The second result is the class actually hit (a kind without candidates falls back to "none").
func resolveLine(p PathF, l layout, fi int) (int, string) {
	fl := l.files[fi]
	pick := func(xs []int) (int, bool) {
		if len(xs) == 0 {
			return 0, false
		}
		return xs[mod(p.Index, len(xs))], true
	}
	switch p.Line {
	case "case_head", "case_mid", "case_end":
		if ci, ok := pick(fl.cases); ok {
			c := l.cases[ci]
			switch p.Line {
			case "case_head":
				return c.start, p.Line
			case "case_end":
				return c.end, p.Line
			}
			return c.start + 1 + mod(p.Index/7, 3), p.Line
		}
	case "suite_head", "suite_end":
		if len(fl.suites) > 0 {
			s := fl.suites[mod(p.Index, len(fl.suites))]
			if p.Line == "suite_head" {
				return s.head, p.Line
			}
			return s.end, p.Line
		}
	case "gap":
		if ln, ok := pick(fl.gaps); ok {
			return ln, p.Line
		}
	case "prelude":
		if ln, ok := pick(fl.prelude); ok {
			return ln, p.Line
		}
	case "hook":
		if ln, ok := pick(fl.hook); ok {
			return ln, p.Line
		}
	case "beyond":
		return fl.nlines + 1 + mod(p.Index, 40), p.Line
	case "zero":
		return 0, p.Line
	}
	return -1, "none"
}

func mod(a, n int) int {
	a %= n
	if a < 0 {
		a += n
	}
	return a
}

// ---------------------------------------------------------------------------
// Generator

var names = []string{"a", "b", "c", "ab", "ba", "bc", "cb", "ac", "ca", "aa", "bb", "cc"}

var filePaths = []string{"fa.elk.test", "fb.elk.test", "sub/fa.elk.test", "sub/fc.elk.test"}

func genName(t *rapid.T) string { return names[vgen.Pick(t, len(names), "name")] }

func genCase(t *rapid.T) Node {
	kw := []string{"test", "test", "it", "should"}[vgen.Pick(t, 4, "casekw")]
	out := []string{"pass", "pass", "pass", "fail", "throw_sym", "throw_err", "pass", "fail"}[vgen.Pick(t, 8, "outcome")]
	return Node{Kind: "case", Kw: kw, Name: genName(t), Outcome: out}
}

type buildNode struct {
	node     Node
	depth    int
	children []*buildNode
}

func (b *buildNode) finish() Node {
	n := b.node
	for _, ch := range b.children {
		n.Children = append(n.Children, ch.finish())
	}
	return n
}

// genTree builds nfiles file roots holding exactly ncases cases: a random
// sequence of "add suite / add case / add comment line" operations, each
// appended to a uniformly chosen existing container (file root or suite).
func genTree(t *rapid.T, nfiles, ncases int) [][]Node {
	var containers []*buildNode
	for i := 0; i < nfiles; i++ {
		containers = append(containers, &buildNode{})
	}
	cases, suites, gaps := 0, 0, 0
	for cases < ncases {
		k := vgen.Pick(t, 8, "op")
		// nested placement is preferred: half of the time the most recently opened containers
		var parent *buildNode
		if rapid.Bool().Draw(t, "recent") && len(containers) > nfiles {
			parent = containers[len(containers)-1-vgen.Pick(t, min(3, len(containers)-nfiles), "recent-idx")]
		} else {
			parent = containers[vgen.Pick(t, len(containers), "container")]
		}
		switch {
		case k == 0 && gaps < 5:
			gaps++
			parent.children = append(parent.children, &buildNode{node: Node{Kind: "gap"}})
		case k <= 3 && suites < 9 && parent.depth < 4:
			suites++
			s := &buildNode{depth: parent.depth + 1, node: Node{Kind: "suite", Kw: []string{"describe", "context"}[vgen.Pick(t, 2, "suitekw")], Name: genName(t)}}
			parent.children = append(parent.children, s)
			containers = append(containers, s)
		default:
			cases++
			parent.children = append(parent.children, &buildNode{node: genCase(t)})
		}
	}
	var out [][]Node
	for i := 0; i < nfiles; i++ {
		out = append(out, containers[i].finish().Children)
	}
	return out
}

var lineKinds = []string{"none", "none", "case_head", "case_mid", "case_end", "suite_head", "suite_head", "suite_head",
	"suite_end", "gap", "prelude", "hook", "beyond", "zero", "case_mid", "suite_head"}

var globKinds = []string{"abs", "abs", "base", "all", "all", "sub", "rootdir", "q", "class", "none", "abs", "all", "base", "q", "abs", "all"}

func genGrep(t *rapid.T, pool []string) string {
	lit := func() string {
		if len(pool) > 0 && vgen.Pick(t, 4, "lit-from-tree") != 0 {
			return pool[vgen.Pick(t, len(pool), "lit")]
		}
		return genName(t)
	}
	switch vgen.Pick(t, 8, "grepform") {
	case 0:
		return lit()
	case 1:
		return lit() + "$"
	case 2:
		return lit() + ".*" + lit()
	case 3:
		return lit() + "|" + lit()
	case 4:
		return `\b` + lit() + `\b`
	case 5:
		return "[" + []string{"ab", "bc", "ac"}[vgen.Pick(t, 3, "cls")] + "]" + []string{"a", "b", "c"}[vgen.Pick(t, 3, "clsnext")]
	case 6:
		return "(" + lit() + "|" + lit() + ")$"
	default:
		return `\b` + lit() + "$"
	}
}

func stripKw(comp string) string {
	return strings.TrimPrefix(strings.TrimPrefix(comp, "it "), "should ")
}

// genGrepFor draws a regex that the target case's full name satisfies.
func genGrepFor(t *rapid.T, target caseInfo, pool []string) string {
	comp := func() string { return stripKw(target.comps[vgen.Pick(t, len(target.comps), "comp")]) }
	own := stripKw(target.comps[len(target.comps)-1])
	other := func() string {
		if len(pool) > 0 && rapid.Bool().Draw(t, "other-from-tree") {
			return pool[vgen.Pick(t, len(pool), "other")]
		}
		return genName(t)
	}
	switch vgen.Pick(t, 8, "grepform-t") {
	case 0:
		return comp()
	case 1:
		return own + "$"
	case 2:
		i := vgen.Pick(t, len(target.comps), "first")
		j := i + vgen.Pick(t, len(target.comps)-i, "second")
		return stripKw(target.comps[i]) + ".*" + stripKw(target.comps[j])
	case 3:
		if rapid.Bool().Draw(t, "alt-order") {
			return other() + "|" + comp()
		}
		return comp() + "|" + other()
	case 4:
		return `\b` + comp() + `\b`
	case 5:
		ch := own[:1]
		cls := map[string]string{"a": "ab", "b": "bc", "c": "ac"}[ch]
		if len(own) > 1 {
			return "[" + cls + "]" + own[1:2]
		}
		return "[" + cls + "]$"
	case 6:
		return "(" + other() + "|" + own + ")$"
	default:
		return `\b` + own + "$"
	}
}

// genPathFor draws a --path filter that the target case satisfies.
func genPathFor(t *rapid.T, target caseInfo, c Case, l layout) PathF {
	rel := c.Files[target.file].Path
	globs := []string{"abs", "abs", "base", "all", "q"}
	if strings.HasPrefix(rel, "sub/") {
		globs = append(globs, "sub")
	} else {
		globs = append(globs, "rootdir")
	}
	if b := filepath.Base(rel); b == "fa.elk.test" || b == "fb.elk.test" {
		globs = append(globs, "class")
	}
	p := PathF{Glob: globs[vgen.Pick(t, len(globs), "glob-t")], File: target.file, Line: "none"}
	fl := l.files[target.file]
	pos := 0
	for k, ci := range fl.cases {
		if l.cases[ci].id == target.id {
			pos = k
		}
	}
	kinds := []string{"none", "case_head", "case_mid", "case_end"}
	if len(target.headers) > 0 {
		kinds = append(kinds, "suite_head", "suite_head", "suite_head", "suite_head")
	}
	switch k := kinds[vgen.Pick(t, len(kinds), "linekind-t")]; k {
	case "case_head", "case_mid", "case_end":
		p.Line, p.Index = k, pos
	case "suite_head":
		h := target.headers[vgen.Pick(t, len(target.headers), "header-t")]
		for si, s := range fl.suites {
			if s.head == h {
				p.Line, p.Index = "suite_head", si
			}
		}
	}
	return p
}

func gen(t *rapid.T) Case {
	var c Case
	nfiles := 1 + vgen.Pick(t, 3, "nfiles")
	perm := rapid.Permutation(filePaths).Draw(t, "paths")
	ncases := 1 + vgen.Pick(t, 25, "ncases")
	if rapid.Bool().Draw(t, "small") {
		ncases = 1 + ncases%8
	}
	for i, nodes := range genTree(t, nfiles, ncases) {
		c.Files = append(c.Files, File{Path: perm[i], Nodes: nodes})
	}
	l := render(c)

	// literals that occur in the tree, so that greps hit non-empty subsets
	var pool []string
	seen := map[string]bool{}
	for _, ci := range l.cases {
		for _, comp := range ci.comps {
			comp = stripKw(comp)
			if !seen[comp] {
				seen[comp] = true
				pool = append(pool, comp)
			}
		}
	}

	// most filter sets are built around a target case so that the filters can be
	// satisfied together (random filter pairs almost always select nothing)
	var target *caseInfo
	if vgen.Pick(t, 8, "has-target") != 0 {
		target = &l.cases[vgen.Pick(t, len(l.cases), "target")]
	}
	ngrep := []int{0, 1, 1, 2}[vgen.Pick(t, 4, "ngrep")]
	npath := []int{0, 1, 1, 2}[vgen.Pick(t, 4, "npath")]
	for i := 0; i < ngrep; i++ {
		if target != nil && vgen.Pick(t, 4, "grep-targeted") != 0 {
			c.Greps = append(c.Greps, genGrepFor(t, *target, pool))
		} else {
			c.Greps = append(c.Greps, genGrep(t, pool))
		}
	}
	for i := 0; i < npath; i++ {
		if target != nil && vgen.Pick(t, 4, "path-targeted") != 0 {
			c.Paths = append(c.Paths, genPathFor(t, *target, c, l))
			continue
		}
		c.Paths = append(c.Paths, PathF{
			Glob:  globKinds[vgen.Pick(t, len(globKinds), "glob")],
			File:  vgen.Pick(t, nfiles, "pfile"),
			Line:  lineKinds[vgen.Pick(t, len(lineKinds), "linekind")],
			Index: rapid.IntRange(0, 63).Draw(t, "lineidx"),
		})
	}
	c.Short = vgen.Pick(t, 4, "short") == 0
	c.AbsMain = vgen.Pick(t, 4, "absmain") == 0
	return c
}

// ---------------------------------------------------------------------------
// Model

type filterModel struct {
	text string
	sat  func(ci caseInfo) bool
}

// fullNames gives the case's full name under the two separator conventions the
// implementation mixes (" " and " > "); the generated regexes must not be able
// to tell them apart (checked), because no document fixes the separator.
func fullNames(ci caseInfo) []string {
	return []string{strings.Join(ci.comps, " "), strings.Join(ci.comps, " > "), " > " + strings.Join(ci.comps, " > ")}
}

func buildFilters(c Case, l layout, root string) (args []string, filters []filterModel, labels []string, err error) {
	for _, g := range c.Greps {
		re, rerr := regexp.Compile(g)
		if rerr != nil {
			return nil, nil, nil, fmt.Errorf("GENERATOR: grep %q is not a valid Go regexp: %v", g, rerr)
		}
		args = append(args, "--grep", g)
		g := g
		filters = append(filters, filterModel{"grep " + g, func(ci caseInfo) bool {
			ns := fullNames(ci)
			m := re.MatchString(ns[0])
			for _, n := range ns[1:] {
				if re.MatchString(n) != m {
					panic(fmt.Sprintf("GENERATOR: grep %q is separator-sensitive on %q", g, n))
				}
			}
			return m
		}})
	}
	for _, p := range c.Paths {
		fi := mod(p.File, len(c.Files))
		glob, matches := globFor(p.Glob, c.Files[fi].Path, root)
		line, kind := resolveLine(p, l, fi)
		arg := glob
		if line >= 0 {
			arg += ":" + strconv.Itoa(line)
		}
		flag := "--path"
		if c.Short {
			flag = "-p"
		}
		args = append(args, flag, arg)
		labels = append(labels, "line:"+kind, "glob:"+p.Glob)
		filters = append(filters, filterModel{"path " + arg, func(ci caseInfo) bool {
			if !matches(c.Files[ci.file].Path) {
				return false
			}
			if line < 0 {
				return true
			}
			if line >= ci.start && line <= ci.end {
				return true
			}
			for _, h := range ci.headers {
				if h == line {
					return true
				}
			}
			return false
		}})
	}
	return
}

// ---------------------------------------------------------------------------
// Oracle

var (
	ranRe     = regexp.MustCompile(`<<RAN:(c[0-9]+)>>`)
	summaryRe = regexp.MustCompile(`Summary: (\d+) cases, (\d+) passed, (\d+) skipped, (\d+) failed, (\d+) errors`)
)

type runResult struct {
	stdout, stderr string
	exit           int
	timedOut       bool
	err            error
}

func runElk(dir string, args []string) runResult {
	ctx, cancel := context.WithTimeout(context.Background(), 120*time.Second)
	defer cancel()
	cmd := exec.CommandContext(ctx, elkBin, append([]string{"test"}, args...)...)
	cmd.Dir = dir
	// GOMAXPROCS/GOGC only bound the Go runtime's own overhead of the short-lived
	// process (16 shards on a shared machine); they are not elk settings
	cmd.Env = append(os.Environ(), "ELKPATH="+elkPath, "NO_COLOR=1", "ELKWARN=0", "GOMAXPROCS=2", "GOGC=off")
	var so, se bytes.Buffer
	cmd.Stdout, cmd.Stderr = &so, &se
	err := cmd.Run()
	r := runResult{stdout: so.String(), stderr: se.String()}
	if ctx.Err() != nil {
		r.timedOut = true
		return r
	}
	if err != nil {
		if ee, ok := err.(*exec.ExitError); ok {
			r.exit = ee.ExitCode()
		} else {
			r.err = err
		}
	}
	return r
}

func writeFiles(c Case, l layout) (string, error) {
	dir := filepath.Join(tmpRoot, fmt.Sprintf("t%d", runSeq.Add(1)))
	var main strings.Builder
	main.WriteString("import \"std/test\"\n")
	for i, f := range c.Files {
		p := filepath.Join(dir, f.Path)
		if err := os.MkdirAll(filepath.Dir(p), 0o755); err != nil {
			return "", err
		}
		if err := os.WriteFile(p, []byte(l.files[i].src), 0o644); err != nil {
			return "", err
		}
		main.WriteString(fmt.Sprintf("import \"./%s\"\n", f.Path))
	}
	if err := os.WriteFile(filepath.Join(dir, "main.elk.test"), []byte(main.String()), 0o644); err != nil {
		return "", err
	}
	return dir, nil
}

func validate(c Case) error {
	if len(c.Files) == 0 {
		return fmt.Errorf("no files")
	}
	seen := map[string]bool{}
	for _, f := range c.Files {
		if seen[f.Path] || f.Path == "" || f.Path == "main.elk.test" {
			return fmt.Errorf("bad file path %q", f.Path)
		}
		seen[f.Path] = true
	}
	return nil
}

func oracle(c Case, ctx *pbt.Ctx) error {
	if err := validate(c); err != nil {
		return fmt.Errorf("GENERATOR: %v", err)
	}
	l := render(c)
	dir, err := writeFiles(c, l)
	if err != nil {
		return fmt.Errorf("HARNESS: cannot write scratch files: %v", err)
	}
	defer os.RemoveAll(dir)

	root, cwd := "", dir
	if c.AbsMain {
		root, cwd = dir, tmpRoot
	}
	args, filters, labels, err := buildFilters(c, l, root)
	if err != nil {
		return err
	}
	if c.AbsMain {
		args = append([]string{"--main", filepath.Join(dir, "main.elk.test")}, args...)
		ctx.Label("main:absolute")
	} else {
		ctx.Label("main:default")
	}
	for _, lb := range labels {
		ctx.Label(lb)
	}

	// model: selected set and expected exit status
	selected := map[string]bool{}
	var selIDs []string
	wantPassed, wantFailed, wantErrors := 0, 0, 0
	for _, ci := range l.cases {
		ok := true
		for _, f := range filters {
			if !f.sat(ci) {
				ok = false
				break
			}
		}
		if !ok {
			continue
		}
		selected[ci.id] = true
		selIDs = append(selIDs, ci.id)
		switch ci.outcome {
		case "fail":
			wantFailed++
		case "throw_sym", "throw_err":
			wantErrors++
		default:
			wantPassed++
		}
	}
	wantFailure := wantFailed+wantErrors > 0

	nf := len(filters)
	ctx.Label(fmt.Sprintf("filters:%d", nf))
	ctx.Label(fmt.Sprintf("grep:%d", len(c.Greps)))
	ctx.Label(fmt.Sprintf("path:%d", len(c.Paths)))
	ctx.Label(fmt.Sprintf("files:%d", len(c.Files)))
	switch {
	case len(selIDs) == 0:
		ctx.Label("sel:empty")
	case len(selIDs) == len(l.cases):
		ctx.Label("sel:all")
	default:
		ctx.Label("sel:some")
	}
	switch n := len(l.cases); {
	case n <= 3:
		ctx.Label("cases:1-3")
	case n <= 10:
		ctx.Label("cases:4-10")
	default:
		ctx.Label("cases:11-25")
	}
	maxDepth := 0
	for _, ci := range l.cases {
		if d := len(ci.headers); d > maxDepth {
			maxDepth = d
		}
	}
	ctx.Label(fmt.Sprintf("depth:%d", maxDepth))
	if wantFailure {
		ctx.Label("want:exit!=0")
	} else {
		ctx.Label("want:exit0")
	}
	suiteHeadFilter := false
	for _, lb := range labels {
		if lb == "line:suite_head" {
			suiteHeadFilter = true
		}
	}
	if (nf >= 2 || suiteHeadFilter) && len(selIDs) > 0 && len(selIDs) < len(l.cases) {
		key, _ := json.Marshal(c)
		ctx.NonTrivial(string(key))
	}

	if os.Getenv("C34_DRY") != "" {
		return nil // developer switch: measure the generator without running elk
	}

	// observed
	r := runElk(cwd, args)
	if r.timedOut {
		pbt.Inconclusive()
		ctx.Label("timeout")
		return nil
	}
	describe := func() string {
		var b strings.Builder
		fmt.Fprintf(&b, "\ncommand: elk test %s\n", strings.Join(args, " "))
		for i, f := range c.Files {
			fmt.Fprintf(&b, "--- %s\n%s", f.Path, numbered(l.files[i].src))
		}
		fmt.Fprintf(&b, "--- stdout\n%s\n--- stderr\n%s\n", clip(r.stdout, 3000), clip(r.stderr, 3000))
		return strings.ReplaceAll(b.String(), dir, "$DIR")
	}
	if r.err != nil {
		return fmt.Errorf("HARNESS: cannot run elk: %v", r.err)
	}
	if r.exit != 0 && r.exit != 1 {
		return fmt.Errorf("elk test ended with unexpected exit status %d (crash?)%s", r.exit, describe())
	}
	sm := summaryRe.FindStringSubmatch(r.stdout)
	if sm == nil {
		return fmt.Errorf("elk test printed no summary line (exit status %d): the suite did not run to completion%s", r.exit, describe())
	}

	ran := map[string]int{}
	for _, m := range ranRe.FindAllStringSubmatch(r.stdout, -1) {
		ran[m[1]]++
	}
	var problems []string
	for _, ci := range l.cases {
		n := ran[ci.id]
		switch {
		case selected[ci.id] && n == 0:
			problems = append(problems, fmt.Sprintf("selected case %s (%s, %s:%d-%d) did not run", ci.id, strings.Join(ci.comps, " > "), c.Files[ci.file].Path, ci.start, ci.end))
		case selected[ci.id] && n > 1:
			problems = append(problems, fmt.Sprintf("selected case %s ran %d times", ci.id, n))
		case !selected[ci.id] && n > 0:
			problems = append(problems, fmt.Sprintf("case %s (%s, %s:%d-%d) ran %d time(s) but does not satisfy every filter", ci.id, strings.Join(ci.comps, " > "), c.Files[ci.file].Path, ci.start, ci.end, n))
		}
	}
	if len(problems) > 0 {
		sort.Strings(problems)
		var fs []string
		for _, f := range filters {
			fs = append(fs, f.text)
		}
		return fmt.Errorf("executed set differs from the selected set (filters: %s; selected: %v):\n  %s%s",
			strings.ReplaceAll(strings.Join(fs, "; "), dir, "$DIR"), selIDs, strings.Join(clipList(problems, 12), "\n  "), describe())
	}

	// summary counts (the reporter's view of what ran)
	num := func(s string) int { n, _ := strconv.Atoi(s); return n }
	gotCases, gotPassed, gotSkipped, gotFailed, gotErrors := num(sm[1]), num(sm[2]), num(sm[3]), num(sm[4]), num(sm[5])
	if gotCases != len(selIDs) || gotPassed != wantPassed || gotFailed != wantFailed || gotErrors != wantErrors || gotSkipped != 0 {
		return fmt.Errorf("summary line disagrees with the cases that ran: got %q, want %d cases, %d passed, 0 skipped, %d failed, %d errors%s",
			sm[0], len(selIDs), wantPassed, wantFailed, wantErrors, describe())
	}

	// exit status
	ctx.Label(fmt.Sprintf("exit:%d", r.exit))
	if (r.exit != 0) != wantFailure {
		if wantFailure {
			return fmt.Errorf("exit status 0 although %d selected case(s) failed and %d errored%s", wantFailed, wantErrors, describe())
		}
		return fmt.Errorf("exit status %d although no case that ran failed or errored (%d case(s) ran, all passed)%s", r.exit, len(selIDs), describe())
	}
	return nil
}

func numbered(src string) string {
	var b strings.Builder
	for i, ln := range strings.Split(strings.TrimSuffix(src, "\n"), "\n") {
		fmt.Fprintf(&b, "%3d| %s\n", i+1, ln)
	}
	return b.String()
}

func clip(s string, n int) string {
	if len(s) > n {
		return s[:n] + "…"
	}
	return s
}

func clipList(xs []string, n int) []string {
	if len(xs) > n {
		return append(append([]string{}, xs[:n]...), fmt.Sprintf("… and %d more", len(xs)-n))
	}
	return xs
}

// minimize greedily deletes files, filters and nodes while the case keeps
// failing (rapid's own shrinking gets only a handful of attempts because every
// attempt runs the elk binary).  At most maxMinimizeRuns oracle calls.
const maxMinimizeRuns = 80

func cloneCase(c Case) Case {
	b, _ := json.Marshal(c)
	var d Case
	_ = json.Unmarshal(b, &d)
	return d
}

// deleteNth removes the n-th node (pre-order) of the forest; unwrap keeps its children in place.
func deleteNth(nodes []Node, n *int, unwrap bool) ([]Node, bool) {
	for i := range nodes {
		if *n == 0 {
			var out []Node
			out = append(out, nodes[:i]...)
			if unwrap {
				out = append(out, nodes[i].Children...)
			}
			out = append(out, nodes[i+1:]...)
			*n = -1
			return out, true
		}
		*n--
		if ch, ok := deleteNth(nodes[i].Children, n, unwrap); ok {
			nodes[i].Children = ch
			return nodes, true
		}
	}
	return nodes, false
}

func countNodes(ns []Node) int {
	n := len(ns)
	for _, x := range ns {
		n += countNodes(x.Children)
	}
	return n
}

func candidates(c Case) []Case {
	var out []Case
	for i := range c.Files {
		if len(c.Files) > 1 {
			d := cloneCase(c)
			d.Files = append(d.Files[:i], d.Files[i+1:]...)
			out = append(out, d)
		}
	}
	for i := range c.Greps {
		d := cloneCase(c)
		d.Greps = append(d.Greps[:i], d.Greps[i+1:]...)
		out = append(out, d)
	}
	for i := range c.Paths {
		d := cloneCase(c)
		d.Paths = append(d.Paths[:i], d.Paths[i+1:]...)
		out = append(out, d)
	}
	for _, unwrap := range []bool{false, true} {
		for fi := range c.Files {
			for k := 0; k < countNodes(c.Files[fi].Nodes); k++ {
				d := cloneCase(c)
				n := k
				d.Files[fi].Nodes, _ = deleteNth(d.Files[fi].Nodes, &n, unwrap)
				if countNodes(d.Files[fi].Nodes) < countNodes(c.Files[fi].Nodes) || unwrap {
					out = append(out, d)
				}
			}
		}
	}
	if c.AbsMain || c.Short {
		d := cloneCase(c)
		d.AbsMain, d.Short = false, false
		out = append(out, d)
	}
	return out
}

func size(c Case) int {
	n := len(c.Greps) + len(c.Paths) + len(c.Files)
	for _, f := range c.Files {
		n += countNodes(f.Nodes)
	}
	if c.AbsMain {
		n++
	}
	if c.Short {
		n++
	}
	return n
}

func minimize(c Case) Case {
	runs := 0
	fails := func(d Case) bool {
		runs++
		err := oracle(d, &pbt.Ctx{})
		return err != nil && !strings.HasPrefix(err.Error(), "HARNESS") && !strings.HasPrefix(err.Error(), "GENERATOR")
	}
	for progress := true; progress && runs < maxMinimizeRuns; {
		progress = false
		for _, d := range candidates(c) {
			if runs >= maxMinimizeRuns {
				break
			}
			if size(d) < size(c) && validate(d) == nil && fails(d) {
				c, progress = d, true
				break
			}
		}
	}
	return c
}

func TestRunner(t *testing.T) {
	pbt.Rule("runner", "1-3 generated .elk.test files (describe/context depth <= 4, exactly N in 1..25 cases named over {a,b,c}, pass / failed assertion / thrown symbol / thrown Error, comment lines between cases, empty suites) imported by a main.elk.test; 0-2 --grep regexes (separator-agnostic forms) and 0-2 --path glob[:line] filters (8 glob kinds, relative with the default main file or absolute with an absolute --main; line on a case head/body/end, suite header, suite end, comment line, prelude, root hook, beyond EOF, 0); 7/8 of the filter sets are built around a target case which each filter is made to satisfy with probability 3/4 (grep from the target's name components; path = its file + its own lines or the header line of an enclosing suite), the rest is random; the real `elk test` binary is run. Non-trivial: >= 2 filters or a line filter on a suite header, and the selected set is neither empty nor everything")
	pbt.Run(t, pbt.Prop[Case]{
		Name:     "runner",
		Quick:    480,
		Thorough: 4000,
		Gen:      gen,
		Oracle:   oracle,
		Minimize: minimize,
		Sample: func(c Case) any {
			l := render(c)
			root := ""
			if c.AbsMain {
				root = "$DIR"
			}
			args, _, _, _ := buildFilters(c, l, root)
			return map[string]any{"args": strings.Join(args, " "), "cases": len(l.cases), "files": len(c.Files)}
		},
	})
}
