package c29

// Independent description of the instruction set, written from the operand
// documentation in bytecode/opcode.go and the operand reads / pushes / pops of
// each case of the Thread.run loop (vm/thread.go).  It does NOT call the
// repository's decoder: instruction widths and stack effects below are this
// harness's own statement of the encoding, the disassembler is compared with it.

import (
	bc "github.com/elk-language/elk/bytecode"
)

type operand uint8

const (
	oNone     operand = iota
	oImm              // immediate data (number, flag): nothing to range-check
	oValue            // index into the value pool, any kind
	oSym              // index into the value pool, must be an inline symbol
	oCallSite         // index of a *CallSiteInfo
	oBCSite           // index of a *BytecodeCallSiteInfo
	oNTSite           // index of a *NativeCallSiteInfo
	oLocal            // local slot index
	oLocalBox         // local slot index followed by one flag byte
	oCloseTo          // local slot index down to which upvalues are closed
	oUpvalue          // upvalue index
	oCount            // element / argument count (enters the stack effect)
	oRegex            // flag byte followed by an element count
	oJump             // 16 bit forward distance
	oLoop             // 16 bit backward distance
	oPrep             // number of local slots to reserve
	oClosure          // variable length upvalue list terminated by 0xff
)

type flow uint8

const (
	fNext     flow = iota // falls through
	fCond                 // may jump forward or fall through
	fJump                 // always jumps forward
	fLoop                 // always jumps backward
	fTerminal             // leaves the function (return / throw / stop)
)

// effect kinds for instructions whose pops/pushes depend on operands or pool values
type dyn uint8

const (
	dNone dyn = iota
	dCall     // pops argc+1, pushes 1 (argc from the call-site info)
	dInst     // INSTANTIATE n: pops n+1, pushes 1
	dTuple    // n+1 -> 1
	dList     // n+2 -> 1  (capacity, base, elements)
	dSet      // n+2 -> 1
	dMap      // 2n+2 -> 1
	dRecord   // 2n+1 -> 1
	dConcat   // n -> 1 (string, symbol, regex)
	dRange    // flag decides 2 -> 1 or 1 -> 1
	dSelect   // pops the select data and the channel operands it describes, pushes 2
	dPrep     // reserves n slots
	dGen      // GENERATOR: pushes 1 then RETURN; resumed at +2 with the depth before
	dPromise  // PROMISE: pops 1, pushes 1 then RETURN; resumed at +2 with the depth after the pop
	dToFinally
)

type opInfo struct {
	width   int // bytes including the opcode; 0 = variable (closure)
	opBytes int // size of the first operand in bytes
	operand operand
	flow    flow
	need    int // operand-stack values the instruction reads
	delta   int // net change on the fall-through path
	tdelta  int // net change on the taken path of a conditional jump
	dyn     dyn
	index   int // implied index for the short forms (LOAD_VALUE_2, GET_LOCAL_3 ...), -1 otherwise
}

var table = map[bc.OpCode]opInfo{}

func def(i opInfo, ops ...bc.OpCode) {
	for _, o := range ops {
		if _, dup := table[o]; dup {
			panic("duplicate table entry " + o.String())
		}
		if i.operand == oNone || (i.index == 0 && i.width > 1) {
			// keep explicit
		}
		table[o] = i
	}
}

func plain(need, delta int) opInfo { return opInfo{width: 1, need: need, delta: delta, index: -1} }

func init() {
	// --- one byte, fixed effect ---
	def(plain(0, 0), bc.NOOP, bc.INSPECT_STACK, bc.CHECK_ABORT)
	def(plain(0, 1), bc.TRUE, bc.FALSE, bc.NIL, bc.SELF, bc.UNDEFINED,
		bc.INT_M1, bc.INT_0, bc.INT_1, bc.INT_2, bc.INT_3, bc.INT_4, bc.INT_5, bc.FLOAT_0, bc.FLOAT_1, bc.FLOAT_2)
	def(plain(1, -1), bc.POP, bc.EXEC_DEFER)
	def(plain(2, -2), bc.POP_2, bc.INCLUDE, bc.SET_SUPERCLASS, bc.DEF_IVARS)
	def(plain(3, -3), bc.DEF_CONST)
	def(plain(2, -1),
		bc.ADD, bc.ADD_INT, bc.ADD_FLOAT, bc.SUBTRACT, bc.SUBTRACT_INT, bc.SUBTRACT_FLOAT,
		bc.MULTIPLY, bc.MULTIPLY_INT, bc.MULTIPLY_FLOAT, bc.DIVIDE, bc.DIVIDE_INT, bc.DIVIDE_FLOAT,
		bc.EXPONENTIATE, bc.EXPONENTIATE_INT,
		bc.RBITSHIFT, bc.RBITSHIFT_INT, bc.LOGIC_RBITSHIFT, bc.LBITSHIFT, bc.LBITSHIFT_INT, bc.LOGIC_LBITSHIFT,
		bc.BITWISE_AND, bc.BITWISE_AND_INT, bc.BITWISE_OR, bc.BITWISE_OR_INT, bc.BITWISE_XOR, bc.BITWISE_XOR_INT, bc.BITWISE_AND_NOT,
		bc.MODULO, bc.MODULO_INT, bc.MODULO_FLOAT,
		bc.EQUAL, bc.EQUAL_INT, bc.EQUAL_FLOAT, bc.STRICT_EQUAL, bc.NOT_EQUAL, bc.NOT_EQUAL_INT, bc.NOT_EQUAL_FLOAT, bc.STRICT_NOT_EQUAL,
		bc.LAX_EQUAL, bc.LAX_NOT_EQUAL,
		bc.GREATER, bc.GREATER_INT, bc.GREATER_FLOAT, bc.GREATER_EQUAL, bc.GREATER_EQUAL_I, bc.GREATER_EQUAL_F,
		bc.LESS, bc.LESS_INT, bc.LESS_FLOAT, bc.LESS_EQUAL, bc.LESS_EQUAL_INT, bc.LESS_EQUAL_FLOAT,
		bc.COMPARE, bc.SUBSCRIPT, bc.APPEND, bc.AS, bc.INSTANCE_OF, bc.IS_A, bc.POP_SKIP_ONE,
		bc.INIT_NAMESPACE)
	def(plain(1, 0),
		bc.NEGATE, bc.NEGATE_INT, bc.NEGATE_FLOAT, bc.NOT, bc.BITWISE_NOT, bc.UNARY_PLUS,
		bc.INCREMENT, bc.INCREMENT_INT, bc.DECREMENT, bc.DECREMENT_INT,
		bc.GET_CLASS, bc.GET_SINGLETON, bc.COPY, bc.GET_ITERATOR, bc.MUST, bc.EXEC, bc.GO,
		bc.AWAIT, bc.AWAIT_RESULT, bc.AWAIT_SYNC, bc.BREAKPOINT)
	def(plain(3, -2), bc.DEF_METHOD, bc.DEF_GETTER, bc.DEF_SETTER, bc.SUBSCRIPT_SET, bc.APPEND_AT, bc.MAP_SET, bc.POP_2_SKIP_ONE)
	def(plain(1, 1), bc.DUP)
	def(plain(2, 2), bc.DUP_2)
	def(plain(2, 1), bc.DUP_SECOND)
	def(plain(2, 0), bc.SWAP)
	def(plain(1, -1), bc.YIELD) // the yielded value is handed to the caller, execution resumes after it
	def(opInfo{width: 1, need: 1, flow: fTerminal, index: -1}, bc.RETURN, bc.RETURN_FINALLY)
	def(opInfo{width: 1, need: 0, flow: fTerminal, index: -1}, bc.RETURN_SELF, bc.STOP_ITERATION)
	def(opInfo{width: 1, need: 0, flow: fTerminal, index: 1, operand: oLocal}, bc.RETURN_FIRST_ARG)
	def(opInfo{width: 1, need: 1, flow: fTerminal, index: -1}, bc.THROW)
	def(opInfo{width: 1, need: 2, flow: fTerminal, index: -1}, bc.RETHROW)
	def(opInfo{width: 1, need: 2, flow: fTerminal, index: -1, dyn: dToFinally}, bc.JUMP_TO_FINALLY)
	def(opInfo{width: 1, need: 0, delta: 1, index: -1, dyn: dGen}, bc.GENERATOR)
	def(opInfo{width: 1, need: 1, delta: 0, index: -1, dyn: dPromise}, bc.PROMISE)
	def(opInfo{width: 1, need: 1, index: -1, dyn: dSelect}, bc.SELECT)

	// short forms with an implied index
	for i, o := range []bc.OpCode{bc.LOAD_VALUE_0, bc.LOAD_VALUE_1, bc.LOAD_VALUE_2, bc.LOAD_VALUE_3} {
		def(opInfo{width: 1, delta: 1, operand: oValue, index: i}, o)
	}
	for i, o := range []bc.OpCode{bc.GET_LOCAL_1, bc.GET_LOCAL_2, bc.GET_LOCAL_3, bc.GET_LOCAL_4} {
		def(opInfo{width: 1, delta: 1, operand: oLocal, index: i + 1}, o)
	}
	for i, o := range []bc.OpCode{bc.SET_LOCAL_1, bc.SET_LOCAL_2, bc.SET_LOCAL_3, bc.SET_LOCAL_4} {
		def(opInfo{width: 1, need: 1, delta: -1, operand: oLocal, index: i + 1}, o)
	}
	for i, o := range []bc.OpCode{bc.GET_UPVALUE_0, bc.GET_UPVALUE_1} {
		def(opInfo{width: 1, delta: 1, operand: oUpvalue, index: i}, o)
	}
	for i, o := range []bc.OpCode{bc.SET_UPVALUE_0, bc.SET_UPVALUE_1} {
		def(opInfo{width: 1, need: 1, delta: -1, operand: oUpvalue, index: i}, o)
	}
	for i, o := range []bc.OpCode{bc.CLOSE_UPVALUES_TO_1, bc.CLOSE_UPVALUES_TO_2, bc.CLOSE_UPVALUES_TO_3} {
		def(opInfo{width: 1, operand: oCloseTo, index: i + 1}, o)
	}
	// instance variable slots are not visible in the function: no index check
	def(plain(0, 1), bc.GET_IVAR_0, bc.GET_IVAR_1, bc.GET_IVAR_2)
	def(plain(1, -1), bc.SET_IVAR_0, bc.SET_IVAR_1, bc.SET_IVAR_2)

	// --- one operand, 8 and 16 bit forms ---
	pair := func(i opInfo, o8, o16 bc.OpCode) {
		i.index = -1
		i.width, i.opBytes = 2, 1
		def(i, o8)
		i.width, i.opBytes = 3, 2
		def(i, o16)
	}
	pair(opInfo{delta: 1, operand: oValue}, bc.LOAD_VALUE8, bc.LOAD_VALUE16)
	pair(opInfo{operand: oPrep, dyn: dPrep}, bc.PREP_LOCALS8, bc.PREP_LOCALS16)
	pair(opInfo{need: 1, delta: -1, operand: oLocal}, bc.SET_LOCAL8, bc.SET_LOCAL16)
	pair(opInfo{delta: 1, operand: oLocal}, bc.GET_LOCAL8, bc.GET_LOCAL16)
	pair(opInfo{need: 1, delta: -1, operand: oUpvalue}, bc.SET_UPVALUE8, bc.SET_UPVALUE16)
	pair(opInfo{delta: 1, operand: oUpvalue}, bc.GET_UPVALUE8, bc.GET_UPVALUE16)
	pair(opInfo{operand: oCloseTo}, bc.CLOSE_UPVALUES_TO8, bc.CLOSE_UPVALUES_TO16)
	pair(opInfo{delta: 1, operand: oSym}, bc.GET_CONST8, bc.GET_CONST16)
	pair(opInfo{operand: oCallSite, dyn: dCall}, bc.CALL_METHOD_TCO8, bc.CALL_METHOD_TCO16)
	pair(opInfo{operand: oCallSite, dyn: dCall}, bc.CALL_METHOD8, bc.CALL_METHOD16)
	pair(opInfo{operand: oBCSite, dyn: dCall}, bc.CALL_METHOD_BC8, bc.CALL_METHOD_BC16)
	pair(opInfo{operand: oNTSite, dyn: dCall}, bc.CALL_METHOD_NT8, bc.CALL_METHOD_NT16)
	pair(opInfo{operand: oCallSite, dyn: dCall}, bc.CALL8, bc.CALL16)
	pair(opInfo{need: 1, operand: oCallSite}, bc.NEXT8, bc.NEXT16) // replaces the iterator copy by the element or undefined
	pair(opInfo{operand: oCount, dyn: dInst}, bc.INSTANTIATE8, bc.INSTANTIATE16)
	pair(opInfo{delta: 1, operand: oImm}, bc.GET_IVAR8, bc.GET_IVAR16)
	pair(opInfo{need: 1, delta: -1, operand: oImm}, bc.SET_IVAR8, bc.SET_IVAR16)
	pair(opInfo{operand: oCount, dyn: dTuple}, bc.NEW_ARRAY_TUPLE8, bc.NEW_ARRAY_TUPLE16)
	pair(opInfo{operand: oCount, dyn: dList}, bc.NEW_ARRAY_LIST8, bc.NEW_ARRAY_LIST16)
	pair(opInfo{operand: oCount, dyn: dSet}, bc.NEW_HASH_SET8, bc.NEW_HASH_SET16)
	pair(opInfo{operand: oCount, dyn: dMap}, bc.NEW_HASH_MAP8, bc.NEW_HASH_MAP16)
	pair(opInfo{operand: oCount, dyn: dRecord}, bc.NEW_HASH_RECORD8, bc.NEW_HASH_RECORD16)
	pair(opInfo{operand: oCount, dyn: dConcat}, bc.NEW_STRING8, bc.NEW_STRING16)
	pair(opInfo{operand: oCount, dyn: dConcat}, bc.NEW_SYMBOL8, bc.NEW_SYMBOL16)
	// flag byte + count
	def(opInfo{width: 3, opBytes: 1, operand: oRegex, dyn: dConcat, index: -1}, bc.NEW_REGEX8)
	def(opInfo{width: 4, opBytes: 2, operand: oRegex, dyn: dConcat, index: -1}, bc.NEW_REGEX16)
	// local index + immutability flag
	def(opInfo{width: 3, opBytes: 1, operand: oLocalBox, delta: 1, index: -1}, bc.BOX_LOCAL8)
	def(opInfo{width: 4, opBytes: 2, operand: oLocalBox, delta: 1, index: -1}, bc.BOX_LOCAL16)
	// 16 bit only
	def(opInfo{width: 3, opBytes: 2, operand: oSym, delta: 1, index: -1}, bc.GET_IVAR_NAME16)
	def(opInfo{width: 3, opBytes: 2, operand: oSym, need: 1, delta: -1, index: -1}, bc.SET_IVAR_NAME16)
	// immediates
	def(opInfo{width: 2, opBytes: 1, operand: oImm, delta: 1, index: -1},
		bc.LOAD_INT_8, bc.LOAD_INT64_8, bc.LOAD_UINT64_8, bc.LOAD_INT32_8, bc.LOAD_UINT32_8,
		bc.LOAD_INT16_8, bc.LOAD_UINT16_8, bc.LOAD_INT8, bc.LOAD_UINT8, bc.LOAD_CHAR_8)
	def(opInfo{width: 3, opBytes: 2, operand: oImm, delta: 1, index: -1}, bc.LOAD_INT_16)
	def(opInfo{width: 2, opBytes: 1, operand: oImm, dyn: dRange, index: -1}, bc.NEW_RANGE)
	def(opInfo{width: 2, opBytes: 1, operand: oImm, need: 2, delta: -2, index: -1}, bc.DEF_NAMESPACE)
	// closures: the function on top of the stack is replaced by the closure
	def(opInfo{width: 0, operand: oClosure, need: 1, index: -1}, bc.CLOSURE, bc.CLOSED_CLOSURE)

	// --- jumps: 16 bit distance relative to the end of the instruction ---
	jmp := func(fl flow, need, delta, tdelta int, ops ...bc.OpCode) {
		op := oJump
		if fl == fLoop {
			op = oLoop
		}
		def(opInfo{width: 3, opBytes: 2, operand: op, flow: fl, need: need, delta: delta, tdelta: tdelta, index: -1}, ops...)
	}
	jmp(fJump, 0, 0, 0, bc.JUMP)
	jmp(fLoop, 0, 0, 0, bc.LOOP)
	jmp(fCond, 1, -1, -1, bc.JUMP_UNLESS, bc.JUMP_IF, bc.JUMP_IF_NIL, bc.JUMP_UNLESS_NIL, bc.JUMP_UNLESS_UNDEF)
	jmp(fCond, 1, 0, 0, bc.JUMP_UNLESS_NP, bc.JUMP_IF_NP, bc.JUMP_IF_NIL_NP, bc.JUMP_UNLESS_NNP, bc.JUMP_UNLESS_UNP)
	jmp(fCond, 2, -2, -2, bc.JUMP_UNLESS_LE, bc.JUMP_UNLESS_LT, bc.JUMP_UNLESS_GE, bc.JUMP_UNLESS_GT, bc.JUMP_UNLESS_EQ,
		bc.JUMP_UNLESS_ILE, bc.JUMP_UNLESS_ILT, bc.JUMP_UNLESS_IGE, bc.JUMP_UNLESS_IGT, bc.JUMP_UNLESS_IEQ,
		bc.JUMP_IF_IEQ, bc.JUMP_IF_EQ)
	// for..in drivers: leave the element on the stack and continue, or pop the exhausted iterator slot and leave the loop
	jmp(fCond, 1, 0, -1, bc.FOR_IN, bc.FOR_IN_BUILTIN)
}

// defined reports whether the bytecode package knows the opcode byte (the name
// table has gaps and OpCode.String indexes past its end for one value).
func defined(o bc.OpCode) (ok bool) {
	defer func() {
		if recover() != nil {
			ok = false
		}
	}()
	s := o.String()
	return s != "" && s != "UNKNOWN"
}
