package c29

import (
	"encoding/json"
	"fmt"
	"os"
	"regexp"
	"sort"
	"strings"
	"testing"
	"time"

	"github.com/elk-language/elk/lexer"
	"pgregory.net/rapid"

	"verif/internal/corpus"
	"verif/internal/mini"
	"verif/internal/pbt"
	sb "verif/internal/sandbox"
	"verif/internal/srcgen"
	"verif/internal/vgen"
)

func TestMain(m *testing.M) { pbt.Main(m, "C29") }

type Case struct {
	Src string `json:"src"`
}

var worker *sb.Worker

// Input-side exclusions of the recorded known findings (see known.C29.json): each is a
// source construct whose bytecode shape is pinned by the repository's own compiler tests.
var (
	reNilSafeSubscript = regexp.MustCompile(`\?\[`)
	reAttrPostfix      = regexp.MustCompile(`\.\s*[A-Za-z_]\w*\s*(\+\+|--)`)
	reNilSafeCascade   = regexp.MustCompile(`\?\.\.`)
	reBoxOfIvar        = regexp.MustCompile(`&\s*@`)
)

// condReturnNotLast is the input-side predicate of the finding "return-after-conditional-return-dropped":
// a conditional return (`return x if c` / `return x unless c`, or a `return` that closes a block such as
// `if c ... return x end`) directly followed by (a) another `return` statement — dropped by the compiler's
// "last opcode was a return" shortcut — or (b) a one line statement that is the last of its body — the RETURN
// behind it is dropped when that statement ends in an instruction emitted through emitAddValue (a call).
func condReturnNotLast(src string) bool {
	var lines []string
	for _, l := range strings.Split(src, "\n") {
		if t := strings.TrimSpace(l); t != "" {
			lines = append(lines, t)
		}
	}
	closer := func(i int) bool {
		if i >= len(lines) {
			return true
		}
		w := lines[i]
		for _, k := range []string{"end", "else", "elsif", "catch", "finally", "case", "}", ")"} {
			if w == k || strings.HasPrefix(w, k+" ") || strings.HasPrefix(w, k+")") || strings.HasPrefix(w, k+";") {
				return true
			}
		}
		return false
	}
	// opens reports whether a line starts a multi-line statement (its last instruction is then emitted by the block construct)
	opens := func(w string) bool {
		if strings.HasSuffix(w, "->") || strings.HasSuffix(w, "~>") || strings.HasPrefix(w, "$") {
			return true
		}
		for _, k := range []string{"if", "unless", "while", "until", "loop", "for", "fornum", "do", "switch", "match", "def", "class", "module", "select", "go"} {
			if w == k || strings.HasPrefix(w, k+" ") || strings.HasPrefix(w, k+"(") {
				return true
			}
		}
		return strings.HasSuffix(w, " do") || strings.Contains(w, ":= do") || strings.Contains(w, "= do") || strings.Contains(w, "= if ") || strings.Contains(w, "(if ") && !strings.Contains(w, " else ")
	}
	isReturn := func(w string) bool {
		return w == "return" || strings.HasPrefix(w, "return ") || strings.HasPrefix(w, "return(")
	}
	for i, l := range lines {
		if !isReturn(l) {
			continue
		}
		nxt := -1
		if strings.Contains(l, " if ") || strings.Contains(l, " unless ") || strings.Contains(l, " if(") || strings.Contains(l, " unless(") {
			nxt = i + 1
		} else if i+1 < len(lines) && (lines[i+1] == "end" || strings.HasPrefix(lines[i+1], "end ")) {
			nxt = i + 2 // return closing a nested block
		}
		if nxt < 0 || closer(nxt) {
			continue
		}
		// the statement after the conditional return: dropped when it is a return; when it is a one line
		// statement that ends its body, the RETURN behind it may be dropped
		if isReturn(lines[nxt]) {
			return true
		}
		if !opens(lines[nxt]) && closer(nxt+1) {
			return true
		}
	}
	return false
}

var known = []pbt.Known[Case]{
	{Key: "nil-safe-subscript-pushes-nothing", Match: func(c Case) bool { return reNilSafeSubscript.MatchString(c.Src) }},
	{Key: "attribute-postfix-drops-receiver", Match: func(c Case) bool { return reAttrPostfix.MatchString(c.Src) }},
	{Key: "nil-safe-cascade-keeps-receiver", Match: func(c Case) bool { return reNilSafeCascade.MatchString(c.Src) }},
	{Key: "box-of-ivar-pushes-no-receiver", Match: func(c Case) bool { return reBoxOfIvar.MatchString(c.Src) }},
	{Key: "return-after-conditional-return-dropped", Match: func(c Case) bool { return condReturnNotLast(c.Src) }},
}

// compile asks the worker for the description of every function compiled for src.
func compile(src string, text bool) (funcs []Func, class, detail string) {
	res := worker.Do(sb.Req{Mode: "bytecode", Source: src, Cfg: sb.Cfg{Disasm: text}}, 60*time.Second)
	class, detail = sb.Classify(res)
	if class != sb.OK {
		return nil, class, detail
	}
	run := res.Resp.Runs[0]
	raw, ok := run.Extra["funcs"]
	if !ok {
		return nil, "no_bytecode", ""
	}
	b, _ := json.Marshal(raw)
	if err := json.Unmarshal(b, &funcs); err != nil {
		return nil, sb.Fatal, "bad function description: " + err.Error()
	}
	return funcs, sb.OK, ""
}

func path(funcs []Func, i int) string {
	var p []string
	for n := 0; i >= 0 && n < 20; n++ {
		p = append([]string{funcs[i].Name}, p...)
		i = funcs[i].Parent
	}
	return strings.Join(p, " > ")
}

func oracle(c Case, ctx *pbt.Ctx) error {
	funcs, class, detail := compile(c.Src, false)
	ctx.Label("compile:" + class)
	switch class {
	case sb.OK:
	case sb.Timeout:
		pbt.Inconclusive()
		return nil
	case sb.Rejected, "no_bytecode":
		return nil
	default:
		// a crash of the checker / compiler itself is the subject of C01 and C03, not of this property
		ctx.Label("compiler_crash_not_judged_here")
		_ = detail
		return nil
	}
	opt := Options{KnownSelectElse: pbt.KnownActive("select-else-leaks-operands")}
	var bad []string
	nontrivial := false
	seenOps := map[string]bool{}
	for i := range funcs {
		f := &funcs[i]
		r := Verify(f, opt)
		for _, l := range r.Labels {
			ctx.Label(l)
		}
		for k := 0; k < r.SelectElseEdges; k++ {
			ctx.Excluded("select-else-leaks-operands")
		}
		ctx.Label("functions")
		if r.Inconclusive {
			ctx.Label("function_inconclusive")
		}
		if r.DepthChecked {
			ctx.Label("function_depth_checked")
		}
		if len(f.Catches) > 0 {
			ctx.Label("function_with_catch_entries")
		}
		if f.Via == "callsite" {
			ctx.Label("function_reached_through_call_site")
		}
		if r.Jumps > 0 && r.Calls > 0 {
			nontrivial = true
			ctx.Label("function_with_jump_and_call")
		}
		for _, v := range r.Violations {
			bad = append(bad, fmt.Sprintf("function %q: %s", path(funcs, i), v))
		}
		opsOf(f, seenOps)
	}
	for o := range seenOps {
		ctx.Label("op:" + o)
	}
	if len(bad) > 0 {
		sort.Strings(bad)
		if len(bad) > 6 {
			bad = append(bad[:6], fmt.Sprintf("... and %d more", len(bad)-6))
		}
		return fmt.Errorf("compiled bytecode is not structurally valid: %s\n%s", sigOf(bad[0][strings.Index(bad[0], "\": ")+3:]), strings.Join(bad, "\n"))
	}
	if nontrivial {
		ctx.NonTrivial(c.Src)
	}
	return nil
}

// opsOf records which of the wide / rare opcodes occur (coverage of the table).
func opsOf(f *Func, seen map[string]bool) {
	r := &Report{}
	code, err := decodeB64(f.Code)
	if err != nil {
		return
	}
	ins, _ := decode(code, r)
	for _, in := range ins {
		if in.info.opBytes == 2 || in.info.operand == oClosure || in.info.operand == oLocalBox || in.info.dyn >= dSelect || in.info.operand == oUpvalue {
			seen[opName(in.op)] = true
		}
	}
}

// tokenEdit deletes / duplicates / swaps whole tokens or replaces one by a fragment.
func tokenEdit(t *rapid.T, s string) string {
	toks := lexer.Lex(s)
	if len(toks) < 3 {
		return s
	}
	i := rapid.IntRange(0, len(toks)-2).Draw(t, "ti")
	a, b := toks[i].Span(), toks[i+1].Span()
	if a == nil || b == nil || a.StartPos == nil || a.EndPos == nil || b.StartPos == nil || b.EndPos == nil {
		return s
	}
	as, ae, bs, be := a.StartPos.ByteOffset, a.EndPos.ByteOffset+1, b.StartPos.ByteOffset, b.EndPos.ByteOffset+1
	if !(0 <= as && as <= ae && ae <= bs && bs <= be && be <= len(s)) {
		return s
	}
	switch rapid.IntRange(0, 3).Draw(t, "te") {
	case 0:
		return s[:as] + s[ae:]
	case 1:
		return s[:ae] + " " + s[as:ae] + s[ae:]
	case 2:
		return s[:as] + s[bs:be] + s[ae:bs] + s[as:ae] + s[be:]
	default:
		return s[:as] + rapid.SampledFrom(srcgen.Fragments).Draw(t, "frag") + s[ae:]
	}
}

var corpusProgs []string

func loadCorpus() []string {
	if corpusProgs == nil {
		corpusProgs = append(corpusProgs, corpus.ByPkg("vm")...)
		corpusProgs = append(corpusProgs, corpus.ByPkg("compiler")...)
		corpusProgs = append(corpusProgs, corpus.ByPkg("types/checker")...)
		if len(corpusProgs) == 0 {
			corpusProgs = []string{"1"}
		}
	}
	return corpusProgs
}

var reFlow = regexp.MustCompile(`\b(if|unless|while|until|loop|for|switch|do|catch|finally|select|yield|await|defer|break|continue)\b|&&|\|\||\?\?|\?\.`)
var reCall = regexp.MustCompile(`\w\(|\.\w|println|puts`)

var corpusFlow []string

// flowCorpus is the part of the corpus whose text has both a control-flow construct and something call-like.
func flowCorpus() []string {
	if corpusFlow == nil {
		for _, s := range loadCorpus() {
			if reFlow.MatchString(s) && reCall.MatchString(s) {
				corpusFlow = append(corpusFlow, s)
			}
		}
		if len(corpusFlow) == 0 {
			corpusFlow = loadCorpus()
		}
	}
	return corpusFlow
}

func corpusSrc(t *rapid.T) string {
	progs := loadCorpus()
	if rapid.IntRange(0, 3).Draw(t, "flow_subset") > 0 {
		progs = flowCorpus()
	}
	s := progs[rapid.IntRange(0, len(progs)-1).Draw(t, "ci")]
	switch rapid.IntRange(0, 6).Draw(t, "how") {
	case 0, 1, 2:
		return s
	case 3:
		return tokenEdit(t, s)
	case 4:
		return tokenEdit(t, tokenEdit(t, s))
	case 5:
		// inside a method: locals are PREP_LOCALS slots of a method body, returns become RETURN / tail calls
		return "def c29_wrapped\n" + s + "\nend\nc29_wrapped()"
	default:
		o := progs[rapid.IntRange(0, len(progs)-1).Draw(t, "cj")]
		return s + "\n" + o
	}
}

func TestCorpusFunctions(t *testing.T) {
	pbt.Rule("corpus_functions", "programs from the repo's own vm / compiler / checker tests (3 of 4 draws from the subset whose text has a control-flow construct and something call-like), unchanged, with one or two token-level edits, wrapped in a method body, or two concatenated; compiled in a worker process; every BytecodeFunction reachable from the result (value pools, call-site method pointers) is checked by the static oracle: disassembles, boundaries agree with the harness width table, jump / catch / line-table offsets on boundaries, pool / local / upvalue / call-site operands in range and kind-correct, abstract operand-stack depth never negative and equal at joins (functions with catch entries: joins exempt, counted); non-trivial = the checker accepted the program and at least one of its functions has a jump and a call; distinct by source")
	worker = sb.New("debug")
	defer worker.Close()
	pbt.Run(t, pbt.Prop[Case]{Name: "corpus_functions", Quick: 2400, Thorough: 30000,
		Gen: func(t *rapid.T) Case { return Case{corpusSrc(t)} }, Oracle: oracle, Known: known})
}

func TestMiniFunctions(t *testing.T) {
	pbt.Rule("mini_functions", "MiniElk programs with every generator feature on (loops, labelled break/continue through finally blocks, throw/catch/finally, defer, methods, closures, maker methods, deep calls, lists, short-circuit operators), compiled in a worker process and checked by the same static oracle; non-trivial = some function has a jump and a call; distinct by source")
	worker = sb.New("debug")
	defer worker.Close()
	prof := mini.Control
	prof.Makers, prof.Deep, prof.ClosureBias = true, true, 2
	pbt.Run(t, pbt.Prop[Case]{Name: "mini_functions", Quick: 1600, Thorough: 16000,
		Gen: func(t *rapid.T) Case { return Case{mini.Gen(t, prof).Source()} }, Oracle: oracle, Known: known})
}

func TestWideFunctions(t *testing.T) {
	pbt.Rule("wide_functions", "synthesised programs that push every index past the 8 bit operand forms: up to ~300 locals (PREP_LOCALS16, GET/SET_LOCAL16, BOX_LOCAL16), up to ~300 pool constants and call sites (LOAD_VALUE16, CALL_METHOD*16, GET_CONST16), closures capturing up to ~300 variables and assigning them (GET/SET_UPVALUE8/16, long closure operands, CLOSE_UPVALUES_TO16), collection / string literals with more than 255 dynamic elements, constructors with more than 255 arguments, recursive and forward calls (call sites patched after the callee is compiled) behind up to ~300 pool entries, break / continue through finally blocks below 3 byte PREP_LOCALS16; sizes are drawn around 0..5 and the 8 bit boundary (253..258, 300); same static oracle; non-trivial = some function has a jump and a call; distinct by source")
	worker = sb.New("debug")
	defer worker.Close()
	pbt.Run(t, pbt.Prop[Case]{Name: "wide_functions", Quick: 240, Thorough: 2000,
		Gen: func(t *rapid.T) Case { return Case{wideSrc(t)} }, Oracle: oracle, Known: known})
}

// size draws a count that is small or sits at the 8 bit boundary.
func size(t *rapid.T, label string) int {
	switch vgen.Pick(t, 6, label+"_k") {
	case 0:
		return 0
	case 1, 2:
		return rapid.IntRange(1, 6).Draw(t, label)
	case 3:
		return rapid.IntRange(252, 259).Draw(t, label)
	case 4:
		return rapid.IntRange(7, 251).Draw(t, label)
	default:
		return rapid.IntRange(260, 310).Draw(t, label)
	}
}

func wideSrc(t *rapid.T) string {
	var b strings.Builder
	nLocals := size(t, "locals")
	nConsts := size(t, "consts")
	nCapt := size(t, "captured")
	if nCapt > nLocals || rapid.Bool().Draw(t, "capture_all") {
		nCapt = nLocals
	}
	scoped := rapid.Bool().Draw(t, "scoped_capture")
	nElems := size(t, "elems")
	nArgs := 0
	if vgen.Pick(t, 4, "args_on") == 0 {
		nArgs = size(t, "args")
	}
	inMethod := rapid.Bool().Draw(t, "in_method")
	assignInClosure := rapid.Bool().Draw(t, "assign_in_closure")
	box := rapid.Bool().Draw(t, "box")
	finallyJump := rapid.Bool().Draw(t, "finally_jump")
	lambda := rapid.Bool().Draw(t, "lambda")
	if nArgs > 0 {
		fmt.Fprintf(&b, "class C29Wide\n  init(")
		for i := 0; i < nArgs; i++ {
			if i > 0 {
				b.WriteString(", ")
			}
			fmt.Fprintf(&b, "p%d: Int", i)
		}
		b.WriteString("); end\nend\n")
	}
	b.WriteString("def c29_id(x: Int): Int\n  x\nend\n")
	if inMethod {
		b.WriteString("def c29_wide(seed: Int): Int\n")
	} else {
		b.WriteString("seed := 3\n")
	}
	// constants first so that later pool entries (call sites, nested functions) get wide indices
	for i := 0; i < nConsts; i++ {
		switch i % 3 {
		case 0:
			fmt.Fprintf(&b, "println \"k%d\"\n", i)
		case 1:
			fmt.Fprintf(&b, "println %d.5\n", i)
		default:
			fmt.Fprintf(&b, "println :sym%d\n", i)
		}
	}
	for i := 0; i < nLocals; i++ {
		if i == 0 {
			b.WriteString("var v0 = seed + 1\n")
		} else {
			fmt.Fprintf(&b, "var v%d = v%d + %d\n", i, i-1, i)
		}
	}
	if nLocals > 0 {
		last := nLocals - 1
		if box {
			fmt.Fprintf(&b, "bx := &v%d\nbx2 := bx\n", last)
		}
		if nCapt > 0 {
			arrow := "->"
			if lambda {
				arrow = "~>"
			}
			fmt.Fprintf(&b, "cl := |d: Int|: Int %s do\n", arrow)
			b.WriteString("  var acc = d\n")
			step := 1
			if nCapt > 40 {
				step = 1 // every captured variable is used: upvalue indices reach nCapt-1
			}
			for i := nLocals - nCapt; i < nLocals; i += step {
				fmt.Fprintf(&b, "  acc = acc + v%d\n", i)
			}
			if assignInClosure && !lambda {
				for i := nLocals - nCapt; i < nLocals; i += 1 + nCapt/7 {
					fmt.Fprintf(&b, "  v%d = acc\n", i)
				}
				fmt.Fprintf(&b, "  v%d = acc + 1\n", last)
			}
			b.WriteString("  acc\nend\nprintln cl.(1)\n")
		}
		if nElems > 0 {
			b.WriteString("big := [")
			for i := 0; i < nElems; i++ {
				if i > 0 {
					b.WriteString(", ")
				}
				fmt.Fprintf(&b, "v%d", i%nLocals)
			}
			b.WriteString("]\nprintln big.length\n")
			b.WriteString("str := \"")
			for i := 0; i < nElems; i++ {
				fmt.Fprintf(&b, "a${v%d}", i%nLocals)
			}
			b.WriteString("\"\nprintln str.length\n")
			b.WriteString("mp := {")
			for i := 0; i < nElems; i++ {
				if i > 0 {
					b.WriteString(", ")
				}
				fmt.Fprintf(&b, "%d => v%d", i, i%nLocals)
			}
			b.WriteString("}\nprintln mp.length\n")
		}
		if scoped {
			// a captured variable in an inner scope above all the locals: leaving the scope closes upvalues down to its slot
			b.WriteString("if seed > 0\n  var w = seed\n  cw := ||: Int -> w\n  println cw.()\nend\n")
		}
		if finallyJump {
			fmt.Fprintf(&b, "var i = 0\nwhile i < 4\n  i = i + 1\n  do\n    if i == 2\n      continue\n    end\n    if i == 3\n      break\n    end\n    v%d = c29_id(v%d)\n  catch e\n    println \"caught\"\n  finally\n    v0 = v0 + 1\n  end\nend\n", last, last)
		}
		fmt.Fprintf(&b, "if v%d > 5\n  println c29_id(v%d)\nelse\n  println c29_id(v0)\nend\n", last, last)
	}
	if nArgs > 0 {
		b.WriteString("C29Wide(")
		for i := 0; i < nArgs; i++ {
			if i > 0 {
				b.WriteString(", ")
			}
			fmt.Fprintf(&b, "%d", i)
		}
		b.WriteString(")\n")
	}
	if inMethod {
		// calls whose callee has no compiled body yet when the call site is emitted (the method itself, a method
		// defined further down): the call-site is patched in place afterwards, with whatever index width it has
		switch vgen.Pick(t, 4, "deferred_call") {
		case 0:
			b.WriteString("if seed > 100\n  println c29_wide(seed - 1)\nend\n")
		case 1:
			b.WriteString("return c29_wide(seed - 1) if seed > 100\n")
		case 2:
			b.WriteString("println c29_later(seed)\nreturn c29_later(seed + 1) if seed > 100\n")
		}
		b.WriteString("c29_id(seed)\nend\ndef c29_later(x: Int): Int\n  x + 1\nend\nprintln c29_wide(2)\n")
	}
	return b.String()
}

// ---- development helpers (not part of the check) ----

// TestDevSurvey runs the oracle over the whole corpus once and prints a histogram of violations.
func TestDevSurvey(t *testing.T) {
	if os.Getenv("C29_DEV") == "" {
		t.Skip("development helper")
	}
	worker = sb.New("debug")
	defer worker.Close()
	progs := loadCorpus()
	hist := map[string]int{}
	first := map[string]string{}
	nf, nacc := 0, 0
	for _, s := range progs {
		funcs, class, _ := compile(s, false)
		if class != sb.OK {
			hist["compile:"+class]++
			continue
		}
		nacc++
		for i := range funcs {
			nf++
			r := Verify(&funcs[i], Options{KnownSelectElse: os.Getenv("C29_NOKNOWN") == ""})
			for _, l := range r.Labels {
				hist["label:"+l]++
			}
			for _, v := range r.Violations {
				sig := sigOf(v)
				hist["VIOLATION "+sig]++
				if _, ok := first[sig]; !ok {
					first[sig] = fmt.Sprintf("%s\n--- function %s of:\n%s", v, path(funcs, i), s)
				}
			}
		}
	}
	fmt.Printf("programs %d accepted %d functions %d\n", len(progs), nacc, nf)
	for _, k := range sortedKeys(hist) {
		fmt.Printf("%6d %s\n", hist[k], k)
	}
	for k, v := range first {
		fmt.Printf("\n===== %s =====\n%s\n", k, v)
	}
}

func sigOf(v string) string {
	// strip numbers
	var b strings.Builder
	for _, r := range v {
		if r >= '0' && r <= '9' {
			continue
		}
		b.WriteRune(r)
	}
	s := b.String()
	if len(s) > 110 {
		s = s[:110]
	}
	return s
}

// TestDevOne prints the verdict and the disassembly for the program in $C29_SRC (a file).
func TestDevOne(t *testing.T) {
	p := os.Getenv("C29_SRC")
	if p == "" {
		t.Skip("development helper")
	}
	worker = sb.New("debug")
	defer worker.Close()
	src, _ := os.ReadFile(p)
	funcs, class, detail := compile(string(src), true)
	fmt.Println("class:", class, detail)
	if class == sb.Rejected {
		res := worker.Do(sb.Req{Mode: "check", Source: string(src)}, 60*time.Second)
		for _, r := range res.Resp.Runs {
			for _, d := range r.Diags {
				fmt.Printf("  %d:%d %s\n", d.Line, d.Col, d.Msg)
			}
		}
	}
	for i := range funcs {
		r := Verify(&funcs[i], Options{KnownSelectElse: os.Getenv("C29_NOKNOWN") == ""})
		fmt.Printf("--- %s params=%d upvalues=%d values=%v catches=%v\nviolations=%v labels=%v\n", path(funcs, i), funcs[i].Params, funcs[i].Upvalues, funcs[i].Values, funcs[i].Catches, r.Violations, r.Labels)
		if i == 0 || os.Getenv("C29_ALL") != "" {
			fmt.Println(funcs[i].Disasm)
		}
	}
}

func TestDevKnownRate(t *testing.T) {
	if os.Getenv("C29_RATE") == "" {
		t.Skip("development helper")
	}
	prof := mini.Control
	prof.Makers, prof.Deep, prof.ClosureBias = true, true, 2
	n, m := 0, 0
	rapid.Check(t, func(t *rapid.T) {
		n++
		if condReturnNotLast(mini.Gen(t, prof).Source()) {
			m++
		}
	})
	fmt.Printf("mini programs %d matched by condReturnNotLast %d\n", n, m)
}

func TestDevSample(t *testing.T) {
	if os.Getenv("C29_SAMPLE") == "" {
		t.Skip("development helper")
	}
	rapid.Check(t, func(t *rapid.T) {
		fmt.Println(wideSrc(t))
		fmt.Println("=========")
	})
}

// declSrc: bodies (top level, module, class) whose statements are a shuffle of value-producing
// expressions and of every declaration-like statement that emits no code of its own; what matters is
// which kind of statement ends a body (the compiler must know that nothing was pushed for it).
func declSrc(t *rapid.T) string {
	n := 0
	fresh := func(p string) string { n++; return fmt.Sprintf("%s%d", p, n) }
	var body func(kind string, depth int, ind string) []string
	body = func(kind string, depth int, ind string) []string {
		var out []string
		var defs []string
		for i := rapid.IntRange(1, 6).Draw(t, "nstmts"); i > 0; i-- {
			switch vgen.Pick(t, 16, "decl") {
			case 0, 1:
				out = append(out, ind+fmt.Sprintf("println(%d)", rapid.IntRange(0, 9).Draw(t, "v")))
			case 2:
				out = append(out, ind+fmt.Sprintf("%d + %d", rapid.IntRange(0, 9).Draw(t, "a"), rapid.IntRange(0, 9).Draw(t, "b")))
			case 3:
				out = append(out, ind+"typedef "+fresh("T")+" = Int?")
			case 4:
				out = append(out, ind+"typedef "+fresh("G")+"[V] = V?")
			case 5:
				out = append(out, ind+"typedef "+fresh("H")+"[K, V < Int] = K | V")
			case 6:
				out = append(out, ind+"const "+fresh("K")+" = "+fmt.Sprint(rapid.IntRange(0, 99).Draw(t, "k")))
			case 7:
				d := fresh("m")
				defs = append(defs, d)
				out = append(out, ind+"def "+d+": Int then 1")
			case 8:
				if len(defs) > 0 {
					out = append(out, ind+"alias "+fresh("al")+" "+defs[len(defs)-1])
				}
			case 9:
				out = append(out, ind+"interface "+fresh("I")+"; end")
			case 10:
				out = append(out, ind+"mixin "+fresh("X")+"; end")
			case 11:
				if depth < 2 {
					nm := fresh("C")
					out = append(out, ind+"class "+nm)
					out = append(out, body("class", depth+1, ind+"  ")...)
					out = append(out, ind+"end")
				}
			case 12:
				if depth < 2 {
					nm := fresh("M")
					out = append(out, ind+"module "+nm)
					out = append(out, body("module", depth+1, ind+"  ")...)
					out = append(out, ind+"end")
				}
			case 13:
				if kind == "class" {
					out = append(out, ind+"attr "+fresh("at")+": Int?")
				}
			case 14:
				out = append(out, ind+"using Std::Sync::*")
			default:
				out = append(out, ind+"var "+fresh("v")+": Int = 3")
			}
		}
		return out
	}
	return strings.Join(body("top", 0, ""), "\n") + "\n"
}

func TestDeclFunctions(t *testing.T) {
	pbt.Rule("decl_functions", "generated bodies (top level, module and class bodies nested up to depth 2) whose statements are a shuffle of value-producing expressions and of declaration-like statements that emit no code (typedef, generic typedef, const, def, alias, interface, mixin, class, module, attr, using, var): which statement kind ends a body is what is varied; compiled in a worker process and checked by the same static oracle (operand-stack depth at the RETURN / POP of every body); programs the checker rejects are dropped; non-trivial = accepted and a declaration-like statement ends some body; distinct by source")
	worker = sb.New("debug")
	defer worker.Close()
	reDeclLast := regexp.MustCompile(`(?m)^\s*(typedef|const|def|alias|interface|mixin|attr|using)\b[^\n]*\n(\s*end\b|\z)`)
	pbt.Run(t, pbt.Prop[Case]{Name: "decl_functions", Quick: 1200, Thorough: 20000,
		Gen: func(t *rapid.T) Case { return Case{declSrc(t)} },
		Oracle: func(c Case, ctx *pbt.Ctx) error {
			err := oracle(c, ctx)
			if reDeclLast.MatchString(c.Src) {
				ctx.Label("declaration_ends_a_body")
				if err == nil && accepted(c.Src) {
					ctx.NonTrivial(c.Src)
				}
			}
			return err
		}, Known: known})
}

// accepted re-asks the worker whether the checker accepts the source (cheap: the program is tiny).
func accepted(src string) bool {
	res := worker.Do(sb.Req{Mode: "check", Source: src}, 30*time.Second)
	c, _ := sb.Classify(res)
	return c == sb.OK
}
