package c29

import (
	"encoding/base64"
	"encoding/binary"
	"fmt"
	"sort"
	"strconv"
	"strings"

	bc "github.com/elk-language/elk/bytecode"
)

// Func is the description of one compiled function returned by the worker
// (cmd/elkworker/c29.go).
type Func struct {
	Name     string   `json:"name"`
	Parent   int      `json:"parent"`
	Via      string   `json:"via"`
	Code     string   `json:"code"`
	Params   int      `json:"params"`
	OptPar   int      `json:"optpar"`
	Upvalues int      `json:"upvalues"`
	Values   []string `json:"values"`
	Catches  [][4]int `json:"catches"`
	Lines    [][2]int `json:"lines"`
	DisErr   string   `json:"dis_err,omitempty"`
	DisPanic string   `json:"dis_panic,omitempty"`
	DisOffs  []int    `json:"dis_offs"`
	DisEnd   int      `json:"dis_end"`
	Disasm   string   `json:"disasm,omitempty"`
}

type instr struct {
	off  int
	op   bc.OpCode
	info opInfo
	arg  int // first operand (or implied index), -1 if none
	arg2 int // second operand (flag / count), -1 if none
	end  int
}

// Report is the verdict for one function.
type Report struct {
	Violations   []string
	Labels       []string
	Inconclusive bool // an opcode outside the harness table was seen: widths are not guessed
	Jumps, Calls int
	Instrs       int
	DepthChecked bool
	// edges not followed because of the recorded finding "select-else-leaks-operands"
	SelectElseEdges int
}

// Options switch the exclusions of recorded known findings on.
type Options struct {
	KnownSelectElse bool
}

func (r *Report) bad(f string, a ...any) { r.Violations = append(r.Violations, fmt.Sprintf(f, a...)) }
func (r *Report) label(l string)         { r.Labels = append(r.Labels, l) }

func opName(o bc.OpCode) string {
	if defined(o) {
		return o.String()
	}
	return fmt.Sprintf("0x%02X", byte(o))
}

// decode splits the code into instructions with the harness's own width table.
func decode(code []byte, r *Report) (ins []instr, ok bool) {
	off := 0
	for off < len(code) {
		o := bc.OpCode(code[off])
		info, known := table[o]
		if !known {
			if defined(o) {
				r.Inconclusive = true
				r.label("not_in_table:" + o.String())
				return ins, false
			}
			r.bad("offset %d: byte 0x%02X is not an opcode", off, code[off])
			return ins, false
		}
		in := instr{off: off, op: o, info: info, arg: -1, arg2: -1}
		w := info.width
		if info.operand == oClosure {
			// upvalue list: flag byte (0xff ends the list), index of 1 byte or of 2 bytes when flag bit 0 is set
			p := off + 1
			for {
				if p >= len(code) {
					r.bad("offset %d: %s upvalue list runs past the end of the code", off, opName(o))
					return ins, false
				}
				fl := code[p]
				if fl == 0xff {
					p++
					break
				}
				if fl&^3 != 0 {
					r.bad("offset %d: %s upvalue flag byte 0x%02X at %d has unknown bits", off, opName(o), fl, p)
				}
				if fl&1 != 0 {
					p += 3
				} else {
					p += 2
				}
			}
			w = p - off
		}
		if off+w > len(code) {
			r.bad("offset %d: %s needs %d bytes, only %d left", off, opName(o), w, len(code)-off)
			return ins, false
		}
		switch info.opBytes {
		case 1:
			in.arg = int(code[off+1])
		case 2:
			in.arg = int(binary.BigEndian.Uint16(code[off+1:]))
		}
		if info.index >= 0 {
			in.arg = info.index
		}
		switch info.operand {
		case oLocalBox:
			in.arg2 = int(code[off+1+info.opBytes])
		case oRegex:
			// flag first, then the count
			in.arg2 = int(code[off+1])
			if info.opBytes == 1 {
				in.arg = int(code[off+2])
			} else {
				in.arg = int(binary.BigEndian.Uint16(code[off+2:]))
			}
		}
		in.end = off + w
		ins = append(ins, in)
		off += w
	}
	return ins, true
}

func tagArgc(tag string) (int, bool) {
	p := strings.Split(tag, ":")
	if len(p) < 2 {
		return 0, false
	}
	n, err := strconv.Atoi(p[1])
	return n, err == nil
}

// Verify applies the static oracle to one function.  strictHandlers: also
// interpret catch-only handler code (see notes).
func Verify(f *Func, opt Options) *Report {
	r := &Report{}
	code, err := base64.StdEncoding.DecodeString(f.Code)
	if err != nil {
		r.bad("worker sent undecodable code: %v", err)
		return r
	}
	// ---- rule 1: disassembler ----
	if f.DisPanic != "" {
		r.bad("the disassembler panicked: %s", firstLines(f.DisPanic, 12))
	}
	if f.DisErr != "" {
		r.bad("the disassembler reported an error: %s", f.DisErr)
	}
	if len(code) == 0 {
		r.label("empty_function")
		if len(f.Catches) > 0 {
			r.bad("empty function with %d catch entries", len(f.Catches))
		}
		return r
	}
	ins, ok := decode(code, r)
	if !ok {
		return r
	}
	r.Instrs = len(ins)
	starts := make(map[int]int, len(ins)) // offset -> instruction index
	for i, in := range ins {
		starts[in.off] = i
	}
	if f.DisPanic == "" && f.DisErr == "" {
		mine := make([]int, len(ins))
		for i, in := range ins {
			mine[i] = in.off
		}
		if d := firstDiff(mine, f.DisOffs); d >= 0 {
			var a, b string
			if d < len(mine) {
				a = fmt.Sprintf("%d (%s)", mine[d], opName(ins[d].op))
			} else {
				a = "end"
			}
			if d < len(f.DisOffs) {
				b = strconv.Itoa(f.DisOffs[d])
			} else {
				b = "end"
			}
			prev := ""
			if d > 0 {
				prev = fmt.Sprintf(" after %s at %d", opName(ins[d-1].op), ins[d-1].off)
			}
			r.bad("instruction boundaries disagree at instruction #%d%s: width table says %s, disassembler says %s", d, prev, a, b)
		} else if f.DisEnd != len(code) {
			r.bad("the disassembler ends at %d, the code has %d bytes", f.DisEnd, len(code))
		}
	}

	// ---- locals ----
	locals := 1 + f.Params // self + parameters
	prepAt := -1
	for i, in := range ins {
		if in.info.dyn == dPrep {
			if i != 0 {
				r.bad("offset %d: %s is not the first instruction", in.off, opName(in.op))
			}
			if prepAt >= 0 {
				r.bad("offset %d: second %s", in.off, opName(in.op))
			}
			prepAt = i
			locals += in.arg
		}
	}

	// ---- rule 2: targets ----
	target := func(in instr) int {
		switch in.info.operand {
		case oJump:
			return in.end + in.arg
		case oLoop:
			return in.end - in.arg
		}
		return -1
	}
	onBoundary := func(t int) bool { _, ok := starts[t]; return ok }
	for _, in := range ins {
		if in.info.operand == oJump || in.info.operand == oLoop {
			r.Jumps++
			t := target(in)
			if t < 0 || t >= len(code) {
				r.bad("offset %d: %s %d targets %d, outside the function (%d bytes)", in.off, opName(in.op), in.arg, t, len(code))
			} else if !onBoundary(t) {
				r.bad("offset %d: %s %d targets %d, which is inside an instruction", in.off, opName(in.op), in.arg, t)
			}
		}
	}
	// jump offsets loaded for JUMP_TO_FINALLY by break / continue:  LOAD_VALUE <offset>; <load count>; JUMP_TO_FINALLY
	finallyTarget := map[int]int{} // instruction index of JUMP_TO_FINALLY -> target offset
	for i, in := range ins {
		if in.op != bc.JUMP_TO_FINALLY {
			continue
		}
		if i < 2 || ins[i-2].info.operand != oValue || !pushesInt(ins[i-1], f) {
			r.label("jump_to_finally:operands_from_handler")
			continue
		}
		idx := ins[i-2].arg
		if idx < 0 || idx >= len(f.Values) {
			continue // reported by rule 3
		}
		tag := f.Values[idx]
		if !strings.HasPrefix(tag, "int:") {
			r.bad("offset %d: JUMP_TO_FINALLY takes its jump offset from pool value %d which is %s, not an integer", in.off, idx, tag)
			continue
		}
		t, _ := tagArgc(tag)
		r.label("jump_to_finally:constant_target")
		r.Jumps++
		if t < 0 || t >= len(code) {
			r.bad("offset %d: JUMP_TO_FINALLY offset constant %d (pool %d) is outside the function (%d bytes)", in.off, t, idx, len(code))
		} else if !onBoundary(t) {
			r.bad("offset %d: JUMP_TO_FINALLY offset constant %d (pool %d) is inside an instruction", in.off, t, idx)
		} else {
			finallyTarget[i] = t
		}
	}
	realCatch := 0
	for k, c := range f.Catches {
		from, to, jump := c[0], c[1], c[2]
		if jump < 0 || jump >= len(code) {
			r.bad("catch entry %d: jump address %d is outside the function (%d bytes)", k, jump, len(code))
		} else if !onBoundary(jump) {
			r.bad("catch entry %d: jump address %d is inside an instruction", k, jump)
		}
		if from >= to {
			// empty range: the marker entry of generators (registerCatch(-1, -1, body start)) handles nothing
			r.label("catch:empty_range_marker")
			continue
		}
		realCatch++
		if from < 0 || from >= len(code) || !onBoundary(from) {
			r.bad("catch entry %d: from %d is not an instruction start inside the function", k, from)
		}
		if to < 0 || to >= len(code) || !onBoundary(to) {
			r.bad("catch entry %d: to %d is not an instruction start inside the function", k, to)
		}
		if c[3] == 1 && jump+4 < len(code) {
			// the break/continue entry of a finally handler is JumpAddress+4
			if !onBoundary(jump + 4) {
				r.bad("catch entry %d (finally): break/continue entry %d (jump address + 4) is inside an instruction", k, jump+4)
			}
		}
	}
	sum := 0
	for k, l := range f.Lines {
		if l[1] <= 0 {
			r.bad("line table entry %d (line %d) covers %d bytes", k, l[0], l[1])
		}
		sum += l[1]
		if sum < len(code) && !onBoundary(sum) {
			r.bad("line table entry %d (line %d) ends at %d, inside an instruction", k, l[0], sum)
		}
	}
	if sum != len(code) {
		r.bad("the line table covers %d bytes, the code has %d", sum, len(code))
	}

	// ---- rule 3: indices ----
	for _, in := range ins {
		n := opName(in.op)
		poolTag := func() (string, bool) {
			if in.arg < 0 || in.arg >= len(f.Values) {
				r.bad("offset %d: %s value index %d out of range (pool has %d)", in.off, n, in.arg, len(f.Values))
				return "", false
			}
			return f.Values[in.arg], true
		}
		switch in.info.operand {
		case oValue:
			poolTag()
		case oSym:
			if t, ok := poolTag(); ok && t != "sym" {
				r.bad("offset %d: %s needs a symbol at pool index %d, found %s", in.off, n, in.arg, t)
			}
		case oCallSite:
			r.Calls++
			if t, ok := poolTag(); ok && !strings.HasPrefix(t, "callsite:") {
				r.bad("offset %d: %s needs a call-site info at pool index %d, found %s", in.off, n, in.arg, t)
			}
		case oBCSite:
			r.Calls++
			if t, ok := poolTag(); ok && !strings.HasPrefix(t, "bccallsite:") {
				r.bad("offset %d: %s needs a bytecode call-site info at pool index %d, found %s", in.off, n, in.arg, t)
			}
		case oNTSite:
			r.Calls++
			if t, ok := poolTag(); ok && !strings.HasPrefix(t, "ntcallsite:") {
				r.bad("offset %d: %s needs a native call-site info at pool index %d, found %s", in.off, n, in.arg, t)
			}
		case oLocal, oLocalBox:
			if in.arg >= locals {
				r.bad("offset %d: %s local index %d, the function declares %d slots (self + %d parameters + %d prepared)", in.off, n, in.arg, locals, f.Params, locals-1-f.Params)
			}
			if in.info.operand == oLocalBox && in.arg2 > 1 {
				r.bad("offset %d: %s immutability flag %d", in.off, n, in.arg2)
			}
		case oCloseTo:
			if in.arg > locals {
				r.bad("offset %d: %s slot %d, the function declares %d slots", in.off, n, in.arg, locals)
			}
		case oUpvalue:
			if in.arg >= f.Upvalues {
				r.bad("offset %d: %s upvalue index %d, the function has %d upvalues", in.off, n, in.arg, f.Upvalues)
			}
		case oClosure:
			// the function being wrapped is loaded just before; its upvalue count must match the list
			cnt := 0
			for p := in.off + 1; code[p] != 0xff; {
				fl := code[p]
				var idx int
				if fl&1 != 0 {
					idx = int(binary.BigEndian.Uint16(code[p+1:]))
					p += 3
				} else {
					idx = int(code[p+1])
					p += 2
				}
				if fl&2 != 0 {
					if idx >= locals {
						r.bad("offset %d: %s captures local %d, the function declares %d slots", in.off, n, idx, locals)
					}
				} else if idx >= f.Upvalues {
					r.bad("offset %d: %s captures upvalue %d, the function has %d upvalues", in.off, n, idx, f.Upvalues)
				}
				cnt++
			}
			in.arg2 = cnt
		case oImm:
			if in.op == bc.NEW_RANGE && in.arg > 7 {
				r.bad("offset %d: NEW_RANGE flag %d", in.off, in.arg)
			}
			if in.op == bc.DEF_NAMESPACE && in.arg > 3 {
				r.bad("offset %d: DEF_NAMESPACE type %d", in.off, in.arg)
			}
		}
	}
	// generators: `next` after an error resumes at len-4, which must be the STOP_ITERATION before the final LOOP
	for _, in := range ins {
		if in.info.dyn == dGen {
			r.label("generator")
			if len(code) < 4 || !onBoundary(len(code)-4) || bc.OpCode(code[len(code)-4]) != bc.STOP_ITERATION {
				r.bad("generator function does not end with STOP_ITERATION; LOOP (the VM resumes an exhausted generator at len-4)")
			}
			break
		}
	}
	if len(r.Violations) > 0 {
		return r // the flow analysis needs sound boundaries and indices
	}

	// ---- select dispatch chains ----
	// SELECT leaves (result, chosen case index); the compiler then emits one
	//   DUP; <push i>; JUMP_UNLESS_IEQ next
	// triple per non-default case.  The index is always one of the cases, so when the
	// select has no default case the taken edge of the triple of the last case is
	// infeasible (it would keep both values): it is not followed, by construct.
	// With a default case that edge is feasible and does keep both values: recorded
	// finding "select-else-leaks-operands" (pinned by the repository's own compiler test).
	skipTaken := map[int]string{}
	for i, in := range ins {
		if in.info.dyn != dSelect || i == 0 || ins[i-1].info.operand != oValue {
			continue
		}
		tag := f.Values[ins[i-1].arg]
		p := strings.Split(tag, ":")
		if len(p) != 4 || p[0] != "select" {
			continue
		}
		ncases, _ := strconv.Atoi(p[2])
		hasDefault := p[3] == "1"
		n := ncases
		if hasDefault {
			n--
		}
		at := i + 1
		for k := 0; k < n; k++ {
			if at+2 >= len(ins) || ins[at].op != bc.DUP || ins[at+2].op != bc.JUMP_UNLESS_IEQ {
				r.label("select:dispatch_chain_not_recognised")
				break
			}
			if v, ok := intPushed(ins[at+1], f); !ok || v != k {
				r.label("select:dispatch_chain_not_recognised")
				break
			}
			j := at + 2
			if k == n-1 {
				if !hasDefault {
					skipTaken[j] = "select:infeasible_last_case_edge"
				} else if opt.KnownSelectElse {
					skipTaken[j] = "known:select-else-leaks-operands"
				}
				break
			}
			nx, ok := starts[target(ins[j])]
			if !ok {
				break
			}
			at = nx
		}
	}

	// ---- rule 4: abstract stack depth ----
	r.DepthChecked = true
	const unset = -1 << 30
	depth := make([]int, len(ins))
	for i := range depth {
		depth[i] = unset
	}
	type item struct {
		i, d int
		h    bool // reached only through a seeded catch handler
	}
	var work []item
	exemptJoins := realCatch > 0
	curH := false
	push := func(from instr, to, d int, why string) {
		j, ok := starts[to]
		if !ok {
			if to == len(code) {
				r.bad("offset %d: %s falls off the end of the function", from.off, opName(from.op))
			}
			return
		}
		if depth[j] == unset {
			depth[j] = d
			work = append(work, item{j, d, curH})
			return
		}
		if depth[j] != d {
			if exemptJoins {
				r.label("join_mismatch_exempt(has_catch)")
				return
			}
			r.bad("stack depth differs where paths join at %d (%s): %d operand(s) on one path, %d coming from %s at %d (%s)",
				to, opName(ins[j].op), depth[j]-locals, d-locals, opName(from.op), from.off, why)
		}
	}
	depth[0] = 1 + f.Params
	work = append(work, item{0, depth[0], false})
	// catch-only handlers (no finally clause on the same range) are entered with the stack trace and the
	// error pushed on the operand stack of the thrower, which is at least as deep as at the start of the
	// protected range: seed them with depth(From)+2 once the main flow has been interpreted.  Handlers of
	// ranges that also have a finally entry are entered at several addresses with different layouts and are
	// not interpreted (exempt by construct).
	seedHandlers := func(final bool) (added bool) {
		for _, c := range f.Catches {
			if c[0] >= c[1] || c[3] == 1 {
				continue
			}
			hasFinally := false
			for _, o := range f.Catches {
				if o[3] == 1 && o[0] == c[0] && o[1] == c[1] {
					hasFinally = true
				}
			}
			if hasFinally {
				if final {
					r.label("handler:not_interpreted(range_has_finally)")
				}
				continue
			}
			fi, ok := starts[c[0]]
			hi, ok2 := starts[c[2]]
			if !ok || !ok2 || depth[fi] == unset {
				if final {
					r.label("handler:not_interpreted(range_start_unreached)")
				}
				continue
			}
			if depth[hi] == unset && !final {
				depth[hi] = depth[fi] + 2
				work = append(work, item{hi, depth[hi], true})
				r.label("handler:interpreted(catch_only)")
				added = true
			}
		}
		return added
	}
	for {
		if len(work) == 0 {
			if !seedHandlers(false) {
				seedHandlers(true)
				break
			}
			continue
		}
		it := work[len(work)-1]
		work = work[:len(work)-1]
		in := ins[it.i]
		d := it.d
		curH = it.h
		base := locals
		if it.i == 0 && prepAt == 0 {
			base = 1 + f.Params
		}
		opnd := d - base // operand values available
		need, delta, tdelta := in.info.need, in.info.delta, in.info.tdelta
		switch in.info.dyn {
		case dPrep:
			delta = in.arg
		case dCall:
			argc, _ := tagArgc(f.Values[in.arg])
			need, delta = argc+1, -argc
		case dInst:
			need, delta = in.arg+1, -in.arg
		case dTuple:
			need, delta = in.arg+1, -in.arg
		case dList, dSet:
			need, delta = in.arg+2, -in.arg-1
		case dMap:
			need, delta = 2*in.arg+2, -2*in.arg-1
		case dRecord:
			need, delta = 2*in.arg+1, -2*in.arg
		case dConcat:
			need, delta = in.arg, 1-in.arg
		case dRange:
			if in.arg <= 3 {
				need, delta = 2, -1
			} else {
				need, delta = 1, 0
			}
		case dSelect:
			if it.i == 0 || ins[it.i-1].info.operand != oValue || !strings.HasPrefix(f.Values[ins[it.i-1].arg], "select:") {
				r.bad("offset %d: SELECT is not preceded by the load of its select data", in.off)
				return r
			}
			p, _ := tagArgc(f.Values[ins[it.i-1].arg])
			need, delta = 1+p, 2-1-p
		}
		if opnd < need && it.h {
			// handler code is interpreted for coverage only: the depth on entry is an assumption of the harness
			r.label("handler:underflow_under_assumed_entry_depth(not_judged)")
			continue
		}
		if opnd < need {
			r.bad("stack underflow at %d: %s reads %d operand(s), %d available on a path from the function entry (slots: %d locals)", in.off, opName(in.op), need, opnd, locals)
			return r
		}
		switch in.info.dyn {
		case dGen:
			// push the generator and return it; `next` resumes behind the RETURN with the frame as it was
			push(in, in.end, d+1, "fallthrough")
			if it.i+1 < len(ins) && ins[it.i+1].op == bc.RETURN {
				push(in, ins[it.i+1].end, d, "generator resume")
			} else {
				r.bad("offset %d: GENERATOR is not followed by RETURN", in.off)
			}
			continue
		case dPromise:
			push(in, in.end, d, "fallthrough")
			if it.i+1 < len(ins) && ins[it.i+1].op == bc.RETURN {
				push(in, ins[it.i+1].end, d-1, "promise body start")
			} else {
				r.bad("offset %d: PROMISE is not followed by RETURN", in.off)
			}
			continue
		case dToFinally:
			if t, ok := finallyTarget[it.i]; ok {
				push(in, t, d-2, "JUMP_TO_FINALLY constant target")
			}
			continue
		}
		if in.op == bc.RETURN && opnd != 1 {
			r.label("return_with_extra_operands")
		}
		switch in.info.flow {
		case fNext:
			push(in, in.end, d+delta, "fallthrough")
		case fCond:
			push(in, in.end, d+delta, "fallthrough")
			if why, skip := skipTaken[it.i]; skip {
				r.label(why)
				if strings.HasPrefix(why, "known:") {
					r.SelectElseEdges++
				}
			} else {
				push(in, target(in), d+tdelta, "jump taken")
			}
		case fJump, fLoop:
			push(in, target(in), d+delta, "jump")
		case fTerminal:
		}
	}
	reached := 0
	for _, d := range depth {
		if d != unset {
			reached++
		}
	}
	if realCatch > 0 {
		r.label("has_catch")
	}
	if reached < len(ins) {
		r.label("has_unreached_code")
	}
	return r
}

// intPushed returns the small integer an instruction pushes, if it is a constant load.
func intPushed(in instr, f *Func) (int, bool) {
	switch in.op {
	case bc.INT_M1:
		return -1, true
	case bc.INT_0, bc.INT_1, bc.INT_2, bc.INT_3, bc.INT_4, bc.INT_5:
		return int(in.op) - int(bc.INT_0), true
	case bc.LOAD_INT_8:
		return int(int8(in.arg)), true
	case bc.LOAD_INT_16:
		return int(int16(in.arg)), true
	}
	if in.info.operand == oValue && in.arg >= 0 && in.arg < len(f.Values) && strings.HasPrefix(f.Values[in.arg], "int:") {
		v, ok := tagArgc(f.Values[in.arg])
		return v, ok
	}
	return 0, false
}

func pushesInt(in instr, f *Func) bool {
	switch in.op {
	case bc.INT_0, bc.INT_1, bc.INT_2, bc.INT_3, bc.INT_4, bc.INT_5, bc.LOAD_INT_8, bc.LOAD_INT_16:
		return true
	}
	if in.info.operand == oValue && in.arg >= 0 && in.arg < len(f.Values) {
		return strings.HasPrefix(f.Values[in.arg], "int:")
	}
	return false
}

func firstDiff(a, b []int) int {
	n := len(a)
	if len(b) < n {
		n = len(b)
	}
	for i := 0; i < n; i++ {
		if a[i] != b[i] {
			return i
		}
	}
	if len(a) != len(b) {
		return n
	}
	return -1
}

func firstLines(s string, n int) string {
	l := strings.Split(s, "\n")
	if len(l) > n {
		l = l[:n]
	}
	return strings.Join(l, "\n")
}

func sortedKeys(m map[string]int) []string {
	var k []string
	for x := range m {
		k = append(k, x)
	}
	sort.Strings(k)
	return k
}

func decodeB64(s string) ([]byte, error) { return base64.StdEncoding.DecodeString(s) }
