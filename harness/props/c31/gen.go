package c31

import (
	"pgregory.net/rapid"

	"verif/internal/vgen"
)

// Generator.  Macros are drawn bottom-up (macro i may call macros < i); every
// body and every calling scope draws its local names from the same small pool.

type gctx struct {
	t        *rapid.T
	macros   []Macro
	cost     []int   // static number of expansions one call of macro i stands for
	fb       [][]set // forbidden argument names per macro/parameter (nil: known finding not active)
	inMacro  *Macro
	scopes   []set
	repDepth int
	budget   int
	clos     []int
	defs     []int
	nameFree bool
	banned   set
	cloBase  int // index of the first scope of the closure body being generated (0: none)
}

func (g *gctx) visibleNames() []string {
	var out []string
	seen := set{}
	for _, n := range append(append([]string{}, pool...), counters...) {
		for si, s := range g.scopes {
			if (n == "i" || n == "j") && si < g.cloBase {
				// a closure body does not use loop counters of the enclosing scope (whether a
				// repeated `i := 0` in one scope rebinds a captured variable is not pinned down)
				continue
			}
			if s[n] && !seen[n] {
				seen[n] = true
				out = append(out, n)
			}
		}
	}
	return out
}

func (g *gctx) usableNames() []string {
	if g.nameFree {
		return nil
	}
	var out []string
	for _, n := range g.visibleNames() {
		if !g.banned[n] {
			out = append(out, n)
		}
	}
	return out
}

func (g *gctx) callable() []int {
	var out []int
	for i := range g.macros {
		if g.cost[i] <= g.budget {
			out = append(out, i)
		}
	}
	return out
}

func (g *gctx) expr(depth int) *Expr {
	t := g.t
	names := g.usableNames()
	var kinds []string
	kinds = append(kinds, "lit")
	if len(names) > 0 {
		kinds = append(kinds, "var", "var")
	}
	if g.inMacro != nil {
		for i, p := range g.inMacro.Params {
			if !g.nameFree || p.Plain {
				_ = i
				kinds = append(kinds, "par")
				break
			}
		}
	}
	if depth > 0 {
		kinds = append(kinds, "bin", "bin")
		if len(g.callable()) > 0 {
			kinds = append(kinds, "mac")
		}
	}
	switch kinds[vgen.Pick(t, len(kinds), "expr kind")] {
	case "var":
		return &Expr{K: "var", V: names[vgen.Pick(t, len(names), "var")]}
	case "par":
		var ok []int
		for i, p := range g.inMacro.Params {
			if !g.nameFree || p.Plain {
				ok = append(ok, i)
			}
		}
		return &Expr{K: "par", N: ok[vgen.Pick(t, len(ok), "par")]}
	case "bin":
		op := []string{"+", "-", "*"}[vgen.Pick(t, 3, "op")]
		return &Expr{K: "bin", V: op, A: []*Expr{g.expr(depth - 1), g.expr(depth - 1)}}
	case "mac":
		return g.call(depth - 1)
	}
	return &Expr{K: "lit", N: rapid.IntRange(0, 9).Draw(t, "lit")}
}

func (g *gctx) call(depth int) *Expr {
	cs := g.callable()
	mi := cs[vgen.Pick(g.t, len(cs), "callee")]
	g.budget -= g.cost[mi]
	m := &g.macros[mi]
	e := &Expr{K: "mac", N: mi}
	savedFree, savedBan := g.nameFree, g.banned
	for k, p := range m.Params {
		g.nameFree = savedFree || p.Plain
		g.banned = set{}
		g.banned.addAll(savedBan)
		if g.fb != nil {
			g.banned.addAll(g.fb[mi][k])
		}
		e.A = append(e.A, g.expr(depth))
	}
	g.nameFree, g.banned = savedFree, savedBan
	return e
}

func (g *gctx) declare(n string) { g.scopes[len(g.scopes)-1][n] = true }

func (g *gctx) block(n, depth int) []*Stmt {
	g.scopes = append(g.scopes, set{})
	var out []*Stmt
	for i := 0; i < n; i++ {
		out = append(out, g.stmt(depth))
	}
	g.scopes = g.scopes[:len(g.scopes)-1]
	return out
}

func (g *gctx) stmt(depth int) *Stmt {
	t := g.t
	names := g.visibleNames()
	var assignable []string
	for _, n := range names {
		if n != "i" && n != "j" {
			assignable = append(assignable, n)
		}
	}
	kinds := []string{"decl", "decl", "print"}
	if len(assignable) > 0 {
		kinds = append(kinds, "set", "add")
	}
	if len(g.callable()) > 0 {
		kinds = append(kinds, "call", "call")
	}
	if depth > 0 {
		kinds = append(kinds, "blk", "if")
		if g.repDepth < len(counters) {
			kinds = append(kinds, "rep")
		}
	}
	switch kinds[vgen.Pick(t, len(kinds), "stmt kind")] {
	case "decl":
		v := pool[vgen.Pick(t, len(pool), "decl name")]
		if g.inMacro == nil && g.scopes[len(g.scopes)-1][v] {
			// calling code never redeclares a name in the same scope (a closure may have captured it)
			return &Stmt{K: "set", V: v, E: g.expr(2)}
		}
		// `v := ... v ...` with v from an enclosing scope is not generated: the pinned tree
		// compiles the initialiser against the new, still empty slot (a crash outside this
		// property); in the innermost scope the declaration rebinds and reads the old value
		savedBan := g.banned
		if !g.scopes[len(g.scopes)-1][v] {
			g.banned = set{v: true}
			g.banned.addAll(savedBan)
		}
		s := &Stmt{K: "decl", V: v, E: g.expr(2)}
		g.banned = savedBan
		g.declare(v)
		return s
	case "set":
		return &Stmt{K: "set", V: assignable[vgen.Pick(t, len(assignable), "set name")], E: g.expr(2)}
	case "add":
		return &Stmt{K: "add", V: assignable[vgen.Pick(t, len(assignable), "add name")], E: g.expr(1)}
	case "call":
		return &Stmt{K: "expr", E: g.call(1)}
	case "blk":
		return &Stmt{K: "blk", B: g.block(rapid.IntRange(1, 3).Draw(t, "blk len"), depth-1)}
	case "if":
		e := g.expr(1)
		return &Stmt{K: "if", E: e, N: rapid.IntRange(0, 5).Draw(t, "if bound"), B: g.block(rapid.IntRange(1, 3).Draw(t, "if len"), depth-1)}
	case "rep":
		v := counters[g.repDepth]
		g.declare(v)
		g.repDepth++
		s := &Stmt{K: "rep", V: v, N: rapid.IntRange(1, 3).Draw(t, "rep count"), B: g.block(rapid.IntRange(1, 3).Draw(t, "rep len"), depth-1)}
		g.repDepth--
		return s
	}
	return &Stmt{K: "print", E: g.expr(2)}
}

func paramName(t *rapid.T, k int, used set) string {
	cands := []string{"p0", "p1", "x", "y", "tmp"}
	if k == 1 {
		cands[0] = "p1"
	}
	for {
		n := cands[vgen.Pick(t, len(cands), "param name")]
		if !used[n] {
			used[n] = true
			return n
		}
		if !used["q"] {
			used["q"] = true
			return "q"
		}
		return "q2"
	}
}

func genMacro(t *rapid.T, macros []Macro, cost []int, fb [][]set) (Macro, int) {
	m := Macro{}
	used := set{}
	for k, n := 0, rapid.IntRange(0, 2).Draw(t, "nparams"); k < n; k++ {
		m.Params = append(m.Params, Param{Name: paramName(t, k, used), Plain: vgen.Pick(t, 4, "plain") == 0})
	}
	g := &gctx{t: t, macros: macros, cost: cost, fb: fb, inMacro: &m, budget: 6, scopes: []set{{}}}
	n := rapid.IntRange(1, 5).Draw(t, "macro len")
	for i := 0; i < n; i++ {
		m.B = append(m.B, g.stmt(1))
	}
	m.R = g.expr(2)
	// one macro in four is printed as a single expression when its body happens to consist of declarations only
	m.Inline = vgen.Pick(t, 4, "inline") == 0
	return m, 1 + (6 - g.budget)
}

func genCase(t *rapid.T, avoidCapture bool) Case {
	c := Case{}
	var cost []int
	var fb [][]set
	nm := rapid.IntRange(1, 3).Draw(t, "nmacros")
	for i := 0; i < nm; i++ {
		if avoidCapture {
			fb = Forbidden(c.Macros)
		}
		m, k := genMacro(t, c.Macros, cost, fb)
		c.Macros = append(c.Macros, m)
		cost = append(cost, k)
	}
	if avoidCapture {
		fb = Forbidden(c.Macros)
	}
	g := &gctx{t: t, macros: c.Macros, cost: cost, fb: fb, budget: 24, scopes: []set{{}}}
	// the calling scope starts with some of the pool names defined
	for i, n := 0, rapid.IntRange(1, 3).Draw(t, "initial decls"); i < n; i++ {
		v := pool[vgen.Pick(t, len(pool), "decl name")]
		k := "decl"
		if g.scopes[0][v] {
			k = "set"
		}
		c.Main = append(c.Main, &Stmt{K: k, V: v, E: &Expr{K: "lit", N: rapid.IntRange(0, 9).Draw(t, "lit")}})
		g.declare(v)
	}
	n := rapid.IntRange(2, 7).Draw(t, "main len")
	for i := 0; i < n; i++ {
		switch vgen.Pick(t, 8, "unit") {
		case 0: // method with a macro-calling body, then a call
			id := len(g.defs)
			v := pool[vgen.Pick(t, len(pool), "param")]
			saved, savedRep := g.scopes, g.repDepth
			g.scopes, g.repDepth = []set{{v: true}}, 0
			s := &Stmt{K: "def", N: id, V: v}
			for j, k := 0, rapid.IntRange(1, 4).Draw(t, "def len"); j < k; j++ {
				s.B = append(s.B, g.stmt(1))
			}
			s.E = g.expr(2)
			g.scopes, g.repDepth = saved, savedRep
			g.defs = append(g.defs, id)
			c.Main = append(c.Main, s)
			c.Main = append(c.Main, &Stmt{K: "print", E: &Expr{K: "cm", N: id, A: []*Expr{{K: "lit", N: rapid.IntRange(0, 9).Draw(t, "arg")}}}})
		case 1: // closure over the top-level scope
			id := len(g.clos)
			v := pool[vgen.Pick(t, len(pool), "param")]
			savedRep := g.repDepth
			g.repDepth = 0
			g.scopes = append(g.scopes, set{v: true})
			g.cloBase = len(g.scopes) - 1
			s := &Stmt{K: "clo", N: id, V: v}
			for j, k := 0, rapid.IntRange(1, 4).Draw(t, "clo len"); j < k; j++ {
				s.B = append(s.B, g.stmt(1))
			}
			s.E = g.expr(2)
			g.scopes = g.scopes[:len(g.scopes)-1]
			g.cloBase = 0
			g.repDepth = savedRep
			g.clos = append(g.clos, id)
			c.Main = append(c.Main, s)
			c.Main = append(c.Main, &Stmt{K: "print", E: &Expr{K: "cc", N: id, A: []*Expr{{K: "lit", N: rapid.IntRange(0, 9).Draw(t, "arg")}}}})
		case 2:
			if len(g.clos) > 0 {
				id := g.clos[vgen.Pick(t, len(g.clos), "closure")]
				c.Main = append(c.Main, &Stmt{K: "print", E: &Expr{K: "cc", N: id, A: []*Expr{g.expr(1)}}})
				continue
			}
			fallthrough
		default:
			c.Main = append(c.Main, g.stmt(2))
		}
	}
	// every name of the calling scope is read after the calls
	for _, v := range g.visibleNames() {
		c.Main = append(c.Main, &Stmt{K: "print", E: &Expr{K: "var", V: v}})
	}
	c.ProbeIn = genProbeIn(t, &c)
	c.ProbeOut = rapid.IntRange(0, 63).Draw(t, "probe out site")
	return c
}

// spliced reports, per macro and parameter, whether the body splices the
// parameter at all (an argument of a parameter that is never spliced is dropped,
// macro calls inside it are never expanded).
func spliced(macros []Macro) [][]bool {
	out := make([][]bool, len(macros))
	for i := range macros {
		m := &macros[i]
		out[i] = make([]bool, len(m.Params))
		liveStmts(m.B, out, func(e *Expr) {
			if e.K == "par" {
				out[i][e.N] = true
			}
		})
		liveExpr(m.R, out, func(e *Expr) {
			if e.K == "par" {
				out[i][e.N] = true
			}
		})
	}
	return out
}

// liveExpr visits the sub-expressions that survive expansion.
func liveExpr(e *Expr, used [][]bool, visit func(*Expr)) {
	if e == nil {
		return
	}
	visit(e)
	for k, a := range e.A {
		if e.K == "mac" && (e.N >= len(used) || used[e.N] == nil || !used[e.N][k]) {
			continue
		}
		liveExpr(a, used, visit)
	}
}

func liveStmts(b []*Stmt, used [][]bool, visit func(*Expr)) {
	for _, s := range b {
		liveExpr(s.E, used, visit)
		liveStmts(s.B, used, visit)
	}
}

// reachable lists the macros expanded at least once when main is checked.
func reachable(c *Case) []int {
	used := spliced(c.Macros)
	seen := map[int]bool{}
	var visit func(e *Expr)
	visit = func(e *Expr) {
		if e.K == "mac" && !seen[e.N] {
			seen[e.N] = true
			liveStmts(c.Macros[e.N].B, used, visit)
			liveExpr(c.Macros[e.N].R, used, visit)
		}
	}
	liveStmts(c.Main, used, visit)
	var out []int
	for i := range c.Macros {
		if seen[i] {
			out = append(out, i)
		}
	}
	return out
}

func genProbeIn(t *rapid.T, c *Case) *ProbeIn {
	rs := reachable(c)
	if len(rs) == 0 {
		return nil
	}
	mi := rs[vgen.Pick(t, len(rs), "probe macro")]
	m := &c.Macros[mi]
	pos := rapid.IntRange(0, len(m.B)).Draw(t, "probe pos")
	own := set{}
	for _, s := range m.B[:pos] {
		if s.K == "decl" || s.K == "rep" {
			own[s.V] = true
		}
	}
	var cands []string
	for _, n := range append(append([]string{}, pool...), counters...) {
		if !own[n] {
			cands = append(cands, n)
		}
	}
	if len(cands) == 0 {
		return nil
	}
	return &ProbeIn{M: mi, Pos: pos, Name: cands[vgen.Pick(t, len(cands), "probe name")], Write: rapid.Bool().Draw(t, "probe write")}
}
