package c31

import (
	"errors"
	"fmt"
	"strings"
)

// Reference evaluator: lexical scoping, hygienic macro expansion.  A macro
// call evaluates the macro body in a fresh environment that has no access to
// the caller's; a parameter splice evaluates the argument expression in the
// environment of the code that wrote the argument (call by name: once per
// evaluation of the splice).

type cell struct{ v int64 }

type env struct {
	vars   map[string]*cell
	parent *env
}

func newEnv(parent *env) *env { return &env{vars: map[string]*cell{}, parent: parent} }

func (e *env) lookup(n string) *cell {
	for c := e; c != nil; c = c.parent {
		if v, ok := c.vars[n]; ok {
			return v
		}
	}
	return nil
}

type thunk struct {
	e      *Expr
	env    *env
	params []*thunk
}

type closure struct {
	s   *Stmt
	env *env
}

type evaluator struct {
	c     *Case
	out   strings.Builder
	steps int
	defs  map[int]*Stmt
	clos  map[int]*closure
}

var errBudget = errors.New("budget")

const valueLimit = 1_000_000_000

func (ev *evaluator) tick() {
	ev.steps++
	if ev.steps > 20000 {
		panic(errBudget)
	}
}

func (ev *evaluator) expr(e *Expr, en *env, ps []*thunk) int64 {
	ev.tick()
	switch e.K {
	case "lit":
		return int64(e.N)
	case "var":
		c := en.lookup(e.V)
		if c == nil {
			panic(fmt.Errorf("reference: undefined %s", e.V))
		}
		return c.v
	case "par":
		t := ps[e.N]
		return ev.expr(t.e, t.env, t.params)
	case "bin":
		l := ev.expr(e.A[0], en, ps)
		r := ev.expr(e.A[1], en, ps)
		var v int64
		switch e.V {
		case "+":
			v = l + r
		case "-":
			v = l - r
		case "*":
			v = l * r
		default:
			panic("bad op")
		}
		if v > valueLimit || v < -valueLimit {
			panic(errBudget)
		}
		return v
	case "mac":
		m := &ev.c.Macros[e.N]
		ts := make([]*thunk, len(e.A))
		for i, a := range e.A {
			ts[i] = &thunk{a, en, ps}
		}
		body := newEnv(nil)
		ev.block(m.B, body, ts)
		return ev.expr(m.R, body, ts)
	case "cm":
		d := ev.defs[e.N]
		arg := ev.expr(e.A[0], en, ps)
		body := newEnv(nil)
		body.vars[d.V] = &cell{arg}
		ev.block(d.B, body, nil)
		return ev.expr(d.E, body, nil)
	case "cc":
		cl := ev.clos[e.N]
		arg := ev.expr(e.A[0], en, ps)
		body := newEnv(cl.env)
		body.vars[cl.s.V] = &cell{arg}
		ev.block(cl.s.B, body, nil)
		return ev.expr(cl.s.E, body, nil)
	}
	panic("bad expr kind " + e.K)
}

// block executes statements in en (the caller has created the scope).
func (ev *evaluator) block(b []*Stmt, en *env, ps []*thunk) {
	for _, s := range b {
		ev.tick()
		switch s.K {
		case "decl":
			v := ev.expr(s.E, en, ps)
			en.vars[s.V] = &cell{v}
		case "set":
			v := ev.expr(s.E, en, ps)
			en.lookup(s.V).v = v
		case "add":
			c := en.lookup(s.V)
			old := c.v
			v := ev.expr(s.E, en, ps)
			c.v = old + v
			if c.v > valueLimit || c.v < -valueLimit {
				panic(errBudget)
			}
		case "print":
			fmt.Fprintf(&ev.out, "%d\n", ev.expr(s.E, en, ps))
		case "expr":
			ev.expr(s.E, en, ps)
		case "blk":
			ev.block(s.B, newEnv(en), ps)
		case "if":
			if ev.expr(s.E, en, ps) > int64(s.N) {
				ev.block(s.B, newEnv(en), ps)
			}
		case "rep":
			c := &cell{0}
			en.vars[s.V] = c
			for c.v < int64(s.N) {
				ev.block(s.B, newEnv(en), ps)
				c.v++
				ev.tick()
			}
		case "def":
			ev.defs[s.N] = s
		case "clo":
			ev.clos[s.N] = &closure{s, en}
		default:
			panic("bad stmt kind " + s.K)
		}
	}
}

// Reference runs the case; ok is false when the step/value budget is exceeded.
func Reference(c *Case) (stdout string, ok bool, err error) {
	ev := &evaluator{c: c, defs: map[int]*Stmt{}, clos: map[int]*closure{}}
	defer func() {
		if r := recover(); r != nil {
			if r == errBudget {
				ok = false
				return
			}
			ok = false
			err = fmt.Errorf("%v", r)
		}
	}()
	// method definitions are hoisted
	for _, s := range c.Main {
		if s.K == "def" {
			ev.defs[s.N] = s
		}
	}
	ev.block(c.Main, newEnv(nil), nil)
	return ev.out.String(), true, nil
}
