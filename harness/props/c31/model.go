// Package c31 checks macro hygiene (property C31) with generated macro
// definitions and call sites that use the same small pool of local names.
//
// model.go: the replayable case description, its three printers (macro
// program, hand-written expansion with renamed locals, leak-probe variants) and
// the static name analysis shared by generator and oracle.
package c31

import (
	"fmt"
	"sort"
	"strings"
)

// Expr is an Int-valued expression.
//
//	lit  N            integer literal
//	var  V            local variable (a caller local in caller code, a macro's own local in a macro body)
//	par  N            (macro bodies only) splice of macro parameter N
//	bin  V A[0] A[1]  V in + - *
//	mac  N A          call of macro N with argument expressions A
//	cm   N A[0]       call of method fN (caller code, statement roots only)
//	cc   N A[0]       call of closure cN (caller code, statement roots only)
type Expr struct {
	K string  `json:"k"`
	N int     `json:"n,omitempty"`
	V string  `json:"v,omitempty"`
	A []*Expr `json:"a,omitempty"`
}

// Stmt is a statement.
//
//	decl V E     V := E
//	set  V E     V = E
//	add  V E     V += E
//	print E      println(E)
//	expr E       E
//	blk  B       do B end
//	if   E N B   if E > N  B end
//	rep  V N B   V := 0; while V < N  B; V += 1 end     (V is a counter name: i, j)
//	def  N V B E def fN(V: Int): Int  B; E end          (top level of main only)
//	clo  N V B E cN := |V: Int|: Int -> B; E end        (top level of main only)
type Stmt struct {
	K string  `json:"k"`
	N int     `json:"n,omitempty"`
	V string  `json:"v,omitempty"`
	E *Expr   `json:"e,omitempty"`
	B []*Stmt `json:"b,omitempty"`
}

type Param struct {
	Name  string `json:"name"`
	Plain bool   `json:"plain,omitempty"` // spliced as !{p} (arguments are name-free) instead of !{Macro.unhygienic(p)}
}

type Macro struct {
	Params []Param `json:"params"`
	B      []*Stmt `json:"b"`
	R      *Expr   `json:"r"`
	// Inline: when every statement of B is a declaration, the quoted body is printed as ONE expression
	// statement, `(((v1 := e1) - v1) + ... + R)`, which means the same as `v1 := e1; ...; R` for integers
	// (the expansion is then a single expression that declares locals)
	Inline bool `json:"inline,omitempty"`
}

// inlineable reports whether the macro body can be printed in the single-expression form.
func (m *Macro) inlineable() bool {
	if !m.Inline || len(m.B) == 0 {
		return false
	}
	for _, s := range m.B {
		if s.K != "decl" {
			return false
		}
	}
	return true
}

// ProbeIn describes the inward-leak variant: a statement using a name that the
// macro does not declare is inserted before statement Pos of macro M's body.
type ProbeIn struct {
	M     int    `json:"m"`
	Pos   int    `json:"pos"`
	Name  string `json:"name"`
	Write bool   `json:"write,omitempty"`
}

type Case struct {
	Src     string   `json:"src,omitempty"` // informational: the macro program as printed by the generator
	Macros  []Macro  `json:"macros"`
	Main    []*Stmt  `json:"main"`
	ProbeIn *ProbeIn `json:"probe_in,omitempty"`
	// ProbeOut selects (modulo the number of candidates) the calling statement after
	// which the outward-leak variant uses the names introduced by the called macros.
	ProbeOut int `json:"probe_out,omitempty"`
}

var pool = []string{"x", "y", "tmp", "acc"}
var counters = []string{"i", "j"}

// ---------------------------------------------------------------------------
// printing

type mode int

const (
	asMacros   mode = iota // macro definitions + calls
	asExpanded             // calls replaced by the hand-written expansion, macro locals renamed
)

// nctx is the naming context of the code being printed.
type nctx struct {
	suffix string   // appended to every local name (expansion instance), "" in caller code
	params []string // expanded mode: printed argument texts; macro definitions: nil
	m      *Macro   // macro whose body is printed (definition or expansion), nil in caller code
}

type probeExp struct {
	Line int
	Name string
}

type printer struct {
	c        *Case
	mode     mode
	sb       strings.Builder
	line     int // number of the next line (1-based)
	ind      int
	fresh    int
	probeOut bool
	outSite  int // index of the calling statement that gets the probes (-1: count only)
	outSites int // candidate calling statements seen so far
	expOut   []probeExp
	probeIn  *ProbeIn
	scopes   [][]string // caller-level static scopes (names declared so far)
}

func (p *printer) ln(format string, a ...any) {
	s := fmt.Sprintf(format, a...)
	p.sb.WriteString(strings.Repeat("  ", p.ind))
	p.sb.WriteString(s)
	p.sb.WriteByte('\n')
	p.line += 1 + strings.Count(s, "\n")
}

func (p *printer) visible(name string) bool {
	for _, s := range p.scopes {
		for _, n := range s {
			if n == name {
				return true
			}
		}
	}
	return false
}

func (p *printer) declare(name string) {
	top := len(p.scopes) - 1
	p.scopes[top] = append(p.scopes[top], name)
}
func (p *printer) push(names ...string) { p.scopes = append(p.scopes, append([]string(nil), names...)) }
func (p *printer) pop()                 { p.scopes = p.scopes[:len(p.scopes)-1] }

func macroName(i int) string { return fmt.Sprintf("m%d", i) }

func (p *printer) expr(e *Expr, nc nctx) string {
	switch e.K {
	case "lit":
		return fmt.Sprint(e.N)
	case "var":
		return e.V + nc.suffix
	case "par":
		if nc.params != nil {
			return "(" + nc.params[e.N] + ")"
		}
		prm := nc.m.Params[e.N]
		if prm.Plain {
			return "!{" + prm.Name + "}"
		}
		return "!{Macro.unhygienic(" + prm.Name + ")}"
	case "bin":
		return "(" + p.expr(e.A[0], nc) + " " + e.V + " " + p.expr(e.A[1], nc) + ")"
	case "mac":
		args := make([]string, len(e.A))
		for i, a := range e.A {
			args[i] = p.expr(a, nc)
		}
		if p.mode == asMacros {
			return macroName(e.N) + "!(" + strings.Join(args, ", ") + ")"
		}
		return p.expansion(e.N, args)
	case "cm":
		return fmt.Sprintf("f%d(%s)", e.N, p.expr(e.A[0], nc))
	case "cc":
		return fmt.Sprintf("c%d.(%s)", e.N, p.expr(e.A[0], nc))
	}
	panic("bad expr kind " + e.K)
}

// expansion prints what the call of macro mi with the given (already printed)
// arguments stands for: the body in its own block, own locals renamed apart.
func (p *printer) expansion(mi int, args []string) string {
	p.fresh++
	m := &p.c.Macros[mi]
	sub := &printer{c: p.c, mode: asExpanded, fresh: p.fresh, ind: p.ind + 1}
	nc := nctx{suffix: fmt.Sprintf("_e%d", p.fresh), params: args, m: m}
	if len(args) == 0 {
		nc.params = []string{}
	}
	sub.stmts(m.B, nc, false)
	sub.ln("%s", sub.expr(m.R, nc))
	p.fresh = sub.fresh
	pad := strings.Repeat("  ", p.ind)
	return "(do\n" + sub.sb.String() + pad + "end)"
}

// declared lists every name a macro body declares (at any depth).
func declared(m *Macro) []string {
	set := map[string]bool{}
	var walk func(b []*Stmt)
	walk = func(b []*Stmt) {
		for _, s := range b {
			switch s.K {
			case "decl", "rep":
				set[s.V] = true
			}
			walk(s.B)
		}
	}
	walk(m.B)
	var out []string
	for n := range set {
		out = append(out, n)
	}
	sort.Strings(out)
	return out
}

// macrosIn lists the macros called directly in the expressions of s (not in nested statements).
func macrosInExpr(e *Expr, out map[int]bool) {
	if e == nil {
		return
	}
	if e.K == "mac" {
		out[e.N] = true
	}
	for _, a := range e.A {
		macrosInExpr(a, out)
	}
}

func (p *printer) stmts(b []*Stmt, nc nctx, callerLevel bool) {
	for idx, s := range b {
		if p.probeIn != nil && nc.m != nil && nc.params == nil && nc.m == &p.c.Macros[p.probeIn.M] && p.ind == 2 && idx == p.probeIn.Pos {
			p.inProbe()
		}
		p.stmt(s, nc, callerLevel)
	}
}

func (p *printer) inProbe() {
	if p.probeIn.Write {
		p.ln("%s = 0", p.probeIn.Name)
	} else {
		p.ln("%s", p.probeIn.Name)
	}
}

func (p *printer) stmt(s *Stmt, nc nctx, callerLevel bool) {
	switch s.K {
	case "decl":
		p.ln("%s%s := %s", s.V, nc.suffix, p.expr(s.E, nc))
		if callerLevel {
			p.declare(s.V)
		}
	case "set":
		p.ln("%s%s = %s", s.V, nc.suffix, p.expr(s.E, nc))
	case "add":
		p.ln("%s%s += %s", s.V, nc.suffix, p.expr(s.E, nc))
	case "print":
		if p.probeOut || p.probeIn != nil {
			// the leak variants are only type-checked; a diagnostic raised inside an argument
			// of the overloaded println is replaced by "no overload of `println` matches"
			p.ln("%s", p.expr(s.E, nc))
		} else {
			p.ln("println(%s)", p.expr(s.E, nc))
		}
	case "expr":
		p.ln("%s", p.expr(s.E, nc))
	case "blk":
		p.ln("do")
		p.nested(s.B, nc, callerLevel)
		p.ln("end")
	case "if":
		p.ln("if %s > %d", p.expr(s.E, nc), s.N)
		p.nested(s.B, nc, callerLevel)
		p.ln("end")
	case "rep":
		p.ln("%s%s := 0", s.V, nc.suffix)
		if callerLevel {
			p.declare(s.V)
		}
		p.ln("while %s%s < %d", s.V, nc.suffix, s.N)
		p.nested(s.B, nc, callerLevel)
		p.ind++
		p.ln("%s%s += 1", s.V, nc.suffix)
		p.ind--
		p.ln("end")
	case "def":
		p.ln("def f%d(%s: Int): Int", s.N, s.V)
		saved := p.scopes
		p.scopes = [][]string{{s.V}}
		p.ind++
		p.stmts(s.B, nc, true)
		p.ln("%s", p.expr(s.E, nc))
		p.ind--
		p.scopes = saved
		p.ln("end")
		return
	case "clo":
		p.ln("c%d := |%s: Int|: Int ->", s.N, s.V)
		p.push(s.V)
		p.ind++
		p.stmts(s.B, nc, true)
		p.ln("%s", p.expr(s.E, nc))
		p.ind--
		p.pop()
		p.ln("end")
		return
	default:
		panic("bad stmt kind " + s.K)
	}
	if callerLevel && p.probeOut && p.mode == asMacros && s.K != "blk" && s.K != "if" && s.K != "rep" {
		called := map[int]bool{}
		macrosInExpr(s.E, called)
		names := map[string]bool{}
		for mi := range called {
			for _, n := range declared(&p.c.Macros[mi]) {
				if !p.visible(n) {
					names[n] = true
				}
			}
		}
		var ns []string
		for n := range names {
			ns = append(ns, n)
		}
		sort.Strings(ns)
		if len(ns) > 0 {
			p.outSites++
			if p.outSites-1 != p.outSite {
				ns = nil
			}
		}
		for _, n := range ns {
			p.expOut = append(p.expOut, probeExp{p.line, n})
			p.ln("%s", n)
		}
	}
}

func (p *printer) nested(b []*Stmt, nc nctx, callerLevel bool) {
	p.ind++
	if callerLevel {
		p.push()
	}
	p.stmts(b, nc, callerLevel)
	if callerLevel {
		p.pop()
	}
	p.ind--
}

func (p *printer) macroDefs() {
	p.ln("using Std::Elk::AST::*")
	p.ln("")
	for i := range p.c.Macros {
		m := &p.c.Macros[i]
		ps := make([]string, len(m.Params))
		for j, prm := range m.Params {
			ps[j] = prm.Name + ": ExpressionNode"
		}
		p.ln("macro %s(%s)", macroName(i), strings.Join(ps, ", "))
		p.ind++
		p.ln("quote")
		p.ind++
		nc := nctx{m: m}
		if m.inlineable() && !(p.probeIn != nil && p.probeIn.M == i) {
			txt := p.expr(m.R, nc)
			for k := len(m.B) - 1; k >= 0; k-- {
				d := m.B[k]
				txt = fmt.Sprintf("(((%s := %s) - %s) + %s)", d.V+nc.suffix, p.expr(d.E, nc), d.V+nc.suffix, txt)
			}
			p.ln("%s", txt)
			p.ind--
			p.ln("end")
			p.ind--
			p.ln("end")
			p.ln("")
			continue
		}
		p.stmts(m.B, nc, false)
		if p.probeIn != nil && p.probeIn.M == i && p.probeIn.Pos >= len(m.B) {
			p.inProbe()
		}
		p.ln("%s", p.expr(m.R, nc))
		p.ind--
		p.ln("end")
		p.ind--
		p.ln("end")
		p.ln("")
	}
}

// Render prints the program.  probeOut adds a use of every macro-introduced
// name after each calling statement (each such line must be rejected); probeIn
// inserts the case's inward probe into the macro body.
func Render(c *Case, md mode, probeOut, probeIn bool) (src string, expect []probeExp) {
	site := -1
	if probeOut {
		// only one calling statement gets probes: after the first failure the checker
		// stops expanding macros, so later probes would be rejected for the wrong reason
		cnt := &printer{c: c, mode: md, line: 1, probeOut: true, outSite: -1}
		cnt.push()
		cnt.stmts(c.Main, nctx{}, true)
		if cnt.outSites == 0 {
			probeOut = false
		} else {
			site = ((c.ProbeOut % cnt.outSites) + cnt.outSites) % cnt.outSites
		}
	}
	p := &printer{c: c, mode: md, line: 1, probeOut: probeOut, outSite: site}
	if probeIn {
		p.probeIn = c.ProbeIn
	}
	if md == asMacros {
		p.macroDefs()
	}
	p.push()
	p.stmts(c.Main, nctx{}, true)
	return p.sb.String(), p.expOut
}

// ---------------------------------------------------------------------------
// static analysis

type set map[string]bool

func (s set) addAll(o set) {
	for k := range o {
		s[k] = true
	}
}
func (s set) meets(o set) bool {
	for k := range o {
		if s[k] {
			return true
		}
	}
	return false
}

// Forbidden computes, per macro and parameter, the names an argument must not
// mention to stay clear of the known finding "an unhygienic splice is resolved
// against the macro's own locals first": every own name of the macro that is in
// scope where the parameter is spliced (including a name being declared by the
// splicing statement), transitively through nested macro calls.
func Forbidden(macros []Macro) [][]set {
	out := make([][]set, len(macros))
	for i := range macros {
		out[i] = forbiddenOf(&macros[i], out)
	}
	return out
}

func forbiddenOf(m *Macro, lower [][]set) []set {
	res := make([]set, len(m.Params))
	for i := range res {
		res[i] = set{}
	}
	var scopes []set
	vis := func(extra string) set {
		v := set{}
		for _, s := range scopes {
			v.addAll(s)
		}
		if extra != "" {
			v[extra] = true
		}
		return v
	}
	var expr func(e *Expr, here set)
	expr = func(e *Expr, here set) {
		if e == nil {
			return
		}
		switch e.K {
		case "par":
			res[e.N].addAll(here)
		case "mac":
			for k, a := range e.A {
				h := set{}
				h.addAll(here)
				if e.N < len(lower) && lower[e.N] != nil && k < len(lower[e.N]) {
					h.addAll(lower[e.N][k])
				}
				expr(a, h)
			}
		default:
			for _, a := range e.A {
				expr(a, here)
			}
		}
	}
	var stmts func(b []*Stmt)
	stmts = func(b []*Stmt) {
		for _, s := range b {
			switch s.K {
			case "decl":
				expr(s.E, vis(s.V))
				scopes[len(scopes)-1][s.V] = true
			case "rep":
				scopes[len(scopes)-1][s.V] = true
				scopes = append(scopes, set{})
				stmts(s.B)
				scopes = scopes[:len(scopes)-1]
			case "blk", "if":
				expr(s.E, vis(""))
				scopes = append(scopes, set{})
				stmts(s.B)
				scopes = scopes[:len(scopes)-1]
			default:
				expr(s.E, vis(""))
			}
		}
	}
	scopes = []set{{}}
	stmts(m.B)
	expr(m.R, vis(""))
	return res
}

// freeNames lists the base names an argument expression mentions once nested
// parameter splices are taken into account: own variables, plus (for par) a
// marker resolved by the caller.
func freeVars(e *Expr, vars set, pars map[int]bool) {
	if e == nil {
		return
	}
	switch e.K {
	case "var":
		vars[e.V] = true
	case "par":
		pars[e.N] = true
	}
	for _, a := range e.A {
		freeVars(a, vars, pars)
	}
}

// Captures reports whether some argument mentions a name that the receiving
// macro has in scope at a splice of that parameter (the known-finding shape).
func Captures(c *Case) bool {
	fb := Forbidden(c.Macros)
	found := false
	var expr func(e *Expr)
	expr = func(e *Expr) {
		if e == nil {
			return
		}
		if e.K == "mac" {
			for k, a := range e.A {
				vars, pars := set{}, map[int]bool{}
				freeVars(a, vars, pars)
				if k < len(fb[e.N]) && fb[e.N][k].meets(vars) {
					found = true
				}
			}
		}
		for _, a := range e.A {
			expr(a)
		}
	}
	var stmts func(b []*Stmt)
	stmts = func(b []*Stmt) {
		for _, s := range b {
			expr(s.E)
			stmts(s.B)
		}
	}
	for i := range c.Macros {
		stmts(c.Macros[i].B)
		expr(c.Macros[i].R)
	}
	stmts(c.Main)
	return found
}

func mentions(e *Expr, name string) bool {
	if e == nil {
		return false
	}
	if e.K == "var" && e.V == name {
		return true
	}
	for _, a := range e.A {
		if mentions(a, name) {
			return true
		}
	}
	return false
}

func stmtsMention(b []*Stmt, name string) bool {
	for _, s := range b {
		if mentions(s.E, name) || ((s.K == "add") && s.V == name) || stmtsMention(s.B, name) {
			return true
		}
	}
	return false
}

// SharedLive reports the non-triviality rule: some macro call site where the
// called macro declares and reads a name that the calling code has in scope at
// the call and reads again after the calling statement.
func SharedLive(c *Case) (shared bool, nestedCall bool, operand bool) {
	readsOwn := func(m *Macro, n string) bool { return stmtsMention(m.B, n) || mentions(m.R, n) }
	var scopes []set
	vis := func(n string) bool {
		for _, s := range scopes {
			if s[n] {
				return true
			}
		}
		return false
	}
	var walk func(b []*Stmt, tail *Expr, rest func(string) bool)
	walk = func(b []*Stmt, tail *Expr, rest func(string) bool) {
		for idx, s := range b {
			later := func(n string) bool {
				return stmtsMention(b[idx+1:], n) || mentions(tail, n) || (rest != nil && rest(n))
			}
			switch s.K {
			case "def":
				saved := scopes
				scopes = []set{{s.V: true}}
				walk(s.B, s.E, nil)
				scopes = saved
				continue
			case "clo":
				scopes = append(scopes, set{s.V: true})
				walk(s.B, s.E, nil)
				scopes = scopes[:len(scopes)-1]
				continue
			}
			called := map[int]bool{}
			macrosInExpr(s.E, called)
			if s.E != nil && s.E.K != "mac" && len(called) > 0 {
				operand = true
			}
			if s.K == "decl" || s.K == "rep" {
				scopes[len(scopes)-1][s.V] = true
			}
			for mi := range called {
				m := &c.Macros[mi]
				for _, n := range declared(m) {
					if vis(n) && readsOwn(m, n) && later(n) {
						shared = true
					}
				}
			}
			if len(s.B) > 0 {
				scopes = append(scopes, set{})
				inLoop := s.K == "rep"
				walk(s.B, nil, func(n string) bool { return later(n) || (inLoop && stmtsMention(s.B, n)) })
				scopes = scopes[:len(scopes)-1]
			}
		}
	}
	scopes = []set{{}}
	walk(c.Main, nil, nil)
	for i := range c.Macros {
		called := map[int]bool{}
		for _, s := range flatten(c.Macros[i].B) {
			macrosInExpr(s.E, called)
		}
		macrosInExpr(c.Macros[i].R, called)
		if len(called) > 0 {
			nestedCall = true
		}
	}
	return
}

func flatten(b []*Stmt) []*Stmt {
	var out []*Stmt
	for _, s := range b {
		out = append(out, s)
		out = append(out, flatten(s.B)...)
	}
	return out
}
