package c31

import (
	"encoding/json"
	"fmt"
	"hash/fnv"
	"os"
	"path/filepath"
	"regexp"
	"sort"
	"strings"
	"testing"
	"time"

	"pgregory.net/rapid"

	"verif/internal/pbt"
	sb "verif/internal/sandbox"
)

func TestMain(m *testing.M) { pbt.Main(m, "C31") }

var worker *sb.Worker

// known finding: inside an unhygienic splice a name is looked up in the macro's
// own scopes first, so caller code that mentions a name the macro has declared
// (or is declaring) at the splice is captured by the macro's local
const kCapture = "unhygienic-splice-captured-by-macro-local"

func gen(t *rapid.T) Case {
	c := genCase(t, pbt.KnownActive(kCapture))
	c.Src, _ = Render(&c, asMacros, false, false)
	return c
}

func clip(s string, n int) string {
	if len(s) > n {
		return s[:n] + "…"
	}
	return s
}

func firstDiff(a, b string) string {
	la, lb := strings.Split(a, "\n"), strings.Split(b, "\n")
	for i := 0; i < len(la) || i < len(lb); i++ {
		x, y := "<end>", "<end>"
		if i < len(la) {
			x = la[i]
		}
		if i < len(lb) {
			y = lb[i]
		}
		if x != y {
			return fmt.Sprintf("line %d: want %q got %q", i+1, x, y)
		}
	}
	return "none"
}

func fails(r sb.Run) []string {
	var ds []string
	for _, d := range r.Diags {
		if d.Severity == "FAIL" {
			ds = append(ds, fmt.Sprintf("%d: %s", d.Line, d.Msg))
		}
	}
	sort.Strings(ds)
	return ds
}

// run executes src; ok=false means inconclusive (timeout).
func run(mode, src string, ctx *pbt.Ctx, what string) (r sb.Run, class string, ok bool, err error) {
	res := worker.Do(sb.Req{Mode: mode, Source: src}, 30*time.Second)
	class, detail := sb.Classify(res)
	ctx.Label(what + ":" + class)
	switch class {
	case sb.Timeout:
		pbt.Inconclusive()
		return r, class, false, nil
	case sb.Fatal, sb.GoPanic:
		return r, class, false, fmt.Errorf("%s: interpreter crashed (%s):\n%s\n--- source\n%s", what, class, clip(detail, 1500), clip(src, 3000))
	case sb.StackLimit:
		return r, class, false, fmt.Errorf("%s: stack limit reached (%s)\n--- source\n%s", what, detail, clip(src, 3000))
	}
	return res.Resp.Runs[0], class, true, nil
}

// oracle wraps check; with C31_DUMP=<dir> every failure is also written there
// (developer triage together with VERIF_SURVEY=1).
func oracle(c Case, ctx *pbt.Ctx) error {
	err := check(c, ctx)
	if dir := os.Getenv("C31_DUMP"); dir != "" && err != nil {
		_ = os.MkdirAll(dir, 0o755)
		head := err.Error()
		if i := strings.IndexByte(head, '\n'); i > 0 {
			head = head[:i]
		}
		h := fnv.New32a()
		h.Write([]byte(regexp.MustCompile("[0-9]+|`[^`]*`").ReplaceAllString(head, "N")))
		name := filepath.Join(dir, fmt.Sprintf("%08x.txt", h.Sum32()))
		if _, e := os.Stat(name); e != nil {
			cb, _ := json.Marshal(c)
			_ = os.WriteFile(name, []byte(err.Error()+"\n--- case\n"+string(cb)+"\n"), 0o644)
		}
	}
	return err
}

func check(c Case, ctx *pbt.Ctx) error {
	want, refOK, refErr := Reference(&c)
	if refErr != nil {
		return fmt.Errorf("GENERATOR: reference evaluator failed: %v", refErr)
	}
	if !refOK {
		ctx.Label("reference:over-budget")
		return nil
	}
	capt := Captures(&c)
	if capt {
		ctx.Label("shape:argument-name-in-scope-at-splice")
	}

	// (A) the macro program against the hygienic reference semantics
	srcM, _ := Render(&c, asMacros, false, false)
	rm, class, ok, err := run("run", srcM, ctx, "macro")
	if err != nil || !ok {
		return err
	}
	if class == sb.Rejected {
		return fmt.Errorf("macro program rejected by the checker: %s\n--- source\n%s", strings.Join(fails(rm), " | "), clip(srcM, 3000))
	}
	// (B) the hand-written expansion (own locals renamed apart, arguments substituted)
	srcE, _ := Render(&c, asExpanded, false, false)
	re, classE, ok, err := run("run", srcE, ctx, "expanded")
	if err != nil || !ok {
		return err
	}
	if classE == sb.Rejected {
		return fmt.Errorf("GENERATOR: hand-written expansion rejected by the checker: %s\n--- source\n%s", strings.Join(fails(re), " | "), clip(srcE, 3000))
	}
	if rm.Stdout != re.Stdout || rm.ErrInspect != re.ErrInspect {
		who := "the expansion agrees with the hygienic reference"
		if re.Stdout != want {
			who = "neither agrees with the reference evaluator"
		}
		return fmt.Errorf("macro program and its hand-written expansion behave differently (%s)\n--- macro program stdout (err %q)\n%s--- expansion stdout (err %q)\n%s--- first difference: %s\n--- macro program\n%s--- expansion\n%s",
			who, rm.ErrInspect, clip(rm.Stdout, 800), re.ErrInspect, clip(re.Stdout, 800), firstDiff(re.Stdout, rm.Stdout), clip(srcM, 3000), clip(srcE, 3000))
	}
	if rm.Stdout != want || rm.ErrInspect != "" {
		return fmt.Errorf("output differs from the hygienic reference semantics (the hand-written expansion behaves like the macro program)\n--- want\n%s--- got (err %q)\n%s--- first difference: %s\n--- macro program\n%s",
			clip(want, 800), rm.ErrInspect, clip(rm.Stdout, 800), firstDiff(want, rm.Stdout), clip(srcM, 3000))
	}

	// (C) names introduced only by a macro are undefined after the call
	srcO, exp := Render(&c, asMacros, true, false)
	if len(exp) > 0 {
		ro, classO, ok, err := run("check", srcO, ctx, "leak-out")
		if err != nil || !ok {
			return err
		}
		got := fails(ro)
		bad := classO != sb.Rejected
		var wantD []string
		for _, e := range exp {
			w := fmt.Sprintf("%d: undefined local `%s`", e.Line, e.Name)
			wantD = append(wantD, w)
			found := false
			for _, d := range got {
				found = found || d == w
			}
			bad = bad || !found
		}
		// once a failure is recorded the checker no longer expands macros, which may add
		// follow-up diagnostics of other kinds; an undefined local elsewhere is a leak
		for _, d := range got {
			if strings.Contains(d, "undefined local") {
				ok := false
				for _, w := range wantD {
					ok = ok || d == w
				}
				bad = bad || !ok
			}
		}
		if bad {
			return fmt.Errorf("uses of macro-introduced names after the call: expected the diagnostics\n%s\n--- got (%s)\n%s\n--- source\n%s",
				strings.Join(wantD, "\n"), classO, strings.Join(got, "\n"), clip(srcO, 3000))
		}
		ctx.Label("probe-out:checked")
	}

	// (D) a macro body cannot read or assign a local of the calling scope without an unhygienic splice
	probeLive := false
	if c.ProbeIn != nil {
		for _, mi := range reachable(&c) {
			probeLive = probeLive || mi == c.ProbeIn.M
		}
	}
	if probeLive {
		srcI, _ := Render(&c, asMacros, false, true)
		ri, classI, ok, err := run("check", srcI, ctx, "leak-in")
		if err != nil || !ok {
			return err
		}
		got := fails(ri)
		bad, hit := classI != sb.Rejected, false
		for _, d := range got {
			// follow-up diagnostics of other kinds are tolerated (no macro is expanded after the first failure)
			if strings.HasSuffix(d, fmt.Sprintf(": undefined local `%s`", c.ProbeIn.Name)) {
				hit = true
			} else if strings.Contains(d, "undefined local") {
				bad = true
			}
		}
		bad = bad || !hit
		if bad {
			return fmt.Errorf("macro body uses `%s` which it does not declare (macro m%d, before statement %d): expected `undefined local` diagnostics for it, got (%s)\n%s\n--- source\n%s",
				c.ProbeIn.Name, c.ProbeIn.M, c.ProbeIn.Pos, classI, strings.Join(got, "\n"), clip(srcI, 3000))
		}
		ctx.Label("probe-in:checked")
	}

	shared, nested, operand := SharedLive(&c)
	if nested {
		ctx.Label("shape:macro-calls-macro")
	}
	if operand {
		ctx.Label("shape:macro-call-as-operand")
	}
	for _, s := range c.Main {
		if s.K == "def" || s.K == "clo" {
			ctx.Label("scope:" + s.K)
		}
	}
	if shared {
		ctx.NonTrivial(srcM)
	}
	return nil
}

func TestHygiene(t *testing.T) {
	pbt.Rule("hygiene", "1-3 generated macros (quoted bodies of 1-5 statements: := / = / += / println / do / if / while over the names x y tmp acc i j, parameters spliced as !{Macro.unhygienic(p)} or, for name-free arguments, !{p}; macro i may call macros < i) called as statements and as expression operands from top level, method bodies, closures, blocks and loops that define the same names before and after the call; oracles: stdout equals a hygienic reference evaluator; the program with every call replaced by the hand-written expansion (own locals renamed apart) behaves identically; a use of a macro-introduced name after the call and a use of an undeclared name inside a macro body are rejected with `undefined local`; non-trivial = some call site where the macro declares and reads a name that the calling scope has defined and reads again after the call; distinct by source")
	worker = sb.New("debug")
	defer worker.Close()
	pbt.Run(t, pbt.Prop[Case]{Name: "hygiene", Quick: 1600, Thorough: 12000, Gen: gen, Oracle: oracle,
		Known: []pbt.Known[Case]{{Key: kCapture, Match: func(c Case) bool { return Captures(&c) }}},
		Sample: func(c Case) any {
			e, _ := Render(&c, asExpanded, false, false)
			return map[string]any{"src": c.Src, "expanded": e}
		}})
}
