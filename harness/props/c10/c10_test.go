package c10

import (
	"fmt"
	"strings"
	"testing"
	"time"

	"pgregory.net/rapid"

	"verif/internal/mini"
	"verif/internal/mrun"
	"verif/internal/pbt"
	sb "verif/internal/sandbox"
	"verif/internal/vgen"
)

func TestMain(m *testing.M) { pbt.Main(m, "C10") }

// sizing configurations: the ELK_* variables are read at process start, so each
// configuration is its own worker process
var configs = [][]string{
	{}, // default: reference
	{"ELK_INIT_VALUE_STACK_SIZE=2400"},
	{"ELK_INIT_VALUE_STACK_SIZE=4000", "ELK_MAX_VALUE_STACK_SIZE=4000000"},
	{"ELK_INIT_VALUE_STACK_SIZE=1000000"},
	{"ELK_INIT_VALUE_STACK_SIZE=8000", "ELK_CALL_STACK_SIZE=300000"},
	{"ELK_DEFAULT_THREAD_POOL_SIZE=1", "ELK_DEFAULT_THREAD_POOL_QUEUE_SIZE=8", "ELK_SYMBOL_TABLE_INITIAL_SIZE=0"},
	{"ELK_DEFAULT_THREAD_POOL_SIZE=16", "ELK_DEFAULT_THREAD_POOL_QUEUE_SIZE=256", "ELK_SYMBOL_TABLE_INITIAL_SIZE=4096"},
	{"ELK_DEFAULT_THREAD_POOL_SIZE=2", "ELK_DEFAULT_THREAD_POOL_QUEUE_SIZE=16", "ELK_SYMBOL_TABLE_INITIAL_SIZE=1", "ELK_INIT_VALUE_STACK_SIZE=6000"},
}

var workers []*sb.Worker

type Case struct {
	Family string         `json:"family"`
	Prog   *mini.Program  `json:"prog,omitempty"`
	Src    string         `json:"src"`
	Events map[string]int `json:"events,omitempty"`
}

// asyncProgram: a deterministic fan of async tasks (the default thread pool and
// its queue are used); at most four tasks are pending at any time.
func asyncProgram(t *rapid.T) string {
	n := func(l string) int { return rapid.IntRange(1, 60).Draw(t, l) }
	var b strings.Builder
	b.WriteString("async def work(n: Int): Int\n  var s: Int = 0\n  for i in 1...n\n    s += i\n  end\n  s\nend\n")
	b.WriteString("async def combo(a: Int, b: Int): Int\n  x := await work(a)\n  y := await work(b)\n  x * 1000 + y\nend\n")
	k := 1 + vgen.Pick(t, 3, "nasync")
	for i := 0; i < k; i++ {
		if rapid.Bool().Draw(t, "combo") {
			fmt.Fprintf(&b, "p%d := combo(%d, %d)\n", i, n("a"), n("b"))
		} else {
			fmt.Fprintf(&b, "p%d := work(%d)\n", i, n("c"))
		}
	}
	// await in a generated order
	order := rapid.Permutation(seq(k)).Draw(t, "order")
	for _, i := range order {
		fmt.Fprintf(&b, "println(p%d.await_sync)\n", i)
	}
	return b.String()
}

// symbolProgram interns many fresh symbols (growth of the symbol table past its presize).
func symbolProgram(t *rapid.T) string {
	n := rapid.IntRange(10, 400).Draw(t, "nsym")
	tag := rapid.StringMatching("[a-z]{1,6}").Draw(t, "tag")
	return fmt.Sprintf("var acc: Int = 0\nvar last: Symbol = :none\nfor i in 1...%d\n  s := \"%s_${i}\".to_symbol\n  last = s\n  acc += s.to_string.length\nend\nprintln(acc)\nprintln(last.inspect)\nprintln((\"%s_1\".to_symbol == :%s_1).inspect)\n", n, tag, tag, tag)
}

// generatorProgram: generators whose bodies call a deep (non-tail) recursion between
// two yields and keep running totals in locals: the value stack is reallocated while a
// generator frame is live on it (a resume copies the generator's saved frame onto the
// thread's stack and saves it back at the next yield).
func generatorProgram(t *rapid.T) string {
	var b strings.Builder
	b.WriteString("def dive(n: Int): Int\n  a := n + 1\n  b := a * 2\n  return 0 if n <= 0\n  r := dive(n - 1)\n  ((r + b) - b) + 1\nend\n")
	ng := 1 + vgen.Pick(t, 2, "ngen")
	for g := 0; g < ng; g++ {
		k := rapid.IntRange(2, 5).Draw(t, "rounds")
		fmt.Fprintf(&b, "def *gen%d(seed: Int): Int\n  var total: Int = seed\n  var last: Int = 0\n", g)
		for i := 0; i < k; i++ {
			d := rapid.SampledFrom([]int{0, 3, 40, 150, 350, 500, 700}).Draw(t, "depth")
			switch vgen.Pick(t, 3, "shape") {
			case 0:
				fmt.Fprintf(&b, "  total += dive(%d) + %d\n  yield total\n", d, i+1)
			case 1:
				fmt.Fprintf(&b, "  last = dive(%d)\n  total = total * 2 + last\n  yield total + last\n", d)
			default:
				fmt.Fprintf(&b, "  f%d := ||: Int -> total + last\n  last = dive(%d) + f%d()\n  total += 1\n  yield f%d()\n", i, d, i, i)
			}
		}
		b.WriteString("  total + last\nend\n")
	}
	// consume: interleave next calls of the generators, then drain with for-in
	for g := 0; g < ng; g++ {
		fmt.Fprintf(&b, "g%d := gen%d(%d)\n", g, g, rapid.IntRange(0, 9).Draw(t, "seed"))
	}
	steps := rapid.IntRange(1, 4).Draw(t, "steps")
	for i := 0; i < steps; i++ {
		g := vgen.Pick(t, ng, "which")
		fmt.Fprintf(&b, "do\n  println(g%d.next)\ncatch :stop_iteration\n  println(\"stop\")\nend\n", g)
	}
	for g := 0; g < ng; g++ {
		fmt.Fprintf(&b, "for v in g%d\n  println(v)\nend\n", g)
	}
	return b.String()
}

func seq(n int) []int {
	s := make([]int, n)
	for i := range s {
		s[i] = i
	}
	return s
}

func gen(t *rapid.T) Case {
	switch vgen.Pick(t, 8, "family") {
	case 0:
		return Case{Family: "async", Src: asyncProgram(t)}
	case 1:
		return Case{Family: "symbols", Src: symbolProgram(t)}
	case 2:
		return Case{Family: "generator", Src: generatorProgram(t)}
	default:
		prof := mini.ClosureP
		if rapid.Bool().Draw(t, "control") {
			prof = mini.Control
			prof.Makers, prof.Deep, prof.ClosureBias = true, true, 3
			// C14's recorded findings are not what this check is about
			prof.NoExitFromCatchWithFinally, prof.NoCatchInsideHandler = true, true
		}
		c := mrun.Gen(t, prof)
		return Case{Family: "mini", Prog: c.Prog, Src: c.Src, Events: c.Events}
	}
}

type outcome struct {
	class, stdout, result, err string
	cap, init                  int
}

func run(w *sb.Worker, src string) (outcome, string) {
	res := w.Do(sb.Req{Mode: "run", Source: src}, 60*time.Second)
	class, detail := sb.Classify(res)
	o := outcome{class: class}
	if class == sb.OK || class == sb.ElkError {
		r := res.Resp.Runs[0]
		o.stdout, o.result, o.err = r.Stdout, r.Result, r.ErrInspect
		if v, ok := r.Extra["stack_cap"].(float64); ok {
			o.cap = int(v)
		}
		if v, ok := r.Extra["init_stack"].(float64); ok {
			o.init = int(v)
		}
	}
	return o, detail
}

func oracle(c Case, ctx *pbt.Ctx) error {
	ctx.Label("family:" + c.Family)
	ref, detail := run(workers[0], c.Src)
	switch ref.class {
	case sb.Timeout:
		pbt.Inconclusive()
		return nil
	case sb.Rejected:
		return fmt.Errorf("GENERATOR: program rejected by the checker: %s", detail)
	case sb.GoPanic, sb.Fatal:
		// a crash under the default configuration is C01's business; nothing to compare with
		ctx.Label("reference_crashed")
		return fmt.Errorf("interpreter crashed (%s) under the default configuration:\n%s", ref.class, mrun.Clip(detail, 1500))
	case sb.StackLimit:
		ctx.Label("reference_stack_limit")
		return nil
	}
	grew := false
	for i := 1; i < len(configs); i++ {
		got, detail := run(workers[i], c.Src)
		name := strings.Join(configs[i], " ")
		switch got.class {
		case sb.Timeout:
			pbt.Inconclusive()
			continue
		case sb.StackLimit:
			// the property exempts exhausted limits
			ctx.Label("config_stack_limit")
			continue
		case sb.GoPanic, sb.Fatal:
			return fmt.Errorf("with %s the interpreter crashed (%s); the default configuration finishes with %s:\n%s", name, got.class, ref.class, mrun.Clip(detail, 1500))
		}
		if got.stdout != ref.stdout {
			return fmt.Errorf("with %s the output differs from the default configuration\n--- default\n%s--- %s\n%s--- first difference: %s", name, mrun.Clip(ref.stdout, 1200), name, mrun.Clip(got.stdout, 1200), mrun.FirstDiff(ref.stdout, got.stdout))
		}
		if got.class != ref.class || got.err != ref.err || got.result != ref.result {
			return fmt.Errorf("with %s the outcome differs: default (%s, result %q, error %q), got (%s, result %q, error %q)", name, ref.class, ref.result, ref.err, got.class, got.result, got.err)
		}
		if got.init > 0 && got.cap > got.init {
			grew = true
			ctx.Label("stack_reallocated")
		}
	}
	switch c.Family {
	case "mini":
		// measured: the value stack was reallocated in some configuration while closures with shared variables were live
		if grew && (c.Events["upvalue_access"] > 0 || c.Events["deep_call"] > 0) {
			ctx.NonTrivial(c.Src)
		}
	default:
		ctx.NonTrivial(c.Src)
	}
	return nil
}

func minimize(c Case) Case {
	if c.Prog == nil {
		return c
	}
	m := mrun.Minimize(mrun.Make(c.Prog), func(mc mrun.Case, ctx *pbt.Ctx) error {
		err := oracle(Case{Family: "mini", Prog: mc.Prog, Src: mc.Src, Events: mc.Events}, ctx)
		if err != nil && !strings.Contains(err.Error(), "GENERATOR") {
			return fmt.Errorf("output differs: %w", err) // one reduction class
		}
		return nil
	})
	return Case{Family: "mini", Prog: m.Prog, Src: m.Src, Events: m.Events}
}

func TestSizing(t *testing.T) {
	pbt.Rule("sizing", "deterministic programs: MiniElk closure/control programs with maker methods and deep(n, f) calls (20..140 extra non-tail frames with three locals each, closures and open upvalues live across them), generators whose bodies call a 0..700-deep recursion between yields and keep running totals and closures over their locals (the stack is reallocated while a generator frame is live), fans of async tasks awaited in a generated order (default thread pool), programs interning 10..400 fresh symbols; each runs in 8 worker processes started with different ELK_INIT_VALUE_STACK_SIZE (2400 B .. 1 MB), ELK_MAX_VALUE_STACK_SIZE, ELK_CALL_STACK_SIZE, ELK_DEFAULT_THREAD_POOL_SIZE (1..16), ELK_DEFAULT_THREAD_POOL_QUEUE_SIZE (8..256), ELK_SYMBOL_TABLE_INITIAL_SIZE (0..4096); stdout, result and uncaught error must equal the run under the default configuration; a configuration that ends in a documented stack limit is skipped (counted). Non-trivial (mini family) = measured: the worker reports a value-stack capacity above the initial one in at least one configuration, and the program has closures accessing captured variables or deep calls; async/symbol programs always count; distinct by source")
	for _, env := range configs {
		workers = append(workers, sb.New("debug", env...))
	}
	defer func() {
		for _, w := range workers {
			w.Close()
		}
	}()
	pbt.Run(t, pbt.Prop[Case]{Name: "sizing", Quick: 320, Thorough: 8000, Gen: gen, Oracle: oracle, Minimize: minimize,
		Sample: func(c Case) any { return map[string]any{"family": c.Family, "src": c.Src} }})
}
