package c08

import (
	"fmt"
	"math/big"
	"sort"
	"strconv"
	"strings"
	"testing"
	"time"

	"pgregory.net/rapid"

	"verif/internal/mrun"
	"verif/internal/pbt"
	sb "verif/internal/sandbox"
	"verif/internal/vgen"
)

func TestMain(m *testing.M) { pbt.Main(m, "C08") }

var worker *sb.Worker

// Operand is a literal together with its exact static type.
type Operand struct {
	Lit string `json:"lit"` // Elk literal (parenthesised if negative)
	Typ string `json:"typ"` // Int Float String Char Int8 ... UInt64
}

type Tuple struct {
	Op string  `json:"op"`
	A  Operand `json:"a"`
	B  Operand `json:"b"`
}

type Case struct {
	Tuples []Tuple `json:"tuples"`
}

var intOps = []string{"+", "-", "*", "/", "%", "**", "<<", ">>", "&", "|", "^", "<", "<=", ">", ">=", "==", "!=", "<=>"}
var floatOps = []string{"+", "-", "*", "/", "%", "**", "<", "<=", ">", ">=", "==", "!=", "<=>"}
var fixedOps = []string{"+", "-", "*", "/", "%", "&", "|", "^", "<", "<=", ">", ">=", "==", "!=", "<<", ">>", "<<<", ">>>"}
var strOps = []string{"+", "==", "!=", "<", "<=", ">", ">=", "<=>"}
var fixedKinds = map[string]string{"i8": "Int8", "i16": "Int16", "i32": "Int32", "i64": "Int64", "u8": "UInt8", "u16": "UInt16", "u32": "UInt32", "u64": "UInt64"}

func intLit(b *big.Int) string {
	if b.Sign() < 0 {
		return "(" + b.String() + ")"
	}
	return b.String()
}

func smallInt(t *rapid.T, l string) *big.Int {
	return big.NewInt(int64(rapid.IntRange(-40, 70).Draw(t, l)))
}

var niceFloats = []float64{0, 1, -1, 0.5, -0.5, 1.5, 2.5, -2.5, 3, 7, 10, 0.1, 0.3, 100.25, -7.75, 1e6, 123456.789, 9007199254740992, 9007199254740993, 4294967296, 0.000125, 255, 256, 1e15, -1e15, 2, 8}

func floatLit(f float64) string {
	s := strconv.FormatFloat(f, 'f', -1, 64)
	if !strings.Contains(s, ".") {
		s += ".0"
	}
	if f < 0 {
		return "(" + s + ")"
	}
	return s
}

func strLit(s string) string {
	r := strings.NewReplacer("\\", "\\\\", "\"", "\\\"", "\n", "\\n", "$", "\\$", "#", "\\#")
	return "\"" + r.Replace(s) + "\""
}

func genTuple(t *rapid.T) Tuple {
	switch vgen.Pick(t, 8, "family") {
	case 0, 1, 2: // Int x Int
		op := intOps[vgen.Pick(t, len(intOps), "iop")]
		a, b := vgen.BigInt(t, "a"), vgen.BigInt(t, "b")
		switch op {
		case "**":
			a, b = smallInt(t, "base"), big.NewInt(int64(rapid.IntRange(0, 70).Draw(t, "exp")))
		case "<<", ">>":
			b = big.NewInt(int64(rapid.IntRange(-200, 200).Draw(t, "shift")))
		}
		return Tuple{op, Operand{intLit(a), "Int"}, Operand{intLit(b), "Int"}}
	case 3: // Float x Float
		op := floatOps[vgen.Pick(t, len(floatOps), "fop")]
		a, b := rapid.SampledFrom(niceFloats).Draw(t, "fa"), rapid.SampledFrom(niceFloats).Draw(t, "fb")
		if op == "**" {
			b = float64(rapid.IntRange(-3, 8).Draw(t, "fexp"))
		}
		return Tuple{op, Operand{floatLit(a), "Float"}, Operand{floatLit(b), "Float"}}
	case 4: // mixed Int / Float
		op := floatOps[vgen.Pick(t, len(floatOps), "mop")]
		i, f := smallInt(t, "mi"), rapid.SampledFrom(niceFloats).Draw(t, "mf")
		if op == "**" {
			f = float64(rapid.IntRange(0, 6).Draw(t, "mexp"))
		}
		if rapid.Bool().Draw(t, "intleft") {
			return Tuple{op, Operand{intLit(i), "Int"}, Operand{floatLit(f), "Float"}}
		}
		return Tuple{op, Operand{floatLit(f), "Float"}, Operand{intLit(i), "Int"}}
	case 5, 6: // fixed width, same kind (shifts: Int count)
		ks := []string{"i8", "i16", "i32", "i64", "u8", "u16", "u32", "u64"}
		k := ks[vgen.Pick(t, len(ks), "kind")]
		op := fixedOps[vgen.Pick(t, len(fixedOps), "xop")]
		a := vgen.FixedInt(t, k, "xa")
		lit := func(v *big.Int) string {
			if v.Sign() < 0 {
				return "(" + v.String() + k + ")"
			}
			return v.String() + k
		}
		if strings.Contains(op, "<<") || strings.Contains(op, ">>") {
			return Tuple{op, Operand{lit(a), fixedKinds[k]}, Operand{intLit(big.NewInt(int64(rapid.IntRange(-70, 70).Draw(t, "xs")))), "Int"}}
		}
		return Tuple{op, Operand{lit(a), fixedKinds[k]}, Operand{lit(vgen.FixedInt(t, k, "xb")), fixedKinds[k]}}
	default: // String
		op := strOps[vgen.Pick(t, len(strOps), "sop")]
		ss := []string{"", "a", "b", "ab", "A", "é", "zz", "a b", "日本", "$x", "10", "9"}
		return Tuple{op, Operand{strLit(rapid.SampledFrom(ss).Draw(t, "sa")), "String"}, Operand{strLit(rapid.SampledFrom(ss).Draw(t, "sb")), "String"}}
	}
}

func gen(t *rapid.T) Case {
	n := rapid.IntRange(4, 8).Draw(t, "ntuples")
	c := Case{}
	for i := 0; i < n; i++ {
		c.Tuples = append(c.Tuples, genTuple(t))
	}
	return c
}

var variants = []string{"literal", "typed_local", "union_local", "method_call", "closure_param", "generic_method"}

func union(typ string) string {
	switch typ {
	case "Int", "Float":
		return "Int | Float"
	case "String":
		return "String | Symbol"
	}
	return typ + " | Int" // fixed-width kinds
}

func expr(op, a, b string) string {
	e := "(" + a + " " + op + " " + b + ")"
	if op == "<=>" {
		e = "(" + e + " ?? 99)"
	}
	return e
}

// unit renders one (tuple, variant) as a self-contained do block; lines are tagged
// so that checker diagnostics can be mapped back to units.
func unit(id string, tp Tuple, variant string, tix int) []string {
	var body []string
	a, b := fmt.Sprintf("a%s", id), fmt.Sprintf("b%s", id)
	switch variant {
	case "literal":
		body = []string{fmt.Sprintf("println(\"%s \" + %s.inspect)", id, expr(tp.Op, tp.A.Lit, tp.B.Lit))}
	case "typed_local":
		body = []string{
			fmt.Sprintf("var %s: %s = %s", a, tp.A.Typ, tp.A.Lit), fmt.Sprintf("var %s: %s = %s", b, tp.B.Typ, tp.B.Lit),
			fmt.Sprintf("println(\"%s \" + %s.inspect)", id, expr(tp.Op, a, b))}
	case "union_local":
		body = []string{
			fmt.Sprintf("var %s: %s = %s", a, union(tp.A.Typ), tp.A.Lit), fmt.Sprintf("var %s: %s = %s", b, union(tp.B.Typ), tp.B.Lit),
			fmt.Sprintf("println(\"%s \" + %s.inspect)", id, expr(tp.Op, a, b))}
	case "method_call":
		e := fmt.Sprintf("%s.%s(%s)", a, tp.Op, b)
		if tp.Op == "<=>" {
			e = "(" + e + " ?? 99)"
		}
		if tp.Op == "!=" { // != is not a method
			e = fmt.Sprintf("(!%s.==(%s))", a, b)
		}
		body = []string{
			fmt.Sprintf("var %s: %s = %s", a, tp.A.Typ, tp.A.Lit), fmt.Sprintf("var %s: %s = %s", b, tp.B.Typ, tp.B.Lit),
			fmt.Sprintf("println(\"%s \" + %s.inspect)", id, e)}
	case "closure_param":
		body = []string{
			fmt.Sprintf("f%s := |x: %s, y: %s| -> %s.inspect", id, tp.A.Typ, tp.B.Typ, expr(tp.Op, "x", "y")),
			fmt.Sprintf("println(\"%s \" + f%s(%s, %s))", id, id, tp.A.Lit, tp.B.Lit)}
	case "generic_method":
		// the method is emitted at top level by program(); here only the call
		body = []string{fmt.Sprintf("println(\"%s \" + g%d(%s, %s))", id, tix, tp.A.Lit, tp.B.Lit)}
	}
	lines := []string{"do"}
	for _, l := range body {
		lines = append(lines, "  "+l)
	}
	for _, cls := range []string{"ZeroDivisionError", "OutOfRangeError", "TypeError"} {
		lines = append(lines, "catch Std::"+cls+"() as e", fmt.Sprintf("  println(\"%s ERR %s\")", id, cls))
	}
	lines = append(lines, "catch e", fmt.Sprintf("  println(\"%s ERR other\")", id), "end")
	return lines
}

type unitRef struct {
	tuple   int
	variant string
	from    int // first line (1-based), to = last line
	to      int
}

func program(c Case, skip map[string]bool) (string, []unitRef) {
	var lines []string
	var refs []unitRef
	for i, tp := range c.Tuples {
		id := fmt.Sprintf("U%d_generic_method", i)
		if !skip[id] {
			from := len(lines) + 1
			lines = append(lines, fmt.Sprintf("def g%d[A < %s, B < %s](x: A, y: B): String then %s.inspect", i, tp.A.Typ, tp.B.Typ, expr(tp.Op, "x", "y")))
			refs = append(refs, unitRef{i, "generic_method", from, len(lines)})
		}
	}
	for i, tp := range c.Tuples {
		for _, v := range variants {
			id := fmt.Sprintf("U%d_%s", i, v)
			if skip[id] {
				continue
			}
			from := len(lines) + 1
			lines = append(lines, unit(id, tp, v, i)...)
			refs = append(refs, unitRef{i, v, from, len(lines)})
		}
	}
	return strings.Join(lines, "\n") + "\n", refs
}

func oracle(c Case, ctx *pbt.Ctx) error {
	skip := map[string]bool{}
	var run sb.Run
	var src string
	for attempt := 0; ; attempt++ {
		var refs []unitRef
		src, refs = program(c, skip)
		res := worker.Do(sb.Req{Mode: "run", Source: src}, 60*time.Second)
		class, detail := sb.Classify(res)
		switch class {
		case sb.Timeout:
			pbt.Inconclusive()
			return nil
		case sb.GoPanic, sb.Fatal:
			return fmt.Errorf("interpreter crashed (%s):\n%s\n--- program\n%s", class, mrun.Clip(detail, 1500), mrun.Clip(src, 3000))
		case sb.Rejected:
			// the type checker is the arbiter of which variants exist: drop the units it rejects and retry
			dropped := 0
			for _, d := range res.Resp.Runs[0].Diags {
				if d.Severity != "FAIL" {
					continue
				}
				for _, r := range refs {
					if d.Line >= r.from && d.Line <= r.to {
						id := fmt.Sprintf("U%d_%s", r.tuple, r.variant)
						if !skip[id] {
							skip[id] = true
							dropped++
							ctx.Label("rejected:" + r.variant)
						}
					}
				}
			}
			if dropped == 0 || attempt > 6 {
				return fmt.Errorf("GENERATOR: cannot attribute the checker's diagnostics to units: %v\n%s", res.Resp.Runs[0].Diags, mrun.Clip(src, 3000))
			}
			continue
		}
		run = res.Resp.Runs[0]
		if class == sb.ElkError {
			return fmt.Errorf("an error escaped the catch-all clause: %s\n%s", run.ErrInspect, mrun.Clip(src, 3000))
		}
		break
	}
	// collect results per tuple
	got := map[int]map[string]string{}
	for _, line := range strings.Split(run.Stdout, "\n") {
		if !strings.HasPrefix(line, "U") {
			continue
		}
		sp := strings.IndexByte(line, ' ')
		if sp < 0 {
			continue
		}
		id, val := line[:sp], line[sp+1:]
		us := strings.IndexByte(id, '_')
		ti, _ := strconv.Atoi(id[1:us])
		if got[ti] == nil {
			got[ti] = map[string]string{}
		}
		got[ti][id[us+1:]] = val
	}
	for i, tp := range c.Tuples {
		rs := got[i]
		var vs []string
		for v := range rs {
			vs = append(vs, v)
		}
		sort.Strings(vs)
		ctx.Label(fmt.Sprintf("variants_executed:%d", len(vs)))
		for _, v := range vs[min(1, len(vs)):] {
			if rs[v] != rs[vs[0]] {
				return fmt.Errorf("%s %s %s: variant %s gives %q but variant %s gives %q\n--- program\n%s", tp.A.Lit, tp.Op, tp.B.Lit, vs[0], rs[vs[0]], v, rs[v], mrun.Clip(src, 4000))
			}
		}
		if len(vs) >= 2 {
			ctx.Label("family:" + tp.A.Typ + tp.Op + tp.B.Typ)
		}
	}
	n := 0
	for _, rs := range got {
		if len(rs) >= 2 {
			n++
		}
	}
	if n > 0 {
		var key []string
		for _, tp := range c.Tuples {
			key = append(key, tp.A.Lit+tp.Op+tp.B.Lit)
		}
		ctx.NonTrivial(strings.Join(key, ";"))
	}
	return nil
}

func TestPaths(t *testing.T) {
	pbt.Rule("paths", "batches of 4..8 (operator, a, b) tuples over Int (boundary-biased, both sides of 2^63; ** with exponent 0..70, shifts by -200..200), Float, mixed Int/Float, every fixed-width integer kind (same-kind operands, Int shift counts) and String; each tuple is compiled in up to six variants that make the compiler choose different evaluation paths: literal operands (constant folding), exactly typed locals (type-specialised opcode / statically bound call), union-typed locals (generic opcode / dynamic dispatch), explicit method call a.op(b), closure parameters, a generic method with bounded type parameters; the type checker is the arbiter of which variants exist (rejected units are dropped and counted); every accepted variant prints inspect of the result or the class of the raised error, and all variants of a tuple must print the same. Non-trivial = a batch in which at least one tuple executed through >= 2 variants; distinct by the tuple list")
	worker = sb.New("debug")
	defer worker.Close()
	pbt.Run(t, pbt.Prop[Case]{Name: "paths", Quick: 640, Thorough: 24000, Gen: gen, Oracle: oracle})
}

// --- statically bound calls vs run-time dispatch ---------------------------------

// Hier is a generated class tree with instance-level and class-level (singleton) methods.
type Hier struct {
	Parent []int    `json:"parent"` // Parent[i] = index of the superclass of class i (-1 = none), always < i
	Inst   [][]bool `json:"inst"`   // Inst[i][k]: class i defines instance method m<k>
	Sing   [][]bool `json:"sing"`   // Sing[i][k]: class i defines class-level method m<k>
	Relay  []int    `json:"relay"`  // Relay[i] = k >= 0: class i defines r (instance and class level) calling self.m<k>; -1 = none
	Sites  []Site   `json:"sites"`
}

type Site struct {
	Static int  `json:"static"` // static type of the receiver variable
	Run    int  `json:"run"`    // run-time class (a descendant of Static, or Static itself)
	Sing   bool `json:"sing"`   // class-level call through a `&Static` typed variable
	M      int  `json:"m"`      // method m<M>, or -1 for the relay method r
}

const nMeth = 3

func genHier(t *rapid.T) Hier {
	n := rapid.IntRange(2, 5).Draw(t, "nclasses")
	h := Hier{}
	for i := 0; i < n; i++ {
		p := -1
		if i > 0 {
			p = rapid.IntRange(0, i-1).Draw(t, "parent")
			if vgen.Pick(t, 4, "root") == 0 && i > 1 {
				p = 0
			}
		}
		h.Parent = append(h.Parent, p)
		inst, sing := make([]bool, nMeth), make([]bool, nMeth)
		for k := 0; k < nMeth; k++ {
			inst[k] = i == 0 || vgen.Pick(t, 2, "oi") == 0 // the root defines everything
			sing[k] = i == 0 || vgen.Pick(t, 2, "os") == 0
		}
		h.Inst, h.Sing = append(h.Inst, inst), append(h.Sing, sing)
		r := -1
		if i == 0 || vgen.Pick(t, 3, "relay") == 0 {
			r = vgen.Pick(t, nMeth, "relayk")
		}
		h.Relay = append(h.Relay, r)
	}
	desc := func(s int) []int { // s and its descendants
		var out []int
		for c := 0; c < n; c++ {
			for a := c; a >= 0; a = h.Parent[a] {
				if a == s {
					out = append(out, c)
					break
				}
			}
		}
		return out
	}
	for i := rapid.IntRange(4, 14).Draw(t, "nsites"); i > 0; i-- {
		s := rapid.IntRange(0, n-1).Draw(t, "static")
		ds := desc(s)
		h.Sites = append(h.Sites, Site{s, ds[vgen.Pick(t, len(ds), "run")], rapid.Bool().Draw(t, "sing"), vgen.Pick(t, nMeth+1, "m") - 1})
	}
	return h
}

func (h Hier) source() string {
	var b strings.Builder
	for i, p := range h.Parent {
		if p < 0 {
			fmt.Fprintf(&b, "class K%d\n", i)
		} else {
			fmt.Fprintf(&b, "class K%d < K%d\n", i, p)
		}
		for k := 0; k < nMeth; k++ {
			if h.Inst[i][k] {
				fmt.Fprintf(&b, "  def m%d: String then \"K%d:m%d\"\n", k, i, k)
			}
		}
		if h.Relay[i] >= 0 {
			fmt.Fprintf(&b, "  def r: String then \"K%d:r(\" + self.m%d + \")\"\n", i, h.Relay[i])
		}
		b.WriteString("  singleton\n")
		for k := 0; k < nMeth; k++ {
			if h.Sing[i][k] {
				fmt.Fprintf(&b, "    def m%d: String then \"K%d.m%d\"\n", k, i, k)
			}
		}
		if h.Relay[i] >= 0 {
			fmt.Fprintf(&b, "    def r: String then \"K%d.r(\" + self.m%d + \")\"\n", i, h.Relay[i])
		}
		b.WriteString("  end\nend\n")
	}
	for j, s := range h.Sites {
		name := "r"
		if s.M >= 0 {
			name = fmt.Sprintf("m%d", s.M)
		}
		if s.Sing {
			fmt.Fprintf(&b, "var v%d: &K%d = K%d\nprintln(\"S%d \" + v%d.%s)\n", j, s.Static, s.Run, j, j, name)
		} else {
			fmt.Fprintf(&b, "var v%d: K%d = K%d()\nprintln(\"S%d \" + v%d.%s)\n", j, s.Static, s.Run, j, j, name)
		}
	}
	return b.String()
}

// expect computes what run-time dispatch prescribes: the most derived definition on the chain of the run-time class.
func (h Hier) expect() string {
	find := func(c int, sing bool, k int) int {
		for a := c; a >= 0; a = h.Parent[a] {
			if (sing && h.Sing[a][k]) || (!sing && h.Inst[a][k]) {
				return a
			}
		}
		return 0
	}
	var b strings.Builder
	for j, s := range h.Sites {
		sep := ":"
		if s.Sing {
			sep = "."
		}
		if s.M >= 0 {
			fmt.Fprintf(&b, "S%d K%d%sm%d\n", j, find(s.Run, s.Sing, s.M), sep, s.M)
			continue
		}
		rc := s.Run
		for h.Relay[rc] < 0 {
			rc = h.Parent[rc]
		}
		k := h.Relay[rc]
		fmt.Fprintf(&b, "S%d K%d%sr(K%d%sm%d)\n", j, rc, sep, find(s.Run, s.Sing, k), sep, k)
	}
	return b.String()
}

func dispatchOracle(h Hier, ctx *pbt.Ctx) error {
	src, want := h.source(), h.expect()
	res := worker.Do(sb.Req{Mode: "run", Source: src}, 60*time.Second)
	class, detail := sb.Classify(res)
	switch class {
	case sb.Timeout:
		pbt.Inconclusive()
		return nil
	case sb.Rejected:
		return fmt.Errorf("GENERATOR: class program rejected by the checker: %v\n%s", res.Resp.Runs[0].Diags, mrun.Clip(src, 3000))
	case sb.GoPanic, sb.Fatal, sb.ElkError:
		return fmt.Errorf("class program failed (%s): %s\n%s", class, mrun.Clip(detail, 1200), mrun.Clip(src, 3000))
	}
	got := res.Resp.Runs[0].Stdout
	if got != want {
		return fmt.Errorf("a call gives another result than run-time dispatch on the receiver's class prescribes: %s\n--- want\n%s--- got\n%s--- program\n%s", mrun.FirstDiff(want, got), want, got, mrun.Clip(src, 4000))
	}
	sub, sing, relay := false, false, false
	for _, s := range h.Sites {
		sub = sub || s.Run != s.Static
		sing = sing || s.Sing
		relay = relay || s.M < 0
	}
	if sing {
		ctx.Label("has_singleton_site")
	}
	if relay {
		ctx.Label("has_relay_site")
	}
	if sub {
		ctx.NonTrivial(src)
	}
	return nil
}

func TestDispatch(t *testing.T) {
	pbt.Rule("dispatch", "generated class trees (2..5 classes, single inheritance) in which every class defines or inherits three instance methods and three class-level (singleton) methods returning a tag, plus relay methods calling self.m<k>; 4..14 call sites through variables whose static type is a class (or &Class for class-level calls) and whose run-time value is that class or a descendant; the printed tag must be the most derived definition on the run-time class's chain, i.e. what dispatch at run time prescribes, wherever the compiler bound the call statically. Non-trivial = at least one site whose run-time class differs from its static type; distinct by source")
	worker = sb.New("debug")
	defer worker.Close()
	pbt.Run(t, pbt.Prop[Hier]{Name: "dispatch", Quick: 1200, Thorough: 40000, Gen: genHier, Oracle: dispatchOracle,
		Sample: func(h Hier) any { return map[string]any{"src": h.source(), "want": h.expect()} }})
}
