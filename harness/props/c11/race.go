package c11

import (
	"os"
	"path/filepath"
	"regexp"
	"sort"
	"strings"
)

// The race worker runs with GORACE=log_path=<dir>/race: the race detector
// appends every report to <dir>/race.<pid> and the process keeps running, so
// all races of a run are seen (with halt_on_error only the first one would
// be, and that one is nearly always one of the recorded known findings).

type raceLog struct {
	prefix string
	off    map[string]int64
}

func newRaceLog(dir string) *raceLog {
	_ = os.MkdirAll(dir, 0o755)
	return &raceLog{prefix: filepath.Join(dir, "race"), off: map[string]int64{}}
}

// drain returns the reports written since the last call.
func (l *raceLog) drain() []string {
	files, _ := filepath.Glob(l.prefix + ".*")
	sort.Strings(files)
	var out []string
	for _, f := range files {
		b, err := os.ReadFile(f)
		if err != nil {
			continue
		}
		o := l.off[f]
		if int64(len(b)) <= o {
			continue
		}
		l.off[f] = int64(len(b))
		out = append(out, splitReports(string(b[o:]))...)
	}
	return out
}

func splitReports(s string) []string {
	var out []string
	for _, part := range strings.Split(s, "==================") {
		if strings.Contains(part, "WARNING: DATA RACE") {
			out = append(out, strings.TrimSpace(part))
		}
	}
	return out
}

var accessHead = regexp.MustCompile(`^(Read|Write|Previous read|Previous write|Atomic read|Atomic write|Previous atomic read|Previous atomic write) (at|of) `)

// sites returns, for each of the two accesses of a report, "kind function" of
// the innermost frame outside the Go runtime (package path shortened).
func sites(report string) []string {
	var out []string
	lines := strings.Split(report, "\n")
	for i := 0; i < len(lines); i++ {
		m := accessHead.FindStringSubmatch(lines[i])
		if m == nil {
			continue
		}
		kind := "read"
		if strings.Contains(strings.ToLower(m[1]), "write") {
			kind = "write"
		}
		fn := "?"
		for j := i + 1; j < len(lines) && strings.HasPrefix(lines[j], "  "); j++ {
			l := strings.TrimSpace(lines[j])
			if strings.HasPrefix(lines[j], "      ") || l == "" {
				continue
			}
			l = strings.TrimSuffix(l, "()")
			if k := strings.LastIndexByte(l, '/'); k >= 0 {
				l = l[k+1:]
			}
			if strings.HasPrefix(l, "runtime.") || strings.HasPrefix(l, "sync.") || strings.HasPrefix(l, "sync/atomic.") {
				continue
			}
			if fn == "?" {
				fn = l
				if strings.HasPrefix(l, "bitfield.") {
					continue // a generic helper: the caller says whose flags they are
				}
				break
			}
			fn += " < " + l
			break
		}
		out = append(out, kind+" "+fn)
	}
	return out
}

// Known findings (design level): structures of the shared type environment
// that the checker of one method body mutates in place while the checkers of
// other bodies read (or mutate) them.  A report belongs to a family if all its
// write accesses are the family's writer; anything else is a violation.
type raceFamily struct {
	key   string
	write *regexp.Regexp // the unsynchronised in-place write that defines the family
}

var raceFamilies = []raceFamily{
	{
		// types.Method objects: Flags (SetHasDefer after the body check), Body (compiled
		// function) and CalledMethods are assigned by the checker of the method's own body
		// (checkMethod / checkMethodDefinition) while checkers/compilers of callers read the
		// same object (RequiredParamCount, IsPlaceholder, Method.Copy, compileOptimisedCallMethod, ...)
		key:   "race-method-object-mutated-during-body-checks",
		write: regexp.MustCompile(`^write (bitfield\.\(\*BitField16\)\.\w+ < types\.\(\*Method\)\.SetFlag|checker\.\(\*Checker\)\.checkMethodDefinition)$`),
	},
	{
		// generic types / methods of generic namespaces: type arguments are normalised and
		// type parameters substituted in place in objects reachable from the shared environment
		// (normaliseGeneric, replaceTypeParametersInMethod(Copy): method.Overloads[i] of the original);
		// freshly built Generic/TypeArguments objects are published through those writes
		key:   "race-generic-types-substituted-in-place",
		write: regexp.MustCompile(`^write (checker\.\(\*Checker\)\.(replaceTypeParametersIn\w+|normaliseGeneric)(-range\d+)?|types\.New(Generic|TypeArguments|TypeArgument))$`),
	},
}

// classifyRace returns the key of the known family a report belongs to, or "".
func classifyRace(report string) string {
	ss := sites(report)
	if len(ss) < 2 {
		return ""
	}
	for _, f := range raceFamilies {
		writes, ok := 0, true
		for _, s := range ss {
			if strings.HasPrefix(s, "write ") {
				writes++
				if !f.write.MatchString(s) {
					ok = false
				}
			}
		}
		// every write access of the report is the family's in-place write; the other
		// access (if it is a read) may be any reader of the mutated object
		if ok && writes > 0 {
			return f.key
		}
	}
	return ""
}
