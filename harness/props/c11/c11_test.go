package c11

import (
	"fmt"
	"os"
	"path/filepath"
	"sort"
	"strings"
	"sync"
	"testing"
	"time"

	"pgregory.net/rapid"

	"verif/internal/corpus"
	"verif/internal/pbt"
	sb "verif/internal/sandbox"
	"verif/internal/vgen"
)

func TestMain(m *testing.M) { pbt.Main(m, "C11") }

// Sched is one point of the schedule space: degree of parallelism, seed of the
// H1 perturbation (start order permutation + yields/sleeps around every body
// check; 0 = hook off) and GOMAXPROCS of the worker process (0 = default).
type Sched struct {
	Limit int   `json:"limit"`
	Seed  int64 `json:"seed"`
	Procs int   `json:"procs,omitempty"`
}

type Case struct {
	Kind     string   `json:"kind"` // gen | corpus
	Src      string   `json:"src"`
	Bodies   int      `json:"bodies"`
	Features []string `json:"features,omitempty"`
	Scheds   []Sched  `json:"scheds"`
	Race     bool     `json:"race,omitempty"` // run the schedules in the -race worker (no reference comparison of timing-sensitive things is lost: the same oracle applies)
}

// ---- workers -----------------------------------------------------------------

var (
	wmu     sync.Mutex
	workers = map[string]*sb.Worker{}
	rlog    *raceLog
)

func worker(flavour string, procs int) *sb.Worker {
	wmu.Lock()
	defer wmu.Unlock()
	key := fmt.Sprintf("%s/%d", flavour, procs)
	if w := workers[key]; w != nil {
		return w
	}
	var env []string
	if procs > 0 {
		env = append(env, fmt.Sprintf("GOMAXPROCS=%d", procs))
	}
	if flavour == "race" {
		if rlog == nil {
			dir := os.Getenv("VERIF_TMP")
			if dir == "" {
				dir = os.TempDir()
			}
			rlog = newRaceLog(filepath.Join(dir, fmt.Sprintf("c11-race-%d", os.Getpid())))
		}
		// every report is appended to <log_path>.<pid>; a race must not kill the
		// worker, otherwise only the first (usually known) race of a run is seen
		env = append(env, "GORACE=log_path="+rlog.prefix+" exitcode=66")
	}
	w := sb.New(flavour, env...)
	workers[key] = w
	return w
}

func closeWorkers() {
	wmu.Lock()
	defer wmu.Unlock()
	for k, w := range workers {
		w.Close()
		delete(workers, k)
	}
}

// ---- observation ---------------------------------------------------------------

// obs is what the property quantifies over: the diagnostics as a sorted
// multiset and, for accepted programs, the behaviour of the compiled program.
type obs struct {
	class  string
	diags  []string
	run    string
	detail string
}

func observe(res sb.Result) obs {
	class, detail := sb.Classify(res)
	o := obs{class: class, detail: detail}
	if class == sb.Timeout || class == sb.Fatal {
		return o
	}
	r := res.Resp.Runs[0]
	for _, d := range r.Diags {
		o.diags = append(o.diags, fmt.Sprintf("%s %s:%d:%d %s", d.Severity, d.File, d.Line, d.Col, d.Msg))
	}
	sort.Strings(o.diags)
	if class == sb.GoPanic {
		o.run = "go panic: " + firstLine(r.Panic)
		return o
	}
	if r.Ran {
		o.run = fmt.Sprintf("stdout=%q result=%s err=%s", r.Stdout, r.Result, r.ErrInspect)
	}
	return o
}

func firstLine(s string) string {
	if i := strings.IndexByte(s, '\n'); i >= 0 {
		return s[:i]
	}
	return s
}

func clip(s string, n int) string {
	if len(s) > n {
		return s[:n] + "…"
	}
	return s
}

// diffMultiset renders the difference of two sorted multisets.
func diffMultiset(ref, got []string) string {
	cnt := map[string]int{}
	for _, d := range ref {
		cnt[d]++
	}
	for _, d := range got {
		cnt[d]--
	}
	var keys []string
	for k, n := range cnt {
		if n != 0 {
			keys = append(keys, k)
		}
	}
	sort.Strings(keys)
	var b strings.Builder
	for i, k := range keys {
		if i >= 8 {
			fmt.Fprintf(&b, "  … %d more\n", len(keys)-i)
			break
		}
		if cnt[k] > 0 {
			fmt.Fprintf(&b, "  only in the sequential reference (x%d): %s\n", cnt[k], clip(k, 400))
		} else {
			fmt.Fprintf(&b, "  only under the schedule (x%d): %s\n", -cnt[k], clip(k, 400))
		}
	}
	return b.String()
}

func sameDiags(a, b []string) bool {
	if len(a) != len(b) {
		return false
	}
	for i := range a {
		if a[i] != b[i] {
			return false
		}
	}
	return true
}

func (s Sched) String() string {
	p := "default"
	if s.Procs > 0 {
		p = fmt.Sprint(s.Procs)
	}
	return fmt.Sprintf("MethodCheckConcurrencyLimit=%d schedule seed=%d GOMAXPROCS=%s", s.Limit, s.Seed, p)
}

const runTimeout = 20 * time.Second

func do(w *sb.Worker, src string, s Sched) sb.Result {
	return doMode(w, "run", src, s)
}

// doMode: "run" = check, compile, execute; "check" = check and compile only
// (Checker.CheckSource; what the -race worker can do: the race build enables
// checkptr, which stops the VM's pointer arithmetic with a fatal error).
func doMode(w *sb.Worker, mode, src string, s Sched) sb.Result {
	return w.Do(sb.Req{Mode: mode, Name: "<main>", Source: src, Cfg: sb.Cfg{ConcLimit: s.Limit, SchedSeed: s.Seed}}, runTimeout)
}

// raceVerdict looks at the race detector reports produced since the last call
// (log file of the race worker, plus the stderr of a worker that died).
func raceVerdict(ctx *pbt.Ctx, what string, res sb.Result) error {
	var reports []string
	if rlog != nil {
		reports = rlog.drain()
	}
	if res.Died || res.TimedOut {
		reports = append(reports, splitReports(res.Stderr)...)
	}
	for _, r := range reports {
		if key := classifyRace(r); key != "" && pbt.KnownActive(key) {
			ctx.Excluded(key)
			continue
		}
		// the detector reports a race once per process: restart the race worker so that a
		// re-execution of the case (shrinking, replay) can observe it again
		closeWorkers()
		return fmt.Errorf("data race while type checking under %s (race detector report follows; races are schedule dependent and need not reproduce on replay; access sites %v):\n%s", what, sites(r), clip(r, 7000))
	}
	return nil
}

// Deviations and races are schedule dependent: a case on which a violation was
// observed once keeps failing in this process with the first message attached
// (otherwise rapid's confirmation run would turn a finding that does not
// reproduce into "flaky test" and the evidence would be lost).
var (
	stickyMu    sync.Mutex
	stickyRaces = map[string]string{}
)

func stickyKey(c Case) string { return fmt.Sprintf("%v|%v|%s", c.Race, c.Scheds, c.Src) }

func oracle(c Case, ctx *pbt.Ctx) error {
	err := oracle1(c, ctx)
	if ctx.Replay {
		return err
	}
	stickyMu.Lock()
	defer stickyMu.Unlock()
	if err != nil {
		if _, ok := stickyRaces[stickyKey(c)]; !ok {
			stickyRaces[stickyKey(c)] = err.Error()
		}
		return err
	}
	if msg, ok := stickyRaces[stickyKey(c)]; ok {
		return fmt.Errorf("(not reproduced in this re-execution of the same case; recorded when first observed) %s", msg)
	}
	return nil
}

func oracle1(c Case, ctx *pbt.Ctx) error {
	flavour, mode := "", "run"
	if c.Race {
		flavour, mode = "race", "check"
	}
	seqSched := Sched{Limit: 1, Seed: 0}
	if ctx.Replay && c.Race {
		// the race detector reports a given race once per process: replay in a fresh worker
		closeWorkers()
	}
	refW := worker(flavour, 0)
	if c.Race && rlog != nil {
		rlog.drain() // reports that belong to earlier cases (e.g. lingering goroutines)
	}
	refRes := doMode(refW, mode, c.Src, seqSched)
	ref := observe(refRes)
	if os.Getenv("VERIF_C11_DEBUG") != "" {
		fmt.Printf("DEBUG ref class=%s diags=%q run=%s detail=%s\n", ref.class, ref.diags, clip(ref.run, 300), clip(ref.detail, 600))
	}
	if c.Race {
		if err := raceVerdict(ctx, seqSched.String(), refRes); err != nil {
			return err
		}
	}
	ctx.Label("kind:" + c.Kind)
	ctx.Label("ref:" + ref.class)
	if c.Race && refRes.Died && strings.Contains(refRes.Stderr, "checkptr:") {
		// the program makes the checker execute VM code (a user macro): not possible in the -race build
		ctx.Label("race_worker_cannot_run_vm_code(checkptr)")
		pbt.Inconclusive()
		return nil
	}
	switch ref.class {
	case sb.Timeout:
		pbt.Inconclusive()
		return nil
	case sb.Fatal:
		// a crash of the sequential reference is not a statement about schedules
		// (C01/C03 own crashes) unless the race detector killed the worker
		ctx.Label("ref_crashed")
		return nil
	}
	if len(ref.diags) > 0 {
		ctx.Label("ref_has_diagnostics")
	}
	for _, f := range c.Features {
		ctx.Label("feature:" + f)
	}
	ctx.Label(fmt.Sprintf("bodies:%s", bucket(c.Bodies)))

	nontrivial := false
	for _, s := range c.Scheds {
		w := worker(flavour, s.Procs)
		res := doMode(w, mode, c.Src, s)
		if c.Race {
			if err := raceVerdict(ctx, s.String(), res); err != nil {
				return err
			}
		}
		got := observe(res)
		if got.class == sb.Timeout {
			pbt.Inconclusive()
			ctx.Label("schedule_timeout")
			continue
		}
		if got.class == sb.Fatal {
			return fmt.Errorf("worker died under %s although the sequential reference (%s) did not:\n%s", s, ref.class, clip(got.detail, 3000))
		}
		bad := ""
		if !sameDiags(ref.diags, got.diags) {
			bad = fmt.Sprintf("diagnostics differ from the sequential reference (limit=1, hook off) under %s: reference %d diagnostics, schedule %d\n%s", s, len(ref.diags), len(got.diags), diffMultiset(ref.diags, got.diags))
		} else if ref.class != got.class {
			bad = fmt.Sprintf("outcome class differs under %s: reference %s (%s), schedule %s (%s)", s, ref.class, clip(ref.detail, 300), got.class, clip(got.detail, 600))
		} else if ref.run != got.run {
			bad = fmt.Sprintf("behaviour of the compiled program differs under %s:\n  reference: %s\n  schedule:  %s", s, clip(ref.run, 1200), clip(got.run, 1200))
		}
		if bad != "" {
			// is the sequential reference itself stable?  (a program whose output is
			// nondeterministic by itself says nothing about schedules)
			stable := true
			for i := 0; i < 2; i++ {
				again := observe(doMode(refW, mode, c.Src, seqSched))
				if again.class != ref.class || !sameDiags(again.diags, ref.diags) || again.run != ref.run {
					stable = false
				}
			}
			if !stable {
				ctx.Label("unstable_reference")
				pbt.Inconclusive()
				return nil
			}
			rep := observe(doMode(w, mode, c.Src, s))
			note := "the same schedule run again gives the deviating result again"
			if rep.class == ref.class && sameDiags(rep.diags, ref.diags) && rep.run == ref.run {
				note = "the same schedule run again agrees with the reference (real goroutine interleaving is only biased by the seed)"
			}
			return fmt.Errorf("%s(%s)", bad, note)
		}
		if c.Bodies >= 3 && (s.Limit > 1 || s.Seed != 0) {
			nontrivial = true
		}
		ctx.Label(fmt.Sprintf("limit:%d", s.Limit))
		if s.Procs > 0 {
			ctx.Label(fmt.Sprintf("procs:%d", s.Procs))
		}
	}
	if c.Race {
		ctx.Label("race_detector_run")
	}
	if nontrivial {
		ctx.NonTrivial(fmt.Sprintf("%v|%v|%s", c.Race, c.Scheds, c.Src))
	}
	return nil
}

func bucket(n int) string {
	switch {
	case n < 3:
		return "<3"
	case n <= 5:
		return "3-5"
	case n <= 10:
		return "6-10"
	case n <= 20:
		return "11-20"
	default:
		return "21+"
	}
}

// ---- schedule generation ---------------------------------------------------------

func genScheds(t *rapid.T, n int, race bool) []Sched {
	var out []Sched
	limits := []int{2, 3, 100}
	for i := 0; i < n; i++ {
		s := Sched{Seed: rapid.Int64Range(1, 1<<40).Draw(t, "sched_seed")}
		switch k := vgen.Pick(t, 10, "limit"); {
		case k == 0:
			s.Limit = 1 // sequential, but in a permuted order: pure order dependence
		case k <= 2:
			s.Limit = 2
		case k <= 4:
			s.Limit = 3
		default:
			s.Limit = 100
		}
		_ = limits
		if !race {
			switch vgen.Pick(t, 6, "procs") {
			case 0:
				s.Procs = 1
			case 1, 2:
				s.Procs = 4
			}
		} else if s.Limit == 1 {
			s.Limit = 100 // the race detector sees nothing in a sequential run
		}
		if i == 0 && vgen.Pick(t, 4, "hook_off") == 0 {
			s.Seed = 0 // the unperturbed Foreach at full parallelism (what users run)
			s.Limit = 100
		}
		out = append(out, s)
	}
	return out
}


// ---- properties ------------------------------------------------------------------

const ruleGen = "generated programs with 3-40 method bodies (top level, modules, classes incl. generic ones, mixins included into classes, generic methods) that call each other along a DAG, share constants (incl. one initialised by a method call), use closures, symbols, strings, lists, loops, instance variables and 0-3 macros inside several bodies; in half of the programs 12-35 % of the bodies contain a deliberate type error (15 kinds incl. errors inside macro arguments, integer collection literals, circular constant/method use, unreachable-code warnings); every program is checked+run sequentially (limit=1, hook off) and then under 6 schedules drawn from limit {1 permuted,2,3,100} x H1 seed x GOMAXPROCS {1,4,default}; oracle: sorted diagnostic multiset (severity, location, message), outcome class and stdout/result/error equal the reference; non-trivial = >=3 bodies and a schedule with limit>1 or a non-identity start order; distinct by (source, schedules)"

func TestSchedules(t *testing.T) {
	pbt.Rule("schedules", ruleGen)
	defer closeWorkers()
	pbt.Run(t, pbt.Prop[Case]{Name: "schedules", Quick: 640, Thorough: 3200,
		Gen: func(t *rapid.T) Case {
			g := Generate(t, false)
			return Case{Kind: "gen", Src: g.Src, Bodies: g.Bodies, Features: g.Features, Scheds: genScheds(t, 6, false)}
		}, Oracle: oracle, Sample: sample})
}

func TestRace(t *testing.T) {
	pbt.Rule("race", "generated programs (3 of 4) and corpus programs with >=3 methods, type-checked and compiled (Checker.CheckSource, no execution: the race build enables checkptr, which stops the VM; generated programs therefore without user macros, corpus programs that make the checker run VM code are counted as inconclusive) in a worker built with -race (GORACE=log_path: every report of the run is read back after each request) sequentially and under 3 schedules at limit 2/3/100: a race report is a violation unless both of its access sites belong to one of the recorded known findings (counted as excluded); the diagnostics/behaviour oracle applies as well; non-trivial as for schedules")
	defer closeWorkers()
	pbt.Run(t, pbt.Prop[Case]{Name: "race", Quick: 128, Thorough: 480,
		Gen: func(t *rapid.T) Case {
			if vgen.Pick(t, 4, "corpus") == 0 {
				if src, n, ok := corpusProgram(t); ok {
					return Case{Kind: "corpus", Src: src, Bodies: n, Scheds: genScheds(t, 3, true), Race: true}
				}
			}
			g := Generate(t, true)
			return Case{Kind: "gen", Src: g.Src, Bodies: g.Bodies, Features: g.Features, Scheds: genScheds(t, 3, true), Race: true}
		}, Oracle: oracle, Sample: sample})
}

func TestCorpus(t *testing.T) {
	pbt.Rule("corpus", "programs of the repository's own checker / compiler / vm tests that define at least 3 methods (alone, or two of them concatenated), under 4 schedules as above; same oracle; programs that call exit or whose sequential reference is not stable are skipped (counted)")
	defer closeWorkers()
	pbt.Run(t, pbt.Prop[Case]{Name: "corpus", Quick: 480, Thorough: 2400,
		Gen: func(t *rapid.T) Case {
			src, n, _ := corpusProgram(t)
			return Case{Kind: "corpus", Src: src, Bodies: n, Scheds: genScheds(t, 4, false)}
		}, Oracle: oracle, Sample: sample})
}

func sample(c Case) any {
	return map[string]any{"kind": c.Kind, "bodies": c.Bodies, "scheds": c.Scheds, "race": c.Race, "src": clip(c.Src, 1500)}
}

// ---- corpus ----------------------------------------------------------------------

var (
	corpusOnce sync.Once
	corpusSrcs []string
	corpusN    []int
)

func countDefs(s string) int {
	n := 0
	for _, l := range strings.Split(s, "\n") {
		l = strings.TrimSpace(l)
		for _, p := range []string{"def ", "init", "sealed def ", "async def ", "abstract def ", "macro "} {
			if strings.HasPrefix(l, p) {
				n++
				break
			}
		}
	}
	return n
}

func loadCorpus() {
	corpusOnce.Do(func() {
		seen := map[string]bool{}
		for _, pkg := range []string{"types/checker", "compiler", "vm"} {
			for _, s := range corpus.ByPkg(pkg) {
				if seen[s] || strings.Contains(s, "exit") {
					continue
				}
				seen[s] = true
				if n := countDefs(s); n >= 3 {
					corpusSrcs = append(corpusSrcs, s)
					corpusN = append(corpusN, n)
				}
			}
		}
	})
}

func corpusProgram(t *rapid.T) (string, int, bool) {
	loadCorpus()
	if len(corpusSrcs) == 0 {
		return "def a; end\ndef b; end\ndef c; end\n", 3, false
	}
	i := rapid.IntRange(0, len(corpusSrcs)-1).Draw(t, "corpus_i")
	if vgen.Pick(t, 4, "concat") == 0 {
		j := rapid.IntRange(0, len(corpusSrcs)-1).Draw(t, "corpus_j")
		return corpusSrcs[i] + "\n" + corpusSrcs[j], corpusN[i] + corpusN[j], true
	}
	return corpusSrcs[i], corpusN[i], true
}

func sbNewRaceLog(path string) *sb.Worker {
	return sb.New("race", "GORACE=log_path="+path)
}

func isRaceRun() bool { return true }
