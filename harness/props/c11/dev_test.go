package c11

import (
	"fmt"
	"os"
	"path/filepath"
	"testing"

	"pgregory.net/rapid"
)

// developer aid: VERIF_C11_DEV=1 go test -run TestDevGen -rapid.checks=30 -v
// prints generated programs with the sequential reference outcome.
func TestDevGen(t *testing.T) {
	if os.Getenv("VERIF_C11_DEV") == "" {
		t.Skip("developer aid")
	}
	defer closeWorkers()
	stats := map[string]int{}
	rapid.Check(t, func(rt *rapid.T) {
		g := Generate(rt, os.Getenv("VERIF_C11_DEV") == "race")
		o := observe(do(worker("", 0), g.Src, Sched{Limit: 1}))
		key := o.class
		if g.ErrStmts == 0 && o.class != "ok" {
			key = "UNEXPECTED " + o.class
		}
		if g.ErrStmts > 0 && o.class == "ok" {
			key = "ERRSTMT_BUT_OK"
		}
		stats[key]++
		if os.Getenv("VERIF_C11_DEV") == "2" || key != o.class || o.class == "timeout" || o.class == "fatal" {
			fmt.Printf("=== %s bodies=%d errstmts=%d features=%v\n%s\n--- diags: %q\n--- run: %s\n--- detail: %s\n", key, g.Bodies, g.ErrStmts, g.Features, g.Src, o.diags, clip(o.run, 500), clip(o.detail, 1500))
		}
	})
	fmt.Println("STATS", stats)
}

// developer aid: VERIF_C11_DEV=race — run generated programs in the race worker
// without halt_on_error, reports go to $VERIF_C11_RACELOG.* (one file per process)
func TestDevRace(t *testing.T) {
	if os.Getenv("VERIF_C11_DEV") != "race" {
		t.Skip("developer aid")
	}
	w := sbNewRaceLog(os.Getenv("VERIF_C11_RACELOG"))
	defer w.Close()
	n := 0
	rapid.Check(t, func(rt *rapid.T) {
		g := Generate(rt, os.Getenv("VERIF_C11_DEV") == "race")
		for _, s := range genScheds(rt, 3, true) {
			res := do(w, g.Src, s)
			if res.Died || res.TimedOut {
				fmt.Println("DIED", res.ExitMsg, clip(res.Stderr, 3000))
			}
			n++
		}
	})
	fmt.Println("runs", n)
}

// developer aid: classify saved race logs (VERIF_C11_RACEGLOB)
func TestDevClassify(t *testing.T) {
	g := os.Getenv("VERIF_C11_RACEGLOB")
	if g == "" {
		t.Skip("developer aid")
	}
	files, _ := filepath.Glob(g)
	cnt := map[string]int{}
	for _, f := range files {
		b, _ := os.ReadFile(f)
		for _, r := range splitReports(string(b)) {
			k := classifyRace(r)
			if k == "" {
				k = "UNKNOWN " + fmt.Sprint(sites(r))
			}
			cnt[k]++
		}
	}
	for k, n := range cnt {
		fmt.Println(n, k)
	}
}
