package c11

// Generator of programs with many method bodies.  What matters for C11 is which
// shared structures of the checker/compiler the concurrently checked bodies
// touch (diagnostic list, symbol table, constants, method tables of classes /
// modules / mixins, generic instantiation, closures, macro expansion on the
// checker's thread pool, methods used in constant initialisers), not the depth
// of the expressions, so bodies are short templated statement lists.

import (
	"fmt"
	"sort"
	"strings"

	"pgregory.net/rapid"
)

type method struct {
	idx    int    // global index; a body only calls methods with a lower index (runtime terminates)
	kind   string // top | mod | cls | mix | gen
	owner  int    // index of the module / class / mixin
	name   string
	cost   int // bound on the number of calls one invocation makes
	body   []string
	errs   int
	usesK  bool
	retStr bool // deliberate error: body returns a String
}

type classDef struct {
	name    string
	mixins  []int
	methods []*method
	generic bool
	parent  int // index of the superclass or -1
}

type gen struct {
	t        *rapid.T
	nConst   int
	macros   []string
	mods     [][]*method
	classes  []*classDef
	mixins   [][]*method
	tops     []*method
	gens     []*method
	all      []*method
	features map[string]bool
	errProb  int // per body, in percent
	constM   *method
	noMacros bool
}

func (g *gen) pick(n int, label string) int { return rapid.IntRange(0, n-1).Draw(g.t, label) }
func (g *gen) chance(pct int, label string) bool {
	return rapid.IntRange(0, 99).Draw(g.t, label) < pct
}

var macroDefs = map[string]string{
	"dbl":  "macro dbl(e: ExpressionNode)\n  quote\n    !{e} + !{e}\n  end\nend\n",
	"addk": "macro addk(e: ExpressionNode)\n  quote\n    !{e} + K0\n  end\nend\n",
	"sq":   "macro sq(i: IntLiteralNode)\n  n := i.to_int\n  (n * n).to_ast_node\nend\n",
	"pick": "macro pick(a: ExpressionNode, b: ExpressionNode)\n  quote\n    if !{a} > !{b}\n      !{a}\n    else\n      !{b}\n    end\n  end\nend\n",
	"blk":  "macro blk(e: ExpressionNode)\n  quote\n    do\n      mt := !{e}\n      mt * 2\n    end\n  end\nend\n",
}
var macroNames = []string{"dbl", "addk", "sq", "pick", "blk"}

// callable renders a call of method m with argument arg from inside method `from`.
func (g *gen) call(m *method, from *method, arg string) string {
	switch m.kind {
	case "top":
		return fmt.Sprintf("%s(%s)", m.name, arg)
	case "gen":
		if g.chance(30, "explicit_targ") {
			return fmt.Sprintf("%s::[Int](%s)", m.name, arg)
		}
		return fmt.Sprintf("%s(%s)", m.name, arg)
	case "mod":
		if from != nil && from.kind == "mod" && from.owner == m.owner && g.chance(50, "selfcall") {
			return fmt.Sprintf("%s(%s)", m.name, arg)
		}
		return fmt.Sprintf("Mod%d.%s(%s)", m.owner, m.name, arg)
	case "cls":
		if from != nil && from.kind == "cls" && from.owner == m.owner && g.chance(60, "selfcall") {
			if g.chance(50, "selfdot") {
				return fmt.Sprintf("self.%s(%s)", m.name, arg)
			}
			return fmt.Sprintf("%s(%s)", m.name, arg)
		}
		owner := m.owner
		for ci, c := range g.classes {
			if c.parent == m.owner && g.chance(40, "via_subclass") {
				owner = ci
				g.features["inherited_call"] = true
				break
			}
		}
		return fmt.Sprintf("%s.%s(%s)", g.newObj(owner, "1"), m.name, arg)
	case "mix":
		// through a class that includes the mixin
		for ci, c := range g.classes {
			for _, mx := range c.mixins {
				if mx == m.owner {
					if from != nil && from.kind == "cls" && from.owner == ci {
						return fmt.Sprintf("%s(%s)", m.name, arg)
					}
					return fmt.Sprintf("%s.%s(%s)", g.newObj(ci, "2"), m.name, arg)
				}
			}
		}
	}
	return arg
}

func (g *gen) newObj(ci int, arg string) string {
	c := g.classes[ci]
	if c.generic {
		return fmt.Sprintf("%s(%s, %s)", c.name, arg, arg)
	}
	return fmt.Sprintf("%s(%s)", c.name, arg)
}

func (g *gen) callableFrom(m *method, from *method) bool {
	if m.idx >= from.idx {
		return false
	}
	if m.kind == "mix" {
		for _, c := range g.classes {
			for _, mx := range c.mixins {
				if mx == m.owner {
					return true
				}
			}
		}
		return false
	}
	return true
}

// atom: a cheap Int expression from what is in scope
func (g *gen) atom(locals []string) string {
	switch g.pick(6, "atom") {
	case 0:
		return fmt.Sprint(rapid.IntRange(0, 9).Draw(g.t, "lit"))
	case 1, 2:
		return "x"
	case 3:
		if g.nConst > 0 {
			return fmt.Sprintf("K%d", g.pick(g.nConst, "k"))
		}
		return "x"
	default:
		if len(locals) > 0 {
			return locals[g.pick(len(locals), "loc")]
		}
		return "x"
	}
}

// gatom: an Int expression without locals (the expansion of a macro is checked
// behind a macro boundary where the locals of the caller are not visible)
func (g *gen) gatom(m *method) string {
	switch g.pick(4, "gatom") {
	case 0:
		if g.nConst > 0 {
			return fmt.Sprintf("K%d", g.pick(g.nConst, "k"))
		}
	case 1:
		for _, o := range g.all {
			if o.kind == "top" && g.callableFrom(o, m) && m.cost+o.cost <= 400 {
				m.cost += o.cost
				return fmt.Sprintf("%s(%d)", o.name, g.pick(5, "lit"))
			}
		}
	}
	return fmt.Sprint(rapid.IntRange(0, 9).Draw(g.t, "lit"))
}

var errKinds = []string{"add_string", "undef_method", "var_type", "undef_const", "arity", "undef_member", "macro_args", "undef_macro", "ret_string", "reassign_type", "undef_type", "bad_arg", "unreachable", "after_macro", "intcoll_member"}

func (g *gen) fillBody(m *method) {
	var locals []string
	nst := rapid.IntRange(1, 5).Draw(g.t, "nstmt")
	witherr := g.chance(g.errProb, "has_err")
	errAt := -1
	if witherr {
		errAt = g.pick(nst, "err_at")
	}
	emit := func(s string) { m.body = append(m.body, s) }
	for k := 0; k < nst; k++ {
		v := fmt.Sprintf("v%d_%d", m.idx, k)
		if k == errAt {
			g.errStmt(m, k, locals)
		}
		a, b := g.atom(locals), g.atom(locals)
		switch kind := g.pick(15, "stmt"); kind {
		case 0:
			emit(fmt.Sprintf("%s := %s %s %s", v, a, []string{"+", "-", "*"}[g.pick(3, "op")], b))
			g.features["arith"] = true
		case 1:
			if g.nConst > 0 {
				emit(fmt.Sprintf("%s := K%d + %s", v, g.pick(g.nConst, "k"), a))
				m.usesK = true
				g.features["const"] = true
			} else {
				emit(fmt.Sprintf("%s := %s", v, a))
			}
		case 2, 3, 4:
			// call another method (bounded total cost)
			var cands []*method
			for _, o := range g.all {
				if g.callableFrom(o, m) && m.cost+o.cost <= 400 {
					cands = append(cands, o)
				}
			}
			if len(cands) == 0 {
				emit(fmt.Sprintf("%s := %s + 1", v, a))
				break
			}
			o := cands[g.pick(len(cands), "callee")]
			m.cost += o.cost
			emit(fmt.Sprintf("%s := %s", v, g.call(o, m, a)))
			g.features["call_"+o.kind] = true
		case 5:
			f := fmt.Sprintf("f%d_%d", m.idx, k)
			emit(fmt.Sprintf("%s := |a: Int|: Int -> a * %s + %s", f, a, b))
			emit(fmt.Sprintf("%s := %s(%s)", v, f, g.atom(locals)))
			g.features["closure"] = true
		case 6, 7:
			if len(g.macros) == 0 {
				emit(fmt.Sprintf("%s := %s", v, a))
				break
			}
			mc := g.macros[g.pick(len(g.macros), "macro")]
			a, b := g.gatom(m), g.gatom(m)
			switch mc {
			case "sq":
				emit(fmt.Sprintf("%s := sq!(%d) + %s", v, rapid.IntRange(0, 12).Draw(g.t, "sqarg"), g.atom(locals)))
			case "pick":
				emit(fmt.Sprintf("%s := pick!(%s, %s)", v, a, b))
			default:
				emit(fmt.Sprintf("%s := %s!(%s)", v, mc, a))
			}
			g.features["macro_use"] = true
		case 8:
			s := fmt.Sprintf("s%d_%d", m.idx, k)
			emit(fmt.Sprintf("%s := \"m%d_${%s}_%d\"", s, m.idx, a, k))
			emit(fmt.Sprintf("%s := %s.length", v, s))
			g.features["string"] = true
		case 9:
			y := fmt.Sprintf("y%d_%d", m.idx, k)
			emit(fmt.Sprintf("%s := :sym_%d_%d", y, m.idx, k))
			emit(fmt.Sprintf("%s := if %s == :sym_%d_0", v, y, m.idx))
			emit("  " + a)
			emit("else")
			emit("  " + b)
			emit("end")
			g.features["symbol"] = true
		case 10:
			l := fmt.Sprintf("l%d_%d", m.idx, k)
			emit(fmt.Sprintf("%s := [%s, %s, %d]", l, a, b, k))
			emit(fmt.Sprintf("%s := %s.length + %s[0]", v, l, l))
			g.features["list"] = true
		case 11:
			emit(fmt.Sprintf("%s := if %s > %s", v, a, b))
			emit("  " + a)
			emit("else")
			emit("  " + b)
			emit("end")
		case 12:
			if m.kind == "cls" {
				if g.chance(50, "ivar") {
					emit(fmt.Sprintf("%s := @v + %s", v, a))
				} else {
					emit(fmt.Sprintf("%s := self.v + %s", v, a))
				}
				g.features["ivar"] = true
			} else {
				emit(fmt.Sprintf("%s := (2 * 5 + 10 * 3 - %d) + %s", v, k, a))
				g.features["fold"] = true
			}
		case 13:
			gc := -1
			for ci, c := range g.classes {
				if c.generic {
					gc = ci
				}
			}
			if gc < 0 {
				emit(fmt.Sprintf("%s := %s + %s", v, a, b))
				break
			}
			ctorArg := a
			if m.kind == "gen" {
				ctorArg = fmt.Sprint(k + 1) // a T < Int argument is not accepted for an Int parameter of init
			}
			emit(fmt.Sprintf("%s := %s.gval + %s", v, g.newObj(gc, ctorArg), b))
			g.features["generic_getter"] = true
		default:
			w := fmt.Sprintf("w%d_%d", m.idx, k)
			i := fmt.Sprintf("i%d_%d", m.idx, k)
			emit(fmt.Sprintf("var %s = 0", w))
			emit(fmt.Sprintf("var %s = 0", i))
			emit(fmt.Sprintf("while %s < 3", i))
			emit(fmt.Sprintf("  %s += %s", w, a))
			emit(fmt.Sprintf("  %s += 1", i))
			emit("end")
			emit(fmt.Sprintf("%s := %s", v, w))
			g.features["loop"] = true
		}
		locals = append(locals, v)
	}
	if m.retStr {
		emit(fmt.Sprintf("\"r%d\"", m.idx))
		return
	}
	// result: combination of two locals
	r := locals[len(locals)-1]
	if len(locals) > 1 {
		r = fmt.Sprintf("%s + %s", locals[g.pick(len(locals), "r1")], r)
	}
	emit(r)
}

func (g *gen) errStmt(m *method, k int, locals []string) {
	e := fmt.Sprintf("e%d_%d", m.idx, k)
	a := g.atom(locals)
	kind := errKinds[g.pick(len(errKinds), "errkind")]
	emit := func(s string) { m.body = append(m.body, s) }
	m.errs++
	g.features["err:"+kind] = true
	switch kind {
	case "add_string":
		emit(fmt.Sprintf("%s := %s + \"s%d\"", e, a, m.idx))
	case "undef_method":
		emit(fmt.Sprintf("%s := undefined_fn_%d(%s)", e, m.idx, a))
	case "var_type":
		emit(fmt.Sprintf("var %s: String = %s", e, a))
	case "undef_const":
		emit(fmt.Sprintf("%s := KU_%d", e, m.idx))
	case "arity":
		var cands []*method
		for _, o := range g.all {
			if g.callableFrom(o, m) && o.kind == "top" {
				cands = append(cands, o)
			}
		}
		if len(cands) > 0 {
			emit(fmt.Sprintf("%s := %s()", e, cands[g.pick(len(cands), "callee")].name))
		} else {
			emit(fmt.Sprintf("%s := 1.foo_%d", e, m.idx))
		}
	case "undef_member":
		emit(fmt.Sprintf("%s := %s.nope_%d", e, a, m.idx))
	case "macro_args":
		if len(g.macros) > 0 {
			emit(fmt.Sprintf("%s := %s!(%s, 2, 3)", e, g.macros[g.pick(len(g.macros), "macro")], g.gatom(m)))
		} else {
			emit(fmt.Sprintf("%s := nomacro_%d!(%s)", e, m.idx, g.gatom(m)))
		}
	case "undef_macro":
		emit(fmt.Sprintf("%s := nomacro_%d!(%s)", e, m.idx, g.gatom(m)))
	case "ret_string":
		m.retStr = true
		m.errs--
		m.errs++
	case "reassign_type":
		emit(fmt.Sprintf("var %s = %s", e, a))
		emit(fmt.Sprintf("%s = \"t%d\"", e, m.idx))
	case "undef_type":
		emit(fmt.Sprintf("var %s: Nope%d? = nil", e, m.idx))
	case "bad_arg":
		var cands []*method
		for _, o := range g.all {
			if g.callableFrom(o, m) {
				cands = append(cands, o)
			}
		}
		if len(cands) > 0 {
			emit(fmt.Sprintf("%s := %s", e, g.call(cands[g.pick(len(cands), "callee")], m, fmt.Sprintf("\"b%d\"", m.idx))))
		} else {
			emit(fmt.Sprintf("%s := 1 + nil", e))
		}
	case "unreachable":
		// a warning rather than a failure (if the checker reports unreachable code)
		emit(fmt.Sprintf("return %s", a))
	case "intcoll_member":
		// the element type of an integer collection literal is computed from the literals
		emit(fmt.Sprintf("%s := \\x[1f %d].nope_%d", e, k, m.idx))
	case "after_macro":
		// an error inside the argument of a macro call: depends on the expansion happening
		if len(g.macros) > 0 && !g.noMacros {
			emit(fmt.Sprintf("%s := dbl!(%s + \"q%d\")", e, g.gatom(m), m.idx))
			if !contains(g.macros, "dbl") {
				g.macros = append(g.macros, "dbl")
			}
		} else {
			emit(fmt.Sprintf("%s := %s + nil", e, a))
		}
	}
}

func contains(xs []string, s string) bool {
	for _, x := range xs {
		if x == s {
			return true
		}
	}
	return false
}

func (m *method) render(b *strings.Builder, indent string) {
	switch m.kind {
	case "gen":
		fmt.Fprintf(b, "%sdef %s[T < Int](x: T): Int\n", indent, m.name)
	default:
		fmt.Fprintf(b, "%sdef %s(x: Int): Int\n", indent, m.name)
	}
	for _, l := range m.body {
		fmt.Fprintf(b, "%s  %s\n", indent, l)
	}
	fmt.Fprintf(b, "%send\n", indent)
}

type Generated struct {
	Src      string
	Bodies   int
	ErrStmts int
	Features []string
}

// Generate draws one program.  noMacros: no user-defined macros (their bodies run on
// the VM, which a -race build of the worker cannot execute: checkptr).
func Generate(t *rapid.T, noMacros bool) Generated {
	g := &gen{t: t, features: map[string]bool{}, noMacros: noMacros}
	g.nConst = rapid.IntRange(0, 4).Draw(t, "nconst")
	nmac := rapid.IntRange(0, 3).Draw(t, "nmacro")
	if noMacros {
		nmac = 0
	}
	for i := 0; i < nmac; i++ {
		n := macroNames[g.pick(len(macroNames), "macroname")]
		if !contains(g.macros, n) {
			g.macros = append(g.macros, n)
		}
	}
	if contains(g.macros, "addk") && g.nConst == 0 {
		g.nConst = 1
	}
	switch g.pick(4, "errmode") {
	case 0, 1:
		g.errProb = 0
	case 2:
		g.errProb = 12
	default:
		g.errProb = 35
	}

	// containers
	nmix := rapid.IntRange(0, 2).Draw(t, "nmixin")
	nmod := rapid.IntRange(0, 3).Draw(t, "nmod")
	ncls := rapid.IntRange(0, 4).Draw(t, "ncls")
	ntop := rapid.IntRange(0, 8).Draw(t, "ntop")
	ngen := rapid.IntRange(0, 2).Draw(t, "ngen")
	type slot struct {
		kind  string
		owner int
	}
	var slots []slot
	g.mixins = make([][]*method, nmix)
	for i := 0; i < nmix; i++ {
		for k, n := 0, rapid.IntRange(1, 3).Draw(t, "nmixm"); k < n; k++ {
			slots = append(slots, slot{"mix", i})
		}
	}
	g.mods = make([][]*method, nmod)
	for i := 0; i < nmod; i++ {
		for k, n := 0, rapid.IntRange(1, 4).Draw(t, "nmodm"); k < n; k++ {
			slots = append(slots, slot{"mod", i})
		}
	}
	for i := 0; i < ncls; i++ {
		c := &classDef{name: fmt.Sprintf("Cl%d", i), generic: g.chance(25, "generic_class"), parent: -1}
		if !c.generic && i > 0 && !g.classes[i-1].generic && g.chance(35, "inherit") {
			c.parent = i - 1
		}
		for mx := 0; mx < nmix; mx++ {
			if g.chance(50, "include") {
				c.mixins = append(c.mixins, mx)
			}
		}
		g.classes = append(g.classes, c)
		for k, n := 0, rapid.IntRange(1, 5).Draw(t, "nclsm"); k < n; k++ {
			slots = append(slots, slot{"cls", i})
		}
	}
	for i := 0; i < ntop; i++ {
		slots = append(slots, slot{"top", 0})
	}
	for i := 0; i < ngen; i++ {
		slots = append(slots, slot{"gen", 0})
	}
	for len(slots) < 3 {
		slots = append(slots, slot{"top", 0})
	}
	if len(slots) > 40 {
		slots = slots[:40]
	}
	// the global (call DAG) order is a permutation of the slots
	perm := rapid.Permutation(slots).Draw(t, "dag_order")
	for i, s := range perm {
		m := &method{idx: i, kind: s.kind, owner: s.owner, cost: 1}
		switch s.kind {
		case "mix":
			m.name = fmt.Sprintf("mx%d_%d", s.owner, i)
			g.mixins[s.owner] = append(g.mixins[s.owner], m)
		case "mod":
			m.name = fmt.Sprintf("mo%d_%d", s.owner, i)
			g.mods[s.owner] = append(g.mods[s.owner], m)
		case "cls":
			m.name = fmt.Sprintf("cl%d_%d", s.owner, i)
			g.classes[s.owner].methods = append(g.classes[s.owner].methods, m)
		case "top":
			m.name = fmt.Sprintf("top%d", i)
			g.tops = append(g.tops, m)
		case "gen":
			m.name = fmt.Sprintf("gen%d", i)
			g.gens = append(g.gens, m)
		}
		g.all = append(g.all, m)
	}
	for _, m := range g.all {
		g.fillBody(m)
	}
	// a constant initialised by a method call (the method cache of the checker)
	constCall := ""
	if len(g.tops) > 0 && g.chance(30, "const_from_method") {
		m := g.tops[g.pick(len(g.tops), "constm")]
		constCall = fmt.Sprintf("const KM: Int = %s(2)\n", m.name)
		g.features["const_from_method"] = true
		if g.errProb > 0 && g.chance(25, "circular") {
			// deliberate error: the method uses the constant it initialises
			m.body = append([]string{"kc := KM"}, m.body...)
			m.errs++
			g.features["err:circular_const"] = true
		}
	}

	// ---- render ----
	var b strings.Builder
	if len(g.macros) > 0 {
		b.WriteString("using Std::Elk::AST::*\n\n")
	}
	for i := 0; i < g.nConst; i++ {
		switch i % 3 {
		case 0:
			fmt.Fprintf(&b, "const K%d: Int = %d\n", i, 3+i)
		case 1:
			fmt.Fprintf(&b, "const K%d: Int = K%d * 2 + %d\n", i, i-1, i)
		default:
			fmt.Fprintf(&b, "const K%d = %d\n", i, 10*i)
		}
	}
	for _, mc := range g.macros {
		b.WriteString(macroDefs[mc])
	}
	b.WriteString("\n")
	// definition blocks in a drawn textual order
	type block func()
	var blocks []block
	for i := range g.mixins {
		i := i
		blocks = append(blocks, func() {
			fmt.Fprintf(&b, "mixin Mx%d\n", i)
			for _, m := range g.mixins[i] {
				m.render(&b, "  ")
			}
			b.WriteString("end\n")
		})
	}
	// mixins must be defined before the classes that include them? (hoisted: no) keep them in the shuffle
	for i := range g.mods {
		i := i
		if len(g.mods[i]) == 0 {
			continue
		}
		blocks = append(blocks, func() {
			fmt.Fprintf(&b, "module Mod%d\n", i)
			for _, m := range g.mods[i] {
				m.render(&b, "  ")
			}
			b.WriteString("end\n")
		})
	}
	for i, c := range g.classes {
		i, c := i, c
		_ = i
		blocks = append(blocks, func() {
			if c.generic {
				fmt.Fprintf(&b, "class %s[V]\n", c.name)
			} else if c.parent >= 0 {
				fmt.Fprintf(&b, "class %s < %s\n", c.name, g.classes[c.parent].name)
			} else {
				fmt.Fprintf(&b, "class %s\n", c.name)
			}
			for _, mx := range c.mixins {
				fmt.Fprintf(&b, "  include Mx%d\n", mx)
			}
			if c.generic {
				b.WriteString("  attr v: Int\n  attr g: V\n  init(@v: Int, @g: V); end\n  def gval: V\n    @g\n  end\n")
			} else if c.parent < 0 {
				b.WriteString("  attr v: Int\n  init(@v: Int); end\n")
			}
			for _, m := range c.methods {
				m.render(&b, "  ")
			}
			b.WriteString("end\n")
		})
	}
	for _, m := range g.tops {
		m := m
		blocks = append(blocks, func() { m.render(&b, "") })
	}
	for _, m := range g.gens {
		m := m
		blocks = append(blocks, func() { m.render(&b, "") })
	}
	// symbol groups: several method bodies whose first use of the same, never seen symbol literals is
	// in bodies that are checked and compiled concurrently; at run time the symbols of the bodies of a
	// group must be identical (interning is a bijection whatever the schedule)
	symGroups := 0
	if rapid.IntRange(0, 2).Draw(t, "symfam") > 0 {
		symGroups = rapid.IntRange(4, 40).Draw(t, "symgroups")
	}
	tag := rapid.StringMatching("[a-z]{9}").Draw(t, "symtag")
	for gi := 0; gi < symGroups; gi++ {
		gi := gi
		for mi := 0; mi < 3; mi++ {
			mi := mi
			blocks = append(blocks, func() {
				var syms []string
				for k := 0; k < 6; k++ {
					syms = append(syms, fmt.Sprintf(":%s_%d_%d", tag, gi, (k+mi*2)%6)) // same six symbols, other first-use order
				}
				fmt.Fprintf(&b, "def symq%d_%d: ArrayTuple[Symbol]\n  %%[%s]\nend\n", gi, mi, strings.Join(syms, ", "))
			})
		}
	}
	if symGroups > 0 {
		g.features["symbol_groups"] = true
	}
	order := rapid.Permutation(seq(len(blocks))).Draw(t, "text_order")
	for _, i := range order {
		blocks[i]()
	}
	b.WriteString(constCall)
	b.WriteString("\n")
	for gi := 0; gi < symGroups; gi++ {
		// element-wise: the three bodies list the symbols rotated by two positions
		fmt.Fprintf(&b, "println(\"sym%d \" + (symq%d_0()[2] == symq%d_1()[0] && symq%d_1()[2] == symq%d_2()[0] && symq%d_0()[0] == symq%d_2()[2]).inspect)\n", gi, gi, gi, gi, gi, gi, gi)
	}
	// main: call every method once
	for _, m := range g.all {
		if m.kind == "mix" && !g.callableFrom(m, &method{idx: 1 << 30}) {
			continue
		}
		fmt.Fprintf(&b, "println(%s)\n", g.call(m, nil, fmt.Sprint(m.idx%5)))
	}
	if constCall != "" {
		b.WriteString("println(KM)\n")
	}
	out := Generated{Src: b.String(), Bodies: len(g.all) + len(g.classes) + 3*symGroups}
	for _, m := range g.all {
		out.ErrStmts += m.errs
	}
	for f := range g.features {
		out.Features = append(out.Features, f)
	}
	sortStrings(out.Features)
	return out
}

func seq(n int) []int {
	s := make([]int, n)
	for i := range s {
		s[i] = i
	}
	return s
}

func sortStrings(s []string) { sort.Strings(s) }
