package c20

// Reference model of Elk strings: three views of the same byte sequence.
//
//   bytes      – the raw bytes
//   code points – utf8 decoding; every byte that does not start a valid
//                encoding is ONE element.  Its Char value follows the
//                convention pinned by the repo's own test
//                (value/string_test.go "get index 0 in a binary string":
//                "\x86foo"[0] == '\x86'), i.e. the Char whose code point is
//                the byte value.
//   graphemes  – extended grapheme clusters (UAX #29) through uniseg's
//                Graphemes iterator (a different entry point than the ones
//                the implementation uses), plus model-independent sanity
//                conditions checked in the oracle.

import (
	"bytes"
	"strings"
	"unicode"
	"unicode/utf8"

	"github.com/rivo/uniseg"
)

type cp struct {
	R       rune // code point; for an invalid byte: the byte value
	Invalid bool
	Off     int // byte offset
	Size    int // encoded size in the string (1 for an invalid byte)
}

func codePoints(s string) []cp {
	var out []cp
	for i := 0; i < len(s); {
		r, size := utf8.DecodeRuneInString(s[i:])
		if r == utf8.RuneError && size == 1 {
			out = append(out, cp{R: rune(s[i]), Invalid: true, Off: i, Size: 1})
		} else {
			out = append(out, cp{R: r, Off: i, Size: size})
		}
		i += size
	}
	return out
}

func graphemes(s string) []string {
	var out []string
	g := uniseg.NewGraphemes(s)
	for g.Next() {
		out = append(out, g.Str())
	}
	return out
}

func hasInvalid(s string) bool { return !utf8.ValidString(s) }

// interesting reports whether the string exercises more than the ASCII model:
// a multi-byte rune, a combining sequence / multi-code-point grapheme, or an invalid byte.
func interesting(s string) bool {
	for i := 0; i < len(s); i++ {
		if s[i] >= 0x80 {
			return true
		}
	}
	return strings.Contains(s, "\r\n")
}

func classOf(s string) string {
	switch {
	case s == "":
		return "empty"
	case hasInvalid(s):
		return "invalid"
	case len(graphemes(s)) != utf8.RuneCountInString(s):
		return "cluster"
	case len(s) != utf8.RuneCountInString(s):
		return "multibyte"
	}
	return "ascii"
}

// index resolution shared by the three *_at methods: (position, ok).
func resolve(i int64, n int) (int, bool) {
	if i >= 0 {
		if i < int64(n) {
			return int(i), true
		}
		return 0, false
	}
	if i >= -int64(n) {
		return n + int(i), true
	}
	return 0, false
}

func validScalar(r rune) bool { return utf8.ValidRune(r) }

// pad is the documented justification: the result is max(n, length) code points long.
func padModel(s string, n int, c rune, right bool) string {
	l := len(codePoints(s))
	if l >= n {
		return s
	}
	p := strings.Repeat(string(c), n-l)
	if right {
		return p + s
	}
	return s + p
}

// caseModel maps every code point through the simple (one-to-one) Unicode case
// mapping.  What happens to an invalid byte is not pinned down by any document:
// it is reported as a wildcard position that may stay the byte itself or become
// U+FFFD (the two behaviours a Go implementation can have).
type caseElem struct {
	Text    string // expected encoding for a valid code point
	Invalid bool
	B       byte
}

func caseModel(s string, upper bool) []caseElem {
	var out []caseElem
	for _, c := range codePoints(s) {
		if c.Invalid {
			out = append(out, caseElem{Invalid: true, B: byte(c.R)})
			continue
		}
		r := c.R
		if upper {
			r = unicode.ToUpper(r)
		} else {
			r = unicode.ToLower(r)
		}
		out = append(out, caseElem{Text: string(r)})
	}
	return out
}

// matchCase checks got against the expected elements (with backtracking over the
// two accepted renderings of an invalid byte); at = furthest element matched.
func matchCase(got string, want []caseElem) (ok bool, at int) {
	var rec func(rest string, i int) bool
	rec = func(rest string, i int) bool {
		if i > at {
			at = i
		}
		if i == len(want) {
			return rest == ""
		}
		e := want[i]
		if e.Invalid {
			if strings.HasPrefix(rest, "\uFFFD") && rec(rest[3:], i+1) {
				return true
			}
			return len(rest) > 0 && rest[0] == e.B && rec(rest[1:], i+1)
		}
		return strings.HasPrefix(rest, e.Text) && rec(rest[len(e.Text):], i+1)
	}
	return rec(got, 0), at
}

// cmpModel: lexicographic order of the code-point sequences for valid UTF-8 (which
// is what a character-level definition prescribes), raw byte order otherwise.
func cmpModel(a, b string) int {
	if utf8.ValidString(a) && utf8.ValidString(b) {
		ra, rb := []rune(a), []rune(b)
		for i := 0; i < len(ra) && i < len(rb); i++ {
			if ra[i] != rb[i] {
				if ra[i] < rb[i] {
					return -1
				}
				return 1
			}
		}
		switch {
		case len(ra) < len(rb):
			return -1
		case len(ra) > len(rb):
			return 1
		}
		return 0
	}
	return bytes.Compare([]byte(a), []byte(b))
}

func removeSuffixModel(s, suffix string) string {
	if strings.HasSuffix(s, suffix) {
		return s[:len(s)-len(suffix)]
	}
	return s
}
