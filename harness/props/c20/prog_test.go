package c20

// Program-level part: the same operations through compiled Elk source
// (operators, subscript syntax, for-in over the three iterators, typed index
// literals, do/catch), executed in the worker subprocess.  Every operation prints
// one ASCII line; strings are printed as the decimal values of their bytes so
// that neither `inspect` nor the JSON transport can blur a difference.

import (
	"fmt"
	"math/big"
	"strings"
	"testing"
	"time"

	"pgregory.net/rapid"

	"verif/internal/pbt"
	sb "verif/internal/sandbox"
	"verif/internal/vgen"
)

var worker *sb.Worker

type Tuple struct {
	S   []byte `json:"s"`
	T   []byte `json:"t"`
	C   int32  `json:"c"`
	N   int    `json:"n"`
	Rep int    `json:"rep"`
	Idx []Idx  `json:"idx"`
}

type ProgCase struct {
	Tuples []Tuple `json:"tuples"`
}

// strLit renders bytes as an Elk string literal: printable ASCII as is, every other byte as \xHH.
func strLit(b []byte) string {
	var sb strings.Builder
	sb.WriteByte('"')
	for _, c := range b {
		switch {
		case c == '"' || c == '\\' || c == '$' || c == '#':
			fmt.Fprintf(&sb, `\x%02x`, c)
		case c >= 0x20 && c < 0x7f:
			sb.WriteByte(c)
		default:
			fmt.Fprintf(&sb, `\x%02x`, c)
		}
	}
	sb.WriteByte('"')
	return sb.String()
}

func charLit(r int32) string {
	if r >= 0x30 && r < 0x7f && r != '\\' && r != '`' {
		return "`" + string(rune(r)) + "`"
	}
	if r <= 0xffff {
		return fmt.Sprintf("`\\u%04x`", r)
	}
	return fmt.Sprintf("`\\U%08X`", r)
}

var litSuffix = map[string]string{"int": "", "i8": "i8", "i16": "i16", "i32": "i32", "i64": "i64", "u8": "u8", "u16": "u16", "u32": "u32", "u64": "u64", "uint": "u"}

func idxLit(i Idx) string {
	if strings.HasPrefix(i.V, "-") {
		if i.K != "int" {
			// the minimum of a signed kind cannot be written as -(literal): 128i8 overflows
			if lo, _ := vgen.KindRange(i.K); lo.Cmp(i.big()) == 0 {
				m := new(big.Int).Add(lo, big.NewInt(1))
				return "(-" + m.String()[1:] + litSuffix[i.K] + " - 1" + litSuffix[i.K] + ")"
			}
		}
		return "(-" + i.V[1:] + litSuffix[i.K] + ")"
	}
	return i.V + litSuffix[i.K]
}

func hx(s string) string {
	var sb strings.Builder
	for i := 0; i < len(s); i++ {
		fmt.Fprintf(&sb, "%d ", s[i])
	}
	return sb.String()
}

const prelude = `def hx(s: String): String
  r := ""
  for b in s.byte_iter
    r = r + b.to_int.to_string + " "
  end
  r
end
`

type line struct {
	label string
	want  string
	desc  string
}

// build renders the program and the expected output.
func build(c ProgCase) (string, []line) {
	var src strings.Builder
	var want []line
	src.WriteString(prelude)
	k := 0
	emit := func(expr, wantText, desc string) {
		label := fmt.Sprintf("L%d", k)
		k++
		fmt.Fprintf(&src, "println(\"%s \" + %s)\n", label, expr)
		want = append(want, line{label, wantText, desc})
	}
	emitGuarded := func(expr, wantText, desc string) {
		label := fmt.Sprintf("L%d", k)
		k++
		fmt.Fprintf(&src, "do\n  println(\"%s \" + %s)\ncatch IndexError() as e\n  println(\"%s IndexError \" + e.message)\ncatch OutOfRangeError()\n  println(\"%s OutOfRangeError\")\ncatch e\n  println(\"%s other error\")\nend\n", label, expr, label, label, label)
		want = append(want, line{label, wantText, desc})
	}
	for ti, tu := range c.Tuples {
		s, o := string(tu.S), string(tu.T)
		chs := string(rune(tu.C))
		sv, tv, cv := fmt.Sprintf("s%d", ti), fmt.Sprintf("t%d", ti), fmt.Sprintf("c%d", ti)
		fmt.Fprintf(&src, "%s := %s\n%s := %s\n%s := %s\n", sv, strLit(tu.S), tv, strLit(tu.T), cv, charLit(tu.C))
		d := func(f string, a ...any) string { return fmt.Sprintf("s=%s t=%s c=U+%04X: ", q(s), q(o), tu.C) + fmt.Sprintf(f, a...) }
		cps, gs := codePoints(s), graphemes(s)
		// counts
		emit(sv+".length.to_string", fmt.Sprint(len(cps)), d("s.length"))
		emit(sv+".char_count.to_string", fmt.Sprint(len(cps)), d("s.char_count"))
		emit(sv+".byte_count.to_string", fmt.Sprint(len(s)), d("s.byte_count"))
		emit(sv+".grapheme_count.to_string", fmt.Sprint(len(gs)), d("s.grapheme_count"))
		// for-in loops over the three views (separator | after each element)
		loop := func(iterExpr, elemExpr string, elems []string, what string) {
			label := fmt.Sprintf("L%d", k)
			k++
			fmt.Fprintf(&src, "acc%s := \"\"\nfor x in %s\n  acc%s = acc%s + %s + \"| \"\nend\nprintln(\"%s \" + acc%s)\n", label, iterExpr, label, label, elemExpr, label, label)
			var w strings.Builder
			for _, e := range elems {
				w.WriteString(e + "| ")
			}
			want = append(want, line{label, w.String(), d(what)})
		}
		var ce, be, ge []string
		for _, c := range cps {
			ce = append(ce, hx(string(c.R)))
		}
		for i := 0; i < len(s); i++ {
			be = append(be, fmt.Sprint(s[i]))
		}
		for _, g := range gs {
			ge = append(ge, hx(g))
		}
		loop(sv, "hx(x.to_string)", ce, "for x in s")
		loop(sv+".iter", "hx(x.to_string)", ce, "for x in s.iter")
		loop(sv+".byte_iter", "x.to_int.to_string", be, "for x in s.byte_iter")
		loop(sv+".grapheme_iter", "hx(x)", ge, "for x in s.grapheme_iter")
		// indexed access
		for _, ix := range tu.Idx {
			lit := idxLit(ix)
			bi := ix.big()
			at := func(n int) (int, bool) {
				if !bi.IsInt64() {
					return 0, false
				}
				return resolve(bi.Int64(), n)
			}
			oor := func(n int) string {
				return fmt.Sprintf("IndexError index %s out of range: %d...%d", bi.String(), -n, n)
			}
			if p, ok := at(len(cps)); ok {
				emitGuarded("hx("+sv+".char_at("+lit+").to_string)", hx(string(cps[p].R)), d("s.char_at(%s)", lit))
				} else {
				emitGuarded("hx("+sv+".char_at("+lit+").to_string)", oor(len(cps)), d("s.char_at(%s)", lit))
				}
			if p, ok := at(len(s)); ok {
				emitGuarded(sv+".byte_at("+lit+").to_int.to_string", fmt.Sprint(s[p]), d("s.byte_at(%s)", lit))
			} else {
				emitGuarded(sv+".byte_at("+lit+").to_int.to_string", oor(len(s)), d("s.byte_at(%s)", lit))
			}
			if p, ok := at(len(gs)); ok {
				emitGuarded("hx("+sv+".grapheme_at("+lit+"))", hx(gs[p]), d("s.grapheme_at(%s)", lit))
			} else {
				emitGuarded("hx("+sv+".grapheme_at("+lit+"))", oor(len(gs)), d("s.grapheme_at(%s)", lit))
			}
		}
		// justification
		emit(fmt.Sprintf("hx(%s.rjust(%d, %s))", sv, tu.N, cv), hx(padModel(s, tu.N, tu.C, true)), d("s.rjust(%d, c)", tu.N))
		emit(fmt.Sprintf("hx(%s.ljust(%d, %s))", sv, tu.N, cv), hx(padModel(s, tu.N, tu.C, false)), d("s.ljust(%d, c)", tu.N))
		// operators
		emit("hx("+sv+" + "+tv+")", hx(s+o), d("s + t"))
		emit("hx("+sv+" + "+cv+")", hx(s+chs), d("s + c"))
		emit("hx("+sv+" - "+tv+")", hx(removeSuffixModel(s, o)), d("s - t"))
		emit("hx("+sv+" - "+cv+")", hx(removeSuffixModel(s, chs)), d("s - c"))
		emit("hx(("+sv+" + "+tv+") - "+tv+")", hx(s), d("(s + t) - t"))
		if tu.Rep < 0 {
			emitGuarded(fmt.Sprintf("hx(%s * (%d))", sv, tu.Rep), "OutOfRangeError", d("s * %d", tu.Rep))
		} else {
			emitGuarded(fmt.Sprintf("hx(%s * %d)", sv, tu.Rep), hx(strings.Repeat(s, tu.Rep)), d("s * %d", tu.Rep))
		}
		// case mapping (valid UTF-8 only: the rendering of an invalid byte is not pinned down)
		if !hasInvalid(s) {
			var up, lo strings.Builder
			for _, e := range caseModel(s, true) {
				up.WriteString(e.Text)
			}
			for _, e := range caseModel(s, false) {
				lo.WriteString(e.Text)
			}
			emit("hx("+sv+".uppercase)", hx(up.String()), d("s.uppercase"))
			emit("hx("+sv+".lowercase)", hx(lo.String()), d("s.lowercase"))
		}
		// comparison
		cm := cmpModel(s, o)
		emit("("+sv+" <=> "+tv+").to_string", fmt.Sprint(cm), d("s <=> t"))
		emit("("+sv+" < "+tv+").inspect", fmt.Sprint(cm < 0), d("s < t"))
		emit("("+sv+" <= "+tv+").inspect", fmt.Sprint(cm <= 0), d("s <= t"))
		emit("("+sv+" > "+tv+").inspect", fmt.Sprint(cm > 0), d("s > t"))
		emit("("+sv+" >= "+tv+").inspect", fmt.Sprint(cm >= 0), d("s >= t"))
		emit("("+sv+" == "+tv+").inspect", fmt.Sprint(s == o), d("s == t"))
		cc := cmpModel(s, chs)
		emit("("+sv+" <=> "+cv+").to_string", fmt.Sprint(cc), d("s <=> c"))
		emit("("+sv+" < "+cv+").inspect", fmt.Sprint(cc < 0), d("s < c"))
		emit("("+sv+" >= "+cv+").inspect", fmt.Sprint(cc >= 0), d("s >= c"))
	}
	return src.String(), want
}

func progOracle(c ProgCase, ctx *pbt.Ctx) error {
	src, want := build(c)
	res := worker.Do(sb.Req{Mode: "run", Source: src}, 30*time.Second)
	class, detail := sb.Classify(res)
	ctx.Label("outcome:" + class)
	switch class {
	case sb.Timeout:
		pbt.Inconclusive()
		return nil
	case sb.Fatal, sb.GoPanic, sb.StackLimit:
		return fmt.Errorf("interpreter crashed (%s) on a string program:\n%s\n--- source\n%s", class, clipS(detail, 1500), clipS(src, 3000))
	case sb.Rejected:
		var ds []string
		lines := strings.Split(src, "\n")
		for i, d := range res.Resp.Runs[0].Diags {
			if i >= 6 {
				break
			}
			l := ""
			if d.Line >= 1 && d.Line <= len(lines) {
				l = lines[d.Line-1]
			}
			ds = append(ds, fmt.Sprintf("%d:%d %s %s  <<%s>>", d.Line, d.Col, d.Severity, strings.SplitN(d.Msg, "\n", 2)[0], strings.TrimSpace(l)))
		}
		return fmt.Errorf("GENERATOR: program rejected by the checker: %s\n--- source\n%s", strings.Join(ds, " | "), clipS(src, 3000))
	case sb.ElkError:
		return fmt.Errorf("uncaught Elk error %s\n--- source\n%s", clipS(detail, 600), clipS(src, 3000))
	}
	got := strings.Split(strings.TrimSuffix(res.Resp.Runs[0].Stdout, "\n"), "\n")
	for i, w := range want {
		if i >= len(got) {
			return fmt.Errorf("output ends after %d lines, want %d (%s)", len(got), len(want), w.desc)
		}
		exp := w.label + " " + w.want
		if got[i] != exp {
			// a fixed-width index may be rendered with its literal suffix in the message
			if strings.Contains(w.want, "IndexError index ") && sameIndexError(got[i], exp) {
				continue
			}
			return fmt.Errorf("%s\n   printed %q\n   want    %q", w.desc, got[i], exp)
		}
	}
	if len(got) != len(want) {
		return fmt.Errorf("program printed %d lines, want %d", len(got), len(want))
	}
	nt := false
	for _, tu := range c.Tuples {
		ctx.Label("str:" + classOf(string(tu.S)))
		if interesting(string(tu.S)) {
			nt = true
		}
	}
	if nt {
		ctx.NonTrivial(src)
	}
	return nil
}

// sameIndexError compares two `Lk IndexError index X out of range: -n...n` lines ignoring an integer-literal suffix of X.
func sameIndexError(got, want string) bool {
	strip := func(s string) string {
		f := strings.Fields(s)
		if len(f) < 4 {
			return s
		}
		f[3] = strings.TrimRight(f[3], "iu81632464")
		if _, ok := new(big.Int).SetString(f[3], 10); !ok {
			return s
		}
		return strings.Join(f, " ")
	}
	return strip(got) == strip(want)
}

func clipS(s string, n int) string {
	if len(s) > n {
		return s[:n] + "…"
	}
	return s
}

func genTuple(t *rapid.T, label string) Tuple {
	s := genStr(t, label+"s")
	cn := counts(string(s))
	l := cn[1]
	var idx []Idx
	for i := 0; i < 2; i++ {
		idx = append(idx, genIdx(t, fmt.Sprintf("%si%d", label, i), cn))
	}
	return Tuple{S: s, T: genRelated(t, label+"t", s), C: genChar(t, label+"c", s),
		N: uni(t, -1, max(l, len(s))+4, label+"n"), Rep: uni(t, -1, 3, label+"rep"), Idx: idx}
}

func TestPrograms(t *testing.T) {
	pbt.Rule("programs", "Elk programs executed in the worker: 4 tuples (s, t, c, n, rep, 2 typed index literals) per program, drawn as in the value-level properties; for each tuple the program prints length/char_count/byte_count/grapheme_count, the elements of `for x in s`, s.iter, s.byte_iter, s.grapheme_iter, char_at / byte_at / grapheme_at with Int and sized-integer literals inside do/catch IndexError, rjust/ljust, + - * with String/Char/Int operands, uppercase/lowercase (valid UTF-8), <=> < <= > >= == against a String and a Char. Strings are written as \\xHH literals and printed as byte values. Oracle: every printed line equals the Go model (same model as the value-level properties). non-trivial = a receiver has a byte >= 0x80 / CRLF; distinct by source")
	worker = sb.New("debug")
	defer worker.Close()
	pbt.Run(t, pbt.Prop[ProgCase]{Name: "programs", Quick: 400, Thorough: 6000,
		Gen: func(t *rapid.T) ProgCase {
			var c ProgCase
			for i := 0; i < 4; i++ {
				c.Tuples = append(c.Tuples, genTuple(t, fmt.Sprintf("u%d", i)))
			}
			return c
		},
		Oracle: progOracle,
		Minimize: func(c ProgCase) ProgCase {
			// keep a single failing tuple
			for _, tu := range c.Tuples {
				one := ProgCase{Tuples: []Tuple{tu}}
				if progOracle(one, &pbt.Ctx{}) != nil {
					return one
				}
			}
			return c
		},
		Sample: func(c ProgCase) any {
			var out []string
			for _, tu := range c.Tuples {
				out = append(out, fmt.Sprintf("s=%s t=%s c=U+%04X n=%d rep=%d idx=%v", q(string(tu.S)), q(string(tu.T)), tu.C, tu.N, tu.Rep, tu.Idx))
			}
			return out
		}})
}

var _ = vgen.Pick
