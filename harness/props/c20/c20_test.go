// Package c20: String operations agree with code-point, byte and grapheme models.
package c20

import (
	"fmt"
	"math/big"
	"strings"
	"testing"
	"unicode/utf8"

	"github.com/elk-language/elk"
	"github.com/elk-language/elk/env"
	"github.com/elk-language/elk/value"
	"github.com/elk-language/elk/vm"
	"pgregory.net/rapid"

	"verif/internal/pbt"
	"verif/internal/vgen"
)

var th *vm.Thread

func TestMain(m *testing.M) {
	if env.ELKPATH == "" {
		env.ELKPATH = "/repo"
	}
	elk.InitGlobalEnvironment()
	th = vm.New()
	pbt.Main(m, "C20")
}

// ---------------------------------------------------------------------------
// generators

var pieces = []string{
	// ASCII, controls, line ends
	"a", "b", "Z", "z", "0", " ", "-", "~", "ab", "Foo", "\x00", "\n", "\r", "\r\n", "\t", "\x7f",
	// two-byte
	"é", "É", "ß", "ÿ", "İ", "ı", "ǆ", "ǅ", "Ω", "σ", "ς", "µ", "\u0080", " ", "ż",
	// combining marks and sequences
	"é", "́", "ạ̈", "̈", "ố",
	// three-byte
	"日", "本", "ẞ", "K", "�", "‍", "️", "각", "한", "ᄀ", " ", "€",
	// scripts with prepend / spacing marks
	"नि", "क्ष", "กำ", "؀", "ः",
	// four-byte, emoji sequences, regional indicators
	"😀", "👨‍👩‍👧", "👍🏽", "🇵🇱", "🇵", "𐐷", "𐐏", "\U0010ffff", "👨🏻‍💻", "❤️", "🏽",
	// invalid UTF-8
	"\xff", "\xc3", "\x80", "\xbf", "\xe6\x97", "\xed\xa0\x80", "\xc0\x80", "\xf4\x90\x80\x80", "\xf0\x9f\x98", "\xfe", "\xc3\x28", "\xe2\x82",
}

// genStr draws string bytes: vgen.Str, a concatenation of pieces, random bytes,
// and truncations that cut an encoding in the middle.
func genStr(t *rapid.T, label string) []byte {
	var b []byte
	switch vgen.Pick(t, 8, label+"_how") {
	case 0:
		b = vgen.Str(t, label)
	case 1:
		b = []byte(rapid.StringN(0, 6, -1).Draw(t, label+"_rs"))
	default:
		n := uni(t, 1, 6, label+"_n") // uniform: rapid's own integer draws are biased to small values
		if vgen.Pick(t, 16, label+"_empty") == 0 {
			n = 0
		}
		for i := 0; i < n; i++ {
			if vgen.Pick(t, 10, label+"_raw") == 0 {
				b = append(b, byte(rapid.IntRange(0, 255).Draw(t, label+"_byte")))
			} else {
				b = append(b, pieces[vgen.Pick(t, len(pieces), label+"_p")]...)
			}
		}
	}
	if len(b) > 0 && vgen.Pick(t, 8, label+"_cut") == 0 {
		// cut at an arbitrary byte position (often inside an encoding)
		if vgen.Pick(t, 2, label+"_cutside") == 0 {
			b = b[:rapid.IntRange(0, len(b)).Draw(t, label+"_cutat")]
		} else {
			b = b[rapid.IntRange(0, len(b)).Draw(t, label+"_cutat"):]
		}
	}
	if b == nil {
		b = []byte{}
	}
	return b
}

var charPool = []rune{'a', 'b', 'Z', '-', ' ', '0', '\n', '\r', 0, 0x7f, 0x80, 0xff, 'é', 'ß', 'ÿ', 'σ', 0x301, 0x308, 0x200d, 0xfe0f, 0xfffd, '日', '€', 0x1F600, 0x1F3FD, 0x1F1F5, 0x10437, 0x10ffff, 'İ', 'ǅ'}

// genChar draws a valid Unicode scalar value, often related to s (its last / first
// code point, or the code point whose value equals its last byte).
func genChar(t *rapid.T, label string, s []byte) int32 {
	cps := codePoints(string(s))
	if len(cps) > 0 {
		switch vgen.Pick(t, 6, label+"_rel") {
		case 0, 1:
			if c := cps[len(cps)-1]; validScalar(c.R) {
				return c.R // for an invalid last byte: the char with the byte's value
			}
		case 2:
			if c := cps[0]; validScalar(c.R) {
				return c.R
			}
		case 3:
			return 0xfffd
		}
	}
	return charPool[vgen.Pick(t, len(charPool), label+"_c")]
}

// uni draws uniformly from [lo, hi].
func uni(t *rapid.T, lo, hi int, label string) int {
	if hi <= lo {
		return lo
	}
	return lo + vgen.Pick(t, hi-lo+1, label)
}

// Idx is an index argument: the AnyInt kind and the decimal value.
type Idx struct {
	K string `json:"k"`
	V string `json:"v"`
}

var idxKinds = []string{"int", "i8", "i16", "i32", "i64", "u8", "u16", "u32", "u64", "uint"}

func fits(k string, v *big.Int) bool {
	if k == "int" {
		return true
	}
	lo, hi := vgen.KindRange(k)
	return v.Cmp(lo) >= 0 && v.Cmp(hi) <= 0
}

var hugeIdx = []string{
	"127", "128", "-128", "255", "256", "32767", "-32768", "65535", "65536", "2147483647", "2147483648", "-2147483648", "4294967295", "4294967296",
	"9223372036854775807", "-9223372036854775808", "9223372036854775808", "18446744073709551615", "18446744073709551616", "-9223372036854775809",
	"4611686018427387904", "-4611686018427387905", "18446744073709551614", "9223372036854775809", "340282366920938463463374607431768211456",
}

func genIdx(t *rapid.T, label string, counts [3]int) Idx {
	var v *big.Int
	if vgen.Pick(t, 6, label+"_huge") == 0 {
		v, _ = new(big.Int).SetString(hugeIdx[vgen.Pick(t, len(hugeIdx), label+"_hv")], 10)
	} else {
		n := counts[vgen.Pick(t, 3, label+"_which")]
		v = big.NewInt(int64(uni(t, -n-2, n+2, label+"_v")))
	}
	var ks []string
	for _, k := range idxKinds {
		if fits(k, v) {
			ks = append(ks, k)
		}
	}
	return Idx{K: ks[vgen.Pick(t, len(ks), label+"_k")], V: v.String()}
}

func (i Idx) build() value.Value { return vgen.Build(vgen.VSpec{K: i.K, S: i.V}) }

func (i Idx) big() *big.Int { b, _ := new(big.Int).SetString(i.V, 10); return b }

func counts(s string) [3]int {
	return [3]int{len(s), len(codePoints(s)), len(graphemes(s))}
}

// ---------------------------------------------------------------------------
// calling natives

func sym(n string) value.Symbol { return value.ToSymbol(n) }

func call(recv value.Value, name string, args ...value.Value) (value.Value, value.Value) {
	all := append([]value.Value{recv}, args...)
	return th.CallMethodByName(sym(name), all...)
}

func str(b []byte) value.Value { return value.Ref(value.String(b)) }

func errText(err value.Value) string {
	if err.IsUndefined() {
		return "<no error>"
	}
	return fmt.Sprintf("%s (%s)", err.Inspect(), err.Class().Name)
}

func q(s string) string { return fmt.Sprintf("%+q", s) }

func asInt(v value.Value) (int, bool) {
	if v.IsSmallInt() {
		return int(v.AsSmallInt()), true
	}
	return 0, false
}

func asStr(v value.Value) (string, bool) {
	if !v.IsReference() {
		return "", false
	}
	s, ok := v.AsReference().(value.String)
	return string(s), ok
}

func callInt(recv value.Value, name string, args ...value.Value) (int, error) {
	r, err := call(recv, name, args...)
	if !err.IsUndefined() {
		return 0, fmt.Errorf("%s.%s raised %s", recv.Inspect(), name, errText(err))
	}
	n, ok := asInt(r)
	if !ok {
		return 0, fmt.Errorf("%s.%s returned %s, not an Int", recv.Inspect(), name, r.Inspect())
	}
	return n, nil
}

func callStr(recv value.Value, name string, args ...value.Value) (string, error) {
	r, err := call(recv, name, args...)
	if !err.IsUndefined() {
		return "", fmt.Errorf("%s.%s raised %s", recv.Inspect(), name, errText(err))
	}
	s, ok := asStr(r)
	if !ok {
		return "", fmt.Errorf("%s.%s returned %s, not a String", recv.Inspect(), name, r.Inspect())
	}
	return s, nil
}

var stopIteration = value.ToSymbol("stop_iteration").ToValue()

// drain collects the elements of an Elk iterator (at most max+1 elements).
func drain(it value.Value, max int) ([]value.Value, error) {
	var out []value.Value
	for i := 0; i <= max+1; i++ {
		v, err := call(it, "next")
		if !err.IsUndefined() {
			if err != stopIteration {
				return nil, fmt.Errorf("iterator raised %s", errText(err))
			}
			// exhausted iterators must stay exhausted
			if _, err2 := call(it, "next"); err2 != stopIteration {
				return nil, fmt.Errorf("iterator yields %s after :stop_iteration", errText(err2))
			}
			return out, nil
		}
		out = append(out, v)
	}
	return nil, fmt.Errorf("iterator did not stop after %d elements", max+2)
}

// element descriptions used for comparison and messages

func descChar(v value.Value) string {
	if !v.IsChar() {
		return "non-Char " + v.Inspect()
	}
	return fmt.Sprintf("U+%04X", rune(v.AsChar()))
}

func descByte(v value.Value) string {
	if !v.IsUInt8() {
		return "non-UInt8 " + v.Inspect()
	}
	return fmt.Sprintf("0x%02x", uint8(v.AsUInt8()))
}

func descStr(v value.Value) string {
	s, ok := asStr(v)
	if !ok {
		return "non-String " + v.Inspect()
	}
	return q(s)
}

type view struct {
	name     string // bytes | chars | graphemes
	count    []string
	iter     []string
	at       []string
	want     []string // model elements, rendered
	desc     func(value.Value) string
	iterSelf bool
}

func views(s string) []view {
	var bs, cs, gs []string
	for i := 0; i < len(s); i++ {
		bs = append(bs, fmt.Sprintf("0x%02x", s[i]))
	}
	for _, c := range codePoints(s) {
		cs = append(cs, fmt.Sprintf("U+%04X", c.R))
	}
	for _, g := range graphemes(s) {
		gs = append(gs, q(g))
	}
	return []view{
		{name: "bytes", count: []string{"byte_count"}, iter: []string{"byte_iter"}, at: []string{"byte_at"}, want: bs, desc: descByte},
		{name: "chars", count: []string{"length", "char_count"}, iter: []string{"iter", "char_iter"}, at: []string{"char_at", "[]"}, want: cs, desc: descChar},
		{name: "graphemes", count: []string{"grapheme_count"}, iter: []string{"grapheme_iter"}, at: []string{"grapheme_at"}, want: gs, desc: descStr},
	}
}

// checkAt checks one indexed access against the model.
func checkAt(recv value.Value, s string, v view, method string, arg value.Value, idx *big.Int) error {
	got, err := call(recv, method, arg)
	n := len(v.want)
	pos, ok := 0, false
	if idx.IsInt64() {
		pos, ok = resolve(idx.Int64(), n)
	}
	what := fmt.Sprintf("%s.%s(%s) [%s, %d %s]", q(s), method, arg.Inspect(), arg.Class().Name, n, v.name)
	if ok {
		if !err.IsUndefined() {
			return fmt.Errorf("%s raised %s, want element %d = %s", what, errText(err), pos, v.want[pos])
		}
		if d := v.desc(got); d != v.want[pos] {
			return fmt.Errorf("%s returned %s, want element %d of the %s view = %s", what, d, pos, v.name, v.want[pos])
		}
		return nil
	}
	if err.IsUndefined() {
		return fmt.Errorf("%s returned %s, want an index-out-of-range error", what, v.desc(got))
	}
	obj, isObj := err.SafeAsReference().(*value.Object)
	if !isObj || obj.Class() != value.IndexErrorClass {
		return fmt.Errorf("%s raised %s, want Std::IndexError", what, errText(err))
	}
	msg, _ := asStr(obj.Message())
	wantMsg := fmt.Sprintf("index %s out of range: %d...%d", idx.String(), -n, n)
	// a fixed-width argument may also be rendered with its literal suffix (5u8)
	if msg != wantMsg && msg != fmt.Sprintf("index %s out of range: %d...%d", arg.Inspect(), -n, n) {
		return fmt.Errorf("%s raised IndexError %q, want message %q (the %s view has %d elements)", what, msg, wantMsg, v.name, n)
	}
	return nil
}

// ---------------------------------------------------------------------------
// property 1: counts, iterators and indexed access

type AccessCase struct {
	S   []byte `json:"s"`
	Idx []Idx  `json:"idx"`
}

func accessOracle(c AccessCase, ctx *pbt.Ctx) error {
	s := string(c.S)
	recv := str(c.S)
	ctx.Label("str:" + classOf(s))
	for _, v := range views(s) {
		n := len(v.want)
		for _, m := range v.count {
			got, err := callInt(recv, m)
			if err != nil {
				return err
			}
			if got != n {
				return fmt.Errorf("%s.%s == %d, but the %s view has %d elements %v", q(s), m, got, v.name, n, v.want)
			}
		}
		for _, m := range v.iter {
			it, err := call(recv, m)
			if !err.IsUndefined() {
				return fmt.Errorf("%s.%s raised %s", q(s), m, errText(err))
			}
			for round := 0; round < 2; round++ {
				elems, derr := drain(it, n)
				if derr != nil {
					return fmt.Errorf("%s.%s (round %d): %v", q(s), m, round, derr)
				}
				var got []string
				for _, e := range elems {
					got = append(got, v.desc(e))
				}
				if strings.Join(got, " ") != strings.Join(v.want, " ") {
					return fmt.Errorf("%s.%s (round %d) yields %v, want the %s view %v", q(s), m, round, got, v.name, v.want)
				}
				// iter of an iterator is the iterator; reset rewinds it
				self, err := call(it, "iter")
				if !err.IsUndefined() || self != it {
					return fmt.Errorf("%s.%s.iter is not the iterator itself", q(s), m)
				}
				if _, err := call(it, "reset"); !err.IsUndefined() {
					return fmt.Errorf("%s.%s.reset raised %s", q(s), m, errText(err))
				}
			}
			// partial consumption then reset
			if n > 1 {
				_, _ = call(it, "next")
				_, _ = call(it, "reset")
				first, err := call(it, "next")
				if !err.IsUndefined() || v.desc(first) != v.want[0] {
					return fmt.Errorf("%s.%s: after next+reset the iterator yields %s, want %s", q(s), m, v.desc(first), v.want[0])
				}
			}
		}
		for _, m := range v.at {
			for i := -n - 2; i <= n+2; i++ {
				if err := checkAt(recv, s, v, m, value.SmallInt(i).ToValue(), big.NewInt(int64(i))); err != nil {
					return err
				}
			}
			for _, ix := range c.Idx {
				if err := checkAt(recv, s, v, m, ix.build(), ix.big()); err != nil {
					return err
				}
			}
		}
	}
	// the Go-level iteration protocol used by native code (value.String.Iterate)
	{
		var got []string
		for e := range value.String(s).Iterate() {
			got = append(got, descChar(e))
		}
		want := views(s)[1].want
		if strings.Join(got, " ") != strings.Join(want, " ") {
			return fmt.Errorf("value.String(%s).Iterate() yields %v, want the chars view %v", q(s), got, want)
		}
	}
	// model-independent sanity of the grapheme view
	gs := graphemes(s)
	if strings.Join(gs, "") != s {
		return fmt.Errorf("MODEL: graphemes of %s do not concatenate to the string", q(s))
	}
	cn := counts(s)
	if !(cn[2] <= cn[1] && cn[1] <= cn[0]) {
		return fmt.Errorf("MODEL: counts of %s not ordered: %v", q(s), cn)
	}
	for _, ix := range c.Idx {
		ctx.Label("idxkind:" + ix.K)
		if !ix.big().IsInt64() || ix.big().CmpAbs(big.NewInt(1<<40)) > 0 {
			ctx.Label("idx:huge")
		}
	}
	if interesting(s) {
		ctx.NonTrivial(string(c.S) + fmt.Sprint(c.Idx))
	}
	return nil
}

func TestAccess(t *testing.T) {
	pbt.Rule("access", "strings = 0..6 pieces from a table (ASCII, NUL, CR/LF/CRLF, 2/3/4-byte runes, combining marks alone and in sequences, Hangul jamo, Indic/Thai clusters, ZWJ / skin-tone / flag emoji, lone regional indicator, U+FFFD, invalid UTF-8: lone continuation/lead bytes, truncated 3- and 4-byte encodings, surrogate, overlong, >U+10FFFF) mixed with raw random bytes, vgen.Str, random Unicode strings and cuts at arbitrary byte offsets; every index in [-n-2, n+2] as Int for each view plus 3 drawn indices of a random AnyInt kind (Int incl. big, Int8..UInt64, UInt), 1/6 of them far outside (2^7..2^128 boundaries). Oracle: byte_count/length/char_count/grapheme_count == number of elements of byte_iter/iter/char_iter/grapheme_iter == model (utf8: an invalid byte is one element; uniseg Graphemes), iterators yield the model elements, stay exhausted, reset rewinds; byte_at/char_at/[]/grapheme_at(i) == i-th model element, negative from the end, otherwise Std::IndexError `index i out of range: -n...n`; value.String.Iterate agrees. non-trivial = the string contains a byte >= 0x80 or CRLF; distinct by string+indices")
	pbt.Run(t, pbt.Prop[AccessCase]{Name: "access", Quick: 60000, Thorough: 1500000,
		Gen: func(t *rapid.T) AccessCase {
			s := genStr(t, "s")
			cn := counts(string(s))
			var idx []Idx
			for i := 0; i < 3; i++ {
				idx = append(idx, genIdx(t, fmt.Sprintf("i%d", i), cn))
			}
			return AccessCase{S: s, Idx: idx}
		},
		Oracle: accessOracle,
		Sample: func(c AccessCase) any { return map[string]any{"s": q(string(c.S)), "idx": c.Idx} }})
}

// ---------------------------------------------------------------------------
// property 2: rjust / ljust

type JustCase struct {
	S []byte `json:"s"`
	N int    `json:"n"`
	C int32  `json:"c"`
}

func justOracle(c JustCase, ctx *pbt.Ctx) error {
	s := string(c.S)
	recv := str(c.S)
	l := len(codePoints(s))
	ctx.Label("str:" + classOf(s))
	switch {
	case c.N < l:
		ctx.Label("n<length")
	case c.N == l:
		ctx.Label("n==length")
	case c.N <= len(s):
		ctx.Label("length<n<=bytes")
	default:
		ctx.Label("n>bytes")
	}
	for _, right := range []bool{true, false} {
		name := "ljust"
		if right {
			name = "rjust"
		}
		got, err := callStr(recv, name, value.SmallInt(c.N).ToValue(), value.Char(c.C).ToValue())
		if err != nil {
			return err
		}
		want := padModel(s, c.N, c.C, right)
		if got != want {
			return fmt.Errorf("%s.%s(%d, U+%04X) == %s (%d code points), want %s: the string has %d code points (%d bytes), so %d padding chars on the %s", q(s), name, c.N, c.C, q(got), len(codePoints(got)), q(want), l, len(s), max(0, c.N-l), map[bool]string{true: "left", false: "right"}[right])
		}
		// documented consequence: the result is max(n, length) code points long, through the implementation's own length
		gl, lerr := callInt(str([]byte(got)), "length")
		if lerr != nil {
			return lerr
		}
		if gl != max(c.N, l) {
			return fmt.Errorf("%s.%s(%d, U+%04X).length == %d, want max(%d, %d)", q(s), name, c.N, c.C, gl, c.N, l)
		}
	}
	if interesting(s) || c.C >= 0x80 {
		ctx.NonTrivial(fmt.Sprintf("%s|%d|%d", c.S, c.N, c.C))
	}
	return nil
}

func TestJust(t *testing.T) {
	pbt.Rule("just", "strings as in `access`; target length in [-2, length+12] biased to the interval between the code-point length and the byte length; padding char = valid scalar (ASCII, NUL, 2/3/4-byte, combining mark, ZWJ, U+FFFD). Oracle: rjust/ljust(n, c) == s with max(0, n - length) copies of c on the left/right, where length counts code points (an invalid byte is one) as `length` documents; result.length == max(n, length). non-trivial = string has a byte >= 0x80 / CRLF or the padding char is non-ASCII")
	pbt.Run(t, pbt.Prop[JustCase]{Name: "just", Quick: 40000, Thorough: 1000000,
		Gen: func(t *rapid.T) JustCase {
			s := genStr(t, "s")
			l := len(codePoints(string(s)))
			var n int
			switch vgen.Pick(t, 4, "nhow") {
			case 0:
				n = uni(t, l, max(l, len(s))+1, "n_between")
			case 1:
				n = uni(t, -2, l+1, "n_low")
			default:
				n = uni(t, -2, max(l, len(s))+12, "n")
			}
			return JustCase{S: s, N: n, C: genChar(t, "c", s)}
		},
		Oracle: justOracle,
		Sample: func(c JustCase) any { return map[string]any{"s": q(string(c.S)), "n": c.N, "c": fmt.Sprintf("U+%04X", c.C)} }})
}

// ---------------------------------------------------------------------------
// property 3: + - * with String / Char / Int operands

type ArithCase struct {
	S   []byte `json:"s"`
	T   []byte `json:"t"`
	C   int32  `json:"c"`
	Rep string `json:"rep"` // repeat count (decimal, may be negative or beyond Int64)
}

// genRelated draws the second operand: frequently a suffix (by bytes, code points or
// graphemes), the string itself, an extension, or a prefix of s.
func genRelated(t *rapid.T, label string, s []byte) []byte {
	str := string(s)
	switch vgen.Pick(t, 9, label+"_rel") {
	case 0:
		return s
	case 1: // suffix at a byte offset (may split an encoding)
		return []byte(str[rapid.IntRange(0, len(s)).Draw(t, label+"_boff"):])
	case 2: // suffix at a code point boundary
		cps := codePoints(str)
		if len(cps) > 0 {
			return []byte(str[cps[rapid.IntRange(0, len(cps)-1).Draw(t, label+"_coff")].Off:])
		}
	case 3: // suffix at a grapheme boundary
		gs := graphemes(str)
		if len(gs) > 0 {
			return []byte(strings.Join(gs[rapid.IntRange(0, len(gs)-1).Draw(t, label+"_goff"):], ""))
		}
	case 4: // prefix
		return []byte(str[:rapid.IntRange(0, len(s)).Draw(t, label+"_pre")])
	case 5: // extension
		return append(append([]byte{}, s...), genStr(t, label+"_ext")...)
	case 6: // something + suffix
		return append(genStr(t, label+"_pfx"), s...)
	}
	return genStr(t, label)
}

func arithOracle(c ArithCase, ctx *pbt.Ctx) error {
	s, o := string(c.S), string(c.T)
	recv := str(c.S)
	ch := value.Char(c.C).ToValue()
	chs := string(rune(c.C))
	ctx.Label("str:" + classOf(s))

	// + / concat
	for _, m := range []string{"+", "concat"} {
		got, err := callStr(recv, m, str(c.T))
		if err != nil {
			return err
		}
		if got != s+o {
			return fmt.Errorf("%s %s %s == %s, want %s", q(s), m, q(o), q(got), q(s+o))
		}
		// counts are additive in bytes; the byte view of the result is the concatenation
		got, err = callStr(recv, m, ch)
		if err != nil {
			return err
		}
		if got != s+chs {
			return fmt.Errorf("%s %s Char U+%04X == %s, want %s", q(s), m, c.C, q(got), q(s+chs))
		}
	}
	// - / remove_suffix
	for _, m := range []string{"-", "remove_suffix"} {
		got, err := callStr(recv, m, str(c.T))
		if err != nil {
			return err
		}
		want := removeSuffixModel(s, o)
		if got != want {
			return fmt.Errorf("%s %s %s == %s, want %s", q(s), m, q(o), q(got), q(want))
		}
		got, err = callStr(recv, m, ch)
		if err != nil {
			return err
		}
		want = removeSuffixModel(s, chs)
		if got != want {
			return fmt.Errorf("%s %s Char U+%04X == %s, want %s (the string %s with the encoding of the char)", q(s), m, c.C, q(got), q(want), map[bool]string{true: "ends", false: "does not end"}[strings.HasSuffix(s, chs)])
		}
	}
	if strings.HasSuffix(s, o) && o != "" {
		ctx.Label("suffix:string_hit")
	}
	if strings.HasSuffix(s, chs) {
		ctx.Label("suffix:char_hit")
	}
	// (s + x) - x == s
	for _, x := range []value.Value{str(c.T), ch} {
		sum, err := callStr(recv, "+", x)
		if err != nil {
			return err
		}
		back, err := callStr(str([]byte(sum)), "-", x)
		if err != nil {
			return err
		}
		if back != s {
			return fmt.Errorf("(%s + %s) - %s == %s, want the original string", q(s), x.Inspect(), x.Inspect(), q(back))
		}
	}
	// * / repeat
	rep, _ := new(big.Int).SetString(c.Rep, 10)
	repV := vgen.ElkInt(rep)
	for _, m := range []string{"*", "repeat"} {
		got, err := call(recv, m, repV)
		switch {
		case rep.Sign() < 0 || !rep.IsInt64():
			ctx.Label("repeat:error")
			obj, isObj := err.SafeAsReference().(*value.Object)
			if err.IsUndefined() || !isObj || obj.Class() != value.OutOfRangeErrorClass {
				return fmt.Errorf("%s %s %s: got %s / %s, want Std::OutOfRangeError", q(s), m, c.Rep, got.Inspect(), errText(err))
			}
		default:
			if !err.IsUndefined() {
				return fmt.Errorf("%s %s %s raised %s", q(s), m, c.Rep, errText(err))
			}
			gs, ok := asStr(got)
			want := strings.Repeat(s, int(rep.Int64()))
			if !ok || gs != want {
				return fmt.Errorf("%s %s %s == %s, want %s", q(s), m, c.Rep, got.Inspect(), q(want))
			}
			// byte_count scales with n, and so does length for valid UTF-8 (graphemes need not: clusters can merge at the seams)
			for _, cm := range []string{"length", "byte_count"} {
				if cm == "length" && hasInvalid(s) {
					continue // a truncated encoding can be completed by the next copy
				}
				a, e1 := callInt(recv, cm)
				b, e2 := callInt(got, cm)
				if e1 != nil || e2 != nil || b != a*int(rep.Int64()) {
					return fmt.Errorf("(%s * %s).%s == %d, want %d * %s", q(s), c.Rep, cm, b, a, c.Rep)
				}
			}
		}
	}
	if interesting(s) || interesting(o) || c.C >= 0x80 {
		ctx.NonTrivial(fmt.Sprintf("%s|%s|%d|%s", c.S, c.T, c.C, c.Rep))
	}
	return nil
}

func TestArith(t *testing.T) {
	pbt.Rule("arith", "s as in `access`; second operand related to s (s itself, suffix at a byte / code-point / grapheme boundary, prefix, extension, fresh); Char operand = last/first code point of s, the char whose value equals an invalid last byte, U+FFFD, or a pool char; repeat count in [-1, 5] (uniform), 1/6 a negative boundary or a BigInt. Oracle: `+`/concat == byte concatenation (Char: its UTF-8 encoding); `-`/remove_suffix removes the operand iff the string ends with it (byte-wise; Char: its encoding), else returns the string unchanged; (s + x) - x == s; `*`/repeat == n copies, byte_count (and for valid UTF-8 length) scale by n, negative or BigInt count raises Std::OutOfRangeError. non-trivial = an operand has a byte >= 0x80 / CRLF")
	pbt.Run(t, pbt.Prop[ArithCase]{Name: "arith", Quick: 40000, Thorough: 1000000,
		Gen: func(t *rapid.T) ArithCase {
			s := genStr(t, "s")
			o := genRelated(t, "t", s)
			var rep string
			if vgen.Pick(t, 6, "rephow") == 0 {
				rep = []string{"-1", "-9223372036854775808", "-3", "9223372036854775808", "18446744073709551616", "-4611686018427387905", "-340282366920938463463374607431768211456", "340282366920938463463374607431768211456"}[vgen.Pick(t, 8, "repbig")]
			} else {
				rep = fmt.Sprint(uni(t, -1, 5, "rep"))
			}
			return ArithCase{S: s, T: o, C: genChar(t, "c", s), Rep: rep}
		},
		Oracle: arithOracle,
		Sample: func(c ArithCase) any {
			return map[string]any{"s": q(string(c.S)), "t": q(string(c.T)), "c": fmt.Sprintf("U+%04X", c.C), "rep": c.Rep}
		}})
}

// ---------------------------------------------------------------------------
// property 4: case mapping

type CaseCase struct {
	S []byte `json:"s"`
}

func caseOracle(c CaseCase, ctx *pbt.Ctx) error {
	s := string(c.S)
	recv := str(c.S)
	ctx.Label("str:" + classOf(s))
	changed := false
	for _, upper := range []bool{true, false} {
		name := "lowercase"
		if upper {
			name = "uppercase"
		}
		got, err := callStr(recv, name)
		if err != nil {
			return err
		}
		want := caseModel(s, upper)
		if ok, at := matchCase(got, want); !ok {
			var ws []string
			for _, e := range want {
				if e.Invalid {
					ws = append(ws, fmt.Sprintf("<byte 0x%02x or U+FFFD>", e.B))
				} else {
					ws = append(ws, q(e.Text))
				}
			}
			return fmt.Errorf("%s.%s == %s, want the per-code-point simple case mapping %v (first difference at code point %d)", q(s), name, q(got), ws, at)
		}
		if got != s {
			changed = true
		}
		// one-to-one mapping: the code point count is unchanged
		gl, lerr := callInt(str([]byte(got)), "length")
		if lerr != nil {
			return lerr
		}
		if gl != len(want) {
			return fmt.Errorf("%s.%s.length == %d, want %d", q(s), name, gl, len(want))
		}
		// idempotence
		again, err := callStr(str([]byte(got)), name)
		if err != nil {
			return err
		}
		if again != got && utf8.ValidString(s) {
			// U+0345 / titlecase digraphs are stable under the simple mapping as well
			return fmt.Errorf("%s.%s == %s but applying %s again gives %s", q(s), name, q(got), name, q(again))
		}
	}
	if changed {
		ctx.Label("changed")
	}
	if interesting(s) {
		ctx.NonTrivial(string(c.S))
	}
	return nil
}

func TestCase(t *testing.T) {
	pbt.Rule("case", "strings as in `access` with extra cased letters (ASCII, Latin-1, ß ẞ İ ı ǆ ǅ σ ς µ K Deseret 𐐷/𐐏). Oracle: uppercase/lowercase == every code point through unicode.ToUpper/ToLower (simple one-to-one mapping: `all of the characters ... turned into uppercase`), code point count unchanged, idempotent; an invalid byte may stay or become U+FFFD (not documented; both accepted). non-trivial = string has a byte >= 0x80 / CRLF")
	pbt.Run(t, pbt.Prop[CaseCase]{Name: "case", Quick: 30000, Thorough: 600000,
		Gen:    func(t *rapid.T) CaseCase { return CaseCase{S: genStr(t, "s")} },
		Oracle: caseOracle,
		Sample: func(c CaseCase) any { return q(string(c.S)) }})
}

// ---------------------------------------------------------------------------
// property 5: comparison

type CmpCase struct {
	A []byte `json:"a"`
	B []byte `json:"b"`
	C int32  `json:"c"`
}

func cmpOracle(c CmpCase, ctx *pbt.Ctx) error {
	a, b := string(c.A), string(c.B)
	ctx.Label("str:" + classOf(a))
	check := func(x string, y value.Value, ys string, what string) error {
		want := cmpModel(x, ys)
		ctx.Label(fmt.Sprintf("cmp:%d", want))
		recv := str([]byte(x))
		got, err := callInt(recv, "<=>", y)
		if err != nil {
			return err
		}
		if got != want {
			return fmt.Errorf("%s <=> %s == %d, want %d", q(x), what, got, want)
		}
		for _, op := range []struct {
			name string
			want bool
		}{{"<", want < 0}, {"<=", want <= 0}, {">", want > 0}, {">=", want >= 0}} {
			r, err := call(recv, op.name, y)
			if !err.IsUndefined() {
				return fmt.Errorf("%s %s %s raised %s", q(x), op.name, what, errText(err))
			}
			if !r.IsBool() {
				return fmt.Errorf("%s %s %s returned %s, not a bool", q(x), op.name, what, r.Inspect())
			}
			if r.IsTrue() != op.want {
				return fmt.Errorf("%s %s %s == %s, want %v (<=> model: %d)", q(x), op.name, what, r.Inspect(), op.want, want)
			}
		}
		return nil
	}
	if err := check(a, str(c.B), b, q(b)); err != nil {
		return err
	}
	if err := check(b, str(c.A), a, q(a)); err != nil {
		return err
	}
	if err := check(a, value.Char(c.C).ToValue(), string(rune(c.C)), fmt.Sprintf("Char U+%04X", c.C)); err != nil {
		return err
	}
	// == is byte equality between strings
	r, err := call(str(c.A), "==", str(c.B))
	if !err.IsUndefined() || !r.IsBool() || r.IsTrue() != (a == b) {
		return fmt.Errorf("%s == %s gives %s / %s, want %v", q(a), q(b), r.Inspect(), errText(err), a == b)
	}
	if a == b {
		h1, _ := call(str(c.A), "hash")
		h2, _ := call(str(c.B), "hash")
		if h1 != h2 {
			return fmt.Errorf("equal strings %s hash differently", q(a))
		}
	}
	if interesting(a) || interesting(b) {
		ctx.NonTrivial(fmt.Sprintf("%s|%s|%d", c.A, c.B, c.C))
	}
	return nil
}

func TestCompare(t *testing.T) {
	pbt.Rule("compare", "pairs (a, b) with b related to a (equal, prefix, suffix, extension, fresh) plus a Char operand (1/6: a is exactly that one-char string); Oracle: <=> == lexicographic order of the code-point sequences (raw bytes when a string is invalid UTF-8), in {-1,0,1}; < <= > >= agree with it, in both argument orders and against a Char (compared as its one-char string); == between strings is byte equality and implies equal hash. non-trivial = an operand has a byte >= 0x80 / CRLF")
	pbt.Run(t, pbt.Prop[CmpCase]{Name: "compare", Quick: 30000, Thorough: 600000,
		Gen: func(t *rapid.T) CmpCase {
			a := genStr(t, "a")
			c := genChar(t, "c", a)
			if vgen.Pick(t, 6, "a_is_c") == 0 {
				a = []byte(string(rune(c))) // the one-char string equal to the Char operand
			}
			return CmpCase{A: a, B: genRelated(t, "b", a), C: c}
		},
		Oracle: cmpOracle,
		Sample: func(c CmpCase) any {
			return map[string]any{"a": q(string(c.A)), "b": q(string(c.B)), "c": fmt.Sprintf("U+%04X", c.C)}
		}})
}
