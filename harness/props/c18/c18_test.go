package c18

import (
	"math"
	mbig "math/big"
	"fmt"
	"testing"

	"github.com/elk-language/elk"
	"github.com/elk-language/elk/env"
	"github.com/elk-language/elk/value"
	"github.com/elk-language/elk/vm"
	"pgregory.net/rapid"

	"verif/internal/pbt"
	"verif/internal/vgen"
)

var th *vm.Thread

func TestMain(m *testing.M) {
	if env.ELKPATH == "" {
		env.ELKPATH = "/repo"
	}
	elk.InitGlobalEnvironment()
	th = vm.New()
	pbt.Main(m, "C18")
}

type Pair struct {
	A vgen.VSpec `json:"a"`
	B vgen.VSpec `json:"b"`
}

type Triple struct {
	A vgen.VSpec `json:"a"`
	B vgen.VSpec `json:"b"`
	C vgen.VSpec `json:"c"`
}

// related draws b from a: same value, same number in another kind, or fresh.
func related(t *rapid.T, a vgen.VSpec, depth int) vgen.VSpec {
	switch rapid.IntRange(0, 4).Draw(t, "rel") {
	case 0:
		return a // structurally identical (separately built) value
	case 1, 2:
		if vgen.IsNumber(a) {
			if r, inf, ok := vgen.Exact(a); ok && inf == 0 && r.IsInt() {
				n := r.Num()
				k := rapid.SampledFrom([]string{"int", "float", "f64", "f32", "bigfloat", "i8", "i16", "i32", "i64", "u8", "u16", "u32", "u64", "uint"}).Draw(t, "rk")
				switch k {
				case "int":
					// the same integer, possibly produced by the runtime through another route
					// (negation, n-1+1, n+1-1, 2n/2): representation independence of == and hash
					if r := rapid.IntRange(0, 4).Draw(t, "route"); r > 0 {
						return vgen.VSpec{K: "int", S: n.String(), B: []byte{byte(r)}}
					}
					return vgen.VSpec{K: "int", S: n.String()}
				case "float", "f64", "f32", "bigfloat":
					f, _ := r.Float64()
					s := vgen.Number(t, "dummy")
					_ = s
					return floatSpec(k, f)
				default:
					return vgen.VSpec{K: k, S: vgen.Wrap(k, n).String()}
				}
			}
		}
		return vgen.Any(t, "b", depth)
	default:
		return vgen.Any(t, "b", depth)
	}
}

func floatSpec(k string, f float64) vgen.VSpec {
	switch k {
	case "bigfloat":
		return vgen.VSpec{K: "bigfloat", S: fmt.Sprintf("%v", f)}
	case "f32":
		return vgen.VSpec{K: "f32", S: fmt.Sprintf("%x", f32bits(float32(f)))}
	}
	return vgen.VSpec{K: k, S: fmt.Sprintf("%x", f64bits(f))}
}

type cmpRes struct {
	ok  bool // defined (no error)
	val bool
	cmp int
}

func rel(f func(*vm.Thread, value.Value, value.Value) (value.Value, value.Value), a, b value.Value) cmpRes {
	r, err := f(th, a, b)
	if !err.IsUndefined() || r.IsUndefined() {
		return cmpRes{}
	}
	return cmpRes{ok: true, val: value.Truthy(r)}
}

func compare(a, b value.Value) cmpRes {
	r, err := value.CompareVal(a, b)
	if !err.IsUndefined() || r.IsUndefined() || !r.IsSmallInt() {
		return cmpRes{}
	}
	return cmpRes{ok: true, cmp: int(r.AsSmallInt())}
}

func eq(a, b value.Value) (bool, bool) {
	r, err := vm.Equal(th, a, b)
	if !err.IsUndefined() || r.IsUndefined() {
		return false, false
	}
	return value.Truthy(r), true
}

func hash(a value.Value) (value.UInt64, bool) {
	h, err := vm.Hash(th, a)
	return h, err.IsUndefined()
}

func pairOracle(p Pair, ctx *pbt.Ctx) error {
	a, b := vgen.Build(p.A), vgen.Build(p.B)
	nan := vgen.ContainsNaN(p.A) || vgen.ContainsNaN(p.B)
	// reflexivity
	if !vgen.ContainsNaN(p.A) {
		if r, ok := eq(a, vgen.Build(p.A)); ok && !r {
			return fmt.Errorf("== is not reflexive: %s == %s is false", a.Inspect(), a.Inspect())
		}
		h1, ok1 := hash(a)
		h2, ok2 := hash(vgen.Build(p.A))
		if isColl(p.A) && pbt.KnownActive(kCollHash) {
			ctx.Excluded(kCollHash)
		} else if ok1 && ok2 && h1 != h2 {
			return fmt.Errorf("two structurally identical values hash differently: %s", a.Inspect())
		}
	}
	// symmetry, == => hash
	ab, ok1 := eq(a, b)
	ba, ok2 := eq(b, a)
	if ok1 && ok2 && ab != ba {
		return fmt.Errorf("== is not symmetric: (%s == %s) is %v but (%s == %s) is %v", a.Inspect(), b.Inspect(), ab, b.Inspect(), a.Inspect(), ba)
	}
	if ok1 && ab {
		ctx.Label("equal_pair")
		ha, oka := hash(a)
		hb, okb := hash(b)
		if (isColl(p.A) || isColl(p.B)) && pbt.KnownActive(kCollHash) {
			ctx.Excluded(kCollHash)
		} else if oka != okb {
			return fmt.Errorf("%s == %s but only one of them is hashable", a.Inspect(), b.Inspect())
		}
		if oka && ha != hb && !((isColl(p.A) || isColl(p.B)) && pbt.KnownActive(kCollHash)) {
			return fmt.Errorf("%s (%s) == %s (%s) but hashes differ: %d vs %d", a.Inspect(), a.Class().Name, b.Inspect(), b.Class().Name, ha, hb)
		}
	}
	if vgen.IsNumber(p.A) && vgen.IsNumber(p.B) && !nan {
		lt, gt, le, ge := rel(vm.LessThan, a, b), rel(vm.GreaterThan, a, b), rel(vm.LessThanEqual, a, b), rel(vm.GreaterThanEqual, a, b)
		ltR, gtR, leR, geR := rel(vm.LessThan, b, a), rel(vm.GreaterThan, b, a), rel(vm.LessThanEqual, b, a), rel(vm.GreaterThanEqual, b, a)
		lax, laxR := rel(vm.LaxEqual, a, b), rel(vm.LaxEqual, b, a)
		c, cR := compare(a, b), compare(b, a)
		all := lt.ok && gt.ok && le.ok && ge.ok && ltR.ok && gtR.ok && leR.ok && geR.ok && lax.ok && laxR.ok && c.ok && cR.ok
		if all {
			ctx.Label("comparable:" + p.A.K + "," + p.B.K)
			d := fmt.Sprintf("a=%s (%s) b=%s (%s)", a.Inspect(), a.Class().Name, b.Inspect(), b.Class().Name)
			switch {
			case lt.val != (c.cmp < 0):
				return fmt.Errorf("a < b is %v but a <=> b is %d; %s", lt.val, c.cmp, d)
			case gt.val != (c.cmp > 0):
				return fmt.Errorf("a > b is %v but a <=> b is %d; %s", gt.val, c.cmp, d)
			case lax.val != (c.cmp == 0):
				return fmt.Errorf("a =~ b is %v but a <=> b is %d; %s", lax.val, c.cmp, d)
			case le.val != (lt.val || lax.val):
				return fmt.Errorf("a <= b is %v but a < b is %v and a =~ b is %v; %s", le.val, lt.val, lax.val, d)
			case ge.val != (gt.val || lax.val):
				return fmt.Errorf("a >= b is %v but a > b is %v and a =~ b is %v; %s", ge.val, gt.val, lax.val, d)
			case lt.val != gtR.val:
				return fmt.Errorf("a < b is %v but b > a is %v; %s", lt.val, gtR.val, d)
			case gt.val != ltR.val:
				return fmt.Errorf("a > b is %v but b < a is %v; %s", gt.val, ltR.val, d)
			case le.val != geR.val:
				return fmt.Errorf("a <= b is %v but b >= a is %v; %s", le.val, geR.val, d)
			case lax.val != laxR.val:
				return fmt.Errorf("a =~ b is %v but b =~ a is %v; %s", lax.val, laxR.val, d)
			case c.cmp != -cR.cmp:
				return fmt.Errorf("a <=> b is %d but b <=> a is %d; %s", c.cmp, cR.cmp, d)
			}
			if ok1 && ab && !lax.val {
				return fmt.Errorf("a == b but not a =~ b; %s", d)
			}
		} else {
			ctx.Label("comparison_undefined")
		}
	}
	if p.A.K != p.B.K || big(p.A) || big(p.B) {
		ctx.NonTrivial(p.A.String() + "|" + p.B.String())
	}
	return nil
}

const (
	kCollHash  = "collections-hash-by-identity"
	kLossyCmp  = "int-float-comparison-through-lossy-conversion"
)

func isColl(s vgen.VSpec) bool { return s.K == "list" || s.K == "tuple" || s.K == "pair" }

// lossy reports whether the specs contain an integer-kind operand that is not
// exactly representable in the mantissa of a float-kind operand also present
// (the input-side predicate of the known finding kLossyCmp).
func lossy(specs ...vgen.VSpec) bool {
	prec := 0
	for _, s := range specs {
		switch s.K {
		case "f32":
			prec = 24
		case "float", "f64", "bigfloat":
			if prec == 0 {
				prec = 53
			}
		}
	}
	if prec == 0 {
		return false
	}
	for _, s := range specs {
		switch s.K {
		case "int", "i8", "i16", "i32", "i64", "u8", "u16", "u32", "u64", "uint":
			n, _ := new(mbig.Int).SetString(s.S, 10)
			n.Abs(n)
			if n.BitLen()-int(n.TrailingZeroBits()) > prec {
				return true
			}
		case "float", "f64", "bigfloat":
			// a float64 that float32 cannot hold, compared through float32
			if prec == 24 {
				if r, inf, ok := vgen.Exact(s); ok && inf == 0 {
					f, _ := r.Float64()
					if float64(float32(f)) != f {
						return true
					}
				}
			}
		}
	}
	return false
}

func big(s vgen.VSpec) bool {
	if r, inf, ok := vgen.Exact(s); ok && inf == 0 {
		f, _ := r.Float64()
		return f >= 9007199254740992 || f <= -9007199254740992
	}
	return false
}

func tripleOracle(p Triple, ctx *pbt.Ctx) error {
	if vgen.ContainsNaN(p.A) || vgen.ContainsNaN(p.B) || vgen.ContainsNaN(p.C) {
		return nil
	}
	a, b, c := vgen.Build(p.A), vgen.Build(p.B), vgen.Build(p.C)
	d := fmt.Sprintf("a=%s (%s) b=%s (%s) c=%s (%s)", a.Inspect(), a.Class().Name, b.Inspect(), b.Class().Name, c.Inspect(), c.Class().Name)
	ab, bc, ac := rel(vm.LessThanEqual, a, b), rel(vm.LessThanEqual, b, c), rel(vm.LessThanEqual, a, c)
	if ab.ok && bc.ok && ac.ok {
		ctx.Label("le_defined")
		if ab.val && bc.val && !ac.val {
			return fmt.Errorf("<= is not transitive: a <= b and b <= c but not a <= c; %s", d)
		}
		if ab.val && bc.val {
			ctx.Label("le_chain")
		}
	}
	lab, lbc, lac := rel(vm.LessThan, a, b), rel(vm.LessThan, b, c), rel(vm.LessThan, a, c)
	if lab.ok && lbc.ok && lac.ok && lab.val && lbc.val && !lac.val {
		return fmt.Errorf("< is not transitive: a < b and b < c but not a < c; %s", d)
	}
	xab, xbc, xac := rel(vm.LaxEqual, a, b), rel(vm.LaxEqual, b, c), rel(vm.LaxEqual, a, c)
	if xab.ok && xbc.ok && xac.ok {
		if xab.val && xbc.val && !xac.val {
			return fmt.Errorf("=~ is not transitive: a =~ b and b =~ c but not a =~ c; %s", d)
		}
		if xab.val && xbc.val {
			ctx.Label("laxeq_chain")
		}
	}
	eab, ok1 := eq(a, b)
	ebc, ok2 := eq(b, c)
	eac, ok3 := eq(a, c)
	if ok1 && ok2 && ok3 && eab && ebc && !eac {
		return fmt.Errorf("== is not transitive; %s", d)
	}
	if !(p.A.K == p.B.K && p.B.K == p.C.K) || big(p.A) || big(p.B) || big(p.C) {
		ctx.NonTrivial(p.A.String() + "|" + p.B.String() + "|" + p.C.String())
	}
	return nil
}

func TestPairs(t *testing.T) {
	pbt.Rule("pairs", "pairs (a,b) of values of every literal kind (Int small/big, Float, BigFloat, Float32/64, Int8..UInt64, UInt, String incl. invalid UTF-8, Char, Symbol, Bool, nil, lists/tuples/pairs to depth 2); b is frequently a itself rebuilt, or the same number in another numeric kind; laws: reflexivity (NaN-free), symmetry, a==b => hash(a)==hash(b), and for non-NaN numbers where every comparison is defined in both orders: lt==(cmp<0), gt==(cmp>0), laxeq==(cmp==0), le==lt||laxeq, ge==gt||laxeq, lt(a,b)==gt(b,a), cmp antisymmetric; non-trivial = operands of different kind or magnitude >= 2^53")
	pbt.Run(t, pbt.Prop[Pair]{Name: "pairs", Quick: 400000, Thorough: 20000000,
		Gen: func(t *rapid.T) Pair {
			a := vgen.Any(t, "a", 2)
			return Pair{a, related(t, a, 2)}
		}, Oracle: pairOracle,
		Known: []pbt.Known[Pair]{{Key: kLossyCmp, Match: func(p Pair) bool { return lossy(p.A, p.B) }}},
		Sample: func(p Pair) any { return p.A.String() + " vs " + p.B.String() }})
}

func TestTriples(t *testing.T) {
	pbt.Rule("triples", "triples of non-NaN numbers biased to the same magnitude in different kinds and to the 2^53 / 2^63 / 2^64 neighbourhoods; transitivity of <=, <, =~ and == wherever all three comparisons are defined; non-trivial = kinds differ or magnitude >= 2^53")
	pbt.Run(t, pbt.Prop[Triple]{Name: "triples", Quick: 200000, Thorough: 10000000,
		Gen: func(t *rapid.T) Triple {
			a := vgen.Number(t, "a")
			b := related(t, a, 0)
			if !vgen.IsNumber(b) {
				b = vgen.Number(t, "b2")
			}
			c := related(t, b, 0)
			if !vgen.IsNumber(c) {
				c = vgen.Number(t, "c2")
			}
			return Triple{a, b, c}
		}, Oracle: tripleOracle,
		Known: []pbt.Known[Triple]{{Key: kLossyCmp, Match: func(p Triple) bool { return lossy(p.A, p.B, p.C) }}},
		Sample: func(p Triple) any { return p.A.String() + " , " + p.B.String() + " , " + p.C.String() }})
}

func f64bits(f float64) uint64 { return math.Float64bits(f) }
func f32bits(f float32) uint32 { return math.Float32bits(f) }
