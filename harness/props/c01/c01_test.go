package c01

import (
	"fmt"
	"regexp"
	"strings"
	"testing"
	"time"

	"github.com/elk-language/elk/lexer"
	"pgregory.net/rapid"

	"verif/internal/corpus"
	"verif/internal/mini"
	"verif/internal/mrun"
	"verif/internal/pbt"
	sb "verif/internal/sandbox"
	"verif/internal/srcgen"
	"verif/internal/vgen"
)

func TestMain(m *testing.M) { pbt.Main(m, "C01") }

type Case struct {
	Src string `json:"src"`
	// number of do expressions generated without catch clauses under the catch-keeps-pending-operands restriction
	Pending int `json:"restricted_pending,omitempty"`
}

var worker *sb.Worker

// outcome class of the most recent oracle call (the test process is single-threaded)
var lastClass string

// process-terminating calls are documented behaviour, not crashes
func terminates(src string) bool {
	return strings.Contains(src, "exit")
}

// tokenEdit deletes / duplicates / swaps whole tokens or replaces one by a fragment.
func tokenEdit(t *rapid.T, s string) string {
	toks := lexer.Lex(s)
	if len(toks) < 3 {
		return s
	}
	i := rapid.IntRange(0, len(toks)-2).Draw(t, "ti")
	a, b := toks[i].Span(), toks[i+1].Span()
	if a == nil || b == nil || a.StartPos == nil || a.EndPos == nil || b.StartPos == nil || b.EndPos == nil {
		return s
	}
	as, ae, bs, be := a.StartPos.ByteOffset, a.EndPos.ByteOffset+1, b.StartPos.ByteOffset, b.EndPos.ByteOffset+1
	if !(0 <= as && as <= ae && ae <= bs && bs <= be && be <= len(s)) {
		return s
	}
	switch rapid.IntRange(0, 3).Draw(t, "te") {
	case 0:
		return s[:as] + s[ae:]
	case 1:
		return s[:ae] + " " + s[as:ae] + s[ae:]
	case 2:
		return s[:as] + s[bs:be] + s[ae:bs] + s[as:ae] + s[be:]
	default:
		return s[:as] + rapid.SampledFrom(srcgen.Fragments).Draw(t, "frag") + s[ae:]
	}
}

var riskFeatures = []string{"->", "~>", "yield", "await", "async", "go ", "Mutex", "WaitGroup", "Channel", "switch", "catch", "finally", "defer", "<<", "[", "macro", "for ", "while", "loop", "must", " as ", "?.", "??", "class ", "throw", "%/", "Once", "select"}

// classify refines the shared outcome classes: an uncaught error on a `go`
// thread makes the VM print the error report and exit(1) — that is a reported
// Elk error, not a crash.
func classify(res sb.Result) (string, string) {
	class, detail := sb.Classify(res)
	if class == sb.Fatal && res.Died && !strings.Contains(res.Stderr, "panic:") && !strings.Contains(res.Stderr, "fatal error:") &&
		!strings.Contains(res.Stderr, "SIGSEGV") && !strings.Contains(res.Stderr, "unexpected signal") &&
		strings.Contains(res.Stderr, "Error! Uncaught") && strings.Contains(res.ExitMsg, "exit status 1") {
		return sb.ElkError, "uncaught error reported by a background thread (process exit 1)"
	}
	return class, detail
}

func oracle(c Case, ctx *pbt.Ctx) error {
	if terminates(c.Src) {
		ctx.Label("skipped:calls_exit")
		return nil
	}
	res := worker.Do(sb.Req{Mode: "run", Source: c.Src}, 20*time.Second)
	class, detail := classify(res)
	lastClass = class
	ctx.Label("outcome:" + class)
	switch class {
	case sb.Timeout:
		// corpus programs may block or loop for ever by design
		pbt.Inconclusive()
		return nil
	case sb.GoPanic, sb.Fatal:
		return fmt.Errorf("program accepted by the type checker crashed the interpreter (%s):\n%s", class, mrun.Clip(detail, 2500))
	case sb.Rejected:
		return nil
	}
	run := res.Resp.Runs[0]
	if class == sb.ElkError && !strings.Contains(run.Stderr, "Error! Uncaught") {
		return fmt.Errorf("uncaught Elk error %s without an error report: stderr %q", run.ErrInspect, mrun.Clip(run.Stderr, 300))
	}
	n := 0
	for _, f := range riskFeatures {
		if strings.Contains(c.Src, f) {
			n++
			ctx.Label("feature:" + strings.TrimSpace(f))
		}
	}
	if n > 0 {
		ctx.NonTrivial(c.Src)
	}
	return nil
}

// corpusSrc draws a test-corpus program, possibly mutated or combined with another one.
func corpusSrc(t *rapid.T) string {
	progs := corpus.ByPkg("vm")
	progs = append(progs, corpus.ByPkg("compiler")...)
	progs = append(progs, corpus.ByPkg("types/checker")...)
	if len(progs) == 0 {
		return "1"
	}
	s := progs[rapid.IntRange(0, len(progs)-1).Draw(t, "ci")]
	switch rapid.IntRange(0, 5).Draw(t, "how") {
	case 0, 1, 2:
		return s
	case 3:
		return tokenEdit(t, s)
	case 4:
		return tokenEdit(t, tokenEdit(t, s))
	default:
		// two programs in one compilation unit (shared globals, more locals, more call sites)
		o := progs[rapid.IntRange(0, len(progs)-1).Draw(t, "cj")]
		return s + "\n" + o
	}
}

func TestCorpusPrograms(t *testing.T) {
	pbt.Rule("corpus_programs", "programs from the repo's own vm / compiler / checker tests (the ones the checker accepts), unchanged, with one or two token-level edits (delete, duplicate, swap, replace by a fragment) that the checker still accepts, or two programs concatenated; run on the bytecode VM (debug build: value-stack and ip bounds checks panic) in a worker process; outcome must be ok, an uncaught Elk error with an error report, or a stack limit; non-trivial = accepted, executed and uses at least one risk feature (closure, generator, async, thread, sync primitive, pattern, catch/finally/defer, collection literal, macro, loop...); distinct by source. Programs that call exit are skipped (counted)")
	worker = sb.New("debug")
	defer worker.Close()
	pbt.Run(t, pbt.Prop[Case]{Name: "corpus_programs", Quick: 2500, Thorough: 60000,
		Gen: func(t *rapid.T) Case { return Case{Src: corpusSrc(t)} }, Oracle: oracle,
		Known: []pbt.Known[Case]{{Key: kAttrPostfix, Match: func(c Case) bool { return attrPostfix.MatchString(c.Src) }}}})
}

// recorded finding (also C29 / C09): `recv.attr++` / `recv.attr--` compiles to bytecode that calls the setter
// without a receiver on the operand stack; programs that contain the shape are excluded and counted
const kAttrPostfix = "attribute-postfix-drops-receiver"

var attrPostfix = regexp.MustCompile(`\.\s*[A-Za-z_]\w*\s*(\+\+|--)`)

// collectionProgram: churn on the built-in collections (the std containers are written in Go with
// unchecked arithmetic: capacities, tombstones, index normalisation): fill / drain / refill histories over
// a tiny universe, in straight-line code and inside loops.
func collectionProgram(t *rapid.T) string {
	var b strings.Builder
	type coll struct{ name, kind string }
	var cs []coll
	n := 1 + vgen.Pick(t, 3, "ncoll")
	for i := 0; i < n; i++ {
		k := []string{"set", "map", "list", "set"}[vgen.Pick(t, 4, "ckind")]
		name := fmt.Sprintf("c%d", i)
		var init []string
		for j := vgen.Pick(t, 5, "ninit"); j > 0; j-- {
			init = append(init, fmt.Sprint(rapid.IntRange(0, 6).Draw(t, "iv")))
		}
		switch k {
		case "set":
			fmt.Fprintf(&b, "var %s: HashSet[Int] = ^[%s]\n", name, strings.Join(init, ", "))
		case "list":
			fmt.Fprintf(&b, "var %s: ArrayList[Int] = [%s]\n", name, strings.Join(init, ", "))
		default:
			var ps []string
			for _, v := range init {
				ps = append(ps, v+" => "+v)
			}
			fmt.Fprintf(&b, "var %s: HashMap[Int, Int] = {%s}\n", name, strings.Join(ps, ", "))
		}
		cs = append(cs, coll{name, k})
	}
	op := func(ind string) {
		c := cs[vgen.Pick(t, len(cs), "which")]
		v := rapid.IntRange(0, 6).Draw(t, "v")
		switch c.kind {
		case "set":
			switch vgen.Pick(t, 6, "sop") {
			case 0, 1:
				fmt.Fprintf(&b, "%s%s << %d\n", ind, c.name, v)
			case 2, 3:
				fmt.Fprintf(&b, "%s%s.remove(%d)\n", ind, c.name, v)
			case 4:
				fmt.Fprintf(&b, "%sprintln(%s.contains(%d).inspect)\n", ind, c.name, v)
			default:
				fmt.Fprintf(&b, "%sprintln(%s.length)\n", ind, c.name)
			}
		case "map":
			switch vgen.Pick(t, 4, "mop") {
			case 0, 1:
				fmt.Fprintf(&b, "%s%s[%d] = %d\n", ind, c.name, v, rapid.IntRange(0, 9).Draw(t, "mv"))
			case 2:
				fmt.Fprintf(&b, "%sprintln((%s[%d] ?? (-1)).inspect)\n", ind, c.name, v)
			default:
				fmt.Fprintf(&b, "%sprintln(%s.contains_key(%d).inspect, %s.length)\n", ind, c.name, v, c.name)
			}
		default:
			switch vgen.Pick(t, 8, "lop") {
			case 0, 1:
				fmt.Fprintf(&b, "%s%s << %d\n", ind, c.name, v)
			case 2:
				fmt.Fprintf(&b, "%s%s.pop\n", ind, c.name)
			case 3:
				fmt.Fprintf(&b, "%s%s.remove(%d)\n", ind, c.name, v)
			case 4:
				fmt.Fprintf(&b, "%sprintln(%s[%d].inspect)\n", ind, c.name, rapid.IntRange(-3, 6).Draw(t, "li"))
			case 5:
				fmt.Fprintf(&b, "%s%s[%d] = %d\n", ind, c.name, rapid.IntRange(-3, 6).Draw(t, "si"), v)
			case 6:
				fmt.Fprintf(&b, "%s%s.clear\n", ind, c.name)
			default:
				fmt.Fprintf(&b, "%sprintln(%s.length, %s.contains(%d).inspect)\n", ind, c.name, c.name, v)
			}
		}
	}
	for i := rapid.IntRange(4, 30).Draw(t, "nops"); i > 0; i-- {
		if vgen.Pick(t, 8, "loop") == 0 {
			// a drain / fill loop over the universe
			c := cs[vgen.Pick(t, len(cs), "lwhich")]
			verb := map[string][]string{"set": {"%s.remove(i)", "%s << i"}, "list": {"%s.remove(i)", "%s << i"}, "map": {"%s[i] = i", "%s[i] = i + 1"}}[c.kind][vgen.Pick(t, 2, "drainfill")]
			fmt.Fprintf(&b, "for i in 0...6\n  do\n    "+verb+"\n  catch e\n    println(\"err\")\n  end\nend\n", c.name)
			continue
		}
		b.WriteString("do\n")
		op("  ")
		b.WriteString("catch e\n  println(\"err\")\nend\n")
	}
	// list / tuple literals built at run time with explicit `index => value` elements: indices inside the part
	// built so far, exactly at its end, beyond it, and negative
	for i := vgen.Pick(t, 4, "nlit"); i > 0; i-- {
		x := fmt.Sprintf("x%d", i)
		n := 1 + vgen.Pick(t, 3, "litn")
		var es []string
		for j := 0; j < n; j++ {
			es = append(es, []string{x, x + " + 1", fmt.Sprint(j)}[vgen.Pick(t, 3, "lite")])
		}
		for j := 1 + vgen.Pick(t, 2, "nidx"); j > 0; j-- {
			idx := len(es) + vgen.Pick(t, 5, "idxoff") - 2
			key := fmt.Sprint(idx)
			if vgen.Pick(t, 3, "idxvar") == 0 {
				key = fmt.Sprintf("%s - %s + %d", x, x, idx)
			}
			es = append(es, key+" => "+x)
		}
		open := []string{"[", "%["}[vgen.Pick(t, 2, "littuple")]
		fmt.Fprintf(&b, "%s := %d\ndo\n  println(%s%s].inspect)\ncatch e\n  println(\"err\")\nend\n", x, vgen.Pick(t, 7, "x0"), open, strings.Join(es, ", "))
	}
	return b.String()
}

func TestCollectionPrograms(t *testing.T) {
	pbt.Rule("collection_programs", "generated programs that churn 1..3 built-in collections (HashSet[Int], HashMap[Int, Int], ArrayList[Int]) over the universe 0..6: insert, remove, lookup, pop, clear, subscript get/set with indices -3..6, drain and fill loops, every operation guarded by do/catch; whatever the history, the interpreter must not crash (errors are fine); non-trivial = executed; distinct by source")
	worker = sb.New("debug")
	defer worker.Close()
	pbt.Run(t, pbt.Prop[Case]{Name: "collection_programs", Quick: 800, Thorough: 30000,
		Gen: func(t *rapid.T) Case { return Case{Src: collectionProgram(t)} }, Oracle: oracle})
}

// declSrc: bodies (top level, module, class) whose statements are a shuffle of value-producing
// expressions and of every declaration-like statement that emits no code of its own; what matters is
// which kind of statement ends a body (the compiler must know that nothing was pushed for it).
func declSrc(t *rapid.T) string {
	n := 0
	fresh := func(p string) string { n++; return fmt.Sprintf("%s%d", p, n) }
	var body func(kind string, depth int, ind string) []string
	body = func(kind string, depth int, ind string) []string {
		var out []string
		var defs []string
		for i := rapid.IntRange(1, 6).Draw(t, "nstmts"); i > 0; i-- {
			switch vgen.Pick(t, 16, "decl") {
			case 0, 1:
				out = append(out, ind+fmt.Sprintf("println(%d)", rapid.IntRange(0, 9).Draw(t, "v")))
			case 2:
				out = append(out, ind+fmt.Sprintf("%d + %d", rapid.IntRange(0, 9).Draw(t, "a"), rapid.IntRange(0, 9).Draw(t, "b")))
			case 3:
				out = append(out, ind+"typedef "+fresh("T")+" = Int?")
			case 4:
				out = append(out, ind+"typedef "+fresh("G")+"[V] = V?")
			case 5:
				out = append(out, ind+"typedef "+fresh("H")+"[K, V < Int] = K | V")
			case 6:
				out = append(out, ind+"const "+fresh("K")+" = "+fmt.Sprint(rapid.IntRange(0, 99).Draw(t, "k")))
			case 7:
				d := fresh("m")
				defs = append(defs, d)
				out = append(out, ind+"def "+d+": Int then 1")
			case 8:
				if len(defs) > 0 {
					out = append(out, ind+"alias "+fresh("al")+" "+defs[len(defs)-1])
				}
			case 9:
				out = append(out, ind+"interface "+fresh("I")+"; end")
			case 10:
				out = append(out, ind+"mixin "+fresh("X")+"; end")
			case 11:
				if depth < 2 {
					nm := fresh("C")
					out = append(out, ind+"class "+nm)
					out = append(out, body("class", depth+1, ind+"  ")...)
					out = append(out, ind+"end")
				}
			case 12:
				if depth < 2 {
					nm := fresh("M")
					out = append(out, ind+"module "+nm)
					out = append(out, body("module", depth+1, ind+"  ")...)
					out = append(out, ind+"end")
				}
			case 13:
				if kind == "class" {
					out = append(out, ind+"attr "+fresh("at")+": Int?")
				}
			case 14:
				out = append(out, ind+"using Std::Sync::*")
			default:
				out = append(out, ind+"var "+fresh("v")+": Int = 3")
			}
		}
		return out
	}
	return strings.Join(body("top", 0, ""), "\n") + "\n"
}

func TestDeclarationPrograms(t *testing.T) {
	pbt.Rule("declaration_programs", "generated bodies (top level, module and class bodies nested up to depth 2) mixing value-producing expressions with declaration-like statements (typedef, generic typedef, const, def, alias, interface, mixin, class, module, attr, using, var) in every order; compiled and run: neither the compiler nor the VM may crash; non-trivial = accepted and executed; distinct by source")
	worker = sb.New("debug")
	defer worker.Close()
	pbt.Run(t, pbt.Prop[Case]{Name: "declaration_programs", Quick: 600, Thorough: 20000,
		Gen: func(t *rapid.T) Case { return Case{Src: declSrc(t)} },
		Oracle: func(c Case, ctx *pbt.Ctx) error {
			err := oracle(c, ctx)
			if err == nil && (lastClass == sb.OK || lastClass == sb.ElkError) {
				ctx.NonTrivial(c.Src)
			}
			return err
		}})
}

func TestMiniPrograms(t *testing.T) {
	pbt.Rule("mini_programs", "MiniElk programs with every generator feature on (loops, labelled jumps, throw/catch/finally, defer, methods, closures, maker methods, deep calls, lists, short-circuit operators), without the exclusions C13/C14 apply for their known findings: whatever the program does, the interpreter must not crash; non-trivial = executed and contains a closure, a catch/finally or a defer; distinct by source")
	worker = sb.New("debug")
	defer worker.Close()
	prof := mini.Control
	prof.Makers, prof.Deep, prof.ClosureBias = true, true, 2
	// recorded finding (C14, same key): a catch handler keeps the operands that were pending when the error was
	// thrown; a do/catch inside a catch clause or a finally block then corrupts the enclosing handler's operands,
	// which the VM reports as a Go panic (RETHROW reads a foreign slot). Excluded by construction, counted.
	prof.NoCatchInsideHandler = pbt.KnownActive(kPending)
	pbt.Run(t, pbt.Prop[Case]{Name: "mini_programs", Quick: 600, Thorough: 20000,
		Gen: func(t *rapid.T) Case {
			p := mini.Gen(t, prof)
			return Case{Src: p.Source(), Pending: p.RestrictedPending}
		},
		Oracle: func(c Case, ctx *pbt.Ctx) error {
			if c.Pending > 0 {
				ctx.Excluded(kPending)
			}
			if ctx.Replay {
				// deep-caught-throw-corrupts-frames (fixed 4eaf1af) was intermittent: a replay gets three more tries
				for i := 0; i < 3; i++ {
					if err := oracle(c, ctx); err != nil {
						return err
					}
				}
			}
			return oracle(c, ctx)
		}})
}

const kPending = "catch-keeps-pending-operands"
