package c01

import (
	"fmt"
	"os"
	"strings"
	"testing"
	"time"

	"verif/internal/corpus"
	sb "verif/internal/sandbox"
)

// developer aid: C01_SWEEP=1 runs every (unmutated) corpus program once and lists the crashing ones
func TestSweep(t *testing.T) {
	if os.Getenv("C01_SWEEP") == "" {
		t.Skip("developer aid")
	}
	w := sb.New("debug")
	defer w.Close()
	progs := corpus.ByPkg("vm")
	progs = append(progs, corpus.ByPkg("compiler")...)
	progs = append(progs, corpus.ByPkg("types/checker")...)
	n := 0
	out, _ := os.Create(os.Getenv("C01_SWEEP"))
	defer out.Close()
	var si, sn int
	fmt.Sscanf(os.Getenv("C01_SLICE"), "%d/%d", &si, &sn)
	if sn == 0 {
		sn = 1
	}
	for i, s := range progs {
		if terminates(s) || i%sn != si {
			continue
		}
		res := w.Do(sb.Req{Mode: "run", Source: s}, 8*time.Second)
		class, detail := classify(res)
		if class == sb.GoPanic || class == sb.Fatal {
			n++
			fmt.Fprintf(out, "=====CRASH %d (%s)\n%s\n-----\n%s\n", i, class, s, firstLines(detail, 14))
		}
	}
	fmt.Fprintf(out, "SWEEP: %d programs, %d crashes\n", len(progs), n)
}

func firstLines(s string, n int) string {
	l := strings.Split(s, "\n")
	if len(l) > n {
		l = l[:n]
	}
	return strings.Join(l, "\n")
}
