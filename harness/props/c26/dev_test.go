package c26

import (
	"os"
	"testing"
	"time"

	"pgregory.net/rapid"
)

// developer aid: C26_DEV=1 go test -run TestDevEngine -cpuprofile ... (in-process engine timing)
func TestDevEngine(t *testing.T) {
	if os.Getenv("C26_DEV") == "" {
		t.Skip("developer aid")
	}
	g := rapid.Custom(genCase)
	var cases []Case
	for i := 0; i < 300; i++ {
		cases = append(cases, g.Example(i))
	}
	start := time.Now()
	ov, fails := 0, 0
	for _, c := range cases {
		rs := serve(request{Case: c, Reps: 3})
		if rs.Err != "" || rs.Bad != "" {
			fails++
			if fails == 1 {
				t.Logf("first failure: %s %s", rs.Err, rs.Bad)
			}
		}
		if rs.Overlap > 0 {
			ov++
		}
	}
	t.Logf("%d cases, %v per case, cases with overlap %d, failing cases %d", len(cases), time.Since(start)/time.Duration(len(cases)), ov, fails)
}
