//go:build !race

package c26

const raceBuild = false

func raceErrors() int { return 0 }
